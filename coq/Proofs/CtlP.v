(* Proofs for C02, control flow: under the guard of Lang/StmtRef.v the declaration bookkeeping of
   if/elif/else, while, for, tuple assignment and function bodies (Lang/Decl.v) declares every name
   with the C type of its declared label, and every value any path of the reference semantics
   stores into a name is held by that label. *)
From Coq Require Import ZArith QArith List Bool Lia.
From RV Require Import Base.Wire Base.Text Lang.PyAst Lang.PySem Lang.Infer Lang.InferGuard Lang.InferSpec
  Lang.InferComp Lang.Decl Lang.DeclSpec Lang.FnSpec Lang.StmtRef Lang.CtlSpec Gen.InferTables
  Lang.Reads Proofs.InferP Proofs.JoinP Proofs.DeclP Proofs.FnP Proofs.CompP Proofs.ReadsP.
Import ListNotations.
Open Scope Z_scope.

Scheme stmt_mut := Induction for stmt Sort Prop
  with block_mut := Induction for block Sort Prop
  with branches_mut := Induction for branches Sort Prop
  with oblock_mut := Induction for oblock Sort Prop.

(* ------------------------------------------------------------------ association lists *)
Lemma tlookup_app {X} x (l1 l2 : list (ident * X)) :
  tlookup x (l1 ++ l2) = match tlookup x l1 with Some v => Some v | None => tlookup x l2 end.
Proof.
  induction l1 as [|[k v] r IH]; cbn; [reflexivity|].
  destruct (text_eqb x k); [reflexivity | exact IH].
Qed.

Lemma tlookup_map_snd {X Y} (f : X -> Y) x (l : list (ident * X)) :
  tlookup x (map (fun kv => (fst kv, f (snd kv))) l) = option_map f (tlookup x l).
Proof.
  induction l as [|[k v] r IH]; cbn; [reflexivity|].
  destruct (text_eqb x k); [reflexivity | exact IH].
Qed.

Lemma tlookup_map_key {Y} (h : ident -> Y) x (l : list ident) :
  tlookup x (map (fun y => (y, h y)) l) = if tmem x l then Some (h x) else None.
Proof.
  induction l as [|k r IH]; cbn; [reflexivity|].
  destruct (text_eqb x k) eqn:E; cbn; [apply text_eqb_eq in E; subst; reflexivity | exact IH].
Qed.

Lemma tlookup_none_notin {X} x (l : list (ident * X)) : tlookup x l = None -> ~ In x (map fst l).
Proof.
  induction l as [|[k v] r IH]; cbn; intros H Hin; [exact Hin|].
  destruct (text_eqb x k) eqn:E; [discriminate|].
  destruct Hin as [Hk|Hin]; [subst; rewrite text_eqb_refl in E; discriminate | exact (IH H Hin)].
Qed.

Lemma in_fst_tlookup {X} x (l : list (ident * X)) : In x (map fst l) -> exists v, tlookup x l = Some v.
Proof.
  induction l as [|[k v] r IH]; cbn; intros Hin; [destruct Hin|].
  destruct (text_eqb x k) eqn:E; [eexists; reflexivity|].
  destruct Hin as [Hk|Hin]; [subst; rewrite text_eqb_refl in E; discriminate | exact (IH Hin)].
Qed.

Lemma tlookup_some_tmem {X} x (l : list (ident * X)) v : tlookup x l = Some v -> tmem x (map fst l) = true.
Proof.
  induction l as [|[k w] r IH]; cbn; [discriminate|].
  destruct (text_eqb x k); [reflexivity | exact IH].
Qed.
Lemma tlookup_none_tmem {X} x (l : list (ident * X)) : tlookup x l = None -> tmem x (map fst l) = false.
Proof.
  induction l as [|[k w] r IH]; cbn; [reflexivity|].
  destruct (text_eqb x k); [discriminate | exact IH].
Qed.

Lemma tmem_add_names x names : forall decl,
  tmem x (fold_left add_name names decl) = tmem x decl || tmem x names.
Proof.
  induction names as [|k r IH]; intro decl; cbn [fold_left tmem]; [rewrite orb_false_r; reflexivity|].
  rewrite IH. unfold add_name. destruct (tmem k decl) eqn:Ek.
  - destruct (text_eqb x k) eqn:E; cbn [orb]; [|reflexivity].
    apply text_eqb_eq in E. subst. rewrite Ek. reflexivity.
  - rewrite DeclP.tmem_app. rewrite <- orb_assoc. reflexivity.
Qed.

Lemma tmem_add_name x decl k : tmem x (add_name decl k) = tmem x decl || text_eqb x k.
Proof.
  unfold add_name. destruct (tmem k decl) eqn:Ek.
  - destruct (text_eqb x k) eqn:E; [|rewrite orb_false_r; reflexivity].
    apply text_eqb_eq in E. subst. rewrite Ek. reflexivity.
  - apply DeclP.tmem_app.
Qed.

Lemma tlookup_tset_all order : forall G x,
  NoDup (map fst order) ->
  tlookup x (tset_all order G) = match tlookup x order with Some t => Some t | None => tlookup x G end.
Proof.
  induction order as [|[y u] r IH]; intros G x Hn; [reflexivity|].
  cbn [map fst] in Hn. inversion Hn as [|? ? Hy Hr]; subst.
  unfold tset_all in *. cbn [fold_left fst snd tlookup].
  rewrite IH by exact Hr. rewrite tlookup_tset.
  destruct (text_eqb x y) eqn:E.
  - apply text_eqb_eq in E. subst y.
    destruct (tlookup x r) eqn:Er; [|reflexivity].
    exfalso. apply Hy. apply tlookup_In in Er. apply (in_map fst) in Er. exact Er.
  - reflexivity.
Qed.

Lemma tlookup_fold_tset (f : ident -> ty) l : forall G x,
  tlookup x (fold_left (fun G0 y => tset G0 y (f y)) l G) = if tmem x l then Some (f x) else tlookup x G.
Proof.
  induction l as [|k r IH]; intros G x; cbn [fold_left tmem]; [reflexivity|].
  rewrite IH. rewrite tlookup_tset.
  destruct (text_eqb x k) eqn:E; cbn [orb].
  - apply text_eqb_eq in E. subst. destruct (tmem k r); reflexivity.
  - reflexivity.
Qed.

Lemma new_names_spec base (c : dctx) x :
  tmem x (new_names base c) = tmem x (d_decl c) && negb (tmem x base).
Proof.
  unfold new_names. induction (d_decl c) as [|k r IH]; cbn [filter tmem]; [reflexivity|].
  destruct (tmem k base) eqn:Ek; cbn [negb].
  - rewrite IH. destruct (text_eqb x k) eqn:E; cbn [orb]; [|reflexivity].
    apply text_eqb_eq in E. subst. rewrite Ek. cbn. rewrite andb_false_r. reflexivity.
  - cbn [tmem]. rewrite IH. destruct (text_eqb x k) eqn:E; cbn [orb]; [|reflexivity].
    apply text_eqb_eq in E. subst. rewrite Ek. reflexivity.
Qed.

(* ------------------------------------------------------------------ what promote_collect collects *)
Lemma add_first_in f names : forall acc0 x t,
  In (x, t) (fold_left (add_first f) names acc0) -> In (x, t) acc0 \/ (In x names /\ t = f x).
Proof.
  induction names as [|k r IH]; intros acc0 x t Hin; cbn [fold_left] in Hin; [left; exact Hin|].
  apply IH in Hin. destruct Hin as [Hin|[Hin Ht]].
  - unfold add_first in Hin. destruct (tmem k (map fst acc0)); [left; exact Hin|].
    apply in_app_iff in Hin. destruct Hin as [Hin|[Heq|[]]]; [left; exact Hin|].
    inversion Heq; subst. right. split; [left; reflexivity | reflexivity].
  - right. split; [right; exact Hin | exact Ht].
Qed.

Lemma promote_collect_in base kids : forall seen x t,
  In (x, t) (promote_collect base kids seen) ->
  In (x, t) seen \/ exists kid, In kid kids /\ tmem x (new_names base kid) = true /\ t = tget (d_types kid) x.
Proof.
  induction kids as [|c r IH]; intros seen x t Hin; cbn [promote_collect] in Hin; [left; exact Hin|].
  apply IH in Hin. destruct Hin as [Hin|(kid & Hk & Hn & Ht)].
  - apply (add_first_in (fun y => tget (d_types c) y)) in Hin. destruct Hin as [Hin|[Hin Ht]]; [left; exact Hin|].
    right. exists c. split; [left; reflexivity|]. split; [apply tmem_In; exact Hin | exact Ht].
  - right. exists kid. split; [right; exact Hk | split; assumption].
Qed.

(* ------------------------------------------------------------------ the well-formedness of a block state *)
Lemma sub_tyb_true a b : sub_tyb a b = true -> sub_ty a b.
Proof.
  unfold sub_tyb. intro H. apply orb_true_iff in H as [H|H].
  - left. apply ty_eqb_eq. exact H.
  - destruct a, b; try discriminate H; unfold sub_ty; tauto.
Qed.
Lemma sub_ty_refl a : sub_ty a a. Proof. left. reflexivity. Qed.
Lemma sub_ty_list_r a e : sub_ty a (TList e) -> a = TList e.
Proof. intros [H|[[_ H]|[[_ H]|[_ H]]]]; [exact H | discriminate H | discriminate H | discriminate H]. Qed.
Lemma sub_ty_list_l e b : sub_ty (TList e) b -> b = TList e.
Proof. intros [H|[[H _]|[[H _]|[H _]]]]; [symmetry; exact H | discriminate H | discriminate H | discriminate H]. Qed.

(* L: the declared label of every name of the scope.  A state is well formed when every labelled name carries a label
   at most its declared one and is declared - at this level or outside - with the C type of its DECLARED label. *)
Record wf (L : tenv) (outer : list (ident * cty)) (base : list ident) (st : bstate) : Prop := mk_wf {
  wf_typ : forall x t, tlookup x (d_types (st_ctx st)) = Some t ->
             exists t0, tlookup x L = Some t0 /\ sub_ty t t0 /\ tlookup x (st_decls st ++ outer) = Some (cpp_type t0);
  wf_lab : forall x, match tlookup x (d_types (st_ctx st)) with
                     | Some _ => tmem x (d_decl (st_ctx st)) = true
                     | None => tmem x (d_decl (st_ctx st)) = false end;
  wf_outer : forall x c, tlookup x (st_decls st ++ outer) = Some c -> tmem x (d_decl (st_ctx st)) = true;
  wf_fresh : forall x, In x (map fst (st_decls st)) -> tmem x base = false;
  wf_base : forall x, tmem x base = true -> tmem x (d_decl (st_ctx st)) = true
}.

Lemma wf_child L outer base st p a :
  wf L outer base st ->
  wf L (st_decls st ++ outer) (d_decl (st_ctx st))
     (mk_bstate (mk_dctx (d_types (st_ctx st)) (d_decl (st_ctx st)) p) [] a).
Proof.
  intros [Ht Hl Ho Hf Hb]. constructor; cbn [st_ctx st_decls d_types d_decl app].
  - exact Ht.
  - exact Hl.
  - exact Ho.
  - intros x [].
  - intros x H; exact H.
Qed.

Lemma wf_child_for L outer base st i p a :
  wf L outer base st ->
  wf (tset L i TInt) ((i, CInt) :: st_decls st ++ outer) (add_name (d_decl (st_ctx st)) i)
     (mk_bstate (mk_dctx (tset (d_types (st_ctx st)) i TInt) (add_name (d_decl (st_ctx st)) i) p) [] a).
Proof.
  intros [Ht Hl Ho Hf Hb]. constructor; cbn [st_ctx st_decls d_types d_decl app].
  - intros x t. rewrite !tlookup_tset. cbn [tlookup]. destruct (text_eqb x i).
    + intro H; inversion H; subst. exists TInt. split; [reflexivity | split; [apply sub_ty_refl | reflexivity]].
    + apply Ht.
  - intro x. rewrite tlookup_tset, tmem_add_name. destruct (text_eqb x i); [apply orb_true_r|].
    rewrite orb_false_r. apply Hl.
  - intros x c. cbn [tlookup]. rewrite tmem_add_name. destruct (text_eqb x i); [intros _; apply orb_true_r|].
    intro H. rewrite (Ho x c H). reflexivity.
  - intros x [].
  - intros x H; exact H.
Qed.

(* the common core of every hoist: the names [news] (undeclared so far, with their DECLARED labels) become
   declared at this level *)
Lemma wf_promote L outer base st G1 decl1 p1 decls1 a1 (news : list (ident * ty)) :
  wf L outer base st ->
  (forall x t, In (x, t) news -> tmem x (d_decl (st_ctx st)) = false /\ tlookup x L = Some t) ->
  (forall x, tlookup x G1 = match tlookup x news with Some t => Some t | None => tlookup x (d_types (st_ctx st)) end) ->
  (forall x, tmem x decl1 = tmem x (d_decl (st_ctx st)) || tmem x (map fst news)) ->
  (forall x, tlookup x (decls1 ++ outer) =
             match tlookup x news with
             | Some t => Some (cpp_type t)
             | None => tlookup x (st_decls st ++ outer) end) ->
  (forall x, In x (map fst decls1) -> In x (map fst (st_decls st)) \/ In x (map fst news)) ->
  wf L outer base (mk_bstate (mk_dctx G1 decl1 p1) decls1 a1).
Proof.
  intros [Ht Hl Ho Hf Hb] Hnews HG Hdecl Hds Hnames.
  constructor; cbn [st_ctx st_decls d_types d_decl].
  - intros x t. rewrite HG, Hds. destruct (tlookup x news) as [t0|] eqn:En.
    + intro H; inversion H; subst. apply tlookup_In in En. apply Hnews in En.
      exists t. split; [apply En | split; [apply sub_ty_refl | reflexivity]].
    + apply Ht.
  - intro x. rewrite HG, Hdecl. destruct (tlookup x news) as [t0|] eqn:En.
    + rewrite (tlookup_some_tmem _ _ _ En). apply orb_true_r.
    + rewrite (tlookup_none_tmem _ _ En), orb_false_r. apply Hl.
  - intros x c. rewrite Hds, Hdecl. destruct (tlookup x news) as [t0|] eqn:En.
    + intros _. rewrite (tlookup_some_tmem _ _ _ En). apply orb_true_r.
    + intro H. rewrite (Ho x c H). reflexivity.
  - intros x Hin. apply Hnames in Hin. destruct Hin as [Hin|Hin]; [apply Hf; exact Hin|].
    apply in_fst_tlookup in Hin. destruct Hin as [t Hin]. apply tlookup_In in Hin. apply Hnews in Hin.
    destruct Hin as [Hnd _]. destruct (tmem x base) eqn:E; [|reflexivity].
    rewrite (Hb x E) in Hnd. discriminate.
  - intros x H. rewrite Hdecl, (Hb x H). reflexivity.
Qed.

Lemma wf_ext L outer base st G1 decl1 p1 a1 :
  wf L outer base st ->
  (forall y, tlookup y G1 = tlookup y (d_types (st_ctx st))) ->
  (forall y, tmem y decl1 = tmem y (d_decl (st_ctx st))) ->
  wf L outer base (mk_bstate (mk_dctx G1 decl1 p1) (st_decls st) a1).
Proof.
  intros [Ht Hl Ho Hf Hb] HG Hdc. constructor; cbn [st_ctx st_decls d_types d_decl].
  - intros x t. rewrite HG. apply Ht.
  - intro x. rewrite HG, Hdc. apply Hl.
  - intros x c H. rewrite Hdc. exact (Ho x c H).
  - exact Hf.
  - intros x H. rewrite Hdc. exact (Hb x H).
Qed.

Lemma wf_declared_labelled L outer base st x :
  wf L outer base st -> tmem x (d_decl (st_ctx st)) = true -> exists t, tlookup x (d_types (st_ctx st)) = Some t.
Proof.
  intros Hw Hm. pose proof (wf_lab _ _ _ _ Hw x) as H.
  destruct (tlookup x (d_types (st_ctx st))) as [t|]; [exists t; reflexivity|]. rewrite H in Hm. discriminate.
Qed.

(* a declared name gets another label, still at most its declared one *)
Lemma wf_relabel L outer base st x t t0 p1 a1 :
  wf L outer base st -> tmem x (d_decl (st_ctx st)) = true -> tlookup x L = Some t0 -> sub_ty t t0 ->
  wf L outer base (mk_bstate (mk_dctx (tset (d_types (st_ctx st)) x t) (d_decl (st_ctx st)) p1) (st_decls st) a1).
Proof.
  intros Hw Hd HL Hs. destruct (wf_declared_labelled _ _ _ _ _ Hw Hd) as [told Hold].
  destruct Hw as [Ht Hl Ho Hf Hb]. constructor; cbn [st_ctx st_decls d_types d_decl].
  - intros y u. rewrite tlookup_tset. destruct (text_eqb y x) eqn:E.
    + apply text_eqb_eq in E. subst y. intro H; inversion H; subst u.
      destruct (Ht x told Hold) as (t1 & H1 & _ & H3). rewrite HL in H1. inversion H1; subst t1.
      exists t0. split; [exact HL | split; [exact Hs | exact H3]].
    + apply Ht.
  - intro y. rewrite tlookup_tset. destruct (text_eqb y x) eqn:E.
    + apply text_eqb_eq in E. subst y. exact Hd.
    + apply Hl.
  - exact Ho.
  - exact Hf.
  - exact Hb.
Qed.

(* a store of label t into x: declared if new *)
Lemma wf_store L outer base st x t p1 a1 :
  wf L outer base st -> store_ok L (tmem x (d_decl (st_ctx st))) x t = true ->
  wf L outer base
     (if tmem x (d_decl (st_ctx st))
      then mk_bstate (mk_dctx (tset (d_types (st_ctx st)) x t) (d_decl (st_ctx st)) p1) (st_decls st) a1
      else mk_bstate (mk_dctx (tset (d_types (st_ctx st)) x t) (d_decl (st_ctx st) ++ [x]) p1)
                     (st_decls st ++ [(x, cpp_type t)]) a1).
Proof.
  intros Hw Hok. unfold store_ok in Hok. destruct (tlookup x L) as [t0|] eqn:HL; [|discriminate].
  destruct (tmem x (d_decl (st_ctx st))) eqn:Ed.
  - apply (wf_relabel L outer base st x t t0); [exact Hw | exact Ed | exact HL | apply sub_tyb_true; exact Hok].
  - apply ty_eqb_eq in Hok. subst t0.
    apply (wf_promote L outer base st _ _ _ _ _ [(x, t)] Hw).
    + intros y u [H|[]]. inversion H; subst. split; assumption.
    + intro y. rewrite tlookup_tset. cbn [tlookup]. destruct (text_eqb y x); reflexivity.
    + intro y. rewrite DeclP.tmem_app. cbn [map fst tmem]. rewrite orb_false_r. reflexivity.
    + intro y. rewrite <- app_assoc. rewrite tlookup_app. cbn [app tlookup].
      destruct (text_eqb y x) eqn:E.
      * apply text_eqb_eq in E. subst y.
        destruct (tlookup x (st_decls st)) as [c|] eqn:Ec; [|reflexivity].
        exfalso. assert (Hx : tlookup x (st_decls st ++ outer) = Some c) by (rewrite tlookup_app, Ec; reflexivity).
        rewrite (wf_outer _ _ _ _ Hw x c Hx) in Ed. discriminate.
      * rewrite tlookup_app. reflexivity.
    + intro y. rewrite map_app, in_app_iff. cbn [map fst]. tauto.
Qed.

Lemma store_ok_exact L b x t : tlookup x L = Some t -> store_ok L b x t = true.
Proof.
  intro H. unfold store_ok. rewrite H. destruct b; [unfold sub_tyb; rewrite ty_eqb_refl; reflexivity | apply ty_eqb_refl].
Qed.

Lemma cty_eqb_true a : forall b, cty_eqb a b = true -> a = b.
Proof.
  induction a; destruct b; cbn; intro H; try discriminate; try reflexivity.
  f_equal. apply IHa. exact H.
Qed.

Lemma wf_promote2 L outer base st G1 decl1 p1 ds a1 (news : list (ident * ty)) :
  wf L outer base st ->
  (forall x t, In (x, t) news -> tmem x (d_decl (st_ctx st)) = false /\ tlookup x L = Some t) ->
  (forall x, tlookup x G1 = match tlookup x news with Some t => Some t | None => tlookup x (d_types (st_ctx st)) end) ->
  (forall x, tmem x decl1 = tmem x (d_decl (st_ctx st)) || tmem x (map fst news)) ->
  (forall x, tlookup x ds = option_map cpp_type (tlookup x news)) ->
  (forall x, In x (map fst ds) -> In x (map fst news)) ->
  wf L outer base (mk_bstate (mk_dctx G1 decl1 p1) (st_decls st ++ ds) a1).
Proof.
  intros Hw Hnews HG Hdecl Hds Hnames.
  apply (wf_promote L outer base st G1 decl1 p1 (st_decls st ++ ds) a1 news Hw Hnews HG Hdecl).
  - intro x. rewrite <- app_assoc. rewrite tlookup_app. rewrite (tlookup_app x ds outer). rewrite Hds.
    destruct (tlookup x news) as [t|] eqn:En; cbn [option_map].
    + destruct (tlookup x (st_decls st)) as [c|] eqn:Ec; [|reflexivity].
      exfalso. apply tlookup_In in En. apply Hnews in En. destruct En as [Hnd _].
      assert (Hx : tlookup x (st_decls st ++ outer) = Some c) by (rewrite tlookup_app, Ec; reflexivity).
      rewrite (wf_outer _ _ _ _ Hw x c Hx) in Hnd. discriminate.
    + rewrite tlookup_app. reflexivity.
  - intro x. rewrite map_app, in_app_iff. intros [H|H]; [left; exact H | right; apply Hnames; exact H].
Qed.

Lemma map_fst_keyed {Y} (h : ident -> Y) l : map fst (map (fun y => (y, h y)) l) = l.
Proof. induction l as [|k r IH]; cbn; [reflexivity | rewrite IH; reflexivity]. Qed.

Lemma run_stmt_while (S : Type) call C (s : S) st body :
  run_stmt S call C s st (SWhile body) =
    let base := st_ctx st in
    match run_block S call C s (mk_bstate (mk_dctx (d_types base) (d_decl base) (d_promo base)) [] (st_acc st)) body with
    | None => None
    | Some (s1, stc) => Some (s1, loop_promote base (st_ctx stc) (d_decl base) st (st_acc stc))
    end.
Proof. reflexivity. Qed.
Lemma run_stmt_for (S : Type) call C (s : S) st i body :
  run_stmt S call C s st (SFor i body) =
    let base := st_ctx st in
    let basenames := add_name (d_decl base) i in
    match run_block S call C s (mk_bstate (mk_dctx (tset (d_types base) i TInt) basenames (d_promo base)) [] (st_acc st)) body with
    | None => None
    | Some (s1, stc) => Some (s1, loop_promote base (st_ctx stc) basenames st (st_acc stc))
    end.
Proof. reflexivity. Qed.

(* what a loop hoists: the names the body declared, which end the body with their declared labels *)
Lemma lab_is_true L x t : lab_is L x t = true -> tlookup x L = Some t.
Proof. unfold lab_is. destruct (tlookup x L) as [t0|]; [|discriminate]. intro H. apply ty_eqb_eq in H. subst. reflexivity. Qed.

Lemma wf_loop_promote L outer base st (child : dctx) basenames a1 :
  wf L outer base st ->
  (forall x, tmem x basenames = false -> tmem x (d_decl (st_ctx st)) = false) ->
  promo_ok L (st_ctx st) child basenames = true ->
  wf L outer base (loop_promote (st_ctx st) child basenames st a1).
Proof.
  intros Hw Hbn Hpo. unfold loop_promote.
  destruct (new_names basenames child) as [|p0 prest] eqn:Ep.
  - apply wf_ext; [exact Hw | reflexivity | reflexivity].
  - rewrite <- Ep. set (promoted := new_names basenames child) in *.
    set (f := fun x => tget (d_types child) x).
    unfold promo_ok in Hpo. rewrite forallb_forall in Hpo. fold promoted in Hpo.
    assert (Hprom : forall x, tmem x promoted = true ->
              tmem x (d_decl (st_ctx st)) = false /\ tlookup x L = Some (f x)).
    { intros x Hx. pose proof (Hpo x (proj1 (tmem_In x promoted) Hx)) as H. apply andb_true_iff in H as [H _].
      unfold promoted in Hx. rewrite new_names_spec in Hx. apply andb_true_iff in Hx as [_ Hb].
      apply negb_true_iff in Hb. split; [apply Hbn; exact Hb | apply lab_is_true; exact H]. }
    apply (wf_promote2 L outer base st _ _ _ _ _ (map (fun x => (x, f x)) promoted) Hw).
    + intros x t Hin. apply in_map_iff in Hin as (y & Heq & Hin). inversion Heq; subst.
      apply Hprom. apply tmem_In. exact Hin.
    + intro x. rewrite tlookup_fold_tset, tlookup_map_key. destruct (tmem x promoted); reflexivity.
    + intro x. rewrite tmem_add_names, map_fst_keyed. reflexivity.
    + intro x. rewrite !tlookup_map_key. destruct (tmem x promoted) eqn:Ex; [|reflexivity]. cbn [option_map]. f_equal.
      pose proof (Hpo x (proj1 (tmem_In x promoted) Ex)) as H. apply andb_true_iff in H as [_ H]. revert H.
      match goal with |- context [match tlookup x ?D with Some c => cty_eqb c _ | None => true end] =>
        destruct (tlookup x D) as [c|] end; intro H.
      * apply cty_eqb_true in H. exact H.
      * unfold tget at 1. rewrite tlookup_fold_tset, Ex. reflexivity.
    + intro x. rewrite !map_fst_keyed. intro H; exact H.
Qed.

(* ------------------------------------------------------------------ (S): values against the declared labels *)
Definition env_lab (L : tenv) (rho : env) : Prop :=
  forall x v, lookup x rho = Some v -> exists t, tlookup x L = Some t /\ repr t v.
Definition env_lab_ex (i : ident) (L : tenv) (rho : env) : Prop :=
  forall x v, text_eqb x i = false -> lookup x rho = Some v -> exists t, tlookup x L = Some t /\ repr t v.

Definition ev_ok (L : tenv) (rets : list ty) (e : tev) : Prop :=
  match e with
  | TAssign x v => exists t, tlookup x L = Some t /\ repr t v
  | TLoopVar _ v => repr TInt v
  | TReturn v => exists t, In t rets /\ scalar t = true /\ repr t v
  end.

Lemma env_lab_sound L rho : env_lab L rho -> env_sound L rho.
Proof. intros H x v Hl. destruct (H x v Hl) as (t & Ht & Hr). unfold tget. rewrite Ht. exact Hr. Qed.

Lemma env_lab_bind L rho x v t : env_lab L rho -> tlookup x L = Some t -> repr t v -> env_lab L ((x, v) :: rho).
Proof.
  intros H HL Hr y w Hl. unfold lookup in Hl. cbn [tlookup] in Hl. destruct (text_eqb y x) eqn:E.
  - apply text_eqb_eq in E. subst y. inversion Hl; subst w. exists t. split; assumption.
  - apply H. exact Hl.
Qed.

Lemma ev_ok_mono L R R1 e : incl R R1 -> ev_ok L R e -> ev_ok L R1 e.
Proof.
  intros Hi. destruct e; cbn; try (intro H; exact H).
  intros (t & Hin & Hs & Hr). exists t. split; [apply Hi; exact Hin | split; assumption].
Qed.

Lemma lookup_env_remove i rho x : lookup x (env_remove i rho) = if text_eqb x i then None else lookup x rho.
Proof.
  unfold lookup, env_remove. induction rho as [|[k v] r IH]; cbn [filter tlookup fst].
  - destruct (text_eqb x i); reflexivity.
  - destruct (text_eqb i k) eqn:Eik; cbn [negb].
    + rewrite IH. apply text_eqb_eq in Eik. subst k. destruct (text_eqb x i); reflexivity.
    + cbn [tlookup]. rewrite IH. destruct (text_eqb x k) eqn:Exk; [|reflexivity].
      apply text_eqb_eq in Exk. subst k. rewrite InferP.text_eqb_sym, Eik. reflexivity.
Qed.

Lemma iter_while_ok (P : env -> Prop) (Q : tev -> Prop) f :
  (forall orc rho orc1 rho1 tr ret, P rho -> f orc rho = Ok (orc1, rho1, tr, ret) -> P rho1 /\ Forall Q tr) ->
  forall n orc rho orc1 rho1 tr ret, P rho -> iter_while f n orc rho = Ok (orc1, rho1, tr, ret) -> P rho1 /\ Forall Q tr.
Proof.
  intros Hf. induction n as [|n IH]; intros orc rho orc1 rho1 tr ret HP Hrun; cbn [iter_while] in Hrun.
  - inversion Hrun; subst. split; [exact HP | constructor].
  - destruct (f orc rho) as [[[[o2 r2] t2] b2]|] eqn:E; [|discriminate].
    destruct (Hf _ _ _ _ _ _ HP E) as [HP2 HQ2]. destruct b2.
    + inversion Hrun; subst. split; assumption.
    + destruct (iter_while f n o2 r2) as [[[[o3 r3] t3] b3]|] eqn:E3; [|discriminate].
      inversion Hrun; subst. destruct (IH _ _ _ _ _ _ HP2 E3) as [HP3 HQ3].
      split; [exact HP3 | apply Forall_app; split; assumption].
Qed.

Lemma iter_for_ok (P : env -> Prop) (P1 : env -> Prop) (Q : tev -> Prop) f i :
  (forall rho j, P rho -> P1 ((i, VInt j) :: rho)) ->
  (forall orc rho orc1 rho1 tr ret, P1 rho -> f orc rho = Ok (orc1, rho1, tr, ret) -> P rho1 /\ Forall Q tr) ->
  (forall j, Q (TLoopVar i (VInt j))) ->
  forall n j orc rho orc1 rho1 tr ret, P rho -> iter_for f i n j orc rho = Ok (orc1, rho1, tr, ret) -> P rho1 /\ Forall Q tr.
Proof.
  intros Hbind Hf Hq. induction n as [|n IH]; intros j orc rho orc1 rho1 tr ret HP Hrun; cbn [iter_for] in Hrun.
  - inversion Hrun; subst. split; [exact HP | constructor].
  - destruct (f orc ((i, VInt j) :: rho)) as [[[[o2 r2] t2] b2]|] eqn:E; [|discriminate].
    destruct (Hf _ _ _ _ _ _ (Hbind rho j HP) E) as [HP2 HQ2]. destruct b2.
    + inversion Hrun; subst. split; [exact HP2 | constructor; [apply Hq | exact HQ2]].
    + destruct (iter_for f i n (j + 1) o2 r2) as [[[[o3 r3] t3] b3]|] eqn:E3; [|discriminate].
      inversion Hrun; subst. destruct (IH _ _ _ _ _ _ _ HP2 E3) as [HP3 HQ3].
      split; [exact HP3 | constructor; [apply Hq | apply Forall_app; split; assumption]].
Qed.


Lemma combine_map_in {X Y Z} (f : Y -> Z) (xs : list X) : forall (es : list Y) x t,
  In (x, t) (combine xs (map f es)) -> exists e, In (x, e) (combine xs es) /\ t = f e.
Proof.
  induction xs as [|a xs IH]; intros [|e es] x t Hin; cbn in Hin; try contradiction.
  destruct Hin as [H|H].
  - inversion H; subst. exists e. split; [left; reflexivity | reflexivity].
  - destruct (IH es x t H) as (e0 & H1 & H2). exists e0. split; [right; exact H1 | exact H2].
Qed.

Lemma combine_fst {X Y} (xs : list X) : forall (ts : list Y), length xs = length ts -> map fst (combine xs ts) = xs.
Proof.
  induction xs as [|a xs IH]; intros [|t ts] H; cbn in *; try discriminate; [reflexivity|].
  f_equal. apply IH. lia.
Qed.

Lemma tlookup_fold_tset_pairs (L : tenv) xts : forall G x,
  (forall y t, In (y, t) xts -> tlookup y L = Some t) ->
  tlookup x (fold_left (fun G0 (xt : ident * ty) => tset G0 (fst xt) (snd xt)) xts G) =
    match tlookup x xts with Some t => Some t | None => tlookup x G end.
Proof.
  induction xts as [|[y u] r IH]; intros G x HL; [reflexivity|].
  cbn [fold_left fst snd tlookup]. rewrite IH by (intros z t Hz; apply HL; right; exact Hz).
  rewrite tlookup_tset. destruct (text_eqb x y) eqn:E; [|reflexivity].
  apply text_eqb_eq in E. subst y. destruct (tlookup x r) as [t|] eqn:Er; [|reflexivity].
  apply tlookup_In in Er. pose proof (HL x t (or_intror Er)) as H1. pose proof (HL x u (or_introl eq_refl)) as H2.
  rewrite H1 in H2. exact H2.
Qed.

Lemma wf_same_ctx0 L outer base st st' :
  wf L outer base st -> d_types (st_ctx st') = d_types (st_ctx st) -> d_decl (st_ctx st') = d_decl (st_ctx st) ->
  st_decls st' = st_decls st -> wf L outer base st'.
Proof.
  intros [Ht Hl Ho Hf Hb] HG Hdc Hds. constructor; rewrite ?HG, ?Hdc, ?Hds; assumption.
Qed.

Definition tuple_step_fn := fun (acc0 : list ident * list (ident * cty)) (xt : ident * ty) =>
  if tmem (fst xt) (fst acc0) then acc0
  else (fst acc0 ++ [fst xt], snd acc0 ++ [(fst xt, cpp_type (snd xt))]).

Lemma tuple_fold_wf L outer base ds0 p a : forall xts G decl nd,
  wf L outer base (mk_bstate (mk_dctx G decl p) (ds0 ++ nd) a) ->
  (forall x t, In (x, t) xts -> tlookup x L = Some t) ->
  wf L outer base
     (mk_bstate (mk_dctx (fold_left (fun G0 (xt : ident * ty) => tset G0 (fst xt) (snd xt)) xts G)
                         (fst (fold_left tuple_step_fn xts (decl, nd))) p)
                (ds0 ++ snd (fold_left tuple_step_fn xts (decl, nd))) a).
Proof.
  induction xts as [|[x t] r IH]; intros G decl nd Hw HL; [exact Hw|].
  cbn [fold_left]. unfold tuple_step_fn at 2 4. cbn [fst snd].
  pose proof (wf_store L outer base _ x t p a Hw (store_ok_exact L _ x t (HL x t (or_introl eq_refl)))) as Hw1.
  cbn [st_ctx st_decls d_types d_decl] in Hw1.
  destruct (tmem x decl).
  - apply IH; [exact Hw1 | intros y u Hy; apply HL; right; exact Hy].
  - rewrite <- app_assoc in Hw1. apply IH; [exact Hw1 | intros y u Hy; apply HL; right; exact Hy].
Qed.

Lemma firstn_len_eq {X} (n : nat) (l : list X) : n = length l -> firstn n l = l.
Proof. intros ->. apply firstn_all. Qed.

Section Ctl.
  Variable S : Type.
  Variable call : list ident -> (S * option pmap) -> tenv -> ident -> list ty -> (S * option pmap) * option ty.
  Variable C : option ictx.
  Variable F : ftable.
  Variable A : aliases.
  Variable Inv : S -> Prop.
  Hypothesis Hcall : forall d sp G f sg, Inv (fst sp) ->
    Inv (fst (fst (call d sp G f sg))) /\ snd (call d sp G f sg) = resolve_call F A f sg.

  Notation run_s := (run_stmt S call C).
  Notation run_b := (run_block S call C).
  Notation run_brs := (run_branches S call C).
  Notation gds := (gd_stmt S call C F A).
  Notation gdb := (gd_block S call C F A).
  Notation gdbrs := (gd_branches S call C F A).

  Lemma infer_d_gen s c e : Inv s ->
    match infer_d S call C s c e with
    | Some (t, c1, s1) => Inv s1 /\ infer_s F A C (d_types c) e = Some (t, d_types c1) /\ d_decl c1 = d_decl c
    | None => infer_s F A C (d_types c) e = None
    end.
  Proof.
    intro Hs. unfold infer_d, infer_s.
    pose proof (infer_sim (S * option pmap) (fun sp => Inv (fst sp)) (call (d_decl c)) F A C
                  (fun sp G0 f sg Hi => Hcall (d_decl c) sp G0 f sg Hi) e (s, d_promo c) (d_types c) Hs) as Hsim.
    destruct (infer (S * option pmap) (call (d_decl c)) C (s, d_promo c) (d_types c) e) as [[[t G1] [s1 p1]]|].
    - destruct Hsim as [Hi E0]. rewrite E0. cbn [fst d_types d_decl] in *. repeat split; [exact Hi].
    - rewrite Hsim. reflexivity.
  Qed.

  (* inside the guard the inference at this line gives the guard's label and leaves var_types alone *)
  Lemma infer_d_guarded s c e : Inv s -> guard F A C (d_types c) e = true ->
    match infer_d S call C s c e with
    | Some (t, c1, s1) => Inv s1 /\ t = ety F A C (d_types c) e /\ d_types c1 = d_types c /\ d_decl c1 = d_decl c
    | None => True
    end.
  Proof.
    intros Hs Hg. pose proof (infer_d_gen s c e Hs) as H.
    destruct (infer_d S call C s c e) as [[[t c1] s1]|]; [|exact I].
    destruct H as (Hi & E & Hd).
    destruct (infer_s_guard_pure _ _ _ _ _ _ _ E Hg) as [HG Ht].
    repeat split; [exact Hi | symmetry; exact Ht | exact HG | exact Hd].
  Qed.

  Lemma typed_some G e : typed C F A G e = true -> exists G1, infer_s F A C G e = Some (ety F A C G e, G1).
  Proof.
    unfold typed, ety. destruct (infer_s F A C G e) as [[t G1]|]; [|discriminate]. intros _. exists G1. reflexivity.
  Qed.
  Lemma expr_ok_guard L G e : expr_ok C F A L G e = true -> guard F A C G e = true /\ typed C F A G e = true.
  Proof.
    unfold expr_ok. intro H. apply andb_true_iff in H as [H _]. apply andb_true_iff in H as [H1 H2]. split; assumption.
  Qed.

  Lemma store_ok_sub L b x t : store_ok L b x t = true -> exists t0, tlookup x L = Some t0 /\ sub_ty t t0.
  Proof.
    unfold store_ok. destruct (tlookup x L) as [t0|]; [|discriminate]. intro H. exists t0. split; [reflexivity|].
    destruct b; [apply sub_tyb_true; exact H | apply ty_eqb_eq in H; subst; apply sub_ty_refl].
  Qed.

  (* the list-variable check of _handle_assignment_ast never fires inside the guard *)
  Lemma clash_false L outer base st x t :
    wf L outer base st -> store_ok L (tmem x (d_decl (st_ctx st))) x t = true ->
    match tlookup x (d_types (st_ctx st)) with
    | Some (TList oe) => tmem x (d_decl (st_ctx st)) && (negb (is_list_ty t) || negb (ty_eqb oe (list_elem t)))
    | _ => false end = false.
  Proof.
    intros Hw Hok. destruct (tlookup x (d_types (st_ctx st))) as [told|] eqn:E0; [|reflexivity].
    destruct told; try reflexivity.
    pose proof (wf_lab _ _ _ _ Hw x) as Hl. rewrite E0 in Hl. rewrite Hl in Hok |- *.
    destruct (wf_typ _ _ _ _ Hw x _ E0) as (t0 & HL & Hs0 & _).
    apply sub_ty_list_l in Hs0. subst t0.
    unfold store_ok in Hok. rewrite HL in Hok. apply sub_tyb_true in Hok. apply sub_ty_list_r in Hok. subst t.
    cbn. rewrite ty_eqb_refl. reflexivity.
  Qed.

  (* ---- x = e *)
  Lemma assign_step L outer base s st x e s1 st1 :
    Inv s -> wf L outer base st ->
    assign_ok C F A L (st_ctx st) x e = true ->
    do_assign S call C s st x e = Some (s1, st1) ->
    Inv s1 /\ wf L outer base st1 /\ a_rets (st_acc st1) = a_rets (st_acc st) /\ a_fn (st_acc st1) = a_fn (st_acc st).
  Proof.
    intros Hs Hw Hok Hrun. unfold assign_ok in Hok. apply andb_true_iff in Hok as [Hex Hst].
    destruct (expr_ok_guard _ _ _ Hex) as [Hg _].
    unfold do_assign in Hrun. pose proof (infer_d_guarded s (st_ctx st) e Hs Hg) as Hi.
    destruct (infer_d S call C s (st_ctx st) e) as [[[t1 c1] s2]|]; [|discriminate].
    destruct Hi as (Hi & Ht1 & HG & Hd). subst t1.
    rewrite HG, Hd in Hrun. rewrite (clash_false L outer base st x _ Hw Hst) in Hrun.
    pose proof (wf_store L outer base st x _ (d_promo c1) (add_label (st_acc st) x (ety F A C (d_types (st_ctx st)) e)) Hw Hst) as Hw1.
    destruct (tmem x (d_decl (st_ctx st))); inversion Hrun; subst s1 st1; (split; [exact Hi | split; [exact Hw1 | split; reflexivity]]).
  Qed.

  (* ---- x op= e : never declares *)
  Lemma aug_step L outer base s st x op e s1 st1 :
    Inv s -> wf L outer base st ->
    negb (is_matmult op) = true -> tmem x (d_decl (st_ctx st)) = true ->
    assign_ok C F A L (st_ctx st) x (EBin op (EName x) e) = true ->
    do_aug S call C s st x op e = Some (s1, st1) ->
    Inv s1 /\ wf L outer base st1 /\ a_rets (st_acc st1) = a_rets (st_acc st) /\ a_fn (st_acc st1) = a_fn (st_acc st).
  Proof.
    intros Hs Hw Hop Hdecl Hok Hrun. unfold assign_ok in Hok. apply andb_true_iff in Hok as [Hex Hst].
    destruct (expr_ok_guard _ _ _ Hex) as [Hg _].
    assert (Hrun' : match infer_d S call C s (st_ctx st) (EBin op (EName x) e) with
                    | None => None
                    | Some (t0, c1, s2) =>
                        Some (s2, mk_bstate (mk_dctx (tset (d_types c1) x t0) (d_decl c1) (d_promo c1))
                                            (st_decls st) (add_label (st_acc st) x t0))
                    end = Some (s1, st1)).
    { destruct op; try exact Hrun. discriminate Hop. }
    clear Hrun. pose proof (infer_d_guarded s (st_ctx st) _ Hs Hg) as Hi.
    destruct (infer_d S call C s (st_ctx st) (EBin op (EName x) e)) as [[[t1 c1] s2]|]; [|discriminate].
    destruct Hi as (Hi & Ht1 & HG & Hd). subst t1. rewrite HG, Hd in Hrun'.
    pose proof (wf_store L outer base st x _ (d_promo c1) (add_label (st_acc st) x (ety F A C (d_types (st_ctx st)) (EBin op (EName x) e))) Hw Hst) as Hw1.
    rewrite Hdecl in Hw1. inversion Hrun'; subst s1 st1.
    split; [exact Hi | split; [exact Hw1 | split; reflexivity]].
  Qed.

  (* ---- x = [comprehension] *)
  Lemma infer_rhs_sim (d : list ident) r : forall s p G, Inv s ->
    match infer_rhs (S * option pmap) (call d) C (s, p) G r with
    | Some (t, G1, sp1) => Inv (fst sp1) /\ infer_rhs_s F A C G r = Some (t, G1)
    | None => infer_rhs_s F A C G r = None
    end.
  Proof.
    induction r as [e|t n elt IH]; intros s p G Hs.
    - cbn [infer_rhs]. rewrite infer_rhs_plain. unfold infer_s.
      pose proof (infer_sim (S * option pmap) (fun sp => Inv (fst sp)) (call d) F A C
                    (fun sp G0 f sg Hi => Hcall d sp G0 f sg Hi) e (s, p) G Hs) as Hsim.
      destruct (infer (S * option pmap) (call d) C (s, p) G e) as [[[t G1] sp1]|].
      + destruct Hsim as [Hi E0]. rewrite E0. split; [exact Hi | reflexivity].
      + rewrite Hsim. reflexivity.
    - cbn [infer_rhs]. rewrite infer_rhs_comp. specialize (IH s p (tset G t TInt) Hs).
      destruct (infer_rhs (S * option pmap) (call d) C (s, p) (tset G t TInt) elt) as [[[et G1] sp1]|].
      + destruct IH as [Hi E]. rewrite E. split; [exact Hi | reflexivity].
      + rewrite IH. reflexivity.
  Qed.

  Lemma assignr_step L outer base s st x r s1 st1 :
    Inv s -> wf L outer base st ->
    assignr_ok C F A L (st_ctx st) x r = true ->
    do_assign_r S call C s st x r = Some (s1, st1) ->
    Inv s1 /\ wf L outer base st1 /\ a_rets (st_acc st1) = a_rets (st_acc st) /\ a_fn (st_acc st1) = a_fn (st_acc st).
  Proof.
    intros Hs Hw Hok Hrun. unfold assignr_ok in Hok.
    apply andb_true_iff in Hok as [Hok Hst]. apply andb_true_iff in Hok as [Hok _].
    apply andb_true_iff in Hok as [Hok _]. apply andb_true_iff in Hok as [Hg _].
    unfold do_assign_r, infer_rd in Hrun.
    pose proof (infer_rhs_sim (d_decl (st_ctx st)) r s (d_promo (st_ctx st)) (d_types (st_ctx st)) Hs) as Hi.
    destruct (infer_rhs (S * option pmap) (call (d_decl (st_ctx st))) C (s, d_promo (st_ctx st)) (d_types (st_ctx st)) r)
      as [[[t1 G1] [s2 p2]]|]; [|discriminate].
    destruct Hi as [Hi E]. cbn [fst] in Hi.
    pose proof (rhs_frame F A C r _ _ _ (rhs_guard_pure F A C r _ Hg) E) as HG. subst G1.
    assert (Ht1 : rty C F A (d_types (st_ctx st)) r = t1) by (unfold rty; rewrite E; reflexivity).
    rewrite Ht1 in Hst.
    cbn [d_types d_decl d_promo] in Hrun. rewrite (clash_false L outer base st x t1 Hw Hst) in Hrun.
    pose proof (wf_store L outer base st x t1 p2 (add_label (st_acc st) x t1) Hw Hst) as Hw1.
    destruct (tmem x (d_decl (st_ctx st))); inversion Hrun; subst s1 st1; (split; [exact Hi | split; [exact Hw1 | split; reflexivity]]).
  Qed.

  (* ---- x1, x2, ... = e1, e2, ... *)
  Lemma infer_ds_guarded : forall es s c, Inv s ->
    (forall e, In e es -> guard F A C (d_types c) e = true) ->
    match infer_ds S call C s c es with
    | Some (ts, c1, s1) => Inv s1 /\ ts = map (ety F A C (d_types c)) es /\ d_types c1 = d_types c /\ d_decl c1 = d_decl c
    | None => True
    end.
  Proof.
    induction es as [|e r IH]; intros s c Hs Hg; cbn [infer_ds].
    - repeat split; [exact Hs].
    - pose proof (infer_d_guarded s c e Hs (Hg e (or_introl eq_refl))) as H1.
      destruct (infer_d S call C s c e) as [[[t c1] s1]|]; [|exact I].
      destruct H1 as (Hs1 & Ht & HG & Hd).
      assert (Hg1 : forall e0, In e0 r -> guard F A C (d_types c1) e0 = true) by (intros e0 H0; rewrite HG; apply Hg; right; exact H0).
      specialize (IH s1 c1 Hs1 Hg1).
      destruct (infer_ds S call C s1 c1 r) as [[[ts c2] s2]|]; [|exact I].
      destruct IH as (Hs2 & Hts & HG2 & Hd2). split; [exact Hs2|]. split; [cbn [map]; rewrite Ht, Hts, HG; reflexivity|].
      split; congruence.
  Qed.

  Definition tuple_ok (L G : tenv) (xs : list ident) (es : list pexpr) : bool :=
    Nat.eqb (length xs) (length es) &&
    forallb (fun xe => expr_ok C F A L G (snd xe) && lab_is L (fst xe) (ety F A C G (snd xe))) (combine xs es).

  Lemma tuple_step glob L outer base s st xs es s1 st1 :
    Inv s -> wf L outer base st ->
    tuple_ok L (d_types (st_ctx st)) xs es = true ->
    do_tuple S call C glob s st xs es = Some (s1, st1) ->
    Inv s1 /\ wf L outer base st1 /\ a_rets (st_acc st1) = a_rets (st_acc st) /\ a_fn (st_acc st1) = a_fn (st_acc st).
  Proof.
    intros Hs Hw Hok Hrun. unfold tuple_ok in Hok. apply andb_true_iff in Hok as [Hlen Hall].
    apply Nat.eqb_eq in Hlen. rewrite forallb_forall in Hall.
    unfold do_tuple in Hrun. rewrite (firstn_len_eq (length xs) es Hlen) in Hrun.
    rewrite <- Hlen, Nat.ltb_irrefl in Hrun.
    assert (Hg : forall e, In e es -> guard F A C (d_types (st_ctx st)) e = true).
    { intros e He. destruct (In_nth_error _ _ He) as [n Hn].
      assert (Hx : exists x, In (x, e) (combine xs es)).
      { clear - Hlen Hn. revert xs Hlen n Hn. induction es as [|e0 r IH]; intros [|x xs] Hlen n Hn; cbn in *; try discriminate.
        - destruct n; discriminate.
        - destruct n as [|n]; cbn in Hn.
          + inversion Hn; subst. exists x. left; reflexivity.
          + destruct (IH xs ltac:(lia) n Hn) as [y Hy]. exists y. right; exact Hy. }
      destruct Hx as [x Hx]. specialize (Hall _ Hx). cbn [fst snd] in Hall. apply andb_true_iff in Hall as [Hall _].
      apply (expr_ok_guard _ _ _ Hall). }
    pose proof (infer_ds_guarded es s (st_ctx st) Hs Hg) as Hi.
    destruct (infer_ds S call C s (st_ctx st) es) as [[[ts c1] s2]|]; [|discriminate].
    destruct Hi as (Hs2 & Hts & HG & Hd). rewrite HG, Hd in Hrun.
    assert (HL : forall x t, In (x, t) (combine xs ts) -> tlookup x L = Some t).
    { intros x t Hin. rewrite Hts in Hin. apply combine_map_in in Hin as (e & Hin & ->).
      specialize (Hall _ Hin). cbn [fst snd] in Hall. apply andb_true_iff in Hall as [_ Hall]. apply lab_is_true. exact Hall. }
    assert (Hlts : length xs = length ts) by (rewrite Hts, map_length; exact Hlen).
    destruct (forallb (fun x => negb (tmem x (d_decl (st_ctx st)))) xs && glob) eqn:Eg.
    - inversion Hrun; subst s1 st1. clear Hrun. cbn [st_acc a_rets a_fn].
      split; [exact Hs2|]. split; [|split; reflexivity].
      apply andb_true_iff in Eg as [Enew _]. rewrite forallb_forall in Enew.
      apply (wf_promote2 L outer base st _ _ _ _ _ (combine xs ts) Hw).
      + intros x t Hin. split; [|apply HL; exact Hin]. apply in_combine_l in Hin as Hx. apply negb_true_iff. apply Enew; exact Hx.
      + intro x. apply (tlookup_fold_tset_pairs L). exact HL.
      + intro x. rewrite tmem_add_names, (combine_fst xs ts Hlts). reflexivity.
      + intro x. apply tlookup_map_snd.
      + intro x. rewrite map_map. cbn [fst]. intro H; exact H.
    - fold tuple_step_fn in Hrun.
      destruct (fold_left tuple_step_fn (combine xs ts) (d_decl (st_ctx st), [])) as [decl2 nd] eqn:Ef.
      inversion Hrun; subst s1 st1. clear Hrun. cbn [st_acc a_rets a_fn].
      split; [exact Hs2|]. split; [|split; reflexivity].
      pose proof (tuple_fold_wf L outer base (st_decls st) (d_promo c1) (st_acc st) (combine xs ts) (d_types (st_ctx st)) (d_decl (st_ctx st)) []) as H.
      rewrite Ef in H. cbn [fst snd] in H.
      eapply wf_same_ctx0; [apply H; [|exact HL]|reflexivity|reflexivity|reflexivity].
      rewrite app_nil_r. eapply wf_same_ctx0; [exact Hw | reflexivity | reflexivity | reflexivity].
  Qed.

  (* the temporaries of a tuple assignment: the k-th one is declared from the label L gives the k-th target *)
  Lemma tuple_temps_typed L s st xs es s1 st1 :
    Inv s -> tuple_ok L (d_types (st_ctx st)) xs es = true ->
    do_tuple S call C false s st xs es = Some (s1, st1) ->
    exists ts, a_labels (st_acc st1) = a_labels (st_acc st) ++ map (fun t => (tmp_marker, t)) ts ++ combine xs ts /\
               Forall2 (fun x t => tlookup x L = Some t) xs ts.
  Proof.
    intros Hs Hok Hrun. unfold tuple_ok in Hok. apply andb_true_iff in Hok as [Hlen Hall].
    apply Nat.eqb_eq in Hlen. rewrite forallb_forall in Hall.
    unfold do_tuple in Hrun. rewrite (firstn_len_eq (length xs) es Hlen) in Hrun.
    rewrite <- Hlen, Nat.ltb_irrefl in Hrun.
    assert (Hg : forall e, In e es -> guard F A C (d_types (st_ctx st)) e = true).
    { intros e He. destruct (In_nth_error _ _ He) as [n Hn].
      assert (Hx : exists x, In (x, e) (combine xs es)).
      { clear - Hlen Hn. revert xs Hlen n Hn. induction es as [|e0 r IH]; intros [|x xs] Hlen n Hn; cbn in *; try discriminate.
        - destruct n; discriminate.
        - destruct n as [|n]; cbn in Hn.
          + inversion Hn; subst. exists x. left; reflexivity.
          + destruct (IH xs ltac:(lia) n Hn) as [y Hy]. exists y. right; exact Hy. }
      destruct Hx as [x Hx]. specialize (Hall _ Hx). cbn [fst snd] in Hall. apply andb_true_iff in Hall as [Hall _].
      apply (expr_ok_guard _ _ _ Hall). }
    pose proof (infer_ds_guarded es s (st_ctx st) Hs Hg) as Hi.
    destruct (infer_ds S call C s (st_ctx st) es) as [[[ts c1] s2]|]; [|discriminate].
    destruct Hi as (_ & Hts & _ & _). rewrite andb_false_r in Hrun.
    destruct (fold_left _ (combine xs ts) (d_decl c1, [])) as [decl2 nd]. inversion Hrun; subst s1 st1. clear Hrun.
    exists ts. cbn [st_acc a_labels]. split; [reflexivity|].
    subst ts. clear - Hlen Hall. revert es Hlen Hall. induction xs as [|x xr IH]; intros [|e er] Hlen Hall; cbn in Hlen; try discriminate.
    - constructor.
    - cbn [map]. constructor.
      + specialize (Hall (x, e) (or_introl eq_refl)). cbn [fst snd] in Hall. apply andb_true_iff in Hall as [_ Hall].
        apply lab_is_true. exact Hall.
      + apply IH; [lia|]. intros xe Hin. apply Hall. right. exact Hin.
  Qed.

  (* ---- return e *)
  Lemma return_step_gen L outer base s st e s1 st1 :
    Inv s -> wf L outer base st ->
    ret_ok C F A L (d_types (st_ctx st)) e = true ->
    do_return S call C s st (Some e) = Some (s1, st1) ->
    Inv s1 /\ wf L outer base st1 /\ a_rets (st_acc st1) = a_rets (st_acc st) ++ [ety F A C (d_types (st_ctx st)) e] /\
    a_fn (st_acc st1) = a_fn (st_acc st).
  Proof.
    intros Hs Hw Hok Hrun. unfold ret_ok in Hok. apply andb_true_iff in Hok as [Hex _].
    destruct (expr_ok_guard _ _ _ Hex) as [Hg _].
    unfold do_return in Hrun. destruct (negb (a_fn (st_acc st))); [discriminate|].
    pose proof (infer_d_guarded s (st_ctx st) e Hs Hg) as Hi.
    destruct (infer_d S call C s (st_ctx st) e) as [[[t1 c1] s2]|]; [|discriminate].
    destruct Hi as (Hi & Ht1 & HG & Hd). inversion Hrun; subst s1 st1. cbn [st_acc st_ctx st_decls a_rets a_fn].
    split; [exact Hi|]. split.
    - destruct c1 as [G1 d1 p1]. cbn [d_types d_decl] in HG, Hd. subst G1 d1.
      apply wf_ext; [exact Hw | reflexivity | reflexivity].
    - split; [rewrite Ht1; reflexivity | reflexivity].
  Qed.

  (* ------------------------------------------------------------------ (M): the bookkeeping keeps the state well formed *)
  Definition keeps (a a1 : acc) : Prop :=
    incl (a_rets a) (a_rets a1) /\ a_fn a1 = a_fn a /\
    (forall t, In t (a_rets a1) -> In t (a_rets a) \/ scalar t = true).
  Lemma keeps_refl a : keeps a a.
  Proof. split; [apply incl_refl | split; [reflexivity | intros t H; left; exact H]]. Qed.
  Lemma keeps_trans a b c : keeps a b -> keeps b c -> keeps a c.
  Proof.
    intros (H1 & H2 & H3) (H4 & H5 & H6). split; [eapply incl_tran; eassumption | split; [congruence|]].
    intros t Ht. destruct (H6 t Ht) as [Hb|Hs]; [apply H3; exact Hb | right; exact Hs].
  Qed.
  Lemma keeps_eq a b : a_rets b = a_rets a -> a_fn b = a_fn a -> keeps a b.
  Proof.
    intros H1 H2. split; [rewrite H1; apply incl_refl | split; [exact H2|]]. rewrite H1. intros t H; left; exact H.
  Qed.

  Definition PM_stmt (x : stmt) : Prop := forall L outer base s st s1 st1,
    Inv s -> wf L outer base st -> gds L s st x = true -> run_s s st x = Some (s1, st1) ->
    Inv s1 /\ wf L outer base st1 /\ keeps (st_acc st) (st_acc st1).
  Definition PM_block (b : block) : Prop := forall L outer base s st s1 st1,
    Inv s -> wf L outer base st -> gdb L s st b = true -> run_b s st b = Some (s1, st1) ->
    Inv s1 /\ wf L outer base st1 /\ keeps (st_acc st) (st_acc st1).
  Definition PM_branches (brs : branches) : Prop := forall L outerc s base p a s2 kids p2 a2,
    Inv s ->
    (forall p' a', wf L outerc (d_decl base) (mk_bstate (mk_dctx (d_types base) (d_decl base) p') [] a')) ->
    gdbrs L s base p a brs = true -> run_brs s base p a brs = Some (s2, kids, p2, a2) ->
    Inv s2 /\ keeps a a2 /\
    forall kid, In kid kids -> exists stc, st_ctx stc = kid /\ wf L outerc (d_decl base) stc.
  Definition PM_oblock (o : oblock) : Prop := match o with ONone => True | OSome b => PM_block b end.

  Lemma gd_stmt_if L s st brs els :
    gds L s st (SIf brs els) =
      (gdbrs L s (st_ctx st) (d_promo (st_ctx st)) (st_acc st) brs &&
       match run_brs s (st_ctx st) (d_promo (st_ctx st)) (st_acc st) brs with
       | None => true
       | Some (s1, kids, p1, a1) =>
           match els with
           | ONone => hoist_ok L (d_decl (st_ctx st)) kids
           | OSome b =>
               gdb L s1 (mk_bstate (mk_dctx (d_types (st_ctx st)) (d_decl (st_ctx st)) p1) [] a1) b &&
               match run_b s1 (mk_bstate (mk_dctx (d_types (st_ctx st)) (d_decl (st_ctx st)) p1) [] a1) b with
               | None => true
               | Some (_, stc) => hoist_ok L (d_decl (st_ctx st)) (kids ++ [st_ctx stc])
               end
           end
       end).
  Proof. reflexivity. Qed.
  Lemma gd_block_cons L s st x r :
    gdb L s st (BCons x r) = (gds L s st x && match run_s s st x with None => true | Some (s1, st1) => gdb L s1 st1 r end).
  Proof. reflexivity. Qed.
  Lemma gd_branches_cons L s base p a b r :
    gdbrs L s base p a (BrCons b r) =
      (gdb L s (mk_bstate (mk_dctx (d_types base) (d_decl base) p) [] a) b &&
       match run_b s (mk_bstate (mk_dctx (d_types base) (d_decl base) p) [] a) b with
       | None => true
       | Some (s1, stc) => gdbrs L s1 base (share_back (d_promo base) (d_promo (st_ctx stc))) (st_acc stc) r
       end).
  Proof. reflexivity. Qed.
  Lemma gd_stmt_while L s st body :
    gds L s st (SWhile body) =
      (gdb L s (mk_bstate (mk_dctx (d_types (st_ctx st)) (d_decl (st_ctx st)) (d_promo (st_ctx st))) [] (st_acc st)) body &&
       match run_b s (mk_bstate (mk_dctx (d_types (st_ctx st)) (d_decl (st_ctx st)) (d_promo (st_ctx st))) [] (st_acc st)) body with
       | None => true
       | Some (_, stc) => promo_ok L (st_ctx st) (st_ctx stc) (d_decl (st_ctx st))
       end).
  Proof. reflexivity. Qed.
  Lemma gd_stmt_for L s st i body :
    gds L s st (SFor i body) =
      (gdb (tset L i TInt) s (mk_bstate (mk_dctx (tset (d_types (st_ctx st)) i TInt) (add_name (d_decl (st_ctx st)) i) (d_promo (st_ctx st))) [] (st_acc st)) body &&
       match run_b s (mk_bstate (mk_dctx (tset (d_types (st_ctx st)) i TInt) (add_name (d_decl (st_ctx st)) i) (d_promo (st_ctx st))) [] (st_acc st)) body with
       | None => true
       | Some (_, stc) => promo_ok L (st_ctx st) (st_ctx stc) (add_name (d_decl (st_ctx st)) i)
       end).
  Proof. reflexivity. Qed.

  (* the hoist of an if / elif / else: every hoisted name ends its branch with its declared label *)
  Lemma wf_if_promote L outer base st kids2 p2 a2 :
    wf L outer base st ->
    hoist_ok L (d_decl (st_ctx st)) kids2 = true ->
    wf L outer base
      (match promote_collect (d_decl (st_ctx st)) kids2 [] with
       | [] => mk_bstate (mk_dctx (d_types (st_ctx st)) (d_decl (st_ctx st)) p2) (st_decls st) a2
       | _ :: _ =>
           let order := promote_collect (d_decl (st_ctx st)) kids2 [] in
           let D0 := match p2 with Some d => d | None => [] end in
           mk_bstate (mk_dctx (fold_left (fun G xt => tset G (fst xt) (snd xt)) order (d_types (st_ctx st)))
                              (fold_left add_name (map fst order) (d_decl (st_ctx st)))
                              (Some (fold_left (fun D xt => pset D (fst xt) (cpp_type (snd xt))) order D0)))
                     (st_decls st ++ map (fun xt => (fst xt, cpp_type (snd xt))) order) a2
       end).
  Proof.
    intros Hw Hho.
    pose proof (promote_collect_nodup (d_decl (st_ctx st)) kids2 [] (NoDup_nil _)) as Hnd.
    assert (Hord : forall x t, In (x, t) (promote_collect (d_decl (st_ctx st)) kids2 []) ->
              tmem x (d_decl (st_ctx st)) = false /\ tlookup x L = Some t).
    { intros x t Hin. unfold hoist_ok in Hho. rewrite forallb_forall in Hho.
      split; [|apply lab_is_true; exact (Hho _ Hin)].
      apply promote_collect_in in Hin. destruct Hin as [[]|(kid & Hk & Hn & Ht)].
      rewrite new_names_spec in Hn. apply andb_true_iff in Hn as [_ Hb]. apply negb_true_iff in Hb. exact Hb. }
    destruct (promote_collect (d_decl (st_ctx st)) kids2 []) as [|o0 orest] eqn:Eo.
    - apply wf_ext; [exact Hw | reflexivity | reflexivity].
    - cbv zeta. apply (wf_promote2 L outer base st _ _ _ _ _ (o0 :: orest) Hw Hord).
      + intro x. apply (tlookup_tset_all (o0 :: orest)). exact Hnd.
      + intro x. apply tmem_add_names.
      + intro x. apply tlookup_map_snd.
      + intro x. rewrite map_map. cbn [fst]. intro H; exact H.
  Qed.


  Lemma PM_bcons x r : PM_stmt x -> PM_block r -> PM_block (BCons x r).
  Proof.
    intros Hx Hr L outer base s st s1 st1 Hs Hw Hg Hrun.
    rewrite gd_block_cons in Hg. apply andb_true_iff in Hg as [Hgx Hgr].
    rewrite run_block_cons in Hrun.
    destruct (run_s s st x) as [[s2 st2]|] eqn:E; [|discriminate].
    destruct (Hx L outer base s st s2 st2 Hs Hw Hgx E) as (Hs2 & Hw2 & Hk2).
    destruct (Hr L outer base s2 st2 s1 st1 Hs2 Hw2 Hgr Hrun) as (Hs1 & Hw1 & Hk1).
    split; [exact Hs1 | split; [exact Hw1 | eapply keeps_trans; eassumption]].
  Qed.

  Lemma PM_brcons b r : PM_block b -> PM_branches r -> PM_branches (BrCons b r).
  Proof.
    intros Hb Hr L outerc s base p a s2 kids p2 a2 Hs Hwc Hg Hrun.
    rewrite gd_branches_cons in Hg. apply andb_true_iff in Hg as [Hgb Hgr].
    rewrite run_branches_cons in Hrun.
    destruct (run_b s (mk_bstate (mk_dctx (d_types base) (d_decl base) p) [] a) b) as [[s1 stc]|] eqn:E; [|discriminate].
    destruct (Hb L outerc (d_decl base) s _ s1 stc Hs (Hwc p a) Hgb E) as (Hs1 & Hw1 & Hk1).
    cbn [st_acc] in Hk1.
    destruct (run_brs s1 base (share_back (d_promo base) (d_promo (st_ctx stc))) (st_acc stc) r) as [[[[s3 kids3] p3] a3]|] eqn:E2; [|discriminate].
    inversion Hrun; subst s2 kids p2 a2.
    destruct (Hr L outerc s1 base _ _ s3 kids3 p3 a3 Hs1 Hwc Hgr E2) as (Hs3 & Hk3 & Hkids).
    split; [exact Hs3|]. split; [eapply keeps_trans; eassumption|].
    intros kid [<-|Hin]; [exists stc; split; [reflexivity | exact Hw1] | apply Hkids; exact Hin].
  Qed.

  Lemma PM_if brs els : PM_branches brs -> PM_oblock els -> PM_stmt (SIf brs els).
  Proof.
    intros Hbrs Hels L outer base s st s1 st1 Hs Hw Hg Hrun.
    rewrite gd_stmt_if in Hg. apply andb_true_iff in Hg as [Hgb Hge].
    rewrite run_stmt_if in Hrun. cbv zeta in Hrun.
    destruct (run_brs s (st_ctx st) (d_promo (st_ctx st)) (st_acc st) brs) as [[[[s2 kids] p1] a1]|] eqn:Eb; [|discriminate].
    destruct (Hbrs L (st_decls st ++ outer) s (st_ctx st) _ _ s2 kids p1 a1 Hs
                (fun p' a' => wf_child L outer base st p' a' Hw) Hgb Eb) as (Hs2 & Hk2 & _).
    destruct els as [|b].
    - cbv iota beta in Hrun.
      pose proof (wf_if_promote L outer base st kids p1 a1 Hw Hge) as Hwf.
      destruct (promote_collect (d_decl (st_ctx st)) kids []) as [|o0 orest]; inversion Hrun; subst s1 st1;
        (split; [exact Hs2 | split; [exact Hwf | exact Hk2]]).
    - cbn [PM_oblock] in Hels. apply andb_true_iff in Hge as [Hge Hho].
      destruct (run_b s2 (mk_bstate (mk_dctx (d_types (st_ctx st)) (d_decl (st_ctx st)) p1) [] a1) b) as [[s3 stc]|] eqn:Ee; [|discriminate].
      destruct (Hels L (st_decls st ++ outer) (d_decl (st_ctx st)) s2 _ s3 stc Hs2 (wf_child L outer base st p1 a1 Hw) Hge Ee)
        as (Hs3 & _ & Hk3). cbn [st_acc] in Hk3.
      pose proof (wf_if_promote L outer base st (kids ++ [st_ctx stc])
                    (share_back (d_promo (st_ctx st)) (d_promo (st_ctx stc))) (st_acc stc) Hw Hho) as Hwf.
      assert (Hk : keeps (st_acc st) (st_acc stc)) by (eapply keeps_trans; eassumption).
      destruct (promote_collect (d_decl (st_ctx st)) (kids ++ [st_ctx stc]) []) as [|o0 orest]; inversion Hrun; subst s1 st1;
        (split; [exact Hs3 | split; [exact Hwf | exact Hk]]).
  Qed.

  Lemma PM_while body : PM_block body -> PM_stmt (SWhile body).
  Proof.
    intros Hb L outer base s st s1 st1 Hs Hw Hg Hrun.
    rewrite gd_stmt_while in Hg. apply andb_true_iff in Hg as [Hgb Hpo].
    rewrite run_stmt_while in Hrun. cbv zeta in Hrun.
    destruct (run_b s (mk_bstate (mk_dctx (d_types (st_ctx st)) (d_decl (st_ctx st)) (d_promo (st_ctx st))) [] (st_acc st)) body)
      as [[s2 stc]|] eqn:E; [|discriminate].
    destruct (Hb L (st_decls st ++ outer) (d_decl (st_ctx st)) s _ s2 stc Hs (wf_child L outer base st _ _ Hw) Hgb E)
      as (Hs2 & Hwc & Hk). cbn [st_acc] in Hk.
    inversion Hrun; subst s1 st1. split; [exact Hs2|]. split.
    - apply (wf_loop_promote L outer base st (st_ctx stc) (d_decl (st_ctx st)) (st_acc stc) Hw).
      + intros x Hx. exact Hx.
      + exact Hpo.
    - unfold loop_promote. destruct (new_names (d_decl (st_ctx st)) (st_ctx stc)); exact Hk.
  Qed.

  Lemma PM_for i body : PM_block body -> PM_stmt (SFor i body).
  Proof.
    intros Hb L outer base s st s1 st1 Hs Hw Hg Hrun.
    rewrite gd_stmt_for in Hg. apply andb_true_iff in Hg as [Hgb Hpo].
    rewrite run_stmt_for in Hrun. cbv zeta in Hrun.
    destruct (run_b s (mk_bstate (mk_dctx (tset (d_types (st_ctx st)) i TInt) (add_name (d_decl (st_ctx st)) i) (d_promo (st_ctx st))) [] (st_acc st)) body)
      as [[s2 stc]|] eqn:E; [|discriminate].
    destruct (Hb (tset L i TInt) ((i, CInt) :: st_decls st ++ outer) (add_name (d_decl (st_ctx st)) i) s _ s2 stc Hs
                (wf_child_for L outer base st i _ _ Hw) Hgb E) as (Hs2 & Hwc & Hk). cbn [st_acc] in Hk.
    inversion Hrun; subst s1 st1. split; [exact Hs2|]. split.
    - apply (wf_loop_promote L outer base st (st_ctx stc) (add_name (d_decl (st_ctx st)) i) (st_acc stc) Hw).
      + intros x Hx. rewrite tmem_add_name in Hx. apply orb_false_iff in Hx as [Hx1 _]. exact Hx1.
      + exact Hpo.
    - unfold loop_promote. destruct (new_names (add_name (d_decl (st_ctx st)) i) (st_ctx stc)); exact Hk.
  Qed.

  Combined Scheme stmt_block_mutind from stmt_mut, block_mut, branches_mut, oblock_mut.

  Theorem model_keeps_wf :
    (forall x, PM_stmt x) /\ (forall b, PM_block b) /\ (forall brs, PM_branches brs) /\ (forall o, PM_oblock o).
  Proof.
    apply stmt_block_mutind.
    - (* SAssign *) intros x e L outer base s st s1 st1 Hs Hw Hg Hrun.
      destruct (assign_step L outer base s st x e s1 st1 Hs Hw Hg Hrun) as (H1 & H2 & H3 & H4).
      split; [exact H1 | split; [exact H2 | apply keeps_eq; assumption]].
    - (* SAug *) intros x op e L outer base s st s1 st1 Hs Hw Hg Hrun.
      cbn [gd_stmt] in Hg. apply andb_true_iff in Hg as [Hg Hok]. apply andb_true_iff in Hg as [Hop Hd].
      destruct (aug_step L outer base s st x op e s1 st1 Hs Hw Hop Hd Hok Hrun) as (H1 & H2 & H3 & H4).
      split; [exact H1 | split; [exact H2 | apply keeps_eq; assumption]].
    - (* SIf *) intros brs Hbrs els Hels. apply PM_if; assumption.
    - (* SWhile *) intros body Hb. apply PM_while; exact Hb.
    - (* SFor *) intros i body Hb. apply PM_for; exact Hb.
    - (* SReturn *) intros [e|] L outer base s st s1 st1 Hs Hw Hg Hrun.
      + destruct (return_step_gen L outer base s st e s1 st1 Hs Hw Hg Hrun) as (H1 & H2 & H3 & H4).
        split; [exact H1 | split; [exact H2|]]. split; [rewrite H3; apply incl_appl, incl_refl | split; [exact H4|]].
        rewrite H3. intros t Ht. apply in_app_iff in Ht. destruct Ht as [Ht|[<-|[]]]; [left; exact Ht | right].
        cbn [gd_stmt] in Hg. unfold ret_ok in Hg. apply andb_true_iff in Hg as [_ Hsc]. exact Hsc.
      + cbn [run_stmt] in Hrun. unfold do_return in Hrun. destruct (negb (a_fn (st_acc st))); [discriminate|].
        inversion Hrun; subst. split; [exact Hs | split; [exact Hw | apply keeps_refl]].
    - (* SAssignR *) intros x r L outer base s st s1 st1 Hs Hw Hg Hrun.
      destruct (assignr_step L outer base s st x r s1 st1 Hs Hw Hg Hrun) as (H1 & H2 & H3 & H4).
      split; [exact H1 | split; [exact H2 | apply keeps_eq; assumption]].
    - (* STuple *) intros xs es L outer base s st s1 st1 Hs Hw Hg Hrun.
      destruct (tuple_step false L outer base s st xs es s1 st1 Hs Hw Hg Hrun) as (H1 & H2 & H3 & H4).
      split; [exact H1 | split; [exact H2 | apply keeps_eq; assumption]].
    - (* BNil *) intros L outer base s st s1 st1 Hs Hw Hg Hrun. inversion Hrun; subst.
      split; [exact Hs | split; [exact Hw | apply keeps_refl]].
    - (* BCons *) intros x Hx r Hr. apply PM_bcons; assumption.
    - (* BrNil *) intros L outerc s base p a s2 kids p2 a2 Hs Hwc Hg Hrun. inversion Hrun; subst.
      split; [exact Hs | split; [apply keeps_refl | intros kid []]].
    - (* BrCons *) intros b Hb r Hr. apply PM_brcons; assumption.
    - (* ONone *) exact I.
    - (* OSome *) intros b Hb. exact Hb.
  Qed.

  (* ------------------------------------------------------------------ (S) *)
  Definition PS_stmt (x : stmt) : Prop := forall L outer base s st s1 st1 orc rho orc1 rho1 tr ret,
    Inv s -> wf L outer base st -> gds L s st x = true -> run_s s st x = Some (s1, st1) ->
    env_lab L rho -> exec_stmt orc rho x = Ok (orc1, rho1, tr, ret) ->
    env_lab L rho1 /\ Forall (ev_ok L (a_rets (st_acc st1))) tr.
  Definition PS_block (b : block) : Prop := forall L outer base s st s1 st1 orc rho orc1 rho1 tr ret,
    Inv s -> wf L outer base st -> gdb L s st b = true -> run_b s st b = Some (s1, st1) ->
    env_lab L rho -> exec_block orc rho b = Ok (orc1, rho1, tr, ret) ->
    env_lab L rho1 /\ Forall (ev_ok L (a_rets (st_acc st1))) tr.
  Definition PS_branches (brs : branches) : Prop := forall L outerc s base p a s2 kids p2 a2 k orc rho orc1 rho1 tr ret,
    Inv s ->
    (forall p' a', wf L outerc (d_decl base) (mk_bstate (mk_dctx (d_types base) (d_decl base) p') [] a')) ->
    gdbrs L s base p a brs = true -> run_brs s base p a brs = Some (s2, kids, p2, a2) ->
    env_lab L rho -> exec_branches orc rho k brs = Some (Ok (orc1, rho1, tr, ret)) ->
    env_lab L rho1 /\ Forall (ev_ok L (a_rets a2)) tr.
  Definition PS_oblock (o : oblock) : Prop := match o with ONone => True | OSome b => PS_block b end.

  (* the value of an expression inside [expr_ok] is held by the label inferred for it at that line *)
  Lemma value_sound L G e rho v :
    expr_ok C F A L G e = true -> env_lab L rho -> peval rho e = Ok v -> repr (ety F A C G e) v.
  Proof.
    unfold expr_ok. intros Hok Hrho Hev.
    apply andb_true_iff in Hok as [Hok Hway]. apply andb_true_iff in Hok as [Hg Hty].
    apply orb_true_iff in Hway as [Hreads|Hfix].
    - (* every name e reads carries its declared label: evaluate in the environment masked to those names *)
      destruct (typed_some _ _ Hty) as [G1 Hi].
      assert (Hes : env_sound G (mask (same_lab G L) rho)).
      { intros y w Hl. apply lookup_mask_some in Hl as [Hsame Hl].
        destruct (Hrho y w Hl) as (t0 & HL & Hr). unfold same_lab in Hsame. rewrite HL in Hsame.
        unfold tget. destruct (tlookup y G) as [a|]; [|discriminate]. apply ty_eqb_eq in Hsame. subst a. exact Hr. }
      rewrite <- (peval_mask (same_lab G L) rho e Hreads) in Hev.
      destruct (infer_s_sound _ _ _ _ _ _ _ _ _ Hes Hg Hi Hev) as [Hr _]. exact Hr.
    - (* typing e under the declared labels gives the same label *)
      apply andb_true_iff in Hfix as [Hfix Heq]. apply andb_true_iff in Hfix as [HgL HtyL]. apply ty_eqb_eq in Heq.
      destruct (typed_some _ _ HtyL) as [G1 Hi]. rewrite Heq.
      destruct (infer_s_sound _ _ _ _ _ _ _ _ _ (env_lab_sound _ _ Hrho) HgL Hi Hev) as [Hr _]. exact Hr.
  Qed.

  Lemma store_sound L G b x e rho v :
    expr_ok C F A L G e = true -> store_ok L b x (ety F A C G e) = true -> env_lab L rho -> peval rho e = Ok v ->
    env_lab L ((x, v) :: rho) /\ ev_ok L [] (TAssign x v).
  Proof.
    intros Hex Hst Hrho Hev. pose proof (value_sound L G e rho v Hex Hrho Hev) as Hr.
    destruct (store_ok_sub _ _ _ _ Hst) as (t0 & HL & Hs0).
    pose proof (sub_ty_repr _ _ _ Hs0 Hr) as Hr0.
    split; [eapply env_lab_bind; eassumption | exists t0; split; assumption].
  Qed.

  Lemma tuple_sem L G rho0 : env_lab L rho0 -> forall xs es vs rho,
    length xs = length es ->
    forallb (fun xe => expr_ok C F A L G (snd xe) && lab_is L (fst xe) (ety F A C G (snd xe))) (combine xs es) = true ->
    evals rho0 es = Ok vs -> env_lab L rho ->
    env_lab L (bind_all xs vs rho) /\
    Forall (ev_ok L []) (map (fun xv => TAssign (fst xv) (snd xv)) (combine xs vs)).
  Proof.
    intros Hr0. induction xs as [|x xr IH]; intros [|e er] vs rho Hlen Hall Hev Hrho; cbn in Hlen; try discriminate.
    - cbn in Hev. inversion Hev; subst. cbn. split; [exact Hrho | constructor].
    - cbn [combine forallb fst snd] in Hall. apply andb_true_iff in Hall as [Hok Hall].
      apply andb_true_iff in Hok as [Hex Hlab].
      cbn [evals] in Hev. destruct (peval rho0 e) as [v|] eqn:Ev; [|discriminate].
      destruct (evals rho0 er) as [vr|] eqn:Er; [|discriminate]. inversion Hev; subst vs.
      pose proof (value_sound L G e rho0 v Hex Hr0 Ev) as Hrepr. apply lab_is_true in Hlab.
      cbn [bind_all combine map fst snd].
      destruct (IH er vr ((x, v) :: rho) ltac:(lia) Hall Er (env_lab_bind L rho x v _ Hrho Hlab Hrepr)) as [H1 H2].
      split; [exact H1 | constructor; [eexists; split; eassumption | exact H2]].
  Qed.

  Lemma PS_bcons x r : PS_stmt x -> PS_block r -> PS_block (BCons x r).
  Proof.
    intros Hx Hr L outer base s st s1 st1 orc rho orc1 rho1 tr ret Hs Hw Hg Hrun Hrho Hex.
    rewrite gd_block_cons in Hg. apply andb_true_iff in Hg as [Hgx Hgr].
    rewrite run_block_cons in Hrun.
    destruct (run_s s st x) as [[s2 st2]|] eqn:E; [|discriminate].
    destruct (proj1 model_keeps_wf x L outer base s st s2 st2 Hs Hw Hgx E) as (Hs2 & Hw2 & Hk2).
    destruct (proj1 (proj2 model_keeps_wf) r L outer base s2 st2 s1 st1 Hs2 Hw2 Hgr Hrun) as (Hs1 & Hw1 & Hk1).
    cbn [exec_block] in Hex.
    destruct (exec_stmt orc rho x) as [[[[o2 r2] t2] b2]|] eqn:Ex; [|discriminate].
    destruct (Hx L outer base s st s2 st2 _ _ _ _ _ _ Hs Hw Hgx E Hrho Ex) as [Hrho2 Hev2].
    assert (Hev2' : Forall (ev_ok L (a_rets (st_acc st1))) t2).
    { eapply Forall_impl; [|exact Hev2]. intro e. apply ev_ok_mono. apply Hk1. }
    destruct b2.
    - inversion Hex; subst. split; assumption.
    - destruct (exec_block o2 r2 r) as [[[[o3 r3] t3] b3]|] eqn:Er; [|discriminate].
      inversion Hex; subst.
      destruct (Hr L outer base s2 st2 s1 st1 _ _ _ _ _ _ Hs2 Hw2 Hgr Hrun Hrho2 Er) as [Hrho3 Hev3].
      split; [exact Hrho3 | apply Forall_app; split; assumption].
  Qed.

  Lemma PS_brcons b r : PS_block b -> PS_branches r -> PS_branches (BrCons b r).
  Proof.
    intros Hb Hr L outerc s base p a s2 kids p2 a2 k orc rho orc1 rho1 tr ret Hs Hwc Hg Hrun Hrho Hex.
    rewrite gd_branches_cons in Hg. apply andb_true_iff in Hg as [Hgb Hgr].
    rewrite run_branches_cons in Hrun.
    destruct (run_b s (mk_bstate (mk_dctx (d_types base) (d_decl base) p) [] a) b) as [[s1 stc]|] eqn:E; [|discriminate].
    destruct (proj1 (proj2 model_keeps_wf) b L outerc (d_decl base) s _ s1 stc Hs (Hwc p a) Hgb E) as (Hs1 & Hw1 & Hk1).
    destruct (run_brs s1 base (share_back (d_promo base) (d_promo (st_ctx stc))) (st_acc stc) r) as [[[[s3 kids3] p3] a3]|] eqn:E2; [|discriminate].
    inversion Hrun; subst s2 kids p2 a2.
    destruct (proj1 (proj2 (proj2 model_keeps_wf)) r L outerc s1 base _ _ s3 kids3 p3 a3 Hs1 Hwc Hgr E2) as (Hs3 & Hk3 & _).
    cbn [exec_branches] in Hex. destruct k as [|k1].
    - inversion Hex as [Hex']. clear Hex.
      destruct (Hb L outerc (d_decl base) s _ s1 stc _ _ _ _ _ _ Hs (Hwc p a) Hgb E Hrho Hex') as [Hrho1 Hev1].
      split; [exact Hrho1|]. eapply Forall_impl; [|exact Hev1]. intro e. apply ev_ok_mono. apply Hk3.
    - exact (Hr L outerc s1 base _ _ s3 kids3 p3 a3 k1 _ _ _ _ _ _ Hs1 Hwc Hgr E2 Hrho Hex).
  Qed.

  Lemma PS_if brs els : PS_branches brs -> PS_oblock els -> PS_stmt (SIf brs els).
  Proof.
    intros Hbrs Hels L outer base s st s1 st1 orc rho orc1 rho1 tr ret Hs Hw Hg Hrun Hrho Hex.
    pose proof (proj1 model_keeps_wf (SIf brs els) L outer base s st s1 st1 Hs Hw Hg Hrun) as (_ & _ & Hkall).
    rewrite gd_stmt_if in Hg. apply andb_true_iff in Hg as [Hgb Hge].
    rewrite run_stmt_if in Hrun. cbv zeta in Hrun.
    destruct (run_brs s (st_ctx st) (d_promo (st_ctx st)) (st_acc st) brs) as [[[[s2 kids] p1] a1]|] eqn:Eb; [|discriminate].
    destruct (proj1 (proj2 (proj2 model_keeps_wf)) brs L (st_decls st ++ outer) s (st_ctx st) _ _ s2 kids p1 a1 Hs
                (fun p' a' => wf_child L outer base st p' a' Hw) Hgb Eb) as (Hs2 & Hk2 & _).
    cbn [exec_stmt] in Hex. destruct (next orc) as [k o1].
    destruct els as [|b].
    - cbv iota beta in Hrun.
      assert (Ha : st_acc st1 = a1) by (destruct (promote_collect (d_decl (st_ctx st)) kids []); inversion Hrun; reflexivity).
      rewrite Ha. destruct (exec_branches o1 rho k brs) as [r|] eqn:Ebr.
      + subst r. exact (Hbrs L (st_decls st ++ outer) s (st_ctx st) _ _ s2 kids p1 a1 k _ _ _ _ _ _ Hs
                          (fun p' a' => wf_child L outer base st p' a' Hw) Hgb Eb Hrho Ebr).
      + inversion Hex; subst. split; [exact Hrho | constructor].
    - cbn [PS_oblock] in Hels. apply andb_true_iff in Hge as [Hge _].
      destruct (run_b s2 (mk_bstate (mk_dctx (d_types (st_ctx st)) (d_decl (st_ctx st)) p1) [] a1) b) as [[s3 stc]|] eqn:Ee; [|discriminate].
      destruct (proj1 (proj2 model_keeps_wf) b L (st_decls st ++ outer) (d_decl (st_ctx st)) s2 _ s3 stc Hs2 (wf_child L outer base st p1 a1 Hw) Hge Ee)
        as (_ & _ & Hk3). cbn [st_acc] in Hk3.
      assert (Ha : st_acc st1 = st_acc stc)
        by (destruct (promote_collect (d_decl (st_ctx st)) (kids ++ [st_ctx stc]) []); inversion Hrun; reflexivity).
      rewrite Ha. destruct (exec_branches o1 rho k brs) as [r|] eqn:Ebr.
      + subst r.
        destruct (Hbrs L (st_decls st ++ outer) s (st_ctx st) _ _ s2 kids p1 a1 k _ _ _ _ _ _ Hs
                    (fun p' a' => wf_child L outer base st p' a' Hw) Hgb Eb Hrho Ebr) as [Hrho1 Hev1].
        split; [exact Hrho1|]. eapply Forall_impl; [|exact Hev1]. intro e. apply ev_ok_mono. apply Hk3.
      + exact (Hels L (st_decls st ++ outer) (d_decl (st_ctx st)) s2 _ s3 stc _ _ _ _ _ _ Hs2 (wf_child L outer base st p1 a1 Hw) Hge Ee Hrho Hex).
  Qed.

  Lemma PS_while body : PS_block body -> PS_stmt (SWhile body).
  Proof.
    intros Hb L outer base s st s1 st1 orc rho orc1 rho1 tr ret Hs Hw Hg Hrun Hrho Hex.
    rewrite gd_stmt_while in Hg. apply andb_true_iff in Hg as [Hgb Hpo].
    rewrite run_stmt_while in Hrun. cbv zeta in Hrun.
    destruct (run_b s (mk_bstate (mk_dctx (d_types (st_ctx st)) (d_decl (st_ctx st)) (d_promo (st_ctx st))) [] (st_acc st)) body)
      as [[s2 stc]|] eqn:E; [|discriminate].
    assert (Hacc : st_acc st1 = st_acc stc).
    { inversion Hrun; subst. unfold loop_promote. destruct (new_names (d_decl (st_ctx st)) (st_ctx stc)); reflexivity. }
    rewrite Hacc. cbn [exec_stmt] in Hex. destruct (next orc) as [n o1].
    apply (iter_while_ok (env_lab L) (ev_ok L (a_rets (st_acc stc))) (fun o r => exec_block o r body)) with (n := n) (orc := o1) (rho := rho) (orc1 := orc1) (ret := ret);
      [|exact Hrho | exact Hex].
    intros o r o' r' t' b' Hr Hx.
    exact (Hb L (st_decls st ++ outer) (d_decl (st_ctx st)) s _ s2 stc _ _ _ _ _ _ Hs (wf_child L outer base st _ _ Hw) Hgb E Hr Hx).
  Qed.

  Lemma ev_relabel L i R e : ev_ok (tset L i TInt) R e -> ev_ok L R (relabel i e).
  Proof.
    destruct e as [x v|j v|v]; cbn [relabel ev_ok]; try (intro H; exact H).
    intros (t & Ht & Hr). rewrite tlookup_tset in Ht. destruct (text_eqb x i).
    - inversion Ht; subst. exact Hr.
    - exists t. split; assumption.
  Qed.

  Lemma PS_for i body : PS_block body -> PS_stmt (SFor i body).
  Proof.
    intros Hb L outer base s st s1 st1 orc rho orc1 rho1 tr ret Hs Hw Hg Hrun Hrho Hex.
    rewrite gd_stmt_for in Hg. apply andb_true_iff in Hg as [Hgb Hpo].
    rewrite run_stmt_for in Hrun. cbv zeta in Hrun.
    destruct (run_b s (mk_bstate (mk_dctx (tset (d_types (st_ctx st)) i TInt) (add_name (d_decl (st_ctx st)) i) (d_promo (st_ctx st))) [] (st_acc st)) body)
      as [[s2 stc]|] eqn:E; [|discriminate].
    assert (Hacc : st_acc st1 = st_acc stc).
    { inversion Hrun; subst. unfold loop_promote. destruct (new_names (add_name (d_decl (st_ctx st)) i) (st_ctx stc)); reflexivity. }
    rewrite Hacc. cbn [exec_stmt] in Hex. destruct (next orc) as [n o1].
    destruct (iter_for (fun o r => exec_block o r body) i n 0 o1 rho) as [[[[o2 r2] t2] b2]|] eqn:Ei; [|discriminate].
    inversion Hex; subst orc1 rho1 tr ret. clear Hex.
    destruct (iter_for_ok (env_lab_ex i L) (env_lab (tset L i TInt)) (ev_ok (tset L i TInt) (a_rets (st_acc stc)))
                (fun o r => exec_block o r body) i) with (n := n) (j := 0) (orc := o1) (rho := rho) (orc1 := o2) (rho1 := r2) (tr := t2) (ret := b2)
      as [Hr2 Hev2].
    - intros r j Hr y w Hl. unfold lookup in Hl. cbn [tlookup] in Hl. rewrite tlookup_tset.
      destruct (text_eqb y i) eqn:Ey.
      + inversion Hl; subst. exists TInt. split; [reflexivity | exact I].
      + apply Hr; assumption.
    - intros o r o' r' t' b' Hr Hx.
      destruct (Hb (tset L i TInt) ((i, CInt) :: st_decls st ++ outer) (add_name (d_decl (st_ctx st)) i) s _ s2 stc _ _ _ _ _ _ Hs
                  (wf_child_for L outer base st i _ _ Hw) Hgb E Hr Hx) as [Hr' Hev'].
      split; [|exact Hev'].
      intros y w Ey Hl. destruct (Hr' y w Hl) as (t & Ht & Hrp). rewrite tlookup_tset, Ey in Ht. exists t. split; assumption.
    - intro j. exact I.
    - intros y w _ Hl. apply Hrho. exact Hl.
    - exact Ei.
    - split.
      + intros y w Hl. rewrite lookup_env_remove in Hl. destruct (text_eqb y i) eqn:Ey; [discriminate|].
        apply Hr2; assumption.
      + apply Forall_forall. intros e Hin. apply in_map_iff in Hin as (e0 & <- & Hin0).
        apply ev_relabel. rewrite Forall_forall in Hev2. apply Hev2. exact Hin0.
  Qed.

  Theorem values_within_labels :
    (forall x, PS_stmt x) /\ (forall b, PS_block b) /\ (forall brs, PS_branches brs) /\ (forall o, PS_oblock o).
  Proof.
    apply stmt_block_mutind.
    - (* SAssign *) intros x e L outer base s st s1 st1 orc rho orc1 rho1 tr ret Hs Hw Hg Hrun Hrho Hex.
      cbn [gd_stmt] in Hg. unfold assign_ok in Hg. apply andb_true_iff in Hg as [Hgx Hgs].
      cbn [exec_stmt] in Hex. destruct (peval rho e) as [v|] eqn:Ev; [|discriminate]. inversion Hex; subst.
      destruct (store_sound L _ _ x e rho v Hgx Hgs Hrho Ev) as [H1 H2].
      split; [exact H1 | constructor; [|constructor]]. eapply ev_ok_mono; [|exact H2]. intros y [].
    - (* SAug *) intros x op e L outer base s st s1 st1 orc rho orc1 rho1 tr ret Hs Hw Hg Hrun Hrho Hex.
      cbn [gd_stmt] in Hg. apply andb_true_iff in Hg as [_ Hg].
      unfold assign_ok in Hg. apply andb_true_iff in Hg as [Hgx Hgs].
      cbn [exec_stmt] in Hex. destruct (peval rho (EBin op (EName x) e)) as [v|] eqn:Ev; [|discriminate]. inversion Hex; subst.
      destruct (store_sound L _ _ x _ rho v Hgx Hgs Hrho Ev) as [H1 H2].
      split; [exact H1 | constructor; [|constructor]]. eapply ev_ok_mono; [|exact H2]. intros y [].
    - intros brs Hbrs els Hels. apply PS_if; assumption.
    - intros body Hb. apply PS_while; exact Hb.
    - intros i body Hb. apply PS_for; exact Hb.
    - (* SReturn *) intros [e|] L outer base s st s1 st1 orc rho orc1 rho1 tr ret Hs Hw Hg Hrun Hrho Hex.
      + cbn [gd_stmt] in Hg. destruct (return_step_gen L outer base s st e s1 st1 Hs Hw Hg Hrun) as (_ & _ & H3 & _).
        unfold ret_ok in Hg. apply andb_true_iff in Hg as [Hgx Hsc].
        cbn [exec_stmt] in Hex. destruct (peval rho e) as [v|] eqn:Ev; [|discriminate].
        pose proof (value_sound L _ e rho v Hgx Hrho Ev) as Hr. inversion Hex; subst.
        split; [exact Hrho | constructor; [|constructor]].
        exists (ety F A C (d_types (st_ctx st)) e). split; [rewrite H3; apply in_or_app; right; left; reflexivity | split; assumption].
      + cbn [exec_stmt] in Hex. inversion Hex; subst. split; [exact Hrho | constructor].
    - (* SAssignR *) intros x r L outer base s st s1 st1 orc rho orc1 rho1 tr ret Hs Hw Hg Hrun Hrho Hex.
      cbn [gd_stmt] in Hg. unfold assignr_ok in Hg.
      apply andb_true_iff in Hg as [Hg Hst]. apply andb_true_iff in Hg as [Hg Heq]. apply andb_true_iff in Hg as [Hg HtyL].
      apply andb_true_iff in Hg as [_ HgL]. apply ty_eqb_eq in Heq. unfold rty at 2 in Heq.
      destruct (infer_rhs_s F A C L r) as [[t1 G1]|] eqn:Ei; [|discriminate]. rewrite Heq in Hst.
      cbn [exec_stmt] in Hex. destruct (eval_rhs rho r) as [v|] eqn:Ev; [|discriminate]. inversion Hex; subst.
      destruct (rhs_sound F A C r _ _ _ _ _ (env_lab_sound _ _ Hrho) HgL Ei Ev) as [Hr _].
      destruct (store_ok_sub _ _ _ _ Hst) as (t0 & HL & Hs0). pose proof (sub_ty_repr _ _ _ Hs0 Hr) as Hr0.
      split; [eapply env_lab_bind; eassumption | constructor; [|constructor]]. exists t0. split; assumption.
    - (* STuple *) intros xs es L outer base s st s1 st1 orc rho orc1 rho1 tr ret Hs Hw Hg Hrun Hrho Hex.
      cbn [gd_stmt] in Hg. apply andb_true_iff in Hg as [Hlen Hall]. apply Nat.eqb_eq in Hlen.
      cbn [exec_stmt] in Hex. rewrite Hlen, Nat.eqb_refl in Hex. cbn [negb] in Hex.
      destruct (evals rho es) as [vs|] eqn:Ev; [|discriminate]. inversion Hex; subst.
      destruct (tuple_sem L _ rho Hrho xs es vs rho Hlen Hall Ev Hrho) as [H1 H2].
      split; [exact H1|]. eapply Forall_impl; [|exact H2]. intro e. apply ev_ok_mono. intros y [].
    - (* BNil *) intros L outer base s st s1 st1 orc rho orc1 rho1 tr ret Hs Hw Hg Hrun Hrho Hex.
      cbn [exec_block] in Hex. inversion Hex; subst. split; [exact Hrho | constructor].
    - intros x Hx r Hr. apply PS_bcons; assumption.
    - (* BrNil *) intros L outerc s base p a s2 kids p2 a2 k orc rho orc1 rho1 tr ret Hs Hwc Hg Hrun Hrho Hex. discriminate Hex.
    - intros b Hb r Hr. apply PS_brcons; assumption.
    - exact I.
    - intros b Hb. exact Hb.
  Qed.
End Ctl.

(* ------------------------------------------------------------------ scripts without user functions *)
Definition bst (ps : pstate) (decls : list (ident * cty)) : bstate :=
  mk_bstate (p_ctx ps) decls (mk_acc (p_labels ps) [] false).

Definition dyn_call_ok C := fun d sp G f sg (H : nofun (fst sp)) => call_dyn_nofun C d sp G f sg H.

Lemma wf_acc L outer base st a p :
  wf L outer base st ->
  wf L outer base (mk_bstate (mk_dctx (d_types (st_ctx st)) (d_decl (st_ctx st)) p) (st_decls st) a).
Proof. intro Hw. apply wf_ext; [exact Hw | reflexivity | reflexivity]. Qed.

Lemma wf_same_ctx L outer base st st' :
  wf L outer base st -> d_types (st_ctx st') = d_types (st_ctx st) -> d_decl (st_ctx st') = d_decl (st_ctx st) ->
  st_decls st' = st_decls st -> wf L outer base st'.
Proof.
  intros [Ht Hl Ho Hf Hb] HG Hdc Hds. constructor; rewrite ?HG, ?Hdc, ?Hds; assumption.
Qed.

Lemma run_item_stmt C ps s : is_tuple s = false ->
  run_item C ps (IStmt s) =
    match run_stmt fenv (call_dyn C) C (p_fe ps) (bst ps (p_globals ps)) s with
    | None => None
    | Some (fe1, st1) =>
        if fe_err fe1 then None
        else Some (mk_pstate fe1 (st_ctx st1) (st_decls st1) (p_loop ps) (a_labels (st_acc st1)))
    end.
Proof. destruct s; intro H; try discriminate H; reflexivity. Qed.

Definition ev_lab (L : tenv) (e : tev) : Prop := exists R, ev_ok L R e.

Lemma stmt_item_step C L ps s ps1 :
  nofun (p_fe ps) -> wf L [] [] (bst ps (p_globals ps)) ->
  item_gd C L ps (IStmt s) = true -> run_item C ps (IStmt s) = Some ps1 ->
  (nofun (p_fe ps1) /\ wf L [] [] (bst ps1 (p_globals ps1)) /\ p_loop ps1 = p_loop ps) /\
  forall orc rho orc1 rho1 tr ret, env_lab L rho -> exec_stmt orc rho s = Ok (orc1, rho1, tr, ret) ->
    env_lab L rho1 /\ Forall (ev_lab L) tr.
Proof.
  intros Hnf Hw Hg Hrun. cbn [item_gd] in Hg. fold (bst ps (p_globals ps)) in Hg.
  destruct (is_tuple s) eqn:Et.
  { destruct s as [| | | | | | |xs es]; try discriminate Et. clear Et.
    cbn [run_item] in Hrun. fold (bst ps (p_globals ps)) in Hrun.
    destruct (do_tuple fenv (call_dyn C) C true (p_fe ps) (bst ps (p_globals ps)) xs es) as [[fe1 st1]|] eqn:E; [|discriminate].
    destruct (fe_err fe1); [discriminate|]. inversion Hrun; subst ps1. clear Hrun.
    cbn [gd_stmt] in Hg.
    destruct (tuple_step fenv (call_dyn C) C [] [] nofun (dyn_call_ok C) true L [] [] _ _ xs es fe1 st1 Hnf Hw Hg E) as (Hnf1 & Hw1 & _).
    split.
    - cbn [p_fe p_ctx p_globals p_loop p_labels]. split; [exact Hnf1|]. split; [|reflexivity].
      unfold bst. cbn [p_ctx p_globals p_labels]. eapply wf_same_ctx; [exact Hw1 | reflexivity | reflexivity | reflexivity].
    - intros orc rho orc1 rho1 tr ret Hrho Hex.
      apply andb_true_iff in Hg as [Hlen Hall]. apply Nat.eqb_eq in Hlen.
      cbn [exec_stmt] in Hex. rewrite Hlen, Nat.eqb_refl in Hex. cbn [negb] in Hex.
      destruct (evals rho es) as [vs|] eqn:Ev; [|discriminate]. inversion Hex; subst.
      destruct (tuple_sem C [] [] L _ rho Hrho xs es vs rho Hlen Hall Ev Hrho) as [H1 H2].
      split; [exact H1|]. eapply Forall_impl; [|exact H2]. intros e He. exists []. exact He. }
  rewrite (run_item_stmt C ps s Et) in Hrun.
  destruct (run_stmt fenv (call_dyn C) C (p_fe ps) (bst ps (p_globals ps)) s) as [[fe1 st1]|] eqn:E; [|discriminate].
  destruct (fe_err fe1); [discriminate|]. inversion Hrun; subst ps1. clear Hrun.
  destruct (proj1 (model_keeps_wf fenv (call_dyn C) C [] [] nofun (dyn_call_ok C)) s L [] [] _ _ _ _ Hnf Hw Hg E) as (Hnf1 & Hw1 & _).
  split.
  - cbn [p_fe p_ctx p_globals p_loop p_labels]. split; [exact Hnf1|]. split; [|reflexivity].
    unfold bst. cbn [p_ctx p_globals p_labels]. eapply wf_same_ctx; [exact Hw1 | reflexivity | reflexivity | reflexivity].
  - intros orc rho orc1 rho1 tr ret Hrho Hex.
    destruct (proj1 (values_within_labels fenv (call_dyn C) C [] [] nofun (dyn_call_ok C)) s L [] [] _ _ _ _ _ _ _ _ _ _ Hnf Hw Hg E Hrho Hex)
      as [H1 H2].
    split; [exact H1|]. eapply Forall_impl; [|exact H2]. intros e He. eexists; exact He.
Qed.

Lemma pre_items_run C L : forall pre rest ps0 ps,
  nofun (p_fe ps0) -> wf L [] [] (bst ps0 (p_globals ps0)) ->
  items_gd C L ps0 (map IStmt pre ++ rest) = true ->
  fold_left (step_items C) (map IStmt pre) (Some ps0) = Some ps ->
  (nofun (p_fe ps) /\ wf L [] [] (bst ps (p_globals ps)) /\ p_loop ps = p_loop ps0 /\ items_gd C L ps rest = true) /\
  forall orc rho orc1 rho1 tr ret, env_lab L rho -> exec_block orc rho (block_of pre) = Ok (orc1, rho1, tr, ret) ->
    (ret = false -> env_lab L rho1) /\ Forall (ev_lab L) tr.
Proof.
  induction pre as [|s pre IH]; intros rest ps0 ps Hnf Hw Hg Hrun.
  - cbn in Hrun. inversion Hrun; subst. cbn [map app] in Hg.
    split; [split; [exact Hnf | split; [exact Hw | split; [reflexivity | exact Hg]]]|].
    intros orc rho orc1 rho1 tr ret Hrho Hex. cbn in Hex. inversion Hex; subst. split; [intros _; exact Hrho | constructor].
  - cbn [map app items_gd] in Hg. apply andb_true_iff in Hg as [Hgs Hgr].
    cbn [map fold_left] in Hrun. unfold step_items at 2 in Hrun.
    destruct (run_item C ps0 (IStmt s)) as [ps1|] eqn:E1; [|rewrite fold_none in Hrun; discriminate].
    destruct (stmt_item_step C L ps0 s ps1 Hnf Hw Hgs E1) as [(Hnf1 & Hw1 & Hl1) Hsem1].
    destruct (IH rest ps1 ps Hnf1 Hw1 Hgr Hrun) as [(Hnf2 & Hw2 & Hl2 & Hg2) Hsem2].
    split; [split; [exact Hnf2 | split; [exact Hw2 | split; [congruence | exact Hg2]]]|].
    intros orc rho orc1 rho1 tr ret Hrho Hex. cbn [block_of exec_block] in Hex.
    destruct (exec_stmt orc rho s) as [[[[o2 r2] t2] b2]|] eqn:Ex; [|discriminate].
    destruct (Hsem1 _ _ _ _ _ _ Hrho Ex) as [Hr2 He2]. destruct b2.
    + inversion Hex; subst. split; [discriminate | exact He2].
    + destruct (exec_block o2 r2 (block_of pre)) as [[[[o3 r3] t3] b3]|] eqn:Er; [|discriminate].
      inversion Hex; subst. destruct (Hsem2 _ _ _ _ _ _ Hr2 Er) as [Hr3 He3].
      split; [exact Hr3 | apply Forall_app; split; assumption].
Qed.

Definition ev_decl (D : list (ident * cty)) (e : tev) : Prop :=
  match e with
  | TAssign x v => exists c, tlookup x D = Some c /\ crepr c v
  | TLoopVar _ v => crepr CInt v
  | TReturn _ => True
  end.

Lemma ev_lab_decl L D e :
  (forall x t, tlookup x L = Some t -> tlookup x D = Some (cpp_type t)) -> ev_lab L e -> ev_decl D e.
Proof.
  intros HD [R He]. destruct e as [x v|i v|v]; cbn in *.
  - destruct He as (t & Ht & Hr). exists (cpp_type t). split; [apply HD; exact Ht | apply repr_crepr; exact Hr].
  - apply (repr_crepr TInt). exact He.
  - exact I.
Qed.

Lemma wf0 L : wf L [] [] (bst pstate0 (p_globals pstate0)).
Proof.
  constructor; cbn.
  - intros x t H; discriminate H.
  - intro x; reflexivity.
  - intros x c H; discriminate H.
  - intros x [].
  - intros x H; discriminate H.
Qed.

Lemma all_labelled_spec L G x t : all_labelled L G = true -> tlookup x L = Some t -> exists u, tlookup x G = Some u.
Proof.
  unfold all_labelled. rewrite forallb_forall. intros H HL. apply tlookup_In in HL. specialize (H _ HL). cbn [fst] in H.
  destruct (tlookup x G) as [u|]; [exists u; reflexivity | discriminate].
Qed.

(* Every value any path of a script (statements at column 0 with their nested if / elif / else, while, for blocks, then
   any number of passes of the `while True:` body) stores into a name is held by the C type that name is declared with:
   a global, or a local of loop(); the target of a for loop by the `int` of its header. *)
Theorem script_covers :
  forall C pre main ps orc orc1 rho tr ret,
    script_guard C pre main = true ->
    run_items C (script_items pre main) = Some ps ->
    exec_prog orc pre main = Ok (orc1, rho, tr, ret) ->
    Forall (ev_decl (p_loop ps ++ p_globals ps)) tr.
Proof.
  intros C pre main ps orc orc1 rho tr ret Hg Hrun Hex.
  unfold script_guard in Hg. rewrite Hrun in Hg. set (L := decl_tab [] (p_labels ps)) in *.
  apply andb_true_iff in Hg as [Hall Hg].
  unfold script_items in *. rewrite run_items_fold, fold_left_app in Hrun.
  destruct (fold_left (step_items C) (map IStmt pre) (Some pstate0)) as [ps1|] eqn:E1; [|cbn in Hrun; discriminate].
  destruct (pre_items_run C L pre [ILoop main] pstate0 ps1 (proj1 (conj (conj eq_refl (conj eq_refl (conj eq_refl eq_refl))) I)) (wf0 L) Hg E1)
    as [(Hnf1 & Hw1 & Hl1 & Hg1) Hsem1].
  cbn [fold_left step_items run_item] in Hrun. cbn [items_gd item_gd] in Hg1. apply andb_true_iff in Hg1 as [Hgm _].
  cbn [p_loop pstate0] in Hl1.
  destruct (run_block fenv (call_dyn C) C (p_fe ps1) (mk_bstate (p_ctx ps1) (p_globals ps1) (mk_acc (p_labels ps1) [] false)) main)
    as [[fe2 st2]|] eqn:E2; [|discriminate].
  destruct (fe_err fe2); [discriminate|]. inversion Hrun; subst ps. clear Hrun.
  cbn [p_ctx p_loop p_globals] in *. rewrite Hl1. cbn [app].
  (* the body of the main loop declares into the globals, exactly like a statement at column 0 *)
  assert (Hwl : wf L [] [] (mk_bstate (p_ctx ps1) (p_globals ps1) (mk_acc (p_labels ps1) [] false))) by exact Hw1.
  destruct (proj1 (proj2 (model_keeps_wf fenv (call_dyn C) C [] [] nofun (dyn_call_ok C))) main L _ _ _ _ _ _ Hnf1 Hwl Hgm E2)
    as (_ & Hw2 & _).
  assert (HD : forall x t, tlookup x L = Some t -> tlookup x (st_decls st2) = Some (cpp_type t)).
  { intros x t Ht. destruct (all_labelled_spec _ _ x t Hall Ht) as [u Hu].
    destruct (wf_typ _ _ _ _ Hw2 x u Hu) as (t0 & HL0 & _ & Hd0). rewrite Ht in HL0. inversion HL0; subst t0.
    rewrite app_nil_r in Hd0. exact Hd0. }
  unfold exec_prog in Hex.
  destruct (exec_block orc [] (block_of pre)) as [[[[o1 r1] t1] b1]|] eqn:Ep; [|discriminate].
  assert (Hrho0 : env_lab L []) by (intros x v H; discriminate H).
  destruct (Hsem1 _ _ _ _ _ _ Hrho0 Ep) as [Hr1 He1].
  assert (He1' : Forall (ev_decl (st_decls st2)) t1).
  { eapply Forall_impl; [|exact He1]. intro e. apply ev_lab_decl. exact HD. }
  destruct b1.
  - inversion Hex; subst. exact He1'.
  - destruct (next o1) as [n o2].
    destruct (iter_while (fun o r => exec_block o r main) n o2 r1) as [[[[o3 r3] t3] b3]|] eqn:Ew; [|discriminate].
    assert (He3 : Forall (ev_lab L) t3).
    { destruct (iter_while_ok (env_lab L) (ev_lab L) (fun o r => exec_block o r main)) with (n := n) (orc := o2) (rho := r1) (orc1 := o3) (rho1 := r3) (tr := t3) (ret := b3)
        as [_ He3]; [|apply Hr1; reflexivity | exact Ew | exact He3].
      intros o r o' r' t' b' Hr Hx.
      destruct (proj1 (proj2 (values_within_labels fenv (call_dyn C) C [] [] nofun (dyn_call_ok C))) main L _ _ _ _ _ _ _ _ _ _ _ _ Hnf1 Hwl Hgm E2 Hr Hx)
        as [H1 H2]. split; [exact H1|]. eapply Forall_impl; [|exact H2]. intros e He. eexists; exact He. }
    inversion Hex; subst. apply Forall_app. split; [exact He1'|].
    eapply Forall_impl; [|exact He3]. intro e. apply ev_lab_decl. exact HD.
Qed.

(* no name is a local of loop(): whatever the items, the declarations of the main-loop body go to the globals *)
Lemma run_item_loop C ps it ps1 : run_item C ps it = Some ps1 -> p_loop ps1 = p_loop ps.
Proof.
  destruct it as [s|name src|b]; cbn [run_item]; intro H; [destruct s| |];
    repeat match type of H with
           | match ?X with _ => _ end = _ => destruct X as [[? ?]|] eqn:?; try discriminate
           | (if ?X then _ else _) = _ => destruct X; try discriminate
           end; inversion H; reflexivity.
Qed.

Lemma run_items_no_loop_locals C its ps : run_items C its = Some ps -> p_loop ps = [].
Proof.
  unfold run_items.
  assert (G : forall l acc, fold_left (fun acc0 it => match acc0 with None => None | Some ps0 => run_item C ps0 it end) l acc = Some ps ->
              exists ps0, acc = Some ps0 /\ p_loop ps = p_loop ps0).
  { induction l as [|it r IH]; intros acc H; cbn [fold_left] in H.
    - exists ps. split; [exact H|reflexivity].
    - destruct (IH _ H) as (ps1 & E & Hl). destruct acc as [ps0|]; [|discriminate].
      exists ps0. split; [reflexivity|]. rewrite Hl. eapply run_item_loop; exact E. }
  intro H. destruct (G _ _ H) as (ps0 & E & Hl). inversion E; subst ps0. exact Hl.
Qed.

(* ------------------------------------------------------------------ function bodies *)
Definition fn_ev (d : fdef) (outer : list (ident * cty)) (e : tev) : Prop :=
  match e with
  | TAssign x v => exists c, tlookup x (fd_locals d ++ outer) = Some c /\ crepr c v
  | TLoopVar _ v => crepr CInt v
  | TReturn v => crepr (fd_ret d) v
  end.

Lemma static_call_ok F A : forall (d : list ident) (sp : unit * option pmap) (G : tenv) (f : ident) (sg : list ty),
  (fun _ : unit => True) (fst sp) ->
  (fun _ : unit => True) (fst (fst (call_st F A d sp G f sg))) /\ snd (call_st F A d sp G f sg) = resolve_call F A f sg.
Proof. intros d sp G f sg _. unfold call_st. split; [exact I | reflexivity]. Qed.

Lemma decl_tab_base G0 labels x t : tlookup x G0 = Some t -> tlookup x (decl_tab G0 labels) = Some t.
Proof.
  unfold decl_tab. match goal with |- context [fold_left _ ?l0 G0] => generalize l0 end. intro l.
  revert G0. induction l as [|[y u] r IH]; intros G0 H; cbn [fold_left fst]; [exact H|].
  apply IH. destruct (tlookup y G0); [exact H|]. rewrite tlookup_app, H. reflexivity.
Qed.

Lemma wf_fn_start L c a :
  ctx_wf c = true -> (forall x t, tlookup x (d_types c) = Some t -> tlookup x L = Some t) ->
  wf L (lab_decls (d_types c)) (d_decl c) (mk_bstate c [] a).
Proof.
  intros Hc Hs. unfold ctx_wf in Hc. apply andb_true_iff in Hc as [Hc1 Hc2].
  rewrite forallb_forall in Hc1, Hc2.
  constructor; cbn [st_ctx st_decls app].
  - intros x t Ht. exists t. split; [apply Hs; exact Ht | split; [apply sub_ty_refl|]].
    unfold lab_decls. rewrite tlookup_map_snd, Ht. reflexivity.
  - intro x. destruct (tlookup x (d_types c)) as [t|] eqn:E.
    + apply tlookup_In in E. exact (Hc1 _ E).
    + destruct (tmem x (d_decl c)) eqn:Em; [|reflexivity].
      apply tmem_In in Em. specialize (Hc2 _ Em). rewrite E in Hc2. discriminate.
  - intros x c0 H. unfold lab_decls in H. rewrite tlookup_map_snd in H.
    destruct (tlookup x (d_types c)) as [t|] eqn:E; [|discriminate]. apply tlookup_In in E. exact (Hc1 _ E).
  - intros x [].
  - intros x H; exact H.
Qed.

(* For the variant of a function parsed for call signature sg, whatever path the body takes (assignments, augmented
   assignments, comprehensions, if / elif / else, while and for blocks at any depth, returns anywhere), started with its
   parameters holding values of the signature's labels: every value stored into a name is held by the C type the variant
   declares for it (a local, or - parameters, globals - the type of the label it had when the body started), every
   returned value by the declared return type, and every parameter is declared from its signature label. *)
Theorem function_body_covers :
  forall C fe cur name params body sg fe1 p1 final d orc rho orc1 rho1 tr ret,
    parse_function_static C fe cur name (mk_fsrc params None body) (Some sg) = Some (fe1, p1, final) ->
    fn_guard (fn_table fe name) (fe_alias fe) C cur params sg body = true ->
    env_lab (d_types (fn_ctx cur params sg)) rho ->
    sig_lookup final (get_or [] (tlookup name (fe_defs fe1))) = Some d ->
    exec_block orc rho body = Ok (orc1, rho1, tr, ret) ->
    Forall (fn_ev d (lab_decls (d_types (fn_ctx cur params sg)))) tr /\
    (forall p c, In (p, c) (fd_params d) -> c = cpp_type (tget (d_types (fn_ctx cur params sg)) p)).
Proof.
  intros C fe cur name params body sg fe1 p1 final d orc rho orc1 rho1 tr ret Hp Hg Hrho Hd Hex.
  unfold parse_function_static in Hp. cbn [fs_params fs_body fs_ret] in Hp.
  unfold fn_guard in Hg. apply andb_true_iff in Hg as [Har Hg].
  rewrite Har in Hp. cbn [negb] in Hp.
  fold (fn_table fe name) in Hp. set (F0 := fn_table fe name) in *.
  unfold run_block_s in Hp.
  change (mk_dctx (fold_left (fun G pl => tset G (fst (fst pl)) (snd pl)) (combine params sg) (d_types cur))
                  (fold_left add_name (map fst params) (d_decl cur)) (d_promo cur)) with (fn_ctx cur params sg) in Hp.
  set (c0 := fn_ctx cur params sg) in *.
  destruct (run_block unit (call_st F0 (fe_alias fe)) C tt (mk_bstate c0 [] (mk_acc [] [] true)) body) as [[u st1]|] eqn:Erun; [|discriminate].
  set (L := decl_tab (d_types c0) (a_labels (st_acc st1))) in *.
  apply andb_true_iff in Hg as [Hg Hgd]. apply andb_true_iff in Hg as [Hg Hpar]. apply andb_true_iff in Hg as [Hcw Hall].
  pose proof (wf_fn_start L c0 (mk_acc [] [] true) Hcw (fun x t H => decl_tab_base (d_types c0) (a_labels (st_acc st1)) x t H)) as Hw0.
  destruct (proj1 (proj2 (model_keeps_wf unit (call_st F0 (fe_alias fe)) C F0 (fe_alias fe) (fun _ => True) (static_call_ok F0 (fe_alias fe))))
              body L _ _ tt _ u st1 I Hw0 Hgd Erun) as (_ & Hw1 & Hk1).
  assert (Hrho0 : env_lab L rho).
  { intros x v Hl. destruct (Hrho x v Hl) as (t & Ht & Hr). exists t. split; [apply decl_tab_base; exact Ht | exact Hr]. }
  destruct (proj1 (proj2 (values_within_labels unit (call_st F0 (fe_alias fe)) C F0 (fe_alias fe) (fun _ => True) (static_call_ok F0 (fe_alias fe))))
              body L _ _ tt _ u st1 _ _ _ _ _ _ I Hw0 Hgd Erun Hrho0 Hex) as [_ Hev].
  destruct (merge_return_types (a_rets (st_acc st1)) false) as [merged|] eqn:Em; [|discriminate].
  rewrite override_none in Hp. inversion Hp; subst fe1 p1 final. clear Hp.
  cbn [fe_defs] in Hd. rewrite tlookup_aset_same in Hd. cbn [get_or] in Hd.
  rewrite sig_lookup_sset_same in Hd. inversion Hd; subst d. clear Hd. cbn [fd_ret fd_locals fd_params].
  assert (Hsc : forallb scalar (a_rets (st_acc st1)) = true).
  { rewrite forallb_forall. intros t Ht. destruct Hk1 as (_ & _ & H3). destruct (H3 t Ht) as [[]|Hs]. exact Hs. }
  split.
  - eapply Forall_impl; [|exact Hev]. intros e He. destruct e as [x v|i v|v]; cbn [ev_ok fn_ev fd_locals fd_ret] in He |- *.
    + destruct He as (t & Ht & Hr). exists (cpp_type t). split; [|apply repr_crepr; exact Hr].
      destruct (all_labelled_spec _ _ x t Hall Ht) as [u0 Hu0].
      destruct (wf_typ _ _ _ _ Hw1 x u0 Hu0) as (t0 & HL0 & _ & Hd0). fold L in HL0. rewrite Ht in HL0. inversion HL0; subst t0. exact Hd0.
    + apply (repr_crepr TInt). exact He.
    + destruct He as (t & Hin & _ & Hr). apply repr_crepr. apply (sub_ty_repr t); [|exact Hr].
      eapply merge_ret_upper; [exact Em | exact Hsc | exact Hin].
  - intros p c Hin. apply in_map_iff in Hin as ([[p0 an] t] & Heq & Hin). cbn [fst snd] in Heq. inversion Heq; subst p c.
    f_equal. apply in_combine_l in Hin as Hin1.
    assert (Hpos : forall l : list (ident * option text),
              In ((p0, an), t) (combine l (map (fun pa : ident * option text => tget (d_types (st_ctx st1)) (fst pa)) l)) ->
              t = tget (d_types (st_ctx st1)) p0).
    { clear. induction l as [|a l IH]; intro Hin; cbn in Hin; [contradiction|].
      destruct Hin as [H|H]; [inversion H; subst; reflexivity | exact (IH H)]. }
    rewrite (Hpos params Hin).
    rewrite forallb_forall in Hpar. specialize (Hpar _ Hin1). cbn [fst] in Hpar. apply ty_eqb_eq in Hpar. exact Hpar.
Qed.

(* ------------------------------------------------------------------ witnesses *)
Lemma demo_script_nonvacuous :
  script_guard None demo_pre demo_main = true /\
  (exists ps, run_items None (script_items demo_pre demo_main) = Some ps /\
              p_globals ps = [(w_a, CInt); (w_x, CFloat); (w_k, CInt); (w_y, CFloat); (w_z, CInt); (w_r, CInt); (w_w, CFloat)] /\
              p_loop ps = []) /\
  (exists rho tr, exec_prog demo_oracle demo_pre demo_main = Ok ([], rho, tr, false) /\
                  In (TAssign w_y (VFloat (17 # 2))) tr /\ In (TAssign w_w (VFloat 2)) tr /\ In (TLoopVar w_i (VInt 1)) tr).
Proof.
  split; [vm_compute; reflexivity|]. split.
  - eexists. split; [vm_compute; reflexivity | split; reflexivity].
  - eexists. eexists. split; [vm_compute; reflexivity|]. cbn. tauto.
Qed.

Lemma script_guard_boundary :
  forallb (fun p => negb (script_guard None p BNil))
          [first_assign_script; aug_script; branch_script; flow_script; early_read_script] = true.
Proof. vm_compute. reflexivity. Qed.

Lemma read_before_typed :
  exists ps rho tr,
    run_items None (script_items early_read_script BNil) = Some ps /\
    exec_prog early_read_oracle early_read_script BNil = Ok ([], rho, tr, false) /\
    In (TAssign w_b (VFloat (5 # 2))) tr /\
    tlookup w_b (p_loop ps ++ p_globals ps) = Some CInt /\
    ~ crepr CInt (VFloat (5 # 2)) /\ c_store CInt (VFloat (5 # 2)) = Some (VInt 2).
Proof.
  eexists. eexists. eexists. split; [vm_compute; reflexivity|]. split; [vm_compute; reflexivity|].
  split; [cbn; tauto|]. split; [vm_compute; reflexivity|]. split; [cbn; tauto | vm_compute; reflexivity].
Qed.

Lemma frho_lab : env_lab (d_types (fn_ctx fresh_cur fparams fsig)) frho.
Proof.
  intros x v H. unfold frho, lookup in H. cbn [tlookup] in H.
  destruct (text_eqb x w_p) eqn:Ea.
  { apply text_eqb_eq in Ea. subst x. inversion H; subst. exists TInt. split; [vm_compute; reflexivity | exact I]. }
  destruct (text_eqb x w_q) eqn:Ec; [|discriminate].
  apply text_eqb_eq in Ec. subst x. inversion H; subst. exists TFloat. split; [vm_compute; reflexivity | exact I].
Qed.

Lemma demo_function_nonvacuous :
  exists fe1 d rho1 tr,
    parse_function_static None fenv0 fresh_cur w_x (mk_fsrc fparams None fbody) (Some fsig) = Some (fe1, None, fsig) /\
    fn_guard (fn_table fenv0 w_x) (fe_alias fenv0) None fresh_cur fparams fsig fbody = true /\
    env_lab (d_types (fn_ctx fresh_cur fparams fsig)) frho /\
    sig_lookup fsig (get_or [] (tlookup w_x (fe_defs fe1))) = Some d /\
    fd_ret d = CFloat /\ fd_locals d = [(w_w, CInt)] /\ fd_params d = [(w_p, CInt); (w_q, CFloat)] /\
    exec_block foracle frho fbody = Ok ([], rho1, tr, true) /\
    In (TReturn (VFloat 1)) tr /\ In (TAssign w_w (VInt 6)) tr.
Proof.
  eexists. eexists. eexists. eexists.
  split; [vm_compute; reflexivity|]. split; [vm_compute; reflexivity|]. split; [exact frho_lab|].
  split; [vm_compute; reflexivity|]. split; [reflexivity|]. split; [reflexivity|]. split; [reflexivity|].
  split; [vm_compute; reflexivity|]. cbn. tauto.
Qed.

Lemma fn_guard_boundary :
  fn_guard [(w_x, FVariants [])] [] None stale_cur [(w_p, None)] [TInt] gbody = false /\
  fn_guard [(w_x, FVariants [])] [] None fresh_cur [(w_p, None)] [TInt] gbody = true /\
  fn_guard [(w_x, FVariants [])] [] None fresh_cur [(w_p, None)] [TFloat] relabel_body = false.
Proof. vm_compute. repeat split; reflexivity. Qed.


Lemma narrowing_nonvacuous :
  script_guard None narrow_pre BNil = true /\ script_guard None narrow_read_pre BNil = false /\
  (exists ps, run_items None (script_items narrow_pre BNil) = Some ps /\
              p_globals ps = [(w_a, CFloat); (w_b, CInt); (w_x, CFloat)]) /\
  (exists rho tr, exec_prog [0; 0]%nat narrow_pre BNil = Ok ([], rho, tr, false) /\
                  In (TAssign w_a (VInt 1)) tr /\ In (TAssign w_a (VInt 3)) tr /\ In (TAssign w_x (VFloat 1)) tr).
Proof.
  split; [vm_compute; reflexivity|]. split; [vm_compute; reflexivity|]. split.
  - eexists. split; [vm_compute; reflexivity | reflexivity].
  - eexists. eexists. split; [vm_compute; reflexivity|]. cbn. tauto.
Qed.

(* ------------------------------------------------------------------ the two halves, as exported statements *)
Theorem hoisting_keeps_declarations_coherent :
  forall (S : Type) call C F A (Inv : S -> Prop),
    (forall d sp G f sg, Inv (fst sp) ->
       Inv (fst (fst (call d sp G f sg))) /\ snd (call d sp G f sg) = resolve_call F A f sg) ->
    forall x L outer base s st s1 st1,
      Inv s -> wf L outer base st -> gd_stmt S call C F A L s st x = true ->
      run_stmt S call C s st x = Some (s1, st1) ->
      Inv s1 /\ wf L outer base st1.
Proof.
  intros S call C F A Inv Hcall x L outer base s st s1 st1 Hs Hw Hg Hrun.
  destruct (proj1 (model_keeps_wf S call C F A Inv Hcall) x L outer base s st s1 st1 Hs Hw Hg Hrun) as (H1 & H2 & _).
  split; assumption.
Qed.

Theorem stored_values_within_declared_labels :
  forall (S : Type) call C F A (Inv : S -> Prop),
    (forall d sp G f sg, Inv (fst sp) ->
       Inv (fst (fst (call d sp G f sg))) /\ snd (call d sp G f sg) = resolve_call F A f sg) ->
    forall x L outer base s st s1 st1 orc rho orc1 rho1 tr ret,
      Inv s -> wf L outer base st -> gd_stmt S call C F A L s st x = true ->
      run_stmt S call C s st x = Some (s1, st1) ->
      env_lab L rho -> exec_stmt orc rho x = Ok (orc1, rho1, tr, ret) ->
      env_lab L rho1 /\ Forall (ev_ok L (a_rets (st_acc st1))) tr.
Proof. intros S call C F A Inv Hcall. exact (proj1 (values_within_labels S call C F A Inv Hcall)). Qed.

Lemma demo_tuple_nonvacuous :
  script_guard None demo_tuple_pre BNil = true /\
  (exists ps, run_items None (script_items demo_tuple_pre BNil) = Some ps /\
              p_globals ps = [(w_a, CInt); (w_b, CFloat); (w_x, CFloat)] /\
              map snd (filter (fun xt => text_eqb (fst xt) tmp_marker) (p_labels ps)) = [TInt; TFloat; TFloat; TFloat]) /\
  (exists rho tr, exec_prog [1]%nat demo_tuple_pre BNil = Ok ([], rho, tr, false) /\ In (TAssign w_b (VFloat 5)) tr).
Proof.
  split; [vm_compute; reflexivity|]. split.
  - eexists. split; [vm_compute; reflexivity | split; vm_compute; reflexivity].
  - eexists. eexists. split; [vm_compute; reflexivity|]. cbn. tauto.
Qed.

Theorem tuple_temporaries_typed :
  forall (S : Type) call C F A (Inv : S -> Prop),
    (forall d sp G f sg, Inv (fst sp) ->
       Inv (fst (fst (call d sp G f sg))) /\ snd (call d sp G f sg) = resolve_call F A f sg) ->
    forall L s st xs es s1 st1,
      Inv s -> gd_stmt S call C F A L s st (STuple xs es) = true ->
      run_stmt S call C s st (STuple xs es) = Some (s1, st1) ->
      exists ts, a_labels (st_acc st1) = a_labels (st_acc st) ++ map (fun t => (tmp_marker, t)) ts ++ combine xs ts /\
                 Forall2 (fun x t => tlookup x L = Some t) xs ts.
Proof.
  intros S call C F A Inv Hcall L s st xs es s1 st1 Hs Hg Hrun.
  exact (tuple_temps_typed S call C F A Inv Hcall L s st xs es s1 st1 Hs Hg Hrun).
Qed.
