(* Proofs about Host/DCMotorFloat.v: DCMotor.ramp() in binary64.

   - every speed the real algorithm stores is in [-1,1] BECAUSE set_speed clamps it (for every
     start, target, step: no exactness of the arithmetic is used);
   - the raw interpolation point is NOT within [-1,1] in general (witness), so the clamp is needed;
   - the C19 motor invariant holds after every history of the class with the binary64 ramp;
   - the raw 20th point is within 2^-49 of the target, hence so is the stored one. *)
From Coq Require Import ZArith QArith Qfield Lia Lqa List Bool.
From RV Require Import Base.Wire Base.NumM Gen.C19Motor Host.DCMotor Proofs.NumMP Proofs.DCMotorP Host.DCMotorFloat.
From RV Require Host.LCDFloat Proofs.LCDFloatP.
Import ListNotations.
Open Scope Q_scope.

(* ---------- the loop ---------- *)
Lemma ramp_loop_fl_unfold k r m start sv delay :
  ramp_loop_fl (k :: r) m start sv delay =
  (fst (ramp_loop_fl r (fst (set_speed_q m (ramp_raw_fl start sv k))) start sv delay),
   snd (set_speed_q m (ramp_raw_fl start sv k)) ++
   (if Qltb 0 delay then [MSleep delay] else []) ++
   snd (ramp_loop_fl r (fst (set_speed_q m (ramp_raw_fl start sv k))) start sv delay)).
Proof.
  cbn [ramp_loop_fl]. destruct (set_speed_q m (ramp_raw_fl start sv k)) as [m1 e1]. cbn [fst snd].
  destruct (ramp_loop_fl r m1 start sv delay) as [m2 e3]. reflexivity.
Qed.

Lemma ramp_loop_fl_frame ks : forall m start sv delay,
  pins (fst (ramp_loop_fl ks m start sv delay)) = pins m /\
  inverted (fst (ramp_loop_fl ks m start sv delay)) = inverted m /\
  ghost (fst (ramp_loop_fl ks m start sv delay)) = ghost m.
Proof.
  induction ks as [|k ks IH]; intros m start sv delay.
  - cbn. repeat split; reflexivity.
  - rewrite ramp_loop_fl_unfold. cbn [fst snd].
    destruct (IH (fst (set_speed_q m (ramp_raw_fl start sv k))) start sv delay) as (A & B & D).
    rewrite A, B, D. cbn. repeat split; reflexivity.
Qed.

Lemma ramp_loop_fl_fresh ks : forall m start sv delay,
  fresh m -> fresh (fst (ramp_loop_fl ks m start sv delay)).
Proof.
  induction ks as [|k ks IH]; intros m start sv delay Hf.
  - exact Hf.
  - rewrite ramp_loop_fl_unfold. cbn [fst]. apply IH. apply set_speed_q_fresh.
Qed.

Lemma ramp_loop_fl_fresh_ne ks m start sv delay :
  ks <> [] -> fresh (fst (ramp_loop_fl ks m start sv delay)).
Proof.
  destruct ks as [|k ks]; [intro H; contradiction|]. intros _.
  rewrite ramp_loop_fl_unfold. cbn [fst]. apply ramp_loop_fl_fresh. apply set_speed_q_fresh.
Qed.

Lemma ramp_loop_fl_last ks m start sv delay :
  ks <> [] -> speed (fst (ramp_loop_fl ks m start sv delay)) = ramp_point_fl start sv (last ks 0%Z).
Proof.
  destruct ks as [|k ks]; [intro H; contradiction|]. intros _. revert k m.
  induction ks as [|k' ks IH]; intros k m.
  - reflexivity.
  - rewrite ramp_loop_fl_unfold. cbn [fst]. rewrite IH. reflexivity.
Qed.

Lemma ramp_loop_fl_speeds ks : forall m start sv delay,
  lvl_speeds (snd (ramp_loop_fl ks m start sv delay)) = map (ramp_point_fl start sv) ks.
Proof.
  induction ks as [|k ks IH]; intros m start sv delay.
  - reflexivity.
  - rewrite ramp_loop_fl_unfold. cbn [snd map]. rewrite !lvl_speeds_app, IH.
    destruct (Qltb 0 delay); reflexivity.
Qed.

Lemma ramp_loop_fl_sleeps ks : forall m start sv delay,
  sleeps (snd (ramp_loop_fl ks m start sv delay)) =
  if Qltb 0 delay then repeat delay (length ks) else [].
Proof.
  induction ks as [|k ks IH]; intros m start sv delay.
  - cbn. destruct (Qltb 0 delay); reflexivity.
  - rewrite ramp_loop_fl_unfold. cbn [snd length repeat]. rewrite !sleeps_app, IH.
    destruct (Qltb 0 delay); reflexivity.
Qed.

Lemma ramp_loop_fl_ev ks : forall m start sv delay,
  0 <= delay -> Forall (ev_ok (inverted m)) (snd (ramp_loop_fl ks m start sv delay)).
Proof.
  induction ks as [|k ks IH]; intros m start sv delay Hd.
  - constructor.
  - rewrite ramp_loop_fl_unfold. cbn [snd]. apply Forall_app. split; [apply set_speed_q_ev|].
    apply Forall_app. split.
    + destruct (Qltb 0 delay); constructor; [exact Hd | constructor].
    + rewrite <- (set_speed_q_inverted m (ramp_raw_fl start sv k)). apply IH. exact Hd.
Qed.

Lemma ramp_run_fl_eq m target d :
  ramp_run_fl m target d =
  ramp_loop_fl (zsteps 20) m (speed m) (ramp_sv_fl (speed m) target) (fl (d / inject_Z 20)).
Proof.
  unfold ramp_run_fl. rewrite ramp_steps_20. change (20 <=? 0)%Z with false. cbv iota zeta. reflexivity.
Qed.

(* ---------- the stored points are clamped: for EVERY start, target and step ---------- *)
Lemma ramp_point_fl_in_unit start sv k : -(1) <= ramp_point_fl start sv k /\ ramp_point_fl start sv k <= 1.
Proof.
  unfold ramp_point_fl. rewrite Qred_correct. apply clampq_bounds.
Qed.

Definition in_unit_q (x : Q) : Prop := -(1) <= x /\ x <= 1.

Lemma ramp_points_fl_in_unit start target : Forall in_unit_q (ramp_points_fl start target).
Proof.
  unfold ramp_points_fl. apply Forall_forall. intros x Hx. apply in_map_iff in Hx as (k & <- & _).
  apply ramp_point_fl_in_unit.
Qed.

(* what one ramp stores, step by step, is exactly that list; the final speed is its last element *)
Lemma ramp_fl_stored m t d qt qd :
  qof t = Some qt -> qof d = Some qd -> 0 <= qd ->
  mresult (mstep_fl m (MRamp t d)) = Ok MNone /\
  lvl_speeds (mevents (mstep_fl m (MRamp t d))) = ramp_points_fl (speed m) (clampq qt) /\
  speed (mstate (mstep_fl m (MRamp t d))) = last (ramp_points_fl (speed m) (clampq qt)) 0 /\
  Forall in_unit_q (lvl_speeds (mevents (mstep_fl m (MRamp t d)))).
Proof.
  intros Ht Hd H0. cbn [mstep_fl]. unfold py_lt. rewrite Hd. cbn [qof].
  assert (L : Qltb qd (inject_Z 0) = false).
  { destruct (Qltb qd (inject_Z 0)) eqn:E; [|reflexivity]. apply Qltb_true in E. change (inject_Z 0) with 0 in E. lra. }
  rewrite L. unfold clamp_speed. rewrite Ht.
  rewrite ok_with_result, ok_with_events, ok_with_state, ramp_run_fl_eq.
  split; [reflexivity|]. rewrite ramp_loop_fl_speeds.
  unfold ramp_points_fl. rewrite ramp_steps_20.
  split; [reflexivity|]. split.
  - destruct (with_ghost_fields (fst (ramp_loop_fl (zsteps 20) m (speed m) (ramp_sv_fl (speed m) (clampq qt)) (fl (qval d / inject_Z 20)))) LastOther)
      as (_ & G2 & _). rewrite G2. rewrite ramp_loop_fl_last by exact steps20_ne.
    rewrite last_steps20. reflexivity.
  - apply Forall_forall. intros x Hx. apply in_map_iff in Hx as (k & <- & _). apply ramp_point_fl_in_unit.
Qed.

(* ---------- ... and the clamp is what does it: the raw point leaves [-1,1] ---------- *)
(* start = the binary64 number -0.95, target = 1: the 20th raw point is 1 + 2^-52 *)
Definition overshoot_start : Q := fl (-(95 # 100)).

Lemma ramp_unclamped_overshoots :
  in_unit_q overshoot_start /\ is_b64 overshoot_start = true /\
  1 < ramp_unclamped_end overshoot_start 1 /\
  ramp_unclamped_end overshoot_start 1 == 1 + (1 # 4503599627370496) /\
  ramp_point_fl overshoot_start (ramp_sv_fl overshoot_start 1) 20 == 1.
Proof. vm_compute. repeat split; try reflexivity; intro H; discriminate H. Qed.

Lemma ramp_unclamped_undershoots :
  ramp_unclamped_end (fl (95 # 100)) (-(1)) < -(1) /\
  ramp_point_fl (fl (95 # 100)) (ramp_sv_fl (fl (95 # 100)) (-(1))) 20 == -(1).
Proof. vm_compute. repeat split; try reflexivity; intro H; discriminate H. Qed.

(* ---------- the invariant under every history of the class as CPython runs it ---------- *)
Lemma fl_nonneg q : 0 <= q -> 0 <= fl q.
Proof.
  intro H. destruct (LCDFloatP.fl53_nonneg_err q H) as [A _]. unfold fl, LCDFloatP.eps53 in *. lra.
Qed.

Lemma step_inv_fl m op : motor_inv m -> motor_inv (mstate (mstep_fl m op)).
Proof.
  intro Hinv. destruct op as [v|ov| | | |t d|d v| | | |];
    try exact (step_inv m _ Hinv).
  cbn [mstep_fl].
  destruct (py_lt d (PI 0)) as [[|]|]; try exact Hinv.
  destruct (clamp_speed t) as [target|]; [|exact Hinv].
  apply ok_with_fresh_inv. rewrite ramp_run_fl_eq. apply ramp_loop_fl_fresh_ne. exact steps20_ne.
Qed.

Lemma step_pins_fl m op : pins (mstate (mstep_fl m op)) = pins m.
Proof.
  destruct op as [v|ov| | | |t d|d v| | | |]; try exact (step_pins m _).
  cbn [mstep_fl].
  destruct (py_lt d (PI 0)) as [[|]|]; try reflexivity.
  destruct (clamp_speed t) as [target|]; [|reflexivity].
  apply ok_with_pins. rewrite ramp_run_fl_eq. apply ramp_loop_fl_frame.
Qed.

Lemma run_inv_fl ops : forall m, motor_inv m -> motor_inv (mrun_fl ops m) /\ pins (mrun_fl ops m) = pins m.
Proof.
  induction ops as [|op ops IH]; intros m Hi.
  - split; [exact Hi | reflexivity].
  - unfold mrun_fl. cbn [fold_left]. fold (mrun_fl ops (mstate (mstep_fl m op))).
    destruct (IH (mstate (mstep_fl m op)) (step_inv_fl m op Hi)) as [I1 I2].
    split; [exact I1 | rewrite I2; apply step_pins_fl].
Qed.

Lemma motor_reachable_inv_fl i1 i2 en m0 ops :
  motor_ctor i1 i2 en = inl m0 ->
  motor_inv (mrun_fl ops m0) /\ pins (mrun_fl ops m0) = (i1, i2, en).
Proof.
  intro H. apply ctor_accepts in H as [-> _].
  destruct (run_inv_fl ops _ (init_inv i1 i2 en)) as [I1 I2]. split; [exact I1 | exact I2].
Qed.

(* every level event of every call: speed in [-1,1], applied = +-speed, drive iff applied <> 0;
   no negative sleep *)
Lemma step_ev_fl m op :
  motor_inv m -> Forall (ev_ok (inverted (mstate (mstep_fl m op)))) (mevents (mstep_fl m op)).
Proof.
  intros Hinv. destruct op as [v|ov| | | |t d|d v| | | |]; try exact (step_ev m _ Hinv).
  cbn [mstep_fl].
  destruct (py_lt d (PI 0)) as [[|]|] eqn:E; try (apply Forall_nil).
  destruct (clamp_speed t) as [target|]; [|constructor].
  apply py_lt0_false in E as (qd & Hd & Hd0).
  rewrite ok_with_state, ok_with_events. rewrite ramp_run_fl_eq.
  destruct (with_ghost_fields (fst (ramp_loop_fl (zsteps 20) m (speed m) (ramp_sv_fl (speed m) target) (fl (qval d / inject_Z 20)))) LastOther)
    as (_ & _ & G3 & _).
  rewrite G3. destruct (ramp_loop_fl_frame (zsteps 20) m (speed m) (ramp_sv_fl (speed m) target) (fl (qval d / inject_Z 20))) as (_ & F2 & _).
  rewrite F2. apply ramp_loop_fl_ev. apply fl_nonneg. unfold qval. rewrite Hd. change (inject_Z 20) with 20.
  apply Qle_shift_div_l; [reflexivity | lra].
Qed.

Lemma trace_ev_fl ops : forall m, motor_inv m -> Forall ev_sound (mtrace_fl ops m).
Proof.
  induction ops as [|op ops IH]; intros m Hinv.
  - constructor.
  - cbn [mtrace_fl]. apply Forall_app. split.
    + eapply Forall_impl; [|exact (step_ev_fl m op Hinv)]. intros e He. exact (ev_ok_sound _ e He).
    + apply IH. apply step_inv_fl. exact Hinv.
Qed.

Lemma trace_ev_reachable_fl i1 i2 en m0 pre ops :
  motor_ctor i1 i2 en = inl m0 -> Forall ev_sound (mtrace_fl ops (mrun_fl pre m0)).
Proof.
  intro H. apply trace_ev_fl. exact (proj1 (motor_reachable_inv_fl i1 i2 en m0 pre H)).
Qed.

(* a failing call leaves the object as it was, also with the binary64 ramp *)
Lemma motor_failed_atomic_fl m op m' evs k :
  mstep_fl m op = (m', evs, Raised k) -> m' = m /\ evs = [].
Proof.
  destruct op as [v|ov| | | |t d|d v| | | |]; try exact (motor_failed_atomic m _ m' evs k).
  cbn [mstep_fl].
  destruct (py_lt d (PI 0)) as [[|]|].
  - intro H. injection H as <- <- _. split; reflexivity.
  - destruct (clamp_speed t) as [target|].
    + intro H. exfalso. exact (ok_with_not_raised _ _ _ _ _ H).
    + intro H. injection H as <- <- _. split; reflexivity.
  - intro H. injection H as <- <- _. split; reflexivity.
Qed.

(* ---------- "ends at the clamped target (to float rounding)": within 2^-49 ---------- *)
Lemma fl_neg_err q : q <= 0 -> q + q * LCDFloatP.eps53 <= fl q /\ fl q <= q - q * LCDFloatP.eps53.
Proof.
  intros Hq. unfold fl, LCDFloat.fl53. destruct (Qnum q =? 0)%Z eqn:E0.
  - apply LCDFloatP.Qnum_sign in E0. rewrite E0. unfold LCDFloatP.eps53. split; lra.
  - assert (Hn : ~ q == 0) by (intro H; apply LCDFloatP.Qnum_sign in H; congruence).
    destruct (Qnum q <? 0)%Z eqn:E1.
    + destruct (LCDFloatP.fl_pos_err (- q) ltac:(lra)) as [A B]. unfold LCDFloatP.eps53 in *. split; lra.
    + apply Z.ltb_ge in E1. exfalso. apply Hn. unfold Qle in Hq. unfold Qeq. cbn in *. lia.
Qed.

(* absolute error of one rounding of a number bounded by B *)
Lemma fl_err_B q B : - B <= q -> q <= B ->
  q - B * LCDFloatP.eps53 <= fl q /\ fl q <= q + B * LCDFloatP.eps53.
Proof.
  intros H1 H2. destruct (Qlt_le_dec q 0) as [N|P].
  - destruct (fl_neg_err q ltac:(lra)) as [A B']. unfold LCDFloatP.eps53 in *. split; lra.
  - destruct (LCDFloatP.fl53_nonneg_err q P) as [A B']. unfold fl, LCDFloatP.eps53 in *. split; lra.
Qed.

Definition ramp_tol : Q := 1 # 562949953421312.      (* 2^-49 *)

Lemma ramp_raw_end_near start target :
  in_unit_q start -> in_unit_q target ->
  target - ramp_tol <= ramp_unclamped_end start target /\ ramp_unclamped_end start target <= target + ramp_tol.
Proof.
  intros [S1 S2] [T1 T2]. unfold ramp_unclamped_end, ramp_raw_fl, ramp_sv_fl. rewrite ramp_steps_20.
  unfold Qdiv. change (/ inject_Z 20) with (1 # 20). change (inject_Z 20) with (20 # 1).
  destruct (fl_err_B (target - start) 2 ltac:(lra) ltac:(lra)) as [D1 D2].
  set (d := fl (target - start)) in *.
  unfold LCDFloatP.eps53 in D1, D2.
  destruct (fl_err_B (d * (1 # 20)) (1 # 5) ltac:(lra) ltac:(lra)) as [V1 V2].
  set (sv := fl (d * (1 # 20))) in *.
  unfold LCDFloatP.eps53 in V1, V2.
  destruct (fl_err_B (sv * (20 # 1)) 4 ltac:(lra) ltac:(lra)) as [P1 P2].
  set (p := fl (sv * (20 # 1))) in *.
  unfold LCDFloatP.eps53 in P1, P2.
  destruct (fl_err_B (start + p) 2 ltac:(lra) ltac:(lra)) as [X1 X2].
  unfold LCDFloatP.eps53 in X1, X2. unfold ramp_tol. split; lra.
Qed.

Lemma clampq_closer x t e : in_unit_q t -> t - e <= x -> x <= t + e -> t - e <= clampq x /\ clampq x <= t + e.
Proof.
  intros [T1 T2] H1 H2. unfold clampq, qclamp.
  destruct (Qltb 1 x) eqn:A; [apply Qltb_true in A; split; lra|]. apply Qltb_false in A.
  destruct (Qltb x (-(1))) eqn:B; [apply Qltb_true in B; split; lra|]. split; lra.
Qed.

(* the speed the object holds after ramp(): the clamped target to within 2^-49, and inside [-1,1] exactly *)
Lemma ramp_fl_ends_near_target m t d qt qd :
  motor_inv m -> qof t = Some qt -> qof d = Some qd -> 0 <= qd ->
  let m' := mstate (mstep_fl m (MRamp t d)) in
  clampq qt - ramp_tol <= speed m' /\ speed m' <= clampq qt + ramp_tol /\ in_unit_q (speed m').
Proof.
  intros Hinv Ht Hd H0 m'. destruct Hinv as (Hs & _ & _).
  destruct (ramp_fl_stored m t d qt qd Ht Hd H0) as (_ & _ & E & _).
  subst m'. rewrite E. unfold ramp_points_fl. rewrite ramp_steps_20.
  change (last (map (ramp_point_fl (speed m) (ramp_sv_fl (speed m) (clampq qt))) (zsteps 20)) 0)
    with (ramp_point_fl (speed m) (ramp_sv_fl (speed m) (clampq qt)) 20).
  pose proof (ramp_point_fl_in_unit (speed m) (ramp_sv_fl (speed m) (clampq qt)) 20) as U.
  split; [|split; [|exact U]].
  - unfold ramp_point_fl. rewrite Qred_correct.
    destruct (ramp_raw_end_near (speed m) (clampq qt) Hs (clampq_bounds qt)) as [R1 R2].
    unfold ramp_unclamped_end in R1, R2. rewrite ramp_steps_20 in R1, R2.
    exact (proj1 (clampq_closer _ _ _ (clampq_bounds qt) R1 R2)).
  - unfold ramp_point_fl. rewrite Qred_correct.
    destruct (ramp_raw_end_near (speed m) (clampq qt) Hs (clampq_bounds qt)) as [R1 R2].
    unfold ramp_unclamped_end in R1, R2. rewrite ramp_steps_20 in R1, R2.
    exact (proj2 (clampq_closer _ _ _ (clampq_bounds qt) R1 R2)).
Qed.
