(* Proofs about Host/DCMotor.v. *)
From Coq Require Import ZArith QArith Qfield Lia Lqa List Bool.
From RV Require Import Base.Wire Base.NumM Gen.C19Motor Host.DCMotor Proofs.NumMP.
Import ListNotations.
Open Scope Q_scope.

(* ---- statements' vocabulary ---- *)

(* mode as the property dictates it from the applied speed and the last successful command *)
Definition mode_spec (ap : Q) (g : lastcmd) : mode :=
  if Qeqb ap 0 then match g with LastStop => Brake | LastOther => Coast end else Drive.

(* the C19 motor invariant (DESIGN.md A.4) *)
Definition motor_inv (m : motor) : Prop :=
  (-(1) <= speed m /\ speed m <= 1) /\
  applied m == (if inverted m then - speed m else speed m) /\
  mmode m = mode_spec (applied m) (ghost m).

(* what a successful call does to the "last command": getters are not commands *)
Definition cmd_class (op : mop) : option lastcmd :=
  match op with
  | MStop | MRunFor _ _ => Some LastStop
  | MSetSpeed _ | MBackward _ | MCoast | MInvert | MRamp _ _ => Some LastOther
  | MGetSpeed | MGetApplied | MIsInverted | MGetMode => None
  end.

Definition qge (x y : Q) : Prop := y <= x.

(* adjacent elements related *)
Fixpoint chain {A : Type} (R : A -> A -> Prop) (l : list A) : Prop :=
  match l with
  | x :: r => match r with y :: _ => R x y | [] => True end /\ chain R r
  | [] => True
  end.

(* the ramp constant of the source, as the property states it *)
Lemma ramp_steps_20 : dc_ramp_steps = 20%Z.
Proof. reflexivity. Qed.

(* ---- the state right after _apply_speed: everything but the ghost clause ---- *)
Definition fresh (m : motor) : Prop :=
  (-(1) <= speed m /\ speed m <= 1) /\
  applied m == (if inverted m then - speed m else speed m) /\
  mmode m = (if Qeqb (applied m) 0 then Coast else Drive).

Lemma clampq_bounds q : -(1) <= clampq q /\ clampq q <= 1.
Proof. unfold clampq. apply qclamp_bounds. lra. Qed.

Lemma clampq_id q : -(1) <= q -> q <= 1 -> clampq q = q.
Proof. intros H1 H2. unfold clampq. apply qclamp_id. split; assumption. Qed.

Lemma clampq_mono x y : x <= y -> clampq x <= clampq y.
Proof. intro H. unfold clampq. apply qclamp_mono; [lra | exact H]. Qed.

Lemma clampq_compat x y : x == y -> clampq x == clampq y.
Proof. intro H. unfold clampq. apply qclamp_compat. exact H. Qed.

Lemma clampq_idem q : clampq (clampq q) = clampq q.
Proof. destruct (clampq_bounds q) as [H1 H2]. apply clampq_id; assumption. Qed.

Lemma set_speed_q_fields m q :
  let r := set_speed_q m q in
  pins (fst r) = pins m /\ inverted (fst r) = inverted m /\ ghost (fst r) = ghost m /\
  speed (fst r) = Qred (clampq q) /\
  applied (fst r) = (if inverted m then - Qred (clampq q) else Qred (clampq q)) /\
  mmode (fst r) = (if Qeqb (applied (fst r)) 0 then Coast else Drive) /\
  snd r = [MLvl (speed (fst r)) (applied (fst r)) (mmode (fst r))].
Proof. cbn. repeat split; reflexivity. Qed.

Lemma set_speed_q_fresh m q : fresh (fst (set_speed_q m q)).
Proof.
  unfold fresh. cbn. destruct (clampq_bounds q) as [H1 H2].
  split; [rewrite Qred_correct; split; assumption|].
  split; [reflexivity | reflexivity].
Qed.

Lemma fresh_inv m g :
  fresh m -> g = LastOther -> motor_inv (with_ghost m g).
Proof.
  intros (Hs & Ha & Hm) ->. unfold motor_inv, with_ghost, mode_spec. cbn.
  split; [exact Hs|]. split; [exact Ha|]. exact Hm.
Qed.

Lemma halt_fields m md :
  fst (halt m md) = mkMotor (pins m) 0 (inverted m) md 0 (ghost m) /\ snd (halt m md) = [MLvl 0 0 md].
Proof. split; reflexivity. Qed.

Lemma halt_inv m md g :
  (md = Brake /\ g = LastStop) \/ (md = Coast /\ g = LastOther) ->
  motor_inv (with_ghost (fst (halt m md)) g).
Proof.
  intros [[-> ->]|[-> ->]]; unfold motor_inv, with_ghost, mode_spec; cbn;
    (split; [split; lra|]); (split; [destruct (inverted m); reflexivity|]); reflexivity.
Qed.

(* ---- the ramp loop ---- *)

Lemma lvl_speeds_app a b : lvl_speeds (a ++ b) = lvl_speeds a ++ lvl_speeds b.
Proof. induction a as [|[sp ap md|q] a IH]; cbn; [reflexivity | rewrite IH; reflexivity | exact IH]. Qed.

Lemma lvl_applied_app a b : lvl_applied (a ++ b) = lvl_applied a ++ lvl_applied b.
Proof. induction a as [|[sp ap md|q] a IH]; cbn; [reflexivity | rewrite IH; reflexivity | exact IH]. Qed.

Lemma sleeps_app a b : sleeps (a ++ b) = sleeps a ++ sleeps b.
Proof. induction a as [|[sp ap md|q] a IH]; cbn; [reflexivity | exact IH | rewrite IH; reflexivity]. Qed.

Definition ramp_point (start sv : Q) (k : Z) : Q := Qred (clampq (start + sv * inject_Z k)).

Lemma ramp_loop_unfold k r m start sv delay :
  ramp_loop (k :: r) m start sv delay =
  (fst (ramp_loop r (fst (set_speed_q m (start + sv * inject_Z k))) start sv delay),
   snd (set_speed_q m (start + sv * inject_Z k)) ++
   (if Qltb 0 delay then [MSleep delay] else []) ++
   snd (ramp_loop r (fst (set_speed_q m (start + sv * inject_Z k))) start sv delay)).
Proof.
  cbn [ramp_loop]. destruct (set_speed_q m (start + sv * inject_Z k)) as [m1 e1]. cbn [fst snd].
  destruct (ramp_loop r m1 start sv delay) as [m2 e3]. reflexivity.
Qed.

Lemma ramp_loop_frame ks : forall m start sv delay,
  pins (fst (ramp_loop ks m start sv delay)) = pins m /\
  inverted (fst (ramp_loop ks m start sv delay)) = inverted m /\
  ghost (fst (ramp_loop ks m start sv delay)) = ghost m.
Proof.
  induction ks as [|k ks IH]; intros m start sv delay.
  - cbn. repeat split; reflexivity.
  - rewrite ramp_loop_unfold. cbn [fst snd].
    destruct (IH (fst (set_speed_q m (start + sv * inject_Z k))) start sv delay) as (A & B & D).
    rewrite A, B, D. cbn. repeat split; reflexivity.
Qed.

Lemma ramp_loop_fresh ks : forall m start sv delay,
  fresh m -> fresh (fst (ramp_loop ks m start sv delay)).
Proof.
  induction ks as [|k ks IH]; intros m start sv delay Hf.
  - exact Hf.
  - rewrite ramp_loop_unfold. cbn [fst]. apply IH. apply set_speed_q_fresh.
Qed.

Lemma ramp_loop_fresh_ne ks m start sv delay :
  ks <> [] -> fresh (fst (ramp_loop ks m start sv delay)).
Proof.
  destruct ks as [|k ks]; [intro H; contradiction|]. intros _.
  rewrite ramp_loop_unfold. cbn [fst]. apply ramp_loop_fresh. apply set_speed_q_fresh.
Qed.

Lemma ramp_loop_last ks m start sv delay :
  ks <> [] -> speed (fst (ramp_loop ks m start sv delay)) = ramp_point start sv (last ks 0%Z).
Proof.
  destruct ks as [|k ks]; [intro H; contradiction|]. intros _. revert k m.
  induction ks as [|k' ks IH]; intros k m.
  - reflexivity.
  - rewrite ramp_loop_unfold. cbn [fst]. rewrite IH. reflexivity.
Qed.

Lemma ramp_loop_speeds ks : forall m start sv delay,
  lvl_speeds (snd (ramp_loop ks m start sv delay)) = map (ramp_point start sv) ks.
Proof.
  induction ks as [|k ks IH]; intros m start sv delay.
  - reflexivity.
  - rewrite ramp_loop_unfold. cbn [snd map]. rewrite !lvl_speeds_app, IH.
    destruct (Qltb 0 delay); reflexivity.
Qed.

Lemma ramp_loop_sleeps ks : forall m start sv delay,
  sleeps (snd (ramp_loop ks m start sv delay)) =
  if Qltb 0 delay then repeat delay (length ks) else [].
Proof.
  induction ks as [|k ks IH]; intros m start sv delay.
  - cbn. destruct (Qltb 0 delay); reflexivity.
  - rewrite ramp_loop_unfold. cbn [snd length repeat]. rewrite !sleeps_app, IH.
    destruct (Qltb 0 delay); reflexivity.
Qed.

(* applied speed of every level event of the loop is the speed, negated when inverted *)
Lemma ramp_loop_applied ks : forall m start sv delay,
  lvl_applied (snd (ramp_loop ks m start sv delay)) =
  map (fun k => if inverted m then - ramp_point start sv k else ramp_point start sv k) ks.
Proof.
  induction ks as [|k ks IH]; intros m start sv delay.
  - reflexivity.
  - rewrite ramp_loop_unfold. cbn [snd map]. rewrite !lvl_applied_app, IH.
    destruct (Qltb 0 delay); reflexivity.
Qed.

Lemma chain_map {A B} (R : A -> A -> Prop) (S : B -> B -> Prop) (f : A -> B) l :
  (forall x y, R x y -> S (f x) (f y)) -> chain R l -> chain S (map f l).
Proof.
  intro H. induction l as [|x l IH]; [trivial|].
  cbn [map chain]. intros [H1 H2]. split; [|apply IH; exact H2].
  destruct l as [|y l]; [trivial|]. cbn [map]. apply H. exact H1.
Qed.

Lemma chain_head_le x x' l : x' == x -> chain Qle (x :: l) -> chain Qle (x' :: l).
Proof.
  intros E [H1 H2]. split; [|exact H2]. destruct l as [|y l]; [trivial|]. rewrite E. exact H1.
Qed.

Lemma chain_head_ge x x' l : x' == x -> chain qge (x :: l) -> chain qge (x' :: l).
Proof.
  intros E [H1 H2]. split; [|exact H2]. destruct l as [|y l]; [trivial|].
  unfold qge in *. rewrite E. exact H1.
Qed.

Lemma ramp_point_up start sv x y : 0 <= sv -> (x <= y)%Z -> ramp_point start sv x <= ramp_point start sv y.
Proof.
  intros Hsv Hxy. unfold ramp_point. rewrite !Qred_correct. apply clampq_mono.
  assert (H : inject_Z x <= inject_Z y) by (rewrite <- Zle_Qle; exact Hxy).
  assert (H2 : sv * inject_Z x <= sv * inject_Z y).
  { rewrite (Qmult_comm sv (inject_Z x)), (Qmult_comm sv (inject_Z y)).
    apply Qmult_le_compat_r; assumption. }
  lra.
Qed.

Lemma ramp_point_down start sv x y : sv <= 0 -> (x <= y)%Z -> ramp_point start sv y <= ramp_point start sv x.
Proof.
  intros Hsv Hxy. unfold ramp_point. rewrite !Qred_correct. apply clampq_mono.
  assert (H : inject_Z x <= inject_Z y) by (rewrite <- Zle_Qle; exact Hxy).
  assert (H2 : (- sv) * inject_Z x <= (- sv) * inject_Z y).
  { rewrite (Qmult_comm (- sv) (inject_Z x)), (Qmult_comm (- sv) (inject_Z y)).
    apply Qmult_le_compat_r; [exact H | lra]. }
  lra.
Qed.

Lemma steps20 : zsteps 20 = [1;2;3;4;5;6;7;8;9;10;11;12;13;14;15;16;17;18;19;20]%Z.
Proof. reflexivity. Qed.

Lemma chain_steps20 : chain Z.le (0 :: zsteps 20)%Z.
Proof. rewrite steps20. cbn. repeat split; lia. Qed.

Lemma ramp_run_eq m target d :
  ramp_run m target d =
  ramp_loop (zsteps 20) m (speed m) ((target - speed m) / inject_Z 20) (d / inject_Z 20).
Proof.
  unfold ramp_run. rewrite ramp_steps_20. change (20 <=? 0)%Z with false. cbv iota zeta. reflexivity.
Qed.

Lemma steps20_ne : zsteps 20 <> [].
Proof. rewrite steps20. discriminate. Qed.

Lemma last_steps20 : last (zsteps 20) 0%Z = 20%Z.
Proof. reflexivity. Qed.

(* results of a successful call, with the computation [r] kept abstract *)
Lemma ok_with_state g r : mstate (ok_with g r) = with_ghost (fst r) g.
Proof. reflexivity. Qed.
Lemma ok_with_events g r : mevents (ok_with g r) = snd r.
Proof. reflexivity. Qed.
Lemma ok_with_result g r : mresult (ok_with g r) = Ok MNone.
Proof. reflexivity. Qed.

Lemma with_ghost_fields m g :
  pins (with_ghost m g) = pins m /\ speed (with_ghost m g) = speed m /\
  inverted (with_ghost m g) = inverted m /\ mmode (with_ghost m g) = mmode m /\
  applied (with_ghost m g) = applied m /\ ghost (with_ghost m g) = g.
Proof. repeat split; reflexivity. Qed.

Lemma ok_with_pins g r m : pins (fst r) = pins m -> pins (mstate (ok_with g r)) = pins m.
Proof. intro H. exact H. Qed.

Lemma ok_with_fresh_inv r : fresh (fst r) -> motor_inv (mstate (ok_with LastOther r)).
Proof. intro H. rewrite ok_with_state. apply fresh_inv; [exact H | reflexivity]. Qed.

(* ---- one step ---- *)

Lemma py_lt0_false d : py_lt d (PI 0) = Some false -> exists q, qof d = Some q /\ 0 <= q.
Proof.
  unfold py_lt. destruct (qof d) as [q|]; [|discriminate]. cbn [qof].
  intro H. injection H as H. apply Qltb_false in H. exists q. split; [reflexivity | exact H].
Qed.

Lemma step_inv m op : motor_inv m -> motor_inv (mstate (mstep m op)).
Proof.
  intro Hinv. destruct op as [v|ov| | | |t d|d v| | | |]; cbn [mstep]; try exact Hinv.
  - (* set_speed *)
    destruct (clamp_speed v) as [q|]; [|exact Hinv].
    apply ok_with_fresh_inv. apply set_speed_q_fresh.
  - (* backward *)
    destruct (clamp_speed (dflt_back ov)) as [q|]; [|exact Hinv].
    apply ok_with_fresh_inv. apply set_speed_q_fresh.
  - (* stop *)
    rewrite ok_with_state. apply halt_inv. left. split; reflexivity.
  - (* coast *)
    rewrite ok_with_state. apply halt_inv. right. split; reflexivity.
  - (* invert *)
    apply ok_with_fresh_inv.
    destruct Hinv as (Hs & _ & _). unfold fresh. cbn. split; [exact Hs|]. split; reflexivity.
  - (* ramp *)
    destruct (py_lt d (PI 0)) as [[|]|]; try exact Hinv.
    destruct (clamp_speed t) as [target|]; [|exact Hinv].
    apply ok_with_fresh_inv. rewrite ramp_run_eq. apply ramp_loop_fresh_ne. exact steps20_ne.
  - (* run_for *)
    destruct (py_lt d (PI 0)) as [[|]|]; try exact Hinv.
    destruct (clamp_speed v) as [q|]; [|exact Hinv].
    destruct (set_speed_q m q) as [m1 e1] eqn:E1.
    destruct (halt m1 Brake) as [m2 e2] eqn:E2.
    rewrite ok_with_state. cbn [fst].
    replace m2 with (fst (halt m1 Brake)) by (rewrite E2; reflexivity).
    apply halt_inv. left. split; reflexivity.
Qed.

Lemma step_pins m op : pins (mstate (mstep m op)) = pins m.
Proof.
  destruct op as [v|ov| | | |t d|d v| | | |]; cbn [mstep]; try reflexivity.
  - destruct (clamp_speed v) as [q|]; reflexivity.
  - destruct (clamp_speed (dflt_back ov)) as [q|]; reflexivity.
  - destruct (py_lt d (PI 0)) as [[|]|]; try reflexivity.
    destruct (clamp_speed t) as [target|]; [|reflexivity].
    apply ok_with_pins. rewrite ramp_run_eq. apply ramp_loop_frame.
  - destruct (py_lt d (PI 0)) as [[|]|]; try reflexivity.
    destruct (clamp_speed v) as [q|]; reflexivity.
Qed.

Lemma ctor_accepts i1 i2 en m :
  motor_ctor i1 i2 en = inl m ->
  m = mkMotor (i1, i2, en) 0 false Coast 0 LastOther /\
  exists a b c, zof i1 = Some a /\ zof i2 = Some b /\ zof en = Some c /\ a <> b /\ a <> c /\ b <> c.
Proof.
  unfold motor_ctor. destruct (zof i1) as [a|]; [|discriminate].
  destruct (zof i2) as [b|]; [|discriminate]. destruct (zof en) as [c|]; [|discriminate].
  destruct ((a =? b) || (a =? c) || (b =? c))%Z eqn:E; [discriminate|].
  intro H. injection H as H. split; [symmetry; exact H|].
  apply orb_false_iff in E as [E E3]. apply orb_false_iff in E as [E1 E2].
  apply Z.eqb_neq in E1. apply Z.eqb_neq in E2. apply Z.eqb_neq in E3.
  exists a, b, c. repeat split; assumption.
Qed.

Lemma init_inv i1 i2 en : motor_inv (mkMotor (i1, i2, en) 0 false Coast 0 LastOther).
Proof. unfold motor_inv, mode_spec. cbn. split; [split; lra|]. split; reflexivity. Qed.

Lemma run_inv ops : forall m, motor_inv m -> motor_inv (mrun ops m) /\ pins (mrun ops m) = pins m.
Proof.
  induction ops as [|op ops IH]; intros m Hi.
  - split; [exact Hi | reflexivity].
  - unfold mrun. cbn [fold_left]. fold (mrun ops (mstate (mstep m op))).
    destruct (IH (mstate (mstep m op)) (step_inv m op Hi)) as [I1 I2].
    split; [exact I1 | rewrite I2; apply step_pins].
Qed.

Lemma motor_reachable_inv i1 i2 en m0 ops :
  motor_ctor i1 i2 en = inl m0 ->
  motor_inv (mrun ops m0) /\ pins (mrun ops m0) = (i1, i2, en).
Proof.
  intro H. apply ctor_accepts in H as [-> _].
  destruct (run_inv ops _ (init_inv i1 i2 en)) as [I1 I2]. split; [exact I1 | exact I2].
Qed.

(* the invariant in the words of the property *)
Lemma mode_clause m :
  motor_inv m ->
  (mmode m = Drive <-> ~ applied m == 0) /\
  (applied m == 0 -> (mmode m = Brake <-> ghost m = LastStop) /\ (mmode m = Coast <-> ghost m = LastOther)).
Proof.
  intros (_ & _ & Hm). unfold mode_spec in Hm. rewrite Hm.
  destruct (Qeqb (applied m) 0) eqn:E.
  - apply Qeqb_true in E. split.
    + split; [destruct (ghost m); discriminate | intro H; contradiction].
    + intros _. destruct (ghost m); split; split; intro H; try reflexivity; try discriminate.
  - apply Qeqb_false in E. split.
    + split; [intros _; exact E | reflexivity].
    + intro H. contradiction.
Qed.

(* the ghost is exactly "class of the last successful command" *)
Lemma ghost_meaning m op :
  ghost (mstate (mstep m op)) =
  match mresult (mstep m op), cmd_class op with
  | Ok _, Some g => g
  | _, _ => ghost m
  end.
Proof.
  destruct op as [v|ov| | | |t d|d v| | | |]; cbn [mstep cmd_class]; try reflexivity.
  - destruct (clamp_speed v) as [q|]; reflexivity.
  - destruct (clamp_speed (dflt_back ov)) as [q|]; reflexivity.
  - destruct (py_lt d (PI 0)) as [[|]|]; try reflexivity.
    destruct (clamp_speed t) as [target|]; [|reflexivity].
    rewrite ok_with_state, ok_with_result. apply with_ghost_fields.
  - destruct (py_lt d (PI 0)) as [[|]|]; try reflexivity.
    destruct (clamp_speed v) as [q|]; [|reflexivity].
    destruct (set_speed_q m q) as [m1 e1]. destruct (halt m1 Brake) as [m2 e2]. reflexivity.
Qed.

(* ---- failing calls ---- *)

Lemma ok_with_not_raised g r (m' : motor) (evs : list mev) k : ok_with g r = (m', evs, Raised k) -> False.
Proof. unfold ok_with. intro H. discriminate H. Qed.

Lemma motor_failed_atomic m op m' evs k :
  mstep m op = (m', evs, Raised k) -> m' = m /\ evs = [].
Proof.
  destruct op as [v|ov| | | |t d|d v| | | |]; cbn [mstep]; intro H.
  - destruct (clamp_speed v) as [q|]; [exfalso; exact (ok_with_not_raised _ _ _ _ _ H)|].
    inversion H; split; reflexivity.
  - destruct (clamp_speed (dflt_back ov)) as [q|]; [exfalso; exact (ok_with_not_raised _ _ _ _ _ H)|].
    inversion H; split; reflexivity.
  - exfalso; exact (ok_with_not_raised _ _ _ _ _ H).
  - exfalso; exact (ok_with_not_raised _ _ _ _ _ H).
  - exfalso; exact (ok_with_not_raised _ _ _ _ _ H).
  - destruct (py_lt d (PI 0)) as [[|]|]; try (inversion H; split; reflexivity).
    destruct (clamp_speed t) as [target|]; [exfalso; exact (ok_with_not_raised _ _ _ _ _ H)|].
    inversion H; split; reflexivity.
  - destruct (py_lt d (PI 0)) as [[|]|]; try (inversion H; split; reflexivity).
    destruct (clamp_speed v) as [q|]; [|inversion H; split; reflexivity].
    destruct (set_speed_q m q) as [m1 e1]. destruct (halt m1 Brake) as [m2 e2].
    exfalso; exact (ok_with_not_raised _ _ _ _ _ H).
  - discriminate H.
  - discriminate H.
  - discriminate H.
  - discriminate H.
Qed.

(* exactly which calls raise, and what (independent of the state) *)
Definition raises (op : mop) : option exn :=
  let dur d := match qof d with None => Some TypeError | Some q => if Qltb q 0 then Some ValueError else None end in
  let spd v := match qof v with None => Some TypeError | Some _ => None end in
  match op with
  | MSetSpeed v => spd v
  | MBackward ov => spd (dflt_back ov)
  | MRamp t d => match dur d with Some k => Some k | None => spd t end
  | MRunFor d v => match dur d with Some k => Some k | None => spd v end
  | _ => None
  end.

Lemma motor_raises m op :
  match raises op with
  | Some k => mresult (mstep m op) = Raised k
  | None => exists r, mresult (mstep m op) = Ok r
  end.
Proof.
  unfold mresult, raises. destruct op as [v|ov| | | |t d|d v| | | |]; cbn [mstep];
    try (eexists; reflexivity).
  - unfold clamp_speed. destruct (qof v) as [q|]; [eexists|]; reflexivity.
  - unfold clamp_speed. destruct (qof (dflt_back ov)) as [q|]; [eexists|]; reflexivity.
  - unfold py_lt. destruct (qof d) as [qd|]; [|reflexivity]. cbn [qof].
    change (inject_Z 0) with 0. destruct (Qltb qd 0); [reflexivity|].
    unfold clamp_speed. destruct (qof t) as [q|]; [|reflexivity].
    eexists; reflexivity.
  - unfold py_lt. destruct (qof d) as [qd|]; [|reflexivity]. cbn [qof].
    change (inject_Z 0) with 0. destruct (Qltb qd 0); [reflexivity|].
    unfold clamp_speed. destruct (qof v) as [q|]; [|reflexivity].
    destruct (set_speed_q m (clampq q)) as [m1 e1]. destruct (halt m1 Brake) as [m2 e2].
    eexists; reflexivity.
Qed.

(* ---- invert is an involution ---- *)

Lemma invert_involution m :
  let r1 := mstep m MInvert in
  let r2 := mstep (mstate r1) MInvert in
  mresult r1 = Ok MNone /\ mresult r2 = Ok MNone /\
  inverted (mstate r1) = negb (inverted m) /\
  speed (mstate r2) = speed m /\ inverted (mstate r2) = inverted m /\ pins (mstate r2) = pins m /\
  applied (mstate r2) = (if inverted m then - speed m else speed m) /\
  ghost (mstate r2) = LastOther /\
  (motor_inv m ->
     applied (mstate r2) == applied m /\
     mmode (mstate r2) = match mmode m with Brake => Coast | md => md end).
Proof.
  cbn zeta. unfold mstate, mresult. cbn [mstep]. unfold ok_with. cbn.
  rewrite negb_involutive.
  repeat (split; [reflexivity|]).
  intros (_ & Ha & Hm). split; [symmetry; exact Ha|].
  rewrite Hm. unfold mode_spec. rewrite (Qeqb_compat _ _ 0 Ha).
  destruct (Qeqb (if inverted m then - speed m else speed m) 0); [destruct (ghost m)|]; reflexivity.
Qed.

(* ---- ramp ---- *)

Lemma Qltb_0_div20 q : Qltb 0 (q / 20) = Qltb 0 q.
Proof.
  destruct (Qltb 0 q) eqn:E.
  - apply Qltb_true in E. apply Qltb_true. apply Qlt_shift_div_l; [reflexivity | lra].
  - apply Qltb_false in E. apply Qltb_false. apply Qle_shift_div_r; [reflexivity | lra].
Qed.

Lemma mstep_ramp_ok m t d qt qd :
  qof t = Some qt -> qof d = Some qd -> 0 <= qd ->
  mstep m (MRamp t d) =
  ok_with LastOther (ramp_loop (zsteps 20) m (speed m) ((clampq qt - speed m) / inject_Z 20)
                               (qd / inject_Z 20)).
Proof.
  intros Ht Hd Hd0. cbn [mstep]. unfold py_lt, clamp_speed, qval. rewrite Ht, Hd. cbn [qof].
  change (inject_Z 0) with 0.
  assert (Hlt : Qltb qd 0 = false) by (apply Qltb_false; exact Hd0). rewrite Hlt.
  rewrite ramp_run_eq. reflexivity.
Qed.

Lemma ramp_exact m t d qt qd :
  motor_inv m -> qof t = Some qt -> qof d = Some qd -> 0 <= qd ->
  let r := mstep m (MRamp t d) in
  let m' := mstate r in
  let evs := mevents r in
  mresult r = Ok MNone /\
  speed m' == clampq qt /\
  applied m' == (if inverted m then - clampq qt else clampq qt) /\
  length (lvl_speeds evs) = 20%nat /\
  last (lvl_speeds evs) 0 = speed m' /\
  (speed m <= clampq qt -> chain Qle (speed m :: lvl_speeds evs)) /\
  (clampq qt <= speed m -> chain qge (speed m :: lvl_speeds evs)) /\
  lvl_applied evs = map (fun x => if inverted m then - x else x) (lvl_speeds evs) /\
  sleeps evs = (if Qltb 0 qd then repeat (qd / 20) 20 else []) /\
  qsum (sleeps evs) == qd /\
  ghost m' = LastOther /\ inverted m' = inverted m /\ pins m' = pins m.
Proof.
  intros Hinv Ht Hd Hd0. cbn zeta.
  rewrite (mstep_ramp_ok m t d qt qd Ht Hd Hd0).
  rewrite ok_with_state, ok_with_events, ok_with_result.
  set (target := clampq qt). set (start := speed m).
  set (sv := (target - start) / inject_Z 20). set (delay := qd / inject_Z 20).
  destruct Hinv as ((Hs1 & Hs2) & Ha & Hm). fold start in Hs1, Hs2.
  destruct (clampq_bounds qt) as [Ht1 Ht2]. fold target in Ht1, Ht2.
  assert (Hsv20 : start + sv * inject_Z 20 == target).
  { unfold sv. change (inject_Z 20) with 20. field. }
  assert (Hsv0 : ramp_point start sv 0 == start).
  { unfold ramp_point. rewrite Qred_correct. change (inject_Z 0) with 0.
    rewrite (clampq_compat _ start) by ring. rewrite clampq_id by assumption. reflexivity. }
  assert (Hend' : ramp_point start sv 20 == target).
  { unfold ramp_point. rewrite Qred_correct. rewrite (clampq_compat _ target) by exact Hsv20.
    unfold target. rewrite clampq_idem. reflexivity. }
  (* everything we need to know about the loop, then forget the loop *)
  pose proof (ramp_loop_frame (zsteps 20) m start sv delay) as (Fp & Fi & Fg).
  pose proof (ramp_loop_fresh_ne (zsteps 20) m start sv delay steps20_ne) as (_ & Hap & _).
  pose proof (ramp_loop_last (zsteps 20) m start sv delay steps20_ne) as Hend.
  rewrite last_steps20 in Hend.
  pose proof (ramp_loop_speeds (zsteps 20) m start sv delay) as Hsp.
  pose proof (ramp_loop_applied (zsteps 20) m start sv delay) as Hla.
  pose proof (ramp_loop_sleeps (zsteps 20) m start sv delay) as Hsl.
  generalize dependent (ramp_loop (zsteps 20) m start sv delay). intros R Fp Fi Fg Hap Hend Hsp Hla Hsl.
  destruct (with_ghost_fields (fst R) LastOther) as (G1 & G2 & G3 & G4 & G5 & G6).
  rewrite G1, G2, G3, G5, G6. rewrite Hsp, Hla, Hsl, Hend, Fi, Fp.
  split; [reflexivity|].
  split; [exact Hend'|].
  split.
  { rewrite Hap, Fi, Hend. destruct (inverted m); rewrite Hend'; reflexivity. }
  split; [rewrite map_length; rewrite steps20; reflexivity|].
  split; [rewrite steps20; reflexivity|].
  split.
  { intro Hle. apply (chain_head_le (ramp_point start sv 0)); [symmetry; exact Hsv0|].
    change (ramp_point start sv 0 :: map (ramp_point start sv) (zsteps 20))
      with (map (ramp_point start sv) (0%Z :: zsteps 20)).
    apply (chain_map Z.le Qle); [|exact chain_steps20].
    intros x y Hxy. apply ramp_point_up; [|exact Hxy].
    unfold sv. apply Qle_shift_div_l; [reflexivity | change (inject_Z 20) with 20; lra]. }
  split.
  { intro Hge. apply (chain_head_ge (ramp_point start sv 0)); [symmetry; exact Hsv0|].
    change (ramp_point start sv 0 :: map (ramp_point start sv) (zsteps 20))
      with (map (ramp_point start sv) (0%Z :: zsteps 20)).
    apply (chain_map Z.le qge); [|exact chain_steps20].
    intros x y Hxy. unfold qge. apply ramp_point_down; [|exact Hxy].
    unfold sv. apply Qle_shift_div_r; [reflexivity | change (inject_Z 20) with 20; lra]. }
  split; [rewrite map_map; reflexivity|].
  assert (Hdl : Qltb 0 delay = Qltb 0 qd).
  { unfold delay. change (inject_Z 20) with 20. apply Qltb_0_div20. }
  rewrite Hdl, steps20. cbn [length].
  split; [reflexivity|].
  split.
  { destruct (Qltb 0 qd) eqn:E.
    - rewrite qsum_repeat. unfold delay. change (inject_Z (Z.of_nat 20)) with 20.
      change (inject_Z 20) with 20. field.
    - apply Qltb_false in E. cbn [qsum]. lra. }
  split; [reflexivity|]. split; reflexivity.
Qed.

(* ---- run_for ---- *)

Lemma run_for_exact m d v qd qv :
  qof d = Some qd -> qof v = Some qv -> 0 <= qd ->
  let r := mstep m (MRunFor d v) in
  let m' := mstate r in
  mresult r = Ok MNone /\
  sleeps (mevents r) = [qd] /\
  (exists sp ap md, mevents r = [MLvl sp ap md; MSleep qd; MLvl 0 0 Brake] /\
                    sp == clampq qv /\ ap = (if inverted m then - sp else sp) /\
                    md = (if Qeqb ap 0 then Coast else Drive)) /\
  speed m' = 0 /\ applied m' = 0 /\ mmode m' = Brake /\ ghost m' = LastStop /\
  inverted m' = inverted m /\ pins m' = pins m.
Proof.
  intros Hd Hv Hd0. cbn zeta. unfold mstate, mevents, mresult. cbn [mstep].
  unfold py_lt, clamp_speed, qval. rewrite Hv, Hd. cbn [qof]. change (inject_Z 0) with 0.
  assert (Hlt : Qltb qd 0 = false) by (apply Qltb_false; exact Hd0). rewrite Hlt.
  cbn. split; [reflexivity|]. split; [reflexivity|].
  split.
  { eexists. eexists. eexists. split; [reflexivity|].
    split; [rewrite Qred_correct; rewrite clampq_idem; reflexivity|]. split; reflexivity. }
  repeat split; reflexivity.
Qed.

(* ---- the remaining commands, exactly ---- *)

Lemma ctor_spec i1 i2 en :
  match motor_ctor i1 i2 en with
  | inl m => m = mkMotor (i1, i2, en) 0 false Coast 0 LastOther /\
             exists a b c, zof i1 = Some a /\ zof i2 = Some b /\ zof en = Some c /\ a <> b /\ a <> c /\ b <> c
  | inr TypeError => zof i1 = None \/ zof i2 = None \/ zof en = None
  | inr ValueError => exists a b c, zof i1 = Some a /\ zof i2 = Some b /\ zof en = Some c /\ (a = b \/ a = c \/ b = c)
  end.
Proof.
  destruct (motor_ctor i1 i2 en) as [m|[|]] eqn:E.
  - apply ctor_accepts. exact E.
  - unfold motor_ctor in E. destruct (zof i1) as [a|]; [|discriminate].
    destruct (zof i2) as [b|]; [|discriminate]. destruct (zof en) as [c|]; [|discriminate].
    destruct ((a =? b) || (a =? c) || (b =? c))%Z eqn:B; [|discriminate].
    exists a, b, c. repeat split; try reflexivity.
    apply orb_true_iff in B as [B|B]; [apply orb_true_iff in B as [B|B]|]; apply Z.eqb_eq in B; tauto.
  - unfold motor_ctor in E. destruct (zof i1) as [a|]; [|left; reflexivity].
    destruct (zof i2) as [b|]; [|right; left; reflexivity]. destruct (zof en) as [c|]; [|right; right; reflexivity].
    destruct ((a =? b) || (a =? c) || (b =? c))%Z; discriminate.
Qed.

Lemma set_speed_exact m v q :
  qof v = Some q ->
  let r := mstep m (MSetSpeed v) in
  let m' := mstate r in
  mresult r = Ok MNone /\
  speed m' == clampq q /\
  applied m' == (if inverted m then - clampq q else clampq q) /\
  mmode m' = (if Qeqb (clampq q) 0 then Coast else Drive) /\
  mevents r = [MLvl (speed m') (applied m') (mmode m')] /\
  ghost m' = LastOther /\ inverted m' = inverted m /\ pins m' = pins m.
Proof.
  intro Hq. cbn zeta. unfold mstate, mevents, mresult. cbn [mstep]. unfold clamp_speed. rewrite Hq.
  cbn. rewrite clampq_idem.
  split; [reflexivity|]. split; [apply Qred_correct|].
  split; [destruct (inverted m); rewrite Qred_correct; reflexivity|].
  split.
  { destruct (inverted m).
    - rewrite (Qeqb_compat (- Qred (clampq q)) (- clampq q) 0) by (rewrite Qred_correct; reflexivity).
      destruct (Qeqb (- clampq q) 0) eqn:A; destruct (Qeqb (clampq q) 0) eqn:B; try reflexivity.
      + apply Qeqb_true in A. apply Qeqb_false in B. exfalso. apply B. lra.
      + apply Qeqb_false in A. apply Qeqb_true in B. exfalso. apply A. lra.
    - rewrite (Qeqb_compat (Qred (clampq q)) (clampq q) 0) by (apply Qred_correct). reflexivity. }
  repeat split; reflexivity.
Qed.

Lemma backward_exact m ov q :
  qof (dflt_back ov) = Some q ->
  let r := mstep m (MBackward ov) in
  let m' := mstate r in
  mresult r = Ok MNone /\
  speed m' == - qabs (clampq q) /\ speed m' <= 0 /\
  applied m' == (if inverted m then qabs (clampq q) else - qabs (clampq q)) /\
  ghost m' = LastOther /\ inverted m' = inverted m /\ pins m' = pins m.
Proof.
  intro Hq. cbn zeta. unfold mstate, mevents, mresult. cbn [mstep]. unfold clamp_speed. rewrite Hq.
  cbn. destruct (clampq_bounds q) as [B1 B2].
  destruct (qabs_le1 (clampq q) (conj B1 B2)) as [A1 A2].
  assert (Hid : clampq (- qabs (clampq q)) = - qabs (clampq q)) by (apply clampq_id; lra).
  rewrite Hid.
  split; [reflexivity|]. split; [apply Qred_correct|].
  split; [rewrite Qred_correct; lra|].
  split; [destruct (inverted m); rewrite Qred_correct; ring|].
  repeat split; reflexivity.
Qed.

Lemma stop_coast_exact m :
  mstep m MStop = (mkMotor (pins m) 0 (inverted m) Brake 0 LastStop, [MLvl 0 0 Brake], Ok MNone) /\
  mstep m MCoast = (mkMotor (pins m) 0 (inverted m) Coast 0 LastOther, [MLvl 0 0 Coast], Ok MNone).
Proof. split; reflexivity. Qed.

Lemma getters_pure m :
  mstep m MGetSpeed = (m, [], Ok (MFloat (speed m))) /\
  mstep m MGetApplied = (m, [], Ok (MFloat (applied m))) /\
  mstep m MIsInverted = (m, [], Ok (MBool (inverted m))) /\
  mstep m MGetMode = (m, [], Ok (MMode (mmode m))).
Proof. repeat split; reflexivity. Qed.

(* stop(); invert() ends in coast, with the "last command" no longer a stop (A.4) *)
Lemma stop_then_invert m :
  let m' := mstate (mstep (mstate (mstep m MStop)) MInvert) in
  mmode m' = Coast /\ speed m' = 0 /\ applied m' == 0 /\ ghost m' = LastOther /\
  inverted m' = negb (inverted m).
Proof.
  cbn zeta. unfold mstate. cbn. destruct (inverted m); cbn; repeat split; reflexivity.
Qed.

(* the whole statement of the property about a reachable motor, in one place *)
Lemma motor_reachable_statement i1 i2 en m0 ops :
  motor_ctor i1 i2 en = inl m0 ->
  let m := mrun ops m0 in
  (-(1) <= speed m /\ speed m <= 1) /\
  applied m == (if inverted m then - speed m else speed m) /\
  (mmode m = Drive <-> ~ applied m == 0) /\
  (applied m == 0 -> (mmode m = Brake <-> ghost m = LastStop) /\ (mmode m = Coast <-> ghost m = LastOther)) /\
  pins m = (i1, i2, en).
Proof.
  intro H. cbn zeta. destruct (motor_reachable_inv i1 i2 en m0 ops H) as [Hinv Hp].
  destruct (mode_clause _ Hinv) as [M1 M2]. destruct Hinv as (Hs & Ha & _).
  split; [exact Hs|]. split; [exact Ha|]. split; [exact M1|]. split; [exact M2 | exact Hp].
Qed.

(* the ghost over a whole history: class of the last successful command, LastOther if none *)
Fixpoint last_cmd (m : motor) (ops : list mop) (g : lastcmd) : lastcmd :=
  match ops with
  | [] => g
  | op :: r =>
      let g' := match mresult (mstep m op), cmd_class op with
                | Ok _, Some c => c
                | _, _ => g
                end in
      last_cmd (mstate (mstep m op)) r g'
  end.

Lemma ghost_run ops : forall m, ghost (mrun ops m) = last_cmd m ops (ghost m).
Proof.
  induction ops as [|op ops IH]; intro m.
  - reflexivity.
  - unfold mrun. cbn [fold_left last_cmd]. fold (mrun ops (mstate (mstep m op))).
    rewrite IH. rewrite ghost_meaning. reflexivity.
Qed.

(* ---- the ramp is linear ---- *)

Lemma convex_bounds s g t : -(1) <= s -> s <= 1 -> -(1) <= g -> g <= 1 -> 0 <= t -> t <= 1 ->
  -(1) <= s + (g - s) * t /\ s + (g - s) * t <= 1.
Proof. intros. split; nra. Qed.

Lemma in_zsteps n x : In x (zsteps n) -> (1 <= x <= Z.max n 0)%Z.
Proof.
  unfold zsteps. intro H. apply in_map_iff in H as (k & <- & Hk). apply in_seq in Hk. lia.
Qed.

Lemma ramp_point_linear start target k :
  -(1) <= start -> start <= 1 -> -(1) <= target -> target <= 1 -> (0 <= k <= 20)%Z ->
  ramp_point start ((target - start) / inject_Z 20) k == start + (target - start) * inject_Z k / 20.
Proof.
  intros H1 H2 H3 H4 Hk. unfold ramp_point. rewrite Qred_correct.
  assert (Ht0 : 0 <= inject_Z k / 20).
  { apply Qle_shift_div_l; [reflexivity|]. rewrite Qmult_0_l. change 0 with (inject_Z 0). rewrite <- Zle_Qle. lia. }
  assert (Ht1 : inject_Z k / 20 <= 1).
  { apply Qle_shift_div_r; [reflexivity|]. rewrite Qmult_1_l. change 20 with (inject_Z 20). rewrite <- Zle_Qle. lia. }
  assert (E : start + (target - start) / inject_Z 20 * inject_Z k == start + (target - start) * (inject_Z k / 20)).
  { change (inject_Z 20) with 20. field. }
  destruct (convex_bounds start target (inject_Z k / 20) H1 H2 H3 H4 Ht0 Ht1) as [B1 B2].
  rewrite (clampq_compat _ _ E). rewrite clampq_id by assumption. field.
Qed.

Lemma Forall2_map_same {A B} (R : B -> B -> Prop) (f g : A -> B) l :
  (forall x, In x l -> R (f x) (g x)) -> Forall2 R (map f l) (map g l).
Proof.
  induction l as [|x l IH]; intro H; cbn [map]; constructor.
  - apply H. left. reflexivity.
  - apply IH. intros y Hy. apply H. right. exact Hy.
Qed.

(* "Linearly ramp": step k of a ramp is start + (target - start) * k / 20, exactly *)
Lemma ramp_linear m t d qt qd :
  motor_inv m -> qof t = Some qt -> qof d = Some qd -> 0 <= qd ->
  Forall2 Qeq (lvl_speeds (mevents (mstep m (MRamp t d))))
              (map (fun k => speed m + (clampq qt - speed m) * inject_Z k / 20) (zsteps 20)).
Proof.
  intros Hinv Ht Hd Hd0. rewrite (mstep_ramp_ok m t d qt qd Ht Hd Hd0). rewrite ok_with_events.
  rewrite ramp_loop_speeds. apply Forall2_map_same. intros k Hk. apply in_zsteps in Hk.
  destruct Hinv as ((S1 & S2) & _). destruct (clampq_bounds qt) as [T1 T2].
  apply ramp_point_linear; try assumption. lia.
Qed.
