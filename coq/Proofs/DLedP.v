(* Device LED = host LED (property C04, unit C04_led): proofs. *)
From Coq Require Import ZArith QArith Qround Lia Lqa List Bool.
From RV Require Import Base.Wire Base.Num Host.Led Device.Signal Device.DLed
  Proofs.NumP Proofs.LedP Proofs.SignalP.
Import ListNotations.
Import Num.

(* the device state that corresponds to a host state *)
Definition d_of (s : led) : dled := mkD (lit s) (bright s).

(* ------------------------------------------------------------------ *)
(* arithmetic                                                          *)
(* ------------------------------------------------------------------ *)
Lemma trunc_Qeq : forall q z, (q == inject_Z z)%Q -> py_int_trunc q = z.
Proof.
  intros [n d] z H. unfold Qeq in H. cbn in H. unfold py_int_trunc. cbn [Qnum Qden].
  rewrite Z.mul_1_r in H. subst n. apply Z.quot_mul. discriminate.
Qed.

Lemma zval_trunc : forall x, is_obj x = false -> zval x = py_int_trunc (qval x).
Proof.
  intros [z|q|b|] H; cbn in *; try discriminate; try reflexivity; symmetry; apply trunc_inject.
Qed.

Lemma trunc_within_ms : forall q, (0 <= q)%Q ->
  (0 <= q - inject_Z (py_int_trunc q))%Q /\ (q - inject_Z (py_int_trunc q) < 1)%Q.
Proof.
  intros q H. rewrite trunc_floor by exact H.
  pose proof (Qfloor_le q) as H1. pose proof (Qlt_floor q) as H2.
  rewrite inject_Z_plus in H2. change (inject_Z 1) with 1%Q in H2. split; lra.
Qed.

Lemma clamp255_range : forall v, (0 <= clamp255 v <= 255)%Z.
Proof.
  intro v. unfold clamp255. destruct (v <? 0)%Z eqn:E.
  - cbn. lia.
  - apply Z.ltb_ge in E. destruct (255 <? v)%Z eqn:E2; [lia|]. apply Z.ltb_ge in E2. lia.
Qed.

Lemma clamp255_id : forall v, (0 <= v <= 255)%Z -> clamp255 v = v.
Proof.
  intros v H. unfold clamp255.
  destruct (v <? 0)%Z eqn:E; [apply Z.ltb_lt in E; lia|].
  destruct (255 <? v)%Z eqn:E2; [apply Z.ltb_lt in E2; lia|reflexivity].
Qed.

Lemma nonneg_spec : forall x, nonneg x = true -> num_lt x 0 = Some false /\ is_obj x = false /\ (0 <= qval x)%Q.
Proof.
  intros x H. unfold nonneg in H. destruct (num_lt x 0) as [[|]|] eqn:E; try discriminate.
  split; [reflexivity|]. split; [|apply num_lt_false_nonneg; exact E].
  unfold num_lt in E. destruct (is_obj x); [discriminate|reflexivity].
Qed.

Lemma is_pos_spec : forall x, is_pos x = true -> num_le x 0 = Some false /\ is_obj x = false /\ (0 < qval x)%Q.
Proof.
  intros x H. unfold is_pos in H. destruct (num_le x 0) as [[|]|] eqn:E; try discriminate.
  split; [reflexivity|]. split; [|apply num_le_false_pos; exact E].
  unfold num_le in E. destruct (is_obj x); [discriminate|reflexivity].
Qed.

Lemma entry_ok_spec : forall x, entry_ok x = true -> num_between 0 255 x = Some true.
Proof.
  intros x H. unfold entry_ok in H. destruct (num_between 0 255 x) as [[|]|]; congruence.
Qed.

Lemma between_spec : forall x, num_between 0 255 x = Some true ->
  is_obj x = false /\ (0 <= qval x)%Q /\ (qval x <= 255)%Q.
Proof.
  intros x H. unfold num_between in H. destruct (is_obj x); [discriminate|].
  injection H as H. apply andb_true_iff in H as [H1 H2].
  apply Qle_bool_iff in H1. apply Qle_bool_iff in H2. auto.
Qed.

(* an integral argument: its value is the injection of what the device's int receives *)
Lemma integral_spec : forall x, integral x = true -> (qval x == inject_Z (zval x))%Q.
Proof.
  intros [z|q|b|] H; cbn in *; try discriminate; try reflexivity.
  apply Qeq_bool_iff in H. exact H.
Qed.

(* ------------------------------------------------------------------ *)
(* traces of the loops                                                 *)
(* ------------------------------------------------------------------ *)
Lemma hconv_blink : forall pin n d,
  map (hconv pin) (blink_evs n d) = map dconv (dblink_evs n pin (py_int_trunc d)).
Proof.
  intros pin n d. induction n as [|n IH]; [reflexivity|].
  cbn [blink_evs blink_block app map dblink_evs hconv dconv nth]. rewrite IH. reflexivity.
Qed.

Lemma last_lv_blink : forall pin n d b,
  last_lv pin (map (hconv pin) (blink_evs n d)) b = match n with O => b | S _ => 0%Z end.
Proof.
  intros pin n. induction n as [|n IH]; intros d b; [reflexivity|].
  cbn [blink_evs blink_block app map hconv nth last_lv]. rewrite Z.eqb_refl, IH.
  destruct n; reflexivity.
Qed.

Lemma hconv_fade : forall pin d lv,
  map (hconv pin) (fade_evs d lv) = map dconv (dfade_evs pin (py_int_trunc d) lv).
Proof.
  intros pin d lv. induction lv as [|b r IH]; [reflexivity|].
  cbn [fade_evs map dfade_evs hconv dconv nth]. rewrite IH. reflexivity.
Qed.

Lemma last_lv_snoc : forall pin tr v b, last_lv pin (tr ++ [TL pin v]) b = v.
Proof.
  intros pin tr v b. rewrite last_lv_app. cbn [last_lv]. rewrite Z.eqb_refl. reflexivity.
Qed.

(* ---- fade levels: the host's rational loop and the device's integer loop ---- *)
Lemma Qltb_inject : forall a b : Z, Qltb (inject_Z a) (inject_Z b) = (a <? b)%Z.
Proof.
  intros a b. destruct (a <? b)%Z eqn:E.
  - apply Qltb_true. rewrite <- Zlt_Qlt. apply Z.ltb_lt. exact E.
  - apply Qltb_false. rewrite <- Zle_Qle. apply Z.ltb_ge. exact E.
Qed.

Lemma Qltb_comp : forall a a' b b', (a == a')%Q -> (b == b')%Q -> Qltb a b = Qltb a' b'.
Proof.
  intros a a' b b' Ha Hb. destruct (Qltb a' b') eqn:E.
  - apply Qltb_true. apply Qltb_true in E. rewrite Ha, Hb. exact E.
  - apply Qltb_false. apply Qltb_false in E. rewrite Ha, Hb. exact E.
Qed.

Lemma fin_levels_Z : forall stp step, (stp == inject_Z step)%Q -> forall fuel cur z,
  (cur == inject_Z z)%Q -> fin_levels fuel cur stp = dfin_lv fuel z step.
Proof.
  intros stp step Hs. induction fuel as [|f IH]; intros cur z Hc; [reflexivity|].
  cbn [fin_levels dfin_lv].
  rewrite (Qltb_comp cur (inject_Z z) 255 (inject_Z 255) Hc ltac:(reflexivity)), Qltb_inject.
  destruct (z <? 255)%Z eqn:E; [|reflexivity].
  rewrite (trunc_Qeq _ _ Hc). f_equal. apply IH.
  unfold qmin_c, cap255.
  rewrite (Qltb_comp (cur + stp) (inject_Z (z + step)) 255 (inject_Z 255)); [|rewrite Hc, Hs, inject_Z_plus; reflexivity|reflexivity].
  rewrite Qltb_inject.
  destruct (255 <? z + step)%Z eqn:E1; destruct (z + step <? 255)%Z eqn:E2.
  - apply Z.ltb_lt in E1. apply Z.ltb_lt in E2. lia.
  - reflexivity.
  - rewrite Hc, Hs, inject_Z_plus. reflexivity.
  - apply Z.ltb_ge in E1. apply Z.ltb_ge in E2. replace (z + step)%Z with 255%Z by lia. reflexivity.
Qed.

Lemma fout_levels_Z : forall stp step, (stp == inject_Z step)%Q -> forall fuel cur z,
  (cur == inject_Z z)%Q -> fout_levels fuel cur stp = dfout_lv fuel z step.
Proof.
  intros stp step Hs. induction fuel as [|f IH]; intros cur z Hc; [reflexivity|].
  cbn [fout_levels dfout_lv].
  rewrite (Qltb_comp 0 (inject_Z 0) cur (inject_Z z) ltac:(reflexivity) Hc), Qltb_inject.
  destruct (0 <? z)%Z eqn:E; [|reflexivity].
  rewrite (trunc_Qeq _ _ Hc). f_equal. apply IH.
  unfold qmax_c, floor0.
  rewrite (Qltb_comp 0 (inject_Z 0) (cur - stp) (inject_Z (z - step))); [|reflexivity|rewrite Hc, Hs; unfold Zminus; rewrite inject_Z_plus, inject_Z_opp; reflexivity].
  rewrite Qltb_inject.
  destruct (0 <? z - step)%Z eqn:E1; destruct (z - step <? 0)%Z eqn:E2.
  - apply Z.ltb_lt in E1. apply Z.ltb_lt in E2. lia.
  - rewrite Hc, Hs. unfold Zminus. rewrite inject_Z_plus, inject_Z_opp. reflexivity.
  - reflexivity.
  - apply Z.ltb_ge in E1. apply Z.ltb_ge in E2. replace (z - step)%Z with 0%Z by lia. reflexivity.
Qed.

(* any sufficient fuel gives the same list *)
Lemma dfin_fuel : forall step, (0 < step)%Z -> forall f1 f2 z,
  (255 - z <= Z.of_nat f1 * step)%Z -> (255 - z <= Z.of_nat f2 * step)%Z ->
  dfin_lv f1 z step = dfin_lv f2 z step.
Proof.
  intros step Hs. induction f1 as [|f1 IH]; intros f2 z H1 H2.
  - cbn [Z.of_nat] in H1. destruct f2 as [|f2]; [reflexivity|]. cbn [dfin_lv].
    destruct (z <? 255)%Z eqn:E; [apply Z.ltb_lt in E; lia|reflexivity].
  - cbn [dfin_lv]. destruct (z <? 255)%Z eqn:E.
    + apply Z.ltb_lt in E. destruct f2 as [|f2]; [cbn [Z.of_nat] in H2; lia|]. cbn [dfin_lv].
      apply Z.ltb_lt in E. rewrite E. apply Z.ltb_lt in E. f_equal.
      rewrite Nat2Z.inj_succ, Z.mul_succ_l in H1, H2.
      apply IH; unfold cap255; destruct (255 <? z + step)%Z eqn:E1; try lia;
        apply Z.ltb_ge in E1; lia.
    + destruct f2 as [|f2]; [reflexivity|]. cbn [dfin_lv]. rewrite E. reflexivity.
Qed.

Lemma dfout_fuel : forall step, (0 < step)%Z -> forall f1 f2 z,
  (z <= Z.of_nat f1 * step)%Z -> (z <= Z.of_nat f2 * step)%Z ->
  dfout_lv f1 z step = dfout_lv f2 z step.
Proof.
  intros step Hs. induction f1 as [|f1 IH]; intros f2 z H1 H2.
  - cbn [Z.of_nat] in H1. destruct f2 as [|f2]; [reflexivity|]. cbn [dfout_lv].
    destruct (0 <? z)%Z eqn:E; [apply Z.ltb_lt in E; lia|reflexivity].
  - cbn [dfout_lv]. destruct (0 <? z)%Z eqn:E.
    + apply Z.ltb_lt in E. destruct f2 as [|f2]; [cbn [Z.of_nat] in H2; lia|]. cbn [dfout_lv].
      apply Z.ltb_lt in E. rewrite E. apply Z.ltb_lt in E. f_equal.
      rewrite Nat2Z.inj_succ, Z.mul_succ_l in H1, H2.
      apply IH; unfold floor0; destruct (z - step <? 0)%Z eqn:E1; try lia;
        apply Z.ltb_ge in E1; lia.
    + destruct f2 as [|f2]; [reflexivity|]. cbn [dfout_lv]. rewrite E. reflexivity.
Qed.

(* the host's fuel, read over Z *)
Lemma host_fuel_Z : forall (x step : Z) (stp : Q), (0 < step)%Z -> (stp == inject_Z step)%Q ->
  (x <= Z.of_nat (S (Z.to_nat (Qceiling (inject_Z x / stp)))) * step)%Z.
Proof.
  intros x step stp Hs Hq.
  assert (Hp : (0 < stp)%Q) by (rewrite Hq; change 0%Q with (inject_Z 0); rewrite <- Zlt_Qlt; exact Hs).
  pose proof (fuel_enough (inject_Z x) stp Hp) as H.
  rewrite Hq in H at 2. rewrite <- inject_Z_mult in H. rewrite <- Zle_Qle in H. exact H.
Qed.

Lemma dev_fuel_Z : forall x step, (0 < step)%Z -> (x <= Z.of_nat (dfade_fuel x) * step)%Z.
Proof.
  intros x step Hs. unfold dfade_fuel. rewrite Nat2Z.inj_succ.
  assert (H : (Z.of_nat (Z.to_nat x) = Z.max 0 x)%Z) by lia.
  rewrite H. nia.
Qed.

(* ------------------------------------------------------------------ *)
(* closed forms of the host commands inside the guard                  *)
(* ------------------------------------------------------------------ *)
Lemma blink_eq : forall s d t, nonneg d = true -> is_pos t = true -> is_intlike t = true ->
  step s (Blink d t) =
  (mkLed (pin s) false 0, blink_evs (Z.to_nat (zval t)) (qval d), Ok RNone) /\ (0 < zval t)%Z.
Proof.
  intros s d t Hd Ht Hi.
  destruct (nonneg_spec _ Hd) as (Ed & _ & _). destruct (is_pos_spec _ Ht) as (Et & _ & _).
  cbn [step]. unfold blink. rewrite Ed, Et. cbn [reject_if].
  assert (Er : range_count t = Some (zval t)) by (destruct t; cbn in *; try discriminate; reflexivity).
  rewrite Er. destruct (range_count_pos _ _ Et Er) as (Hn & _ & _).
  rewrite blink_loop_eq. split; [|exact Hn].
  destruct (Z.to_nat (zval t)) eqn:En; [lia|reflexivity].
Qed.

Lemma fade_in_eq : forall s a b, Inv_led s -> is_pos a = true -> integral a = true -> nonneg b = true ->
  step s (FadeIn a b) =
  (mkLed (pin s) true 255,
   fade_evs (qval b) (dfin_lv (dfade_fuel (255 - bright s)) (bright s) (zval a)) ++ [Lvl [255%Z]], Ok RNone)
  /\ (0 < zval a)%Z.
Proof.
  intros s a b Hinv Ha Hi Hb.
  destruct (is_pos_spec _ Ha) as (Ea & _ & Hp). destruct (nonneg_spec _ Hb) as (Eb & _ & Hnb).
  pose proof (integral_spec _ Hi) as Hq.
  assert (Hz : (0 < zval a)%Z).
  { rewrite Hq in Hp. change 0%Q with (inject_Z 0) in Hp. rewrite <- Zlt_Qlt in Hp. exact Hp. }
  split; [|exact Hz].
  cbn [step]. unfold fade_in. rewrite Ea, Eb. cbn [reject_if].
  destruct (fade_start_range s) as [Hc0 Hc255].
  rewrite (fade_in_loop_eq (qval a) (qval b)) by lra.
  rewrite andthen_ok. change (set_brightness ?x (PI 255)) with (on x). rewrite on_eq.
  cbn [st evs res fst snd pin].
  assert (Hst : fade_start s = inject_Z (bright s)).
  { unfold fade_start. rewrite (clamp_inv _ Hinv). reflexivity. }
  rewrite Hst.
  rewrite (fin_levels_Z (qval a) (zval a) Hq _ (inject_Z (bright s)) (bright s)) by reflexivity.
  assert (Hfuel : dfin_lv (fade_in_fuel (inject_Z (bright s)) (qval a)) (bright s) (zval a)
                  = dfin_lv (dfade_fuel (255 - bright s)) (bright s) (zval a)).
  { apply dfin_fuel; [exact Hz| |apply dev_fuel_Z; exact Hz].
    unfold fade_in_fuel.
    assert (E : (255 - inject_Z (bright s) == inject_Z (255 - bright s))%Q).
    { unfold Zminus. rewrite inject_Z_plus, inject_Z_opp. reflexivity. }
    pose proof (host_fuel_Z (255 - bright s) (zval a) (qval a) Hz Hq) as H.
    assert (E2 : Qceiling ((255 - inject_Z (bright s)) / qval a) = Qceiling (inject_Z (255 - bright s) / qval a)).
    { apply Qceiling_comp. rewrite E. reflexivity. }
    rewrite E2. exact H. }
  rewrite Hfuel.
  f_equal. f_equal.
  destruct (dfin_lv (dfade_fuel (255 - bright s)) (bright s) (zval a)); reflexivity.
Qed.

Lemma fade_out_eq : forall s a b, Inv_led s -> is_pos a = true -> integral a = true -> nonneg b = true ->
  step s (FadeOut a b) =
  (mkLed (pin s) false 0,
   fade_evs (qval b) (dfout_lv (dfade_fuel (bright s)) (bright s) (zval a)) ++ [Lvl [0%Z]], Ok RNone)
  /\ (0 < zval a)%Z.
Proof.
  intros s a b Hinv Ha Hi Hb.
  destruct (is_pos_spec _ Ha) as (Ea & _ & Hp). destruct (nonneg_spec _ Hb) as (Eb & _ & Hnb).
  pose proof (integral_spec _ Hi) as Hq.
  assert (Hz : (0 < zval a)%Z).
  { rewrite Hq in Hp. change 0%Q with (inject_Z 0) in Hp. rewrite <- Zlt_Qlt in Hp. exact Hp. }
  split; [|exact Hz].
  cbn [step]. unfold fade_out. rewrite Ea, Eb. cbn [reject_if].
  destruct (fade_start_range s) as [Hc0 Hc255].
  rewrite (fade_out_loop_eq (qval a) (qval b)) by lra.
  rewrite andthen_ok. change (set_brightness ?x (PI 0)) with (off x). rewrite off_eq.
  cbn [st evs res fst snd pin].
  assert (Hst : fade_start s = inject_Z (bright s)).
  { unfold fade_start. rewrite (clamp_inv _ Hinv). reflexivity. }
  rewrite Hst.
  rewrite (fout_levels_Z (qval a) (zval a) Hq _ (inject_Z (bright s)) (bright s)) by reflexivity.
  assert (Hfuel : dfout_lv (fade_out_fuel (inject_Z (bright s)) (qval a)) (bright s) (zval a)
                  = dfout_lv (dfade_fuel (bright s)) (bright s) (zval a)).
  { apply dfout_fuel; [exact Hz| |apply dev_fuel_Z; exact Hz].
    unfold fade_out_fuel. apply host_fuel_Z; assumption. }
  rewrite Hfuel.
  f_equal. f_equal.
  destruct (dfout_lv (dfade_fuel (bright s)) (bright s) (zval a)); reflexivity.
Qed.

(* ------------------------------------------------------------------ *)
(* flash_pattern                                                       *)
(* ------------------------------------------------------------------ *)
Lemma pat_entry_sim : forall pn s e, pat_ok e = true ->
  exists b, (0 <= b <= 255)%Z /\
    (if num_eq e 0 then off s else if num_eq e 1 then on s else set_brightness s (PI (zval e)))
      = (lit_of (pin s) b, [Lvl [b]], Ok RNone) /\
    exists dv, dflash_entry pn (c_int e) = (mkD (0 <? b)%Z b, dv) /\ map dconv dv = [TL pn b].
Proof.
  intros pn s e H. unfold pat_ok in H. apply andb_true_iff in H as [He Hx].
  pose proof (entry_ok_spec _ He) as Hb. destruct (between_spec _ Hb) as (Ho & H0 & H255).
  pose proof (zval_trunc _ Ho) as Hz. unfold c_int.
  unfold num_eq. rewrite Ho.
  destruct (Qeq_bool (qval e) 0) eqn:E0.
  - apply Qeq_bool_iff in E0. assert (Z0 : zval e = 0%Z) by (rewrite Hz; apply trunc_Qeq; exact E0).
    exists 0%Z. split; [lia|]. split; [apply off_eq|].
    rewrite Z0. eexists. split; reflexivity.
  - destruct (Qeq_bool (qval e) 1) eqn:E1.
    + apply Qeq_bool_iff in E1. assert (Z1 : zval e = 1%Z) by (rewrite Hz; apply trunc_Qeq; exact E1).
      exists 255%Z. split; [lia|]. split; [apply on_eq|].
      rewrite Z1. eexists. split; reflexivity.
    + pose proof (between_zval _ Hb) as Hr.
      exists (zval e). split; [exact Hr|]. split; [rewrite sb_ok by (apply between_PI; exact Hr); reflexivity|].
      unfold dflash_entry.
      assert (Hfl : zval e = Qfloor (qval e)) by (rewrite Hz; apply trunc_floor; exact H0).
      destruct (zval e <=? 0)%Z eqn:L0.
      * apply Z.leb_le in L0. assert (zval e = 0%Z) as -> by lia.
        eexists. split; reflexivity.
      * apply Z.leb_gt in L0. destruct (zval e =? 1)%Z eqn:L1.
        { exfalso. apply Z.eqb_eq in L1.
          pose proof (Qfloor_le (qval e)) as F1. pose proof (Qlt_floor (qval e)) as F2.
          rewrite <- Hfl, L1 in F1, F2. change (inject_Z 1) with 1%Q in F1. change (inject_Z (1 + 1)) with 2%Q in F2.
          apply negb_true_iff in Hx. apply andb_false_iff in Hx as [Hx|Hx]; apply Qltb_false in Hx.
          - apply Qeq_bool_neq in E1. apply E1. lra.
          - lra. }
        { apply Z.eqb_neq in L1. unfold cap255.
          destruct (255 <? zval e)%Z eqn:L2; [apply Z.ltb_lt in L2; lia|].
          eexists. split; reflexivity. }
Qed.

Lemma flash_sim : forall pn p d s, forallb pat_ok p = true ->
  exists s' hev dv,
    flash_loop p d s = (s', hev, Ok RNone) /\
    (Inv_led s -> Inv_led s') /\
    dflash_loop pn (map c_int p) (py_int_trunc d) (d_of s) = (d_of s', dv) /\
    map dconv dv = map (hconv pn) hev /\
    forall b, last_lv pn (map (hconv pn) hev) b = match p with [] => b | _ => bright s' end.
Proof.
  intros pn p d. induction p as [|e rest IH]; intros s Hp.
  - exists s, [], []. split; [reflexivity|]. split; [auto|]. split; [reflexivity|]. split; [reflexivity|]. intro b; reflexivity.
  - cbn [forallb] in Hp. apply andb_true_iff in Hp as [He Hrest].
    destruct (pat_entry_sim pn s e He) as (b & Hb & Hhost & dv1 & Hdev & Hconv).
    assert (Hbt : num_between 0 255 e = Some true).
    { apply entry_ok_spec. unfold pat_ok in He. apply andb_true_iff in He. tauto. }
    cbn [flash_loop map dflash_loop]. rewrite Hbt. cbn [option_map negb reject_if].
    rewrite Hhost, Hdev. rewrite andthen_ok.
    destruct rest as [|e2 rest2].
    + cbn [map]. exists (lit_of (pin s) b), [Lvl [b]], dv1.
      split; [reflexivity|]. split; [intros _; apply inv_lit_of; exact Hb|].
      split; [reflexivity|]. split; [exact Hconv|].
      intro b0. cbn [map hconv nth last_lv]. rewrite Z.eqb_refl. reflexivity.
    + specialize (IH (lit_of (pin s) b) Hrest).
      destruct IH as (s' & hev & dv & Hh & Hinv & Hd & Hc & Hl).
      unfold sleep. rewrite andthen_ok. rewrite Hh. cbn [st evs res fst snd].
      change (d_of (lit_of (pin s) b)) with (mkD (0 <? b)%Z b) in Hd.
      cbn [map] in Hd |- *. rewrite Hd.
      exists s', ([Lvl [b]] ++ [Sleep d] ++ hev), (dv1 ++ EDelay (py_int_trunc d) :: dv).
      split; [reflexivity|]. split; [intros _; apply Hinv; apply inv_lit_of; exact Hb|].
      split; [reflexivity|]. split.
      * rewrite map_app, Hconv. cbn [map app dconv hconv nth]. rewrite Hc. reflexivity.
      * intro b0. cbn [app map hconv nth last_lv]. apply Hl.
Qed.

(* ------------------------------------------------------------------ *)
(* one command                                                         *)
(* ------------------------------------------------------------------ *)
Definition noop_tail (pn b : Z) (x : list tev) : Prop := x = [] \/ x = [TL pn b].

Lemma sim_step : forall pn s o, Inv_led s -> in_range o = true ->
  exists s' hev r dv x,
    step s o = (s', hev, Ok r) /\ Inv_led s' /\
    dstep pn (d_of s) o = (d_of s', dv, hget (Ok r)) /\
    map dconv dv = map (hconv pn) hev ++ x /\ noop_tail pn (bright s') x /\
    last_lv pn (map (hconv pn) hev) (bright s) = bright s'.
Proof.
  intros pn s o Hinv Hr. destruct o as [| | | |v| |d t|a b|a b|p d].
  - (* on *)
    exists (mkLed (pin s) true 255), [Lvl [255%Z]], RNone, [EDW pn true], [].
    cbn [step]. rewrite on_eq. repeat split; try apply inv_on; try (left; reflexivity).
    cbn [map hconv nth last_lv]. rewrite Z.eqb_refl. reflexivity.
  - (* off *)
    exists (mkLed (pin s) false 0), [Lvl [0%Z]], RNone, [EDW pn false], [].
    cbn [step]. rewrite off_eq. repeat split; try apply inv_off; try (left; reflexivity).
    cbn [map hconv nth last_lv]. rewrite Z.eqb_refl. reflexivity.
  - (* get_state *)
    exists s, [], (RBool (lit s)), [], []. repeat split; try apply Hinv; try (left; reflexivity).
  - (* get_brightness *)
    exists s, [], (RInt (bright s)), [], []. repeat split; try apply Hinv; try (left; reflexivity).
  - (* set_brightness *)
    cbn [in_range] in Hr. pose proof (entry_ok_spec _ Hr) as Hb. pose proof (between_zval _ Hb) as Hz.
    exists (lit_of (pin s) (zval v)), [Lvl [zval v]], RNone, [EAW pn (zval v)], [].
    cbn [step dstep]. rewrite sb_ok by exact Hb. unfold d_set_brightness, c_int. rewrite clamp255_id by exact Hz.
    repeat split; try (apply inv_lit_of; exact Hz); try (left; reflexivity); try apply Hz.
    cbn [map hconv nth last_lv]. rewrite Z.eqb_refl. reflexivity.
  - (* toggle *)
    destruct Hinv as [Hb Hl]. cbn [step dstep]. unfold toggle, d_toggle, d_of. cbn [d_state].
    destruct (lit s) eqn:E; cbn [negb].
    + exists (mkLed (pin s) false 0), [Lvl [0%Z]], RNone, [EDW pn false], [].
      rewrite off_eq. repeat split; try apply inv_off; try (left; reflexivity).
      cbn [map hconv nth last_lv]. rewrite Z.eqb_refl. reflexivity.
    + exists (mkLed (pin s) true 255), [Lvl [255%Z]], RNone, [EDW pn true], [].
      rewrite on_eq. repeat split; try apply inv_on; try (left; reflexivity).
      cbn [map hconv nth last_lv]. rewrite Z.eqb_refl. reflexivity.
  - (* blink *)
    cbn [in_range] in Hr. apply andb_true_iff in Hr as [Hr Hi]. apply andb_true_iff in Hr as [Hd Ht].
    destruct (blink_eq s d t Hd Ht Hi) as [Hh Hn]. destruct (nonneg_spec _ Hd) as (_ & Ho & _).
    exists (mkLed (pin s) false 0), (blink_evs (Z.to_nat (zval t)) (qval d)), RNone,
      (dblink_evs (Z.to_nat (zval t)) pn (c_ms d) ++ [EDW pn false]), [TL pn 0%Z].
    split; [exact Hh|]. split; [apply inv_off|]. split.
    { cbn [dstep]. unfold d_blink, c_int, floor0.
      destruct (zval t <? 0)%Z eqn:E; [apply Z.ltb_lt in E; lia|reflexivity]. }
    split.
    { rewrite map_app, hconv_blink. unfold c_ms. rewrite (zval_trunc _ Ho). reflexivity. }
    split; [right; reflexivity|].
    rewrite last_lv_blink. destruct (Z.to_nat (zval t)) eqn:En; [lia|reflexivity].
  - (* fade_in *)
    cbn [in_range] in Hr. apply andb_true_iff in Hr as [Hr Hb]. apply andb_true_iff in Hr as [Ha Hi].
    destruct (fade_in_eq s a b Hinv Ha Hi Hb) as [Hh Hz]. destruct (nonneg_spec _ Hb) as (_ & Ho & _).
    eexists _, _, RNone, _, []. split; [exact Hh|]. split; [apply inv_on|]. split.
    { cbn [dstep]. unfold d_fade_in, d_of. cbn [d_bright]. rewrite clamp255_id by apply Hinv.
      unfold c_step, c_int. destruct (zval a <=? 0)%Z eqn:E; [apply Z.leb_le in E; lia|]. reflexivity. }
    split.
    { rewrite !map_app, app_nil_r, hconv_fade. unfold c_ms. rewrite (zval_trunc _ Ho). reflexivity. }
    split; [left; reflexivity|].
    rewrite map_app. cbn [map hconv nth]. apply last_lv_snoc.
  - (* fade_out *)
    cbn [in_range] in Hr. apply andb_true_iff in Hr as [Hr Hb]. apply andb_true_iff in Hr as [Ha Hi].
    destruct (fade_out_eq s a b Hinv Ha Hi Hb) as [Hh Hz]. destruct (nonneg_spec _ Hb) as (_ & Ho & _).
    eexists _, _, RNone, _, []. split; [exact Hh|]. split; [apply inv_off|]. split.
    { cbn [dstep]. unfold d_fade_out, d_of. cbn [d_bright]. rewrite clamp255_id by apply Hinv.
      unfold c_step, c_int. destruct (zval a <=? 0)%Z eqn:E; [apply Z.leb_le in E; lia|]. reflexivity. }
    split.
    { rewrite !map_app, app_nil_r, hconv_fade. unfold c_ms. rewrite (zval_trunc _ Ho). reflexivity. }
    split; [left; reflexivity|].
    rewrite map_app. cbn [map hconv nth]. apply last_lv_snoc.
  - (* flash_pattern *)
    cbn [in_range] in Hr. apply andb_true_iff in Hr as [Hd Hp].
    destruct (nonneg_spec _ Hd) as (Ed & Ho & _).
    destruct (flash_sim pn p (qval d) s Hp) as (s' & hev & dv & Hh & Hi & Hdv & Hc & Hl).
    exists s', hev, RNone, dv, []. split.
    { cbn [step]. unfold flash_pattern. rewrite Ed. cbn [reject_if]. exact Hh. }
    split; [apply Hi; exact Hinv|]. split.
    { cbn [dstep]. unfold d_flash, c_ms. rewrite (zval_trunc _ Ho), Hdv. reflexivity. }
    split; [rewrite app_nil_r; exact Hc|]. split; [left; reflexivity|].
    rewrite Hl. destruct p; [|reflexivity].
    cbn [flash_loop] in Hh. unfold done in Hh. injection Hh as <- _. reflexivity.
Qed.

(* ------------------------------------------------------------------ *)
(* whole runs                                                          *)
(* ------------------------------------------------------------------ *)
Definition htr (pn : Z) (s : led) (ops : list op) : list tev := map (hconv pn) (fst (fst (hrun s ops))).
Definition dtr (pn : Z) (d : dled) (ops : list op) : list tev := map dconv (fst (drun pn d ops)).
Definition hgets (s : led) (ops : list op) : list (option Z) := snd (fst (hrun s ops)).
Definition dgets (pn : Z) (d : dled) (ops : list op) : list (option Z) := snd (drun pn d ops).
Definition hok (s : led) (ops : list op) : bool := snd (hrun s ops).

Lemma sim_run : forall pn ops s cs, Inv_led s -> lookup (fst cs) pn = bright s ->
  forallb in_range ops = true ->
  crun cs (dtr pn (d_of s) ops) = crun cs (htr pn s ops) /\
  dgets pn (d_of s) ops = hgets s ops /\ hok s ops = true.
Proof.
  intros pn ops. induction ops as [|o r IH]; intros s cs Hinv Hlk Hr.
  - repeat split.
  - cbn [forallb] in Hr. apply andb_true_iff in Hr as [Ho Hrest].
    destruct (sim_step pn s o Hinv Ho) as (s' & hev & res & dv & x & Hh & Hinv' & Hd & Hc & Hx & Hl).
    unfold dtr, htr, dgets, hgets, hok. cbn [drun hrun]. rewrite Hh, Hd.
    set (cs1 := fst (crun cs (map (hconv pn) hev))).
    assert (Hlk1 : lookup (fst cs1) pn = bright s').
    { unfold cs1. rewrite lvl_after, Hlk. exact Hl. }
    destruct (IH s' cs1 Hinv' Hlk1 Hrest) as (I1 & I2 & I3).
    unfold dtr, htr, dgets, hgets, hok in I1, I2, I3.
    destruct (drun pn (d_of s') r) as [e2 g2]. destruct (hrun s' r) as [[he2 hg2] ok2].
    cbn [fst snd] in *. subst ok2. split; [|split; [rewrite I2; reflexivity|reflexivity]].
    rewrite !map_app, Hc.
    assert (Hmid : crun cs ((map (hconv pn) hev ++ x) ++ map dconv e2) = crun cs (map (hconv pn) hev ++ map dconv e2)).
    { destruct Hx as [-> | ->].
      - rewrite app_nil_r. reflexivity.
      - rewrite <- app_assoc. cbn [app]. apply crun_noop_mid. rewrite Hlk. exact Hl. }
    rewrite Hmid. apply crun_cong; [reflexivity|]. exact I1.
Qed.

(* C04 for LEDs *)
Lemma led_device_eq_host : forall pn p ops, forallb in_range ops = true ->
  canon (dtr pn dinit ops) = canon (htr pn (init p) ops) /\
  dgets pn dinit ops = hgets (init p) ops /\ hok (init p) ops = true.
Proof.
  intros pn p ops Hr.
  destruct (sim_run pn ops (init p) cinit (inv_init p) eq_refl Hr) as (H1 & H2 & H3).
  change (d_of (init p)) with dinit in H1, H2.
  split; [|split; assumption]. unfold canon. rewrite H1. reflexivity.
Qed.

(* ------------------------------------------------------------------ *)
(* the clamp clause: every value, every history                        *)
(* ------------------------------------------------------------------ *)
Lemma dfin_lv_range : forall step, (0 < step)%Z -> forall fuel v, (0 <= v)%Z ->
  Forall (fun z => 0 <= z <= 255)%Z (dfin_lv fuel v step).
Proof.
  intros step Hs. induction fuel as [|f IH]; intros v Hv; [constructor|].
  cbn [dfin_lv]. destruct (v <? 255)%Z eqn:E; [|constructor].
  apply Z.ltb_lt in E. constructor; [lia|]. apply IH. unfold cap255.
  destruct (255 <? v + step)%Z; lia.
Qed.

Lemma dfout_lv_range : forall step, (0 < step)%Z -> forall fuel v, (v <= 255)%Z ->
  Forall (fun z => 0 <= z <= 255)%Z (dfout_lv fuel v step).
Proof.
  intros step Hs. induction fuel as [|f IH]; intros v Hv; [constructor|].
  cbn [dfout_lv]. destruct (0 <? v)%Z eqn:E; [|constructor].
  apply Z.ltb_lt in E. constructor; [lia|]. apply IH. unfold floor0.
  destruct (v - step <? 0)%Z; lia.
Qed.

Lemma dfade_evs_ok : forall pn d lv, Forall (fun z => 0 <= z <= 255)%Z lv -> Forall dev_ok (dfade_evs pn d lv).
Proof.
  intros pn d lv H. induction H as [|z l Hz Hl IH]; [constructor|].
  cbn [dfade_evs]. constructor; [exact Hz|]. constructor; [exact I|exact IH].
Qed.

Lemma dblink_ok : forall n pn d, Forall dev_ok (dblink_evs n pn d).
Proof. induction n as [|n IH]; intros; cbn [dblink_evs]; repeat constructor. apply IH. Qed.

Lemma c_step_pos : forall x, (0 < c_step x)%Z.
Proof. intro x. unfold c_step. destruct (c_int x <=? 0)%Z eqn:E; [lia|apply Z.leb_gt in E; exact E]. Qed.

Lemma dflash_ok : forall pn p d s, Forall dev_ok (snd (dflash_loop pn p d s)).
Proof.
  intros pn p d. induction p as [|v rest IH]; intro s; [constructor|].
  cbn [dflash_loop].
  assert (He : Forall dev_ok (snd (dflash_entry pn v))).
  { unfold dflash_entry. destruct (v <=? 0)%Z eqn:E0; [repeat constructor|].
    destruct (v =? 1)%Z; [repeat constructor|]. cbn [snd]. constructor; [|constructor].
    apply Z.leb_gt in E0. unfold dev_ok, cap255. destruct (255 <? v)%Z eqn:E; [lia|apply Z.ltb_ge in E; lia]. }
  destruct (dflash_entry pn v) as [s1 e1]. cbn [snd] in He.
  destruct rest as [|v2 rest2]; [exact He|].
  specialize (IH s1). destruct (dflash_loop pn (v2 :: rest2) d s1) as [s2 e2]. cbn [snd] in *.
  apply Forall_app. split; [exact He|]. constructor; [exact I|exact IH].
Qed.

Lemma dstep_clamped : forall pn s o, Forall dev_ok (snd (fst (dstep pn s o))).
Proof.
  intros pn s o. destruct o as [| | | |v| |d t|a b|a b|p d]; cbn [dstep];
    try (repeat constructor; fail).
  - unfold d_set_brightness. cbn [fst snd]. constructor; [apply clamp255_range|constructor].
  - unfold d_blink. cbn [fst snd]. apply Forall_app. split; [apply dblink_ok|repeat constructor].
  - unfold d_fade_in. cbn [fst snd]. apply Forall_app. split; [|constructor; [cbn; lia|constructor]].
    apply dfade_evs_ok. apply dfin_lv_range; [apply c_step_pos|apply clamp255_range].
  - unfold d_fade_out. cbn [fst snd]. apply Forall_app. split; [|constructor; [cbn; lia|constructor]].
    apply dfade_evs_ok. apply dfout_lv_range; [apply c_step_pos|apply clamp255_range].
  - unfold d_flash. pose proof (dflash_ok pn (map c_int p) (c_ms d) s) as H.
    destruct (dflash_loop pn (map c_int p) (c_ms d) s) as [s' e]. exact H.
Qed.

Lemma led_clamp : forall pn ops s, Forall dev_ok (fst (drun pn s ops)).
Proof.
  intros pn ops. induction ops as [|o r IH]; intro s; [constructor|].
  cbn [drun]. pose proof (dstep_clamped pn s o) as H.
  destruct (dstep pn s o) as [[s1 e1] g1]. specialize (IH s1).
  destruct (drun pn s1 r) as [e2 g2]. cbn [fst snd] in *. apply Forall_app. split; assumption.
Qed.

(* the stored brightness stays in range as well, whatever is commanded *)
Definition dinv (s : dled) : Prop := (0 <= d_bright s <= 255)%Z /\ d_state s = (0 <? d_bright s)%Z.

Lemma dflash_entry_inv : forall pn v, dinv (fst (dflash_entry pn v)).
Proof.
  intros pn v. unfold dflash_entry. destruct (v <=? 0)%Z eqn:E0; [split; cbn; [lia|reflexivity]|].
  destruct (v =? 1)%Z; [split; cbn; [lia|reflexivity]|]. apply Z.leb_gt in E0.
  split; cbn [fst d_bright d_state]; [|reflexivity]. unfold cap255. destruct (255 <? v)%Z eqn:E; [lia|apply Z.ltb_ge in E; lia].
Qed.

Lemma dflash_inv : forall pn p d s, dinv s -> dinv (fst (dflash_loop pn p d s)).
Proof.
  intros pn p d. induction p as [|v rest IH]; intros s Hs; [exact Hs|].
  cbn [dflash_loop]. pose proof (dflash_entry_inv pn v) as He.
  destruct (dflash_entry pn v) as [s1 e1]. cbn [fst] in He.
  destruct rest as [|v2 rest2]; [exact He|].
  specialize (IH s1 He). destruct (dflash_loop pn (v2 :: rest2) d s1) as [s2 e2]. exact IH.
Qed.

Lemma dstep_inv : forall pn s o, dinv s -> dinv (fst (fst (dstep pn s o))).
Proof.
  intros pn s o Hs. destruct o as [| | | |v| |d t|a b|a b|p d]; cbn [dstep fst];
    try exact Hs; try (split; cbn; [lia|reflexivity]).
  - unfold d_set_brightness. cbn [fst]. split; cbn [d_bright d_state]; [apply clamp255_range|reflexivity].
  - unfold d_toggle. cbn [fst]. destruct (d_state s); split; cbn; try lia; reflexivity.
  - unfold d_flash. pose proof (dflash_inv pn (map c_int p) (c_ms d) s Hs) as H.
    destruct (dflash_loop pn (map c_int p) (c_ms d) s) as [s' e]. exact H.
Qed.

Lemma led_state_clamped : forall pn ops s, dinv s -> dinv (dfinal pn s ops).
Proof.
  intros pn ops. induction ops as [|o r IH]; intros s Hs; [exact Hs|].
  cbn [dfinal]. apply IH. apply dstep_inv. exact Hs.
Qed.

(* ------------------------------------------------------------------ *)
(* delays: a host sleep of q ms is a device delay of trunc(q) ms       *)
(* ------------------------------------------------------------------ *)
Lemma Forall_repeat : forall (A : Type) (P : A -> Prop) x n, P x -> Forall P (repeat x n).
Proof. intros A P x n H. induction n; cbn; constructor; auto. Qed.

Lemma led_sleeps_nonneg : forall s o, Inv_led s -> in_range o = true ->
  Forall (fun q => 0 <= q)%Q (sleeps (evs (step s o))).
Proof.
  intros s o Hinv Hr. destruct o as [| | | |v| |d t|a b|a b|p d]; try (cbn; constructor; fail).
  - cbn [step]. destruct (sb_cases s v) as [[E _]|[k E]]; rewrite E; constructor.
  - cbn [step]. unfold toggle. destruct (lit s); [rewrite off_eq|rewrite on_eq]; constructor.
  - cbn [in_range] in Hr. apply andb_true_iff in Hr as [Hr Hi]. apply andb_true_iff in Hr as [Hd Ht].
    destruct (blink_eq s d t Hd Ht Hi) as [Hh _]. rewrite Hh. cbn [evs fst snd].
    rewrite blink_evs_sleeps. apply Forall_repeat. apply (nonneg_spec _ Hd).
  - cbn [in_range] in Hr. apply andb_true_iff in Hr as [Hr Hb]. apply andb_true_iff in Hr as [Ha Hi].
    destruct (fade_in_eq s a b Hinv Ha Hi Hb) as [Hh _]. rewrite Hh. cbn [evs fst snd].
    rewrite sleeps_app, fade_evs_sleeps. cbn [sleeps]. rewrite app_nil_r. apply Forall_repeat. apply (nonneg_spec _ Hb).
  - cbn [in_range] in Hr. apply andb_true_iff in Hr as [Hr Hb]. apply andb_true_iff in Hr as [Ha Hi].
    destruct (fade_out_eq s a b Hinv Ha Hi Hb) as [Hh _]. rewrite Hh. cbn [evs fst snd].
    rewrite sleeps_app, fade_evs_sleeps. cbn [sleeps]. rewrite app_nil_r. apply Forall_repeat. apply (nonneg_spec _ Hb).
  - cbn [in_range] in Hr. apply andb_true_iff in Hr as [Hd Hp].
    destruct (nonneg_spec _ Hd) as (Ed & _ & Hq).
    cbn [step]. unfold flash_pattern. rewrite Ed. cbn [reject_if].
    assert (Hp' : forallb entry_ok p = true).
    { apply forallb_forall. intros x Hx. rewrite forallb_forall in Hp. specialize (Hp x Hx).
      unfold pat_ok in Hp. apply andb_true_iff in Hp. tauto. }
    destruct (flash_loop_ok p (qval d) s Hp') as (_ & Hs & _). rewrite Hs. apply Forall_repeat. exact Hq.
Qed.

Lemma led_delays_within_1ms : forall s o, Inv_led s -> in_range o = true ->
  Forall (fun q => 0 <= q - inject_Z (py_int_trunc q) /\ q - inject_Z (py_int_trunc q) < 1)%Q
         (sleeps (evs (step s o))).
Proof.
  intros s o Hinv Hr. eapply Forall_impl; [|apply led_sleeps_nonneg; assumption].
  intros q Hq. apply trunc_within_ms. exact Hq.
Qed.

(* ------------------------------------------------------------------ *)
(* outside the guard the two sides really differ                       *)
(* ------------------------------------------------------------------ *)
Lemma led_fractional_step_differs :
  canon (dtr 5 dinit [FadeIn (PF (5 # 2)) (PI 0)]) <> canon (htr 5 (init (PI 5)) [FadeIn (PF (5 # 2)) (PI 0)]).
Proof. vm_compute. discriminate. Qed.

Lemma led_pattern_between_1_2_differs :
  canon (dtr 5 dinit [FlashPattern [PF (3 # 2)] (PI 0)]) <> canon (htr 5 (init (PI 5)) [FlashPattern [PF (3 # 2)] (PI 0)]).
Proof. vm_compute. discriminate. Qed.
