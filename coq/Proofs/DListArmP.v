(* C09 - sibling arms of one if / elif / else (try / except) statement are folded INDEPENDENTLY: every arm from the
   snapshot in front of the statement.  Proved about the object-level model of the parser's environment
   (Device/DListArm.v): `_copy_const_env` allocates fresh objects, in-place mutation reaches only objects the arm's own
   dict holds, hence nothing an earlier arm does is visible in a later one. *)
From Coq Require Import ZArith List Bool Arith Lia.
From RV Require Import Device.DList Device.DListProg Device.DListLen Device.DListArm Proofs.DListP Proofs.DListProgP Proofs.DListLenP.
Import ListNotations.

Definition Inj (e : cenv) : Prop := forall x y r, ce_ref e x = Some r -> ce_ref e y = Some r -> x = y.
Definition Dom (e : cenv) : Prop := forall x r, ce_ref e x = Some r -> In x (ce_dom e).
Definition Below (e : cenv) (n : nat) : Prop := forall x r, ce_ref e x = Some r -> r < n.
Definition View (e : cenv) (h : cheap) (t : tenv) : Prop := forall x, c_cur e h x = t_cur t x.
Definition Wf (e : cenv) (h : cheap) : Prop := Inj e /\ Dom e /\ Below e (ch_next h).

(* ------------------------------------------------------------------ one statement *)
Lemma mutate_view : forall e h t x g, Inj e -> View e h t ->
  View e (c_mutate e h x g) (match t_cur t x with Some cur => t_set x (Some (g cur)) t | None => t end).
Proof.
  intros e h t x g HI HV y. pose proof (HV x) as Hx. unfold c_mutate, c_cur in *.
  destruct (ce_ref e x) as [r|] eqn:Ex.
  - destruct (ch_obj h r) as [cur|] eqn:Eo.
    + rewrite <- Hx. cbn [ch_obj]. unfold upd_obj.
      destruct (ce_ref e y) as [r'|] eqn:Ey.
      * destruct (Nat.eqb r' r) eqn:Er.
        -- apply Nat.eqb_eq in Er. subst r'. assert (y = x) by (eapply HI; eauto). subst y.
           now rewrite t_cur_set_same.
        -- assert (y <> x) as N. { intros ->. rewrite Ex in Ey. injection Ey as <-. now rewrite Nat.eqb_refl in Er. }
           rewrite t_cur_set_other by exact N. rewrite <- (HV y). unfold c_cur. now rewrite Ey.
      * assert (y <> x) as N. { intros ->. congruence. }
        rewrite t_cur_set_other by exact N. rewrite <- (HV y). unfold c_cur. now rewrite Ey.
    + rewrite <- Hx. apply HV.
  - rewrite <- Hx. apply HV.
Qed.

Lemma rebind_view : forall e h t x, View e h t ->
  View (c_rebind e x) h (match t_cur t x with Some _ => t_set x None t | None => t end).
Proof.
  intros e h t x HV y. unfold c_cur, c_rebind. cbn [ce_ref]. unfold upd_ref.
  destruct (Z.eqb y x) eqn:E.
  - apply Z.eqb_eq in E. subst y. destruct (t_cur t x) eqn:Et.
    + now rewrite t_cur_set_same.
    + now rewrite Et.
  - apply Z.eqb_neq in E. destruct (t_cur t x) eqn:Et.
    + rewrite t_cur_set_other by exact E. apply HV.
    + apply HV.
Qed.

Lemma mutate_frame : forall e h x g,
  ch_next (c_mutate e h x g) = ch_next h /\
  forall r, (forall y, ce_ref e y <> Some r) -> ch_obj (c_mutate e h x g) r = ch_obj h r.
Proof.
  intros e h x g. unfold c_mutate. destruct (ce_ref e x) as [r0|] eqn:Ex; [|now split].
  destruct (ch_obj h r0) eqn:Eo; [|now split]. split; [reflexivity|].
  intros r Hr. cbn [ch_obj]. unfold upd_obj. destruct (Nat.eqb r r0) eqn:E; auto.
  apply Nat.eqb_eq in E. subst r. now elim (Hr x).
Qed.

Lemma stmt_sim : forall s e h t e1 h1, c_stmt e h s = (e1, h1) -> Inj e -> View e h t ->
  Inj e1 /\ View e1 h1 (track1 false t (to_t s)) /\ ch_next h1 = ch_next h /\
  (forall x r, ce_ref e1 x = Some r -> ce_ref e x = Some r) /\
  (forall r, (forall y, ce_ref e y <> Some r) -> ch_obj h1 r = ch_obj h r).
Proof.
  intros s e h t e1 h1 H HI HV.
  assert (forall x, Inj (c_rebind e x) /\ forall y r, ce_ref (c_rebind e x) y = Some r -> ce_ref e y = Some r) as HR.
  { intros x. assert (forall y r, ce_ref (c_rebind e x) y = Some r -> ce_ref e y = Some r) as A.
    { intros y r. unfold c_rebind. cbn [ce_ref]. unfold upd_ref. destruct (Z.eqb y x); [discriminate|auto]. }
    split; auto. intros a b r Ha Hb. eapply HI; eauto. }
  destruct s as [x v|x v|x off|x off|x y sg k|x i]; cbn [c_stmt to_t] in H; injection H as <- <-; cbn [track1 targ_val to_t].
  - pose proof (mutate_view e h t x (fun cur => cur ++ [Some v]) HI HV) as M.
    destruct (mutate_frame e h x (fun cur => cur ++ [Some v])) as [F1 F2].
    split; [auto|]. split; [|now auto]. intros y. etransitivity; [apply (M y)|]. now destruct (t_cur t x).
  - pose proof (mutate_view e h t x (fun cur => t_remove cur (Some v)) HI HV) as M.
    destruct (mutate_frame e h x (fun cur => t_remove cur (Some v))) as [F1 F2].
    split; [auto|]. split; [|now auto]. intros y. etransitivity; [apply (M y)|]. now destruct (t_cur t x).
  - destruct (HR x) as [R1 R2]. split; [auto|]. split; [|now auto].
    intros y. etransitivity; [apply (rebind_view e h t x HV y)|]. now destruct (t_cur t x).
  - destruct (HR x) as [R1 R2]. split; [auto|]. split; [|now auto].
    intros y. etransitivity; [apply (rebind_view e h t x HV y)|]. now destruct (t_cur t x).
  - repeat split; auto.
  - repeat split; auto.
Qed.

Lemma fold_sim : forall e h t s, View e h t -> c_fold e h s = v_fold t s.
Proof. intros e h t s HV. destruct s; cbn [c_fold v_fold]; auto. now rewrite (HV y). Qed.

(* ------------------------------------------------------------------ one arm *)
Lemma arm_sim : forall a e h t, Inj e -> View e h t ->
  snd (c_arm e h a) = v_lens t a /\ ch_next (fst (c_arm e h a)) = ch_next h /\
  (forall r, (forall y, ce_ref e y <> Some r) -> ch_obj (fst (c_arm e h a)) r = ch_obj h r).
Proof.
  induction a as [|s a IH]; intros e h t HI HV; cbn [c_arm v_lens].
  - now repeat split.
  - destruct (c_stmt e h s) as [e1 h1] eqn:Es.
    destruct (stmt_sim s e h t e1 h1 Es HI HV) as (I1 & V1 & N1 & S1 & F1).
    destruct (IH e1 h1 _ I1 V1) as (L & N & F).
    destruct (c_arm e1 h1 a) as [h2 ls] eqn:Ea. cbn [fst snd] in *.
    split; [now rewrite (fold_sim e h t s HV), L|]. split; [congruence|].
    intros r Hr. rewrite F.
    + now apply F1.
    + intros y Hy. apply (Hr y). now apply S1.
Qed.

(* ------------------------------------------------------------------ _copy_const_env *)
Definition AInv (lo : nat) (val : name -> option tcopy) (acc : name -> option nat) (h : cheap) : Prop :=
  (forall x r, acc x = Some r -> lo <= r < ch_next h /\ ch_obj h r = val x) /\
  (forall x y r, acc x = Some r -> acc y = Some r -> x = y).

Lemma alloc_inv : forall dom val lo acc h acc' h',
  c_alloc dom val acc h = (acc', h') -> lo <= ch_next h -> AInv lo val acc h ->
  AInv lo val acc' h' /\ ch_next h <= ch_next h' /\ (forall r, r < ch_next h -> ch_obj h' r = ch_obj h r) /\
  (forall x, acc x <> None -> acc' x <> None) /\ (forall x, In x dom -> val x <> None -> acc' x <> None) /\
  (forall x, acc' x <> None -> acc x <> None \/ In x dom).
Proof.
  induction dom as [|x dom IH]; intros val lo acc h acc' h' H Hlo HA; cbn [c_alloc] in H.
  - injection H as <- <-. split; [exact HA|]. split; [lia|]. split; [auto|]. split; [auto|]. split; [intros y []|].
    intros y Hy; now left.
  - destruct (val x) as [cur|] eqn:Ev.
    + set (n := ch_next h) in *.
      assert (AInv lo val (upd_ref acc x (Some n)) (mkch (upd_obj (ch_obj h) n (Some cur)) (S n))) as HA1.
      { destruct HA as [A1 A2]. split.
        - intros y r. unfold upd_ref. cbn [ch_obj ch_next]. unfold upd_obj. destruct (Z.eqb y x) eqn:E.
          + intros Hr. injection Hr as <-. apply Z.eqb_eq in E. subst y. rewrite Nat.eqb_refl. split; [lia|congruence].
          + intros Hr. destruct (A1 y r Hr) as [B1 B2]. fold n in B1. split; [lia|].
            destruct (Nat.eqb r n) eqn:En; [apply Nat.eqb_eq in En; lia|auto].
        - intros a b r. unfold upd_ref. destruct (Z.eqb a x) eqn:Ea; destruct (Z.eqb b x) eqn:Eb; intros Ha Hb.
          + apply Z.eqb_eq in Ea, Eb. congruence.
          + injection Ha as <-. destruct (A1 b n Hb) as [B _]. fold n in B. lia.
          + injection Hb as <-. destruct (A1 a n Ha) as [B _]. fold n in B. lia.
          + eapply A2; eauto. }
      destruct (IH val lo _ _ acc' h' H) as (I1 & I2 & I3 & I4 & I5 & I6); [cbn [ch_next]; lia|exact HA1|].
      cbn [ch_next ch_obj] in *. split; [exact I1|]. split; [lia|]. split; [|split; [|split]].
      * intros r Hr. rewrite I3 by lia. unfold upd_obj. destruct (Nat.eqb r n) eqn:En; [apply Nat.eqb_eq in En; lia|auto].
      * intros y Hy. apply I4. unfold upd_ref. destruct (Z.eqb y x); [discriminate|auto].
      * intros y [->|Hy] Hv.
        -- apply I4. unfold upd_ref. now rewrite Z.eqb_refl.
        -- now apply I5.
      * intros y Hy. destruct (I6 y Hy) as [B|B].
        -- unfold upd_ref in B. destruct (Z.eqb y x) eqn:E; [apply Z.eqb_eq in E; subst y; right; now left|now left].
        -- right. now right.
    + destruct (IH val lo acc h acc' h' H Hlo HA) as (I1 & I2 & I3 & I4 & I5 & I6).
      split; [exact I1|]. split; [lia|]. split; [auto|]. split; [auto|]. split.
      * intros y [->|Hy] Hv; [congruence|now apply I5].
      * intros y Hy. destruct (I6 y Hy); [now left|right; now right].
Qed.

Lemma alloc_fresh : forall dom val h acc h', c_alloc dom val (fun _ => None) h = (acc, h') ->
  (forall x, val x <> None -> In x dom) ->
  (forall x, match acc x with Some r => ch_obj h' r | None => None end = val x) /\
  (forall x y r, acc x = Some r -> acc y = Some r -> x = y) /\
  (forall x r, acc x = Some r -> ch_next h <= r < ch_next h') /\ (forall x r, acc x = Some r -> In x dom) /\
  ch_next h <= ch_next h' /\ (forall r, r < ch_next h -> ch_obj h' r = ch_obj h r).
Proof.
  intros dom val h acc h' H HD.
  destruct (alloc_inv dom val (ch_next h) (fun _ => None) h acc h' H) as ((A1 & A2) & I2 & I3 & I4 & I5 & I6).
  - lia.
  - split; intros; discriminate.
  - split; [|split; [exact A2|split; [|split; [|split; [lia|exact I3]]]]].
    + intros x. destruct (acc x) as [r|] eqn:E.
      * now destruct (A1 x r E).
      * destruct (val x) eqn:Ev; auto. exfalso. apply (I5 x); [apply HD| |]; congruence.
    + intros x r Hx. apply (A1 x r Hx).
    + intros x r Hx. assert (acc x <> None) as NN by congruence. destruct (I6 x NN) as [B|B]; [now elim B|exact B].
Qed.

Lemma copy_sim : forall e h t e1 h1, c_copy e h = (e1, h1) -> Dom e -> View e h t ->
  Inj e1 /\ View e1 h1 t /\ (forall x r, ce_ref e1 x = Some r -> ch_next h <= r) /\
  ch_next h <= ch_next h1 /\ (forall r, r < ch_next h -> ch_obj h1 r = ch_obj h r).
Proof.
  intros e h t e1 h1 H HD HV. unfold c_copy in H.
  destruct (c_alloc (ce_dom e) (c_cur e h) (fun _ => None) h) as [acc h'] eqn:Ea. injection H as <- <-.
  destruct (alloc_fresh _ _ _ _ _ Ea) as (F1 & F2 & F3 & F4 & F5 & F6).
  - intros x Hx. unfold c_cur in Hx. destruct (ce_ref e x) eqn:E; [eapply HD; eauto|congruence].
  - repeat split; auto.
    + intros x. unfold c_cur at 1. cbn [ce_ref]. rewrite F1. apply HV.
    + intros x r Hx. apply (F3 x r Hx).
Qed.

(* ------------------------------------------------------------------ the arms of one statement *)
(* every arm is folded from the snapshot [t] in front of the statement and from its own statements: arm k's folded
   lengths are [v_lens t (arm k)], whatever the other arms are *)
Theorem arms_independent : forall arms e h t, Wf e h -> View e h t ->
  snd (c_arms e h arms) = map (v_lens t) arms.
Proof.
  induction arms as [|a arms IH]; intros e h t (HI & HD & HB) HV; cbn [c_arms map]; auto.
  destruct (c_copy e h) as [e1 h1] eqn:Ec.
  destruct (copy_sim e h t e1 h1 Ec HD HV) as (I1 & V1 & L1 & N1 & O1).
  destruct (arm_sim a e1 h1 t I1 V1) as (L & N & F).
  destruct (c_arm e1 h1 a) as [h2 ls] eqn:Ea. cbn [fst snd] in *.
  assert (forall r, r < ch_next h -> ch_obj h2 r = ch_obj h r) as Keep.
  { intros r Hr. rewrite F; [now apply O1|]. intros y Hy. apply L1 in Hy. lia. }
  assert (snd (c_arms e h2 arms) = map (v_lens t) arms) as R.
  { apply IH.
    - repeat split; auto. intros x r Hx. specialize (HB x r Hx). lia.
    - intros x. rewrite <- (HV x). unfold c_cur. destruct (ce_ref e x) as [r|] eqn:Ex; auto. apply Keep. eapply HB; eauto. }
  destruct (c_arms e h2 arms) as [h3 lss]. cbn [snd] in *. now rewrite L, R.
Qed.

Corollary arm_depends_on_snapshot_and_itself : forall arms arms' e h t k,
  Wf e h -> View e h t -> nth k arms [] = nth k arms' [] -> k < length arms -> k < length arms' ->
  nth k (snd (c_arms e h arms)) [] = nth k (snd (c_arms e h arms')) [].
Proof.
  intros arms arms' e h t k HW HV Hk L1 L2. rewrite (arms_independent arms e h t HW HV), (arms_independent arms' e h t HW HV).
  change (nth k (map (v_lens t) arms) (v_lens t []) = nth k (map (v_lens t) arms') (v_lens t [])).
  rewrite !map_nth. now rewrite Hk.
Qed.

(* the parser's state in front of the statement *)
Lemma t_cur_in : forall (t : tenv) x c, t_cur t x = Some c -> In x (map fst t).
Proof.
  unfold t_cur. induction t as [|[y v] t IH]; intros x c H; cbn [assoc map fst] in *; [discriminate|].
  destruct (Z.eqb x y) eqn:E; [apply Z.eqb_eq in E; now left|right; eauto].
Qed.

Lemma load_wf : forall t e h, c_load t = (e, h) -> Wf e h /\ View e h t.
Proof.
  intros t e h H. unfold c_load in H.
  destruct (c_alloc (map fst t) (t_cur t) (fun _ => None) (mkch (fun _ => None) 0)) as [acc h'] eqn:Ea. injection H as <- <-.
  destruct (alloc_fresh _ _ _ _ _ Ea) as (F1 & F2 & F3 & F4 & F5 & F6).
  - intros x Hx. destruct (t_cur t x) eqn:E; [eapply t_cur_in; eauto|congruence].
  - split; [repeat split|].
    + exact F2.
    + intros x r Hx. cbn [ce_ref ce_dom] in *. eapply F4; eauto.
    + intros x r Hx. cbn [ce_ref] in Hx. apply (F3 x r Hx).
    + intros x. unfold c_cur. cbn [ce_ref]. apply F1.
Qed.

Theorem arm_lens_spec : forall pre arms,
  arm_lens pre arms = map (v_lens (fst (track false [] [] (ungated pre)))) arms.
Proof.
  intros pre arms. unfold arm_lens. destruct (c_load (fst (track false [] [] (ungated pre)))) as [e h] eqn:El.
  destruct (load_wf _ e h El) as [W V]. now apply arms_independent.
Qed.

(* ------------------------------------------------------------------ the taken path *)
(* what tf_block folds in front of each statement of a block (DListLen.s_len / f_len: the copy of the moment, if any) *)
Fixpoint block_lens (t : tenv) (ss : list gstmt) : list (option nat) :=
  match ss with
  | [] => []
  | (s, g) :: r =>
      match s with
      | TGetLen _ y _ _ => match t_cur t y with Some cur => Some (length cur) | None => None end
      | _ => None
      end :: block_lens (track1 (is_gated g) t s) r
  end.

Lemma block_lens_arm : forall a t, block_lens t (ungated (map to_t a)) = v_lens t a.
Proof.
  induction a as [|s a IH]; intros t; cbn [map ungated block_lens v_lens is_gated]; auto.
  unfold ungated in IH. rewrite IH. f_equal. now destruct s.
Qed.

Lemma block_lens_app : forall pre t d rest,
  block_lens t (ungated (pre ++ rest)) = block_lens t (ungated pre) ++ block_lens (fst (track false t d (ungated pre))) (ungated rest).
Proof.
  induction pre as [|s pre IH]; intros t d rest; cbn [app map ungated block_lens track is_gated]; auto.
  unfold ungated in IH. f_equal. apply IH.
Qed.

(* the lengths the parser folds in arm k of the statement are those the straight-line program "statements in front, then
   the statements of arm k" is folded with - the program the run IS when arm k is taken *)
Theorem taken_path_lens : forall pre arms k, (k < length arms)%nat ->
  block_lens [] (ungated (taken_path pre arms k)) = block_lens [] (ungated pre) ++ nth k (arm_lens pre arms) [].
Proof.
  intros pre arms k Hk. unfold taken_path. rewrite (block_lens_app pre [] []), block_lens_arm, arm_lens_spec.
  f_equal. set (t0 := fst (track false [] [] (ungated pre))).
  change (v_lens t0 (nth k arms []) = nth k (map (v_lens t0) arms) (v_lens t0 [])). now rewrite map_nth.
Qed.

(* ------------------------------------------------------------------ after the statement *)
Lemma mem_in : forall x l, mem x l = true <-> In x l.
Proof.
  intros x l. unfold mem. rewrite existsb_exists. split.
  - intros (y & Hy & E). apply Z.eqb_eq in E. now subst y.
  - intros H. exists x. split; [exact H|apply Z.eqb_refl].
Qed.

Theorem after_arms_forgets : forall t arms x, In x (arms_writes arms) -> t_cur (after_arms t arms) x = None.
Proof. intros t arms x H. unfold after_arms. rewrite t_cur_untrack. apply mem_in in H. now rewrite H. Qed.

Theorem after_arms_keeps : forall t arms x, ~ In x (arms_writes arms) -> t_cur (after_arms t arms) x = t_cur t x.
Proof.
  intros t arms x H. unfold after_arms. rewrite t_cur_untrack. destruct (mem x (arms_writes arms)) eqn:E; auto.
  apply mem_in in E. contradiction.
Qed.

(* ------------------------------------------------------------------ witnesses *)
Lemma arms_demo_lens : arm_lens arms_pre arms_demo = [[None; None; None; Some 4]; [None]; [Some 3; Some 2]]%nat.
Proof. vm_compute. reflexivity. Qed.

(* the parser with ONE copy per statement folds the else arm with the lengths the first arm left behind *)
Lemma arms_demo_shared : arm_lens_shared arms_pre arms_demo = [[None; None; None; Some 4]; [None]; [Some 4; Some 4]]%nat.
Proof. vm_compute. reflexivity. Qed.
