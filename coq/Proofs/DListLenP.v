(* C09 - the parser's parse-time list copies: inside the guard [len_ok] the folded len() is the length the list has
   when CPython evaluates len(), in every pass; hence the firmware run with folded lengths is simulated by the
   CPython run exactly like the programs of DListProg. *)
From Coq Require Import ZArith List Bool Arith Lia Permutation.
From RV Require Import Device.DList Device.DListProg Device.DListLen Proofs.DListP Proofs.DTupleP Proofs.DListProgP.
Import ListNotations.

(* ------------------------------------------------------------------ the copies *)
Lemma assoc_t_set_same : forall x v (t : tenv), assoc x (t_set x v t) = Some v.
Proof.
  intros x v t. unfold t_set, has. destruct (assoc x t) eqn:E.
  - now rewrite assoc_set_assoc, Z.eqb_refl, E.
  - now rewrite assoc_app_new, Z.eqb_refl.
Qed.

Lemma assoc_t_set_other : forall x y v (t : tenv), y <> x -> assoc y (t_set x v t) = assoc y t.
Proof.
  intros x y v t H. apply Z.eqb_neq in H. unfold t_set, has. destruct (assoc x t) eqn:E.
  - now rewrite assoc_set_assoc, H.
  - now rewrite assoc_app_new, H.
Qed.

Lemma t_cur_set_same : forall x v t, t_cur (t_set x v t) x = v.
Proof. intros x v t. unfold t_cur. rewrite assoc_t_set_same. now destruct v. Qed.

Lemma t_cur_set_other : forall x y v t, y <> x -> t_cur (t_set x v t) y = t_cur t y.
Proof. intros x y v t H. unfold t_cur. now rewrite assoc_t_set_other. Qed.

Lemma t_cur_untrack : forall xs t y, t_cur (t_untrack xs t) y = if mem y xs then None else t_cur t y.
Proof.
  unfold t_untrack, mem. induction xs as [|x xr IH]; intros t y; simpl; auto.
  rewrite IH. destruct (Z.eqb y x) eqn:E; simpl.
  - apply Z.eqb_eq in E. subst y. rewrite t_cur_set_same. now destruct (existsb (Z.eqb x) xr).
  - apply Z.eqb_neq in E. now rewrite t_cur_set_other.
Qed.

Lemma t_remove_first_len : forall v l c, t_remove_first v l = Some c -> S (length c) = length l.
Proof.
  induction l as [|a r IH]; intros c H; simpl in *; try discriminate.
  destruct (match a with Some w => Z.eqb w v | None => false end).
  - now injection H as <-.
  - destruct (t_remove_first v r) as [r'|]; try discriminate. injection H as <-. simpl. now rewrite (IH r').
Qed.

Lemma remove_first_len : forall v l c, remove_first v l = Some c -> S (length c) = length l.
Proof.
  induction l as [|a r IH]; intros c H; simpl in *; try discriminate.
  destruct (Z.eqb a v).
  - now injection H as <-.
  - destruct (remove_first v r) as [r'|]; try discriminate. injection H as <-. simpl. now rewrite (IH r').
Qed.

(* ------------------------------------------------------------------ copies vs CPython's lists *)
Definition LenAgree (t : tenv) (pst : pstate) : Prop :=
  forall x cur o, t_cur t x = Some cur -> assoc x (p_glob pst) = Some o -> length cur = length (p_obj pst o).

Lemma refs_inj : forall (e : env nat) x y o, NoDup (refs e) -> assoc x e = Some o -> assoc y e = Some o -> x = y.
Proof.
  intros e x y o ND Hx Hy. destruct (Z.eq_dec x y) as [|N]; auto. exfalso.
  apply (footprint_distinct nat (fun o => [o]) e x y o o o ND Hx Hy N); now left.
Qed.

(* an in-place update of x's object *)
Lemma agree_upd : forall t t' pst x o cs',
  NoDup (refs (p_glob pst)) -> o < length (p_objs pst) -> assoc x (p_glob pst) = Some o ->
  LenAgree t pst ->
  (forall y, y <> x -> t_cur t' y = t_cur t y) ->
  (forall cur', t_cur t' x = Some cur' -> length cur' = length cs') ->
  LenAgree t' (mkp (upd (p_objs pst) o cs') (p_glob pst) (p_loc pst)).
Proof.
  intros t t' pst x o cs' ND Ho Hx HA Hoth Hsame y cur o' Hc Ha. simpl in Ha. unfold p_obj. simpl.
  destruct (Z.eq_dec y x) as [->|N].
  - rewrite Hx in Ha. injection Ha as <-. rewrite nth_upd_same by auto. now apply Hsame.
  - assert (o <> o') by (intros ->; apply N; eapply refs_inj; eauto).
    rewrite nth_upd_other by auto. rewrite Hoth in Hc by auto. exact (HA y cur o' Hc Ha).
Qed.

Lemma agree_weaken : forall t t' pst,
  LenAgree t pst -> (forall y cur, t_cur t' y = Some cur -> t_cur t y = Some cur) -> LenAgree t' pst.
Proof. intros t t' pst HA W y cur o Hc Ha. eapply HA; eauto. Qed.

(* ------------------------------------------------------------------ shapes of the emitted statements *)
Lemma lstmt_len_indep : forall il d s n n' c, needs_len s = false -> t_lstmt il d s n c = t_lstmt il d s n' c.
Proof. intros il d s n n' c H. destruct s; try discriminate; reflexivity. Qed.

Lemma use_ok_lstmt : forall il d dd s n c, is_decl s = false ->
  use_ok dd (t_lstmt il d s n c) = use_ok dd (t_lstmt true d s 0 0).
Proof.
  intros il d dd s n c H. destruct s as [| |x a|x a| | | | | |]; try discriminate; try reflexivity;
    destruct a; reflexivity.
Qed.

Lemma t_decl_use : forall il d s, is_decl s = false -> use_ok d (t_lstmt true d s 0 0) = true -> t_decl il d s = d.
Proof.
  intros il d s H U. destruct s as [| |x a|x a| | | |x|xs ys|]; try discriminate; try reflexivity;
    try (destruct a; reflexivity).
  - (* x = x *)
    unfold t_decl, t_lstmt in *. cbn [to_s elab1 fst snd use_ok] in *.
    apply andb_true_iff in U. destruct U as [_ U]. now rewrite U.
Qed.

(* ------------------------------------------------------------------ CPython's effect on the lengths *)
Lemma p_same_glob : forall pst x o, p_loc pst = [] -> assoc x (p_glob pst) = Some o ->
  p_bind true pst (p_objs pst) x o = pst /\ p_bind false pst (p_objs pst) x o = pst.
Proof.
  intros [ob gl lo] x o Hl Hx. simpl in *. subst lo. unfold p_bind, has. simpl. rewrite Hx.
  rewrite set_assoc_same by auto. auto.
Qed.

Section Step.
Variables (in_loop : bool) (st : fstate) (pst : pstate) (fe : tstmt -> tenv) (t : tenv) (c : Z).
Hypothesis HI : Inv st.
Hypothesis HS : Sim pst st.
Hypothesis HA : LenAgree t pst.

Let decl := map fst (f_glob st).

(* the folded (or run-time) length is CPython's *)
Lemma f_len_py : forall y n, p_len pst y = POk n -> f_len t st y = n.
Proof.
  intros y n P. unfold p_len in P. destruct (p_ref pst y) as [o|] eqn:R; simpl in P; try discriminate.
  injection P as <-. destruct (sim_var pst st y o HI HS R) as (Py & Ho & l & Fy & Hlk & Hr).
  unfold f_len. destruct (t_cur t y) as [cur|] eqn:E.
  - now rewrite (HA y cur o E Py).
  - unfold list_len. rewrite Hlk. now rewrite (rep_size _ _ _ Hr).
Qed.

(* ... also inside a function body: a parameter is never folded, a global is folded against its copy at the first call *)
Lemma s_len_py : forall s n, needs_len s = true ->
  match s with
  | TCallLen _ p y _ _ => Z.eqb y p || (mem y decl && fold_agrees (fe s) t y) = true
  | _ => True
  end ->
  p_len pst (len_name s) = POk n -> s_len fe t st s = n.
Proof.
  intros s n N G P. destruct s; try discriminate; cbn [s_len len_name] in *.
  - now apply f_len_py.
  - unfold fn_env. rewrite t_cur_untrack. unfold mem. cbn [existsb]. rewrite orb_false_r.
    unfold p_len in P. destruct (Z.eqb y p) eqn:E.
    + destruct (p_ref pst x) as [o|] eqn:R; simpl in P; try discriminate. injection P as <-.
      destruct (sim_var pst st x o HI HS R) as (Py & Ho & l & Fy & Hlk & Hr).
      unfold list_len. rewrite Hlk. now rewrite (rep_size _ _ _ Hr).
    + destruct (p_ref pst y) as [o|] eqn:R; simpl in P; try discriminate. injection P as <-.
      destruct (sim_var pst st y o HI HS R) as (Py & Ho & l & Fy & Hlk & Hr).
      simpl in G. apply andb_true_iff in G. destruct G as [_ G]. unfold fold_agrees in G.
      destruct (t_cur (fe (TCallLen x p y sg k)) y) as [c0|] eqn:E0.
      * destruct (t_cur t y) as [c1|] eqn:E1; try discriminate. apply Nat.eqb_eq in G.
        rewrite <- G. now rewrite (HA y c1 o E1 Py).
      * unfold list_len. rewrite Hlk. now rewrite (rep_size _ _ _ Hr).
Qed.

Lemma step_use : forall s g l pst' out,
  t_use_ok fe decl t (s, g) = true ->
  tp_stmt in_loop c decl pst s = POk l -> p_exec in_loop pst l = POk (pst', out) ->
  exists st', f_exec in_loop st (t_lstmt in_loop decl s (s_len fe t st s) c) = Safe (st', out) /\
    Inv st' /\ Sim pst' st' /\ map fst (f_glob st') = decl /\ LenAgree (track1 (is_gated g) t s) pst'.
Proof.
  intros s g l pst' out U T P. unfold t_use_ok in U.
  repeat (apply andb_true_iff in U; let U' := fresh "U" in destruct U as [U U']).
  rename U into Ud. rename U2 into Uu. rename U1 into Ur. rename U0 into Um.
  apply negb_true_iff in Ud.
  (* the statement the firmware executes is the one CPython executes *)
  assert (El : t_lstmt in_loop decl s (s_len fe t st s) c = l).
  { unfold tp_stmt in T. destruct (needs_len s) eqn:N.
    - destruct (p_len pst (len_name s)) as [n|] eqn:Pn; simpl in T; try discriminate. injection T as <-.
      rewrite (s_len_py s n N); auto. destruct s; auto.
    - injection T as <-. now apply lstmt_len_indep. }
  rewrite El.
  assert (Ul : use_ok decl l = true) by (rewrite <- El, use_ok_lstmt; auto).
  destruct (exec_sim_full in_loop st pst l pst' out HI HS Ul P) as (st' & F & HI' & HS' & Nm).
  exists st'. split; [exact F|]. split; [exact HI'|]. split; [exact HS'|]. split; [exact Nm|].
  pose proof HS as (Pl & Pn & Pnm & Pb & Hv).
  (* the copies follow the lengths *)
  (* a statement under an `if`: what it writes has no copy afterwards *)
  assert (UNT : forall x o cs', p_ref pst x = POk o ->
                pst' = mkp (upd (p_objs pst) o cs') (p_glob pst) (p_loc pst) ->
                LenAgree (t_untrack [x] t) pst').
  { intros x o cs' R ->. destruct (sim_var pst st x o HI HS R) as (Px & Ho & _).
    eapply agree_upd; eauto.
    - intros y Hy. rewrite t_cur_untrack. unfold mem. cbn [existsb]. rewrite orb_false_r.
      destruct (Z.eqb y x) eqn:E; [apply Z.eqb_eq in E; congruence|reflexivity].
    - intros cur' Hc. rewrite t_cur_untrack in Hc. unfold mem in Hc. cbn [existsb] in Hc. rewrite Z.eqb_refl in Hc. discriminate. }
  assert (APP : forall x a w o, s = TAppend x a -> p_ref pst x = POk o ->
                pst' = mkp (upd (p_objs pst) o (p_obj pst o ++ [w])) (p_glob pst) (p_loc pst) ->
                LenAgree (track1 (is_gated g) t s) pst').
  { intros x a w o -> R E'. unfold track1. destruct (is_gated g); [cbn [swrites]; eapply UNT; eauto|]. subst pst'.
    destruct (sim_var pst st x o HI HS R) as (Px & Ho & _).
    destruct (t_cur t x) as [cur|] eqn:E; [destruct (targ_val t a) as [v|]|].
    - eapply agree_upd; eauto.
      + intros y Hy. now apply t_cur_set_other.
      + intros cur' Hc. rewrite t_cur_set_same in Hc. injection Hc as <-.
        rewrite !app_length. simpl. now rewrite (HA x cur o E Px).
    - eapply agree_upd; eauto.
      + intros y Hy. now apply t_cur_set_other.
      + intros cur' Hc. rewrite t_cur_set_same in Hc. discriminate.
    - eapply agree_upd; eauto. intros cur' Hc. congruence. }
  assert (REM : forall x a cs o, s = TRemove x a -> p_ref pst x = POk o -> S (length cs) = length (p_obj pst o) ->
                pst' = mkp (upd (p_objs pst) o cs) (p_glob pst) (p_loc pst) ->
                LenAgree (track1 (is_gated g) t s) pst').
  { intros x a cs o -> R Hlen E'. unfold track1. destruct (is_gated g) eqn:Eg; [cbn [swrites]; eapply UNT; eauto|]. subst pst'.
    cbn [orb] in Ur.
    destruct (sim_var pst st x o HI HS R) as (Px & Ho & _).
    destruct (t_cur t x) as [cur|] eqn:E; [destruct (targ_val t a) as [v|] eqn:Ev|].
    - eapply agree_upd; eauto.
      + intros y Hy. now apply t_cur_set_other.
      + intros cur' Hc. rewrite t_cur_set_same in Hc. injection Hc as <-.
        pose proof (HA x cur o E Px) as Hl. cbn [remove_hits] in Ur. rewrite E, Ev in Ur.
        unfold t_remove. destruct (t_remove_first v cur) as [c1|] eqn:E1; try discriminate.
        apply t_remove_first_len in E1. lia.
    - eapply agree_upd; eauto.
      + intros y Hy. now apply t_cur_set_other.
      + intros cur' Hc. rewrite t_cur_set_same in Hc. discriminate.
    - eapply agree_upd; eauto. intros cur' Hc. congruence. }
  destruct s as [x items|x cm|x a|x a|x i|x i|x y sg k|x|xs ys|x p y sg k]; try discriminate.
  - (* append *)
    destruct a as [v|off|y i]; unfold t_lstmt in El; cbn [to_s elab1 fst] in El; subst l; cbn [p_exec] in P;
      destruct (p_ref pst x) as [o|] eqn:R; simpl in P; try discriminate.
    + injection P as <- <-. eapply APP; eauto.
    + injection P as <- <-. eapply APP; eauto.
    + destruct (p_ref pst y) as [oy|] eqn:Ry; simpl in P; try discriminate.
      destruct (py_index (length (p_obj pst oy)) i); try discriminate. injection P as <- <-. eapply APP; eauto.
  - (* remove *)
    destruct a as [v|off|y i]; unfold t_lstmt in El; cbn [to_s elab1 fst] in El; subst l; cbn [p_exec] in P;
      destruct (p_ref pst x) as [o|] eqn:R; simpl in P; try discriminate.
    + destruct (remove_first v (p_obj pst o)) as [cs|] eqn:E1; try discriminate. injection P as <- <-.
      eapply REM; eauto. now apply remove_first_len in E1.
    + destruct (remove_first (c + off)%Z (p_obj pst o)) as [cs|] eqn:E1; try discriminate. injection P as <- <-.
      eapply REM; eauto. now apply remove_first_len in E1.
    + destruct (p_ref pst y) as [oy|] eqn:Ry; simpl in P; try discriminate.
      destruct (py_index (length (p_obj pst oy)) i) as [k|]; try discriminate.
      destruct (remove_first (nth k (p_obj pst oy) 0%Z) (p_obj pst o)) as [cs|] eqn:E1; try discriminate.
      injection P as <- <-. eapply REM; eauto. now apply remove_first_len in E1.
  - (* x[i] *)
    unfold t_lstmt in El; cbn [to_s elab1 fst] in El; subst l; cbn [p_exec] in P.
    destruct (p_ref pst x) as [o|]; simpl in P; try discriminate.
    destruct (py_index (length (p_obj pst o)) i); try discriminate. injection P as <- <-. unfold track1; destruct (is_gated g); exact HA.
  - (* f(x, i) *)
    unfold t_lstmt in El; cbn [to_s elab1 fst] in El; subst l; cbn [p_exec] in P.
    destruct (p_ref pst x) as [o|]; simpl in P; try discriminate.
    destruct (py_index (length (p_obj pst o)) i); try discriminate. injection P as <- <-. unfold track1; destruct (is_gated g); exact HA.
  - (* x[len(y) + k] *)
    unfold t_lstmt in El; cbn [to_s elab1 fst] in El; subst l; cbn [p_exec] in P.
    destruct (p_ref pst x) as [o|]; simpl in P; try discriminate.
    match type of P with context [py_index ?a ?b] => destruct (py_index a b) end; try discriminate.
    injection P as <- <-. unfold track1; destruct (is_gated g); exact HA.
  - (* x = x *)
    unfold t_lstmt in El; cbn [to_s elab1 fst] in El; subst l; cbn [p_exec] in P.
    destruct (p_ref pst x) as [o|] eqn:R; simpl in P; try discriminate.
    destruct (sim_var pst st x o HI HS R) as (Px & _).
    destruct (p_same_glob pst x o Pl Px) as [B1 B2].
    assert (pst' = pst) by (destruct in_loop; [rewrite B1 in P | rewrite B2 in P]; now injection P as <- _).
    subst pst'. unfold track1. destruct (is_gated g).
    + cbn [swrites]. eapply agree_weaken; eauto. intros y cur Hc. rewrite t_cur_untrack in Hc.
      destruct (mem y [x]); [discriminate|exact Hc].
    + eapply agree_weaken; eauto. intros y cur Hc. destruct (Z.eq_dec y x) as [->|N].
      * rewrite t_cur_set_same in Hc. discriminate.
      * now rewrite t_cur_set_other in Hc.
  - (* h(x) *)
    unfold t_lstmt in El; cbn [to_s elab1 fst] in El; subst l; cbn [p_exec] in P.
    destruct (p_ref pst x) as [o|]; simpl in P; try discriminate.
    match type of P with context [py_index ?a ?b] => destruct (py_index a b) end; try discriminate.
    injection P as <- <-. unfold track1; destruct (is_gated g); exact HA.
Qed.

End Step.

(* ------------------------------------------------------------------ blocks *)
Lemma body_sim : forall (fe : tstmt -> tenv) c ss t st pst pst' out,
  Inv st -> Sim pst st -> LenAgree t pst ->
  t_body_ok fe t (map fst (f_glob st)) ss = true ->
  tp_block true c (map fst (f_glob st)) pst ss = POk (pst', out) ->
  exists st', tf_block true c fe t (map fst (f_glob st)) st ss = Safe (st', out) /\ Inv st' /\ Sim pst' st' /\
    map fst (f_glob st') = map fst (f_glob st) /\
    LenAgree (fst (track true t (map fst (f_glob st)) ss)) pst'.
Proof.
  intros fe c. induction ss as [|[s g] r IH]; intros t st pst pst' out HI HS HA G P.
  - simpl in *. injection P as <- <-. exists st. auto.
  - cbn [t_body_ok] in G. apply andb_true_iff in G. destruct G as [U G].
    assert (Ed : t_decl true (map fst (f_glob st)) s = map fst (f_glob st)).
    { unfold t_use_ok in U. repeat (apply andb_true_iff in U; destruct U as [U ?]).
      apply negb_true_iff in U. now apply t_decl_use. }
    cbn [tp_block tf_block track] in *. rewrite Ed in *.
    destruct (taken g c) eqn:Tk.
    + destruct (tp_stmt true c (map fst (f_glob st)) pst s) as [l|] eqn:T; cbn [pbind] in P; try discriminate.
      destruct (p_exec true pst l) as [[p1 o1]|] eqn:E1; cbn [pbind] in P; try discriminate.
      destruct (tp_block true c (map fst (f_glob st)) p1 r) as [[p2 o2]|] eqn:E2; cbn [pbind] in P; try discriminate.
      injection P as <- <-.
      destruct (step_use true st pst fe t c HI HS HA s g l p1 o1 U T E1) as (st1 & F1 & HI1 & HS1 & N1 & HA1).
      rewrite <- N1 in G, E2.
      destruct (IH _ st1 p1 p2 o2 HI1 HS1 HA1 G E2) as (st2 & F2 & HI2 & HS2 & N2 & HA2).
      rewrite N1 in F2, HA2, N2.
      exists st2. rewrite F1. cbn [rbind]. rewrite F2. cbn [rbind]. auto.
    + (* not taken (a gated statement): CPython's lists do not move, the names the statement writes lose their copy *)
      assert (HA1 : LenAgree (track1 (is_gated g) t s) pst).
      { destruct g; [|discriminate]. unfold track1. cbn [is_gated].
        eapply agree_weaken; eauto. intros y cur Hc. rewrite t_cur_untrack in Hc.
        destruct (mem y (swrites s)); [discriminate|exact Hc]. }
      eapply IH; eauto.
Qed.

Lemma f_block_single : forall il st s st' out,
  f_block il st [s] = Safe (st', out) -> f_exec il st s = Safe (st', out).
Proof.
  intros il st s st' out H. cbn [f_block] in H. destruct (f_exec il st s) as [[st1 o1]|k]; simpl in H; try discriminate.
  rewrite app_nil_r in H. exact H.
Qed.

Lemma agree_new : forall t pst x cs v,
  p_loc pst = [] -> assoc x (p_glob pst) = None ->
  (forall y o, assoc y (p_glob pst) = Some o -> o < length (p_objs pst)) ->
  LenAgree t pst -> (forall cur, v = Some cur -> length cur = length cs) ->
  LenAgree (t_set x v t) (p_new false pst x cs).
Proof.
  intros t [ob gl lo] x cs v Pl Px Pb HA Hv. simpl in *. subst lo.
  unfold p_new, p_bind, has. simpl. rewrite Px.
  intros y cur o Hc Ha. simpl in Ha. rewrite assoc_app_new in Ha by auto. unfold p_obj. simpl.
  destruct (Z.eqb y x) eqn:E.
  - apply Z.eqb_eq in E. subst y. injection Ha as <-. rewrite t_cur_set_same in Hc.
    rewrite app_nth2, Nat.sub_diag by lia. simpl. now apply Hv.
  - apply Z.eqb_neq in E. rewrite t_cur_set_other in Hc by auto.
    rewrite app_nth1 by (eapply Pb; eauto). exact (HA y cur o Hc Ha).
Qed.

Lemma setup_sim_t : forall ss t st pst pst' out,
  Inv st -> Sim pst st -> LenAgree t pst ->
  t_setup_ok t (map fst (f_glob st)) (ungated ss) = true ->
  tp_block false 0 (map fst (f_glob st)) pst (ungated ss) = POk (pst', out) ->
  exists st', tf_block false 0 (fun _ => []) t (map fst (f_glob st)) st (ungated ss) = Safe (st', out) /\ Inv st' /\ Sim pst' st' /\
    snd (track false t (map fst (f_glob st)) (ungated ss)) = map fst (f_glob st') /\
    LenAgree (fst (track false t (map fst (f_glob st)) (ungated ss))) pst'.
Proof.
  induction ss as [|s r IH]; intros t st pst pst' out HI HS HA G P.
  - simpl in *. injection P as <- <-. exists st. auto.
  - cbn [ungated map] in *. fold (ungated r) in *.
    cbn [t_setup_ok tp_block tf_block track taken is_gated negb] in *.
    apply andb_true_iff in G. destruct G as [U G].
    destruct (tp_stmt false 0 (map fst (f_glob st)) pst s) as [l|] eqn:T; cbn [pbind] in P; try discriminate.
    destruct (p_exec false pst l) as [[p1 o1]|] eqn:E1; cbn [pbind] in P; try discriminate.
    destruct (tp_block false 0 (t_decl false (map fst (f_glob st)) s) p1 (ungated r)) as [[p2 o2]|] eqn:E2;
      cbn [pbind] in P; try discriminate.
    injection P as <- <-.
    pose proof HS as (Pl & Pn & Pnm & Pb & Hv).
    assert (STEP : exists st1, f_exec false st (t_lstmt false (map fst (f_glob st)) s (s_len (fun _ => []) t st s) 0) = Safe (st1, o1) /\
                     Inv st1 /\ Sim p1 st1 /\ map fst (f_glob st1) = t_decl false (map fst (f_glob st)) s /\
                     LenAgree (track1 false t s) p1).
    { assert (DECL : forall x cs v, l = t_lstmt false (map fst (f_glob st)) s (s_len (fun _ => []) t st s) 0 ->
                setup_ok (map fst (f_glob st)) [l] = Some (map fst (f_glob st) ++ [x]) ->
                mem x (map fst (f_glob st)) = false ->
                t_decl false (map fst (f_glob st)) s = map fst (f_glob st) ++ [x] ->
                p1 = p_new false pst x cs -> track1 false t s = t_set x v t ->
                (forall cur, v = Some cur -> length cur = length cs) ->
                exists st1, f_exec false st l = Safe (st1, o1) /\ Inv st1 /\ Sim p1 st1 /\
                  map fst (f_glob st1) = t_decl false (map fst (f_glob st)) s /\ LenAgree (track1 false t s) p1).
      { intros x cs v _ SO Hx Hd -> -> Hv'.
        assert (PB : p_block false pst [l] = POk (p_new false pst x cs, o1)).
        { cbn [p_block]. rewrite E1. cbn [pbind]. now rewrite app_nil_r. }
        destruct (setup_sim [l] st pst _ _ _ HI HS SO PB) as (st1 & F & HI1 & HS1 & N1).
        exists st1. split; [now apply f_block_single|]. split; [exact HI1|]. split; [exact HS1|].
        split; [now rewrite Hd|].
        apply agree_new; auto.
        - unfold mem in Hx. rewrite <- Pnm in Hx. now apply assoc_none_names in Hx.
        - intros y o Hy. now destruct (Hv y o Hy). }
      destruct s as [x items|x cm|x a|x a|x i|x i|x y sg k|x|xs ys|x p y sg k].
      - (* x = [..] *)
        apply andb_true_iff in U. destruct U as [U _]. apply negb_true_iff in U.
        unfold tp_stmt in T. cbn [needs_len] in T. injection T as <-.
        unfold t_lstmt, t_decl in *. cbn [to_s elab1 fst snd] in *. unfold mem in U. rewrite U in *.
        cbn [fst snd] in *. cbn [p_exec] in E1. injection E1 as <- <-.
        eapply (DECL x items (Some (map Some items))); eauto.
        + cbn [setup_ok]. now rewrite U.
        + intros cur Hc. injection Hc as <-. apply map_length.
      - (* x = [.. for ..] *)
        apply andb_true_iff in U. destruct U as [U _]. apply negb_true_iff in U.
        unfold tp_stmt in T. cbn [needs_len] in T. injection T as <-.
        unfold t_lstmt, t_decl in *. cbn [to_s elab1 fst snd] in *. unfold mem in U. rewrite U in *.
        cbn [fst snd] in *. cbn [p_exec] in E1. destruct (c_step cm =? 0)%Z; try discriminate. injection E1 as <- <-.
        eapply (DECL x (py_range cm) None); eauto.
        + cbn [setup_ok]. now rewrite U.
        + intros cur Hc. discriminate.
      - apply andb_true_iff in U. destruct U as [U _]. apply andb_true_iff in U. destruct U as [U _].
        assert (Ed := U). unfold t_use_ok in Ed. repeat (apply andb_true_iff in Ed; destruct Ed as [Ed ?]).
        apply negb_true_iff in Ed. rewrite (t_decl_use false _ _ Ed) by auto.
        destruct (step_use false st pst (fun _ => []) t 0 HI HS HA _ None l p1 o1 U T E1) as (st1 & F1 & HI1 & HS1 & N1 & HA1).
        exists st1. auto.
      - apply andb_true_iff in U. destruct U as [U _]. apply andb_true_iff in U. destruct U as [U _].
        assert (Ed := U). unfold t_use_ok in Ed. repeat (apply andb_true_iff in Ed; destruct Ed as [Ed ?]).
        apply negb_true_iff in Ed. rewrite (t_decl_use false _ _ Ed) by auto.
        destruct (step_use false st pst (fun _ => []) t 0 HI HS HA _ None l p1 o1 U T E1) as (st1 & F1 & HI1 & HS1 & N1 & HA1).
        exists st1. auto.
      - apply andb_true_iff in U. destruct U as [U _]. apply andb_true_iff in U. destruct U as [U _].
        assert (Ed := U). unfold t_use_ok in Ed. repeat (apply andb_true_iff in Ed; destruct Ed as [Ed ?]).
        apply negb_true_iff in Ed. rewrite (t_decl_use false _ _ Ed) by auto.
        destruct (step_use false st pst (fun _ => []) t 0 HI HS HA _ None l p1 o1 U T E1) as (st1 & F1 & HI1 & HS1 & N1 & HA1).
        exists st1. auto.
      - apply andb_true_iff in U. destruct U as [U _]. apply andb_true_iff in U. destruct U as [U _].
        assert (Ed := U). unfold t_use_ok in Ed. repeat (apply andb_true_iff in Ed; destruct Ed as [Ed ?]).
        apply negb_true_iff in Ed. rewrite (t_decl_use false _ _ Ed) by auto.
        destruct (step_use false st pst (fun _ => []) t 0 HI HS HA _ None l p1 o1 U T E1) as (st1 & F1 & HI1 & HS1 & N1 & HA1).
        exists st1. auto.
      - apply andb_true_iff in U. destruct U as [U _]. apply andb_true_iff in U. destruct U as [U _].
        assert (Ed := U). unfold t_use_ok in Ed. repeat (apply andb_true_iff in Ed; destruct Ed as [Ed ?]).
        apply negb_true_iff in Ed. rewrite (t_decl_use false _ _ Ed) by auto.
        destruct (step_use false st pst (fun _ => []) t 0 HI HS HA _ None l p1 o1 U T E1) as (st1 & F1 & HI1 & HS1 & N1 & HA1).
        exists st1. auto.
      - apply andb_true_iff in U. destruct U as [U _]. apply andb_true_iff in U. destruct U as [U _].
        assert (Ed := U). unfold t_use_ok in Ed. repeat (apply andb_true_iff in Ed; destruct Ed as [Ed ?]).
        apply negb_true_iff in Ed. rewrite (t_decl_use false _ _ Ed) by auto.
        destruct (step_use false st pst (fun _ => []) t 0 HI HS HA _ None l p1 o1 U T E1) as (st1 & F1 & HI1 & HS1 & N1 & HA1).
        exists st1. auto.
      - apply andb_true_iff in U. destruct U as [U _]. apply andb_true_iff in U. destruct U as [U _].
        assert (Ed := U). unfold t_use_ok in Ed. repeat (apply andb_true_iff in Ed; destruct Ed as [Ed ?]).
        apply negb_true_iff in Ed. rewrite (t_decl_use false _ _ Ed) by auto.
        destruct (step_use false st pst (fun _ => []) t 0 HI HS HA _ None l p1 o1 U T E1) as (st1 & F1 & HI1 & HS1 & N1 & HA1).
        exists st1. auto.
      - (* a call in front of the `def`: excluded *)
        apply andb_true_iff in U. destruct U as [_ U]. discriminate. }
    destruct STEP as (st1 & F1 & HI1 & HS1 & N1 & HA1).
    rewrite <- N1 in G, E2.
    destruct (IH _ st1 p1 p2 o2 HI1 HS1 HA1 G E2) as (st2 & F2 & HI2 & HS2 & N2 & HA2).
    rewrite N1 in F2, HA2, N2.
    exists st2. rewrite F1. cbn [rbind]. rewrite F2. cbn [rbind]. auto.
Qed.

(* ------------------------------------------------------------------ passes *)
Lemma clear_loc : forall st, Inv st -> mkf (f_heap st) (f_glob st) [] = st.
Proof. intros [h g l] (Hl & _). simpl in *. now subst. Qed.

Lemma compat_agree : forall t0 t1 pst, t_compat t0 t1 = true -> LenAgree t1 pst -> LenAgree t0 pst.
Proof.
  intros t0 t1 pst C HA x cur o Hc Ha. unfold t_cur in Hc.
  destruct (assoc x t0) as [[c0|]|] eqn:E; try discriminate. injection Hc as ->.
  apply assoc_In in E. unfold t_compat in C. rewrite forallb_forall in C. specialize (C _ E). simpl in C.
  destruct (t_cur t1 x) as [c1|] eqn:E1; try discriminate. apply Nat.eqb_eq in C.
  rewrite <- C. eapply HA; eauto.
Qed.

Lemma passes_sim_t : forall rb t0 body cs st pst pst',
  Inv st -> Sim pst st -> LenAgree t0 pst ->
  t_body_ok (fn_first rb t0 body) t0 (map fst (f_glob st)) body = true ->
  t_compat t0 (fst (track true t0 (map fst (f_glob st)) body)) = true ->
  tp_passes (map fst (f_glob st)) body pst cs = POk pst' ->
  exists st', tf_passes rb t0 (map fst (f_glob st)) body st cs = Safe st' /\ Inv st' /\ Sim pst' st'.
Proof.
  intros rb t0 body. induction cs as [|c r IH]; intros st pst pst' HI HS HA G C P; simpl in *.
  - injection P as <-. exists st. auto.
  - destruct (tp_block true c (map fst (f_glob st)) pst body) as [[p1 o1]|] eqn:E; cbn [pbind] in P; try discriminate.
    simpl in P.
    destruct (body_sim (fn_first rb t0 body) c body t0 st pst p1 o1 HI HS HA G E) as (st1 & F & HI1 & HS1 & N1 & HA1).
    unfold tf_pass. rewrite F. cbn [rbind]. rewrite clear_loc by auto. simpl.
    pose proof (compat_agree _ _ _ C HA1) as HA0.
    rewrite <- N1 in *. eapply IH; eauto.
Qed.

Lemma agree_init : LenAgree [] p_init.
Proof. intros x cur o H. discriminate. Qed.

Theorem len_fold_sim : forall setup body cs pst,
  len_ok setup body = true -> run_py_t setup body cs = POk pst ->
  exists st, run_fw_t setup body cs = Safe st /\ Inv st /\ Sim pst st.
Proof.
  intros setup body cs pst G P. unfold len_ok, run_py_t, run_fw_t in *.
  destruct (track false [] [] (ungated setup)) as [t0 d0] eqn:Tr.
  apply andb_true_iff in G. destruct G as [G C]. apply andb_true_iff in G. destruct G as [G1 G2].
  destruct (tp_block false 0 [] p_init (ungated setup)) as [[p0 o0]|] eqn:E; cbn [pbind] in P; try discriminate.
  simpl in P.
  destruct (setup_sim_t setup [] f_init p_init p0 o0 Inv_init Sim_init agree_init G1 E) as (st0 & F & HI0 & HS0 & N0 & HA0).
  change (map fst (f_glob f_init)) with (@nil name) in *. rewrite Tr in *. simpl in N0, HA0. subst d0.
  rewrite F. cbn [rbind]. simpl. eapply passes_sim_t; eauto.
  (* the loop body is parsed with fewer copies than setup() ended with *)
  unfold loop_env. eapply agree_weaken; eauto. intros y cur Hc. rewrite t_cur_untrack in Hc.
  destruct (mem y (body_writes body)); [discriminate|exact Hc].
Qed.

(* CPython free of exceptions => the firmware with its folded len() is memory-safe, holds exactly the cells of the
   live lists, and its heap usage is CPython's live data *)
Theorem len_fold_safe : forall setup body cs pst,
  len_ok setup body = true -> run_py_t setup body cs = POk pst ->
  exists st, run_fw_t setup body cs = Safe st /\ wf_heap st /\ tight st /\ f_live_cells st = p_live pst.
Proof.
  intros setup body cs pst G P. destruct (len_fold_sim setup body cs pst G P) as (st & F & HI & HS).
  exists st. destruct (Inv_wf_tight st HI) as [W T]. split; [exact F|]. split; [exact W|]. split; [exact T|].
  symmetry. now apply sim_live.
Qed.

Theorem len_fold_no_leak : forall setup body cs c p1 p2,
  len_ok setup body = true ->
  run_py_t setup body cs = POk p1 -> run_py_t setup body (cs ++ [c]) = POk p2 -> p_live p1 = p_live p2 ->
  exists s1 s2, run_fw_t setup body cs = Safe s1 /\ run_fw_t setup body (cs ++ [c]) = Safe s2 /\
                f_live_cells s1 = f_live_cells s2.
Proof.
  intros setup body cs c p1 p2 G P1 P2 L.
  destruct (len_fold_safe _ _ _ _ G P1) as (s1 & F1 & _ & _ & C1).
  destruct (len_fold_safe _ _ _ _ G P2) as (s2 & F2 & _ & _ & C2).
  exists s1, s2. repeat split; auto. congruence.
Qed.

(* what the repair does in the parser model: an append / remove whose argument is not a parse-time constant takes the
   copy away (no placeholder, no pop(0)), and so does any write under an `if` *)
Theorem track_runtime_arg_untracks : forall t x a, targ_val t a = None ->
  t_cur (track1 false t (TAppend x a)) x = None /\ t_cur (track1 false t (TRemove x a)) x = None.
Proof.
  intros t x a H. cbn [track1]. rewrite H.
  destruct (t_cur t x) as [cur|] eqn:E; [rewrite t_cur_set_same; auto|auto].
Qed.

Theorem track_gated_untracks : forall t s x, In x (swrites s) -> t_cur (track1 true t s) x = None.
Proof.
  intros t s x H. unfold track1. rewrite t_cur_untrack.
  assert (M : mem x (swrites s) = true) by (apply existsb_exists; exists x; split; [exact H|apply Z.eqb_refl]).
  now rewrite M.
Qed.

(* the copies the body of `while True:` is parsed with: nothing the body writes *)
Theorem loop_env_untracks : forall t0 body x, In x (body_writes body) -> t_cur (loop_env t0 body) x = None.
Proof.
  intros t0 body x H. unfold loop_env. rewrite t_cur_untrack.
  assert (M : mem x (body_writes body) = true) by (apply existsb_exists; exists x; split; [exact H|apply Z.eqb_refl]).
  now rewrite M.
Qed.

(* ------------------------------------------------------------------ witnesses *)
Lemma len_ok_guard : len_ok len_ok_setup len_ok_body = true.
Proof. vm_compute. reflexivity. Qed.

Lemma len_ok_python : exists pst, run_py_t len_ok_setup len_ok_body [2; 0; 3; 1]%Z = POk pst /\ p_live pst = 6.
Proof. eexists. split; vm_compute; reflexivity. Qed.

(* the witness of the repaired finding: inside the guard now, and the firmware run on the old readings is safe and ends
   in a state that represents CPython's *)
Lemma stale_branch_repaired : len_ok stale_branch_setup stale_branch_body = true /\
  exists pst st, run_py_t stale_branch_setup stale_branch_body [0; 0; 0]%Z = POk pst /\ run_fw_t stale_branch_setup stale_branch_body [0; 0; 0]%Z = Safe st /\
                 f_live_cells st = p_live pst.
Proof. split; [vm_compute; reflexivity|]. eexists. eexists. split; [|split]; vm_compute; reflexivity. Qed.

(* the witness of the repaired finding: inside the guard now, and the firmware run on the old readings is safe and ends
   in a state that represents CPython's *)
Lemma stale_pass_repaired : len_ok stale_pass_setup stale_pass_body = true /\
  exists pst st, run_py_t stale_pass_setup stale_pass_body [0; 0; 0]%Z = POk pst /\ run_fw_t stale_pass_setup stale_pass_body [0; 0; 0]%Z = Safe st /\
                 f_live_cells st = p_live pst.
Proof. split; [vm_compute; reflexivity|]. eexists. eexists. split; [|split]; vm_compute; reflexivity. Qed.

(* the witness of the repaired finding: inside the guard now, and the firmware run on the old readings is safe and ends
   in a state that represents CPython's *)
Lemma stale_rebind_repaired :
  exists pst st, run_py_t stale_rebind_setup stale_rebind_body [1; 0]%Z = POk pst /\ run_fw_t stale_rebind_setup stale_rebind_body [1; 0]%Z = Safe st /\
                 f_live_cells st = p_live pst.
Proof. eexists. eexists. split; [|split]; vm_compute; reflexivity. Qed.

(* the witness of the repaired finding: inside the guard now, and the firmware run on the old readings is safe and ends
   in a state that represents CPython's *)
Lemma stale_def_repaired : len_ok stale_def_setup stale_def_body = true /\
  exists pst st, run_py_t stale_def_setup stale_def_body [2]%Z = POk pst /\ run_fw_t stale_def_setup stale_def_body [2]%Z = Safe st /\
                 f_live_cells st = p_live pst.
Proof. split; [vm_compute; reflexivity|]. eexists. eexists. split; [|split]; vm_compute; reflexivity. Qed.

Lemma shadow_ok_guard : len_ok shadow_ok_setup shadow_ok_body = true.
Proof. vm_compute. reflexivity. Qed.

Lemma shadow_ok_python : exists pst, run_py_t shadow_ok_setup shadow_ok_body [0; 0]%Z = POk pst /\ p_live pst = 4.
Proof. eexists. split; vm_compute; reflexivity. Qed.

(* inside a function body len() of a parameter is NEVER folded: whatever the copies where the function is parsed, whatever the parameter
   is called (the name of a global list included), the firmware evaluates __redu_len of the argument *)
Theorem param_len_unfolded : forall fe t st x p sg k,
  s_len fe t st (TCallLen x p p sg k) = Z.of_nat (list_len (f_lookup st x)).
Proof.
  intros. cbn [s_len]. unfold fn_env. rewrite t_cur_untrack. unfold mem. cbn [existsb].
  now rewrite Z.eqb_refl.
Qed.

Theorem fn_env_param : forall td params p, In p params -> t_cur (fn_env td params) p = None.
Proof.
  intros td params p H. unfold fn_env. rewrite t_cur_untrack. unfold mem.
  now rewrite (proj2 (existsb_eqb_In p params) H).
Qed.

(* ... and a global that no parameter shadows keeps the copy it has where the function is parsed *)
Theorem fn_env_global : forall td params y, ~ In y params -> t_cur (fn_env td params) y = t_cur td y.
Proof.
  intros td params y H. unfold fn_env. rewrite t_cur_untrack. unfold mem.
  destruct (existsb (Z.eqb y) params) eqn:E; auto. apply existsb_eqb_In in E. contradiction.
Qed.

(* the witness of the repaired finding: inside the guard now, and the firmware run on the old readings is safe and ends
   in a state that represents CPython's *)
Lemma stale_pop_repaired : len_ok stale_pop_setup stale_pop_body = true /\
  exists pst st, run_py_t stale_pop_setup stale_pop_body [3]%Z = POk pst /\ run_fw_t stale_pop_setup stale_pop_body [3]%Z = Safe st /\
                 f_live_cells st = p_live pst.
Proof. split; [vm_compute; reflexivity|]. eexists. eexists. split; [|split]; vm_compute; reflexivity. Qed.
