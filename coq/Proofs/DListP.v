(* C09 - proofs about the list runtime model (Device/DList.v). Part 1: heap algebra,
   the loops, and the exact specification of each helper on a well-formed list. *)
From Coq Require Import ZArith List Bool Arith Lia.
From RV Require Import Device.DList Device.DListProg.
Import ListNotations.

(* ------------------------------------------------------------------ lists *)
Lemma upd_length : forall A (l : list A) n a, length (upd l n a) = length l.
Proof. induction l as [|x r IH]; intros [|n] a; simpl; auto. Qed.

Lemma nth_error_upd_same : forall A (l : list A) n a, n < length l -> nth_error (upd l n a) n = Some a.
Proof. induction l as [|x r IH]; intros [|n] a Hn; simpl in *; try lia; auto. apply IH. lia. Qed.

Lemma nth_error_upd_other : forall A (l : list A) n m a, n <> m -> nth_error (upd l n a) m = nth_error l m.
Proof.
  induction l as [|x r IH]; intros [|n] [|m] a Hnm; simpl; auto; try congruence.
Qed.

Lemma upd_app_last : forall A (l : list A) x y, upd (l ++ [x]) (length l) y = l ++ [y].
Proof. induction l as [|a r IH]; intros; simpl; auto. now rewrite IH. Qed.

Lemma upd_app_l : forall A (l r : list A) n a, n < length l -> upd (l ++ r) n a = upd l n a ++ r.
Proof. induction l as [|x l IH]; intros r [|n] a Hn; simpl in *; try lia; auto. rewrite IH; auto. lia. Qed.

Lemma upd_middle : forall A (pre post : list A) x y, upd (pre ++ x :: post) (length pre) y = pre ++ y :: post.
Proof. induction pre as [|a r IH]; intros; simpl; auto. now rewrite IH. Qed.

Lemma nth_middle' : forall (pre post : list Z) x d, nth (length pre) (pre ++ x :: post) d = x.
Proof. induction pre as [|a r IH]; intros; simpl; auto. Qed.

Lemma skipn_nth_cons : forall (l : list Z) i d, i < length l -> skipn i l = nth i l d :: skipn (S i) l.
Proof.
  induction l as [|a r IH]; intros [|i] d Hi; simpl in *; try lia; auto.
  apply IH. lia.
Qed.

Lemma nth_error_nth_Z : forall (l : list Z) n d, n < length l -> nth_error l n = Some (nth n l d).
Proof. induction l as [|a r IH]; intros [|n] d Hn; simpl in *; try lia; auto. apply IH. lia. Qed.

(* ------------------------------------------------------------------ heap access on h ++ [fresh] *)
Lemma nth_error_app_old : forall (h : heap) x b, b < length h -> nth_error (h ++ [x]) b = nth_error h b.
Proof. intros. now apply nth_error_app1. Qed.

Lemma nth_error_app_new : forall (h : heap) x, nth_error (h ++ [x]) (length h) = Some x.
Proof. intros. rewrite nth_error_app2 by lia. now rewrite Nat.sub_diag. Qed.

Lemma hread_old : forall h x s cs i, nth_error h s = Some (mkblock cs true) -> i < length cs ->
  hread (h ++ [x]) (Some s) i = Safe (nth i cs 0%Z).
Proof.
  intros h x s cs i Hs Hi. unfold hread.
  assert (s < length h) by (apply nth_error_Some; congruence).
  rewrite nth_error_app_old, Hs by auto. simpl.
  destruct (i <? length cs) eqn:E; auto. apply Nat.ltb_ge in E. lia.
Qed.

Lemma hwrite_new : forall (h : heap) ds i v, i < length ds ->
  hwrite (h ++ [mkblock ds true]) (Some (length h)) i v = Safe (h ++ [mkblock (upd ds i v) true]).
Proof.
  intros h ds i v Hi. unfold hwrite. rewrite nth_error_app_new. simpl.
  destruct (i <? length ds) eqn:E. 2:{ apply Nat.ltb_ge in E. lia. }
  now rewrite upd_app_last.
Qed.

(* ------------------------------------------------------------------ loops into a fresh block *)
Lemma copy_loop_fresh : forall n h s cs pre mid post,
  nth_error h s = Some (mkblock cs true) ->
  length mid = n -> length pre + n <= length cs ->
  copy_loop (h ++ [mkblock (pre ++ mid ++ post) true]) (Some s) (Some (length h)) (length pre) n
  = Safe (h ++ [mkblock (pre ++ firstn n (skipn (length pre) cs) ++ post) true]).
Proof.
  induction n as [|n IH]; intros h s cs pre mid post Hs Hm Hle.
  - destruct mid; simpl in *; try lia. reflexivity.
  - destruct mid as [|m mid]; simpl in Hm; try lia.
    cbn [copy_loop]. rewrite (hread_old _ _ _ cs) by (auto; lia). cbn [rbind].
    rewrite hwrite_new by (rewrite !app_length; simpl; lia). cbn [rbind].
    assert (Hu : upd (pre ++ (m :: mid) ++ post) (length pre) (nth (length pre) cs 0%Z)
                 = (pre ++ [nth (length pre) cs 0%Z]) ++ mid ++ post).
    { simpl. rewrite upd_middle. now rewrite <- app_assoc. }
    rewrite Hu.
    replace (S (length pre)) with (length (pre ++ [nth (length pre) cs 0%Z])) by (rewrite app_length; simpl; lia).
    rewrite (IH h s cs) by (auto; try lia; rewrite app_length; simpl; lia).
    rewrite app_length. simpl length. replace (length pre + 1) with (S (length pre)) by lia.
    rewrite (skipn_nth_cons cs (length pre) 0%Z) by lia. rewrite firstn_cons.
    now rewrite <- app_assoc.
Qed.

(* the cells selected by the remove loop *)
Fixpoint sel (cs : list Z) (ri i n : nat) : list Z :=
  match n with
  | O => []
  | S n' => if i =? ri then sel cs ri (S i) n' else nth i cs 0%Z :: sel cs ri (S i) n'
  end.

Lemma copy_skip_fresh : forall n h s cs ri i pre mid post,
  nth_error h s = Some (mkblock cs true) ->
  length mid = length (sel cs ri i n) -> i + n <= length cs ->
  copy_skip (h ++ [mkblock (pre ++ mid ++ post) true]) (Some s) (Some (length h)) ri i (length pre) n
  = Safe (h ++ [mkblock (pre ++ sel cs ri i n ++ post) true]).
Proof.
  induction n as [|n IH]; intros h s cs ri i pre mid post Hs Hm Hle.
  - simpl in *. destruct mid; simpl in *; try lia. reflexivity.
  - cbn [copy_skip sel] in *. destruct (i =? ri) eqn:E; rewrite ?E in Hm.
    + apply IH; auto. lia.
    + destruct mid as [|m mid]; simpl in Hm; try lia.
      rewrite (hread_old _ _ _ cs) by (auto; lia). cbn [rbind].
      rewrite hwrite_new by (rewrite !app_length; simpl; lia). cbn [rbind].
      assert (Hu : upd (pre ++ (m :: mid) ++ post) (length pre) (nth i cs 0%Z)
                   = (pre ++ [nth i cs 0%Z]) ++ mid ++ post).
      { simpl. rewrite upd_middle. now rewrite <- app_assoc. }
      rewrite Hu.
      replace (S (length pre)) with (length (pre ++ [nth i cs 0%Z])) by (rewrite app_length; simpl; lia).
      rewrite (IH h s cs) by (auto; lia).
      simpl. now rewrite <- app_assoc.
Qed.

Lemma fill_loop_fresh : forall vals (h : heap) pre mid post,
  length mid = length vals ->
  fill_loop (h ++ [mkblock (pre ++ mid ++ post) true]) (Some (length h)) (length pre) vals
  = Safe (h ++ [mkblock (pre ++ vals ++ post) true]).
Proof.
  induction vals as [|v r IH]; intros h pre mid post Hm.
  - destruct mid; simpl in *; try lia. reflexivity.
  - destruct mid as [|m mid]; simpl in Hm; try lia.
    cbn [fill_loop]. rewrite hwrite_new by (rewrite !app_length; simpl; lia). cbn [rbind].
    assert (Hu : upd (pre ++ (m :: mid) ++ post) (length pre) v = (pre ++ [v]) ++ mid ++ post).
    { simpl. rewrite upd_middle. now rewrite <- app_assoc. }
    rewrite Hu.
    replace (S (length pre)) with (length (pre ++ [v])) by (rewrite app_length; simpl; lia).
    rewrite IH by lia. simpl. now rewrite <- app_assoc.
Qed.

Lemma fill_fresh_all : forall vals (h : heap),
  fill_loop (h ++ [mkblock (repeat 0%Z (length vals)) true]) (Some (length h)) 0 vals
  = Safe (h ++ [mkblock vals true]).
Proof.
  intros vals h.
  pose proof (fill_loop_fresh vals h [] (repeat 0%Z (length vals)) [] (repeat_length _ _)) as F.
  simpl in F. rewrite !app_nil_r in F. exact F.
Qed.

(* the search loop of remove *)
Fixpoint find_idx (v : Z) (l : list Z) : nat :=
  match l with
  | [] => 0
  | c :: r => if Z.eqb c v then 0 else S (find_idx v r)
  end.

Lemma find_loop_spec : forall n h s cs v i,
  nth_error h s = Some (mkblock cs true) -> i + n <= length cs ->
  find_loop h (Some s) v i n = Safe (i + find_idx v (firstn n (skipn i cs))).
Proof.
  induction n as [|n IH]; intros h s cs v i Hs Hle.
  - simpl. apply f_equal; lia.
  - cbn [find_loop]. unfold hread at 1. rewrite Hs. cbn [live cells].
    destruct (i <? length cs) eqn:E. 2:{ apply Nat.ltb_ge in E. lia. }
    cbn [rbind]. rewrite (skipn_nth_cons cs i 0%Z) by lia. rewrite firstn_cons. cbn [find_idx].
    destruct (Z.eqb (nth i cs 0%Z) v) eqn:Ev.
    + apply f_equal; lia.
    + rewrite (IH h s cs) by (auto; lia). apply f_equal; lia.
Qed.

Lemma find_idx_le : forall v l, find_idx v l <= length l.
Proof. induction l as [|c r IH]; simpl; auto. destruct (Z.eqb c v); lia. Qed.

Fixpoint remove_at (ri : nat) (l : list Z) : list Z :=
  match l, ri with
  | [], _ => []
  | _ :: r, O => r
  | c :: r, S k => c :: remove_at k r
  end.

Lemma find_idx_remove_first : forall v l,
  (find_idx v l = length l -> remove_first v l = None) /\
  (find_idx v l < length l -> remove_first v l = Some (remove_at (find_idx v l) l)).
Proof.
  induction l as [|c r [IH1 IH2]]; simpl.
  - split; auto. lia.
  - destruct (Z.eqb c v) eqn:E; split; intros H; try lia; auto.
    + rewrite IH1 by lia. reflexivity.
    + rewrite IH2 by lia. reflexivity.
Qed.

Lemma sel_shift : forall n c cs ri i, sel (c :: cs) (S ri) (S i) n = sel cs ri i n.
Proof. induction n as [|n IH]; intros; simpl; auto. rewrite IH. reflexivity. Qed.

Lemma sel_noskip : forall n cs ri i, ri < i -> i + n <= length cs -> sel cs ri i n = firstn n (skipn i cs).
Proof.
  induction n as [|n IH]; intros cs ri i Hlt Hle; [reflexivity|]. cbn [sel].
  destruct (i =? ri) eqn:E. { apply Nat.eqb_eq in E. lia. }
  rewrite (skipn_nth_cons cs i 0%Z) by lia. rewrite firstn_cons. f_equal. apply IH; lia.
Qed.

Lemma sel_remove_at : forall cs ri, ri < length cs -> sel cs ri 0 (length cs) = remove_at ri cs.
Proof.
  induction cs as [|c r IH]; intros ri Hri; simpl in *; try lia.
  destruct ri as [|k]; simpl.
  - rewrite sel_noskip by (simpl; lia). simpl. apply firstn_all.
  - f_equal. rewrite sel_shift. apply IH. lia.
Qed.

Lemma remove_at_length : forall l ri, ri < length l -> length (remove_at ri l) = length l - 1.
Proof.
  induction l as [|c r IH]; intros [|k] H; simpl in *; try lia.
  rewrite IH by lia. lia.
Qed.

Lemma copy_skip_all : forall h s cs ri,
  nth_error h s = Some (mkblock cs true) -> ri < length cs ->
  copy_skip (h ++ [mkblock (repeat 0%Z (length cs - 1)) true]) (Some s) (Some (length h)) ri 0 0 (length cs)
  = Safe (h ++ [mkblock (remove_at ri cs) true]).
Proof.
  intros h s cs ri Hs Hri.
  pose proof (copy_skip_fresh (length cs) h s cs ri 0 [] (repeat 0%Z (length cs - 1)) [] Hs) as F.
  rewrite sel_remove_at in F by auto. simpl in F. rewrite !app_nil_r in F.
  apply F; [|lia]. rewrite repeat_length. symmetry. now apply remove_at_length.
Qed.

(* ------------------------------------------------------------------ representation *)
(* [rep h l cs]: the list value l denotes the contents cs in heap h *)
Definition rep (h : heap) (l : lval) (cs : list Z) : Prop :=
  match data l with
  | None => size l = 0 /\ cs = []
  | Some b => nth_error h b = Some (mkblock cs true) /\ size l = length cs /\ cs <> []
  end.

Definition wf_lval (h : heap) (l : lval) : Prop := exists cs, rep h l cs.

(* delete[] of a well-formed list's buffer *)
Definition kill (h : heap) (p : ptr) : heap :=
  match p with
  | None => h
  | Some b => match nth_error h b with
              | Some blk => upd h b (mkblock (cells blk) false)
              | None => h
              end
  end.

Lemma kill_length : forall h p, length (kill h p) = length h.
Proof. intros h [b|]; simpl; auto. destruct (nth_error h b); auto. apply upd_length. Qed.

Lemma nth_error_kill_other : forall h p b, p <> Some b -> nth_error (kill h p) b = nth_error h b.
Proof.
  intros h [c|] b Hne; simpl; auto. destruct (nth_error h c) eqn:E; auto.
  apply nth_error_upd_other. congruence.
Qed.

Lemma hfree_rep : forall h l cs, rep h l cs -> hfree h (data l) = Safe (kill h (data l)).
Proof.
  intros h [d sz] cs H. unfold rep in H. simpl in *. destruct d as [b|]; simpl; auto.
  destruct H as (Hb & _). now rewrite Hb.
Qed.

Lemma hfree_app_rep : forall h x l cs, rep h l cs -> hfree (h ++ [x]) (data l) = Safe (kill (h ++ [x]) (data l)).
Proof.
  intros h x [d sz] cs H. unfold rep in H. simpl in *. destruct d as [b|]; simpl; auto.
  destruct H as (Hb & _).
  assert (b < length h) by (apply nth_error_Some; congruence).
  rewrite nth_error_app_old, Hb by auto. reflexivity.
Qed.

(* ------------------------------------------------------------------ helper specifications *)
Lemma make_spec : forall h items,
  list_make h items =
  Safe (match items with
        | [] => (h, null_list)
        | _ => (h ++ [mkblock items true], mklist (Some (length h)) (length items))
        end).
Proof.
  intros h [|a r]; auto.
  cbv beta iota delta [list_make alloc]. rewrite fill_fresh_all. reflexivity.
Qed.

Lemma make_rep : forall h items h' l, list_make h items = Safe (h', l) -> rep h' l items.
Proof.
  intros h items h' l H. rewrite make_spec in H. destruct items as [|a r]; inversion H; subst; clear H.
  - unfold rep; simpl; auto.
  - unfold rep; simpl. rewrite nth_error_app_new. repeat split; auto. discriminate.
Qed.

Lemma py_index_spec : forall n i k, py_index n i = Some k ->
  (- Z.of_nat n <= i < Z.of_nat n)%Z /\ k < n /\
  Z.of_nat k = (if (i <? 0)%Z then i + Z.of_nat n else i)%Z.
Proof.
  unfold py_index. intros n i k H.
  destruct ((- Z.of_nat n <=? i)%Z && (i <? Z.of_nat n)%Z) eqn:E; try discriminate.
  apply andb_true_iff in E. destruct E as [E1 E2]. apply Z.leb_le in E1. apply Z.ltb_lt in E2.
  inversion H; subst; clear H. destruct (i <? 0)%Z eqn:E3.
  - apply Z.ltb_lt in E3. repeat split; try lia.
  - apply Z.ltb_ge in E3. repeat split; try lia.
Qed.

Lemma py_index_none : forall n i, py_index n i = None -> ~ (- Z.of_nat n <= i < Z.of_nat n)%Z.
Proof.
  unfold py_index. intros n i H.
  destruct ((- Z.of_nat n <=? i)%Z && (i <? Z.of_nat n)%Z) eqn:E; try discriminate.
  apply andb_false_iff in E. destruct E as [E|E]; [apply Z.leb_gt in E | apply Z.ltb_ge in E]; lia.
Qed.

Lemma get_spec : forall h l cs i, rep h l cs ->
  list_get h l i = match py_index (length cs) i with
                   | Some k => Safe (nth k cs 0%Z)
                   | None => Unsafe OutOfBounds
                   end.
Proof.
  intros h [d sz] cs i H. unfold rep in H. simpl in H. unfold list_get, list_index. simpl size. simpl data.
  destruct (py_index (length cs) i) as [k|] eqn:P.
  - apply py_index_spec in P. destruct P as (Hr & Hk & Hz).
    destruct d as [b|].
    + destruct H as (Hb & Hs & _). subst sz. rewrite <- Hz.
      destruct (Z.of_nat k <? 0)%Z eqn:E. { apply Z.ltb_lt in E. lia. }
      rewrite Nat2Z.id. unfold hread. rewrite Hb. simpl.
      destruct (k <? length cs) eqn:E2; auto. apply Nat.ltb_ge in E2. lia.
    + destruct H as (_ & ->). simpl in Hk. lia.
  - apply py_index_none in P.
    destruct d as [b|].
    + destruct H as (Hb & Hs & _). subst sz.
      destruct (i <? 0)%Z eqn:E1.
      * apply Z.ltb_lt in E1. destruct (i + Z.of_nat (length cs) <? 0)%Z eqn:E2; auto.
        apply Z.ltb_ge in E2. lia.
      * apply Z.ltb_ge in E1. destruct (i <? 0)%Z eqn:E2. { apply Z.ltb_lt in E2. lia. }
        unfold hread. rewrite Hb. simpl.
        destruct (Z.to_nat i <? length cs) eqn:E3; auto. apply Nat.ltb_lt in E3. lia.
    + destruct H as (-> & ->). simpl. rewrite Z.add_0_r.
      destruct (i <? 0)%Z eqn:E1; rewrite ?E1; auto.
Qed.

Lemma set_spec : forall h l cs i v, rep h l cs ->
  list_set h l i v = match py_index (length cs) i, data l with
                     | Some k, Some b => Safe (upd h b (mkblock (upd cs k v) true))
                     | _, _ => Unsafe OutOfBounds
                     end.
Proof.
  intros h [d sz] cs i v H. unfold rep in H. simpl in H. unfold list_set, list_index. simpl size. simpl data.
  destruct (py_index (length cs) i) as [k|] eqn:P.
  - apply py_index_spec in P. destruct P as (Hr & Hk & Hz).
    destruct d as [b|].
    + destruct H as (Hb & Hs & _). subst sz. rewrite <- Hz.
      destruct (Z.of_nat k <? 0)%Z eqn:E. { apply Z.ltb_lt in E. lia. }
      rewrite Nat2Z.id. unfold hwrite. rewrite Hb. simpl.
      destruct (k <? length cs) eqn:E2; auto. apply Nat.ltb_ge in E2. lia.
    + destruct H as (_ & ->). simpl in Hk. lia.
  - apply py_index_none in P.
    destruct d as [b|].
    + destruct H as (Hb & Hs & _). subst sz.
      destruct (i <? 0)%Z eqn:E1.
      * apply Z.ltb_lt in E1. destruct (i + Z.of_nat (length cs) <? 0)%Z eqn:E2; auto.
        apply Z.ltb_ge in E2. lia.
      * apply Z.ltb_ge in E1. destruct (i <? 0)%Z eqn:E2. { apply Z.ltb_lt in E2. lia. }
        unfold hwrite. rewrite Hb. simpl.
        destruct (Z.to_nat i <? length cs) eqn:E3; auto. apply Nat.ltb_lt in E3. lia.
    + destruct H as (-> & ->). simpl. rewrite Z.add_0_r.
      destruct (i <? 0)%Z eqn:E1; rewrite ?E1; auto.
Qed.

(* copying a whole well-formed list into a fresh block of at least its size *)
Lemma copy_all_fresh : forall h l cs post,
  rep h l cs ->
  copy_loop (h ++ [mkblock (repeat 0%Z (length cs) ++ post) true]) (data l) (Some (length h)) 0 (size l)
  = Safe (h ++ [mkblock (cs ++ post) true]).
Proof.
  intros h [d sz] cs post H. unfold rep in H. simpl in *. destruct d as [b|].
  - destruct H as (Hb & -> & _).
    pose proof (copy_loop_fresh (length cs) h b cs [] (repeat 0%Z (length cs)) post Hb) as F.
    simpl in F. rewrite F by (try apply repeat_length; lia). now rewrite firstn_all.
  - destruct H as (-> & ->). reflexivity.
Qed.

Lemma append_spec : forall h l cs v, rep h l cs ->
  list_append h l v =
  Safe (kill (h ++ [mkblock (cs ++ [v]) true]) (data l), mklist (Some (length h)) (S (size l))).
Proof.
  intros h l cs v H. unfold list_append, alloc.
  assert (Hsz : size l = length cs).
  { unfold rep in H. destruct (data l); [destruct H as (_ & ? & _) | destruct H as (? & ->)]; auto. }
  rewrite Hsz at 1. rewrite repeat_app. simpl repeat.
  rewrite (copy_all_fresh h l cs [0%Z] H). cbn [rbind].
  rewrite Hsz.
  replace (hwrite (h ++ [mkblock (cs ++ [0%Z]) true]) (Some (length h)) (length cs) v)
    with (Safe (h ++ [mkblock (cs ++ [v]) true])).
  2:{ rewrite hwrite_new by (rewrite app_length; simpl; lia). now rewrite upd_middle. }
  cbn [rbind]. rewrite (hfree_app_rep h _ l cs H). cbn [rbind]. reflexivity.
Qed.

Lemma remove_spec : forall h l cs v, rep h l cs ->
  list_remove h l v =
  Safe (match remove_first v cs with
        | None => (h, l)
        | Some [] => (kill h (data l), mklist None 0)
        | Some cs' => (kill (h ++ [mkblock cs' true]) (data l), mklist (Some (length h)) (length cs'))
        end).
Proof.
  intros h l cs v H. unfold list_remove.
  pose proof H as H0. unfold rep in H. destruct l as [d sz]. simpl in *.
  destruct d as [b|].
  2:{ destruct H as (-> & ->). reflexivity. }
  destruct H as (Hb & -> & Hne).
  destruct (length cs =? 0) eqn:E0. { apply Nat.eqb_eq in E0. destruct cs; simpl in *; congruence. }
  rewrite (find_loop_spec (length cs) h b cs v 0 Hb) by lia. cbn [rbind]. simpl skipn. rewrite firstn_all. simpl.
  destruct (find_idx_remove_first v cs) as [F1 F2]. pose proof (find_idx_le v cs) as Fle.
  destruct (find_idx v cs =? length cs) eqn:E1.
  - apply Nat.eqb_eq in E1. rewrite F1; auto.
  - apply Nat.eqb_neq in E1. assert (Hlt : find_idx v cs < length cs) by lia.
    rewrite F2 by auto. set (ri := find_idx v cs) in *.
    pose proof (remove_at_length cs ri Hlt) as RL.
    destruct (1 <? length cs) eqn:E2.
    + apply Nat.ltb_lt in E2. unfold alloc.
      rewrite (copy_skip_all h b cs ri Hb Hlt). cbn [rbind].
      pose proof (fun x => hfree_app_rep h x _ cs H0) as HF. simpl in HF. rewrite HF. cbn [rbind].
      destruct (remove_at ri cs) eqn:ER. { simpl in RL. lia. }
      rewrite <- RL. reflexivity.
    + apply Nat.ltb_ge in E2. cbn [rbind]. pose proof (hfree_rep h _ cs H0) as HF. simpl in HF. rewrite HF. cbn [rbind].
      destruct (remove_at ri cs) eqn:ER. 2:{ simpl in RL. lia. }
      replace (length cs - 1) with 0 by lia. reflexivity.
Qed.

Lemma from_range_spec : forall h start stop step f,
  list_from_range h start stop step f =
  Safe (let vals := if (step =? 0)%Z then [] else map f (range_vals start step (range_count start stop step)) in
        match vals with
        | [] => (h, mklist None 0)
        | _ => (h ++ [mkblock vals true], mklist (Some (length h)) (length vals))
        end).
Proof.
  intros. unfold list_from_range. destruct (step =? 0)%Z; auto.
  set (count := range_count start stop step).
  assert (L : forall n st, length (range_vals st step n) = n) by (induction n; simpl; auto).
  destruct count as [|n] eqn:EC.
  - reflexivity.
  - simpl Nat.ltb. cbv iota. unfold alloc.
    set (vals := map f (range_vals start step (S n))).
    assert (Hl : length vals = S n) by (unfold vals; now rewrite map_length, L).
    change (0 <? S n) with true. cbv iota. rewrite <- Hl at 1. rewrite fill_fresh_all. cbn [rbind].
    destruct vals eqn:EV; simpl in Hl; try lia. reflexivity.
Qed.

Lemma from_range_rep : forall h start stop step f h' l,
  list_from_range h start stop step f = Safe (h', l) ->
  rep h' l (if (step =? 0)%Z then [] else map f (range_vals start step (range_count start stop step))).
Proof.
  intros h start stop step f h' l H. rewrite from_range_spec in H. cbv zeta in H.
  destruct (if (step =? 0)%Z then [] else map f (range_vals start step (range_count start stop step))) as [|a r];
    inversion H; subst; clear H; unfold rep; simpl; auto.
  rewrite nth_error_app_new. repeat split; auto. discriminate.
Qed.

(* ================================================================== Part 2: updates of one owner *)
Definition optl (l : lval) : list nat := match data l with Some b => [b] | None => [] end.

Lemma rep_size : forall h l cs, rep h l cs -> size l = length cs.
Proof.
  intros h l cs H. unfold rep in H. destruct (data l); [destruct H as (_ & ? & _) | destruct H as (? & ->)]; auto.
Qed.

Lemma rep_bound : forall h l cs b, rep h l cs -> data l = Some b -> b < length h.
Proof.
  intros h l cs b H E. unfold rep in H. rewrite E in H. destruct H as (Hb & _).
  apply nth_error_Some. congruence.
Qed.

Lemma rep_fun : forall h l cs cs', rep h l cs -> rep h l cs' -> cs = cs'.
Proof.
  intros h l cs cs' H H'. unfold rep in *. destruct (data l).
  - destruct H as (A & _), H' as (B & _). congruence.
  - destruct H as (_ & ->), H' as (_ & ->). reflexivity.
Qed.

Lemma rep_frame : forall h h' l cs, rep h l cs ->
  (forall b, data l = Some b -> nth_error h' b = nth_error h b) -> rep h' l cs.
Proof. intros h h' l cs H F. unfold rep in *. destruct (data l) as [b|]; auto. rewrite F; auto. Qed.

Lemma live_blocks_app : forall h c, live_blocks (h ++ [mkblock c true]) = live_blocks h + 1.
Proof. intros. unfold live_blocks. rewrite filter_app, app_length. reflexivity. Qed.

Lemma live_cells_app : forall h c, live_cells (h ++ [mkblock c true]) = live_cells h + length c.
Proof. induction h as [|b r IH]; intros; simpl; [lia|]. rewrite IH. lia. Qed.

Lemma live_blocks_upd : forall h b cs lv cs',
  nth_error h b = Some (mkblock cs lv) ->
  live_blocks (upd h b (mkblock cs' false)) + (if lv then 1 else 0) = live_blocks h /\
  live_blocks (upd h b (mkblock cs' true)) + (if lv then 1 else 0) = live_blocks h + 1.
Proof.
  unfold live_blocks. induction h as [|x r IH]; intros [|b] cs lv cs' H; simpl in *; try discriminate.
  - inversion H; subst. simpl. destruct lv; simpl; lia.
  - destruct (IH b cs lv cs' H) as [A B]. destruct (live x); simpl; lia.
Qed.

Lemma live_cells_upd : forall h b cs lv cs',
  nth_error h b = Some (mkblock cs lv) ->
  live_cells (upd h b (mkblock cs' false)) + (if lv then length cs else 0) = live_cells h /\
  live_cells (upd h b (mkblock cs' true)) + (if lv then length cs else 0) = live_cells h + length cs'.
Proof.
  induction h as [|x r IH]; intros [|b] cs lv cs' H; simpl in *; try discriminate.
  - inversion H; subst. simpl. destruct lv; simpl; lia.
  - destruct (IH b cs lv cs' H) as [A B]. lia.
Qed.

Lemma kill_app : forall h x l cs, rep h l cs -> kill (h ++ [x]) (data l) = kill h (data l) ++ [x].
Proof.
  intros h x l cs H. destruct (data l) as [b|] eqn:E; simpl; auto.
  pose proof (rep_bound h l cs b H E) as Hb.
  rewrite nth_error_app_old by auto. unfold rep in H. rewrite E in H. destruct H as (Hn & _). rewrite Hn.
  now apply upd_app_l.
Qed.

Lemma kill_counts : forall h l cs, rep h l cs ->
  live_blocks (kill h (data l)) + length (optl l) = live_blocks h /\
  live_cells (kill h (data l)) + size l = live_cells h.
Proof.
  intros h l cs H. pose proof (rep_size h l cs H) as Hs. unfold optl. unfold rep in H.
  destruct (data l) as [b|]; simpl.
  - destruct H as (Hn & _ & _). rewrite Hn. simpl.
    destruct (live_blocks_upd h b cs true cs Hn) as [A _].
    destruct (live_cells_upd h b cs true cs Hn) as [B _]. simpl in *. lia.
  - destruct H as (-> & _). lia.
Qed.

(* copy assignment: the new buffer is filled before the old one is released - any well-formed source, also one that
   shares dest's buffer (the third hypothesis of the old helper is no longer needed; kept for its callers) *)
Lemma assign_spec_any : forall h d s cd cs,
  rep h d cd -> rep h s cs ->
  list_assign h d s false =
  Safe (match cs with
        | [] => (kill h (data d), mklist None 0)
        | _ => (kill h (data d) ++ [mkblock cs true], mklist (Some (length h)) (length cs))
        end).
Proof.
  intros h d s cd cs Hd Hs. unfold list_assign.
  assert (Hsz : size s = length cs) by (eapply rep_size; eauto).
  rewrite Hsz. destruct cs as [|c r].
  - simpl. rewrite (hfree_rep h d cd Hd). reflexivity.
  - simpl Nat.eqb. cbv iota. unfold alloc.
    pose proof (copy_all_fresh h s (c :: r) [] Hs) as C.
    rewrite !app_nil_r in C. rewrite Hsz in C. rewrite C. cbn [rbind].
    rewrite (hfree_app_rep h _ d cd Hd). cbn [rbind]. rewrite (kill_app h _ d cd Hd). reflexivity.
Qed.

Lemma assign_spec : forall h d s cd cs,
  rep h d cd -> rep h s cs -> (data d = None \/ data d <> data s) ->
  list_assign h d s false =
  Safe (match cs with
        | [] => (kill h (data d), mklist None 0)
        | _ => (kill h (data d) ++ [mkblock cs true], mklist (Some (length h)) (length cs))
        end).
Proof. intros h d s cd cs Hd Hs _. now apply (assign_spec_any h d s cd cs). Qed.

(* the copy constructor *)
Lemma copy_spec : forall h s cs, rep h s cs ->
  list_copy h s =
  Safe (match cs with
        | [] => (h, mklist None 0)
        | _ => (h ++ [mkblock cs true], mklist (Some (length h)) (length cs))
        end).
Proof.
  intros h s cs Hs. unfold list_copy.
  assert (Hsz : size s = length cs) by (eapply rep_size; eauto).
  rewrite Hsz. destruct cs as [|c r].
  - reflexivity.
  - simpl Nat.eqb. cbv iota. unfold alloc.
    pose proof (copy_all_fresh h s (c :: r) [] Hs) as C.
    rewrite !app_nil_r in C. rewrite Hsz in C. rewrite C. reflexivity.
Qed.

(* what a helper does to the one list it is applied to: the new heap h', the new value l'
   (contents cs'), every other block untouched, the heap accounting exact *)
Record upd_ok (h : heap) (l : lval) (h' : heap) (l' : lval) (cs' : list Z) : Prop := {
  uo_frame : forall b, b < length h -> data l <> Some b -> nth_error h' b = nth_error h b;
  uo_rep : rep h' l' cs';
  uo_ptr : data l' = data l \/ data l' = None \/ data l' = Some (length h);
  uo_len : length h <= length h';
  uo_blocks : live_blocks h' + length (optl l) = live_blocks h + length (optl l');
  uo_cells : live_cells h' + size l = live_cells h + size l' }.

Lemma upd_ok_refl : forall h l cs, rep h l cs -> upd_ok h l h l cs.
Proof. intros. constructor; auto. Qed.

(* free the old buffer, install a fresh block with contents cs' <> [] *)
Lemma replace_ok : forall h l cs cs', rep h l cs -> cs' <> [] ->
  upd_ok h l (kill h (data l) ++ [mkblock cs' true]) (mklist (Some (length h)) (length cs')) cs'.
Proof.
  intros h l cs cs' H Hne. destruct (kill_counts h l cs H) as [KB KC].
  constructor; simpl.
  - intros b Hb Hd. rewrite nth_error_app_old by (rewrite kill_length; auto).
    apply nth_error_kill_other. auto.
  - unfold rep. simpl. rewrite <- (kill_length h (data l)). rewrite nth_error_app_new. auto.
  - auto.
  - rewrite app_length, kill_length. lia.
  - rewrite live_blocks_app. unfold optl in *. simpl. lia.
  - rewrite live_cells_app. lia.
Qed.

(* free the old buffer, become the null list *)
Lemma clear_ok : forall h l cs, rep h l cs -> upd_ok h l (kill h (data l)) (mklist None 0) [].
Proof.
  intros h l cs H. destruct (kill_counts h l cs H) as [KB KC].
  constructor; simpl; auto.
  - intros b Hb Hd. apply nth_error_kill_other. auto.
  - unfold rep. simpl. auto.
  - rewrite kill_length. lia.
  - unfold optl in *. simpl. lia.
  - lia.
Qed.

Lemma append_ok : forall h l cs v, rep h l cs ->
  exists h' l', list_append h l v = Safe (h', l') /\ upd_ok h l h' l' (cs ++ [v]).
Proof.
  intros h l cs v H. rewrite (append_spec h l cs v H). rewrite (kill_app h _ l cs H).
  do 2 eexists. split; [reflexivity|].
  replace (S (size l)) with (length (cs ++ [v])) by (rewrite app_length, (rep_size h l cs H); simpl; lia).
  apply (replace_ok h l cs); auto. destruct cs; discriminate.
Qed.

Lemma remove_ok : forall h l cs v, rep h l cs ->
  exists h' l', list_remove h l v = Safe (h', l') /\
    upd_ok h l h' l' (match remove_first v cs with Some cs' => cs' | None => cs end).
Proof.
  intros h l cs v H. rewrite (remove_spec h l cs v H).
  destruct (remove_first v cs) as [[|c r]|].
  - do 2 eexists. split; [reflexivity|]. apply (clear_ok h l cs H).
  - rewrite (kill_app h _ l cs H). do 2 eexists. split; [reflexivity|].
    apply (replace_ok h l cs); auto. discriminate.
  - do 2 eexists. split; [reflexivity|]. now apply upd_ok_refl.
Qed.

Lemma set_ok : forall h l cs i v k, rep h l cs -> py_index (length cs) i = Some k ->
  exists h', list_set h l i v = Safe h' /\ upd_ok h l h' l (upd cs k v).
Proof.
  intros h l cs i v k H P. rewrite (set_spec h l cs i v H), P.
  apply py_index_spec in P. destruct P as (_ & Hk & _).
  pose proof (rep_size h l cs H) as Hs.
  pose proof H as H0. unfold rep in H. destruct (data l) as [b|] eqn:E.
  2:{ destruct H as (_ & ->). simpl in Hk. lia. }
  destruct H as (Hn & _ & Hne).
  assert (Hb : b < length h) by (apply nth_error_Some; congruence).
  eexists. split; [reflexivity|].
  destruct (live_blocks_upd h b cs true (upd cs k v) Hn) as [_ A].
  destruct (live_cells_upd h b cs true (upd cs k v) Hn) as [_ B]. rewrite upd_length in B.
  constructor; auto.
  - intros b' Hb' Hd. apply nth_error_upd_other. congruence.
  - unfold rep. rewrite E. rewrite nth_error_upd_same by auto. rewrite upd_length.
    repeat split; auto. intro Z0. apply (f_equal (@length Z)) in Z0. rewrite upd_length in Z0.
    destruct cs; simpl in *; congruence.
  - rewrite upd_length. lia.
  - simpl in A. lia.
  - simpl in B. lia.
Qed.

(* a list value that owns a fresh block (or nothing) *)
Definition fresh_ok (h h' : heap) (l' : lval) (cs : list Z) : Prop :=
  (cs = [] /\ h' = h /\ l' = mklist None 0) \/
  (cs <> [] /\ h' = h ++ [mkblock cs true] /\ l' = mklist (Some (length h)) (length cs)).

Lemma make_ok : forall h items, exists h' l', list_make h items = Safe (h', l') /\ fresh_ok h h' l' items.
Proof.
  intros h items. rewrite make_spec. destruct items as [|a r]; do 2 eexists; (split; [reflexivity|]).
  - left. auto.
  - right. repeat split; auto. discriminate.
Qed.

Definition comp_vals (c : comp) : list Z := if (c_step c =? 0)%Z then [] else py_range c.

Lemma comp_ok : forall h c, exists h' l', comp_list h c = Safe (h', l') /\ fresh_ok h h' l' (comp_vals c).
Proof.
  intros h c. unfold comp_list. rewrite from_range_spec. cbv zeta. unfold comp_vals, py_range.
  destruct (if (c_step c =? 0)%Z then [] else _) as [|a r] eqn:E; do 2 eexists; (split; [reflexivity|]).
  - left. auto.
  - right. repeat split; auto. discriminate.
Qed.

Lemma copy_ok : forall h s cs, rep h s cs -> exists h' l', list_copy h s = Safe (h', l') /\ fresh_ok h h' l' cs.
Proof.
  intros h s cs Hs. rewrite (copy_spec h s cs Hs). destruct cs as [|a r]; do 2 eexists; (split; [reflexivity|]).
  - left. auto.
  - right. repeat split; auto. discriminate.
Qed.

Lemma fresh_rep : forall h h' l' cs, fresh_ok h h' l' cs -> rep h' l' cs.
Proof.
  intros h h' l' cs [(-> & -> & ->)|(Hne & -> & ->)]; unfold rep; simpl; auto.
  rewrite nth_error_app_new. auto.
Qed.

(* ================================================================== Part 3: reference arguments *)
(* reading `value` = __redu_list_get(s, i) after the allocation of the new block sees the same cell *)
Lemma arg_ref_frame : forall h s cs2 i x, rep h s cs2 ->
  arg_read (h ++ [x]) (ARef s i) = arg_read h (ARef s i).
Proof.
  intros h s cs2 i x Hs. simpl.
  assert (Hs' : rep (h ++ [x]) s cs2).
  { eapply rep_frame; eauto. intros b Eb. apply nth_error_app_old. eapply rep_bound; eauto. }
  now rewrite (get_spec _ s cs2 i Hs'), (get_spec _ s cs2 i Hs).
Qed.

Lemma append_a_spec : forall h l cs a, rep h l cs ->
  (forall x, arg_read (h ++ [x]) a = arg_read h a) ->
  list_append_a h l a = (do _ <- arg_bind a; do v <- arg_read h a; list_append h l v).
Proof.
  intros h l cs a H Fr. unfold list_append_a. destruct (arg_bind a) as [[]|k0]; cbn [rbind]; [|reflexivity].
  unfold list_append, alloc.
  assert (Hsz : size l = length cs) by (eapply rep_size; eauto).
  pose proof (copy_all_fresh h l cs [0%Z] H) as C.
  replace (repeat 0%Z (size l + 1)) with (repeat 0%Z (length cs) ++ [0%Z]) by (rewrite Hsz, repeat_app; reflexivity).
  rewrite C. cbn [rbind]. rewrite Fr.
  destruct (arg_read h a) as [v|k]; cbn [rbind]; reflexivity.
Qed.

(* x.append(y[i]) - y any well-formed list of the same heap, in particular x itself *)
Lemma append_ref_ok : forall h l cs s cs2 i, rep h l cs -> rep h s cs2 ->
  match py_index (length cs2) i with
  | Some k => exists h' l', list_append_a h l (ARef s i) = Safe (h', l') /\
                            upd_ok h l h' l' (cs ++ [nth k cs2 0%Z])
  | None => list_append_a h l (ARef s i) = Unsafe OutOfBounds
  end.
Proof.
  intros h l cs s cs2 i H Hs.
  rewrite (append_a_spec h l cs (ARef s i) H) by (intros x; eapply arg_ref_frame; eauto).
  assert (B : py_index (length cs2) i <> None -> arg_bind (ARef s i) = Safe tt).
  { intros N. simpl. unfold rep in Hs. destruct (data s); auto. destruct Hs as (_ & ->).
    exfalso. apply N. unfold py_index. simpl. destruct (0 <=? i)%Z eqn:E1; destruct (i <? 0)%Z eqn:E2; auto.
    apply Z.leb_le in E1. apply Z.ltb_lt in E2. lia. }
  simpl arg_read. rewrite (get_spec h s cs2 i Hs).
  destruct (py_index (length cs2) i) as [k|].
  - rewrite B by discriminate. cbn [rbind]. apply (append_ok h l cs _ H).
  - destruct (arg_bind (ARef s i)) as [[]|k0] eqn:EB; cbn [rbind]; [reflexivity|].
    simpl in EB. destruct (data s); congruence.
Qed.

Lemma remove_ref_ok : forall h l cs s cs2 i, rep h l cs -> rep h s cs2 ->
  (exists h' l' cs', list_remove_a h l (ARef s i) = Safe (h', l') /\ upd_ok h l h' l' cs' /\
     (forall k, py_index (length cs2) i = Some k ->
        cs' = match remove_first (nth k cs2 0%Z) cs with Some c => c | None => cs end))
  \/ (list_remove_a h l (ARef s i) = Unsafe OutOfBounds /\ py_index (length cs2) i = None).
Proof.
  intros h l cs s cs2 i H Hs. unfold list_remove_a.
  destruct (arg_bind (ARef s i)) as [[]|k0] eqn:EB; cbn [rbind].
  2:{ right. simpl in EB. unfold rep in Hs. destruct (data s); [discriminate|]. destruct Hs as (_ & ->).
      injection EB as <-. split; auto. unfold py_index. simpl.
      destruct (0 <=? i)%Z eqn:E1; destruct (i <? 0)%Z eqn:E2; auto.
      apply Z.leb_le in E1. apply Z.ltb_lt in E2. lia. }
  destruct (size l =? 0) eqn:E.
  - left. exists h, l, cs. split; [reflexivity|]. split; [now apply upd_ok_refl|].
    intros k _. apply Nat.eqb_eq in E. rewrite (rep_size h l cs H) in E.
    destruct cs; simpl in *; [reflexivity | discriminate].
  - simpl arg_read. rewrite (get_spec h s cs2 i Hs).
    destruct (py_index (length cs2) i) as [k|]; cbn [rbind]; [|right; auto].
    left. destruct (remove_ok h l cs (nth k cs2 0%Z) H) as (h' & l' & E1 & U).
    do 3 eexists. split; [exact E1|]. split; [exact U|].
    intros k0 Hk. now injection Hk as <-.
Qed.
