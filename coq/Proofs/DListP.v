(* C09 - proofs about the list runtime model (Device/DList.v). Part 1: heap algebra,
   the loops, and the exact specification of each helper on a well-formed list. *)
From Coq Require Import ZArith List Bool Arith Lia.
From RV Require Import Device.DList Device.DListProg.
Import ListNotations.

(* ------------------------------------------------------------------ lists *)
Lemma upd_length : forall A (l : list A) n a, length (upd l n a) = length l.
Proof. induction l as [|x r IH]; intros [|n] a; simpl; auto. Qed.

Lemma nth_error_upd_same : forall A (l : list A) n a, n < length l -> nth_error (upd l n a) n = Some a.
Proof. induction l as [|x r IH]; intros [|n] a Hn; simpl in *; try lia; auto. apply IH. lia. Qed.

Lemma nth_error_upd_other : forall A (l : list A) n m a, n <> m -> nth_error (upd l n a) m = nth_error l m.
Proof.
  induction l as [|x r IH]; intros [|n] [|m] a Hnm; simpl; auto; try congruence.
Qed.

Lemma upd_app_last : forall A (l : list A) x y, upd (l ++ [x]) (length l) y = l ++ [y].
Proof. induction l as [|a r IH]; intros; simpl; auto. now rewrite IH. Qed.

Lemma upd_app_l : forall A (l r : list A) n a, n < length l -> upd (l ++ r) n a = upd l n a ++ r.
Proof. induction l as [|x l IH]; intros r [|n] a Hn; simpl in *; try lia; auto. rewrite IH; auto. lia. Qed.

Lemma upd_middle : forall A (pre post : list A) x y, upd (pre ++ x :: post) (length pre) y = pre ++ y :: post.
Proof. induction pre as [|a r IH]; intros; simpl; auto. now rewrite IH. Qed.

Lemma nth_middle' : forall (pre post : list Z) x d, nth (length pre) (pre ++ x :: post) d = x.
Proof. induction pre as [|a r IH]; intros; simpl; auto. Qed.

Lemma skipn_nth_cons : forall (l : list Z) i d, i < length l -> skipn i l = nth i l d :: skipn (S i) l.
Proof.
  induction l as [|a r IH]; intros [|i] d Hi; simpl in *; try lia; auto.
  apply IH. lia.
Qed.

Lemma nth_error_nth_Z : forall (l : list Z) n d, n < length l -> nth_error l n = Some (nth n l d).
Proof. induction l as [|a r IH]; intros [|n] d Hn; simpl in *; try lia; auto. apply IH. lia. Qed.

(* ------------------------------------------------------------------ heap access on h ++ [fresh] *)
Lemma nth_error_app_old : forall (h : heap) x b, b < length h -> nth_error (h ++ [x]) b = nth_error h b.
Proof. intros. now apply nth_error_app1. Qed.

Lemma nth_error_app_new : forall (h : heap) x, nth_error (h ++ [x]) (length h) = Some x.
Proof. intros. rewrite nth_error_app2 by lia. now rewrite Nat.sub_diag. Qed.

Lemma hread_old : forall h x s cs i, nth_error h s = Some (mkblock cs true) -> i < length cs ->
  hread (h ++ [x]) (Some s) i = Safe (nth i cs 0%Z).
Proof.
  intros h x s cs i Hs Hi. unfold hread.
  assert (s < length h) by (apply nth_error_Some; congruence).
  rewrite nth_error_app_old, Hs by auto. simpl.
  destruct (i <? length cs) eqn:E; auto. apply Nat.ltb_ge in E. lia.
Qed.

Lemma hwrite_new : forall (h : heap) ds i v, i < length ds ->
  hwrite (h ++ [mkblock ds true]) (Some (length h)) i v = Safe (h ++ [mkblock (upd ds i v) true]).
Proof.
  intros h ds i v Hi. unfold hwrite. rewrite nth_error_app_new. simpl.
  destruct (i <? length ds) eqn:E. 2:{ apply Nat.ltb_ge in E. lia. }
  now rewrite upd_app_last.
Qed.

(* ------------------------------------------------------------------ loops into a fresh block *)
Lemma copy_loop_fresh : forall n h s cs pre mid post,
  nth_error h s = Some (mkblock cs true) ->
  length mid = n -> length pre + n <= length cs ->
  copy_loop (h ++ [mkblock (pre ++ mid ++ post) true]) (Some s) (Some (length h)) (length pre) n
  = Safe (h ++ [mkblock (pre ++ firstn n (skipn (length pre) cs) ++ post) true]).
Proof.
  induction n as [|n IH]; intros h s cs pre mid post Hs Hm Hle.
  - destruct mid; simpl in *; try lia. reflexivity.
  - destruct mid as [|m mid]; simpl in Hm; try lia.
    cbn [copy_loop]. rewrite (hread_old _ _ _ cs) by (auto; lia). cbn [rbind].
    rewrite hwrite_new by (rewrite !app_length; simpl; lia). cbn [rbind].
    assert (Hu : upd (pre ++ (m :: mid) ++ post) (length pre) (nth (length pre) cs 0%Z)
                 = (pre ++ [nth (length pre) cs 0%Z]) ++ mid ++ post).
    { simpl. rewrite upd_middle. now rewrite <- app_assoc. }
    rewrite Hu.
    replace (S (length pre)) with (length (pre ++ [nth (length pre) cs 0%Z])) by (rewrite app_length; simpl; lia).
    rewrite (IH h s cs) by (auto; try lia; rewrite app_length; simpl; lia).
    rewrite app_length. simpl length. replace (length pre + 1) with (S (length pre)) by lia.
    rewrite (skipn_nth_cons cs (length pre) 0%Z) by lia. rewrite firstn_cons.
    now rewrite <- app_assoc.
Qed.

(* the cells selected by the remove loop *)
Fixpoint sel (cs : list Z) (ri i n : nat) : list Z :=
  match n with
  | O => []
  | S n' => if i =? ri then sel cs ri (S i) n' else nth i cs 0%Z :: sel cs ri (S i) n'
  end.

Lemma copy_skip_fresh : forall n h s cs ri i pre mid post,
  nth_error h s = Some (mkblock cs true) ->
  length mid = length (sel cs ri i n) -> i + n <= length cs ->
  copy_skip (h ++ [mkblock (pre ++ mid ++ post) true]) (Some s) (Some (length h)) ri i (length pre) n
  = Safe (h ++ [mkblock (pre ++ sel cs ri i n ++ post) true]).
Proof.
  induction n as [|n IH]; intros h s cs ri i pre mid post Hs Hm Hle.
  - simpl in *. destruct mid; simpl in *; try lia. reflexivity.
  - cbn [copy_skip sel] in *. destruct (i =? ri) eqn:E; rewrite ?E in Hm.
    + apply IH; auto. lia.
    + destruct mid as [|m mid]; simpl in Hm; try lia.
      rewrite (hread_old _ _ _ cs) by (auto; lia). cbn [rbind].
      rewrite hwrite_new by (rewrite !app_length; simpl; lia). cbn [rbind].
      assert (Hu : upd (pre ++ (m :: mid) ++ post) (length pre) (nth i cs 0%Z)
                   = (pre ++ [nth i cs 0%Z]) ++ mid ++ post).
      { simpl. rewrite upd_middle. now rewrite <- app_assoc. }
      rewrite Hu.
      replace (S (length pre)) with (length (pre ++ [nth i cs 0%Z])) by (rewrite app_length; simpl; lia).
      rewrite (IH h s cs) by (auto; lia).
      simpl. now rewrite <- app_assoc.
Qed.

Lemma fill_loop_fresh : forall vals (h : heap) pre mid post,
  length mid = length vals ->
  fill_loop (h ++ [mkblock (pre ++ mid ++ post) true]) (Some (length h)) (length pre) vals
  = Safe (h ++ [mkblock (pre ++ vals ++ post) true]).
Proof.
  induction vals as [|v r IH]; intros h pre mid post Hm.
  - destruct mid; simpl in *; try lia. reflexivity.
  - destruct mid as [|m mid]; simpl in Hm; try lia.
    cbn [fill_loop]. rewrite hwrite_new by (rewrite !app_length; simpl; lia). cbn [rbind].
    assert (Hu : upd (pre ++ (m :: mid) ++ post) (length pre) v = (pre ++ [v]) ++ mid ++ post).
    { simpl. rewrite upd_middle. now rewrite <- app_assoc. }
    rewrite Hu.
    replace (S (length pre)) with (length (pre ++ [v])) by (rewrite app_length; simpl; lia).
    rewrite IH by lia. simpl. now rewrite <- app_assoc.
Qed.

Lemma fill_fresh_all : forall vals (h : heap),
  fill_loop (h ++ [mkblock (repeat 0%Z (length vals)) true]) (Some (length h)) 0 vals
  = Safe (h ++ [mkblock vals true]).
Proof.
  intros vals h.
  pose proof (fill_loop_fresh vals h [] (repeat 0%Z (length vals)) [] (repeat_length _ _)) as F.
  simpl in F. rewrite !app_nil_r in F. exact F.
Qed.

(* the search loop of remove *)
Fixpoint find_idx (v : Z) (l : list Z) : nat :=
  match l with
  | [] => 0
  | c :: r => if Z.eqb c v then 0 else S (find_idx v r)
  end.

Lemma find_loop_spec : forall n h s cs v i,
  nth_error h s = Some (mkblock cs true) -> i + n <= length cs ->
  find_loop h (Some s) v i n = Safe (i + find_idx v (firstn n (skipn i cs))).
Proof.
  induction n as [|n IH]; intros h s cs v i Hs Hle.
  - simpl. apply f_equal; lia.
  - cbn [find_loop]. unfold hread at 1. rewrite Hs. cbn [live cells].
    destruct (i <? length cs) eqn:E. 2:{ apply Nat.ltb_ge in E. lia. }
    cbn [rbind]. rewrite (skipn_nth_cons cs i 0%Z) by lia. rewrite firstn_cons. cbn [find_idx].
    destruct (Z.eqb (nth i cs 0%Z) v) eqn:Ev.
    + apply f_equal; lia.
    + rewrite (IH h s cs) by (auto; lia). apply f_equal; lia.
Qed.

Lemma find_idx_le : forall v l, find_idx v l <= length l.
Proof. induction l as [|c r IH]; simpl; auto. destruct (Z.eqb c v); lia. Qed.

Fixpoint remove_at (ri : nat) (l : list Z) : list Z :=
  match l, ri with
  | [], _ => []
  | _ :: r, O => r
  | c :: r, S k => c :: remove_at k r
  end.

Lemma find_idx_remove_first : forall v l,
  (find_idx v l = length l -> remove_first v l = None) /\
  (find_idx v l < length l -> remove_first v l = Some (remove_at (find_idx v l) l)).
Proof.
  induction l as [|c r [IH1 IH2]]; simpl.
  - split; auto. lia.
  - destruct (Z.eqb c v) eqn:E; split; intros H; try lia; auto.
    + rewrite IH1 by lia. reflexivity.
    + rewrite IH2 by lia. reflexivity.
Qed.

Lemma sel_shift : forall n c cs ri i, sel (c :: cs) (S ri) (S i) n = sel cs ri i n.
Proof. induction n as [|n IH]; intros; simpl; auto. rewrite IH. reflexivity. Qed.

Lemma sel_noskip : forall n cs ri i, ri < i -> i + n <= length cs -> sel cs ri i n = firstn n (skipn i cs).
Proof.
  induction n as [|n IH]; intros cs ri i Hlt Hle; [reflexivity|]. cbn [sel].
  destruct (i =? ri) eqn:E. { apply Nat.eqb_eq in E. lia. }
  rewrite (skipn_nth_cons cs i 0%Z) by lia. rewrite firstn_cons. f_equal. apply IH; lia.
Qed.

Lemma sel_remove_at : forall cs ri, ri < length cs -> sel cs ri 0 (length cs) = remove_at ri cs.
Proof.
  induction cs as [|c r IH]; intros ri Hri; simpl in *; try lia.
  destruct ri as [|k]; simpl.
  - rewrite sel_noskip by (simpl; lia). simpl. apply firstn_all.
  - f_equal. rewrite sel_shift. apply IH. lia.
Qed.

Lemma remove_at_length : forall l ri, ri < length l -> length (remove_at ri l) = length l - 1.
Proof.
  induction l as [|c r IH]; intros [|k] H; simpl in *; try lia.
  rewrite IH by lia. lia.
Qed.

Lemma copy_skip_all : forall h s cs ri,
  nth_error h s = Some (mkblock cs true) -> ri < length cs ->
  copy_skip (h ++ [mkblock (repeat 0%Z (length cs - 1)) true]) (Some s) (Some (length h)) ri 0 0 (length cs)
  = Safe (h ++ [mkblock (remove_at ri cs) true]).
Proof.
  intros h s cs ri Hs Hri.
  pose proof (copy_skip_fresh (length cs) h s cs ri 0 [] (repeat 0%Z (length cs - 1)) [] Hs) as F.
  rewrite sel_remove_at in F by auto. simpl in F. rewrite !app_nil_r in F.
  apply F; [|lia]. rewrite repeat_length. symmetry. now apply remove_at_length.
Qed.

(* ------------------------------------------------------------------ representation *)
(* [rep h l cs]: the list value l denotes the contents cs in heap h *)
Definition rep (h : heap) (l : lval) (cs : list Z) : Prop :=
  match data l with
  | None => size l = 0 /\ cs = []
  | Some b => nth_error h b = Some (mkblock cs true) /\ size l = length cs /\ cs <> []
  end.

Definition wf_lval (h : heap) (l : lval) : Prop := exists cs, rep h l cs.

(* delete[] of a well-formed list's buffer *)
Definition kill (h : heap) (p : ptr) : heap :=
  match p with
  | None => h
  | Some b => match nth_error h b with
              | Some blk => upd h b (mkblock (cells blk) false)
              | None => h
              end
  end.

Lemma kill_length : forall h p, length (kill h p) = length h.
Proof. intros h [b|]; simpl; auto. destruct (nth_error h b); auto. apply upd_length. Qed.

Lemma nth_error_kill_other : forall h p b, p <> Some b -> nth_error (kill h p) b = nth_error h b.
Proof.
  intros h [c|] b Hne; simpl; auto. destruct (nth_error h c) eqn:E; auto.
  apply nth_error_upd_other. congruence.
Qed.

Lemma hfree_rep : forall h l cs, rep h l cs -> hfree h (data l) = Safe (kill h (data l)).
Proof.
  intros h [d sz] cs H. unfold rep in H. simpl in *. destruct d as [b|]; simpl; auto.
  destruct H as (Hb & _). now rewrite Hb.
Qed.

Lemma hfree_app_rep : forall h x l cs, rep h l cs -> hfree (h ++ [x]) (data l) = Safe (kill (h ++ [x]) (data l)).
Proof.
  intros h x [d sz] cs H. unfold rep in H. simpl in *. destruct d as [b|]; simpl; auto.
  destruct H as (Hb & _).
  assert (b < length h) by (apply nth_error_Some; congruence).
  rewrite nth_error_app_old, Hb by auto. reflexivity.
Qed.

(* ------------------------------------------------------------------ helper specifications *)
Lemma make_spec : forall h items,
  list_make h items =
  Safe (match items with
        | [] => (h, null_list)
        | _ => (h ++ [mkblock items true], mklist (Some (length h)) (length items))
        end).
Proof.
  intros h [|a r]; auto.
  cbv beta iota delta [list_make alloc]. rewrite fill_fresh_all. reflexivity.
Qed.

Lemma make_rep : forall h items h' l, list_make h items = Safe (h', l) -> rep h' l items.
Proof.
  intros h items h' l H. rewrite make_spec in H. destruct items as [|a r]; inversion H; subst; clear H.
  - unfold rep; simpl; auto.
  - unfold rep; simpl. rewrite nth_error_app_new. repeat split; auto. discriminate.
Qed.

Lemma py_index_spec : forall n i k, py_index n i = Some k ->
  (- Z.of_nat n <= i < Z.of_nat n)%Z /\ k < n /\
  Z.of_nat k = (if (i <? 0)%Z then i + Z.of_nat n else i)%Z.
Proof.
  unfold py_index. intros n i k H.
  destruct ((- Z.of_nat n <=? i)%Z && (i <? Z.of_nat n)%Z) eqn:E; try discriminate.
  apply andb_true_iff in E. destruct E as [E1 E2]. apply Z.leb_le in E1. apply Z.ltb_lt in E2.
  inversion H; subst; clear H. destruct (i <? 0)%Z eqn:E3.
  - apply Z.ltb_lt in E3. repeat split; try lia.
  - apply Z.ltb_ge in E3. repeat split; try lia.
Qed.

Lemma py_index_none : forall n i, py_index n i = None -> ~ (- Z.of_nat n <= i < Z.of_nat n)%Z.
Proof.
  unfold py_index. intros n i H.
  destruct ((- Z.of_nat n <=? i)%Z && (i <? Z.of_nat n)%Z) eqn:E; try discriminate.
  apply andb_false_iff in E. destruct E as [E|E]; [apply Z.leb_gt in E | apply Z.ltb_ge in E]; lia.
Qed.

Lemma get_spec : forall h l cs i, rep h l cs ->
  list_get h l i = match py_index (length cs) i with
                   | Some k => Safe (nth k cs 0%Z)
                   | None => Unsafe OutOfBounds
                   end.
Proof.
  intros h [d sz] cs i H. unfold rep in H. simpl in H. unfold list_get, list_index. simpl size. simpl data.
  destruct (py_index (length cs) i) as [k|] eqn:P.
  - apply py_index_spec in P. destruct P as (Hr & Hk & Hz).
    destruct d as [b|].
    + destruct H as (Hb & Hs & _). subst sz. rewrite <- Hz.
      destruct (Z.of_nat k <? 0)%Z eqn:E. { apply Z.ltb_lt in E. lia. }
      rewrite Nat2Z.id. unfold hread. rewrite Hb. simpl.
      destruct (k <? length cs) eqn:E2; auto. apply Nat.ltb_ge in E2. lia.
    + destruct H as (_ & ->). simpl in Hk. lia.
  - apply py_index_none in P.
    destruct d as [b|].
    + destruct H as (Hb & Hs & _). subst sz.
      destruct (i <? 0)%Z eqn:E1.
      * apply Z.ltb_lt in E1. destruct (i + Z.of_nat (length cs) <? 0)%Z eqn:E2; auto.
        apply Z.ltb_ge in E2. lia.
      * apply Z.ltb_ge in E1. destruct (i <? 0)%Z eqn:E2. { apply Z.ltb_lt in E2. lia. }
        unfold hread. rewrite Hb. simpl.
        destruct (Z.to_nat i <? length cs) eqn:E3; auto. apply Nat.ltb_lt in E3. lia.
    + destruct H as (-> & ->). simpl. rewrite Z.add_0_r.
      destruct (i <? 0)%Z eqn:E1; rewrite ?E1; auto.
Qed.

Lemma set_spec : forall h l cs i v, rep h l cs ->
  list_set h l i v = match py_index (length cs) i, data l with
                     | Some k, Some b => Safe (upd h b (mkblock (upd cs k v) true))
                     | _, _ => Unsafe OutOfBounds
                     end.
Proof.
  intros h [d sz] cs i v H. unfold rep in H. simpl in H. unfold list_set, list_index. simpl size. simpl data.
  destruct (py_index (length cs) i) as [k|] eqn:P.
  - apply py_index_spec in P. destruct P as (Hr & Hk & Hz).
    destruct d as [b|].
    + destruct H as (Hb & Hs & _). subst sz. rewrite <- Hz.
      destruct (Z.of_nat k <? 0)%Z eqn:E. { apply Z.ltb_lt in E. lia. }
      rewrite Nat2Z.id. unfold hwrite. rewrite Hb. simpl.
      destruct (k <? length cs) eqn:E2; auto. apply Nat.ltb_ge in E2. lia.
    + destruct H as (_ & ->). simpl in Hk. lia.
  - apply py_index_none in P.
    destruct d as [b|].
    + destruct H as (Hb & Hs & _). subst sz.
      destruct (i <? 0)%Z eqn:E1.
      * apply Z.ltb_lt in E1. destruct (i + Z.of_nat (length cs) <? 0)%Z eqn:E2; auto.
        apply Z.ltb_ge in E2. lia.
      * apply Z.ltb_ge in E1. destruct (i <? 0)%Z eqn:E2. { apply Z.ltb_lt in E2. lia. }
        unfold hwrite. rewrite Hb. simpl.
        destruct (Z.to_nat i <? length cs) eqn:E3; auto. apply Nat.ltb_lt in E3. lia.
    + destruct H as (-> & ->). simpl. rewrite Z.add_0_r.
      destruct (i <? 0)%Z eqn:E1; rewrite ?E1; auto.
Qed.

(* copying a whole well-formed list into a fresh block of at least its size *)
Lemma copy_all_fresh : forall h l cs post,
  rep h l cs ->
  copy_loop (h ++ [mkblock (repeat 0%Z (length cs) ++ post) true]) (data l) (Some (length h)) 0 (size l)
  = Safe (h ++ [mkblock (cs ++ post) true]).
Proof.
  intros h [d sz] cs post H. unfold rep in H. simpl in *. destruct d as [b|].
  - destruct H as (Hb & -> & _).
    pose proof (copy_loop_fresh (length cs) h b cs [] (repeat 0%Z (length cs)) post Hb) as F.
    simpl in F. rewrite F by (try apply repeat_length; lia). now rewrite firstn_all.
  - destruct H as (-> & ->). reflexivity.
Qed.

Lemma append_spec : forall h l cs v, rep h l cs ->
  list_append h l v =
  Safe (kill (h ++ [mkblock (cs ++ [v]) true]) (data l), mklist (Some (length h)) (S (size l))).
Proof.
  intros h l cs v H. unfold list_append, alloc.
  assert (Hsz : size l = length cs).
  { unfold rep in H. destruct (data l); [destruct H as (_ & ? & _) | destruct H as (? & ->)]; auto. }
  rewrite Hsz at 1. rewrite repeat_app. simpl repeat.
  rewrite (copy_all_fresh h l cs [0%Z] H). cbn [rbind].
  rewrite Hsz.
  replace (hwrite (h ++ [mkblock (cs ++ [0%Z]) true]) (Some (length h)) (length cs) v)
    with (Safe (h ++ [mkblock (cs ++ [v]) true])).
  2:{ rewrite hwrite_new by (rewrite app_length; simpl; lia). now rewrite upd_middle. }
  cbn [rbind]. rewrite (hfree_app_rep h _ l cs H). cbn [rbind]. reflexivity.
Qed.

Lemma remove_spec : forall h l cs v, rep h l cs ->
  list_remove h l v =
  Safe (match remove_first v cs with
        | None => (h, l)
        | Some [] => (kill h (data l), mklist None 0)
        | Some cs' => (kill (h ++ [mkblock cs' true]) (data l), mklist (Some (length h)) (length cs'))
        end).
Proof.
  intros h l cs v H. unfold list_remove.
  pose proof H as H0. unfold rep in H. destruct l as [d sz]. simpl in *.
  destruct d as [b|].
  2:{ destruct H as (-> & ->). reflexivity. }
  destruct H as (Hb & -> & Hne).
  destruct (length cs =? 0) eqn:E0. { apply Nat.eqb_eq in E0. destruct cs; simpl in *; congruence. }
  rewrite (find_loop_spec (length cs) h b cs v 0 Hb) by lia. cbn [rbind]. simpl skipn. rewrite firstn_all. simpl.
  destruct (find_idx_remove_first v cs) as [F1 F2]. pose proof (find_idx_le v cs) as Fle.
  destruct (find_idx v cs =? length cs) eqn:E1.
  - apply Nat.eqb_eq in E1. rewrite F1; auto.
  - apply Nat.eqb_neq in E1. assert (Hlt : find_idx v cs < length cs) by lia.
    rewrite F2 by auto. set (ri := find_idx v cs) in *.
    pose proof (remove_at_length cs ri Hlt) as RL.
    destruct (1 <? length cs) eqn:E2.
    + apply Nat.ltb_lt in E2. unfold alloc.
      rewrite (copy_skip_all h b cs ri Hb Hlt). cbn [rbind].
      pose proof (fun x => hfree_app_rep h x _ cs H0) as HF. simpl in HF. rewrite HF. cbn [rbind].
      destruct (remove_at ri cs) eqn:ER. { simpl in RL. lia. }
      rewrite <- RL. reflexivity.
    + apply Nat.ltb_ge in E2. cbn [rbind]. pose proof (hfree_rep h _ cs H0) as HF. simpl in HF. rewrite HF. cbn [rbind].
      destruct (remove_at ri cs) eqn:ER. 2:{ simpl in RL. lia. }
      replace (length cs - 1) with 0 by lia. reflexivity.
Qed.

(* assignment from a list that does not share dest's buffer *)
Lemma assign_spec : forall h d s cd cs,
  rep h d cd -> rep h s cs -> (data d = None \/ data d <> data s) ->
  list_assign h d s false =
  Safe (match cs with
        | [] => (kill h (data d), mklist None 0)
        | _ => (kill h (data d) ++ [mkblock cs true], mklist (Some (length h)) (length cs))
        end).
Proof.
  intros h d s cd cs Hd Hs Hne. unfold list_assign.
  assert (F : (match data d with None => Safe h | Some _ => hfree h (data d) end) = Safe (kill h (data d))).
  { destruct (data d) eqn:E; auto. rewrite <- E. apply (hfree_rep h d cd Hd). }
  rewrite F. cbn [rbind].
  assert (Hs' : rep (kill h (data d)) s cs).
  { unfold rep in *. destruct (data s) as [b|] eqn:Es; auto.
    rewrite nth_error_kill_other; auto. destruct Hne as [-> | Hne]; congruence. }
  assert (Hsz : size s = length cs).
  { unfold rep in Hs. destruct (data s); [destruct Hs as (_ & ? & _) | destruct Hs as (? & ->)]; auto. }
  rewrite Hsz. destruct cs as [|c r].
  - simpl. unfold rep in Hs. reflexivity.
  - simpl Nat.eqb. cbv iota. unfold alloc.
    pose proof (copy_all_fresh (kill h (data d)) s (c :: r) [] Hs') as C.
    rewrite !app_nil_r in C. rewrite Hsz in C. rewrite kill_length in *. rewrite C. reflexivity.
Qed.

Lemma from_range_spec : forall h start stop step f,
  list_from_range h start stop step f =
  Safe (let vals := if (step =? 0)%Z then [] else map f (range_vals start step (range_count start stop step)) in
        match vals with
        | [] => (h, mklist None 0)
        | _ => (h ++ [mkblock vals true], mklist (Some (length h)) (length vals))
        end).
Proof.
  intros. unfold list_from_range. destruct (step =? 0)%Z; auto.
  set (count := range_count start stop step).
  assert (L : forall n st, length (range_vals st step n) = n) by (induction n; simpl; auto).
  destruct count as [|n] eqn:EC.
  - reflexivity.
  - simpl Nat.ltb. cbv iota. unfold alloc.
    set (vals := map f (range_vals start step (S n))).
    assert (Hl : length vals = S n) by (unfold vals; now rewrite map_length, L).
    change (0 <? S n) with true. cbv iota. rewrite <- Hl at 1. rewrite fill_fresh_all. cbn [rbind].
    destruct vals eqn:EV; simpl in Hl; try lia. reflexivity.
Qed.

Lemma from_range_rep : forall h start stop step f h' l,
  list_from_range h start stop step f = Safe (h', l) ->
  rep h' l (if (step =? 0)%Z then [] else map f (range_vals start step (range_count start stop step))).
Proof.
  intros h start stop step f h' l H. rewrite from_range_spec in H. cbv zeta in H.
  destruct (if (step =? 0)%Z then [] else map f (range_vals start step (range_count start stop step))) as [|a r];
    inversion H; subst; clear H; unfold rep; simpl; auto.
  rewrite nth_error_app_new. repeat split; auto. discriminate.
Qed.
