(* C09 - proofs about list programs (Device/DListProg.v): the single-owner invariant and the
   simulation of the CPython reference by the firmware inside the guard. *)
From Coq Require Import ZArith List Bool Arith Lia Permutation.
From RV Require Import Device.DList Device.DListProg Proofs.DListP Proofs.DTupleP.
Import ListNotations.

(* ------------------------------------------------------------------ generic list facts *)
Lemma NoDup_app_iff : forall (A : Type) (a b : list A),
  NoDup (a ++ b) <-> NoDup a /\ NoDup b /\ (forall x, In x a -> In x b -> False).
Proof.
  induction a as [|x r IH]; intros b; simpl.
  - split; [intros H; repeat split; auto; constructor | intros (_ & H & _); auto].
  - split.
    + intros H. inversion H as [|? ? Hn Hr]; subst. apply IH in Hr. destruct Hr as (Ha & Hb & Hd).
      repeat split; auto.
      * constructor; auto. intro Hi. apply Hn. apply in_or_app; auto.
      * intros y [->|Hy] Hyb; [apply Hn; apply in_or_app; auto | eauto].
    + intros (Ha & Hb & Hd). inversion Ha as [|? ? Hn Hr]; subst. constructor.
      * intro Hi. apply in_app_or in Hi. destruct Hi as [Hi|Hi]; [auto | apply (Hd x); auto].
      * apply IH. repeat split; auto. intros y Hy. apply Hd. auto.
Qed.

(* ------------------------------------------------------------------ environments *)
Lemma assoc_split : forall (A : Type) x (e : env A) a, assoc x e = Some a ->
  exists e1 e2, e = e1 ++ (x, a) :: e2 /\ (forall a', set_assoc x a' e = e1 ++ (x, a') :: e2).
Proof.
  induction e as [|[y b] r IH]; intros a H; simpl in *; try discriminate.
  destruct (Z.eqb x y) eqn:E.
  - apply Z.eqb_eq in E. subst y. inversion H; subst. exists [], r. split; auto.
  - destruct (IH a H) as (e1 & e2 & -> & Hs). exists ((y, b) :: e1), e2. split; auto.
    intros a'. simpl. now rewrite Hs.
Qed.

Lemma set_assoc_same : forall (A : Type) x (e : env A) a, assoc x e = Some a -> set_assoc x a e = e.
Proof.
  induction e as [|[y b] r IH]; intros a H; simpl in *; auto.
  destruct (Z.eqb x y) eqn:E.
  - inversion H; subst. reflexivity.
  - now rewrite IH.
Qed.

Lemma set_assoc_names : forall (A : Type) x a (e : env A), map fst (set_assoc x a e) = map fst e.
Proof. induction e as [|[y b] r IH]; simpl; auto. destruct (Z.eqb x y); simpl; now rewrite ?IH. Qed.

Lemma assoc_set_assoc : forall (A : Type) x y a (e : env A),
  assoc y (set_assoc x a e) =
  if Z.eqb y x then match assoc x e with Some _ => Some a | None => None end else assoc y e.
Proof.
  induction e as [|[z b] r IH]; simpl.
  - destruct (Z.eqb y x); auto.
  - destruct (Z.eqb x z) eqn:E; simpl.
    + apply Z.eqb_eq in E. subst z. destruct (Z.eqb y x); auto.
    + destruct (Z.eqb y z) eqn:E2.
      * apply Z.eqb_eq in E2. subst z. rewrite Z.eqb_sym in E. now rewrite E.
      * apply IH.
Qed.

Lemma assoc_app_new : forall (A : Type) x y a (e : env A), assoc x e = None ->
  assoc y (e ++ [(x, a)]) = if Z.eqb y x then Some a else assoc y e.
Proof.
  induction e as [|[z b] r IH]; intros H; simpl in *.
  - destruct (Z.eqb y x); auto.
  - destruct (Z.eqb x z) eqn:E; try discriminate.
    destruct (Z.eqb y z) eqn:E2.
    + apply Z.eqb_eq in E2. subst z. rewrite Z.eqb_sym in E. now rewrite E.
    + now apply IH.
Qed.

Lemma assoc_names : forall (A : Type) x (e : env A),
  existsb (Z.eqb x) (map fst e) = true <-> exists a, assoc x e = Some a.
Proof.
  induction e as [|[y b] r IH]; simpl.
  - split; [discriminate | intros (a & H); discriminate].
  - destruct (Z.eqb x y); simpl; [split; eauto | exact IH].
Qed.

Lemma assoc_none_names : forall (A : Type) x (e : env A),
  existsb (Z.eqb x) (map fst e) = false -> assoc x e = None /\ ~ In x (map fst e).
Proof.
  induction e as [|[y b] r IH]; simpl; auto.
  destruct (Z.eqb x y) eqn:E; simpl; try discriminate. intros H. destruct (IH H) as [HA HB].
  split; auto. intros [->|Hi]; auto. rewrite Z.eqb_refl in E. discriminate.
Qed.

Lemma assoc_In : forall (A : Type) x (e : env A) a, assoc x e = Some a -> In (x, a) e.
Proof.
  induction e as [|[y b] r IH]; intros a H; simpl in *; try discriminate.
  destruct (Z.eqb x y) eqn:E; auto. apply Z.eqb_eq in E. inversion H; subst. auto.
Qed.

(* two different names never share an element of their footprints *)
Lemma footprint_distinct : forall (A : Type) (g : A -> list nat) (e : env A) x y a b n,
  NoDup (flat_map (fun xa => g (snd xa)) e) ->
  assoc x e = Some a -> assoc y e = Some b -> x <> y -> In n (g a) -> In n (g b) -> False.
Proof.
  intros A g. induction e as [|[z c] r IH]; intros x y a b n Hnd Hx Hy Hne Ha Hb; simpl in *; try discriminate.
  apply NoDup_app_iff in Hnd. destruct Hnd as (_ & Hr & Hd).
  assert (Hin : forall w d, assoc w r = Some d -> In n (g d) -> In n (flat_map (fun xa => g (snd xa)) r)).
  { intros w d Hw Hn. apply in_flat_map. exists (w, d). split; auto. now apply assoc_In. }
  destruct (Z.eqb x z) eqn:Ex; destruct (Z.eqb y z) eqn:Ey.
  - apply Z.eqb_eq in Ex, Ey. congruence.
  - inversion Hx; subst. apply (Hd n); eauto.
  - inversion Hy; subst. apply (Hd n); eauto.
  - eapply IH; eauto.
Qed.

(* ------------------------------------------------------------------ the invariant *)
Definition owned (e : env lval) : list nat := flat_map (fun xl => optl (snd xl)) e.
Definition sum_sizes (e : env lval) : nat := fold_right (fun xl a => size (snd xl) + a) 0 e.

Definition wf_env (h : heap) (e : env lval) : Prop :=
  NoDup (map fst e) /\ NoDup (owned e) /\ Forall (fun xl => wf_lval h (snd xl)) e.

(* every list variable points to a live block of exactly [size] cells or is null with size
   0, and no two variables share a block *)
Definition wf_heap (st : fstate) : Prop := wf_env (f_heap st) (f_glob st ++ f_loc st).

(* nothing else is live: the heap holds exactly the cells of the lists *)
Definition tight (st : fstate) : Prop :=
  f_live_blocks st = length (owned (f_glob st ++ f_loc st)) /\
  f_live_cells st = sum_sizes (f_glob st ++ f_loc st).

Definition Inv (st : fstate) : Prop :=
  f_loc st = [] /\ wf_env (f_heap st) (f_glob st) /\
  live_blocks (f_heap st) = length (owned (f_glob st)) /\
  live_cells (f_heap st) = sum_sizes (f_glob st).

Lemma Inv_wf_tight : forall st, Inv st -> wf_heap st /\ tight st.
Proof.
  intros st (Hl & Hw & Hb & Hc). unfold wf_heap, tight, f_live_blocks, f_live_cells.
  rewrite Hl, app_nil_r. auto.
Qed.

Lemma owned_app : forall a b, owned (a ++ b) = owned a ++ owned b.
Proof. induction a as [|x r IH]; intros; simpl; auto. unfold owned in *. simpl. rewrite IH. now rewrite app_assoc. Qed.

Lemma sum_sizes_app : forall a b, sum_sizes (a ++ b) = sum_sizes a + sum_sizes b.
Proof. induction a as [|x r IH]; intros; simpl; auto. rewrite IH. lia. Qed.

Lemma owned_bound : forall h e b, Forall (fun xl => wf_lval h (snd xl)) e -> In b (owned e) -> b < length h.
Proof.
  intros h e b Hall Hin. apply in_flat_map in Hin. destruct Hin as ([x l] & Hxl & Hb).
  rewrite Forall_forall in Hall. destruct (Hall _ Hxl) as (cs & Hr). simpl in *.
  unfold optl in Hb. destruct (data l) as [c|] eqn:E; simpl in Hb; [|tauto].
  destruct Hb as [->|[]]. eapply rep_bound; eauto.
Qed.

Lemma wf_lval_frame : forall h h' l, wf_lval h l ->
  (forall b, data l = Some b -> nth_error h' b = nth_error h b) -> wf_lval h' l.
Proof. intros h h' l (cs & H) F. exists cs. eapply rep_frame; eauto. Qed.

Lemma store_inv : forall st x l h' l' cs',
  Inv st -> assoc x (f_glob st) = Some l -> upd_ok (f_heap st) l h' l' cs' ->
  Inv (f_store st h' x l').
Proof.
  intros st x l h' l' cs' (Hloc & (Hnames & Hown & Hall) & Hb & Hc) Hx U.
  destruct (assoc_split _ x _ l Hx) as (e1 & e2 & He & Hset).
  unfold f_store. rewrite Hloc. simpl. unfold Inv, wf_env. simpl. rewrite Hset.
  rewrite He in *. clear He Hset Hx.
  rewrite owned_app in *. simpl in *. fold (owned e2) in *.
  rewrite sum_sizes_app in *. simpl in *.
  rewrite !app_length in *.
  apply Forall_app in Hall. destruct Hall as (Hall1 & Hall2).
  inversion Hall2 as [|? ? Hl Hall2']; subst. simpl in Hl.
  apply NoDup_app_iff in Hown. destruct Hown as (N1 & N2 & D12).
  apply NoDup_app_iff in N2. destruct N2 as (Nl & N3 & D23).
  assert (B1 : forall b, In b (owned e1) -> b < length (f_heap st)) by (intros b0 Hb0; apply (owned_bound _ e1 b0 Hall1 Hb0)).
  assert (B2 : forall b, In b (owned e2) -> b < length (f_heap st)) by (intros b0 Hb0; apply (owned_bound _ e2 b0 Hall2' Hb0)).
  assert (O' : forall b, In b (optl l') -> In b (optl l) \/ b = length (f_heap st)).
  { intros b Hb'. unfold optl in *. destruct (uo_ptr _ _ _ _ _ U) as [E|[E|E]]; rewrite E in Hb'.
    - auto. - destruct Hb'. - destruct Hb' as [<-|[]]. auto. }
  repeat split; auto.
  - rewrite map_app in *. simpl in *. auto.
  - apply NoDup_app_iff. repeat split; auto.
    + apply NoDup_app_iff. repeat split; auto.
      * unfold optl. destruct (data l'); repeat constructor; auto.
      * intros b Hb1 Hb2. destruct (O' b Hb1) as [Ho| ->]; [eauto | apply B2 in Hb2; lia].
    + intros b Hb1 Hb2. apply in_app_or in Hb2. destruct Hb2 as [Hb2|Hb2].
      * destruct (O' b Hb2) as [Ho| ->]; [apply (D12 b); auto; apply in_or_app; auto | apply B1 in Hb1; lia].
      * apply (D12 b); auto. apply in_or_app; auto.
  - apply Forall_app. split; [|constructor].
    + rewrite Forall_forall in *. intros [y m] Hy. specialize (Hall1 _ Hy). simpl in *.
      eapply wf_lval_frame; eauto. intros b Eb. apply (uo_frame _ _ _ _ _ U).
      * destruct Hall1 as (cs & Hr). eapply rep_bound; eauto.
      * intro El. apply (D12 b).
        -- apply in_flat_map. exists (y, m). split; auto. unfold optl. simpl. rewrite Eb. simpl; auto.
        -- apply in_or_app. left. unfold optl. rewrite El. simpl; auto.
    + simpl. exists cs'. apply (uo_rep _ _ _ _ _ U).
    + rewrite Forall_forall in *. intros [y m] Hy. specialize (Hall2' _ Hy). simpl in *.
      eapply wf_lval_frame; eauto. intros b Eb. apply (uo_frame _ _ _ _ _ U).
      * destruct Hall2' as (cs & Hr). eapply rep_bound; eauto.
      * intro El. apply (D23 b).
        -- unfold optl. rewrite El. simpl; auto.
        -- apply in_flat_map. exists (y, m). split; auto. unfold optl. simpl. rewrite Eb. simpl; auto.
  - pose proof (uo_blocks _ _ _ _ _ U). lia.
  - pose proof (uo_cells _ _ _ _ _ U). lia.
Qed.

Lemma decl_inv : forall st x h' l' cs,
  Inv st -> existsb (Z.eqb x) (map fst (f_glob st)) = false ->
  fresh_ok (f_heap st) h' l' cs ->
  Inv (f_declare false st h' x l').
Proof.
  intros st x h' l' cs (Hloc & (Hnames & Hown & Hall) & Hb & Hc) Hx F.
  destruct (assoc_none_names _ _ _ Hx) as (_ & Hnin).
  unfold f_declare, Inv, wf_env. simpl. rewrite owned_app, sum_sizes_app, app_length, map_app. simpl.
  assert (B : forall b, In b (owned (f_glob st)) -> b < length (f_heap st)) by (intros b0 Hb0; apply (owned_bound _ _ b0 Hall Hb0)).
  assert (Hall' : Forall (fun xl => wf_lval h' (snd xl)) (f_glob st)).
  { rewrite Forall_forall in *. intros xl Hxl. specialize (Hall _ Hxl).
    destruct F as [(_ & -> & _)|(_ & -> & _)]; auto.
    eapply wf_lval_frame; eauto. intros b Eb. apply nth_error_app_old.
    destruct Hall as (c & Hr). eapply rep_bound; eauto. }
  pose proof (fresh_rep _ _ _ _ F) as Hr.
  repeat split; auto.
  - apply NoDup_app_iff. repeat split; auto.
    + repeat constructor. simpl. tauto.
    + intros y Hy [<-|[]]. auto.
  - apply NoDup_app_iff. repeat split; auto.
    + unfold optl. destruct (data l'); repeat constructor; auto.
    + intros b Hb1 Hb2. apply B in Hb1. rewrite app_nil_r in Hb2.
      destruct F as [(_ & _ & ->)|(_ & _ & ->)]; unfold optl in Hb2; simpl in Hb2; [tauto|].
      destruct Hb2 as [<-|[]]. lia.
  - apply Forall_app. split; auto. constructor; auto. simpl. now exists cs.
  - destruct F as [(_ & -> & ->)|(_ & -> & ->)]; unfold optl; simpl; [lia|].
    rewrite live_blocks_app. lia.
  - destruct F as [(_ & -> & ->)|(_ & -> & ->)]; simpl; [lia|].
    rewrite live_cells_app. lia.
Qed.

(* ------------------------------------------------------------------ statements keep the invariant *)
Lemma lookup_glob : forall st x l, f_loc st = [] -> assoc x (f_glob st) = Some l -> f_lookup st x = l.
Proof. intros st x l Hl Hx. unfold f_lookup. rewrite Hl. simpl. now rewrite Hx. Qed.

Lemma store_names : forall st h x l, f_loc st = [] ->
  map fst (f_glob (f_store st h x l)) = map fst (f_glob st).
Proof. intros st h x l Hl. unfold f_store. rewrite Hl. simpl. apply set_assoc_names. Qed.

Lemma store_same : forall st x l, f_loc st = [] -> assoc x (f_glob st) = Some l ->
  f_store st (f_heap st) x l = st.
Proof.
  intros [h g lo] x l Hl Hx. simpl in *. subst lo. unfold f_store. simpl. now rewrite set_assoc_same.
Qed.

Lemma Inv_var : forall st x, Inv st -> existsb (Z.eqb x) (map fst (f_glob st)) = true ->
  exists l cs, assoc x (f_glob st) = Some l /\ f_lookup st x = l /\ rep (f_heap st) l cs.
Proof.
  intros st x (Hloc & (_ & _ & Hall) & _) Hx. apply assoc_names in Hx. destruct Hx as (l & Hx).
  rewrite Forall_forall in Hall. destruct (Hall _ (assoc_In _ _ _ _ Hx)) as (cs & Hr).
  exists l, cs. repeat split; auto. now apply lookup_glob.
Qed.

Definition post_ok (st : fstate) (r : res (fstate * list Z)) : Prop :=
  match r with
  | Safe (st', _) => Inv st' /\ map fst (f_glob st') = map fst (f_glob st)
  | Unsafe k => k = OutOfBounds
  end.

(* ------------------------------------------------------------------ tuple assignment of a permutation *)
Lemma tuple_ok_spec : forall decl xs rs, tuple_ok decl xs rs = true ->
  exists ys, rhs_vars rs = Some ys /\ length xs = length ys /\ NoDup xs /\ NoDup ys /\
             incl ys xs /\ incl xs decl.
Proof.
  intros decl xs rs H. unfold tuple_ok in H. destruct (rhs_vars rs) as [ys|]; try discriminate.
  repeat (apply andb_true_iff in H; destruct H as [H ?]).
  exists ys. split; auto. apply Nat.eqb_eq in H.
  repeat split; auto using nodupb_NoDup, forallb_mem_incl.
Qed.

Lemma owned_vals : forall e, owned e = flat_map optl (map snd e).
Proof. induction e as [|x r IH]; simpl; auto. unfold owned in *. simpl. now rewrite IH. Qed.

Lemma sum_sizes_vals : forall e, sum_sizes e = list_sum (map size (map snd e)).
Proof. induction e as [|x r IH]; simpl; auto. Qed.

Lemma perm_wf_env : forall h g g', map fst g' = map fst g -> Permutation (map snd g') (map snd g) ->
  wf_env h g -> wf_env h g' /\ length (owned g') = length (owned g) /\ sum_sizes g' = sum_sizes g.
Proof.
  intros h g g' N P (Hn & Ho & Ha).
  assert (PO : Permutation (owned g') (owned g)) by (rewrite !owned_vals; now apply Permutation_flat_map).
  split; [split; [|split]|split].
  - now rewrite N.
  - eapply Permutation_NoDup; [apply Permutation_sym; exact PO | exact Ho].
  - apply (Forall_map snd (wf_lval h)). eapply Permutation_Forall; [apply Permutation_sym; exact P|].
    now apply (Forall_map snd (wf_lval h)).
  - now apply Permutation_length.
  - rewrite !sum_sizes_vals. apply Permutation_list_sum. now apply Permutation_map.
Qed.

Lemma lookup_getd : forall st y, f_loc st = [] -> f_lookup st y = getd null_list (f_glob st) y.
Proof. intros st y Hl. unfold f_lookup, getd. rewrite Hl. reflexivity. Qed.

Lemma exec_inv : forall in_loop st s,
  Inv st -> use_ok (map fst (f_glob st)) s = true -> post_ok st (f_exec in_loop st s).
Proof.
  intros in_loop st s HI U. pose proof HI as (Hloc & _).
  destruct s; cbn [use_ok] in U; try discriminate.
  - (* LAssignVar x x *)
    apply andb_true_iff in U. destruct U as [E U]. apply Z.eqb_eq in E. subst y.
    destruct (Inv_var st x HI U) as (l & cs & Hx & Hlk & Hr).
    unfold f_exec, desugar, f_exec1, f_declared. rewrite Hloc. unfold has at 1. simpl.
    unfold has. rewrite Hx. rewrite Hlk, Z.eqb_refl. simpl.
    rewrite store_same by auto. split; auto.
  - (* LAppend *)
    destruct (Inv_var st x HI U) as (l & cs & Hx & Hlk & Hr).
    destruct (append_ok _ l cs v Hr) as (h' & l' & E & UO).
    unfold f_exec, desugar, f_exec1. rewrite Hlk, E. simpl. split; [eapply store_inv; eauto | now apply store_names].
  - (* LRemove *)
    destruct (Inv_var st x HI U) as (l & cs & Hx & Hlk & Hr).
    destruct (remove_ok _ l cs v Hr) as (h' & l' & E & UO).
    unfold f_exec, desugar, f_exec1. rewrite Hlk, E. simpl. split; [eapply store_inv; eauto | now apply store_names].
  - (* LGet *)
    destruct (Inv_var st x HI U) as (l & cs & Hx & Hlk & Hr).
    unfold f_exec, desugar, f_exec1. rewrite Hlk, (get_spec _ l cs i Hr).
    destruct (py_index (length cs) i); simpl; auto.
  - (* LSet *)
    destruct (Inv_var st x HI U) as (l & cs & Hx & Hlk & Hr).
    unfold f_exec, desugar, f_exec1. rewrite Hlk.
    destruct (py_index (length cs) i) as [k|] eqn:P.
    + destruct (set_ok _ l cs i v k Hr P) as (h' & E & UO). rewrite E. simpl.
      pose proof (store_inv st x l h' l _ HI Hx UO) as HI'.
      unfold f_store in HI'. rewrite Hloc in HI'. simpl in HI'. rewrite set_assoc_same in HI' by auto.
      rewrite Hloc. split; auto.
    + rewrite (set_spec _ l cs i v Hr), P. simpl. auto.
  - (* LCallGet *)
    destruct (Inv_var st x HI U) as (l & cs & Hx & Hlk & Hr).
    unfold f_exec, desugar, f_exec1. rewrite Hlk, (get_spec _ l cs i Hr).
    destruct (py_index (length cs) i); simpl; auto.
  - (* LAppendRef *)
    apply andb_true_iff in U. destruct U as [Ux Uy].
    destruct (Inv_var st x HI Ux) as (l & cs & Hx & Hlk & Hr).
    destruct (Inv_var st y HI Uy) as (s & cs2 & Hy & Hlky & Hrs).
    pose proof (append_ref_ok _ l cs s cs2 i Hr Hrs) as A.
    unfold f_exec, desugar, f_exec1. rewrite Hlk, Hlky.
    destruct (py_index (length cs2) i) as [k|].
    + destruct A as (h' & l' & E & UO). rewrite E. simpl. split; [eapply store_inv; eauto | now apply store_names].
    + rewrite A. simpl. auto.
  - (* LRemoveRef *)
    apply andb_true_iff in U. destruct U as [Ux Uy].
    destruct (Inv_var st x HI Ux) as (l & cs & Hx & Hlk & Hr).
    destruct (Inv_var st y HI Uy) as (s & cs2 & Hy & Hlky & Hrs).
    unfold f_exec, desugar, f_exec1. rewrite Hlk, Hlky.
    destruct (remove_ref_ok _ l cs s cs2 i Hr Hrs) as [(h' & l' & cs' & E & UO & _)|(E & _)]; rewrite E; simpl; auto.
    split; [eapply store_inv; eauto | now apply store_names].
Qed.

Lemma block_inv : forall in_loop ss st,
  Inv st -> forallb (use_ok (map fst (f_glob st))) ss = true -> post_ok st (f_block in_loop st ss).
Proof.
  induction ss as [|s r IH]; intros st HI U; simpl in *.
  - auto.
  - apply andb_true_iff in U. destruct U as [U1 U2].
    pose proof (exec_inv in_loop st s HI U1) as H1.
    destruct (f_exec in_loop st s) as [[st1 o1]|k]; simpl in *; auto.
    destruct H1 as [HI1 N1]. rewrite <- N1 in U2.
    pose proof (IH st1 HI1 U2) as H2.
    destruct (f_block in_loop st1 r) as [[st2 o2]|k]; simpl in *; auto.
    destruct H2 as [HI2 N2]. split; auto. congruence.
Qed.

Definition post_setup (decl' : list name) (r : res (fstate * list Z)) : Prop :=
  match r with
  | Safe (st', _) => Inv st' /\ map fst (f_glob st') = decl'
  | Unsafe k => k = OutOfBounds
  end.

Lemma declare_names : forall st h x l,
  map fst (f_glob (f_declare false st h x l)) = map fst (f_glob st) ++ [x].
Proof. intros. unfold f_declare. simpl. now rewrite map_app. Qed.

Lemma setup_step_use : forall st s r decl' (P : res (fstate * list Z) -> Prop),
  Inv st ->
  (if use_ok (map fst (f_glob st)) s then setup_ok (map fst (f_glob st)) r else None) = Some decl' ->
  (forall st1 o1, f_exec false st s = Safe (st1, o1) -> Inv st1 ->
      setup_ok (map fst (f_glob st1)) r = Some decl' -> P (Safe (st1, o1))) ->
  (forall k, f_exec false st s = Unsafe k -> k = OutOfBounds -> P (Unsafe k)) ->
  P (f_exec false st s).
Proof.
  intros st s r decl' P HI H HS HU.
  destruct (use_ok (map fst (f_glob st)) s) eqn:U; try discriminate.
  pose proof (exec_inv false st s HI U) as H1.
  destruct (f_exec false st s) as [[st1 o1]|k] eqn:E; simpl in H1.
  - destruct H1 as [HI1 N1]. apply HS; auto. now rewrite N1.
  - now apply HU.
Qed.

Lemma setup_inv : forall ss st decl',
  Inv st -> setup_ok (map fst (f_glob st)) ss = Some decl' -> post_setup decl' (f_block false st ss).
Proof.
  induction ss as [|s r IH]; intros st decl' HI H.
  - simpl in *. inversion H; subst. auto.
  - cbn [f_block].
    assert (K : forall st1 o1, Inv st1 -> setup_ok (map fst (f_glob st1)) r = Some decl' ->
              post_setup decl' (do b <- f_block false st1 r; let '(st2, o2) := b in Safe (st2, o1 ++ o2))).
    { intros st1 o1 HI1 H1. pose proof (IH st1 decl' HI1 H1) as H2.
      destruct (f_block false st1 r) as [[st2 o2]|k]; simpl in *; auto. }
    assert (G : forall x h' l' cs,
              (if existsb (Z.eqb x) (map fst (f_glob st)) then None
               else setup_ok (map fst (f_glob st) ++ [x]) r) = Some decl' ->
              fresh_ok (f_heap st) h' l' cs ->
              post_setup decl' (do b <- f_block false (f_declare false st h' x l') r;
                                let '(st2, o2) := b in Safe (st2, [] ++ o2))).
    { intros x h' l' cs H0 F. destruct (existsb (Z.eqb x) (map fst (f_glob st))) eqn:Ex; try discriminate.
      apply K; [eapply decl_inv; eauto | now rewrite declare_names]. }
    destruct s; cbn [setup_ok] in H;
      try (match goal with |- context [f_exec false st ?s0] =>
             apply (setup_step_use st s0 r decl' (fun q => post_setup decl' (do a <- q; let '(st1, o1) := a in
              do b <- f_block false st1 r; let '(st2, o2) := b in Safe (st2, o1 ++ o2))) HI H);
             [intros st1 o1 _ HI1 H1; simpl; now apply K | intros k _ ->; simpl; auto] end).
    + (* LDeclLit *)
      destruct (make_ok (f_heap st) items) as (h' & l' & E & F).
      unfold f_exec, desugar, f_exec1. rewrite E. simpl. eapply G; eauto.
    + (* LDeclComp *)
      destruct (comp_ok (f_heap st) c) as (h' & l' & E & F).
      unfold f_exec, desugar, f_exec1. rewrite E. simpl. eapply G; eauto.
Qed.

Lemma Inv_init : Inv f_init.
Proof. unfold Inv, f_init, wf_env; simpl. repeat split; auto; constructor. Qed.

Lemma pass_inv : forall body st,
  Inv st -> forallb (use_ok (map fst (f_glob st))) body = true -> post_ok st (run_pass body st).
Proof.
  intros body st HI U. unfold run_pass. pose proof (block_inv true body st HI U) as H.
  destruct (f_block true st body) as [[st1 o]|k]; simpl in *; auto.
  destruct H as [(Hl & Hw & Hb & Hc) N]. split; auto. unfold Inv. simpl. auto.
Qed.

Lemma passes_inv : forall body n st,
  Inv st -> forallb (use_ok (map fst (f_glob st))) body = true ->
  match run_passes body st n with Safe st' => Inv st' | Unsafe k => k = OutOfBounds end.
Proof.
  induction n as [|n IH]; intros st HI U; simpl; auto.
  pose proof (pass_inv body st HI U) as H.
  destruct (run_pass body st) as [[st1 o]|k]; simpl in *; auto.
  destruct H as [HI1 N]. apply IH; auto. now rewrite N.
Qed.

Lemma owner_unique_fw : forall setup body,
  single_owner setup body = true ->
  forall n, match run_fw setup body n with
            | Safe st => wf_heap st /\ tight st
            | Unsafe k => k = OutOfBounds
            end.
Proof.
  intros setup body G n. unfold single_owner in G.
  destruct (setup_ok [] setup) as [decl|] eqn:S; try discriminate.
  pose proof (setup_inv setup f_init decl Inv_init S) as H.
  unfold run_fw, run_setup.
  destruct (f_block false f_init setup) as [[st0 o0]|k]; simpl in *; auto.
  destruct H as [HI0 N0]. rewrite <- N0 in G.
  pose proof (passes_inv body n st0 HI0 G) as H.
  destruct (run_passes body st0 n); auto. now apply Inv_wf_tight.
Qed.

(* ================================================================== simulation of CPython *)
Definition refs (e : env nat) : list nat := flat_map (fun xo => [snd xo]) e.

Definition Sim (pst : pstate) (st : fstate) : Prop :=
  p_loc pst = [] /\ NoDup (refs (p_glob pst)) /\
  map fst (p_glob pst) = map fst (f_glob st) /\
  (forall o, In o (refs (p_glob pst)) -> o < length (p_objs pst)) /\
  (forall x o, assoc x (p_glob pst) = Some o ->
     o < length (p_objs pst) /\
     exists l, assoc x (f_glob st) = Some l /\ rep (f_heap st) l (p_obj pst o)).

Lemma nth_upd_same : forall (A : Type) (l : list A) n a d, n < length l -> nth n (upd l n a) d = a.
Proof. induction l as [|x r IH]; intros [|n] a d H; simpl in *; try lia; auto. apply IH. lia. Qed.

Lemma nth_upd_other : forall (A : Type) (l : list A) n m a d, n <> m -> nth m (upd l n a) d = nth m l d.
Proof. induction l as [|x r IH]; intros [|n] [|m] a d H; simpl; auto; try congruence. Qed.

Lemma sim_var : forall pst st x o, Inv st -> Sim pst st -> p_ref pst x = POk o ->
  assoc x (p_glob pst) = Some o /\ o < length (p_objs pst) /\
  exists l, assoc x (f_glob st) = Some l /\ f_lookup st x = l /\ rep (f_heap st) l (p_obj pst o).
Proof.
  intros pst st x o (Hloc & _) (Pl & _ & _ & _ & Hv) R. unfold p_ref in R. rewrite Pl in R. simpl in R.
  destruct (assoc x (p_glob pst)) as [o'|] eqn:E; inversion R; subst.
  destruct (Hv x o E) as (Ho & l & Hx & Hr). repeat split; auto.
  exists l. repeat split; auto. now apply lookup_glob.
Qed.

Lemma sim_store : forall pst st x o l h' l' cs',
  Inv st -> Sim pst st ->
  assoc x (p_glob pst) = Some o -> assoc x (f_glob st) = Some l ->
  upd_ok (f_heap st) l h' l' cs' ->
  Sim (mkp (upd (p_objs pst) o cs') (p_glob pst) (p_loc pst)) (f_store st h' x l').
Proof.
  intros pst st x o l h' l' cs' (Hloc & (_ & Hown & Hall) & _) (Pl & Pn & Pnames & Pb & Hv) Px Fx U.
  destruct (Hv x o Px) as (Ho & _).
  unfold Sim. simpl. unfold f_store. rewrite Hloc. simpl.
  repeat split; auto.
  - now rewrite set_assoc_names.
  - intros o0 Ho0. rewrite upd_length. auto.
  - rewrite upd_length. destruct (Hv _ _ H) as (? & _). auto.
  - rewrite assoc_set_assoc, Fx. unfold p_obj. simpl.
    destruct (Z.eqb x0 x) eqn:E.
    + apply Z.eqb_eq in E. subst x0. assert (o0 = o) by congruence. subst o0.
      exists l'. split; auto. rewrite nth_upd_same by auto. apply (uo_rep _ _ _ _ _ U).
    + assert (Hne : x0 <> x) by (intro; subst; rewrite Z.eqb_refl in E; discriminate).
      destruct (Hv x0 o0 H) as (Ho0 & m & Fm & Rm). exists m. split; auto.
      assert (o <> o0).
      { intro; subst o0. apply (footprint_distinct nat (fun o => [o]) (p_glob pst) x0 x o o o Pn H Px Hne); simpl; auto. }
      rewrite nth_upd_other by auto. eapply rep_frame; eauto.
      intros b Eb. apply (uo_frame _ _ _ _ _ U).
      * eapply rep_bound; eauto.
      * intro El. apply (footprint_distinct lval optl (f_glob st) x0 x m l b Hown Fm Fx Hne);
          unfold optl; [rewrite Eb | rewrite El]; simpl; auto.
Qed.


(* ------------------------------------------------------------------ tuple assignment: the CPython side *)
Lemma refs_vals : forall e, refs e = map snd e.
Proof. induction e as [|[x o] r IH]; simpl; auto; unfold refs in *; simpl in *; now rewrite IH. Qed.

Lemma assoc_names_in : forall (A : Type) x (e : env A) a, assoc x e = Some a -> In x (map fst e).
Proof. intros A x e a H. apply assoc_In in H. now apply (in_map fst) in H. Qed.

Lemma p_rhs_vars : forall pst objs rs ys, p_loc pst = [] -> rhs_vars rs = Some ys ->
  (forall y, In y ys -> In y (map fst (p_glob pst))) ->
  p_rhs pst objs rs = POk (objs, map (getd 0 (p_glob pst)) ys).
Proof.
  intros pst objs. induction rs as [|[y|items] r IH]; intros ys Hl H Hin; simpl in *; try discriminate.
  - now injection H as <-.
  - destruct (rhs_vars r) as [ys'|]; try discriminate. injection H as <-.
    assert (Hy : p_ref pst y = POk (getd 0 (p_glob pst) y)).
    { unfold p_ref, getd. rewrite Hl. simpl.
      destruct (assoc y (p_glob pst)) eqn:E; auto.
      exfalso. apply (assoc_in_names nat (p_glob pst) y); auto. apply Hin. now left. }
    rewrite Hy. cbn [pbind]. rewrite (IH ys' Hl eq_refl). { reflexivity. }
    intros w Hw. apply Hin. now right.
Qed.

Lemma p_tuple_bind_glob : forall in_loop xs os objs g,
  (forall x, In x xs -> existsb (Z.eqb x) (map fst g) = true) ->
  p_tuple_bind in_loop (mkp objs g []) xs os = mkp objs (tstore g xs os) [].
Proof.
  intros in_loop. induction xs as [|x xr IH]; intros [|o orr] objs g Hd; simpl; auto.
  assert (Hx : has x g = true).
  { unfold has. destruct (proj1 (assoc_names _ x g) (Hd x (or_introl eq_refl))) as (a & ->). reflexivity. }
  unfold p_bind. cbn [p_loc p_glob p_objs]. change (has x (@nil (name * nat))) with false. cbv iota. rewrite Hx.
  apply IH. intros w Hw. rewrite set_assoc_names. apply Hd. now right.
Qed.

Lemma tsub_in_names : forall xs ys ns z, length xs = length ys -> incl ys xs -> incl xs ns ->
  In z ns -> In (tsub xs ys z) ns.
Proof.
  intros xs ys ns z L I I2 Hz. destruct (in_dec Z.eq_dec z xs) as [Hx|Hx].
  - apply I2, I. now apply tsub_in.
  - now rewrite tsub_notin.
Qed.

Lemma exec_sim : forall in_loop st pst s pst' out,
  Inv st -> Sim pst st -> use_ok (map fst (f_glob st)) s = true ->
  p_exec in_loop pst s = POk (pst', out) ->
  exists st', f_exec in_loop st s = Safe (st', out) /\ Sim pst' st'.
Proof.
  intros in_loop st pst s pst' out HI HS U P. pose proof HI as (Hloc & _). pose proof HS as (Pl & _).
  destruct s; cbn [use_ok] in U; try discriminate; [cbn [p_exec] in P ..|].
  - (* LAssignVar x x *)
    apply andb_true_iff in U. destruct U as [E U]. apply Z.eqb_eq in E. subst y.
    destruct (p_ref pst x) as [o|] eqn:R; simpl in P; try discriminate.
    destruct (sim_var pst st x o HI HS R) as (Px & Ho & l & Fx & Hlk & Hr).
    unfold p_bind in P. rewrite Pl in P. unfold has in P. simpl in P. rewrite Px in P.
    rewrite set_assoc_same in P by auto. injection P as <- <-.
    unfold f_exec, desugar, f_exec1, f_declared. rewrite Hloc. unfold has. simpl. rewrite Fx, Hlk, Z.eqb_refl. simpl.
    rewrite store_same by auto. exists st. split; auto.
    destruct pst as [ob gl lo]. simpl in *. now subst lo.
  - (* LAppend *)
    destruct (p_ref pst x) as [o|] eqn:R; simpl in P; try discriminate. injection P as <- <-.
    destruct (sim_var pst st x o HI HS R) as (Px & Ho & l & Fx & Hlk & Hr).
    destruct (append_ok _ l _ v Hr) as (h' & l' & E & UO).
    unfold f_exec, desugar, f_exec1. rewrite Hlk, E. simpl. eexists. split; [reflexivity|]. eapply sim_store; eauto.
  - (* LRemove *)
    destruct (p_ref pst x) as [o|] eqn:R; simpl in P; try discriminate.
    destruct (sim_var pst st x o HI HS R) as (Px & Ho & l & Fx & Hlk & Hr).
    destruct (remove_ok _ l _ v Hr) as (h' & l' & E & UO).
    destruct (remove_first v (p_obj pst o)) as [cs'|] eqn:RF; try discriminate. injection P as <- <-.
    unfold f_exec, desugar, f_exec1. rewrite Hlk, E. simpl. eexists. split; [reflexivity|]. eapply sim_store; eauto.
  - (* LGet *)
    destruct (p_ref pst x) as [o|] eqn:R; simpl in P; try discriminate.
    destruct (sim_var pst st x o HI HS R) as (Px & Ho & l & Fx & Hlk & Hr).
    unfold f_exec, desugar, f_exec1. rewrite Hlk, (get_spec _ l _ i Hr).
    destruct (py_index (length (p_obj pst o)) i); try discriminate. injection P as <- <-.
    simpl. eauto.
  - (* LSet *)
    destruct (p_ref pst x) as [o|] eqn:R; simpl in P; try discriminate.
    destruct (sim_var pst st x o HI HS R) as (Px & Ho & l & Fx & Hlk & Hr).
    destruct (py_index (length (p_obj pst o)) i) as [k|] eqn:PI; try discriminate. injection P as <- <-.
    destruct (set_ok _ l _ i v k Hr PI) as (h' & E & UO).
    unfold f_exec, desugar, f_exec1. rewrite Hlk, E. simpl. eexists. split; [reflexivity|].
    pose proof (sim_store pst st x o l h' l _ HI HS Px Fx UO) as S'.
    unfold f_store in S'. rewrite Hloc in S'. simpl in S'. rewrite set_assoc_same in S' by auto.
    rewrite Hloc. exact S'.
  - (* LCallGet *)
    destruct (p_ref pst x) as [o|] eqn:R; simpl in P; try discriminate.
    destruct (sim_var pst st x o HI HS R) as (Px & Ho & l & Fx & Hlk & Hr).
    unfold f_exec, desugar, f_exec1. rewrite Hlk, (get_spec _ l _ i Hr).
    destruct (py_index (length (p_obj pst o)) i); try discriminate. injection P as <- <-.
    simpl. eauto.
  - (* LAppendRef *)
    destruct (p_ref pst x) as [o|] eqn:R; simpl in P; try discriminate.
    destruct (p_ref pst y) as [oy|] eqn:Ry; simpl in P; try discriminate.
    destruct (sim_var pst st x o HI HS R) as (Px & Ho & l & Fx & Hlk & Hr).
    destruct (sim_var pst st y oy HI HS Ry) as (Py & Hoy & s & Fy & Hlky & Hrs).
    destruct (py_index (length (p_obj pst oy)) i) as [k|] eqn:PI; try discriminate. injection P as <- <-.
    pose proof (append_ref_ok _ l _ s _ i Hr Hrs) as A. rewrite PI in A. destruct A as (h' & l' & E & UO).
    unfold f_exec, desugar, f_exec1. rewrite Hlk, Hlky, E. simpl. eexists. split; [reflexivity|]. eapply sim_store; eauto.
  - (* LRemoveRef *)
    cbn [p_exec] in P.
    destruct (p_ref pst x) as [o|] eqn:R; simpl in P; try discriminate.
    destruct (p_ref pst y) as [oy|] eqn:Ry; simpl in P; try discriminate.
    destruct (sim_var pst st x o HI HS R) as (Px & Ho & l & Fx & Hlk & Hr).
    destruct (sim_var pst st y oy HI HS Ry) as (Py & Hoy & s & Fy & Hlky & Hrs).
    destruct (py_index (length (p_obj pst oy)) i) as [k|] eqn:PI; try discriminate.
    destruct (remove_first (nth k (p_obj pst oy) 0%Z) (p_obj pst o)) as [cs'|] eqn:RF; try discriminate.
    injection P as <- <-.
    destruct (remove_ref_ok _ l _ s _ i Hr Hrs) as [(h' & l' & cs'' & E & UO & Hcs)|(E & Hn)]; [|congruence].
    specialize (Hcs k PI). rewrite RF in Hcs. subst cs''.
    unfold f_exec, desugar, f_exec1. rewrite Hlk, Hlky, E. simpl. eexists. split; [reflexivity|]. eapply sim_store; eauto.
Qed.

Lemma refs_app : forall a b, refs (a ++ b) = refs a ++ refs b.
Proof. induction a as [|x r IH]; intros; simpl; auto. unfold refs in *. simpl. now rewrite IH. Qed.

Lemma sim_decl : forall pst st x h' l' cs,
  Inv st -> Sim pst st -> existsb (Z.eqb x) (map fst (f_glob st)) = false ->
  fresh_ok (f_heap st) h' l' cs ->
  Sim (p_new false pst x cs) (f_declare false st h' x l').
Proof.
  intros pst st x h' l' cs (Hloc & _) (Pl & Pn & Pnames & Pb & Hv) Hx F.
  pose proof Hx as Hx'. rewrite <- Pnames in Hx'.
  destruct (assoc_none_names _ _ _ Hx) as (Fnone & _).
  destruct (assoc_none_names _ _ _ Hx') as (Pnone & _).
  unfold p_new, p_bind, has. rewrite Pl. simpl. rewrite Pnone.
  unfold Sim, f_declare. simpl. rewrite refs_app, !map_app, Pnames. simpl.
  repeat split; auto.
  - apply NoDup_app_iff. repeat split; auto.
    + repeat constructor. simpl. tauto.
    + intros o Ho [<-|[]]. apply Pb in Ho. lia.
  - intros o Ho. rewrite app_length. simpl. apply in_app_or in Ho. destruct Ho as [Ho|[<-|[]]]; [apply Pb in Ho|]; lia.
  - rewrite assoc_app_new in H by auto. rewrite app_length. simpl.
    destruct (Z.eqb x0 x); [inversion H; subst; lia | destruct (Hv _ _ H); lia].
  - rewrite assoc_app_new in H by auto. rewrite assoc_app_new by auto. unfold p_obj. simpl.
    destruct (Z.eqb x0 x).
    + inversion H; subst. exists l'. split; auto. rewrite app_nth2 by lia. rewrite Nat.sub_diag. simpl.
      eapply fresh_rep; eauto.
    + destruct (Hv _ _ H) as (Ho & m & Fm & Rm). exists m. split; auto.
      rewrite app_nth1 by auto.
      destruct F as [(_ & -> & _)|(_ & -> & _)]; auto.
      eapply rep_frame; eauto. intros b Eb. apply nth_error_app_old. eapply rep_bound; eauto.
Qed.

Lemma exec_sim_full : forall in_loop st pst s pst' out,
  Inv st -> Sim pst st -> use_ok (map fst (f_glob st)) s = true ->
  p_exec in_loop pst s = POk (pst', out) ->
  exists st', f_exec in_loop st s = Safe (st', out) /\ Inv st' /\ Sim pst' st' /\
              map fst (f_glob st') = map fst (f_glob st).
Proof.
  intros in_loop st pst s pst' out HI HS U P.
  destruct (exec_sim _ _ _ _ _ _ HI HS U P) as (st' & E & S).
  pose proof (exec_inv in_loop st s HI U) as PO. rewrite E in PO. simpl in PO. destruct PO as [HI' N].
  exists st'. auto.
Qed.

Lemma block_sim : forall in_loop ss st pst pst' out,
  Inv st -> Sim pst st -> forallb (use_ok (map fst (f_glob st))) ss = true ->
  p_block in_loop pst ss = POk (pst', out) ->
  exists st', f_block in_loop st ss = Safe (st', out) /\ Inv st' /\ Sim pst' st' /\
              map fst (f_glob st') = map fst (f_glob st).
Proof.
  induction ss as [|s r IH]; intros st pst pst' out HI HS U P.
  - simpl in *. injection P as <- <-. exists st. auto.
  - cbn [forallb] in U. apply andb_true_iff in U. destruct U as [U1 U2].
    cbn [p_block] in P. cbn [f_block].
    destruct (p_exec in_loop pst s) as [[pst1 o1]|e] eqn:E1; cbn [pbind] in P; try discriminate.
    destruct (p_block in_loop pst1 r) as [[pst2 o2]|e] eqn:E2; cbn [pbind] in P; try discriminate.
    injection P as <- <-.
    destruct (exec_sim_full _ _ _ _ _ _ HI HS U1 E1) as (st1 & F1 & HI1 & HS1 & N1).
    rewrite <- N1 in U2.
    destruct (IH st1 pst1 pst2 o2 HI1 HS1 U2 E2) as (st2 & F2 & HI2 & HS2 & N2).
    exists st2. rewrite F1. cbn [rbind]. rewrite F2. cbn [rbind]. split; [reflexivity|]. split; [exact HI2|]. split; [exact HS2|]. congruence.
Qed.

Lemma setup_sim : forall ss st pst pst' out decl',
  Inv st -> Sim pst st -> setup_ok (map fst (f_glob st)) ss = Some decl' ->
  p_block false pst ss = POk (pst', out) ->
  exists st', f_block false st ss = Safe (st', out) /\ Inv st' /\ Sim pst' st' /\
              map fst (f_glob st') = decl'.
Proof.
  induction ss as [|s r IH]; intros st pst pst' out decl' HI HS H P.
  - simpl in *. injection P as <- <-. injection H as <-. exists st. auto.
  - cbn [p_block] in P. cbn [f_block].
    destruct (p_exec false pst s) as [[pst1 o1]|e] eqn:E1; cbn [pbind] in P; try discriminate.
    destruct (p_block false pst1 r) as [[pst2 o2]|e] eqn:E2; cbn [pbind] in P; try discriminate.
    injection P as <- <-.
    assert (G : forall x h' l' cs,
              (if existsb (Z.eqb x) (map fst (f_glob st)) then None
               else setup_ok (map fst (f_glob st) ++ [x]) r) = Some decl' ->
              fresh_ok (f_heap st) h' l' cs -> pst1 = p_new false pst x cs -> o1 = [] ->
              exists st', (do b <- f_block false (f_declare false st h' x l') r;
                           let '(st2, o2') := b in Safe (st2, [] ++ o2')) = Safe (st', o1 ++ o2) /\
                          Inv st' /\ Sim pst2 st' /\ map fst (f_glob st') = decl').
    { intros x h' l' cs H0 F -> ->.
      destruct (existsb (Z.eqb x) (map fst (f_glob st))) eqn:Ex; try discriminate.
      assert (HI1 : Inv (f_declare false st h' x l')) by (eapply decl_inv; eauto).
      assert (HS1 : Sim (p_new false pst x cs) (f_declare false st h' x l')) by (eapply sim_decl; eauto).
      rewrite <- declare_names with (h := h') (l := l') in H0.
      destruct (IH _ _ _ _ _ HI1 HS1 H0 E2) as (st2 & F2 & HI2 & HS2 & N2).
      exists st2. rewrite F2. cbn [rbind]. auto. }
    destruct s; cbn [setup_ok] in H; try discriminate;
      try (match type of H with (if ?b then _ else _) = _ => destruct b eqn:U; [|discriminate] end;
           destruct (exec_sim_full _ _ _ _ _ _ HI HS U E1) as (st1 & F1 & HI1 & HS1 & N1);
           rewrite <- N1 in H;
           destruct (IH st1 pst1 pst2 o2 decl' HI1 HS1 H E2) as (st2 & F2 & HI2 & HS2 & N2);
           exists st2; rewrite F1; cbn [rbind]; rewrite F2; cbn [rbind]; auto; fail).
    + (* LDeclLit *)
      cbn [p_exec] in E1. injection E1 as E1a E1b.
      destruct (make_ok (f_heap st) items) as (h' & l' & E & F).
      unfold f_exec, desugar, f_exec1. rewrite E. cbn [rbind]. eapply G; eauto.
    + (* LDeclComp *)
      cbn [p_exec] in E1. destruct (c_step c =? 0)%Z eqn:Ez; try discriminate. injection E1 as E1a E1b.
      destruct (comp_ok (f_heap st) c) as (h' & l' & E & F).
      unfold comp_vals in F. rewrite Ez in F.
      unfold f_exec, desugar, f_exec1. rewrite E. cbn [rbind]. eapply G; eauto.
Qed.

Lemma pass_sim : forall body st pst pst' o,
  Inv st -> Sim pst st -> forallb (use_ok (map fst (f_glob st))) body = true ->
  py_pass body pst = POk (pst', o) ->
  exists st', run_pass body st = Safe (st', o) /\ Inv st' /\ Sim pst' st' /\
              map fst (f_glob st') = map fst (f_glob st).
Proof.
  intros body st pst pst' o HI HS U P. unfold py_pass in P.
  destruct (block_sim true body st pst pst' o HI HS U P) as (st1 & F & HI1 & HS1 & N1).
  unfold run_pass. rewrite F. cbn [rbind]. eexists. split; [reflexivity|].
  destruct HI1 as (Hl & Hw & Hb & Hc). destruct HS1 as (Pl & Pn & Pnm & Pb & Hv).
  split; [|split]; [unfold Inv; simpl; auto | unfold Sim; simpl; repeat split; auto | simpl; auto].
  - destruct (Hv _ _ H); auto.
  - destruct (Hv _ _ H) as (_ & l & A & B). exists l. split; auto.
Qed.

Lemma passes_sim : forall body n st pst pst',
  Inv st -> Sim pst st -> forallb (use_ok (map fst (f_glob st))) body = true ->
  py_passes body pst n = POk pst' ->
  exists st', run_passes body st n = Safe st' /\ Inv st' /\ Sim pst' st'.
Proof.
  induction n as [|n IH]; intros st pst pst' HI HS U P; simpl in *.
  - injection P as <-. exists st. auto.
  - destruct (py_pass body pst) as [[pst1 o1]|e] eqn:E; cbn [pbind] in P; try discriminate.
    simpl in P.
    destruct (pass_sim body st pst pst1 o1 HI HS U E) as (st1 & F & HI1 & HS1 & N1).
    rewrite F. cbn [rbind]. simpl. rewrite <- N1 in U. eapply IH; eauto.
Qed.

Lemma Sim_init : Sim p_init f_init.
Proof.
  unfold Sim, p_init, f_init; simpl. repeat split; auto; try constructor; try (intros; contradiction); discriminate.
Qed.

(* Python free of exceptions => the firmware is safe and represents the same lists *)
Lemma owner_unique_sim : forall setup body n pst,
  single_owner setup body = true -> run_py setup body n = POk pst ->
  exists st, run_fw setup body n = Safe st /\ Inv st /\ Sim pst st.
Proof.
  intros setup body n pst G P. unfold single_owner in G.
  destruct (setup_ok [] setup) as [decl|] eqn:S; try discriminate.
  unfold run_py, py_setup in P.
  destruct (p_block false p_init setup) as [[pst0 o0]|e] eqn:E; cbn [pbind] in P; try discriminate.
  simpl in P.
  destruct (setup_sim setup f_init p_init pst0 o0 decl Inv_init Sim_init S E) as (st0 & F & HI0 & HS0 & N0).
  unfold run_fw, run_setup. rewrite F. cbn [rbind]. simpl. rewrite <- N0 in G.
  eapply passes_sim; eauto.
Qed.

(* ------------------------------------------------------------------ live data = live cells *)
Lemma refs_map : forall e, refs e = map snd e.
Proof. induction e as [|[x o] r IH]; simpl; auto; unfold refs in *; simpl in *; now rewrite IH. Qed.

Lemma nodup_nat_id : forall l, NoDup l -> nodup_nat l = l.
Proof.
  induction l as [|a r IH]; intros H; simpl; auto. inversion H as [|? ? Hn Hr]; subst.
  destruct (existsb (Nat.eqb a) r) eqn:E.
  - apply existsb_exists in E. destruct E as (b & Hb & Eb). apply Nat.eqb_eq in Eb. subst b. contradiction.
  - now rewrite IH.
Qed.

Lemma sum_pointwise : forall (A B : Type) (f : A -> nat) (g : B -> nat) (e1 : env A) (e2 : env B),
  map fst e1 = map fst e2 -> NoDup (map fst e1) ->
  (forall x a, assoc x e1 = Some a -> exists b, assoc x e2 = Some b /\ f a = g b) ->
  fold_right (fun xa acc => f (snd xa) + acc) 0 e1 = fold_right (fun xb acc => g (snd xb) + acc) 0 e2.
Proof.
  induction e1 as [|[x a] r IH]; intros [|[y b] r2] N D H; simpl in *; try discriminate; auto.
  injection N as -> N. inversion D as [|? ? Hn Hd]; subst.
  f_equal.
  - destruct (H y a) as (b' & Hb & E). { now rewrite Z.eqb_refl. }
    rewrite Z.eqb_refl in Hb. now injection Hb as <-.
  - apply IH; auto. intros z c Hz.
    assert (Hzy : Z.eqb z y = false).
    { destruct (Z.eqb z y) eqn:Ez; auto. apply Z.eqb_eq in Ez. subst z.
      exfalso. apply Hn. apply assoc_In in Hz. apply (in_map fst) in Hz. exact Hz. }
    specialize (H z c). rewrite Hzy in H. auto.
Qed.

Lemma fold_map_snd : forall (A : Type) (f : A -> nat) (e : env A),
  fold_right (fun o acc => f o + acc) 0 (map snd e) = fold_right (fun xa acc => f (snd xa) + acc) 0 e.
Proof. induction e as [|[x o] r IH]; simpl; auto. Qed.

Lemma sim_live : forall pst st, Inv st -> Sim pst st -> p_live pst = f_live_cells st.
Proof.
  intros pst st (Hloc & (Hnames & _ & _) & _ & Hc) (Pl & Pn & Pnm & Pb & Hv).
  unfold p_live, f_live_cells. rewrite Hc, Pl, app_nil_r.
  rewrite refs_map in Pn. rewrite (nodup_nat_id _ Pn).
  unfold sum_sizes.
  rewrite <- (sum_pointwise nat lval (fun o => length (p_obj pst o)) size (p_glob pst) (f_glob st)).
  - apply fold_map_snd.
  - exact Pnm.
  - now rewrite Pnm.
  - intros x o Hx. destruct (Hv x o Hx) as (_ & l & Hl & Hr). exists l. split; auto.
    symmetry. eapply rep_size; eauto.
Qed.

Lemma owner_unique_py : forall setup body n pst,
  single_owner setup body = true -> run_py setup body n = POk pst ->
  exists st, run_fw setup body n = Safe st /\ wf_heap st /\ tight st /\ f_live_cells st = p_live pst.
Proof.
  intros setup body n pst G P. destruct (owner_unique_sim setup body n pst G P) as (st & F & HI & HS).
  exists st. destruct (Inv_wf_tight st HI) as [W T]. split; [exact F|]. split; [exact W|]. split; [exact T|].
  symmetry. now apply sim_live.
Qed.

Lemma no_leak_py : forall setup body k p1 p2,
  single_owner setup body = true ->
  run_py setup body k = POk p1 -> run_py setup body (S k) = POk p2 -> p_live p1 = p_live p2 ->
  exists s1 s2, run_fw setup body k = Safe s1 /\ run_fw setup body (S k) = Safe s2 /\
                f_live_cells s1 = f_live_cells s2.
Proof.
  intros setup body k p1 p2 G P1 P2 L.
  destruct (owner_unique_py _ _ _ _ G P1) as (s1 & F1 & _ & _ & C1).
  destruct (owner_unique_py _ _ _ _ G P2) as (s2 & F2 & _ & _ & C2).
  exists s1, s2. split; [exact F1|]. split; [exact F2|]. congruence.
Qed.

(* ================================================================== histories *)
Lemma passes_seq_inv : forall bodies st,
  Inv st -> forallb (forallb (use_ok (map fst (f_glob st)))) bodies = true ->
  match run_passes_seq bodies st with Safe st' => Inv st' | Unsafe k => k = OutOfBounds end.
Proof.
  induction bodies as [|b r IH]; intros st HI U; simpl in *; auto.
  apply andb_true_iff in U. destruct U as [U1 U2].
  pose proof (pass_inv b st HI U1) as H.
  destruct (run_pass b st) as [[st1 o]|k]; simpl in *; auto.
  destruct H as [HI1 N]. apply IH; auto. now rewrite N.
Qed.

Lemma owner_unique_fw_seq : forall setup bodies,
  single_owner_seq setup bodies = true ->
  match run_fw_seq setup bodies with
  | Safe st => wf_heap st /\ tight st
  | Unsafe k => k = OutOfBounds
  end.
Proof.
  intros setup bodies G. unfold single_owner_seq in G.
  destruct (setup_ok [] setup) as [decl|] eqn:S; try discriminate.
  pose proof (setup_inv setup f_init decl Inv_init S) as H.
  unfold run_fw_seq, run_setup.
  destruct (f_block false f_init setup) as [[st0 o0]|k]; simpl in *; auto.
  destruct H as [HI0 N0]. rewrite <- N0 in G.
  pose proof (passes_seq_inv bodies st0 HI0 G) as H.
  destruct (run_passes_seq bodies st0); auto. now apply Inv_wf_tight.
Qed.

Lemma passes_seq_sim : forall bodies st pst pst',
  Inv st -> Sim pst st -> forallb (forallb (use_ok (map fst (f_glob st)))) bodies = true ->
  py_passes_seq bodies pst = POk pst' ->
  exists st', run_passes_seq bodies st = Safe st' /\ Inv st' /\ Sim pst' st'.
Proof.
  induction bodies as [|b r IH]; intros st pst pst' HI HS U P; simpl in *.
  - injection P as <-. exists st. auto.
  - apply andb_true_iff in U. destruct U as [U1 U2].
    destruct (py_pass b pst) as [[pst1 o1]|e] eqn:E; cbn [pbind] in P; try discriminate.
    simpl in P.
    destruct (pass_sim b st pst pst1 o1 HI HS U1 E) as (st1 & F & HI1 & HS1 & N1).
    rewrite F. cbn [rbind]. simpl. rewrite <- N1 in U2. eapply IH; eauto.
Qed.

Lemma owner_unique_py_seq : forall setup bodies pst,
  single_owner_seq setup bodies = true -> run_py_seq setup bodies = POk pst ->
  exists st, run_fw_seq setup bodies = Safe st /\ wf_heap st /\ tight st /\ f_live_cells st = p_live pst.
Proof.
  intros setup bodies pst G P. unfold single_owner_seq in G.
  destruct (setup_ok [] setup) as [decl|] eqn:S; try discriminate.
  unfold run_py_seq, py_setup in P.
  destruct (p_block false p_init setup) as [[pst0 o0]|e] eqn:E; cbn [pbind] in P; try discriminate.
  simpl in P.
  destruct (setup_sim setup f_init p_init pst0 o0 decl Inv_init Sim_init S E) as (st0 & F & HI0 & HS0 & N0).
  unfold run_fw_seq, run_setup. rewrite F. cbn [rbind]. simpl. rewrite <- N0 in G.
  destruct (passes_seq_sim bodies st0 pst0 pst HI0 HS0 G P) as (st & F2 & HI & HS).
  exists st. destruct (Inv_wf_tight st HI) as [W T]. split; [exact F2|]. split; [exact W|]. split; [exact T|].
  symmetry. now apply sim_live.
Qed.

(* the history with one more pass: constant live data => constant heap usage *)
Lemma no_leak_py_seq : forall setup bodies b p1 p2,
  single_owner_seq setup (bodies ++ [b]) = true ->
  run_py_seq setup bodies = POk p1 -> run_py_seq setup (bodies ++ [b]) = POk p2 -> p_live p1 = p_live p2 ->
  exists s1 s2, run_fw_seq setup bodies = Safe s1 /\ run_fw_seq setup (bodies ++ [b]) = Safe s2 /\
                f_live_cells s1 = f_live_cells s2.
Proof.
  intros setup bodies b p1 p2 G P1 P2 L.
  assert (G1 : single_owner_seq setup bodies = true).
  { unfold single_owner_seq in *. destruct (setup_ok [] setup); auto.
    rewrite forallb_app in G. apply andb_true_iff in G. tauto. }
  destruct (owner_unique_py_seq _ _ _ G1 P1) as (s1 & F1 & _ & _ & C1).
  destruct (owner_unique_py_seq _ _ _ G P2) as (s2 & F2 & _ & _ & C2).
  exists s1, s2. split; [exact F1|]. split; [exact F2|]. congruence.
Qed.

(* a gated body only ever executes guarded statements *)
Lemma select_ok : forall decl g gates body,
  forallb (use_ok decl) body = true -> forallb (use_ok decl) (select g gates body) = true.
Proof.
  intros decl g. induction gates as [|t gr IH]; intros [|s br] H; simpl in *; auto.
  apply andb_true_iff in H. destruct H as [H1 H2].
  destruct (t <? g)%Z; simpl; auto. rewrite H1. simpl. auto.
Qed.

Lemma single_owner_gated : forall setup body gates gvals,
  single_owner setup body = true ->
  single_owner_seq setup (map (fun g => select g gates body) gvals) = true.
Proof.
  intros setup body gates gvals G. unfold single_owner, single_owner_seq in *.
  destruct (setup_ok [] setup) as [decl|]; auto.
  induction gvals as [|g r IH]; simpl; auto. rewrite select_ok; auto.
Qed.

Lemma run_passes_repeat : forall body n st, run_passes body st n = run_passes_seq (repeat body n) st.
Proof.
  induction n as [|n IH]; intros st; simpl; auto.
  destruct (run_pass body st) as [[st1 o]|k]; simpl; auto.
Qed.

Lemma run_fw_repeat : forall setup body n, run_fw setup body n = run_fw_seq setup (repeat body n).
Proof.
  intros. unfold run_fw, run_fw_seq. destruct (run_setup setup) as [[st o]|k]; simpl; auto.
  apply run_passes_repeat.
Qed.

(* ================================================================== deep-copy assignment *)
Lemma assign_upd_ok : forall h d s cd cs,
  rep h d cd -> rep h s cs -> (data d = None \/ data d <> data s) ->
  exists h' l', list_assign h d s false = Safe (h', l') /\ upd_ok h d h' l' cs.
Proof.
  intros h d s cd cs Hd Hs Hne. rewrite (assign_spec h d s cd cs Hd Hs Hne).
  destruct cs as [|c r]; do 2 eexists; (split; [reflexivity|]).
  - apply (clear_ok h d cd Hd).
  - apply (replace_ok h d cd (c :: r) Hd). discriminate.
Qed.

Lemma exec_inv2 : forall in_loop st s,
  Inv st -> use_ok2 (map fst (f_glob st)) s = true -> post_ok st (f_exec in_loop st s).
Proof.
  intros in_loop st s HI U2. unfold use_ok2 in U2.
  destruct (use_ok (map fst (f_glob st)) s) eqn:U. { now apply exec_inv. }
  simpl in U2. destruct s; try discriminate.
  apply andb_true_iff in U2. destruct U2 as [Ux Uy].
  assert (Exy : Z.eqb x y = false).
  { destruct (Z.eqb x y) eqn:E; auto. simpl in U. rewrite E, Ux in U. discriminate. }
  pose proof HI as (Hloc & (_ & Hown & _) & _).
  destruct (Inv_var st x HI Ux) as (lx & cx & Hx & Hlkx & Hrx).
  destruct (Inv_var st y HI Uy) as (ly & cy & Hy & Hlky & Hry).
  assert (Hne : x <> y) by (intro; subst; rewrite Z.eqb_refl in Exy; discriminate).
  assert (D : data lx = None \/ data lx <> data ly).
  { destruct (data lx) as [b|] eqn:Dx; auto. right. intro Heq.
    apply (footprint_distinct lval optl (f_glob st) x y lx ly b Hown Hx Hy Hne); unfold optl;
      [rewrite Dx | rewrite <- Heq]; simpl; auto. }
  destruct (assign_upd_ok _ lx ly cx cy Hrx Hry D) as (h' & l' & E & UO).
  unfold f_exec, desugar, f_exec1, f_declared. rewrite Hloc. unfold has at 1. simpl. unfold has. rewrite Hx.
  rewrite Hlkx, Hlky, Exy, E. simpl. split; [eapply store_inv; eauto | now apply store_names].
Qed.

Lemma block_inv2 : forall in_loop ss st,
  Inv st -> forallb (use_ok2 (map fst (f_glob st))) ss = true -> post_ok st (f_block in_loop st ss).
Proof.
  induction ss as [|s r IH]; intros st HI U; simpl in *.
  - auto.
  - apply andb_true_iff in U. destruct U as [U1 U2].
    pose proof (exec_inv2 in_loop st s HI U1) as H1.
    destruct (f_exec in_loop st s) as [[st1 o1]|k]; simpl in *; auto.
    destruct H1 as [HI1 N1]. rewrite <- N1 in U2.
    pose proof (IH st1 HI1 U2) as H2.
    destruct (f_block in_loop st1 r) as [[st2 o2]|k]; simpl in *; auto.
    destruct H2 as [HI2 N2]. split; auto. congruence.
Qed.

Lemma pass_inv2 : forall body st,
  Inv st -> forallb (use_ok2 (map fst (f_glob st))) body = true -> post_ok st (run_pass body st).
Proof.
  intros body st HI U. unfold run_pass. pose proof (block_inv2 true body st HI U) as H.
  destruct (f_block true st body) as [[st1 o]|k]; simpl in *; auto.
  destruct H as [(Hl & Hw & Hb & Hc) N]. split; auto. unfold Inv. simpl. auto.
Qed.

Lemma passes_seq_inv2 : forall bodies st,
  Inv st -> forallb (forallb (use_ok2 (map fst (f_glob st)))) bodies = true ->
  match run_passes_seq bodies st with Safe st' => Inv st' | Unsafe k => k = OutOfBounds end.
Proof.
  induction bodies as [|b r IH]; intros st HI U; simpl in *; auto.
  apply andb_true_iff in U. destruct U as [U1 U2].
  pose proof (pass_inv2 b st HI U1) as H.
  destruct (run_pass b st) as [[st1 o]|k]; simpl in *; auto.
  destruct H as [HI1 N]. apply IH; auto. now rewrite N.
Qed.

Lemma owner_or_clone_fw_seq : forall setup bodies,
  owner_or_clone_seq setup bodies = true ->
  match run_fw_seq setup bodies with
  | Safe st => wf_heap st /\ tight st
  | Unsafe k => k = OutOfBounds
  end.
Proof.
  intros setup bodies G. unfold owner_or_clone_seq in G.
  destruct (setup_ok [] setup) as [decl|] eqn:S; try discriminate.
  pose proof (setup_inv setup f_init decl Inv_init S) as H.
  unfold run_fw_seq, run_setup.
  destruct (f_block false f_init setup) as [[st0 o0]|k]; simpl in *; auto.
  destruct H as [HI0 N0]. rewrite <- N0 in G.
  pose proof (passes_seq_inv2 bodies st0 HI0 G) as H.
  destruct (run_passes_seq bodies st0); auto. now apply Inv_wf_tight.
Qed.

(* ================================================================== value semantics: EVERY statement keeps the invariant *)
Lemma remove_split : forall (A : Type) x (e : env A) a, assoc x e = Some a ->
  exists e1 e2, e = e1 ++ (x, a) :: e2 /\ env_remove x e = e1 ++ e2 /\
                remove_name x (map fst e) = map fst (e1 ++ e2).
Proof.
  induction e as [|[y b] r IH]; intros a H; simpl in *; try discriminate.
  destruct (Z.eqb x y) eqn:E.
  - apply Z.eqb_eq in E. subst y. inversion H; subst. exists [], r. simpl. auto.
  - destruct (IH a H) as (e1 & e2 & -> & R & N). exists ((y, b) :: e1), e2. simpl. rewrite R, N. auto.
Qed.

(* a variable goes out of scope: its destructor releases its buffer, every other list is untouched *)
Lemma drop_inv : forall st x l,
  Inv st -> assoc x (f_glob st) = Some l ->
  Inv (mkf (kill (f_heap st) (data l)) (env_remove x (f_glob st)) []).
Proof.
  intros st x l (Hloc & (Hnames & Hown & Hall) & Hb & Hc) Hx.
  destruct (remove_split _ x _ l Hx) as (e1 & e2 & He & Hrm & _).
  unfold Inv, wf_env. simpl. rewrite Hrm. rewrite He in *. clear He Hrm Hx.
  rewrite owned_app in *. simpl in *. fold (owned e2) in *.
  rewrite sum_sizes_app in *. simpl in *.
  rewrite !app_length in *.
  apply Forall_app in Hall. destruct Hall as (Hall1 & Hall2).
  inversion Hall2 as [|? ? Hl Hall2']; subst. simpl in Hl. destruct Hl as (cs & Hr).
  apply NoDup_app_iff in Hown. destruct Hown as (N1 & N2 & D12).
  apply NoDup_app_iff in N2. destruct N2 as (Nl & N3 & D23).
  destruct (kill_counts _ l cs Hr) as [KB KC].
  repeat split; auto.
  - rewrite map_app in *. simpl in *. eapply NoDup_remove_1; eauto.
  - apply NoDup_app_iff. repeat split; auto. intros b Hb1 Hb2. apply (D12 b); auto. apply in_or_app; auto.
  - apply Forall_app. split.
    + rewrite Forall_forall in *. intros [y m] Hy. specialize (Hall1 _ Hy). simpl in *.
      eapply wf_lval_frame; eauto. intros b Eb. apply nth_error_kill_other. intro El.
      apply (D12 b).
      * apply in_flat_map. exists (y, m). split; auto. unfold optl. simpl. rewrite Eb. simpl; auto.
      * apply in_or_app. left. unfold optl. rewrite El. simpl; auto.
    + rewrite Forall_forall in *. intros [y m] Hy. specialize (Hall2' _ Hy). simpl in *.
      eapply wf_lval_frame; eauto. intros b Eb. apply nth_error_kill_other. intro El.
      apply (D23 b).
      * unfold optl. rewrite El. simpl; auto.
      * apply in_flat_map. exists (y, m). split; auto. unfold optl. simpl. rewrite Eb. simpl; auto.
  - lia.
  - lia.
Qed.

Lemma assign_upd_ok_any : forall h d s cd cs,
  rep h d cd -> rep h s cs ->
  exists h' l', list_assign h d s false = Safe (h', l') /\ upd_ok h d h' l' cs.
Proof.
  intros h d s cd cs Hd Hs. rewrite (assign_spec_any h d s cd cs Hd Hs).
  destruct cs as [|c r]; do 2 eexists; (split; [reflexivity|]).
  - apply (clear_ok h d cd Hd).
  - apply (replace_ok h d cd (c :: r) Hd). discriminate.
Qed.

(* x = <temporary>: the move assignment releases x's buffer and adopts the temporary's *)
Lemma move_assign_ok : forall h l cs h1 tmp cs',
  rep h l cs -> fresh_ok h h1 tmp cs' ->
  exists h2, list_move_assign h1 l tmp = Safe (h2, tmp) /\ upd_ok h l h2 tmp cs'.
Proof.
  intros h l cs h1 tmp cs' Hr [(-> & -> & ->)|(Hne & -> & ->)]; unfold list_move_assign.
  - rewrite (hfree_rep h l cs Hr). cbn [rbind]. eexists. split; [reflexivity|]. apply (clear_ok h l cs Hr).
  - rewrite (hfree_app_rep h _ l cs Hr). cbn [rbind]. rewrite (kill_app h _ l cs Hr).
    eexists. split; [reflexivity|]. apply (replace_ok h l cs cs' Hr Hne).
Qed.

Lemma has_names : forall (A : Type) x (e : env A), has x e = existsb (Z.eqb x) (map fst e).
Proof.
  intros A x e. unfold has. induction e as [|[y a] r IH]; simpl; auto.
  destruct (Z.eqb x y); simpl; auto.
Qed.

Lemma declared_names : forall st x, f_loc st = [] -> f_declared st x = existsb (Z.eqb x) (map fst (f_glob st)).
Proof. intros st x Hl. unfold f_declared. rewrite Hl. simpl. apply has_names. Qed.

Lemma lookup_undeclared : forall st x, f_loc st = [] ->
  existsb (Z.eqb x) (map fst (f_glob st)) = false -> f_lookup st x = null_list.
Proof.
  intros st x Hl H. destruct (assoc_none_names _ _ _ H) as (Hn & _).
  unfold f_lookup. rewrite Hl. simpl. now rewrite Hn.
Qed.

Lemma rep_null : forall h, rep h null_list [].
Proof. intros. unfold rep. simpl. auto. Qed.

Lemma post_ok_setup : forall st r, post_ok st r -> post_setup (map fst (f_glob st)) r.
Proof. intros st [[st' o]|k] H; simpl in *; auto. Qed.

(* first binding of a name that may or may not exist yet: x = <fresh value> *)
Lemma bind_fresh_inv : forall st x h1 tmp cs',
  Inv st -> fresh_ok (f_heap st) h1 tmp cs' ->
  post_setup (add1 (map fst (f_glob st)) x)
    (do r2 <- list_move_assign h1 (f_lookup st x) tmp; let '(h2, l) := r2 in
     Safe ((if f_declared st x then f_store st h2 x l else f_declare false st h2 x l), @nil Z)).
Proof.
  intros st x h1 tmp cs' HI F. pose proof HI as (Hloc & _).
  rewrite (declared_names st x Hloc). unfold add1, inb.
  destruct (existsb (Z.eqb x) (map fst (f_glob st))) eqn:Ex.
  - destruct (Inv_var st x HI Ex) as (l & cs & Hx & Hlk & Hr). rewrite Hlk.
    destruct (move_assign_ok _ l cs h1 tmp cs' Hr F) as (h2 & E & UO). rewrite E. simpl.
    split; [eapply store_inv; eauto | first [now apply store_names | (unfold f_store; rewrite Hloc; simpl; apply set_assoc_names)]].
  - rewrite (lookup_undeclared st x Hloc Ex).
    destruct (move_assign_ok _ null_list [] h1 tmp cs' (rep_null _) F) as (h2 & E & UO). rewrite E. simpl.
    assert (h2 = h1).
    { unfold list_move_assign in E. simpl in E. now injection E as <-. }
    subst h2. split; [eapply decl_inv; eauto | first [apply declare_names | (unfold f_declare; simpl; now rewrite map_app)]].
Qed.

(* x = <copy of the well-formed list s> into a name that may or may not exist yet *)
Lemma bind_copy_inv : forall st x s cs same,
  Inv st -> rep (f_heap st) s cs ->
  (same = true -> exists l, assoc x (f_glob st) = Some l /\ f_lookup st x = l) ->
  post_setup (add1 (map fst (f_glob st)) x)
    (if f_declared st x then
       do r <- list_assign (f_heap st) (f_lookup st x) s same; let '(h1, l) := r in
       Safe (f_store st h1 x l, @nil Z)
     else
       do r <- list_copy (f_heap st) s; let '(h1, l) := r in
       Safe (f_declare false st h1 x l, [])).
Proof.
  intros st x s cs same HI Hs Hsame. pose proof HI as (Hloc & _).
  rewrite (declared_names st x Hloc). unfold add1, inb.
  destruct (existsb (Z.eqb x) (map fst (f_glob st))) eqn:Ex.
  - destruct (Inv_var st x HI Ex) as (l & cd & Hx & Hlk & Hr). rewrite Hlk.
    destruct same.
    + unfold list_assign. simpl. rewrite store_same by auto. split; auto.
    + destruct (assign_upd_ok_any _ l s cd cs Hr Hs) as (h' & l' & E & UO). rewrite E. simpl.
      split; [eapply store_inv; eauto | first [now apply store_names | (unfold f_store; rewrite Hloc; simpl; apply set_assoc_names)]].
  - destruct (copy_ok _ s cs Hs) as (h' & l' & E & F). rewrite E. simpl.
    split; [eapply decl_inv; eauto | first [apply declare_names | (unfold f_declare; simpl; now rewrite map_app)]].
Qed.

Lemma exec1_inv_v : forall il st s d',
  Inv st -> desugar s = None -> vs_ok1 (map fst (f_glob st)) s = Some d' -> post_setup d' (f_exec1 il st s).
Proof.
  intros il st s d' HI DS V. pose proof HI as (Hloc & _).
  assert (USE : use_ok (map fst (f_glob st)) s = true -> d' = map fst (f_glob st) ->
                post_setup d' (f_exec1 il st s)).
  { intros U ->. apply post_ok_setup. pose proof (exec_inv il st s HI U) as PO.
    unfold f_exec in PO. now rewrite DS in PO. }
  destruct s; cbn [vs_ok1] in V; try discriminate; unfold inb in V.
  - (* LDeclLit *)
    destruct (existsb (Z.eqb x) (map fst (f_glob st))) eqn:Ex; try discriminate. injection V as <-.
    destruct (make_ok (f_heap st) items) as (h' & l' & E & F). unfold f_exec1. rewrite E. simpl.
    split; [eapply decl_inv; eauto | first [apply declare_names | (unfold f_declare; simpl; now rewrite map_app)]].
  - (* LDeclComp *)
    destruct (existsb (Z.eqb x) (map fst (f_glob st))) eqn:Ex; try discriminate. injection V as <-.
    destruct (comp_ok (f_heap st) c) as (h' & l' & E & F). unfold f_exec1. rewrite E. simpl.
    split; [eapply decl_inv; eauto | first [apply declare_names | (unfold f_declare; simpl; now rewrite map_app)]].
  - (* LAssignVar *)
    destruct (existsb (Z.eqb y) (map fst (f_glob st))) eqn:Ey; try discriminate. injection V as <-.
    destruct (Inv_var st y HI Ey) as (ly & cy & Hy & Hlky & Hry).
    unfold f_exec1. rewrite Hlky. eapply bind_copy_inv; eauto.
    intros Es. apply Z.eqb_eq in Es. subst y. eauto.
  - (* LAppend *) destruct (existsb (Z.eqb x) (map fst (f_glob st))) eqn:Ex; try discriminate. injection V as <-. apply USE; auto.
  - (* LRemove *) destruct (existsb (Z.eqb x) (map fst (f_glob st))) eqn:Ex; try discriminate. injection V as <-. apply USE; auto.
  - (* LGet *) destruct (existsb (Z.eqb x) (map fst (f_glob st))) eqn:Ex; try discriminate. injection V as <-. apply USE; auto.
  - (* LSet *) destruct (existsb (Z.eqb x) (map fst (f_glob st))) eqn:Ex; try discriminate. injection V as <-. apply USE; auto.
  - (* LLocalDeclLit *)
    injection V as <-.
    destruct (make_ok (f_heap st) items) as (h' & l' & E & F). unfold f_exec1. rewrite E. cbn [rbind].
    eapply bind_fresh_inv; eauto.
  - (* LLocalDeclComp *)
    injection V as <-.
    destruct (comp_ok (f_heap st) c) as (h' & l' & E & F). unfold f_exec1. rewrite E. cbn [rbind].
    eapply bind_fresh_inv; eauto.
  - (* LCallGet *) destruct (existsb (Z.eqb x) (map fst (f_glob st))) eqn:Ex; try discriminate. injection V as <-. apply USE; auto.
  - (* LAppendRef *)
    destruct (existsb (Z.eqb x) (map fst (f_glob st)) && existsb (Z.eqb y) (map fst (f_glob st))) eqn:Ex; try discriminate.
    injection V as <-. apply USE; auto.
  - (* LRemoveRef *)
    destruct (existsb (Z.eqb x) (map fst (f_glob st)) && existsb (Z.eqb y) (map fst (f_glob st))) eqn:Ex; try discriminate.
    injection V as <-. apply USE; auto.
  - (* LAssignRet *)
    destruct (existsb (Z.eqb y) (map fst (f_glob st))) eqn:Ey; try discriminate. injection V as <-.
    destruct (Inv_var st y HI Ey) as (ly & cy & Hy & Hlky & Hry).
    unfold f_exec1. rewrite Hlky. eapply bind_copy_inv; eauto. discriminate.
  - (* LDrop *)
    destruct (existsb (Z.eqb x) (map fst (f_glob st))) eqn:Ex; try discriminate. injection V as <-.
    destruct (Inv_var st x HI Ex) as (l & cs & Hx & Hlk & Hr).
    unfold f_exec1, list_destroy. rewrite Hlk, (hfree_rep _ l cs Hr). simpl. rewrite Hloc.
    split; [now apply drop_inv|].
    destruct (remove_split _ x _ l Hx) as (e1 & e2 & _ & R & N). now rewrite R, N.
Qed.

Lemma block1_inv_v : forall il ss st d',
  Inv st -> Forall (fun s => desugar s = None) ss -> vs_block1 (map fst (f_glob st)) ss = Some d' ->
  post_setup d' (f_block1 il st ss).
Proof.
  induction ss as [|s r IH]; intros st d' HI DS V; simpl in *.
  - injection V as <-. auto.
  - inversion DS as [|? ? D1 D2]; subst.
    destruct (vs_ok1 (map fst (f_glob st)) s) as [d1|] eqn:V1; try discriminate.
    pose proof (exec1_inv_v il st s d1 HI D1 V1) as H1.
    destruct (f_exec1 il st s) as [[st1 o1]|k]; simpl in *; auto.
    destruct H1 as [HI1 N1]. rewrite <- N1 in V.
    pose proof (IH st1 d' HI1 D2 V) as H2.
    destruct (f_block1 il st1 r) as [[st2 o2]|k]; simpl in *; auto.
Qed.

Lemma tuple_block_simple : forall xs rs, Forall (fun s => desugar s = None) (tuple_block xs rs).
Proof.
  intros xs rs. unfold tuple_block. apply Forall_app; split; [|apply Forall_app; split].
  - generalize 0. induction rs as [|[y|items] r IH]; intros k; simpl; constructor; auto.
  - generalize 0. induction xs as [|x r IH]; intros k; simpl; constructor; auto.
  - generalize 0. induction (length rs) as [|n IH]; intros k; simpl; constructor; auto.
Qed.

Lemma desugar_simple : forall s b, desugar s = Some b -> Forall (fun s0 => desugar s0 = None) b.
Proof.
  intros s b H. destruct s; simpl in H; try discriminate; injection H as <-;
    try (repeat constructor; fail). apply tuple_block_simple.
Qed.

Lemma exec_inv_v : forall il st s d',
  Inv st -> vs_ok (map fst (f_glob st)) s = Some d' -> post_setup d' (f_exec il st s).
Proof.
  intros il st s d' HI V. unfold vs_ok in V. unfold f_exec.
  destruct (desugar s) as [b|] eqn:D.
  - eapply block1_inv_v; eauto. eapply desugar_simple; eauto.
  - now apply exec1_inv_v.
Qed.

Lemma block_inv_v : forall il ss st d',
  Inv st -> vs_block (map fst (f_glob st)) ss = Some d' -> post_setup d' (f_block il st ss).
Proof.
  induction ss as [|s r IH]; intros st d' HI V; simpl in *.
  - injection V as <-. auto.
  - destruct (vs_ok (map fst (f_glob st)) s) as [d1|] eqn:V1; try discriminate.
    pose proof (exec_inv_v il st s d1 HI V1) as H1.
    destruct (f_exec il st s) as [[st1 o1]|k]; simpl in *; auto.
    destruct H1 as [HI1 N1]. rewrite <- N1 in V.
    pose proof (IH st1 d' HI1 V) as H2.
    destruct (f_block il st1 r) as [[st2 o2]|k]; simpl in *; auto.
Qed.

Lemma passes_seq_inv_v : forall bodies st,
  Inv st -> vs_seq (map fst (f_glob st)) bodies = true ->
  match run_passes_seq bodies st with Safe st' => Inv st' | Unsafe k => k = OutOfBounds end.
Proof.
  induction bodies as [|b r IH]; intros st HI V; simpl in *; auto.
  destruct (vs_block (map fst (f_glob st)) b) as [d1|] eqn:V1; try discriminate.
  pose proof (block_inv_v true b st d1 HI V1) as H. unfold run_pass.
  destruct (f_block true st b) as [[st1 o]|k]; simpl in *; auto.
  destruct H as [HI1 N1]. pose proof HI1 as (Hl1 & _).
  assert (E : mkf (f_heap st1) (f_glob st1) [] = st1) by (destruct st1; simpl in *; now subst).
  rewrite E. apply IH; auto. now rewrite N1.
Qed.

(* the theorem: with value semantics every history of every list program whose names are declared before they are
   used is memory-safe up to Python's IndexError condition, and every reachable heap holds exactly the cells of
   the named lists - no use after free, no double free, no leak *)
Theorem value_safe_fw_seq : forall setup bodies,
  value_ok setup bodies = true ->
  match run_fw_seq setup bodies with
  | Safe st => wf_heap st /\ tight st
  | Unsafe k => k = OutOfBounds
  end.
Proof.
  intros setup bodies G. unfold value_ok in G.
  destruct (vs_block [] setup) as [d|] eqn:S; try discriminate.
  pose proof (block_inv_v false setup f_init d Inv_init S) as H.
  unfold run_fw_seq, run_setup.
  destruct (f_block false f_init setup) as [[st0 o0]|k]; simpl in *; auto.
  destruct H as [HI0 N0]. rewrite <- N0 in G.
  pose proof (passes_seq_inv_v bodies st0 HI0 G) as H.
  destruct (run_passes_seq bodies st0); auto. now apply Inv_wf_tight.
Qed.
