(* C09 - read-only sharing (Device/DListProg.v, [frozen_ok]): lists returned by user functions / copied by `x = y`
   into declared lists are deep copies in the firmware and aliases in CPython; as long as the names involved are
   only read, the CPython run is simulated by the firmware run: memory-safe, every name owns its buffer, and the
   heap holds CPython's live data counted per name. *)
From Coq Require Import ZArith List Bool Arith Lia Permutation.
From RV Require Import Device.DList Device.DListProg Proofs.DListP Proofs.DTupleP Proofs.DListProgP.
Import ListNotations.

Definition Sim2 (fz : list name) (pst : pstate) (st : fstate) : Prop :=
  p_loc pst = [] /\
  map fst (p_glob pst) = map fst (f_glob st) /\
  (forall x o, assoc x (p_glob pst) = Some o ->
     o < length (p_objs pst) /\
     exists l, assoc x (f_glob st) = Some l /\ rep (f_heap st) l (p_obj pst o)) /\
  (forall x y o, x <> y -> assoc x (p_glob pst) = Some o -> assoc y (p_glob pst) = Some o ->
     existsb (Z.eqb x) fz = true).

Lemma sim2_var : forall fz pst st x o, Inv st -> Sim2 fz pst st -> p_ref pst x = POk o ->
  assoc x (p_glob pst) = Some o /\ o < length (p_objs pst) /\
  exists l, assoc x (f_glob st) = Some l /\ f_lookup st x = l /\ rep (f_heap st) l (p_obj pst o).
Proof.
  intros fz pst st x o (Hloc & _) (Pl & _ & Hv & _) R. unfold p_ref in R. rewrite Pl in R. simpl in R.
  destruct (assoc x (p_glob pst)) as [o'|] eqn:E; inversion R; subst.
  destruct (Hv x o E) as (Ho & l & Hx & Hr). repeat split; auto.
  exists l. repeat split; auto. now apply lookup_glob.
Qed.

(* an in-place update of the object of a name that shares it with nobody *)
Lemma sim2_store : forall fz pst st x o l h' l' cs',
  Inv st -> Sim2 fz pst st -> existsb (Z.eqb x) fz = false ->
  assoc x (p_glob pst) = Some o -> assoc x (f_glob st) = Some l ->
  upd_ok (f_heap st) l h' l' cs' ->
  Sim2 fz (mkp (upd (p_objs pst) o cs') (p_glob pst) (p_loc pst)) (f_store st h' x l').
Proof.
  intros fz pst st x o l h' l' cs' (Hloc & (_ & Hown & Hall) & _) (Pl & Pnames & Hv & Hsh) Hfz Px Fx U.
  destruct (Hv x o Px) as (Ho & _).
  unfold Sim2. simpl. unfold f_store. rewrite Hloc. simpl.
  split; [exact Pl|]. split; [now rewrite set_assoc_names|]. split; [|exact Hsh].
  intros x0 o0 H. rewrite upd_length. split; [destruct (Hv _ _ H); auto|].
  rewrite assoc_set_assoc, Fx. unfold p_obj. simpl.
  destruct (Z.eqb x0 x) eqn:E.
  - apply Z.eqb_eq in E. subst x0. assert (o0 = o) by congruence. subst o0.
    exists l'. split; auto. rewrite nth_upd_same by auto. apply (uo_rep _ _ _ _ _ U).
  - assert (Hne : x0 <> x) by (intro; subst; rewrite Z.eqb_refl in E; discriminate).
    destruct (Hv x0 o0 H) as (Ho0 & m & Fm & Rm). exists m. split; auto.
    assert (o <> o0).
    { intro; subst o0. assert (Hc : existsb (Z.eqb x) fz = true) by (apply (Hsh x x0 o); auto). congruence. }
    rewrite nth_upd_other by auto. eapply rep_frame; eauto.
    intros b Eb. apply (uo_frame _ _ _ _ _ U).
    * eapply rep_bound; eauto.
    * intro El. apply (footprint_distinct lval optl (f_glob st) x0 x m l b Hown Fm Fx Hne);
        unfold optl; [rewrite Eb | rewrite El]; simpl; auto.
Qed.

(* re-binding x to the object of y (CPython) / replacing x's buffer by a copy of y's contents (firmware) *)
Lemma sim2_rebind : forall fz pst st x y o oy l h' l',
  Inv st -> Sim2 fz pst st -> x <> y ->
  existsb (Z.eqb x) fz = true -> existsb (Z.eqb y) fz = true ->
  assoc x (p_glob pst) = Some o -> assoc y (p_glob pst) = Some oy -> assoc x (f_glob st) = Some l ->
  upd_ok (f_heap st) l h' l' (p_obj pst oy) ->
  Sim2 fz (mkp (p_objs pst) (set_assoc x oy (p_glob pst)) (p_loc pst)) (f_store st h' x l').
Proof.
  intros fz pst st x y o oy l h' l' (Hloc & (_ & Hown & Hall) & _) (Pl & Pnames & Hv & Hsh) Hne Fzx Fzy Px Py Fx U.
  unfold Sim2. simpl. unfold f_store. rewrite Hloc. simpl.
  split; [exact Pl|]. split; [now rewrite !set_assoc_names|]. split.
  - intros x0 o0 H. rewrite assoc_set_assoc, Px in H. rewrite assoc_set_assoc, Fx. unfold p_obj. simpl.
    destruct (Z.eqb x0 x) eqn:E.
    + injection H as <-. destruct (Hv y oy Py) as (Hoy & _). split; auto.
      exists l'. split; auto. apply (uo_rep _ _ _ _ _ U).
    + assert (Hn0 : x0 <> x) by (intro; subst; rewrite Z.eqb_refl in E; discriminate).
      destruct (Hv x0 o0 H) as (Ho0 & m & Fm & Rm). split; auto. exists m. split; auto.
      eapply rep_frame; eauto. intros b Eb. apply (uo_frame _ _ _ _ _ U).
      * eapply rep_bound; eauto.
      * intro El. apply (footprint_distinct lval optl (f_glob st) x0 x m l b Hown Fm Fx Hn0);
          unfold optl; [rewrite Eb | rewrite El]; simpl; auto.
  - intros a b ob Hab Ha Hb. rewrite assoc_set_assoc, Px in Ha. rewrite assoc_set_assoc, Px in Hb.
    destruct (Z.eqb a x) eqn:Ea.
    + apply Z.eqb_eq in Ea. now subst a.
    + destruct (Z.eqb b x) eqn:Eb.
      * injection Hb as <-. destruct (Z.eq_dec a y) as [->|Nay]; auto. now apply (Hsh a y oy).
      * now apply (Hsh a b ob).
Qed.

Lemma use_ok3_use_ok : forall decl fz s, use_ok3 decl fz s = true ->
  match s with LAssignRet _ _ => False | LAssignVar x y => x = y | _ => True end ->
  use_ok decl s = true.
Proof.
  intros decl fz s U N. destruct s; cbn [use_ok3 use_ok] in *; try discriminate; try contradiction;
    try (subst y; rewrite Z.eqb_refl in *; now rewrite U);
    repeat (apply andb_true_iff in U; let U' := fresh "U" in destruct U as [U U']);
    repeat match goal with H : ?b = true |- context [?b] => rewrite H end; auto.
Qed.

(* the firmware side of a clone into another declared name: __redu_list_assign(x, <y or a shallow copy of y>) *)
Lemma clone_exec : forall in_loop st x y s,
  Inv st -> x <> y ->
  existsb (Z.eqb x) (map fst (f_glob st)) = true -> existsb (Z.eqb y) (map fst (f_glob st)) = true ->
  s = LAssignRet x y \/ s = LAssignVar x y ->
  exists lx ly cx cy h' l', assoc x (f_glob st) = Some lx /\ assoc y (f_glob st) = Some ly /\
    rep (f_heap st) lx cx /\ rep (f_heap st) ly cy /\
    f_exec in_loop st s = Safe (f_store st h' x l', []) /\ upd_ok (f_heap st) lx h' l' cy.
Proof.
  intros in_loop st x y s HI Hne Ux Uy Hs. pose proof HI as (Hloc & (_ & Hown & _) & _).
  destruct (Inv_var st x HI Ux) as (lx & cx & Hx & Hlkx & Hrx).
  destruct (Inv_var st y HI Uy) as (ly & cy & Hy & Hlky & Hry).
  assert (D : data lx = None \/ data lx <> data ly).
  { destruct (data lx) as [b|] eqn:Dx; auto. right. intro Heq.
    apply (footprint_distinct lval optl (f_glob st) x y lx ly b Hown Hx Hy Hne); unfold optl;
      [rewrite Dx | rewrite <- Heq]; simpl; auto. }
  destruct (assign_upd_ok _ lx ly cx cy Hrx Hry D) as (h' & l' & E & UO).
  exists lx, ly, cx, cy, h', l'. do 4 (split; [assumption|]). split; [|exact UO].
  assert (Exy : Z.eqb x y = false) by (now apply Z.eqb_neq).
  destruct Hs as [-> | ->]; unfold f_exec, desugar, f_exec1, f_declared, has; rewrite Hloc, Hx; cbn [assoc orb];
    rewrite Hlkx, Hlky, ?Exy, E; reflexivity.
Qed.

Lemma exec_sim2 : forall fz in_loop st pst s pst' out,
  Inv st -> Sim2 fz pst st -> use_ok3 (map fst (f_glob st)) fz s = true ->
  p_exec in_loop pst s = POk (pst', out) ->
  exists st', f_exec in_loop st s = Safe (st', out) /\ Inv st' /\ Sim2 fz pst' st' /\
              map fst (f_glob st') = map fst (f_glob st).
Proof.
  intros fz in_loop st pst s pst' out HI HS U P. pose proof HI as (Hloc & _). pose proof HS as (Pl & _).
  assert (INV : forall st', f_exec in_loop st s = Safe (st', out) ->
            match s with LAssignRet _ _ => False | LAssignVar x y => x = y | _ => True end ->
            Inv st' /\ map fst (f_glob st') = map fst (f_glob st)).
  { intros st' E N. pose proof (exec_inv in_loop st s HI (use_ok3_use_ok _ _ _ U N)) as PO.
    rewrite E in PO. exact PO. }
  assert (CLONE : forall x y, x <> y -> s = LAssignRet x y \/ s = LAssignVar x y ->
            existsb (Z.eqb x) (map fst (f_glob st)) = true -> existsb (Z.eqb y) (map fst (f_glob st)) = true ->
            existsb (Z.eqb x) fz = true -> existsb (Z.eqb y) fz = true ->
            p_exec in_loop pst s = (pdo o <- p_ref pst y; POk (p_bind in_loop pst (p_objs pst) x o, [])) ->
            exists st', f_exec in_loop st s = Safe (st', out) /\ Inv st' /\ Sim2 fz pst' st' /\
              map fst (f_glob st') = map fst (f_glob st)).
  { intros x y Hne Hs Ux Uy Fx Fy PE. rewrite PE in P.
    destruct (p_ref pst y) as [oy|] eqn:Ry; simpl in P; try discriminate. injection P as <- <-.
    destruct (sim2_var fz pst st y oy HI HS Ry) as (Py & Hoy & ly0 & Fy0 & _ & Rly0).
    destruct (clone_exec in_loop st x y s HI Hne Ux Uy Hs) as (lx & ly & cx & cy & h' & l' & Hx & Hy & Hrx & Hry & E & UO).
    assert (ly0 = ly) by congruence. subst ly0.
    assert (cy = p_obj pst oy) by (eapply rep_fun; eauto). subst cy.
    pose proof HS as (_ & Pnm & Hv & _).
    assert (Pxe : exists o, assoc x (p_glob pst) = Some o).
    { apply assoc_names. now rewrite Pnm. }
    destruct Pxe as (o & Px).
    exists (f_store st h' x l'). split; [exact E|]. split; [eapply store_inv; eauto|]. split; [|now apply store_names].
    assert (PB : p_bind in_loop pst (p_objs pst) x oy = mkp (p_objs pst) (set_assoc x oy (p_glob pst)) (p_loc pst)).
    { unfold p_bind. replace (has x (p_loc pst)) with false by (rewrite Pl; reflexivity).
      unfold has. now rewrite Px. }
    rewrite PB. eapply sim2_rebind; eauto. }
  destruct s; cbn [use_ok3] in U; try discriminate; cbn [p_exec] in P.
  - (* LAssignVar *)
    destruct (Z.eqb x y) eqn:Exy.
    + apply Z.eqb_eq in Exy. subst y.
      destruct (p_ref pst x) as [o|] eqn:R; simpl in P; try discriminate.
      destruct (sim2_var fz pst st x o HI HS R) as (Px & Ho & l & Fx & Hlk & Hr).
      unfold p_bind in P. rewrite Pl in P. unfold has in P. simpl in P. rewrite Px in P.
      rewrite set_assoc_same in P by auto. injection P as <- <-.
      assert (E : f_exec in_loop st (LAssignVar x x) = Safe (st, [])).
      { unfold f_exec, desugar, f_exec1, f_declared. rewrite Hloc. unfold has. simpl. rewrite Fx, Hlk, Z.eqb_refl. simpl.
        now rewrite store_same by auto. }
      exists st. split; [exact E|]. split; [exact HI|]. split; [|reflexivity].
      destruct pst as [ob gl lo]. simpl in *. now subst lo.
    + repeat (apply andb_true_iff in U; let U' := fresh "U" in destruct U as [U U']).
      apply (CLONE x y); auto. now apply Z.eqb_neq.
  - (* LAppend *)
    apply andb_true_iff in U. destruct U as [Ux Uf]. apply negb_true_iff in Uf.
    destruct (p_ref pst x) as [o|] eqn:R; simpl in P; try discriminate. injection P as <- <-.
    destruct (sim2_var fz pst st x o HI HS R) as (Px & Ho & l & Fx & Hlk & Hr).
    destruct (append_ok _ l _ v Hr) as (h' & l' & E & UO).
    assert (E' : f_exec in_loop st (LAppend x v) = Safe (f_store st h' x l', [])) by (unfold f_exec, desugar, f_exec1; now rewrite Hlk, E).
    destruct (INV _ E' I) as [HI' N]. eexists. split; [exact E'|]. split; [exact HI'|]. split; [|exact N].
    eapply sim2_store; eauto.
  - (* LRemove *)
    apply andb_true_iff in U. destruct U as [Ux Uf]. apply negb_true_iff in Uf.
    destruct (p_ref pst x) as [o|] eqn:R; simpl in P; try discriminate.
    destruct (sim2_var fz pst st x o HI HS R) as (Px & Ho & l & Fx & Hlk & Hr).
    destruct (remove_ok _ l _ v Hr) as (h' & l' & E & UO).
    destruct (remove_first v (p_obj pst o)) as [cs'|] eqn:RF; try discriminate. injection P as <- <-.
    assert (E' : f_exec in_loop st (LRemove x v) = Safe (f_store st h' x l', [])) by (unfold f_exec, desugar, f_exec1; now rewrite Hlk, E).
    destruct (INV _ E' I) as [HI' N]. eexists. split; [exact E'|]. split; [exact HI'|]. split; [|exact N].
    eapply sim2_store; eauto.
  - (* LGet *)
    destruct (p_ref pst x) as [o|] eqn:R; simpl in P; try discriminate.
    destruct (sim2_var fz pst st x o HI HS R) as (Px & Ho & l & Fx & Hlk & Hr).
    destruct (py_index (length (p_obj pst o)) i) as [k|] eqn:PI; try discriminate. injection P as <- <-.
    assert (E' : f_exec in_loop st (LGet x i) = Safe (st, [nth k (p_obj pst o) 0%Z])).
    { unfold f_exec, desugar, f_exec1. rewrite Hlk, (get_spec _ l _ i Hr), PI. reflexivity. }
    exists st. split; [exact E'|]. split; [exact HI|]. split; [exact HS|reflexivity].
  - (* LSet *)
    apply andb_true_iff in U. destruct U as [Ux Uf]. apply negb_true_iff in Uf.
    destruct (p_ref pst x) as [o|] eqn:R; simpl in P; try discriminate.
    destruct (sim2_var fz pst st x o HI HS R) as (Px & Ho & l & Fx & Hlk & Hr).
    destruct (py_index (length (p_obj pst o)) i) as [k|] eqn:PI; try discriminate. injection P as <- <-.
    destruct (set_ok _ l _ i v k Hr PI) as (h' & E & UO).
    assert (E' : f_exec in_loop st (LSet x i v) = Safe (mkf h' (f_glob st) (f_loc st), [])).
    { unfold f_exec, desugar, f_exec1. now rewrite Hlk, E. }
    destruct (INV _ E' I) as [HI' N]. eexists. split; [exact E'|]. split; [exact HI'|]. split; [|exact N].
    pose proof (sim2_store fz pst st x o l h' l _ HI HS Uf Px Fx UO) as S'.
    unfold f_store in S'. rewrite Hloc in S'. simpl in S'. rewrite set_assoc_same in S' by auto.
    rewrite Hloc. exact S'.
  - (* LCallGet *)
    destruct (p_ref pst x) as [o|] eqn:R; simpl in P; try discriminate.
    destruct (sim2_var fz pst st x o HI HS R) as (Px & Ho & l & Fx & Hlk & Hr).
    destruct (py_index (length (p_obj pst o)) i) as [k|] eqn:PI; try discriminate. injection P as <- <-.
    assert (E' : f_exec in_loop st (LCallGet x i) = Safe (st, [nth k (p_obj pst o) 0%Z])).
    { unfold f_exec, desugar, f_exec1. rewrite Hlk, (get_spec _ l _ i Hr), PI. reflexivity. }
    exists st. split; [exact E'|]. split; [exact HI|]. split; [exact HS|reflexivity].
  - (* LAppendRef *)
    apply andb_true_iff in U. destruct U as [U Uy]. apply andb_true_iff in U. destruct U as [Ux Uf].
    apply negb_true_iff in Uf.
    destruct (p_ref pst x) as [o|] eqn:R; simpl in P; try discriminate.
    destruct (p_ref pst y) as [oy|] eqn:Ry; simpl in P; try discriminate.
    destruct (sim2_var fz pst st x o HI HS R) as (Px & Ho & l & Fx & Hlk & Hr).
    destruct (sim2_var fz pst st y oy HI HS Ry) as (Py & Hoy & s & Fy & Hlky & Hrs).
    destruct (py_index (length (p_obj pst oy)) i) as [k|] eqn:PI; try discriminate. injection P as <- <-.
    pose proof (append_ref_ok _ l _ s _ i Hr Hrs) as A. rewrite PI in A. destruct A as (h' & l' & E & UO).
    assert (E' : f_exec in_loop st (LAppendRef x y i) = Safe (f_store st h' x l', [])).
    { unfold f_exec, desugar, f_exec1. now rewrite Hlk, Hlky, E. }
    destruct (INV _ E' I) as [HI' N]. eexists. split; [exact E'|]. split; [exact HI'|]. split; [|exact N].
    eapply sim2_store; eauto.
  - (* LRemoveRef *)
    apply andb_true_iff in U. destruct U as [U Uy]. apply andb_true_iff in U. destruct U as [Ux Uf].
    apply negb_true_iff in Uf.
    destruct (p_ref pst x) as [o|] eqn:R; simpl in P; try discriminate.
    destruct (p_ref pst y) as [oy|] eqn:Ry; simpl in P; try discriminate.
    destruct (sim2_var fz pst st x o HI HS R) as (Px & Ho & l & Fx & Hlk & Hr).
    destruct (sim2_var fz pst st y oy HI HS Ry) as (Py & Hoy & s & Fy & Hlky & Hrs).
    destruct (py_index (length (p_obj pst oy)) i) as [k|] eqn:PI; try discriminate.
    destruct (remove_first (nth k (p_obj pst oy) 0%Z) (p_obj pst o)) as [cs'|] eqn:RF; try discriminate.
    injection P as <- <-.
    destruct (remove_ref_ok _ l _ s _ i Hr Hrs) as [(h' & l' & cs'' & E & UO & Hcs)|(E & Hn)]; [|congruence].
    specialize (Hcs k PI). rewrite RF in Hcs. subst cs''.
    assert (E' : f_exec in_loop st (LRemoveRef x y i) = Safe (f_store st h' x l', [])).
    { unfold f_exec, desugar, f_exec1. now rewrite Hlk, Hlky, E. }
    destruct (INV _ E' I) as [HI' N]. eexists. split; [exact E'|]. split; [exact HI'|]. split; [|exact N].
    eapply sim2_store; eauto.
  - (* LAssignRet *)
    repeat (apply andb_true_iff in U; let U' := fresh "U" in destruct U as [U U']).
    apply negb_true_iff in U. apply (CLONE x y); auto. now apply Z.eqb_neq.
Qed.

Lemma clear_loc2 : forall st, Inv st -> mkf (f_heap st) (f_glob st) [] = st.
Proof. intros [h g l] (Hl & _). simpl in *. now subst. Qed.

Lemma block_sim2 : forall fz in_loop ss st pst pst' out,
  Inv st -> Sim2 fz pst st -> forallb (use_ok3 (map fst (f_glob st)) fz) ss = true ->
  p_block in_loop pst ss = POk (pst', out) ->
  exists st', f_block in_loop st ss = Safe (st', out) /\ Inv st' /\ Sim2 fz pst' st' /\
              map fst (f_glob st') = map fst (f_glob st).
Proof.
  intros fz in_loop. induction ss as [|s r IH]; intros st pst pst' out HI HS U P.
  - simpl in *. injection P as <- <-. exists st. auto.
  - cbn [forallb] in U. apply andb_true_iff in U. destruct U as [U1 U2].
    cbn [p_block] in P. cbn [f_block].
    destruct (p_exec in_loop pst s) as [[pst1 o1]|e] eqn:E1; cbn [pbind] in P; try discriminate.
    destruct (p_block in_loop pst1 r) as [[pst2 o2]|e] eqn:E2; cbn [pbind] in P; try discriminate.
    injection P as <- <-.
    destruct (exec_sim2 _ _ _ _ _ _ _ HI HS U1 E1) as (st1 & F1 & HI1 & HS1 & N1).
    rewrite <- N1 in U2.
    destruct (IH st1 pst1 pst2 o2 HI1 HS1 U2 E2) as (st2 & F2 & HI2 & HS2 & N2).
    exists st2. rewrite F1. cbn [rbind]. rewrite F2. cbn [rbind]. split; [reflexivity|]. split; [exact HI2|].
    split; [exact HS2|]. congruence.
Qed.

Lemma sim2_decl : forall fz pst st x h' l' cs,
  Inv st -> Sim2 fz pst st -> existsb (Z.eqb x) (map fst (f_glob st)) = false ->
  fresh_ok (f_heap st) h' l' cs ->
  Sim2 fz (p_new false pst x cs) (f_declare false st h' x l').
Proof.
  intros fz pst st x h' l' cs (Hloc & _) (Pl & Pnames & Hv & Hsh) Hx F.
  pose proof Hx as Hx'. rewrite <- Pnames in Hx'.
  destruct (assoc_none_names _ _ _ Hx) as (Fnone & _).
  destruct (assoc_none_names _ _ _ Hx') as (Pnone & _).
  unfold p_new, p_bind, has. rewrite Pl. simpl. rewrite Pnone.
  unfold Sim2, f_declare. simpl. rewrite !map_app, Pnames. simpl.
  split; [reflexivity|]. split; [reflexivity|]. split.
  - intros x0 o0 H. rewrite assoc_app_new in H by auto. rewrite app_length. simpl. split.
    + destruct (Z.eqb x0 x); [inversion H; subst; lia | destruct (Hv _ _ H); lia].
    + rewrite assoc_app_new by auto. unfold p_obj. simpl.
      destruct (Z.eqb x0 x).
      * inversion H; subst. exists l'. split; auto. rewrite app_nth2 by lia. rewrite Nat.sub_diag. simpl.
        eapply fresh_rep; eauto.
      * destruct (Hv _ _ H) as (Ho & m & Fm & Rm). exists m. split; auto.
        rewrite app_nth1 by auto.
        destruct F as [(_ & -> & _)|(_ & -> & _)]; auto.
        eapply rep_frame; eauto. intros b Eb. apply nth_error_app_old. eapply rep_bound; eauto.
  - intros a b o Hab Ha Hb. rewrite assoc_app_new in Ha by auto. rewrite assoc_app_new in Hb by auto.
    destruct (Z.eqb a x) eqn:Ea; destruct (Z.eqb b x) eqn:Eb.
    + apply Z.eqb_eq in Ea, Eb. congruence.
    + injection Ha as <-. destruct (Hv _ _ Hb). lia.
    + injection Hb as <-. destruct (Hv _ _ Ha). lia.
    + now apply (Hsh a b o).
Qed.

Lemma setup_sim2 : forall fz ss st pst pst' out decl',
  Inv st -> Sim2 fz pst st -> setup_ok3 fz (map fst (f_glob st)) ss = Some decl' ->
  p_block false pst ss = POk (pst', out) ->
  exists st', f_block false st ss = Safe (st', out) /\ Inv st' /\ Sim2 fz pst' st' /\
              map fst (f_glob st') = decl'.
Proof.
  intros fz. induction ss as [|s r IH]; intros st pst pst' out decl' HI HS H P.
  - simpl in *. injection P as <- <-. injection H as <-. exists st. auto.
  - cbn [p_block] in P. cbn [f_block].
    destruct (p_exec false pst s) as [[pst1 o1]|e] eqn:E1; cbn [pbind] in P; try discriminate.
    destruct (p_block false pst1 r) as [[pst2 o2]|e] eqn:E2; cbn [pbind] in P; try discriminate.
    injection P as <- <-.
    assert (G : forall x h' l' cs,
              (if existsb (Z.eqb x) (map fst (f_glob st)) then None
               else setup_ok3 fz (map fst (f_glob st) ++ [x]) r) = Some decl' ->
              fresh_ok (f_heap st) h' l' cs -> pst1 = p_new false pst x cs -> o1 = [] ->
              exists st', (do b <- f_block false (f_declare false st h' x l') r;
                           let '(st2, o2') := b in Safe (st2, [] ++ o2')) = Safe (st', o1 ++ o2) /\
                          Inv st' /\ Sim2 fz pst2 st' /\ map fst (f_glob st') = decl').
    { intros x h' l' cs H0 F -> ->.
      destruct (existsb (Z.eqb x) (map fst (f_glob st))) eqn:Ex; try discriminate.
      assert (HI1 : Inv (f_declare false st h' x l')) by (eapply decl_inv; eauto).
      assert (HS1 : Sim2 fz (p_new false pst x cs) (f_declare false st h' x l')) by (eapply sim2_decl; eauto).
      rewrite <- declare_names with (h := h') (l := l') in H0.
      destruct (IH _ _ _ _ _ HI1 HS1 H0 E2) as (st2 & F2 & HI2 & HS2 & N2).
      exists st2. rewrite F2. cbn [rbind]. auto. }
    destruct s; cbn [setup_ok3] in H; try discriminate;
      try (match type of H with (if ?b then _ else _) = _ => destruct b eqn:U; [|discriminate] end;
           destruct (exec_sim2 _ _ _ _ _ _ _ HI HS U E1) as (st1 & F1 & HI1 & HS1 & N1);
           rewrite <- N1 in H;
           destruct (IH st1 pst1 pst2 o2 decl' HI1 HS1 H E2) as (st2 & F2 & HI2 & HS2 & N2);
           exists st2; rewrite F1; cbn [rbind]; rewrite F2; cbn [rbind]; auto; fail).
    + (* LDeclLit *)
      cbn [p_exec] in E1. injection E1 as E1a E1b.
      destruct (make_ok (f_heap st) items) as (h' & l' & E & F).
      unfold f_exec, desugar, f_exec1. rewrite E. cbn [rbind]. eapply G; eauto.
    + (* LDeclComp *)
      cbn [p_exec] in E1. destruct (c_step c =? 0)%Z eqn:Ez; try discriminate. injection E1 as E1a E1b.
      destruct (comp_ok (f_heap st) c) as (h' & l' & E & F).
      unfold comp_vals in F. rewrite Ez in F.
      unfold f_exec, desugar, f_exec1. rewrite E. cbn [rbind]. eapply G; eauto.
Qed.

Lemma pass_sim2 : forall fz body st pst pst' o,
  Inv st -> Sim2 fz pst st -> forallb (use_ok3 (map fst (f_glob st)) fz) body = true ->
  py_pass body pst = POk (pst', o) ->
  exists st', run_pass body st = Safe (st', o) /\ Inv st' /\ Sim2 fz pst' st' /\
              map fst (f_glob st') = map fst (f_glob st).
Proof.
  intros fz body st pst pst' o HI HS U P. unfold py_pass in P.
  destruct (block_sim2 fz true body st pst pst' o HI HS U P) as (st1 & F & HI1 & HS1 & N1).
  unfold run_pass. rewrite F. cbn [rbind]. eexists. split; [reflexivity|].
  rewrite clear_loc2 by exact HI1. auto.
Qed.

Lemma passes_seq_sim2 : forall fz bodies st pst pst',
  Inv st -> Sim2 fz pst st -> forallb (forallb (use_ok3 (map fst (f_glob st)) fz)) bodies = true ->
  py_passes_seq bodies pst = POk pst' ->
  exists st', run_passes_seq bodies st = Safe st' /\ Inv st' /\ Sim2 fz pst' st'.
Proof.
  intros fz. induction bodies as [|b r IH]; intros st pst pst' HI HS U P; simpl in *.
  - injection P as <-. exists st. auto.
  - apply andb_true_iff in U. destruct U as [U1 U2].
    destruct (py_pass b pst) as [[pst1 o1]|e] eqn:E; cbn [pbind] in P; try discriminate. simpl in P.
    destruct (pass_sim2 fz b st pst pst1 o1 HI HS U1 E) as (st1 & F & HI1 & HS1 & N1).
    rewrite F. cbn [rbind]. simpl. rewrite <- N1 in U2. eapply IH; eauto.
Qed.

Lemma Sim2_init : forall fz, Sim2 fz p_init f_init.
Proof. intros fz. unfold Sim2, p_init, f_init; simpl. repeat split; auto; intros; discriminate. Qed.

Lemma frozen_sim_with : forall fz setup bodies pst,
  frozen_ok_with fz setup bodies = true -> run_py_seq setup bodies = POk pst ->
  exists st, run_fw_seq setup bodies = Safe st /\ Inv st /\ Sim2 fz pst st.
Proof.
  intros fz setup bodies pst G P. unfold frozen_ok_with in G.
  destruct (setup_ok3 fz [] setup) as [decl|] eqn:S; try discriminate.
  unfold run_py_seq, py_setup in P.
  destruct (p_block false p_init setup) as [[pst0 o0]|e] eqn:E; cbn [pbind] in P; try discriminate.
  simpl in P.
  destruct (setup_sim2 fz setup f_init p_init pst0 o0 decl Inv_init (Sim2_init fz) S E) as (st0 & F & HI0 & HS0 & N0).
  unfold run_fw_seq, run_setup. rewrite F. cbn [rbind]. simpl. rewrite <- N0 in G.
  eapply passes_seq_sim2; eauto.
Qed.

(* the heap holds CPython's live data counted per name *)
Lemma sim2_named : forall fz pst st, Inv st -> Sim2 fz pst st -> p_named pst = f_live_cells st.
Proof.
  intros fz pst st (Hloc & (Hnames & _ & _) & _ & Hc) (Pl & Pnm & Hv & _).
  unfold p_named, f_live_cells. rewrite Hc, Pl, app_nil_r. unfold sum_sizes.
  rewrite <- (sum_pointwise nat lval (fun o => length (p_obj pst o)) size (p_glob pst) (f_glob st)).
  - apply fold_map_snd.
  - exact Pnm.
  - now rewrite Pnm.
  - intros x o Hx. destruct (Hv x o Hx) as (_ & l & Hl & Hr). exists l. split; auto.
    symmetry. eapply rep_size; eauto.
Qed.

Theorem frozen_share_py : forall setup bodies pst,
  frozen_ok setup bodies = true -> run_py_seq setup bodies = POk pst ->
  exists st, run_fw_seq setup bodies = Safe st /\ wf_heap st /\ tight st /\ f_live_cells st = p_named pst.
Proof.
  intros setup bodies pst G P. destruct (frozen_sim_with _ setup bodies pst G P) as (st & F & HI & HS).
  exists st. destruct (Inv_wf_tight st HI) as [W T]. split; [exact F|]. split; [exact W|]. split; [exact T|].
  symmetry. eapply sim2_named; eauto.
Qed.

Theorem frozen_share_no_leak : forall setup bodies b p1 p2,
  frozen_ok_with (frozen_set setup (bodies ++ [b])) setup (bodies ++ [b]) = true ->
  run_py_seq setup bodies = POk p1 -> run_py_seq setup (bodies ++ [b]) = POk p2 ->
  p_named p1 = p_named p2 ->
  exists s1 s2, run_fw_seq setup bodies = Safe s1 /\ run_fw_seq setup (bodies ++ [b]) = Safe s2 /\
                f_live_cells s1 = f_live_cells s2.
Proof.
  intros setup bodies b p1 p2 G P1 P2 L.
  assert (G1 : frozen_ok_with (frozen_set setup (bodies ++ [b])) setup bodies = true).
  { unfold frozen_ok_with in *. destruct (setup_ok3 _ [] setup); auto.
    rewrite forallb_app in G. apply andb_true_iff in G. tauto. }
  destruct (frozen_sim_with _ _ _ _ G1 P1) as (s1 & F1 & HI1 & HS1).
  destruct (frozen_sim_with _ _ _ _ G P2) as (s2 & F2 & HI2 & HS2).
  exists s1, s2. split; [exact F1|]. split; [exact F2|].
  rewrite <- (sim2_named _ _ _ HI1 HS1), <- (sim2_named _ _ _ HI2 HS2). exact L.
Qed.

(* without sharing the two ways of counting agree *)
Lemma named_ge_live_nodup : forall pst, NoDup (map snd (p_glob pst ++ p_loc pst)) -> p_named pst = p_live pst.
Proof. intros pst H. unfold p_named, p_live. now rewrite (nodup_nat_id _ H). Qed.

(* ------------------------------------------------------------------ witnesses *)
Local Open Scope Z_scope.
(* low = [1, 2, 3]; high = [40, 50, 60]; active = [0, 0, 0]
   while True: active = sel(low, high, c); mon.write(low[-1]); mon.write(high[0]); mon.write(active[1])
   with  def sel(a, b, k): if k > 1: return a / return b   and readings 2, 0, 2, 0 *)
Definition share_setup : list stmt := [LDeclLit 0 [1; 2; 3]; LDeclLit 1 [40; 50; 60]; LDeclLit 2 [0; 0; 0]].
Definition share_pass (y : name) : list stmt := [LAssignRet 2 y; LGet 0 (-1); LGet 1 0; LGet 2 1].
Definition share_bodies : list (list stmt) := [share_pass 0; share_pass 1; share_pass 0; share_pass 1].

Lemma share_guard : frozen_ok share_setup share_bodies = true /\ single_owner_seq share_setup share_bodies = false.
Proof. split; vm_compute; reflexivity. Qed.

Lemma share_python : exists pst, run_py_seq share_setup share_bodies = POk pst /\ p_live pst = 6%nat /\ p_named pst = 9%nat.
Proof. eexists. repeat split; vm_compute; reflexivity. Qed.

(* low = [1, 2, 3]; high = [4, 5]; active = [0, 0, 0]   while True: active = sel(low, high, c)   readings 2, 0
   - CPython's live data is 5 elements after each pass (active IS low resp. high); the firmware holds a copy per name:
   8 cells after the first pass, 7 after the second *)
Definition vary_setup : list stmt := [LDeclLit 0 [1; 2; 3]; LDeclLit 1 [4; 5]; LDeclLit 2 [0; 0; 0]].
Definition vary_bodies : list (list stmt) := [[LAssignRet 2 0]; [LAssignRet 2 1]].

Lemma share_multiplicity :
  frozen_ok vary_setup vary_bodies = true /\
  exists p1 p2 s1 s2,
    run_py_seq vary_setup [[LAssignRet 2 0]] = POk p1 /\ run_py_seq vary_setup vary_bodies = POk p2 /\
    p_live p1 = p_live p2 /\
    run_fw_seq vary_setup [[LAssignRet 2 0]] = Safe s1 /\ run_fw_seq vary_setup vary_bodies = Safe s2 /\
    f_live_cells s1 = 8%nat /\ f_live_cells s2 = 7%nat.
Proof. split; [vm_compute; reflexivity|]. do 4 eexists. repeat split; vm_compute; reflexivity. Qed.

(* the guard, spelled out for the assignment from a call: target and source are different declared names of the
   read-only set *)
Lemma use_ok3_ret_spec : forall decl fz x y, use_ok3 decl fz (LAssignRet x y) = true ->
  x <> y /\ In x decl /\ In y decl /\ In x fz /\ In y fz.
Proof.
  intros decl fz x y U. cbn [use_ok3] in U.
  repeat (apply andb_true_iff in U; let U' := fresh "U" in destruct U as [U U']).
  apply negb_true_iff in U. apply Z.eqb_neq in U. repeat split; auto; now apply existsb_eqb_In.
Qed.

(* a name of the read-only set is never the target of append / remove / a subscript store *)
Lemma use_ok3_frozen_not_mutated : forall decl fz s x, use_ok3 decl fz s = true -> In x fz ->
  match s with
  | LAppend z _ | LRemove z _ | LSet z _ _ | LAppendRef z _ _ | LRemoveRef z _ _ => z <> x
  | _ => True
  end.
Proof.
  intros decl fz s x U Hx. destruct s; auto; cbn [use_ok3] in U;
    repeat (apply andb_true_iff in U; let U' := fresh "U" in destruct U as [U U']);
    repeat match goal with H : negb _ = true |- _ => apply negb_true_iff in H end;
    intros ->; apply existsb_eqb_In in Hx; congruence.
Qed.
