(* Device DC motor vs host DC motor (property C04, unit C04_motor): proofs. *)
From Coq Require Import ZArith QArith Qround Lia Lqa List Bool.
From RV Require Import Base.Wire Base.NumM Gen.C19Motor Host.DCMotor Device.Signal Device.DLed Device.DMotor
  Proofs.DLedP.
Import ListNotations.
Open Scope Z_scope.

(* ---- clamp clause: every analogWrite value is a PWM count 0..255, whatever is commanded ---- *)
Lemma pwm_range : forall a, 0 <= pwm_of a <= 255.
Proof. intro a. unfold pwm_of. apply clamp255_range. Qed.

Lemma d_apply_ok : forall p m st v, Forall dev_ok (snd (d_apply p m st v)).
Proof.
  intros [[in1 in2] en] m st v. unfold d_apply. cbn [snd]. apply Forall_app. split.
  - destruct (Qeqb _ 0); [|destruct (Qltb 0 _)]; repeat constructor.
  - constructor; [apply pwm_range|constructor].
Qed.

Lemma d_halt_ok : forall p m md, Forall dev_ok (snd (d_halt p m md)).
Proof. intros [[in1 in2] en] m md. unfold d_halt. cbn [snd]. repeat constructor; cbn; lia. Qed.

Lemma d_ramp_loop_ok : forall ks p m s t d, Forall dev_ok (snd (d_ramp_loop ks p m s t d)).
Proof.
  induction ks as [|k r IH]; intros p m s t d; [constructor|]. cbn [d_ramp_loop].
  pose proof (d_apply_ok p m true (s + (t - s) * (inject_Z k / inject_Z dc_ramp_steps))%Q) as H1.
  destruct (d_apply p m true _) as [m1 e1]. specialize (IH p m1 s t d).
  destruct (d_ramp_loop r p m1 s t d) as [m2 e3]. cbn [snd] in *.
  apply Forall_app. split; [exact H1|]. apply Forall_app. split; [|exact IH].
  destruct (Qltb 0 d); repeat constructor.
Qed.

Lemma dmstep_ok : forall p m o, Forall dev_ok (snd (fst (dmstep p m o))).
Proof.
  intros p m o. destruct o; cbn [dmstep]; try (repeat constructor; fail).
  - pose proof (d_apply_ok p m true (qval v)) as H. destruct (d_apply p m true (qval v)). exact H.
  - set (x := (- _)%Q). pose proof (d_apply_ok p m true x) as H. destruct (d_apply p m true x). exact H.
  - pose proof (d_halt_ok p m Brake) as H. destruct (d_halt p m Brake). exact H.
  - pose proof (d_halt_ok p m Coast) as H. destruct (d_halt p m Coast). exact H.
  - set (m' := mkDM _ _ _). pose proof (d_apply_ok p m' false (dm_speed m)) as H. destruct (d_apply p m' false (dm_speed m)). exact H.
  - unfold d_ramp. pose proof (d_ramp_loop_ok (zsteps dc_ramp_steps) p m (dm_speed m) (qclamp (- (1)) 1 (qval target)) (dur0 (qval dur) / inject_Z dc_ramp_steps)%Q) as H.
    destruct (d_ramp_loop _ _ _ _ _ _). exact H.
  - unfold d_run_for. pose proof (d_apply_ok p m true (qval sp)) as H1. destruct (d_apply p m true (qval sp)) as [m1 e1].
    pose proof (d_halt_ok p m1 Brake) as H2. destruct (d_halt p m1 Brake) as [m2 e2]. cbn [fst snd] in *.
    apply Forall_app. split; [exact H1|]. apply Forall_app. split; [repeat constructor|exact H2].
Qed.

Lemma motor_clamp : forall p ops m, Forall dev_ok (fst (dmrun p m ops)).
Proof.
  intros p ops. induction ops as [|o r IH]; intro m; [constructor|]. cbn [dmrun].
  pose proof (dmstep_ok p m o) as H. destruct (dmstep p m o) as [[m1 e1] g1]. specialize (IH m1).
  destruct (dmrun p m1 r) as [e2 g2]. cbn [fst snd] in *. apply Forall_app. split; assumption.
Qed.

(* ---- the witness of the former refutation: a speed of 1/1000 (PWM count 0, yet driving) ---- *)
Definition m0 (p : mpins) : motor := let '(a, b, c) := p in mkMotor (PI a, PI b, PI c) 0 false Coast 0 LastOther.
Definition tiny_ops : list mop := [MSetSpeed (PF (1 # 1000)); MGetMode; MInvert; MGetMode; MGetApplied; MSetSpeed (PI 0); MGetMode].

Lemma motor_tiny_mode_agrees :
  snd (dmrun (4, 5, 6) dminit tiny_ops) = [GNone; GMode Drive; GNone; GMode Drive; GFloat (-1 # 1000); GNone; GMode Coast] /\
  snd (fst (hmrun (4, 5, 6) (m0 (4, 5, 6)) tiny_ops)) = snd (dmrun (4, 5, 6) dminit tiny_ops).
Proof. vm_compute. split; reflexivity. Qed.

Lemma motor_tiny_signal_agrees :
  map dconv (fst (dmrun (4, 5, 6) dminit tiny_ops)) =
    [TL 4 255; TL 5 0; TL 6 0; TL 4 0; TL 5 255; TL 6 0; TL 4 0; TL 5 0; TL 6 0] /\
  fst (fst (hmrun (4, 5, 6) (m0 (4, 5, 6)) tiny_ops)) = map dconv (fst (dmrun (4, 5, 6) dminit tiny_ops)).
Proof. vm_compute. split; reflexivity. Qed.

(* a non-trivial in-guard history on which the two sides agree (non-vacuity of the guard; the general
   simulation theorem for the motor is not proved in this package - see the evidence) *)
Definition demo_ops : list mop :=
  [MSetSpeed (PF (1 # 2)); MGetSpeed; MBackward (Some (PF (1 # 4))); MInvert; MGetApplied; MStop; MGetMode;
   MRamp (PI 1) (PI 100); MRunFor (PI 50) (PF (3 # 8)); MCoast; MIsInverted; MBackward (Some (PF (1 # 1024))); MGetMode].

Lemma motor_demo_agrees :
  forallb (fun b => b) (motor_guard_flags (m0 (4, 5, 6)) demo_ops) = true /\
  canon (map dconv (fst (dmrun (4, 5, 6) dminit demo_ops))) = canon (fst (fst (hmrun (4, 5, 6) (m0 (4, 5, 6)) demo_ops))) /\
  snd (fst (hmrun (4, 5, 6) (m0 (4, 5, 6)) demo_ops)) = snd (dmrun (4, 5, 6) dminit demo_ops).
Proof. vm_compute. repeat split. Qed.
