(* Device DC motor = host DC motor for all commands inside the guard: the simulation theorem of property C04,
   unit C04_motor. *)
From Coq Require Import ZArith QArith Qround Qabs Lia Lqa List Bool.
From RV Require Import Base.Wire Base.NumM Gen.C19Motor Host.DCMotor Device.Signal Device.DLed Device.DMotor
  Proofs.DLedP Proofs.DServoP Proofs.NumMP Proofs.DCMotorP Proofs.DMotorP.
Import ListNotations.
Open Scope Q_scope.

(* ------------------------------------------------------------------ *)
(* the PWM count                                                       *)
(* ------------------------------------------------------------------ *)
Lemma qabs_form : forall x, (if Qleb 0 x then x else - x) = qabs x.
Proof. intro x. unfold qabs, Qltb, Qleb. destruct (Qle_bool 0 x); reflexivity. Qed.

Lemma pwm_of_unit : forall a, 0 <= a <= 1 -> pwm_of a = Qfloor (a * 255 + (1 # 2)) /\ (0 <= pwm_of a <= 255)%Z.
Proof.
  intros a [H0 H1]. unfold pwm_of. rewrite DServoP.ctrunc_nonneg by nra.
  assert (L : (0 <= Qfloor (a * 255 + (1 # 2)))%Z).
  { change 0%Z with (Qfloor 0). apply Qfloor_resp_le. nra. }
  assert (U : (Qfloor (a * 255 + (1 # 2)) <= 255)%Z).
  { assert (U0 : (Qfloor (a * 255 + (1 # 2)) <= Qfloor (255 + (1 # 2)))%Z) by (apply Qfloor_resp_le; lra).
    exact U0. }
  rewrite DLedP.clamp255_id by lia. split; [reflexivity|lia].
Qed.

(* the count is the nearest one: within half a count of 255*a (the statement allows one count) *)
Lemma pwm_of_nearest : forall a, 0 <= a <= 1 -> Qabs (inject_Z (pwm_of a) - 255 * a) <= 1 # 2.
Proof.
  intros a H. destruct (pwm_of_unit a H) as [E _]. rewrite E.
  pose proof (Qfloor_le (a * 255 + (1 # 2))) as H1. pose proof (Qlt_floor (a * 255 + (1 # 2))) as H2.
  rewrite inject_Z_plus in H2. change (inject_Z 1) with 1 in H2.
  apply Qabs_Qle_condition. split; lra.
Qed.

Lemma pwm_of_zero_iff : forall a, 0 <= a <= 1 -> (pwm_of a = 0%Z <-> a < 1 # 510).
Proof.
  intros a H. destruct (pwm_of_unit a H) as [E _]. rewrite E. split; intro Z0.
  - pose proof (Qlt_floor (a * 255 + (1 # 2))) as H2. rewrite Z0 in H2. change (inject_Z (0 + 1)) with 1 in H2. lra.
  - apply DServoP.floor_unique; change (inject_Z 0) with 0; lra.
Qed.

Lemma qabs_unit : forall x, -(1) <= x <= 1 -> 0 <= qabs x <= 1.
Proof. intros x H. apply qabs_le1. exact H. Qed.


(* ------------------------------------------------------------------ *)
(* one drive change                                                    *)
(* ------------------------------------------------------------------ *)
Lemma Qred_idem : forall q, Qred (Qred q) = Qred q.
Proof. intro q. apply Qred_complete. apply Qred_correct. Qed.

Lemma sp_bounds : forall v, -(1) <= Qred (qclamp (-(1)) 1 v) <= 1.
Proof. intro v. rewrite Qred_correct. apply qclamp_bounds. lra. Qed.

Definition eff_of (inv : bool) (sp : Q) : Q := if inv then - sp else sp.
Definition mode_of (eff : Q) : mode := if Qeqb eff 0 then Coast else Drive.

Lemma d_apply_spec : forall p d store v any,
  let sp := Qred (qclamp (-(1)) 1 v) in
  let eff := eff_of (dm_inv d) sp in
  fst (d_apply p d store v) = mkDM (if store then sp else dm_speed d) (dm_inv d) (mode_of eff) /\
  map dconv (snd (d_apply p d store v)) = hmconv p (MLvl any eff (mode_of eff)).
Proof.
  intros [[in1 in2] en] d store v any sp eff.
  assert (Hs : -(1) <= sp <= 1) by apply sp_bounds.
  assert (He : -(1) <= eff <= 1) by (unfold eff, eff_of; destruct (dm_inv d); lra).
  pose proof (qabs_unit eff He) as Ha.
  unfold d_apply. fold sp. change (if dm_inv d then - sp else sp) with eff.
  rewrite (qabs_form eff). rewrite (proj2 (Qltb_false 1 (qabs eff))) by lra.
  cbn [fst snd]. split; [reflexivity|].
  unfold hmconv, mode_of. destruct (Qeqb eff 0) eqn:E.
  - apply Qeqb_true in E. rewrite (proj2 (pwm_of_zero_iff (qabs eff) Ha)); [reflexivity|].
    destruct (qabs_spec eff) as (A1 & _). rewrite A1 by lra. lra.
  - destruct (Qltb 0 eff); reflexivity.
Qed.

Lemma d_apply_compat : forall p d store v v', v == v' -> d_apply p d store v = d_apply p d store v'.
Proof.
  intros [[in1 in2] en] d store v v' E. unfold d_apply.
  rewrite (Qred_complete _ _ (qclamp_compat (-(1)) 1 v v' E)). reflexivity.
Qed.

(* the relation between the two states *)
Definition mrel (m : motor) (d : dmotor) : Prop :=
  dm_speed d = speed m /\ dm_inv d = inverted m /\ dm_mode d = mmode m /\
  applied m = eff_of (inverted m) (speed m) /\ Qred (speed m) = speed m /\ -(1) <= speed m <= 1.

Lemma mrel_ghost : forall m d g, mrel m d -> mrel (with_ghost m g) d.
Proof. intros m d g H. exact H. Qed.

Lemma set_speed_sim : forall p m d q, dm_inv d = inverted m ->
  mrel (fst (set_speed_q m q)) (fst (d_apply p d true q)) /\
  map dconv (snd (d_apply p d true q)) = flat_map (hmconv p) (snd (set_speed_q m q)) /\
  lvl_applied (snd (set_speed_q m q)) = [eff_of (inverted m) (Qred (clampq q))].
Proof.
  intros p m d q Hi. unfold clampq in *.
  destruct (d_apply_spec p d true q (Qred (qclamp (-(1)) 1 q))) as [S1 S2].
  rewrite S1, S2. unfold set_speed_q, apply_speed, clampq. cbn [fst snd inverted speed flat_map lvl_applied app].
  rewrite app_nil_r. rewrite Hi. split; [|split; reflexivity].
  unfold mrel. cbn. repeat split; try reflexivity.
  - apply Qred_idem.
  - apply (proj1 (sp_bounds q)).
  - apply (proj2 (sp_bounds q)).
Qed.

Lemma halt_sim : forall p m d md, md = Brake \/ md = Coast -> dm_inv d = inverted m ->
  mrel (fst (halt m md)) (fst (d_halt p d md)) /\
  map dconv (snd (d_halt p d md)) = flat_map (hmconv p) (snd (halt m md)).
Proof.
  intros [[in1 in2] en] m d md Hmd Hi. unfold halt, d_halt. cbn [fst snd flat_map app].
  split.
  - unfold mrel. cbn. rewrite Hi. repeat split; try reflexivity; try lra. destruct (inverted m); reflexivity.
  - destruct Hmd as [-> | ->]; reflexivity.
Qed.

Lemma invert_sim : forall p m d, mrel m d ->
  let m' := mkMotor (pins m) (speed m) (negb (inverted m)) (mmode m) (applied m) (ghost m) in
  let d' := mkDM (dm_speed d) (negb (dm_inv d)) (dm_mode d) in
  mrel (fst (apply_speed m' (speed m))) (fst (d_apply p d' false (dm_speed d))) /\
  map dconv (snd (d_apply p d' false (dm_speed d))) = flat_map (hmconv p) (snd (apply_speed m' (speed m))).
Proof.
  intros p m d (R1 & R2 & R3 & R4 & R5 & R6) m' d'.
  assert (Sp : Qred (qclamp (-(1)) 1 (dm_speed d)) = speed m).
  { rewrite R1. rewrite qclamp_id by exact R6. exact R5. }
  destruct (d_apply_spec p d' false (dm_speed d) (speed m)) as [S1 S2].
  rewrite S1, S2, Sp. unfold apply_speed, m', d'. cbn [fst snd inverted speed dm_inv dm_speed flat_map app].
  rewrite app_nil_r, R2. split; [|reflexivity].
  unfold mrel. cbn. repeat split; try assumption; try reflexivity; apply R6.
Qed.

(* ---- ramp ---- *)
Lemma ramp_loop_sim : forall ks p m d start target delay, dm_inv d = inverted m ->
  (ks <> [] \/ mrel m d) ->
  mrel (fst (ramp_loop ks m start ((target - start) / inject_Z dc_ramp_steps) delay)) (fst (d_ramp_loop ks p d start target delay)) /\
  map dconv (snd (d_ramp_loop ks p d start target delay)) =
  flat_map (hmconv p) (snd (ramp_loop ks m start ((target - start) / inject_Z dc_ramp_steps) delay)).
Proof.
  induction ks as [|k r IH]; intros p m d start target delay Hi Hne.
  - cbn. destruct Hne as [H|H]; [contradiction|]. split; [exact H|reflexivity].
  - cbn [ramp_loop d_ramp_loop] in *.
    set (sv := (target - start) / inject_Z dc_ramp_steps) in *.
    assert (Ev : start + (target - start) * (inject_Z k / inject_Z dc_ramp_steps) == start + sv * inject_Z k).
    { unfold sv. rewrite ramp_steps_20. field. }
    rewrite (d_apply_compat p d true _ _ Ev).
    pose proof (set_speed_sim p m d (start + sv * inject_Z k) Hi) as S.
    destruct (set_speed_q m (start + sv * inject_Z k)) as [m1 e1] eqn:Eh.
    destruct (d_apply p d true (start + sv * inject_Z k)) as [d1 de1] eqn:Ed.
    destruct (ramp_loop r m1 start sv delay) as [m2 e3] eqn:Eh2.
    cbn [fst snd] in *.
    destruct S as (R1 & S2 & _).
    assert (Hi1 : dm_inv d1 = inverted m1) by (destruct R1 as (_ & X & _); exact X).
    specialize (IH p m1 d1 start target delay Hi1).
    fold sv in IH. rewrite Eh2 in IH. cbn [fst snd] in IH.
    destruct (IH (or_intror R1)) as [I1 I2].
    destruct (d_ramp_loop r p d1 start target delay) as [d2 de3]. cbn [fst snd] in *.
    split; [exact I1|].
    rewrite !map_app, !flat_map_app, S2, I2. f_equal. f_equal.
    destruct p as [[in1 in2] en]. destruct (Qltb 0 delay); reflexivity.
Qed.

(* ------------------------------------------------------------------ *)
(* one command                                                         *)
(* ------------------------------------------------------------------ *)
Lemma num_ok_qof : forall v, num_ok v = true -> qof v = Some (qval v).
Proof. intros v H. unfold num_ok, qval in *. destruct (qof v); [reflexivity|discriminate]. Qed.

Lemma speed_ok_spec : forall v, speed_ok v = true -> qof v = Some (qval v) /\ clamp_speed v = Some (clampq (qval v)).
Proof.
  intros v H. unfold speed_ok in H. pose proof (num_ok_qof v H) as Q0. split; [exact Q0|].
  unfold clamp_speed. rewrite Q0. reflexivity.
Qed.

(* set_speed clamps again: handing it the clamped value or the raw one is the same call *)
Lemma set_speed_q_clamp : forall m q, set_speed_q m (clampq q) = set_speed_q m q.
Proof. intros m q. unfold set_speed_q. rewrite clampq_idem. reflexivity. Qed.

Lemma clampq_cases : forall q, (1 < q /\ clampq q = 1) \/ (q < -(1) /\ clampq q = -(1)) \/ (-(1) <= q <= 1 /\ clampq q = q).
Proof.
  intro q. unfold clampq, qclamp.
  destruct (Qltb 1 q) eqn:E1; [apply Qltb_true in E1; left; split; [exact E1|reflexivity]|apply Qltb_false in E1].
  destruct (Qltb q (-(1))) eqn:E2; [apply Qltb_true in E2; right; left; split; [exact E2|reflexivity]|apply Qltb_false in E2].
  right; right. split; [split; assumption|reflexivity].
Qed.
Lemma clampq_neg_abs : forall q, clampq (- qabs (clampq q)) == clampq (- qabs q).
Proof.
  intro q.
  destruct (qabs_spec q) as (A1 & A2 & A3). destruct (qabs_spec (clampq q)) as (B1 & B2 & B3).
  destruct (clampq_cases q) as [[H C]|[[H C]|[H C]]]; rewrite C in *.
  - rewrite A1 by lra. change (qabs 1) with 1.
    destruct (clampq_cases (- q)) as [[H' C']|[[H' C']|[H' C']]]; rewrite C'; try lra. reflexivity.
  - rewrite A2 by lra. change (qabs (-(1))) with 1.
    destruct (clampq_cases (- - q)) as [[H' C']|[[H' C']|[H' C']]]; rewrite C'; try lra. reflexivity.
  - reflexivity.
Qed.

Lemma set_speed_q_backward : forall m q, set_speed_q m (- qabs (clampq q)) = set_speed_q m (- qabs q).
Proof. intros m q. unfold set_speed_q. rewrite (Qred_complete _ _ (clampq_neg_abs q)). reflexivity. Qed.

Lemma dur_ok_spec : forall v, dur_ok v = true -> py_lt v (PI 0) = Some false /\ dur0 (qval v) = qval v /\ 0 <= qval v.
Proof.
  intros v H. unfold dur_ok in H. apply andb_true_iff in H as [H0 H1]. apply Qleb_true in H1.
  pose proof (num_ok_qof v H0) as Q0. unfold py_lt. rewrite Q0. cbn [qof].
  assert (F : Qltb (qval v) 0 = false) by (apply Qltb_false; exact H1).
  split; [change (inject_Z 0) with 0; rewrite F; reflexivity|]. split; [unfold dur0; rewrite F; reflexivity|exact H1].
Qed.

Lemma ramp_run_dc : forall m target d, ramp_run m target d =
  ramp_loop (zsteps dc_ramp_steps) m (speed m) ((target - speed m) / inject_Z dc_ramp_steps) (d / inject_Z dc_ramp_steps).
Proof. intros m target d. unfold ramp_run. rewrite ramp_steps_20. reflexivity. Qed.

Lemma sim_op_0 : forall p m d v, mrel m d -> motor_in_range m (MSetSpeed v) = true ->
  mrel (mstate (mstep m (MSetSpeed v))) (fst (fst (dmstep p d (MSetSpeed v)))) /\
  map dconv (snd (fst (dmstep p d (MSetSpeed v)))) = flat_map (hmconv p) (mevents (mstep m (MSetSpeed v))) /\
  snd (dmstep p d (MSetSpeed v)) = hget_of (mresult (mstep m (MSetSpeed v))) /\
  (exists x, mresult (mstep m (MSetSpeed v)) = Ok x).
Proof.
  intros p m d v R G. pose proof R as (R1 & R2 & R3 & R4 & R5 & R6).
  unfold motor_in_range in G. pose proof G as Ga.
  (* set_speed *)
    destruct (speed_ok_spec v Ga) as [_ Cs]. cbn [mstep dmstep] in *. rewrite Cs in *.
    rewrite ok_with_state, ok_with_events, ok_with_result. rewrite set_speed_q_clamp.
    destruct (set_speed_sim p m d (qval v) R2) as (S1 & S2 & S3).
    destruct (d_apply p d true (qval v)) as [d1 de]. cbn [fst snd] in *.
    split; [apply mrel_ghost; exact S1|]. split; [exact S2|]. split; [reflexivity|eexists; reflexivity].
Qed.

Lemma sim_op_1 : forall p m d ov, mrel m d -> motor_in_range m (MBackward ov) = true ->
  mrel (mstate (mstep m (MBackward ov))) (fst (fst (dmstep p d (MBackward ov)))) /\
  map dconv (snd (fst (dmstep p d (MBackward ov)))) = flat_map (hmconv p) (mevents (mstep m (MBackward ov))) /\
  snd (dmstep p d (MBackward ov)) = hget_of (mresult (mstep m (MBackward ov))) /\
  (exists x, mresult (mstep m (MBackward ov)) = Ok x).
Proof.
  intros p m d ov R G. pose proof R as (R1 & R2 & R3 & R4 & R5 & R6).
  unfold motor_in_range in G. pose proof G as Ga.
  (* backward *)
    destruct (speed_ok_spec (dflt_back ov) Ga) as [_ Cs]. cbn [mstep dmstep] in *. rewrite Cs in *.
    rewrite ok_with_state, ok_with_events, ok_with_result. rewrite set_speed_q_backward.
    change (if Qltb (qval (dflt_back ov)) 0 then - qval (dflt_back ov) else qval (dflt_back ov)) with (qabs (qval (dflt_back ov))).
    destruct (set_speed_sim p m d (- qabs (qval (dflt_back ov))) R2) as (S1 & S2 & S3).
    destruct (d_apply p d true (- qabs (qval (dflt_back ov)))) as [d1 de]. cbn [fst snd] in *.
    split; [apply mrel_ghost; exact S1|]. split; [exact S2|]. split; [reflexivity|eexists; reflexivity].
Qed.

Lemma sim_op_2 : forall p m d , mrel m d -> motor_in_range m (MStop) = true ->
  mrel (mstate (mstep m (MStop))) (fst (fst (dmstep p d (MStop)))) /\
  map dconv (snd (fst (dmstep p d (MStop)))) = flat_map (hmconv p) (mevents (mstep m (MStop))) /\
  snd (dmstep p d (MStop)) = hget_of (mresult (mstep m (MStop))) /\
  (exists x, mresult (mstep m (MStop)) = Ok x).
Proof.
  intros p m d  R G. pose proof R as (R1 & R2 & R3 & R4 & R5 & R6).
  unfold motor_in_range in G. pose proof G as Ga.
  (* stop *)
    cbn [mstep dmstep]. rewrite ok_with_state, ok_with_events, ok_with_result.
    destruct (halt_sim p m d Brake (or_introl eq_refl) R2) as [S1 S2].
    destruct (d_halt p d Brake) as [d1 de]. cbn [fst snd] in *.
    split; [apply mrel_ghost; exact S1|]. split; [exact S2|]. split; [reflexivity|eexists; reflexivity].
Qed.

Lemma sim_op_3 : forall p m d , mrel m d -> motor_in_range m (MCoast) = true ->
  mrel (mstate (mstep m (MCoast))) (fst (fst (dmstep p d (MCoast)))) /\
  map dconv (snd (fst (dmstep p d (MCoast)))) = flat_map (hmconv p) (mevents (mstep m (MCoast))) /\
  snd (dmstep p d (MCoast)) = hget_of (mresult (mstep m (MCoast))) /\
  (exists x, mresult (mstep m (MCoast)) = Ok x).
Proof.
  intros p m d  R G. pose proof R as (R1 & R2 & R3 & R4 & R5 & R6).
  unfold motor_in_range in G. pose proof G as Ga.
  (* coast *)
    cbn [mstep dmstep]. rewrite ok_with_state, ok_with_events, ok_with_result.
    destruct (halt_sim p m d Coast (or_intror eq_refl) R2) as [S1 S2].
    destruct (d_halt p d Coast) as [d1 de]. cbn [fst snd] in *.
    split; [apply mrel_ghost; exact S1|]. split; [exact S2|]. split; [reflexivity|eexists; reflexivity].
Qed.

Lemma sim_op_4 : forall p m d , mrel m d -> motor_in_range m (MInvert) = true ->
  mrel (mstate (mstep m (MInvert))) (fst (fst (dmstep p d (MInvert)))) /\
  map dconv (snd (fst (dmstep p d (MInvert)))) = flat_map (hmconv p) (mevents (mstep m (MInvert))) /\
  snd (dmstep p d (MInvert)) = hget_of (mresult (mstep m (MInvert))) /\
  (exists x, mresult (mstep m (MInvert)) = Ok x).
Proof.
  intros p m d  R G. pose proof R as (R1 & R2 & R3 & R4 & R5 & R6).
  unfold motor_in_range in G. pose proof G as Ga.
  (* invert *)
    cbn [mstep dmstep] in *. rewrite ok_with_state, ok_with_events, ok_with_result.
    destruct (invert_sim p m d R) as [S1 S2].
    destruct (d_apply p _ false (dm_speed d)) as [d1 de]. cbn [fst snd] in *.
    split; [apply mrel_ghost; exact S1|]. split; [exact S2|]. split; [reflexivity|eexists; reflexivity].
Qed.

Lemma sim_op_5 : forall p m d t du, mrel m d -> motor_in_range m (MRamp t du) = true ->
  mrel (mstate (mstep m (MRamp t du))) (fst (fst (dmstep p d (MRamp t du)))) /\
  map dconv (snd (fst (dmstep p d (MRamp t du)))) = flat_map (hmconv p) (mevents (mstep m (MRamp t du))) /\
  snd (dmstep p d (MRamp t du)) = hget_of (mresult (mstep m (MRamp t du))) /\
  (exists x, mresult (mstep m (MRamp t du)) = Ok x).
Proof.
  intros p m d t du R G. pose proof R as (R1 & R2 & R3 & R4 & R5 & R6).
  unfold motor_in_range in G. pose proof G as Ga.
  (* ramp *)
    apply andb_true_iff in Ga as [Gs Gd].
    destruct (speed_ok_spec t Gs) as [_ Cs]. destruct (dur_ok_spec du Gd) as (Pl & D0 & Dn).
    cbn [mstep dmstep] in *. rewrite Pl, Cs in *.
    rewrite ok_with_state, ok_with_events, ok_with_result.
    unfold d_ramp. rewrite D0, R1.
    change (qclamp (-(1)) 1 (qval t)) with (clampq (qval t)). rewrite ramp_run_dc.
    destruct (ramp_loop_sim (zsteps dc_ramp_steps) p m d (speed m) (clampq (qval t)) (qval du / inject_Z dc_ramp_steps) R2) as [S1 S2].
    { left. rewrite ramp_steps_20. exact steps20_ne. }
    destruct (d_ramp_loop _ p d (speed m) (clampq (qval t)) _) as [d1 de]. cbn [fst snd] in *.
    split; [apply mrel_ghost; exact S1|]. split; [exact S2|]. split; [reflexivity|eexists; reflexivity].
Qed.

Lemma sim_op_6 : forall p m d du v, mrel m d -> motor_in_range m (MRunFor du v) = true ->
  mrel (mstate (mstep m (MRunFor du v))) (fst (fst (dmstep p d (MRunFor du v)))) /\
  map dconv (snd (fst (dmstep p d (MRunFor du v)))) = flat_map (hmconv p) (mevents (mstep m (MRunFor du v))) /\
  snd (dmstep p d (MRunFor du v)) = hget_of (mresult (mstep m (MRunFor du v))) /\
  (exists x, mresult (mstep m (MRunFor du v)) = Ok x).
Proof.
  intros p m d du v R G. pose proof R as (R1 & R2 & R3 & R4 & R5 & R6).
  unfold motor_in_range in G. pose proof G as Ga.
  (* run_for *)
    apply andb_true_iff in Ga as [Gd Gs].
    destruct (speed_ok_spec v Gs) as [_ Cs]. destruct (dur_ok_spec du Gd) as (Pl & D0 & Dn).
    cbn [mstep dmstep] in *. rewrite Pl, Cs in *. unfold d_run_for. rewrite D0. rewrite set_speed_q_clamp.
    pose proof (set_speed_sim p m d (qval v) R2) as S.
    destruct (set_speed_q m (qval v)) as [m1 e1] eqn:Eh.
    destruct (d_apply p d true (qval v)) as [d1 de1] eqn:Ed.
    destruct S as (S1 & S2 & _). cbn [fst snd] in S1, S2.
    assert (Hi1 : dm_inv d1 = inverted m1) by (destruct S1 as (_ & X & _); exact X).
    destruct (halt_sim p m1 d1 Brake (or_introl eq_refl) Hi1) as [H1 H2].
    destruct (halt m1 Brake) as [m2 e2] eqn:Eh2. destruct (d_halt p d1 Brake) as [d2 de2] eqn:Ed2.
    rewrite ok_with_state, ok_with_events, ok_with_result. cbn [fst snd] in *.
    split; [apply mrel_ghost; exact H1|]. split; [|split; [reflexivity|eexists; reflexivity]].
    rewrite !map_app, !flat_map_app, S2, H2. destruct p as [[in1 in2] en]. reflexivity.
Qed.

Lemma sim_op_7 : forall p m d , mrel m d -> motor_in_range m (MGetSpeed) = true ->
  mrel (mstate (mstep m (MGetSpeed))) (fst (fst (dmstep p d (MGetSpeed)))) /\
  map dconv (snd (fst (dmstep p d (MGetSpeed)))) = flat_map (hmconv p) (mevents (mstep m (MGetSpeed))) /\
  snd (dmstep p d (MGetSpeed)) = hget_of (mresult (mstep m (MGetSpeed))) /\
  (exists x, mresult (mstep m (MGetSpeed)) = Ok x).
Proof.
  intros p m d  R G. pose proof R as (R1 & R2 & R3 & R4 & R5 & R6).
  unfold motor_in_range in G. pose proof G as Ga.
  cbn. split; [exact R|]. split; [reflexivity|]. split; [rewrite R1; reflexivity|eexists; reflexivity].
Qed.

Lemma sim_op_8 : forall p m d , mrel m d -> motor_in_range m (MGetApplied) = true ->
  mrel (mstate (mstep m (MGetApplied))) (fst (fst (dmstep p d (MGetApplied)))) /\
  map dconv (snd (fst (dmstep p d (MGetApplied)))) = flat_map (hmconv p) (mevents (mstep m (MGetApplied))) /\
  snd (dmstep p d (MGetApplied)) = hget_of (mresult (mstep m (MGetApplied))) /\
  (exists x, mresult (mstep m (MGetApplied)) = Ok x).
Proof.
  intros p m d  R G. pose proof R as (R1 & R2 & R3 & R4 & R5 & R6).
  unfold motor_in_range in G. pose proof G as Ga.
  cbn. split; [exact R|]. split; [reflexivity|]. split; [rewrite R1, R2, R4; reflexivity|eexists; reflexivity].
Qed.

Lemma sim_op_9 : forall p m d , mrel m d -> motor_in_range m (MIsInverted) = true ->
  mrel (mstate (mstep m (MIsInverted))) (fst (fst (dmstep p d (MIsInverted)))) /\
  map dconv (snd (fst (dmstep p d (MIsInverted)))) = flat_map (hmconv p) (mevents (mstep m (MIsInverted))) /\
  snd (dmstep p d (MIsInverted)) = hget_of (mresult (mstep m (MIsInverted))) /\
  (exists x, mresult (mstep m (MIsInverted)) = Ok x).
Proof.
  intros p m d  R G. pose proof R as (R1 & R2 & R3 & R4 & R5 & R6).
  unfold motor_in_range in G. pose proof G as Ga.
  cbn. split; [exact R|]. split; [reflexivity|]. split; [rewrite R2; reflexivity|eexists; reflexivity].
Qed.

Lemma sim_op_10 : forall p m d , mrel m d -> motor_in_range m (MGetMode) = true ->
  mrel (mstate (mstep m (MGetMode))) (fst (fst (dmstep p d (MGetMode)))) /\
  map dconv (snd (fst (dmstep p d (MGetMode)))) = flat_map (hmconv p) (mevents (mstep m (MGetMode))) /\
  snd (dmstep p d (MGetMode)) = hget_of (mresult (mstep m (MGetMode))) /\
  (exists x, mresult (mstep m (MGetMode)) = Ok x).
Proof.
  intros p m d  R G. pose proof R as (R1 & R2 & R3 & R4 & R5 & R6).
  unfold motor_in_range in G. pose proof G as Ga.
  cbn. split; [exact R|]. split; [reflexivity|]. split; [rewrite R3; reflexivity|eexists; reflexivity].

Qed.

Lemma motor_sim_step : forall p m d o, mrel m d -> motor_in_range m o = true ->
  mrel (mstate (mstep m o)) (fst (fst (dmstep p d o))) /\
  map dconv (snd (fst (dmstep p d o))) = flat_map (hmconv p) (mevents (mstep m o)) /\
  snd (dmstep p d o) = hget_of (mresult (mstep m o)) /\
  (exists x, mresult (mstep m o) = Ok x).
Proof.
  intros p m d o R G. destruct o.
  - apply sim_op_0; assumption.
  - apply sim_op_1; assumption.
  - apply sim_op_2; assumption.
  - apply sim_op_3; assumption.
  - apply sim_op_4; assumption.
  - apply sim_op_5; assumption.
  - apply sim_op_6; assumption.
  - apply sim_op_7; assumption.
  - apply sim_op_8; assumption.
  - apply sim_op_9; assumption.
  - apply sim_op_10; assumption.
Qed.

(* ------------------------------------------------------------------ *)
(* histories                                                           *)
(* ------------------------------------------------------------------ *)
Lemma motor_sim_run : forall p ops m d, mrel m d ->
  forallb (fun b => b) (motor_guard_flags m ops) = true ->
  map dconv (fst (dmrun p d ops)) = fst (fst (hmrun p m ops)) /\
  snd (dmrun p d ops) = snd (fst (hmrun p m ops)) /\
  snd (hmrun p m ops) = true.
Proof.
  intros p ops. induction ops as [|o r IH]; intros m d R G; [repeat split|].
  cbn [motor_guard_flags forallb] in G. apply andb_true_iff in G as [G1 G2].
  destruct (motor_sim_step p m d o R G1) as (R1 & E1 & Gt & x & X).
  cbn [dmrun hmrun]. unfold mstate, mevents, mresult in *.
  destruct (mstep m o) as [[m1 he] r1]. destruct (dmstep p d o) as [[d1 de] g1]. cbn [fst snd] in *.
  destruct (IH m1 d1 R1 G2) as (I1 & I2 & I3).
  destruct (dmrun p d1 r) as [e2 g2]. destruct (hmrun p m1 r) as [[he2 hg2] ok2]. cbn [fst snd] in *.
  subst r1. split; [|split].
  - rewrite map_app, E1, I1. reflexivity.
  - rewrite Gt, I2. reflexivity.
  - exact I3.
Qed.

Lemma mrel_init : forall p, mrel (m0 p) dminit.
Proof. intros [[a b] c]. unfold mrel, m0, dminit. cbn. repeat split; try reflexivity; lra. Qed.

(* C04 for the DC motor: the firmware's events ARE the host's level signal on the three pins
   (direction from the sign of the applied speed, duty = the nearest PWM count, sleeps truncated), the getters are equal *)
Lemma motor_device_eq_host : forall p ops,
  forallb (fun b => b) (motor_guard_flags (m0 p) ops) = true ->
  map dconv (fst (dmrun p dminit ops)) = fst (fst (hmrun p (m0 p) ops)) /\
  snd (dmrun p dminit ops) = snd (fst (hmrun p (m0 p) ops)) /\
  snd (hmrun p (m0 p) ops) = true.
Proof. intros p ops G. apply motor_sim_run; [apply mrel_init|exact G]. Qed.

(* the host's duty is within half a PWM count of 255*|applied| (|applied| <= 1 always: motor_inv) *)
Lemma hduty_nearest : forall ap, -(1) <= ap <= 1 -> Qabs (inject_Z (hduty ap) - 255 * qabs ap) <= 1 # 2.
Proof. intros ap H. unfold hduty. apply pwm_of_nearest. apply qabs_unit. exact H. Qed.

(* a host sleep of q >= 0 ms is a device delay of trunc(q) ms: less than 1 ms shorter *)
Lemma ctrunc_within_ms : forall q, 0 <= q -> 0 <= q - inject_Z (ctrunc q) /\ q - inject_Z (ctrunc q) < 1.
Proof.
  intros q H. rewrite DServoP.ctrunc_nonneg by exact H.
  pose proof (Qfloor_le q) as H1. pose proof (Qlt_floor q) as H2.
  rewrite inject_Z_plus in H2. change (inject_Z 1) with 1 in H2. split; lra.
Qed.

(* inside the guard every host sleep is >= 0, so the bound above applies to every delay *)
Lemma motor_sleeps_nonneg : forall m o, motor_in_range m o = true ->
  Forall (fun q => 0 <= q) (sleeps (mevents (mstep m o))).
Proof.
  intros m o G. unfold motor_in_range in G. pose proof G as Ga.
  destruct o as [v|ov| | | |t du|du v| | | |]; try (cbn; constructor).
  - destruct (speed_ok_spec v Ga) as [_ Cs]. cbn [mstep]. rewrite Cs. rewrite ok_with_events. cbn. constructor.
  - destruct (speed_ok_spec (dflt_back ov) Ga) as [_ Cs]. cbn [mstep]. rewrite Cs. rewrite ok_with_events. cbn. constructor.
  - apply andb_true_iff in Ga as [Gs Gd].
    destruct (speed_ok_spec t Gs) as [_ Cs]. destruct (dur_ok_spec du Gd) as (Pl & _ & Dn).
    cbn [mstep]. rewrite Pl, Cs. rewrite ok_with_events, ramp_run_dc, ramp_loop_sleeps.
    destruct (Qltb 0 (qval du / inject_Z dc_ramp_steps)) eqn:E; [|constructor].
    apply Qltb_true in E. apply Forall_forall. intros x Hx. apply repeat_spec in Hx. subst x. lra.
  - apply andb_true_iff in Ga as [Gd Gs].
    destruct (speed_ok_spec v Gs) as [_ Cs]. destruct (dur_ok_spec du Gd) as (Pl & _ & Dn).
    cbn [mstep]. rewrite Pl, Cs. unfold set_speed_q, apply_speed, halt. rewrite ok_with_events. cbn. constructor; [exact Dn|constructor].
Qed.

(* ------------------------------------------------------------------ *)
(* out-of-range speeds                                                 *)
(* ------------------------------------------------------------------ *)
Lemma motor_guard_any_speed : forall m v t d,
  num_ok v = true -> num_ok t = true -> dur_ok d = true ->
  motor_in_range m (MSetSpeed v) = true /\ motor_in_range m (MBackward (Some v)) = true /\
  motor_in_range m (MRamp t d) = true /\ motor_in_range m (MRunFor d v) = true.
Proof.
  intros m v t d Hv Ht Hd. unfold motor_in_range, speed_ok, dflt_back. rewrite Hv, Ht, Hd. repeat split.
Qed.

Lemma d_apply_clamp : forall p d store v, d_apply p d store (clampq v) = d_apply p d store v.
Proof.
  intros [[in1 in2] en] d store v. unfold d_apply. change (qclamp (-(1)) 1 (clampq v)) with (clampq (clampq v)).
  rewrite clampq_idem. reflexivity.
Qed.

Lemma d_apply_neg_abs_clamp : forall p d store v, d_apply p d store (- qabs (clampq v)) = d_apply p d store (- qabs v).
Proof.
  intros [[in1 in2] en] d store v. unfold d_apply.
  change (qclamp (-(1)) 1 (- qabs (clampq v))) with (clampq (- qabs (clampq v))).
  change (qclamp (-(1)) 1 (- qabs v)) with (clampq (- qabs v)).
  rewrite (Qred_complete _ _ (clampq_neg_abs v)). reflexivity.
Qed.

Lemma motor_out_of_range_is_limit : forall p d v t du,
  dmstep p d (MSetSpeed (PF v)) = dmstep p d (MSetSpeed (PF (clampq v))) /\
  dmstep p d (MBackward (Some (PF v))) = dmstep p d (MBackward (Some (PF (clampq v)))) /\
  dmstep p d (MRunFor du (PF v)) = dmstep p d (MRunFor du (PF (clampq v))) /\
  dmstep p d (MRamp (PF t) du) = dmstep p d (MRamp (PF (clampq t)) du).
Proof.
  intros p d v t du. cbn [dmstep dflt_back]. unfold qval. cbn [qof]. split; [|split; [|split]].
  - rewrite d_apply_clamp. reflexivity.
  - change (if Qltb v 0 then - v else v) with (qabs v).
    change (if Qltb (clampq v) 0 then - clampq v else clampq v) with (qabs (clampq v)).
    rewrite d_apply_neg_abs_clamp. reflexivity.
  - unfold d_run_for. rewrite d_apply_clamp. reflexivity.
  - unfold d_ramp. change (qclamp (-(1)) 1 (clampq t)) with (clampq (clampq t)). rewrite clampq_idem. reflexivity.
Qed.

Definition out_ops : list mop :=
  [MSetSpeed (PF (1 # 4)); MRamp (PI 2) (PI 200); MGetSpeed; MRamp (PI (-3)) (PI 100); MGetMode; MBackward (Some (PI 300));
   MGetApplied; MInvert; MRunFor (PI 20) (PI (-2)); MGetMode; MSetSpeed (PF (3 # 2)); MGetSpeed; MRamp (PF (-5 # 4)) (PF (21 # 2)); MGetApplied].

Lemma motor_out_ops_agree :
  forallb (fun b => b) (motor_guard_flags (m0 (4, 5, 6)%Z) out_ops) = true /\
  map dconv (fst (dmrun (4, 5, 6)%Z dminit out_ops)) = fst (fst (hmrun (4, 5, 6)%Z (m0 (4, 5, 6)%Z) out_ops)) /\
  snd (fst (hmrun (4, 5, 6)%Z (m0 (4, 5, 6)%Z) out_ops)) = snd (dmrun (4, 5, 6)%Z dminit out_ops).
Proof. vm_compute. repeat split. Qed.

Lemma motor_ramp_clamps_first :
  map (fun e => match e with EAW _ v => v | _ => (-1)%Z end)
      (filter (fun e => match e with EAW _ _ => true | _ => false end)
              (fst (dmrun (4, 5, 6)%Z dminit [MSetSpeed (PF (1 # 5)); MRamp (PI 2) (PI 0)]))) =
  [51; 61; 71; 82; 92; 102; 112; 122; 133; 143; 153; 163; 173; 184; 194; 204; 214; 224; 235; 245; 255]%Z.
Proof. vm_compute. reflexivity. Qed.
