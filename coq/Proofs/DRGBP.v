(* Device RGB LED vs host RGB LED (property C04, unit C04_rgb): proofs. *)
From Coq Require Import ZArith QArith Qround Qabs Lia Lqa List Bool.
From RV Require Import Base.Wire Base.Num Host.Led Host.RGBLed Device.Signal Device.DLed Device.DRGB
  Proofs.NumP Proofs.SignalP Proofs.DLedP.
Import ListNotations.
Import Num.
Open Scope Z_scope.

(* ------------------------------------------------------------------ *)
(* the expected refutation: rounding of a fade step that lands on .5   *)
(* ------------------------------------------------------------------ *)
Definition black (p : pins3) : rgb := let '(a, b, c) := p in mkRgb (PI a, PI b, PI c) (0, 0, 0) false.

Definition w_ops : list RGBLed.op := [Fade (PI 1) (PI 0) (PI 0) (PI 100) (PI 2)].

Lemma rgb_fade_half_differs :
  canon (drtr (9, 10, 11) drinit w_ops) <> canon (fst (hrrun (9, 10, 11) (black (9, 10, 11)) w_ops)).
Proof. vm_compute. discriminate. Qed.

Lemma rgb_fade_half_values :
  canon (drtr (9, 10, 11) drinit w_ops) = ([(0, 9, 1)], 50) /\
  canon (fst (hrrun (9, 10, 11) (black (9, 10, 11)) w_ops)) = ([(50, 9, 1)], 50).
Proof. vm_compute. split; reflexivity. Qed.

(* ------------------------------------------------------------------ *)
(* clamp clause                                                        *)
(* ------------------------------------------------------------------ *)
Definition triple_ok (c : triple) : Prop :=
  let '(r, g, b) := c in (0 <= r <= 255) /\ (0 <= g <= 255) /\ (0 <= b <= 255).

Lemma aw3_ok : forall p c, triple_ok c -> Forall dev_ok (aw3 p c).
Proof.
  intros [[p1 p2] p3] [[r g] b] (Hr & Hg & Hb). cbn [aw3]. constructor; [exact Hr|]. constructor; [exact Hg|]. constructor; [exact Hb|constructor].
Qed.

Lemma clamp3_ok : forall r g b, triple_ok (clamp3 r g b).
Proof. intros. unfold clamp3, triple_ok. repeat split; apply clamp255_range. Qed.

(* an interpolated value lies between start and target *)
Lemma c_interp_between : forall n s t i, 0 < n -> 1 <= i <= n ->
  (s <= t -> s <= c_interp n s t i <= t) /\ (t <= s -> t <= c_interp n s t i <= s).
Proof.
  intros n s t i Hn Hi. unfold c_interp.
  assert (Hh : 0 <= Z.quot n 2 /\ 2 * Z.quot n 2 <= n).
  { rewrite Z.quot_div_nonneg by lia. split; [apply Z.div_pos; lia|]. pose proof (Z.mul_div_le n 2 ltac:(lia)). lia. }
  destruct Hh as [Hh0 Hh1]. set (h := Z.quot n 2) in *.
  split; intro Hst.
  - assert (Hnum : 0 <= (t - s) * i) by nia.
    apply Z.leb_le in Hnum. rewrite Hnum. apply Z.leb_le in Hnum.
    rewrite Z.quot_div_nonneg by lia.
    assert (0 <= ((t - s) * i + h) / n) by (apply Z.div_pos; lia).
    assert (((t - s) * i + h) / n < t - s + 1).
    { apply Z.div_lt_upper_bound; [lia|]. nia. }
    lia.
  - destruct (0 <=? (t - s) * i) eqn:E.
    + apply Z.leb_le in E. assert ((t - s) * i = 0) by nia. rewrite H.
      rewrite Z.add_0_l. rewrite Z.quot_small by lia. nia.
    + apply Z.leb_gt in E.
      assert (Hq : Z.quot ((t - s) * i - h) n = - (((s - t) * i + h) / n)).
      { replace ((t - s) * i - h) with (- ((s - t) * i + h)) by lia.
        rewrite Z.quot_opp_l by lia. rewrite Z.quot_div_nonneg by nia. reflexivity. }
      rewrite Hq.
      assert (0 <= ((s - t) * i + h) / n) by (apply Z.div_pos; nia).
      assert (((s - t) * i + h) / n < s - t + 1).
      { apply Z.div_lt_upper_bound; [lia|]. nia. }
      lia.
Qed.

Lemma c_interp_ok : forall n s t i, 0 < n -> 1 <= i <= n -> 0 <= s <= 255 -> 0 <= t <= 255 ->
  0 <= c_interp n s t i <= 255.
Proof.
  intros n s t i Hn Hi Hs Ht. destruct (c_interp_between n s t i Hn Hi) as [H1 H2].
  destruct (Z_le_gt_dec s t) as [H|H]; [specialize (H1 H)|specialize (H2 ltac:(lia))]; lia.
Qed.

Lemma c_interp3_ok : forall n s t i, 0 < n -> 1 <= i <= n -> triple_ok s -> triple_ok t -> triple_ok (c_interp3 n s t i).
Proof.
  intros n [[s1 s2] s3] [[t1 t2] t3] i Hn Hi (A1 & A2 & A3) (B1 & B2 & B3). cbn [c_interp3 triple_ok].
  repeat split; apply c_interp_ok; lia.
Qed.

Lemma dfade_loop_ok : forall k i n p s t dl st, 0 < n -> 1 <= i -> i + Z.of_nat k = n + 1 ->
  triple_ok s -> triple_ok t -> triple_ok (dr_col st) ->
  Forall dev_ok (snd (dfade_loop k i n p s t dl st)) /\ triple_ok (dr_col (fst (dfade_loop k i n p s t dl st))).
Proof.
  induction k as [|k IH]; intros i n p s t dl st Hn Hi Hk Hs Ht Hst.
  - cbn. split; [constructor|exact Hst].
  - cbn [dfade_loop]. unfold dr_write.
    assert (Hc : triple_ok (c_interp3 n s t i)) by (apply c_interp3_ok; try assumption; lia).
    specialize (IH (i + 1) n p s t dl (mkDR (c_interp3 n s t i) (any_on (c_interp3 n s t i))) Hn ltac:(lia) ltac:(lia) Hs Ht Hc).
    destruct (dfade_loop k (i + 1) n p s t dl _) as [st2 e3]. cbn [fst snd] in *. destruct IH as [I1 I2].
    split; [|exact I2]. apply Forall_app. split; [apply aw3_ok; exact Hc|].
    apply Forall_app. split; [|exact I1].
    destruct (negb (i =? n) && (0 <? dl)); repeat constructor.
Qed.

Lemma drblink_ok : forall k p c dl, triple_ok c -> Forall dev_ok (drblink_evs k p c dl).
Proof.
  induction k as [|k IH]; intros p c dl Hc; [constructor|]. cbn [drblink_evs].
  assert (H0 : triple_ok (0, 0, 0)) by (cbn; lia).
  assert (Hd : Forall dev_ok (opt_delay dl)) by (unfold opt_delay; destruct (0 <? dl); repeat constructor).
  repeat (apply Forall_app; split); auto using aw3_ok.
Qed.

Lemma drstep_ok : forall p st o, triple_ok (dr_col st) ->
  Forall dev_ok (snd (drstep p st o)) /\ triple_ok (dr_col (fst (drstep p st o))).
Proof.
  intros p st o Hst. destruct o as [| | |r g b|r g b| |r g b d n|r g b t d]; cbn [drstep];
    try (split; [constructor|exact Hst]).
  - unfold dr_set, dr_write. cbn [fst snd dr_col]. split; [apply aw3_ok|]; apply clamp3_ok.
  - unfold dr_set, dr_write. cbn [fst snd dr_col]. split; [apply aw3_ok|]; apply clamp3_ok.
  - unfold dr_write. cbn [fst snd dr_col]. split; [apply aw3_ok|]; cbn; lia.
  - unfold dr_fade. destruct ((floor0 (c_int d) =? 0) || triple_eqb (dr_col st) (clamp3 r g b)).
    + unfold dr_write. cbn [fst snd dr_col]. split; [apply aw3_ok|]; apply clamp3_ok.
    + pose proof (c_step_pos n) as Hn. apply dfade_loop_ok; try assumption; try lia; try apply clamp3_ok.
  - unfold dr_blink. cbn [fst snd]. split; [|exact Hst].
    apply Forall_app. split; [apply drblink_ok; apply clamp3_ok|apply aw3_ok; exact Hst].
Qed.

Lemma rgb_clamp : forall p ops st, triple_ok (dr_col st) ->
  Forall dev_ok (drrun p st ops) /\ triple_ok (dr_col (drfinal p st ops)).
Proof.
  intros p ops. induction ops as [|o r IH]; intros st Hst; [split; [constructor|exact Hst]|].
  cbn [drrun drfinal]. destruct (drstep_ok p st o Hst) as [H1 H2].
  destruct (drstep p st o) as [st1 e1]. cbn [fst snd] in *. destruct (IH st1 H2) as [I1 I2].
  split; [apply Forall_app; split; assumption|exact I2].
Qed.

Lemma rgb_clamp_init : forall p ops, Forall dev_ok (drrun p drinit ops).
Proof. intros p ops. apply rgb_clamp. cbn. lia. Qed.

(* delays: both roundings stay within one millisecond of the host's sleep *)
Lemma rnd_within_ms : forall m q, (0 <= q)%Q -> (Qabs (q - inject_Z (rnd m q)) < 1)%Q.
Proof.
  intros m q Hq. destruct m; cbn [rnd].
  - destruct (trunc_within_ms q Hq) as [H1 H2]. apply Qabs_case; intros; lra.
  - pose proof (Qfloor_le (q + (1 # 2))) as H1. pose proof (Qlt_floor (q + (1 # 2))) as H2.
    rewrite inject_Z_plus in H2. change (inject_Z 1) with 1%Q in H2. apply Qabs_case; intros; lra.
Qed.
