(* Device RGB LED vs host RGB LED (property C04, unit C04_rgb): proofs. *)
From Coq Require Import ZArith QArith Qround Qabs Lia Lqa List Bool.
From RV Require Import Base.Wire Base.Num Host.Led Host.RGBLed Device.Signal Device.DLed Device.DRGB
  Proofs.NumP Proofs.SignalP Proofs.DLedP.
Import ListNotations.
Import Num.
Open Scope Z_scope.

(* ------------------------------------------------------------------ *)
(* a fade step that lands on .5 (the former refutation)                *)
(* ------------------------------------------------------------------ *)
Definition black (p : pins3) : rgb := let '(a, b, c) := p in mkRgb (PI a, PI b, PI c) (0, 0, 0) false.

Definition w_ops : list RGBLed.op := [Fade (PI 1) (PI 0) (PI 0) (PI 100) (PI 2)].

(* the former witness of F-C04-rgb-fade-half-rounding: step 1 of rgb.fade(1, 0, 0, 100, steps=2) from black is exactly
   0.5 - both sides now round it to 0, the red pin goes to level 1 at t = 50 ms on the device as on the host; and a
   half that rounds UP to the even neighbour (1.5 -> 2) *)
Definition w_ops_up : list RGBLed.op := [Fade (PI 3) (PI 0) (PI 0) (PI 100) (PI 2)].

Lemma rgb_fade_half_values :
  canon (drtr (9, 10, 11) drinit w_ops) = ([(50, 9, 1)], 50) /\
  canon (fst (hrrun (9, 10, 11) (black (9, 10, 11)) w_ops)) = ([(50, 9, 1)], 50) /\
  tie 2 0 1 1 = true /\ c_interp 2 0 1 1 = 0 /\ c_interp 2 0 3 1 = 2 /\ c_interp 2 3 0 1 = 2 /\ c_interp 4 255 249 3 = 250 /\
  canon (drtr (9, 10, 11) drinit w_ops_up) = canon (fst (hrrun (9, 10, 11) (black (9, 10, 11)) w_ops_up)) /\
  canon (drtr (9, 10, 11) drinit w_ops_up) = ([(0, 9, 2); (50, 9, 3)], 50).
Proof. vm_compute. repeat split; reflexivity. Qed.

(* ------------------------------------------------------------------ *)
(* clamp clause                                                        *)
(* ------------------------------------------------------------------ *)
Definition triple_ok (c : triple) : Prop :=
  let '(r, g, b) := c in (0 <= r <= 255) /\ (0 <= g <= 255) /\ (0 <= b <= 255).

Lemma aw3_ok : forall p c, triple_ok c -> Forall dev_ok (aw3 p c).
Proof.
  intros [[p1 p2] p3] [[r g] b] (Hr & Hg & Hb). cbn [aw3]. constructor; [exact Hr|]. constructor; [exact Hg|]. constructor; [exact Hb|constructor].
Qed.

Lemma clamp3_ok : forall r g b, triple_ok (clamp3 r g b).
Proof. intros. unfold clamp3, triple_ok. repeat split; apply clamp255_range. Qed.

Lemma even_mod2 : forall a, Z.even a = (a mod 2 =? 0).
Proof.
  intro a. rewrite Zeven_mod. destruct (Z.eqb_spec (a mod 2) 0) as [E|E].
  - apply Zeq_is_eq_bool. exact E.
  - destruct (Zeq_bool (a mod 2) 0) eqn:F; [|reflexivity]. apply Zeq_bool_eq in F. contradiction.
Qed.

(* the device's quotient/remainder form, with floor division: for num >= 0 C's / and % are div and mod *)
Lemma c_interp_nonneg : forall n s t i, 0 < n -> 0 <= s * n + (t - s) * i ->
  c_interp n s t i =
  let num := s * n + (t - s) * i in
  if (n <? 2 * (num mod n)) || ((2 * (num mod n) =? n) && negb (Z.even (num / n))) then num / n + 1 else num / n.
Proof.
  intros n s t i Hn Hnum. unfold c_interp. cbv zeta.
  rewrite Z.quot_div_nonneg, Z.rem_mod_nonneg by lia.
  assert (Hq : 0 <= (s * n + (t - s) * i) / n) by (apply Z.div_pos; lia).
  rewrite Z.rem_mod_nonneg by lia.
  rewrite even_mod2. reflexivity.
Qed.

(* an interpolated value lies between start and target (any integers: for a negative numerator - never met on the
   device - the formula is C's truncation toward zero) *)
Lemma c_interp_between : forall n s t i, 0 < n -> 1 <= i <= n ->
  (s <= t -> s <= c_interp n s t i <= t) /\ (t <= s -> t <= c_interp n s t i <= s).
Proof.
  intros n s t i Hn Hi.
  assert (G : forall lo hi, lo <= hi -> lo * n <= s * n + (t - s) * i <= hi * n -> lo <= c_interp n s t i <= hi).
  { intros lo hi Hlh Hb. set (num := s * n + (t - s) * i) in *.
    destruct (Z_le_gt_dec 0 num) as [Hp|Hneg].
    - unfold num in Hp. rewrite (c_interp_nonneg n s t i Hn Hp). cbv zeta. fold num.
      pose proof (Z.div_mod num n ltac:(lia)) as D. pose proof (Z.mod_pos_bound num n Hn) as B.
      set (q := num / n) in *. set (r := num mod n) in *.
      assert (Hq1 : lo <= q) by nia.
      assert (Hq2 : q <= hi) by nia.
      destruct ((n <? 2 * r) || ((2 * r =? n) && negb (Z.even q))) eqn:E; [|lia].
      assert (Hr : 0 < r).
      { apply orb_true_iff in E as [E|E]; [apply Z.ltb_lt in E; lia|].
        apply andb_true_iff in E as [E _]. apply Z.eqb_eq in E. lia. }
      split; [lia|]. assert (q < hi) by nia. lia.
    - unfold c_interp. cbv zeta. fold num.
      replace num with (- (- num)) by lia. rewrite Z.quot_opp_l, Z.rem_opp_l by lia.
      rewrite Z.quot_div_nonneg, Z.rem_mod_nonneg by lia.
      pose proof (Z.div_mod (- num) n ltac:(lia)) as D. pose proof (Z.mod_pos_bound (- num) n Hn) as B.
      set (q := (- num) / n) in *. set (r := (- num) mod n) in *.
      replace (n <? 2 * - r) with false by (symmetry; apply Z.ltb_ge; lia).
      replace (2 * - r =? n) with false by (symmetry; apply Z.eqb_neq; lia).
      cbn [orb andb]. split; nia. }
  split; intro Hst; apply G; try lia; nia.
Qed.

Lemma c_interp_ok : forall n s t i, 0 < n -> 1 <= i <= n -> 0 <= s <= 255 -> 0 <= t <= 255 ->
  0 <= c_interp n s t i <= 255.
Proof.
  intros n s t i Hn Hi Hs Ht. destruct (c_interp_between n s t i Hn Hi) as [H1 H2].
  destruct (Z_le_gt_dec s t) as [H|H]; [specialize (H1 H)|specialize (H2 ltac:(lia))]; lia.
Qed.

Lemma c_interp3_ok : forall n s t i, 0 < n -> 1 <= i <= n -> triple_ok s -> triple_ok t -> triple_ok (c_interp3 n s t i).
Proof.
  intros n [[s1 s2] s3] [[t1 t2] t3] i Hn Hi (A1 & A2 & A3) (B1 & B2 & B3). cbn [c_interp3 triple_ok].
  repeat split; apply c_interp_ok; lia.
Qed.

Lemma dfade_loop_ok : forall k i n p s t dl st, 0 < n -> 1 <= i -> i + Z.of_nat k = n + 1 ->
  triple_ok s -> triple_ok t -> triple_ok (dr_col st) ->
  Forall dev_ok (snd (dfade_loop k i n p s t dl st)) /\ triple_ok (dr_col (fst (dfade_loop k i n p s t dl st))).
Proof.
  induction k as [|k IH]; intros i n p s t dl st Hn Hi Hk Hs Ht Hst.
  - cbn. split; [constructor|exact Hst].
  - cbn [dfade_loop]. unfold dr_write.
    assert (Hc : triple_ok (c_interp3 n s t i)) by (apply c_interp3_ok; try assumption; lia).
    specialize (IH (i + 1) n p s t dl (mkDR (c_interp3 n s t i) (any_on (c_interp3 n s t i))) Hn ltac:(lia) ltac:(lia) Hs Ht Hc).
    destruct (dfade_loop k (i + 1) n p s t dl _) as [st2 e3]. cbn [fst snd] in *. destruct IH as [I1 I2].
    split; [|exact I2]. apply Forall_app. split; [apply aw3_ok; exact Hc|].
    apply Forall_app. split; [|exact I1].
    destruct (negb (i =? n) && (0 <? dl)); repeat constructor.
Qed.

Lemma drblink_ok : forall k p c dl, triple_ok c -> Forall dev_ok (drblink_evs k p c dl).
Proof.
  induction k as [|k IH]; intros p c dl Hc; [constructor|]. cbn [drblink_evs].
  assert (H0 : triple_ok (0, 0, 0)) by (cbn; lia).
  assert (Hd : Forall dev_ok (opt_delay dl)) by (unfold opt_delay; destruct (0 <? dl); repeat constructor).
  repeat (apply Forall_app; split); auto using aw3_ok.
Qed.

Lemma drstep_ok : forall p st o, triple_ok (dr_col st) ->
  Forall dev_ok (snd (drstep p st o)) /\ triple_ok (dr_col (fst (drstep p st o))).
Proof.
  intros p st o Hst. destruct o as [| | |r g b|r g b| |r g b d n|r g b t d]; cbn [drstep];
    try (split; [constructor|exact Hst]).
  - unfold dr_set, dr_write. cbn [fst snd dr_col]. split; [apply aw3_ok|]; apply clamp3_ok.
  - unfold dr_set, dr_write. cbn [fst snd dr_col]. split; [apply aw3_ok|]; apply clamp3_ok.
  - unfold dr_write. cbn [fst snd dr_col]. split; [apply aw3_ok|]; cbn; lia.
  - unfold dr_fade. destruct ((floor0 (c_int d) =? 0) || triple_eqb (dr_col st) (clamp3 r g b)).
    + unfold dr_write. cbn [fst snd dr_col]. split; [apply aw3_ok|]; apply clamp3_ok.
    + pose proof (c_step_pos n) as Hn. apply dfade_loop_ok; try assumption; try lia; try apply clamp3_ok.
  - unfold dr_blink. cbn [fst snd]. split; [|exact Hst].
    apply Forall_app. split; [apply drblink_ok; apply clamp3_ok|apply aw3_ok; exact Hst].
Qed.

Lemma rgb_clamp : forall p ops st, triple_ok (dr_col st) ->
  Forall dev_ok (drrun p st ops) /\ triple_ok (dr_col (drfinal p st ops)).
Proof.
  intros p ops. induction ops as [|o r IH]; intros st Hst; [split; [constructor|exact Hst]|].
  cbn [drrun drfinal]. destruct (drstep_ok p st o Hst) as [H1 H2].
  destruct (drstep p st o) as [st1 e1]. cbn [fst snd] in *. destruct (IH st1 H2) as [I1 I2].
  split; [apply Forall_app; split; assumption|exact I2].
Qed.

Lemma rgb_clamp_init : forall p ops, Forall dev_ok (drrun p drinit ops).
Proof. intros p ops. apply rgb_clamp. cbn. lia. Qed.

(* delays: both roundings stay within one millisecond of the host's sleep *)
Lemma rnd_within_ms : forall m q, (0 <= q)%Q -> (Qabs (q - inject_Z (rnd m q)) < 1)%Q.
Proof.
  intros m q Hq. destruct m; cbn [rnd].
  - destruct (trunc_within_ms q Hq) as [H1 H2]. apply Qabs_case; intros; lra.
  - pose proof (Qfloor_le (q + (1 # 2))) as H1. pose proof (Qlt_floor (q + (1 # 2))) as H2.
    rewrite inject_Z_plus in H2. change (inject_Z 1) with 1%Q in H2. apply Qabs_case; intros; lra.
Qed.

(* ------------------------------------------------------------------ *)
(* device = host for the colour-setting commands                       *)
(* ------------------------------------------------------------------ *)
Definition set_only (o : RGBLed.op) : bool :=
  match o with
  | SetColor r g b | On r g b => comp_ok r && comp_ok g && comp_ok b
  | Off => true
  | _ => false
  end.

Lemma comp_ok_spec : forall x, comp_ok x = true -> validate_component x = None /\ clamp255 (c_int x) = zval x.
Proof.
  intros x H. unfold comp_ok in H. destruct (validate_component x) eqn:E; [discriminate|]. split; [reflexivity|].
  unfold validate_component in E. destruct (is_intlike x) eqn:Ei; cbn [negb] in E; [|discriminate].
  destruct (Qle_bool 0 (qval x) && Qle_bool (qval x) 255)%bool eqn:Er; cbn [negb] in E; [|discriminate].
  apply andb_true_iff in Er as [H0 H1]. apply Qle_bool_iff in H0. apply Qle_bool_iff in H1.
  unfold c_int. apply clamp255_id.
  destruct x as [z|q|b|]; cbn in Ei; try discriminate; cbn [zval qval] in *.
  - change 0%Q with (inject_Z 0) in H0. change 255%Q with (inject_Z 255) in H1. rewrite <- Zle_Qle in H0, H1. lia.
  - destruct b; cbn; lia.
Qed.

Lemma set_color_sim : forall p s r g b, comp_ok r = true -> comp_ok g = true -> comp_ok b = true ->
  exists s', set_color s r g b = (s', [Lvl [zval r; zval g; zval b]], Ok RNone) /\
             color s' = (zval r, zval g, zval b) /\
             dr_set p r g b = (mkDR (zval r, zval g, zval b) (any_on (zval r, zval g, zval b)), aw3 p (zval r, zval g, zval b)).
Proof.
  intros p s r g b Hr Hg Hb.
  destruct (comp_ok_spec _ Hr) as [Vr Cr]. destruct (comp_ok_spec _ Hg) as [Vg Cg]. destruct (comp_ok_spec _ Hb) as [Vb Cb].
  unfold set_color. rewrite Vr, Vg, Vb. cbn [first_error].
  eexists. split; [reflexivity|]. split; [reflexivity|].
  unfold dr_set, dr_write, clamp3. rewrite Cr, Cg, Cb. reflexivity.
Qed.

Lemma aw3_conv : forall p r g b, map dconv (aw3 p (r, g, b)) = hrconv p RTrunc (Lvl [r; g; b]).
Proof. intros [[p1 p2] p3] r g b. reflexivity. Qed.

Lemma rgb_set_step : forall p s st o, set_only o = true -> dr_col st = color s ->
  map dconv (snd (drstep p st o)) = flat_map (hrconv p (rmode_of o)) (RGBLed.evs (RGBLed.step s o)) /\
  dr_col (fst (drstep p st o)) = color (RGBLed.st (RGBLed.step s o)) /\
  (exists x, RGBLed.res (RGBLed.step s o) = Ok x).
Proof.
  intros p s st o Ho Hc. destruct o as [| | |r g b|r g b| |r g b d n|r g b t d]; cbn [set_only] in Ho; try discriminate.
  - apply andb_true_iff in Ho as [Ho Hb]. apply andb_true_iff in Ho as [Hr Hg].
    destruct (set_color_sim p s r g b Hr Hg Hb) as (s' & Hh & Hcol & Hd).
    cbn [drstep RGBLed.step rmode_of]. rewrite Hh, Hd. cbn [fst snd RGBLed.evs RGBLed.st RGBLed.res dr_col flat_map].
    rewrite app_nil_r, aw3_conv. split; [reflexivity|]. split; [symmetry; exact Hcol|eexists; reflexivity].
  - apply andb_true_iff in Ho as [Ho Hb]. apply andb_true_iff in Ho as [Hr Hg].
    destruct (set_color_sim p s r g b Hr Hg Hb) as (s' & Hh & Hcol & Hd).
    cbn [drstep RGBLed.step rmode_of]. rewrite Hh, Hd. cbn [fst snd RGBLed.evs RGBLed.st RGBLed.res dr_col flat_map].
    rewrite app_nil_r, aw3_conv. split; [reflexivity|]. split; [symmetry; exact Hcol|eexists; reflexivity].
  - cbn [drstep RGBLed.step rmode_of]. unfold off, dr_write.
    destruct p as [[p1 p2] p3]. cbn. split; [reflexivity|]. split; [reflexivity|eexists; reflexivity].
Qed.

Lemma rgb_set_run : forall p ops s st, forallb set_only ops = true -> dr_col st = color s ->
  drtr p st ops = fst (hrrun p s ops) /\ snd (hrrun p s ops) = true.
Proof.
  intros p ops. induction ops as [|o r IH]; intros s st Ho Hc; [split; reflexivity|].
  cbn [forallb] in Ho. apply andb_true_iff in Ho as [H1 H2].
  destruct (rgb_set_step p s st o H1 Hc) as (E1 & E2 & x & E3).
  unfold drtr in *. cbn [drrun hrrun].
  destruct (drstep p st o) as [st1 e1]. destruct (RGBLed.step s o) as [[s1 he1] r1].
  cbn [fst snd RGBLed.evs RGBLed.st RGBLed.res] in *. subst r1.
  destruct (IH s1 st1 H2 E2) as [I1 I2].
  destruct (hrrun p s1 r) as [e2 ok2]. cbn [fst snd] in *.
  rewrite map_app, E1, I1. split; [reflexivity|exact I2].
Qed.

Lemma rgb_set_canon : forall p ops, forallb set_only ops = true ->
  canon (drtr p drinit ops) = canon (fst (hrrun p (black p) ops)) /\ snd (hrrun p (black p) ops) = true.
Proof.
  intros p ops H. destruct (rgb_set_run p ops (black p) drinit H) as [E1 E2].
  { destruct p as [[a b] c]. reflexivity. }
  rewrite E1. split; [reflexivity|exact E2].
Qed.
