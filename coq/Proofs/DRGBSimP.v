(* Device RGB LED = host RGB LED for ALL commands inside the guard (set_color / on / off / fade / blink):
   the simulation theorem of property C04, unit C04_rgb. *)
From Coq Require Import ZArith QArith Qround Qabs Lia Lqa List Bool.
From RV Require Import Base.Wire Base.Num Host.Led Host.RGBLed Device.Signal Device.DLed Device.DRGB
  Proofs.NumP Proofs.LedP Proofs.RGBLedP Proofs.SignalP Proofs.DLedP Proofs.DRGBP.
Import ListNotations.
Import Num.
Open Scope Z_scope.

(* ------------------------------------------------------------------ *)
(* rounding: the device's integer formula is the host's round() unless *)
(* the exact value is a half                                           *)
(* ------------------------------------------------------------------ *)
Lemma floor_unique' : forall q z, (inject_Z z <= q)%Q -> (q < inject_Z z + 1)%Q -> Qfloor q = z.
Proof.
  intros q z H1 H2. apply Z.le_antisymm.
  - assert (H : (inject_Z (Qfloor q) < inject_Z (z + 1))%Q).
    { rewrite inject_Z_plus. change (inject_Z 1) with 1%Q. pose proof (Qfloor_le q). lra. }
    rewrite <- Zlt_Qlt in H. lia.
  - rewrite <- (Qfloor_Z z) at 1. apply Qfloor_resp_le. exact H1.
Qed.

Lemma inj_pred : forall z, (inject_Z (z - 1) == inject_Z z - 1)%Q.
Proof. intro z. unfold Z.sub. rewrite inject_Z_plus. reflexivity. Qed.

Lemma py_round_unique : forall q z, (inject_Z z - (1 # 2) < q)%Q -> (q < inject_Z z + (1 # 2))%Q -> py_round q = z.
Proof.
  intros q z H1 H2. unfold py_round. destruct (Qlt_le_dec q (inject_Z z)) as [Hlt|Hge].
  - assert (F : Qfloor q = z - 1).
    { apply floor_unique'; rewrite inj_pred; lra. }
    rewrite F. pose proof (inj_pred z) as P.
    destruct (Qcompare_spec (q - inject_Z (z - 1)) (1 # 2)) as [E|E|E]; try lra. lia.
  - assert (F : Qfloor q = z) by (apply floor_unique'; lra).
    rewrite F. destruct (Qcompare_spec (q - inject_Z z) (1 # 2)) as [E|E|E]; try lra. reflexivity.
Qed.

(* the device's integer quotient/remainder formula IS the host's int(round(...)) - for every step, halves included
   (round-half-even on both sides).  num = s*n + (t-s)*i is the exact value times n; it is >= 0 for channels in 0..255 *)
Lemma c_interp_eq_interp : forall n s t i, 0 < n -> 0 <= s * n + (t - s) * i ->
  interp (inject_Z n) s t i = c_interp n s t i.
Proof.
  intros n s t i Hn Hnum. rewrite (c_interp_nonneg n s t i Hn Hnum). cbv zeta. unfold interp.
  set (m := (t - s) * i) in *.
  pose proof (Z.div_mod (s * n + m) n ltac:(lia)) as D. pose proof (Z.mod_pos_bound (s * n + m) n Hn) as B.
  set (qz := (s * n + m) / n) in *. set (r := (s * n + m) mod n) in *.
  assert (HN : (0 < inject_Z n)%Q) by (change 0%Q with (inject_Z 0); rewrite <- Zlt_Qlt; exact Hn).
  set (Q0 := (inject_Z s + inject_Z m / inject_Z n)%Q).
  assert (X : ((Q0 - inject_Z qz) * inject_Z n == inject_Z r)%Q).
  { assert (Er : r = s * n + m + - (n * qz)) by lia.
    rewrite Er, !inject_Z_plus, inject_Z_opp, !inject_Z_mult. unfold Q0. field. lra. }
  assert (R0 : (0 <= inject_Z r)%Q) by (change 0%Q with (inject_Z 0); rewrite <- Zle_Qle; lia).
  assert (R1 : (inject_Z r < inject_Z n)%Q) by (rewrite <- Zlt_Qlt; lia).
  set (d := (Q0 - inject_Z qz)%Q) in *.
  assert (D0 : (0 <= d)%Q).
  { destruct (Qlt_le_dec d 0) as [C|C]; [exfalso|exact C]. clearbody d. nra. }
  assert (D1 : (d < 1)%Q).
  { destruct (Qlt_le_dec d 1) as [C|C]; [exact C|exfalso]. clearbody d. nra. }
  assert (F : Qfloor Q0 = qz) by (apply floor_unique'; unfold d in D0, D1; lra).
  unfold py_round. cbv zeta. rewrite F. fold d.
  destruct (Qcompare_spec d (1 # 2)) as [E|E|E].
  - assert (E2 : (inject_Z (2 * r) == inject_Z n)%Q).
    { rewrite inject_Z_mult. change (inject_Z 2) with 2%Q. clearbody d. rewrite E in X. lra. }
    assert (E3 : 2 * r = n) by (unfold Qeq in E2; cbn [Qnum Qden inject_Z] in E2; lia).
    replace (n <? 2 * r) with false by (symmetry; apply Z.ltb_ge; lia).
    replace (2 * r =? n) with true by (symmetry; apply Z.eqb_eq; exact E3).
    cbn [orb andb]. destruct (Z.even qz); reflexivity.
  - assert (E2 : (inject_Z (2 * r) < inject_Z n)%Q).
    { rewrite inject_Z_mult. change (inject_Z 2) with 2%Q. clearbody d. nra. }
    rewrite <- Zlt_Qlt in E2.
    replace (n <? 2 * r) with false by (symmetry; apply Z.ltb_ge; lia).
    replace (2 * r =? n) with false by (symmetry; apply Z.eqb_neq; lia).
    reflexivity.
  - assert (E2 : (inject_Z n < inject_Z (2 * r))%Q).
    { rewrite inject_Z_mult. change (inject_Z 2) with 2%Q. clearbody d. nra. }
    rewrite <- Zlt_Qlt in E2.
    replace (n <? 2 * r) with true by (symmetry; apply Z.ltb_lt; lia).
    reflexivity.
Qed.

Lemma c_interp_eq_interp_channels : forall n s t i, 0 < n -> 1 <= i <= n -> 0 <= s <= 255 -> 0 <= t <= 255 ->
  interp (inject_Z n) s t i = c_interp n s t i.
Proof. intros n s t i Hn Hi Hs Ht. apply c_interp_eq_interp; [exact Hn|nia]. Qed.

Lemma c_interp3_eq_interp3 : forall n s t i, 0 < n -> ok3 s -> ok3 t -> 1 <= i <= n ->
  interp3 (inject_Z n) s t i = c_interp3 n s t i.
Proof.
  intros n [[s1 s2] s3] [[t1 t2] t3] i Hn (A1 & A2 & A3) (B1 & B2 & B3) Hi.
  unfold chan_ok in *. cbn [interp3 c_interp3].
  rewrite !c_interp_eq_interp; try exact Hn; try reflexivity; nia.
Qed.

(* ------------------------------------------------------------------ *)
(* traces modulo delays of 0 ms                                        *)
(* ------------------------------------------------------------------ *)
Definition nzf (e : tev) : bool := match e with TD d => negb (d =? 0) | _ => true end.
Definition nz (tr : list tev) : list tev := filter nzf tr.

Lemma crun_nz : forall tr s, crun s (nz tr) = crun s tr.
Proof.
  induction tr as [|e r IH]; intro s; [reflexivity|].
  unfold nz in *. cbn [filter]. destruct e as [c v|d]; cbn [nzf].
  - cbn [crun]. destruct (cstep s (TL c v)) as [s1 o1]. rewrite IH. reflexivity.
  - destruct (d =? 0) eqn:E; cbn [negb].
    + apply Z.eqb_eq in E. subst d. rewrite IH. destruct s as [m t]. cbn [crun cstep]. rewrite Z.add_0_r.
      destruct (crun (m, t) r). reflexivity.
    + cbn [crun]. destruct (cstep s (TD d)) as [s1 o1]. rewrite IH. reflexivity.
Qed.

Lemma canon_nz : forall a b, nz a = nz b -> canon a = canon b.
Proof. intros a b H. unfold canon. rewrite <- (crun_nz a), <- (crun_nz b), H. reflexivity. Qed.

Lemma nz_app : forall a b, nz (a ++ b) = nz a ++ nz b.
Proof. intros. apply filter_app. Qed.

Lemma aw3_lvl : forall p c m, map dconv (aw3 p c) = hrconv p m (Lvl (l3 c)).
Proof. intros [[p1 p2] p3] [[r g] b] m. reflexivity. Qed.

Lemma nz_opt_delay : forall dl, 0 <= dl -> nz (map dconv (opt_delay dl)) = nz [TD dl].
Proof.
  intros dl H. unfold opt_delay. destruct (0 <? dl) eqn:E; [reflexivity|].
  apply Z.ltb_ge in E. assert (dl = 0) by lia. subst dl. reflexivity.
Qed.

(* ---- blink ---- *)
Lemma blink_tr : forall k p c dl d, 0 <= dl -> rnd RTrunc d = dl ->
  nz (map dconv (drblink_evs k p c dl)) = nz (flat_map (hrconv p RTrunc) (rblink_evs k c d)).
Proof.
  induction k as [|k IH]; intros p c dl d Hdl Hd; [reflexivity|].
  cbn [drblink_evs rblink_evs flat_map]. rewrite !map_app, !nz_app, (IH p c dl d Hdl Hd).
  rewrite (nz_opt_delay dl Hdl). rewrite (aw3_lvl p c RTrunc). change [0; 0; 0] with (l3 (0, 0, 0)).
  rewrite (aw3_lvl p (0, 0, 0) RTrunc). cbn [hrconv]. rewrite Hd. reflexivity.
Qed.

(* ---- fade: closed form of the host loop, with the events in order ---- *)
Fixpoint rfade_evs (k : nat) (idx n : Z) (nq : Q) (start target : triple) (delay : Q) : list ev :=
  match k with
  | O => []
  | S k' => Lvl (l3 (interp3 nq start target idx)) ::
            (if idx =? n then [] else [Sleep delay]) ++ rfade_evs k' (idx + 1) n nq start target delay
  end.

Lemma rfade_loop_eq : forall n start target delay, 0 < n -> ok3 start -> ok3 target ->
  forall k idx s, 1 <= idx -> idx + Z.of_nat k = n + 1 ->
  fade_loop k idx n (inject_Z n) start target delay s =
  (match k with O => s | S _ => painted (pins s) target end, rfade_evs k idx n (inject_Z n) start target delay, Ok RNone).
Proof.
  intros n start target delay Hn Hs Ht. induction k as [|k IH]; intros idx s Hidx Hsum; [reflexivity|].
  cbn [fade_loop rfade_evs].
  assert (Hi : 0 <= idx <= n) by lia.
  rewrite (set_triple_ok _ _ (interp3_ok n Hn _ _ _ Hs Ht Hi)).
  destruct (idx =? n) eqn:E.
  - apply Z.eqb_eq in E. assert (k = O) by lia. subst k idx.
    rewrite r_andthen_ok. unfold done. cbn [st evs res fst snd]. rewrite r_andthen_ok. cbn [fade_loop]. unfold done.
    cbn [st evs res fst snd pins painted app]. rewrite (interp3_end n Hn). reflexivity.
  - apply Z.eqb_neq in E.
    rewrite r_andthen_ok. unfold sleep. cbn [st evs res fst snd]. rewrite r_andthen_ok.
    rewrite (IH (idx + 1) (painted (pins s) (interp3 (inject_Z n) start target idx)) ltac:(lia) ltac:(lia)).
    cbn [st evs res fst snd pins painted app]. destruct k; [lia|reflexivity].
Qed.

Lemma c_interp3_end : forall n s t, 0 < n -> ok3 s -> ok3 t -> c_interp3 n s t n = t.
Proof.
  intros n s t Hn Hs H. rewrite <- (c_interp3_eq_interp3 n s t n Hn Hs H ltac:(lia)). apply (interp3_end n Hn).
Qed.

Lemma fade_tr : forall k i n p s t dl st delay, 0 < n -> ok3 s -> ok3 t ->
  1 <= i -> i + Z.of_nat k = n + 1 -> 0 <= dl -> rnd RHalfUp delay = dl ->
  nz (map dconv (snd (dfade_loop k i n p s t dl st))) =
  nz (flat_map (hrconv p RHalfUp) (rfade_evs k i n (inject_Z n) s t delay)) /\
  dr_col (fst (dfade_loop k i n p s t dl st)) = match k with O => dr_col st | S _ => t end.
Proof.
  induction k as [|k IH]; intros i n p s t dl st delay Hn Hs Ht Hi Hsum Hdl Hd; [split; reflexivity|].
  cbn [dfade_loop rfade_evs]. unfold dr_write.
  specialize (IH (i + 1) n p s t dl (mkDR (c_interp3 n s t i) (any_on (c_interp3 n s t i))) delay Hn Hs Ht ltac:(lia) ltac:(lia) Hdl Hd).
  destruct (dfade_loop k (i + 1) n p s t dl _) as [st2 e3]. cbn [fst snd] in *. destruct IH as [I1 I2].
  rewrite <- (c_interp3_eq_interp3 n s t i Hn Hs Ht ltac:(lia)).
  split.
  - cbn [flat_map]. rewrite flat_map_app. rewrite !map_app, !nz_app, I1.
    rewrite (aw3_lvl p _ RHalfUp). f_equal. f_equal.
    destruct (i =? n) eqn:E; cbn [negb andb]; [reflexivity|].
    change (if 0 <? dl then [EDelay dl] else []) with (opt_delay dl). rewrite (nz_opt_delay dl Hdl).
    cbn [flat_map hrconv app]. rewrite Hd. reflexivity.
  - rewrite I2. destruct k; [|reflexivity]. cbn [dr_col]. assert (i = n) by lia. subst i.
    apply c_interp3_end; assumption.
Qed.

(* ------------------------------------------------------------------ *)
(* one command                                                         *)
(* ------------------------------------------------------------------ *)
Lemma intlike_range_count : forall t, is_intlike t = true -> range_count t = Some (zval t).
Proof. intros [z|q|b|] H; cbn in *; try discriminate; reflexivity. Qed.

Lemma num_eq_zval : forall d, nonneg d = true -> integral d = true -> num_eq d 0 = (zval d =? 0).
Proof.
  intros d Hn Hi. destruct (nonneg_spec _ Hn) as (_ & Ho & _). pose proof (integral_spec _ Hi) as E.
  unfold num_eq. rewrite Ho. destruct (zval d =? 0) eqn:Z0.
  - apply Z.eqb_eq in Z0. rewrite Z0 in E. apply Qeq_bool_iff. exact E.
  - apply Z.eqb_neq in Z0. destruct (Qeq_bool (qval d) 0) eqn:Q0; [|reflexivity].
    apply Qeq_bool_iff in Q0. rewrite E in Q0. exfalso. apply Z0.
    unfold Qeq in Q0. cbn in Q0. lia.
Qed.

Lemma nonneg_zval : forall d, nonneg d = true -> 0 <= zval d /\ rnd RTrunc (qval d) = zval d.
Proof.
  intros d H. destruct (nonneg_spec _ H) as (_ & Ho & Hq). cbn [rnd]. rewrite <- (zval_trunc d Ho). split; [|reflexivity].
  rewrite (zval_trunc d Ho). rewrite trunc_floor by exact Hq. change 0 with (Qfloor 0). apply Qfloor_resp_le. exact Hq.
Qed.

Lemma floor0_id : forall z, 0 <= z -> floor0 z = z.
Proof. intros z H. unfold floor0. destruct (z <? 0) eqn:E; [apply Z.ltb_lt in E; lia|reflexivity]. Qed.

Lemma comp3_spec : forall r g b, comp_ok r = true -> comp_ok g = true -> comp_ok b = true ->
  first_error (validate_component r) (validate_component g) (validate_component b) = None /\
  clamp3 r g b = (zval r, zval g, zval b) /\ ok3 (zval r, zval g, zval b).
Proof.
  intros r g b Hr Hg Hb.
  destruct (comp_ok_spec _ Hr) as [Vr Cr]. destruct (comp_ok_spec _ Hg) as [Vg Cg]. destruct (comp_ok_spec _ Hb) as [Vb Cb].
  rewrite Vr, Vg, Vb. split; [reflexivity|]. split; [unfold clamp3; rewrite Cr, Cg, Cb; reflexivity|].
  apply validate_component_none in Vr as [_ Vr], Vg as [_ Vg], Vb as [_ Vb]. cbn. auto.
Qed.

Lemma rgb_sim_step : forall p s st o, Inv_rgb s -> dr_col st = color s -> rgb_in_range (color s) o = true ->
  nz (map dconv (snd (drstep p st o))) = nz (flat_map (hrconv p (rmode_of o)) (RGBLed.evs (RGBLed.step s o))) /\
  dr_col (fst (drstep p st o)) = color (RGBLed.st (RGBLed.step s o)) /\
  (exists x, RGBLed.res (RGBLed.step s o) = Ok x).
Proof.
  intros p s st o Hinv Hc Ho. pose proof (inv_ok3 _ Hinv) as Hcol.
  destruct o as [| | |r g b|r g b| |r g b d n|r g b t d]; cbn [rgb_in_range] in Ho; try discriminate.
  - destruct (rgb_set_step p s st (SetColor r g b) Ho Hc) as (E1 & E2 & E3). rewrite E1. auto.
  - destruct (rgb_set_step p s st (On r g b) Ho Hc) as (E1 & E2 & E3). rewrite E1. auto.
  - destruct (rgb_set_step p s st Off eq_refl Hc) as (E1 & E2 & E3). rewrite E1. auto.
  - (* fade *)
    repeat (apply andb_true_iff in Ho; destruct Ho as [Ho ?]).
    rename H into Hil, H0 into Hpos, H1 into Hint, H2 into Hnn, H3 into Hb, H4 into Hg, Ho into Hr.
    destruct (comp3_spec r g b Hr Hg Hb) as (V & Cl & Hok).
    destruct (nonneg_spec _ Hnn) as (Ed & _ & Hdq). destruct (is_pos_spec _ Hpos) as (En & _ & _).
    destruct (nonneg_zval d Hnn) as [Hd0 _].
    cbn [drstep RGBLed.step rmode_of]. unfold fade, dr_fade. rewrite Ed, En. cbn [reject_if]. rewrite V, Cl.
    rewrite (num_eq_zval d Hnn Hint). unfold c_int. rewrite (floor0_id _ Hd0). rewrite Hc.
    destruct ((zval d =? 0) || triple_eqb (color s) (zval r, zval g, zval b)) eqn:Sc.
    + rewrite (set_triple_ok _ _ Hok). unfold dr_write. cbn [fst snd RGBLed.evs RGBLed.st RGBLed.res flat_map dr_col color painted].
      rewrite app_nil_r, (aw3_lvl p _ RHalfUp). split; [reflexivity|]. split; [reflexivity|eexists; reflexivity].
    + apply orb_false_iff in Sc as [Sd _]. apply Z.eqb_neq in Sd.
      rewrite (intlike_range_count n Hil).
      destruct (r_range_count_pos _ _ En (intlike_range_count n Hil)) as (Hn & Hq & _).
      rewrite Hq.
      rewrite (rfade_loop_eq (zval n) (color s) (zval r, zval g, zval b) (qval d / inject_Z (zval n)) Hn Hcol Hok
                 (Z.to_nat (zval n)) 1 s ltac:(lia) ltac:(lia)).
      assert (Cs : c_step n = zval n).
      { unfold c_step, c_int. destruct (zval n <=? 0) eqn:E; [apply Z.leb_le in E; lia|reflexivity]. }
      rewrite Cs.
      assert (Fd : rnd RHalfUp (qval d / inject_Z (zval n)) = fade_delay (zval d) (zval n)).
      { unfold fade_delay. destruct (zval d <=? 0) eqn:E; [apply Z.leb_le in E; lia|].
        cbn [rnd]. apply Qfloor_comp. rewrite (integral_spec _ Hint). reflexivity. }
      assert (Fp : 0 <= fade_delay (zval d) (zval n)).
      { rewrite <- Fd. cbn [rnd]. change 0 with (Qfloor 0). apply Qfloor_resp_le.
        assert (0 < inject_Z (zval n))%Q by (change 0%Q with (inject_Z 0); rewrite <- Zlt_Qlt; exact Hn).
        assert (0 <= qval d / inject_Z (zval n))%Q by (apply Qle_shift_div_l; lra). lra. }
      destruct (fade_tr (Z.to_nat (zval n)) 1 (zval n) p (color s) (zval r, zval g, zval b) (fade_delay (zval d) (zval n)) st
                  (qval d / inject_Z (zval n))%Q Hn Hcol Hok ltac:(lia) ltac:(lia) Fp Fd) as [T1 T2].
      cbn [fst snd RGBLed.evs RGBLed.st RGBLed.res].
      split; [exact T1|]. split; [|eexists; reflexivity].
      rewrite T2. destruct (Z.to_nat (zval n)) eqn:E0; [lia|reflexivity].
  - (* blink *)
    repeat (apply andb_true_iff in Ho; destruct Ho as [Ho ?]).
    rename H into Hnn, H0 into Hil, H1 into Hpos, H2 into Hb, H3 into Hg, Ho into Hr.
    destruct (comp3_spec r g b Hr Hg Hb) as (V & Cl & Hok).
    destruct (nonneg_spec _ Hnn) as (Ed & _ & Hdq). destruct (is_pos_spec _ Hpos) as (Et & _ & _).
    destruct (nonneg_zval d Hnn) as [Hd0 Hdr].
    destruct (r_range_count_pos _ _ Et (intlike_range_count t Hil)) as (Ht & _ & _).
    cbn [drstep RGBLed.step rmode_of]. unfold blink, dr_blink. rewrite Et, Ed. cbn [reject_if]. rewrite V, Cl.
    rewrite (intlike_range_count t Hil). rewrite (rblink_loop_eq _ _ Hok). rewrite r_andthen_ok.
    set (s1 := match Z.to_nat (zval t) with O => s | S _ => _ end).
    rewrite (set_triple_ok s1 _ Hcol). unfold c_int. rewrite (floor0_id _ Hd0), (floor0_id (zval t)) by lia.
    cbn [fst snd RGBLed.evs RGBLed.st RGBLed.res color painted].
    split; [|split; [exact Hc|eexists; reflexivity]].
    rewrite map_app, flat_map_app, !nz_app. rewrite (blink_tr _ p _ (zval d) (qval d) Hd0 Hdr).
    cbn [flat_map]. rewrite app_nil_r, Hc, (aw3_lvl p _ RTrunc). reflexivity.
Qed.

Lemma rgb_sim_run : forall p ops s st, Inv_rgb s -> dr_col st = color s -> rgb_guard s ops = true ->
  nz (drtr p st ops) = nz (fst (hrrun p s ops)) /\ snd (hrrun p s ops) = true.
Proof.
  intros p ops. induction ops as [|o r IH]; intros s st Hinv Hc Hg; [split; reflexivity|].
  cbn [rgb_guard] in Hg. apply andb_true_iff in Hg as [H1 H2].
  destruct (rgb_sim_step p s st o Hinv Hc H1) as (E1 & E2 & x & E3).
  pose proof (step_inv s o Hinv) as Hinv1.
  unfold drtr in *. cbn [drrun hrrun].
  destruct (drstep p st o) as [st1 e1]. destruct (RGBLed.step s o) as [[s1 he1] r1].
  cbn [fst snd RGBLed.evs RGBLed.st RGBLed.res] in *. subst r1.
  destruct (IH s1 st1 Hinv1 E2 H2) as [I1 I2].
  destruct (hrrun p s1 r) as [e2 ok2]. cbn [fst snd] in *.
  rewrite map_app, !nz_app, E1, I1. split; [reflexivity|exact I2].
Qed.

Lemma black_inv : forall p, Inv_rgb (black p).
Proof.
  intros [[a b] c]. unfold Inv_rgb, black, chan_ok. cbn. split; [lia|]. split; [lia|]. split; [lia|].
  split; [discriminate|]. intros [H|[H|H]]; lia.
Qed.

(* C04 for the RGB LED: all commands *)
Lemma rgb_device_eq_host : forall p ops, rgb_guard (black p) ops = true ->
  canon (drtr p drinit ops) = canon (fst (hrrun p (black p) ops)) /\ snd (hrrun p (black p) ops) = true.
Proof.
  intros p ops H. destruct (rgb_sim_run p ops (black p) drinit (black_inv p)) as [E1 E2].
  - destruct p as [[a b] c]. reflexivity.
  - exact H.
  - split; [apply canon_nz; exact E1|exact E2].
Qed.

Lemma rgb_guard_stateless : forall s ops, rgb_guard s ops = forallb (rgb_in_range (0, 0, 0)) ops.
Proof.
  intros s ops. revert s. induction ops as [|o r IH]; intro s; [reflexivity|].
  cbn [rgb_guard forallb]. rewrite IH. destruct o; reflexivity.
Qed.

(* non-vacuity: a history through fade (long path and shortcut) and blink inside the guard *)
Definition rgb_demo_ops : list RGBLed.op :=
  [Fade (PI 200) (PI 10) (PI 0) (PI 90) (PI 7); Blink (PI 1) (PI 2) (PI 3) (PI 2) (PF (5 # 2)); Fade (PI 0) (PI 0) (PB true) (PI 0) (PI 5);
   Blink (PI 255) (PI 0) (PI 0) (PB true) (PI 0); Off; Fade (PI 30) (PI 60) (PI 90) (PI 100) (PI 3);
   Fade (PI 31) (PI 65) (PI 90) (PI 100) (PI 2) (* steps on a half: 30.5 -> 30, 62.5 -> 62 *)].

Lemma rgb_demo_guard : rgb_guard (black (9, 10, 11)) rgb_demo_ops = true /\
  length (fst (canon (drtr (9, 10, 11) drinit rgb_demo_ops))) = 48%nat.
Proof. vm_compute. split; reflexivity. Qed.
