(* Device servo vs host servo (property C04, unit C04_servo): proofs. *)
From Coq Require Import ZArith QArith Qround Qabs Lia Lqa List Bool.
From RV Require Import Base.Wire Base.NumM Gen.C19Motor Host.Servo Device.DMotor Device.DServo Proofs.NumMP.
Import ListNotations.
Open Scope Q_scope.

(* ------------------------------------------------------------------ *)
(* static_cast<int>: truncation toward zero                            *)
(* ------------------------------------------------------------------ *)
Lemma ctrunc_nonneg : forall q, 0 <= q -> ctrunc q = Qfloor q.
Proof.
  intros [n d] H. unfold ctrunc, Qfloor. cbn [Qnum Qden].
  apply Z.quot_div_nonneg; [|reflexivity].
  unfold Qle in H. cbn in H. lia.
Qed.

Lemma ctrunc_nonpos : forall q, q <= 0 -> ctrunc q = Qceiling q.
Proof.
  intros [n d] H. unfold ctrunc, Qceiling, Qfloor. cbn [Qnum Qden Qopp].
  unfold Qle in H. cbn in H.
  replace n with (- - n)%Z at 1 by lia. rewrite Z.quot_opp_l by discriminate.
  f_equal. apply Z.quot_div_nonneg; [lia|reflexivity].
Qed.

Lemma Qceiling_lt1 : forall q, inject_Z (Qceiling q) < q + 1.
Proof.
  intro q. pose proof (Qceiling_lt q) as H. unfold Z.sub in H. rewrite inject_Z_plus, inject_Z_opp in H.
  change (inject_Z 1) with 1 in H. lra.
Qed.

Lemma ctrunc_mono : forall x y, x <= y -> (ctrunc x <= ctrunc y)%Z.
Proof.
  intros x y H. destruct (Qlt_le_dec x 0) as [Hx|Hx]; destruct (Qlt_le_dec y 0) as [Hy|Hy].
  - rewrite !ctrunc_nonpos by lra. apply Qceiling_resp_le. exact H.
  - rewrite (ctrunc_nonpos x) by lra. rewrite (ctrunc_nonneg y) by exact Hy.
    assert (H1 : (Qceiling x <= 0)%Z).
    { change 0%Z with (Qceiling 0). apply Qceiling_resp_le. lra. }
    assert (H2 : (0 <= Qfloor y)%Z).
    { change 0%Z with (Qfloor 0). apply Qfloor_resp_le. exact Hy. }
    lia.
  - lra.
  - rewrite !ctrunc_nonneg by lra. apply Qfloor_resp_le. exact H.
Qed.

Lemma ctrunc_comp : forall x y, x == y -> ctrunc x = ctrunc y.
Proof.
  intros x y H. apply Z.le_antisymm; apply ctrunc_mono; rewrite H; apply Qle_refl.
Qed.

Lemma ctrunc_inject : forall z, ctrunc (inject_Z z) = z.
Proof. intro z. unfold ctrunc. cbn. apply Z.quot_1_r. Qed.

Lemma floor_unique : forall q z, inject_Z z <= q -> q < inject_Z z + 1 -> Qfloor q = z.
Proof.
  intros q z H1 H2. apply Z.le_antisymm.
  - assert (H : inject_Z (Qfloor q) < inject_Z (z + 1)).
    { rewrite inject_Z_plus. change (inject_Z 1) with 1. pose proof (Qfloor_le q). lra. }
    rewrite <- Zlt_Qlt in H. lia.
  - rewrite <- (Qfloor_Z z) at 1. apply Qfloor_resp_le. exact H1.
Qed.

(* the nearest integer (halves away from zero); the device's rounding and the emitter's are it, for ALL values *)
Lemma rnear_nearest : forall q, Qabs (inject_Z (rnear q) - q) <= 1 # 2.
Proof.
  intro q. unfold rnear. destruct (Qltb q 0).
  - pose proof (Qfloor_le (- q + (1 # 2))) as H1. pose proof (Qlt_floor (- q + (1 # 2))) as H2.
    rewrite inject_Z_plus in H2. change (inject_Z 1) with 1 in H2. rewrite inject_Z_opp.
    apply Qabs_Qle_condition. split; lra.
  - pose proof (Qfloor_le (q + (1 # 2))) as H1. pose proof (Qlt_floor (q + (1 # 2))) as H2.
    rewrite inject_Z_plus in H2. change (inject_Z 1) with 1 in H2.
    apply Qabs_Qle_condition. split; lra.
Qed.

Lemma rnear_inject : forall z, rnear (inject_Z z) = z.
Proof.
  intro z. unfold rnear. destruct (Qltb (inject_Z z) 0).
  - rewrite (floor_unique (- inject_Z z + (1 # 2)) (- z)); [lia| |]; rewrite inject_Z_opp; lra.
  - apply floor_unique; lra.
Qed.

Lemma Qltb_true_lt : forall x y, Qltb x y = true -> x < y.
Proof.
  intros x y H. unfold Qltb in H. destruct (Qle_bool y x) eqn:E; [discriminate|].
  apply Qnot_le_lt. intro H1. apply Qle_bool_iff in H1. congruence.
Qed.

Lemma Qltb_false_le : forall x y, Qltb x y = false -> y <= x.
Proof.
  intros x y H. unfold Qltb in H. apply negb_false_iff in H. apply Qle_bool_iff. exact H.
Qed.

Lemma cround_rnear : forall x, cround x = rnear x.
Proof.
  intro x. unfold cround, rnear. destruct (Qltb x 0) eqn:E.
  - apply Qltb_true_lt in E. rewrite ctrunc_nonpos by lra. unfold Qceiling. f_equal.
    apply Qfloor_comp. lra.
  - apply Qltb_false_le in E. apply ctrunc_nonneg. lra.
Qed.

Lemma pyround_rnear : forall x, pyround x = rnear x.
Proof.
  intro x. unfold pyround, rnear. destruct (Qltb x 0) eqn:E.
  - apply Qltb_true_lt in E. rewrite ctrunc_nonpos by lra. unfold Qceiling. f_equal.
    apply Qfloor_comp. lra.
  - apply Qltb_false_le in E. apply ctrunc_nonneg. lra.
Qed.

Lemma cround_nearest : forall x, Qabs (inject_Z (cround x) - x) <= 1 # 2.
Proof. intro x. rewrite cround_rnear. apply rnear_nearest. Qed.

(* integer bounds: the rounded value is itself within the bounds (whatever their signs) *)
Lemma rnear_between : forall (m M : Z) x, inject_Z m <= x <= inject_Z M -> (m <= rnear x <= M)%Z.
Proof.
  intros m M x [H1 H2]. pose proof (rnear_nearest x) as N. apply Qabs_Qle_condition in N. destruct N as [N1 N2].
  split.
  - assert (L : inject_Z (m - 1) < inject_Z (rnear x)).
    { unfold Z.sub. rewrite inject_Z_plus, inject_Z_opp. change (inject_Z 1) with 1. lra. }
    rewrite <- Zlt_Qlt in L. lia.
  - assert (L : inject_Z (rnear x) < inject_Z (M + 1)).
    { rewrite inject_Z_plus. change (inject_Z 1) with 1. lra. }
    rewrite <- Zlt_Qlt in L. lia.
Qed.

(* ------------------------------------------------------------------ *)
(* clamps and the linear map                                           *)
(* ------------------------------------------------------------------ *)
Lemma Qltb_false : forall x y, y <= x -> Qltb x y = false.
Proof. intros x y H. unfold Qltb. apply Qle_bool_iff in H. rewrite H. reflexivity. Qed.

Lemma Qltb_true : forall x y, x < y -> Qltb x y = true.
Proof.
  intros x y H. unfold Qltb. destruct (Qle_bool y x) eqn:E; [|reflexivity].
  apply Qle_bool_iff in E. lra.
Qed.

Lemma Qltb_spec : forall x y, Qltb x y = true -> x < y.
Proof.
  intros x y H. unfold Qltb in H. destruct (Qle_bool y x) eqn:E; [discriminate|].
  apply Qnot_le_lt. intro H1. apply Qle_bool_iff in H1. congruence.
Qed.

Lemma Qleb_spec : forall x y, Qleb x y = true -> x <= y.
Proof. intros x y H. apply Qle_bool_iff. exact H. Qed.

Lemma Qleb_false_spec : forall x y, Qleb x y = false -> y < x.
Proof.
  intros x y H. apply Qnot_le_lt. intro H1. apply Qle_bool_iff in H1. unfold Qleb in H. congruence.
Qed.

Lemma c_lo_id : forall lo x, lo <= x -> c_lo lo x = x.
Proof. intros lo x H. unfold c_lo. rewrite Qltb_false by exact H. reflexivity. Qed.

Lemma c_hi_id : forall hi x, x <= hi -> c_hi hi x = x.
Proof. intros hi x H. unfold c_hi. rewrite Qltb_false by exact H. reflexivity. Qed.

Lemma clamp_between : forall lo hi x, lo <= hi -> lo <= c_hi hi (c_lo lo x) <= hi.
Proof.
  intros lo hi x H. unfold c_hi, c_lo.
  destruct (Qltb x lo) eqn:E1.
  - rewrite Qltb_false by exact H. split; lra.
  - destruct (Qltb hi x) eqn:E2.
    + split; lra.
    + unfold Qltb in E1, E2. apply negb_false_iff in E1, E2. apply Qle_bool_iff in E1, E2. split; assumption.
Qed.

Lemma span_of_pos : forall lo hi, lo < hi -> span_of lo hi = hi - lo.
Proof.
  intros lo hi H. unfold span_of. destruct (Qeqb (hi - lo) 0) eqn:E; [|reflexivity].
  apply Qeq_bool_iff in E. lra.
Qed.

Lemma lin_between : forall lo hi wlo whi x, lo < hi -> wlo <= whi -> lo <= x <= hi ->
  wlo <= wlo + ((x - lo) / (hi - lo)) * (whi - wlo) <= whi.
Proof.
  intros lo hi wlo whi x H Hw [H1 H2].
  assert (T0 : 0 <= (x - lo) / (hi - lo)).
  { apply Qle_shift_div_l; lra. }
  assert (T1 : (x - lo) / (hi - lo) <= 1).
  { apply Qle_shift_div_r; lra. }
  set (t := (x - lo) / (hi - lo)) in *. nra.
Qed.

(* ------------------------------------------------------------------ *)
(* clamp clause: for ALL values and histories                          *)
(* ------------------------------------------------------------------ *)
Lemma same_bounds_refl : forall d, same_bounds d d.
Proof. intro d. repeat split. Qed.

Lemma d_write_clamped : forall d v, dsinv d ->
  dsinv (fst (d_write d v)) /\ same_bounds d (fst (d_write d v)) /\ Forall (sdev_ok d) (snd (d_write d v)).
Proof.
  intros d v (Ha & Hp & _ & _). unfold d_write. cbn [fst snd].
  pose proof (clamp_between (ds_min_a d) (ds_max_a d) v (Qlt_le_weak _ _ Ha)) as Ca.
  set (a := c_hi (ds_max_a d) (c_lo (ds_min_a d) v)) in *.
  set (p0 := ds_min_p d + _).
  pose proof (clamp_between (ds_min_p d) (ds_max_p d) p0 (Qlt_le_weak _ _ Hp)) as Cp.
  split; [|split].
  - unfold dsinv, ds_set. cbn. auto.
  - repeat split.
  - constructor; [|constructor]. cbn. exists a. split; [exact Ca|reflexivity].
Qed.

Lemma d_write_us_clamped : forall d v, dsinv d ->
  dsinv (fst (d_write_us d v)) /\ same_bounds d (fst (d_write_us d v)) /\ Forall (sdev_ok d) (snd (d_write_us d v)).
Proof.
  intros d v (Ha & Hp & _ & _). unfold d_write_us. cbn [fst snd].
  pose proof (clamp_between (ds_min_p d) (ds_max_p d) v (Qlt_le_weak _ _ Hp)) as Cp.
  set (p := c_hi (ds_max_p d) (c_lo (ds_min_p d) v)) in *.
  rewrite span_of_pos by exact Hp.
  pose proof (lin_between (ds_min_p d) (ds_max_p d) (ds_min_a d) (ds_max_a d) p Hp (Qlt_le_weak _ _ Ha) Cp) as Ca.
  split; [|split].
  - unfold dsinv, ds_set. cbn. auto.
  - repeat split.
  - constructor; [|constructor]. cbn. exists p. split; [exact Cp|reflexivity].
Qed.

Lemma dsstep_clamped : forall d o, dsinv d ->
  dsinv (fst (fst (dsstep d o))) /\ same_bounds d (fst (fst (dsstep d o))) /\ Forall (sdev_ok d) (snd (fst (dsstep d o))).
Proof.
  intros d o H. destruct o as [v|v| |]; cbn [dsstep].
  - pose proof (d_write_clamped d (qval v) H) as L. destruct (d_write d (qval v)). exact L.
  - pose proof (d_write_us_clamped d (qval v) H) as L. destruct (d_write_us d (qval v)). exact L.
  - cbn. split; [exact H|split; [apply same_bounds_refl|constructor]].
  - cbn. split; [exact H|split; [apply same_bounds_refl|constructor]].
Qed.

Lemma sdev_ok_bounds : forall d d' e, same_bounds d d' -> sdev_ok d' e -> sdev_ok d e.
Proof.
  intros d d' e (_ & E1 & E2 & E3 & E4) H. destruct e; cbn in *; [exact I| |];
    rewrite ?E1, ?E2, ?E3, ?E4 in H; exact H.
Qed.

Lemma servo_clamp_run : forall ops d, dsinv d ->
  Forall (sdev_ok d) (fst (dsrun d ops)) /\ dsinv (dsfinal d ops) /\ same_bounds d (dsfinal d ops).
Proof.
  induction ops as [|o r IH]; intros d H.
  - cbn. split; [constructor|split; [exact H|apply same_bounds_refl]].
  - cbn [dsrun dsfinal]. pose proof (dsstep_clamped d o H) as (I1 & B1 & F1).
    destruct (dsstep d o) as [[d1 e1] g1]. cbn [fst snd] in *.
    specialize (IH d1 I1). destruct IH as (F2 & I2 & B2).
    destruct (dsrun d1 r) as [e2 g2]. cbn [fst snd] in *.
    split; [|split].
    + apply Forall_app. split; [exact F1|].
      eapply Forall_impl; [|exact F2]. intros e He. eapply sdev_ok_bounds; eassumption.
    + exact I2.
    + destruct B1 as (A0 & A1 & A2 & A3 & A4), B2 as (C0 & C1 & C2 & C3 & C4).
      repeat split; congruence.
Qed.

Lemma ds_decl_inv : forall a d evs, ds_decl a = Some (d, evs) -> dsinv d.
Proof.
  intros a d evs H. unfold ds_decl in H.
  destruct (Qleb _ _) eqn:E1; [discriminate|].
  destruct (Qleb _ _) eqn:E2 in H; [discriminate|].
  injection H as <- _. unfold dsinv. cbn.
  apply Qleb_false_spec in E1. apply Qleb_false_spec in E2.
  repeat split; try lra.
Qed.

Lemma servo_clamp : forall a d evs ops, ds_decl a = Some (d, evs) ->
  Forall (sdev_ok d) (fst (dsrun d ops)) /\ dsinv (dsfinal d ops) /\ same_bounds d (dsfinal d ops).
Proof. intros a d evs ops H. apply servo_clamp_run. eapply ds_decl_inv. exact H. Qed.

(* with whole-number bounds (of either sign) the integers themselves are within the bounds *)
Lemma servo_clamp_int_deg : forall d pin z (m M : Z), ds_min_a d == inject_Z m -> ds_max_a d == inject_Z M ->
  sdev_ok d (SWriteDeg pin z) -> (m <= z <= M)%Z.
Proof.
  intros d pin z m M E1 E2 (a & Ha & ->). rewrite cround_rnear. apply rnear_between. rewrite <- E1, <- E2. exact Ha.
Qed.

Lemma servo_clamp_int_us : forall d pin z (m M : Z), ds_min_p d == inject_Z m -> ds_max_p d == inject_Z M ->
  sdev_ok d (SWriteMicros pin z) -> (m <= z <= M)%Z.
Proof.
  intros d pin z m M E1 E2 (p & Hp & ->). rewrite cround_rnear. apply rnear_between. rewrite <- E1, <- E2. exact Hp.
Qed.

(* ------------------------------------------------------------------ *)
(* simulation: device = host for in-range commands                     *)
(* ------------------------------------------------------------------ *)
Lemma snum_ok_qof : forall v, snum_ok v = true -> qof v = Some (qval v).
Proof. intros v H. unfold snum_ok, qval in *. destruct (qof v); [reflexivity|discriminate]. Qed.

Lemma Qred_eq : forall p q, p == q -> Qred p = Qred q.
Proof. exact Qred_complete. Qed.

Lemma srel_hsinv_dsbounds : forall h d, hsinv h -> srel h d -> ds_min_a d < ds_max_a d /\ ds_min_p d < ds_max_p d.
Proof. intros h d [H1 H2] (E1 & E2 & E3 & E4 & _). rewrite <- E1, <- E2, <- E3, <- E4. split; assumption. Qed.

Lemma servo_sim_step : forall h d o, hsinv h -> srel h d -> servo_in_range h o = true ->
  srel (sstate (sstep h o)) (fst (fst (dsstep d o))) /\
  hsinv (sstate (sstep h o)) /\
  ds_pin (fst (fst (dsstep d o))) = ds_pin d /\
  (exists x, sresult (sstep h o) = Ok x) /\
  snd (dsstep d o) = hsget_of (sresult (sstep h o)) /\
  snd (fst (dsstep d o)) = map (hsconv (ds_pin d) o) (sevents (sstep h o)).
Proof.
  intros h d o Hh R G. pose proof (srel_hsinv_dsbounds h d Hh R) as [Da Dp].
  destruct R as (E1 & E2 & E3 & E4 & E5 & E6). destruct Hh as [Ha Hp].
  destruct o as [v|v| |]; cbn [servo_in_range] in G.
  - (* write *)
    apply andb_prop in G. destruct G as [G G2]. apply andb_prop in G. destruct G as [G0 G1].
    pose proof (snum_ok_qof v G0) as Q0. apply Qleb_spec in G1, G2.
    unfold sstep, py_between. rewrite Q0.
    assert (B : Qleb (min_a h) (qval v) && Qleb (qval v) (max_a h) = true).
    { apply andb_true_intro. split; apply Qle_bool_iff; assumption. }
    rewrite B. cbn [dsstep d_write sstate sevents sresult fst snd].
    rewrite (c_lo_id (ds_min_a d) (qval v)) by (rewrite <- E1; exact G1).
    rewrite (c_hi_id (ds_max_a d) (qval v)) by (rewrite <- E2; exact G2).
    rewrite span_of_pos by exact Da.
    assert (Hx : ds_min_a d <= qval v <= ds_max_a d) by (rewrite <- E1, <- E2; split; assumption).
    pose proof (lin_between (ds_min_a d) (ds_max_a d) (ds_min_p d) (ds_max_p d) (qval v) Da (Qlt_le_weak _ _ Dp) Hx) as [L1 L2].
    rewrite c_lo_id by exact L1. rewrite c_hi_id by exact L2.
    split; [|split; [|split; [|split; [|split]]]].
    + unfold srel, set_pos, ds_set, a2p. cbn. repeat split; try assumption; try reflexivity.
      rewrite E1, E2, E3, E4. reflexivity.
    + unfold hsinv, set_pos. cbn. split; assumption.
    + reflexivity.
    + eexists. reflexivity.
    + reflexivity.
    + cbn. rewrite cround_rnear. reflexivity.
  - (* write_us *)
    apply andb_prop in G. destruct G as [G G2]. apply andb_prop in G. destruct G as [G0 G1].
    pose proof (snum_ok_qof v G0) as Q0. apply Qleb_spec in G1, G2.
    unfold sstep, py_between. rewrite Q0.
    assert (B : Qleb (min_p h) (qval v) && Qleb (qval v) (max_p h) = true).
    { apply andb_true_intro. split; apply Qle_bool_iff; assumption. }
    rewrite B. cbn [dsstep d_write_us sstate sevents sresult fst snd].
    rewrite (c_lo_id (ds_min_p d) (qval v)) by (rewrite <- E3; exact G1).
    rewrite (c_hi_id (ds_max_p d) (qval v)) by (rewrite <- E4; exact G2).
    rewrite span_of_pos by exact Dp.
    split; [|split; [|split; [|split; [|split]]]].
    + unfold srel, set_pos, ds_set, p2a. cbn. repeat split; try assumption; try reflexivity.
      rewrite E1, E2, E3, E4. reflexivity.
    + unfold hsinv, set_pos. cbn. split; assumption.
    + reflexivity.
    + eexists. reflexivity.
    + reflexivity.
    + cbn. rewrite cround_rnear. reflexivity.
  - cbn. repeat split; try assumption; try reflexivity.
    + eexists. reflexivity.
    + f_equal. apply Qred_eq. symmetry. exact E5.
  - cbn. repeat split; try assumption; try reflexivity.
    + eexists. reflexivity.
    + f_equal. apply Qred_eq. symmetry. exact E6.
Qed.

Lemma servo_sim_run : forall ops h d, hsinv h -> srel h d ->
  forallb (fun b => b) (servo_range_flags h ops) = true ->
  snd (dsrun d ops) = snd (fst (hsrun (ds_pin d) h ops)) /\
  snd (hsrun (ds_pin d) h ops) = true /\
  fst (dsrun d ops) = fst (fst (hsrun (ds_pin d) h ops)).
Proof.
  induction ops as [|o r IH]; intros h d Hh R G.
  - cbn. repeat split.
  - cbn [servo_range_flags forallb] in G. apply andb_prop in G. destruct G as [G1 G2].
    pose proof (servo_sim_step h d o Hh R G1) as (R1 & H1 & P1 & (x & X1) & Gt & Ev).
    cbn [dsrun hsrun]. unfold sstate, sevents, sresult in *.
    destruct (sstep h o) as [[h1 he] r1]. destruct (dsstep d o) as [[d1 de] g1]. cbn [fst snd] in *.
    specialize (IH h1 d1 H1 R1 G2). rewrite P1 in IH. destruct IH as (I1 & I2 & I3).
    destruct (dsrun d1 r) as [e2 g2]. destruct (hsrun (ds_pin d) h1 r) as [[e2' g2'] ok2]. cbn [fst snd] in *.
    subst r1. split; [|split].
    + rewrite Gt, I1. reflexivity.
    + exact I2.
    + rewrite Ev, I3. reflexivity.
Qed.

(* ---- the declaration ---- *)
Lemma servo_decl_rel : forall a h, decl_ok a = true -> servo_ctor a = inl h ->
  exists d, ds_decl a = Some (d, [SAttach (ds_pin d) (rnear (min_p h)) (rnear (max_p h)); SWriteMicros (ds_pin d) (rnear (min_p h))]) /\
            srel h d /\ hsinv h.
Proof.
  intros a h G C. unfold decl_ok in G. repeat (apply andb_prop in G; destruct G as [G ?]).
  unfold servo_ctor in C. unfold ds_decl.
  set (pin := dflt servo_default_pin (a_pin a)) in *.
  set (mina := dflt servo_default_min_angle (a_min_a a)) in *.
  set (maxa := dflt servo_default_max_angle (a_max_a a)) in *.
  set (minp := dflt servo_default_min_pulse (a_min_p a)) in *.
  set (maxp := dflt servo_default_max_pulse (a_max_p a)) in *.
  rewrite !py_not_lt_ge in C. unfold py_ge, py_le in C.
  rewrite (snum_ok_qof mina), (snum_ok_qof maxa), (snum_ok_qof minp), (snum_ok_qof maxp) in C by assumption.
  destruct (Qleb (qval maxa) (qval mina)) eqn:E1; [discriminate|].
  destruct (Qleb (qval maxp) (qval minp)) eqn:E2; [discriminate|].
  injection C as <-.
  apply Qleb_false_spec in E1, E2. cbn [min_p max_p]. rewrite !pyround_rnear.
  exists (mkDS (ctrunc (qval pin)) (qval mina) (qval maxa) (qval minp) (qval maxp) (qval mina) (qval minp)).
  split; [reflexivity|]. split.
  - unfold srel. cbn. repeat split; reflexivity.
  - unfold hsinv. cbn. split; assumption.
Qed.

Lemma servo_device_eq_host : forall a h ops, decl_ok a = true -> servo_ctor a = inl h ->
  forallb (fun b => b) (servo_range_flags h ops) = true ->
  exists d evs, ds_decl a = Some (d, evs) /\
    evs = [SAttach (ds_pin d) (rnear (min_p h)) (rnear (max_p h)); SWriteMicros (ds_pin d) (rnear (min_p h))] /\
    snd (dsrun d ops) = snd (fst (hsrun (ds_pin d) h ops)) /\
    snd (hsrun (ds_pin d) h ops) = true /\
    fst (dsrun d ops) = fst (fst (hsrun (ds_pin d) h ops)).
Proof.
  intros a h ops G C F. destruct (servo_decl_rel a h G C) as (d & D & R & Hh).
  exists d. eexists. split; [exact D|]. split; [reflexivity|].
  apply servo_sim_run; assumption.
Qed.

(* the state the declaration leaves IS the host object's: bounds, angle and pulse equal as rationals (in particular
   fractional pulse bounds are kept) *)
Lemma servo_decl_state : forall a h d evs, decl_ok a = true -> servo_ctor a = inl h -> ds_decl a = Some (d, evs) -> srel h d.
Proof.
  intros a h d evs G C D. destruct (servo_decl_rel a h G C) as (d' & D' & R & _).
  rewrite D in D'. injection D' as -> _. exact R.
Qed.

(* the declarations the parser accepts are exactly those the host constructor accepts *)
Lemma servo_decl_accepts : forall a, decl_ok a = true ->
  ((exists h, servo_ctor a = inl h) <-> (exists d evs, ds_decl a = Some (d, evs))).
Proof.
  intros a G. pose proof G as G'. unfold decl_ok in G. repeat (apply andb_prop in G; destruct G as [G ?]).
  unfold servo_ctor, ds_decl.
  set (pin := dflt servo_default_pin (a_pin a)) in *.
  set (mina := dflt servo_default_min_angle (a_min_a a)) in *.
  set (maxa := dflt servo_default_max_angle (a_max_a a)) in *.
  set (minp := dflt servo_default_min_pulse (a_min_p a)) in *.
  set (maxp := dflt servo_default_max_pulse (a_max_p a)) in *.
  rewrite !py_not_lt_ge. unfold py_ge, py_le.
  rewrite (snum_ok_qof mina), (snum_ok_qof maxa), (snum_ok_qof minp), (snum_ok_qof maxp) by assumption.
  destruct (Qleb (qval maxa) (qval mina)); [split; intros (? & E); [discriminate E|destruct E as (? & E); discriminate E]|].
  destruct (Qleb (qval maxp) (qval minp)); [split; intros (? & E); [discriminate E|destruct E as (? & E); discriminate E]|].
  split; intros _; repeat eexists.
Qed.

(* ---- the former refutation witnesses, now inside the theorem ---- *)
Definition neg_args : servo_args := mkServoArgs (Some (PI 9)) (Some (PI (-90))) (Some (PI 90)) None None.
Definition neg_ops : list sop := [SWrite (PI (-10)); SRead; SWrite (PF (-21 # 2)); SWrite (PF (-1 # 4)); SWrite (PF (-1 # 2)); SWrite (PF (-3 # 4))].
Definition neg_host : servo := mkServo (PI 9) (-90 # 1) (90 # 1) (544 # 1) (2400 # 1) (-90 # 1) (544 # 1).

Lemma servo_negative_angle_agrees :
  decl_ok neg_args = true /\ servo_ctor neg_args = inl neg_host /\
  forallb (fun b => b) (servo_range_flags neg_host neg_ops) = true /\
  (exists d evs, ds_decl neg_args = Some (d, evs) /\
     fst (dsrun d neg_ops) = [SWriteDeg 9 (-10); SWriteDeg 9 (-11); SWriteDeg 9 0; SWriteDeg 9 (-1); SWriteDeg 9 (-1)] /\
     fst (fst (hsrun 9 neg_host neg_ops)) = fst (dsrun d neg_ops) /\
     nth 1 (snd (dsrun d neg_ops)) SGNone = SGFloat (-10 # 1)).
Proof.
  split; [vm_compute; reflexivity|]. split; [vm_compute; reflexivity|]. split; [vm_compute; reflexivity|].
  eexists. eexists. split; [vm_compute; reflexivity|]. vm_compute. repeat split.
Qed.

Definition frac_args : servo_args := mkServoArgs (Some (PI 9)) None None (Some (PF (1089 # 2))) None.
Definition frac_host : servo := mkServo (PI 9) 0 (180 # 1) (1089 # 2) (2400 # 1) 0 (1089 # 2).

Lemma servo_fractional_bound_agrees :
  decl_ok frac_args = true /\ servo_ctor frac_args = inl frac_host /\
  (exists d, ds_decl frac_args = Some (d, [SAttach 9 545 2400; SWriteMicros 9 545]) /\
     snd (dsrun d [SReadUs; SWrite (PI 90); SReadUs]) = [SGFloat (1089 # 2); SGNone; SGFloat (5889 # 4)] /\
     snd (fst (hsrun 9 frac_host [SReadUs; SWrite (PI 90); SReadUs])) = snd (dsrun d [SReadUs; SWrite (PI 90); SReadUs]) /\
     fst (dsrun d [SReadUs; SWrite (PI 90); SReadUs]) = [SWriteDeg 9 90]).
Proof.
  split; [vm_compute; reflexivity|]. split; [vm_compute; reflexivity|].
  eexists. split; [vm_compute; reflexivity|]. vm_compute. repeat split.
Qed.

(* ---- non-vacuity ---- *)
Definition demo_args : servo_args := mkServoArgs (Some (PI 10)) (Some (PI (-45))) (Some (PF (135 # 1))) (Some (PI 600)) (Some (PI 2300)).
Definition demo_host : servo := mkServo (PI 10) (-45 # 1) (135 # 1) (600 # 1) (2300 # 1) (-45 # 1) (600 # 1).
Definition demo_sops : list sop :=
  [SRead; SReadUs; SWrite (PF (181 # 2)); SRead; SReadUs; SWriteUs (PI 1450); SRead; SReadUs; SWrite (PB true); SWrite (PF (-1 # 4)); SReadUs].

Lemma servo_demo_agrees :
  decl_ok demo_args = true /\ servo_ctor demo_args = inl demo_host /\
  forallb (fun b => b) (servo_range_flags demo_host demo_sops) = true /\
  fst (fst (hsrun 10 demo_host demo_sops)) = [SWriteDeg 10 91; SWriteMicros 10 1450; SWriteDeg 10 1; SWriteDeg 10 0].
Proof. vm_compute. repeat split. Qed.
