(* C09 - environments under a simultaneous assignment  x1, .., xn = y1, .., yn  whose right-hand
   sides are the left-hand names in another order: the values held by the environment afterwards are
   a permutation of the values held before (generic in the value type: list structs in the firmware,
   object references in the CPython reference). *)
From Coq Require Import ZArith List Bool Arith Lia Permutation.
From RV Require Import Device.DList Device.DListProg.
Import ListNotations.

Section Env.
Variable A : Type.
Variable d : A.

Definition getd (e : env A) (z : name) : A := match assoc z e with Some a => a | None => d end.

(* x_k := v_k one after the other *)
Fixpoint tstore (e : env A) (xs : list name) (vals : list A) : env A :=
  match xs, vals with
  | x :: xr, v :: vr => tstore (set_assoc x v e) xr vr
  | _, _ => e
  end.

(* the name whose OLD value z holds afterwards *)
Fixpoint tsub (xs ys : list name) (z : name) : name :=
  match xs, ys with
  | x :: xr, y :: yr => if Z.eqb z x then y else tsub xr yr z
  | _, _ => z
  end.

Lemma set_assoc_names' : forall x a (e : env A), map fst (set_assoc x a e) = map fst e.
Proof. induction e as [|[y b] r IH]; simpl; auto. destruct (Z.eqb x y); simpl; now rewrite ?IH. Qed.

Lemma assoc_set_assoc' : forall x y a (e : env A),
  assoc y (set_assoc x a e) =
  if Z.eqb y x then match assoc x e with Some _ => Some a | None => None end else assoc y e.
Proof.
  induction e as [|[z b] r IH]; simpl.
  - destruct (Z.eqb y x); auto.
  - destruct (Z.eqb x z) eqn:E; simpl.
    + apply Z.eqb_eq in E. subst z. destruct (Z.eqb y x); auto.
    + destruct (Z.eqb y z) eqn:E2.
      * apply Z.eqb_eq in E2. subst z. rewrite Z.eqb_sym in E. now rewrite E.
      * apply IH.
Qed.

Lemma tstore_names : forall xs vals (e : env A), map fst (tstore e xs vals) = map fst e.
Proof.
  induction xs as [|x xr IH]; intros [|v vr] e; simpl; auto.
  rewrite IH. apply set_assoc_names'.
Qed.

Lemma existsb_eqb_In : forall z l, existsb (Z.eqb z) l = true <-> In z l.
Proof.
  intros z l. rewrite existsb_exists. split.
  - intros (w & Hw & E). apply Z.eqb_eq in E. now subst.
  - intros H. exists z. split; auto. apply Z.eqb_refl.
Qed.

Lemma existsb_eqb_notIn : forall z l, existsb (Z.eqb z) l = false <-> ~ In z l.
Proof.
  intros z l. rewrite <- existsb_eqb_In. destruct (existsb (Z.eqb z) l); split; intros; congruence.
Qed.

Lemma tstore_assoc : forall (g : name -> A) xs ys (e : env A) z,
  NoDup xs -> length xs = length ys -> (forall x, In x xs -> assoc x e <> None) ->
  assoc z (tstore e xs (map g ys)) =
  if existsb (Z.eqb z) xs then Some (g (tsub xs ys z)) else assoc z e.
Proof.
  intros g. induction xs as [|x xr IH]; intros [|y yr] e z ND L Hd; simpl in *; try discriminate; auto.
  inversion ND as [|? ? Hn ND']; subst. injection L as L.
  rewrite IH; auto.
  2:{ intros w Hw. rewrite assoc_set_assoc'. destruct (Z.eqb w x) eqn:E; [|auto].
      destruct (assoc x e) eqn:Ex; [discriminate|]. exfalso. apply (Hd x); auto. }
  destruct (Z.eqb z x) eqn:E; simpl.
  - apply Z.eqb_eq in E. subst z.
    assert (Hx : existsb (Z.eqb x) xr = false) by (apply existsb_eqb_notIn; auto).
    rewrite Hx. rewrite assoc_set_assoc', Z.eqb_refl.
    destruct (assoc x e) eqn:Ex; auto. exfalso. apply (Hd x); auto.
  - destruct (existsb (Z.eqb z) xr); auto. rewrite assoc_set_assoc', E. reflexivity.
Qed.

Lemma tsub_notin : forall xs ys z, ~ In z xs -> tsub xs ys z = z.
Proof.
  induction xs as [|x xr IH]; intros [|y yr] z H; simpl in *; auto.
  destruct (Z.eqb z x) eqn:E. { apply Z.eqb_eq in E. subst. tauto. }
  apply IH. tauto.
Qed.

Lemma tsub_in : forall xs ys z, length xs = length ys -> In z xs -> In (tsub xs ys z) ys.
Proof.
  induction xs as [|x xr IH]; intros [|y yr] z L H; simpl in *; try discriminate; try tauto.
  injection L as L. destruct (Z.eqb z x) eqn:E; auto.
  right. apply IH; auto. destruct H as [->|H]; auto. rewrite Z.eqb_refl in E. discriminate.
Qed.

Lemma tsub_inj_in : forall xs ys z w, NoDup ys -> length xs = length ys ->
  In z xs -> In w xs -> tsub xs ys z = tsub xs ys w -> z = w.
Proof.
  induction xs as [|x xr IH]; intros [|y yr] z w ND L Hz Hw E; simpl in *; try discriminate; try tauto.
  injection L as L. inversion ND as [|? ? Hn ND']; subst.
  destruct (Z.eqb z x) eqn:Ez; destruct (Z.eqb w x) eqn:Ew.
  - apply Z.eqb_eq in Ez, Ew. congruence.
  - exfalso. apply Hn. rewrite E. apply tsub_in; auto.
    destruct Hw as [->|Hw]; auto. rewrite Z.eqb_refl in Ew. discriminate.
  - exfalso. apply Hn. rewrite <- E. apply tsub_in; auto.
    destruct Hz as [->|Hz]; auto. rewrite Z.eqb_refl in Ez. discriminate.
  - apply (IH yr); auto.
    + destruct Hz as [->|Hz]; auto. rewrite Z.eqb_refl in Ez. discriminate.
    + destruct Hw as [->|Hw]; auto. rewrite Z.eqb_refl in Ew. discriminate.
Qed.

Lemma tsub_inj : forall xs ys, NoDup ys -> length xs = length ys -> incl ys xs ->
  forall z w, tsub xs ys z = tsub xs ys w -> z = w.
Proof.
  intros xs ys ND L I z w E.
  destruct (in_dec Z.eq_dec z xs) as [Hz|Hz]; destruct (in_dec Z.eq_dec w xs) as [Hw|Hw].
  - eapply tsub_inj_in; eauto.
  - exfalso. rewrite (tsub_notin xs ys w Hw) in E. apply Hw. rewrite <- E. apply I. now apply tsub_in.
  - exfalso. rewrite (tsub_notin xs ys z Hz) in E. apply Hz. rewrite E. apply I. now apply tsub_in.
  - now rewrite !tsub_notin in E by auto.
Qed.

Lemma map_inj_NoDup : forall (f : name -> name) l, (forall z w, f z = f w -> z = w) -> NoDup l -> NoDup (map f l).
Proof.
  intros f l Hf. induction 1 as [|a r Hn ND IH]; simpl; constructor; auto.
  intro Hi. apply in_map_iff in Hi. destruct Hi as (b & E & Hb). apply Hf in E. subst. contradiction.
Qed.

Lemma tsub_perm : forall xs ys ns, NoDup ys -> length xs = length ys -> incl ys xs -> incl xs ns ->
  NoDup ns -> Permutation (map (tsub xs ys) ns) ns.
Proof.
  intros xs ys ns ND L I I2 NDn. apply NoDup_Permutation_bis.
  - apply map_inj_NoDup; auto. now apply tsub_inj.
  - rewrite map_length. lia.
  - intros z Hz. apply in_map_iff in Hz. destruct Hz as (w & <- & Hw).
    destruct (in_dec Z.eq_dec w xs) as [Hx|Hx].
    + apply I2, I. now apply tsub_in.
    + now rewrite tsub_notin.
Qed.

(* the values of an environment with distinct names, read through any function that agrees with it *)
Lemma env_vals : forall (e : env A) (f : name -> A), NoDup (map fst e) ->
  (forall z a, assoc z e = Some a -> f z = a) -> map snd e = map f (map fst e).
Proof.
  induction e as [|[z a] r IH]; intros f ND H; simpl in *; auto.
  inversion ND as [|? ? Hn ND']; subst. f_equal.
  - symmetry. apply H. now rewrite Z.eqb_refl.
  - apply IH; auto. intros w b Hw. apply H.
    destruct (Z.eqb w z) eqn:E; auto. apply Z.eqb_eq in E. subst w.
    exfalso. apply Hn. clear - Hw. induction r as [|[y c] r IH]; simpl in *; try discriminate.
    destruct (Z.eqb z y) eqn:E; [left; symmetry; now apply Z.eqb_eq | right; auto].
Qed.

Lemma assoc_in_names : forall (e : env A) z, In z (map fst e) -> assoc z e <> None.
Proof.
  induction e as [|[y b] r IH]; simpl; intros z H; try tauto.
  destruct (Z.eqb z y) eqn:E; [discriminate|]. apply IH. destruct H as [<-|H]; auto.
  rewrite Z.eqb_refl in E. discriminate.
Qed.

(* the simultaneous assignment: pointwise, and as a permutation of the values *)
Theorem tstore_perm_assoc : forall (e : env A) xs ys z,
  NoDup (map fst e) -> NoDup xs -> NoDup ys -> length xs = length ys ->
  incl ys xs -> incl xs (map fst e) -> In z (map fst e) ->
  assoc z (tstore e xs (map (getd e) ys)) = Some (getd e (tsub xs ys z)).
Proof.
  intros e xs ys z NDe NDx NDy L I I2 Hz.
  rewrite tstore_assoc; auto.
  2:{ intros x Hx. apply assoc_in_names. auto. }
  destruct (existsb (Z.eqb z) xs) eqn:E; auto.
  apply existsb_eqb_notIn in E. rewrite tsub_notin by auto. unfold getd.
  destruct (assoc z e) eqn:Ez; auto. exfalso. now apply (assoc_in_names e z).
Qed.

Theorem tstore_perm : forall (e : env A) xs ys,
  NoDup (map fst e) -> NoDup xs -> NoDup ys -> length xs = length ys ->
  incl ys xs -> incl xs (map fst e) ->
  Permutation (map snd (tstore e xs (map (getd e) ys))) (map snd e).
Proof.
  intros e xs ys NDe NDx NDy L I I2.
  set (e' := tstore e xs (map (getd e) ys)).
  assert (N' : map fst e' = map fst e) by apply tstore_names.
  rewrite (env_vals e' (fun z => getd e (tsub xs ys z))).
  - rewrite (env_vals e (getd e)); auto.
    + rewrite N'. rewrite <- (map_map (tsub xs ys) (getd e)). apply Permutation_map.
      apply tsub_perm; auto.
    + intros z a Hz. unfold getd. now rewrite Hz.
  - now rewrite N'.
  - intros z a Hz.
    assert (Hin : In z (map fst e)).
    { rewrite <- N'. clear - Hz. induction e' as [|[y c] r IH]; simpl in *; try discriminate.
      destruct (Z.eqb z y) eqn:E; [left; symmetry; now apply Z.eqb_eq | right; auto]. }
    unfold e' in Hz. rewrite tstore_perm_assoc in Hz; auto. now injection Hz.
Qed.

End Env.

Arguments getd {A}.
Arguments tstore {A}.

(* the boolean guard, reflected *)
Lemma nodupb_NoDup : forall l, nodupb l = true -> NoDup l.
Proof.
  induction l as [|a r IH]; simpl; intros H; constructor.
  - apply andb_true_iff in H. destruct H as [H _]. apply negb_true_iff in H. now apply existsb_eqb_notIn.
  - apply IH. apply andb_true_iff in H. tauto.
Qed.

Lemma forallb_mem_incl : forall ys xs, forallb (fun y => existsb (Z.eqb y) xs) ys = true -> incl ys xs.
Proof.
  intros ys xs H y Hy. rewrite forallb_forall in H. apply existsb_eqb_In. auto.
Qed.
