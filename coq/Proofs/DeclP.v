(* Proofs for C02, declarations: the inference run inside parse() (threading the function
   environment) agrees with the static instance when no user function exists; straight-line
   programs with stable labels keep every value representable in its declared C type;
   the first-assignment / augmented-assignment / branch-hoisting refutation witnesses. *)
From Coq Require Import ZArith QArith List Bool Lia.
From RV Require Import Base.Wire Base.Text Lang.PyAst Lang.PySem Lang.Infer Lang.InferGuard Lang.InferSpec
  Lang.Decl Lang.DeclSpec Gen.InferTables Proofs.InferP Proofs.JoinP.
Import ListNotations.
Open Scope Z_scope.

(* ------------------------------------------------------------------ infer with a threaded state vs the static instance *)
Section Sim.
  Variable S1 : Type.
  Variable Inv : S1 -> Prop.
  Variable call1 : S1 -> tenv -> ident -> list ty -> S1 * option ty.
  Variable F : ftable.
  Variable A : aliases.
  Variable C : option ictx.
  Hypothesis Hcall : forall s G f sg, Inv s ->
    Inv (fst (call1 s G f sg)) /\ snd (call1 s G f sg) = resolve_call F A f sg.

  Notation inf1 := (infer S1 call1 C).
  Notation inf0 := (infer unit (call_static F A) C).

  Definition sim_at (e : pexpr) : Prop :=
    forall s G, Inv s ->
      match inf1 s G e with
      | Some (t, G1, s1) => Inv s1 /\ inf0 tt G e = Some (t, G1, tt)
      | None => inf0 tt G e = None
      end.

  Lemma thread_sim l : Forall sim_at l ->
    forall s G, Inv s ->
      match thread inf1 s G l with
      | Some (ts, G1, s1) => Inv s1 /\ thread inf0 tt G l = Some (ts, G1, tt)
      | None => thread inf0 tt G l = None
      end.
  Proof.
    induction 1 as [|a l Ha Hl IH]; intros s G Hs; cbn [thread].
    - split; [exact Hs | reflexivity].
    - specialize (Ha s G Hs). destruct (inf1 s G a) as [[[t G1] s1]|].
      + destruct Ha as [Hs1 E1]. rewrite E1.
        specialize (IH s1 G1 Hs1). destruct (thread inf1 s1 G1 l) as [[[ts G2] s2]|].
        * destruct IH as [Hs2 E2]. rewrite E2. split; [exact Hs2 | reflexivity].
        * rewrite IH. reflexivity.
      + rewrite Ha. reflexivity.
  Qed.

  Lemma infer_sim e : sim_at e.
  Proof.
    induction e using pexpr_ind'; unfold sim_at; intros sx G Hs; cbn [infer];
      try (split; [exact Hs | reflexivity]).
    - (* EBin *)
      specialize (IHe1 sx G Hs). destruct (inf1 sx G e1) as [[[lt G1] s1]|]; [|rewrite IHe1; reflexivity].
      destruct IHe1 as [Hs1 E1]. rewrite E1.
      specialize (IHe2 s1 G1 Hs1). destruct (inf1 s1 G1 e2) as [[[rt G2] s2]|]; [|rewrite IHe2; reflexivity].
      destruct IHe2 as [Hs2 E2]. rewrite E2.
      destruct (is_string_ty lt || is_string_ty rt); [split; [exact Hs2 | reflexivity]|].
      destruct (ty_eqb lt TFloat || ty_eqb rt TFloat); split; try exact Hs2; reflexivity.
    - (* EUn *)
      destruct op; try (split; [exact Hs | reflexivity]); apply IHe; exact Hs.
    - (* EIfExp *)
      specialize (IHe2 sx G Hs). destruct (inf1 sx G e2) as [[[lt G1] s1]|]; [|rewrite IHe2; reflexivity].
      destruct IHe2 as [Hs1 E1]. rewrite E1.
      specialize (IHe3 s1 G1 Hs1). destruct (inf1 s1 G1 e3) as [[[rt G2] s2]|]; [|rewrite IHe3; reflexivity].
      destruct IHe3 as [Hs2 E2]. rewrite E2. split; [exact Hs2 | reflexivity].
    - (* ECall *)
      pose proof (thread_sim _ H sx G Hs) as Ht.
      destruct (thread inf1 sx G args) as [[[ats G1] s1]|]; [|rewrite Ht; reflexivity].
      destruct Ht as [Hs1 E1]. rewrite E1.
      destruct (tlookup f builtin_rets); [split; [exact Hs1 | reflexivity]|].
      destruct (Hcall s1 G1 f ats Hs1) as [Hi Hr].
      destruct (call1 s1 G1 f ats) as [s2 r]. cbn [fst snd] in Hi, Hr. subst r.
      unfold call_static. split; [exact Hi | reflexivity].
    - (* EList *)
      pose proof (thread_sim _ H sx G Hs) as Ht.
      destruct (thread inf1 sx G es) as [[[ts G1] s1]|]; [|rewrite Ht; reflexivity].
      destruct Ht as [Hs1 E1]. rewrite E1.
      destruct (merge_element_types ts); [split; [exact Hs1 | reflexivity] | reflexivity].
    - (* ESubscript *)
      specialize (IHe1 sx G Hs). destruct (inf1 sx G e1) as [[[lt G1] s1]|]; [|rewrite IHe1; reflexivity].
      destruct IHe1 as [Hs1 E1]. rewrite E1. split; [exact Hs1 | reflexivity].
  Qed.
End Sim.

(* ------------------------------------------------------------------ parse() without user functions *)
Definition nofun (fe : fenv) : Prop := fe_F fe = [] /\ fe_src fe = [] /\ fe_defs fe = [] /\ fe_err fe = false.

Lemma call_dyn_with_nofun pf declared (sp : fenv * option pmap) G f sg :
  nofun (fst sp) ->
  nofun (fst (fst (call_dyn_with pf declared sp G f sg))) /\
  snd (call_dyn_with pf declared sp G f sg) = resolve_call [] [] f sg.
Proof.
  destruct sp as [fe p]. destruct fe as [src F0 al defs calls prim err rf].
  unfold nofun. cbn [fst fe_F fe_src fe_defs fe_err]. intros (HF & Hsrc & Hdefs & Herr). subst F0 src defs err.
  unfold call_dyn_with. cbn [fe_calls fe_src fe_F fe_alias fe_defs fe_primary fe_err fe_refresh].
  match goal with |- context [ensure_variant_with ?pf0 ?fe1 ?cur f sg] =>
    assert (Eev : ensure_variant_with pf0 fe1 cur f sg = Some (fe1, p)) end.
  { unfold ensure_variant_with. cbn [fe_defs fe_alias fe_src tlookup get_or sig_lookup d_promo]. reflexivity. }
  rewrite Eev. cbn [get_or fst snd fe_F fe_src fe_defs fe_alias fe_err].
  split; [repeat split; reflexivity|].
  unfold resolve_call. cbn [tlookup]. reflexivity.
Qed.

Lemma call_dyn_nofun C declared (sp : fenv * option pmap) G f sg :
  nofun (fst sp) ->
  nofun (fst (fst (call_dyn C declared sp G f sg))) /\
  snd (call_dyn C declared sp G f sg) = resolve_call [] [] f sg.
Proof. apply call_dyn_with_nofun. Qed.

(* ------------------------------------------------------------------ association-list facts *)
Lemma tlookup_app_new {X} x (c : X) l : tlookup x l = None -> tlookup x (l ++ [(x, c)]) = Some c.
Proof.
  induction l as [|[k v] r IH]; cbn; intro H.
  - rewrite text_eqb_refl. reflexivity.
  - destruct (text_eqb x k); [discriminate | apply IH; exact H].
Qed.
Lemma tlookup_app_other {X} x y (c : X) l : text_eqb y x = false -> tlookup y (l ++ [(x, c)]) = tlookup y l.
Proof.
  intro Hn. induction l as [|[k v] r IH]; cbn.
  - rewrite Hn. reflexivity.
  - destruct (text_eqb y k); [reflexivity | exact IH].
Qed.
Lemma tlookup_app_some {X} y (c d : X) x l : tlookup y l = Some d -> tlookup y (l ++ [(x, c)]) = Some d.
Proof.
  induction l as [|[k v] r IH]; cbn; [discriminate|].
  destruct (text_eqb y k); [intro H; exact H | exact IH].
Qed.
Lemma tmem_app y x l : tmem y (l ++ [x]) = tmem y l || text_eqb y x.
Proof.
  induction l as [|k r IH]; cbn.
  - rewrite orb_false_r. reflexivity.
  - rewrite IH. rewrite orb_assoc. reflexivity.
Qed.

(* ------------------------------------------------------------------ the invariant of a straight-line run *)
Record flat_inv (ps : pstate) (rho : env) : Prop := mk_flat_inv {
  fi_nofun : nofun (p_fe ps);
  fi_sound : forall x v, lookup x rho = Some v ->
               exists t, tlookup x (d_types (p_ctx ps)) = Some t /\ repr t v;
  fi_decl : forall x,
      match tlookup x (d_types (p_ctx ps)) with
      | Some t => tmem x (d_decl (p_ctx ps)) = true /\ tlookup x (p_globals ps) = Some (cpp_type t)
      | None => tmem x (d_decl (p_ctx ps)) = false /\ tlookup x (p_globals ps) = None
      end
}.

Lemma flat_inv_env_sound ps rho : flat_inv ps rho -> env_sound (d_types (p_ctx ps)) rho.
Proof.
  intros Hi x v Hl. destruct (fi_sound _ _ Hi x v Hl) as (t & Ht & Hr).
  unfold tget. rewrite Ht. exact Hr.
Qed.

Lemma flat_inv_covers ps rho : flat_inv ps rho ->
  forall x v, lookup x rho = Some v -> exists c, tlookup x (p_globals ps) = Some c /\ crepr c v.
Proof.
  intros Hi x v Hl. destruct (fi_sound _ _ Hi x v Hl) as (t & Ht & Hr).
  pose proof (fi_decl _ _ Hi x) as Hd. rewrite Ht in Hd. destruct Hd as [_ Hg].
  exists (cpp_type t). split; [exact Hg | apply repr_crepr; exact Hr].
Qed.

Lemma flat_inv0 : flat_inv pstate0 [].
Proof.
  constructor.
  - repeat split; reflexivity.
  - intros x v H. discriminate.
  - intro x. cbn. split; reflexivity.
Qed.

Definition stable_at (C : option ictx) (G : tenv) (x : ident) (e : pexpr) : Prop :=
  match tlookup x G with Some t0 => ty_eqb t0 (ety [] [] C G e) = true | None => True end.

Lemma flat_step C ps rho x e v ps1 :
  flat_inv ps rho ->
  guard [] [] C (d_types (p_ctx ps)) e = true ->
  stable_at C (d_types (p_ctx ps)) x e ->
  run_item C ps (IStmt (SAssign x e)) = Some ps1 ->
  peval rho e = Ok v ->
  flat_inv ps1 ((x, v) :: rho) /\
  d_types (p_ctx ps1) = tset (d_types (p_ctx ps)) x (ety [] [] C (d_types (p_ctx ps)) e) /\
  (forall y c, tlookup y (p_globals ps) = Some c -> tlookup y (p_globals ps1) = Some c).
Proof.
  intros Hinv Hg Hst Hrun Hev.
  pose proof (flat_inv_env_sound _ _ Hinv) as Hes.
  destruct Hinv as [Hnf Hsound Hdecl].
  destruct ps as [fe ctx globals loopd labels]. destruct ctx as [G decl promo].
  cbn [p_fe p_ctx p_globals p_loop p_labels d_types d_decl d_promo] in *.
  cbn [run_item run_stmt p_fe p_ctx p_globals p_loop p_labels] in Hrun.
  unfold do_assign, infer_d in Hrun.
  cbn [st_ctx st_decls st_acc d_types d_decl d_promo] in Hrun.
  pose proof (infer_sim (fenv * option pmap) (fun sp => nofun (fst sp)) (call_dyn C decl) [] [] C
                        (fun s G0 f sg Hs => call_dyn_nofun C decl s G0 f sg Hs) e (fe, promo) G Hnf) as Hsim.
  destruct (infer (fenv * option pmap) (call_dyn C decl) C (fe, promo) G e) as [[[t G1] [fe1 p1]]|]; [|discriminate].
  destruct Hsim as [Hnf1 Hi0]. cbn [fst] in Hnf1.
  pose proof (proj2 (proj2 (proj2 Hnf1))) as Herr1.
  assert (His : infer_s [] [] C G e = Some (t, G1)) by (unfold infer_s; rewrite Hi0; reflexivity).
  destruct (infer_s_sound _ _ _ _ _ _ _ _ _ Hes Hg His Hev) as [Hr ->].
  assert (Het : ety [] [] C G e = t) by (unfold ety; rewrite His; reflexivity).
  unfold stable_at in Hst. rewrite Het in *. clear Het.
  cbn [d_types d_decl d_promo] in Hrun.
  pose proof (Hdecl x) as Hdx.
  destruct (tlookup x G) as [t0|] eqn:Ex.
  - (* already typed: same label, nothing declared *)
    destruct Hdx as [Hmem Hgl]. apply ty_eqb_eq in Hst. subst t0. rewrite Hmem in Hrun.
    assert (Hclash : match t with
                     | TList oe => true && (negb (is_list_ty t) || negb (ty_eqb oe (list_elem t)))
                     | _ => false end = false).
    { destruct t; try reflexivity. cbn. rewrite ty_eqb_refl. reflexivity. }
    rewrite Hclash in Hrun. cbv beta iota in Hrun. rewrite Herr1 in Hrun. inversion Hrun; subst ps1. clear Hrun.
    cbn [p_fe p_ctx p_globals d_types d_decl d_promo st_ctx st_decls st_acc].
    split; [|split; [reflexivity | intros y c H; exact H]].
    constructor; cbn [p_fe p_ctx p_globals d_types d_decl d_promo].
    + exact Hnf1.
    + intros y w Hl. unfold lookup in Hl. cbn [tlookup] in Hl. rewrite tlookup_tset.
      destruct (text_eqb y x) eqn:Eyx.
      * inversion Hl; subst w. exists t. split; [reflexivity | exact Hr].
      * apply Hsound; exact Hl.
    + intro y. rewrite tlookup_tset. destruct (text_eqb y x) eqn:Eyx.
      * apply text_eqb_eq in Eyx. subst y. split; assumption.
      * apply Hdecl.
  - (* new name: declared now, from this label *)
    destruct Hdx as [Hmem Hgl]. rewrite Hmem in Hrun. cbv beta iota in Hrun. rewrite Herr1 in Hrun.
    inversion Hrun; subst ps1. clear Hrun.
    cbn [p_fe p_ctx p_globals d_types d_decl d_promo st_ctx st_decls st_acc].
    split; [|split; [reflexivity | intros y c H; apply tlookup_app_some; exact H]].
    constructor; cbn [p_fe p_ctx p_globals d_types d_decl d_promo].
    + exact Hnf1.
    + intros y w Hl. unfold lookup in Hl. cbn [tlookup] in Hl. rewrite tlookup_tset.
      destruct (text_eqb y x) eqn:Eyx.
      * inversion Hl; subst w. exists t. split; [reflexivity | exact Hr].
      * apply Hsound; exact Hl.
    + intro y. rewrite tlookup_tset, tmem_app. destruct (text_eqb y x) eqn:Eyx.
      * apply text_eqb_eq in Eyx. subst y. rewrite orb_true_r. split; [reflexivity|].
        apply tlookup_app_new; exact Hgl.
      * rewrite orb_false_r. rewrite (tlookup_app_other _ _ _ _ Eyx). apply Hdecl.
Qed.

Definition step_items (C : option ictx) :=
  fun (acc0 : option pstate) (it : item) => match acc0 with None => None | Some ps => run_item C ps it end.

Lemma fold_none C l : fold_left (step_items C) l None = None.
Proof. induction l as [|a r IH]; [reflexivity | exact IH]. Qed.

Lemma flat_run C : forall p ps0 rho0 ps rho tr,
  flat_inv ps0 rho0 ->
  flat_guard C (d_types (p_ctx ps0)) p = true ->
  fold_left (step_items C) (flat_items p) (Some ps0) = Some ps ->
  exec_flat rho0 p = Ok (rho, tr) ->
  flat_inv ps rho /\
  (forall y c, tlookup y (p_globals ps0) = Some c -> tlookup y (p_globals ps) = Some c) /\
  (forall x v, In (x, v) tr -> exists c, tlookup x (p_globals ps) = Some c /\ crepr c v).
Proof.
  induction p as [|[x e] r IH]; intros ps0 rho0 ps rho tr Hinv Hg Hrun Hex.
  - cbn in Hrun, Hex. inversion Hrun; inversion Hex; subst.
    split; [exact Hinv|]. split; [intros y c H; exact H | intros x v []].
  - cbn [flat_guard] in Hg. apply andb_true_iff in Hg as [Hg Hgr]. apply andb_true_iff in Hg as [Hge Hst].
    cbn [flat_items map fold_left fst snd] in Hrun.
    cbn [exec_flat] in Hex.
    destruct (peval rho0 e) as [v|er] eqn:Ev; [|discriminate].
    destruct (exec_flat ((x, v) :: rho0) r) as [[rho1 tr1]|er] eqn:Er; [|discriminate].
    inversion Hex; subst rho tr. clear Hex.
    unfold step_items at 2 in Hrun.
    destruct (run_item C ps0 (IStmt (SAssign x e))) as [ps1|] eqn:E1; [|rewrite fold_none in Hrun; discriminate].
    assert (Hst' : stable_at C (d_types (p_ctx ps0)) x e).
    { unfold stable_at. destruct (tlookup x (d_types (p_ctx ps0))); [exact Hst | exact I]. }
    destruct (flat_step _ _ _ _ _ _ _ Hinv Hge Hst' E1 Ev) as (Hinv1 & Hty1 & Hmono1).
    rewrite <- Hty1 in Hgr.
    destruct (IH ps1 ((x, v) :: rho0) ps rho1 tr1 Hinv1 Hgr Hrun Er) as (Hinvf & Hmono & Htr).
    split; [exact Hinvf|]. split.
    + intros y c H. apply Hmono. apply Hmono1. exact H.
    + intros y w [Hin|Hin].
      * inversion Hin; subst y w.
        destruct (flat_inv_covers _ _ Hinv1 x v) as (c & Hc & Hcr).
        { unfold lookup. cbn [tlookup]. rewrite text_eqb_refl. reflexivity. }
        exists c. split; [apply Hmono; exact Hc | exact Hcr].
      * apply Htr; exact Hin.
Qed.

Lemma run_items_fold C its : run_items C its = fold_left (step_items C) its (Some pstate0).
Proof. reflexivity. Qed.

Theorem decl_covers_flat :
  forall C p ps rho tr,
    flat_guard C [] p = true ->
    run_items C (flat_items p) = Some ps ->
    exec_flat [] p = Ok (rho, tr) ->
    forall x v, lookup x rho = Some v ->
      exists c, tlookup x (p_globals ps) = Some c /\ crepr c v.
Proof.
  intros C p ps rho tr Hg Hrun Hex.
  rewrite run_items_fold in Hrun.
  destruct (flat_run C p pstate0 [] ps rho tr flat_inv0 Hg Hrun Hex) as (Hinv & _ & _).
  apply flat_inv_covers; exact Hinv.
Qed.

Theorem decl_covers_trace :
  forall C p ps rho tr,
    flat_guard C [] p = true ->
    run_items C (flat_items p) = Some ps ->
    exec_flat [] p = Ok (rho, tr) ->
    forall x v, In (x, v) tr ->
      exists c, tlookup x (p_globals ps) = Some c /\ crepr c v.
Proof.
  intros C p ps rho tr Hg Hrun Hex.
  rewrite run_items_fold in Hrun.
  destruct (flat_run C p pstate0 [] ps rho tr flat_inv0 Hg Hrun Hex) as (_ & _ & Htr).
  exact Htr.
Qed.

(* ------------------------------------------------------------------ witnesses *)
Lemma demo_flat_nonvacuous :
  flat_guard None [] demo_flat = true /\
  (exists ps, run_items None (flat_items demo_flat) = Some ps /\
              p_globals ps = [(x_a, CInt); (x_c, CFloat); (x_s, CString)]) /\
  (exists rho tr, exec_flat [] demo_flat = Ok (rho, tr) /\ lookup x_c rho = Some (VFloat (15 # 2))).
Proof.
  split; [vm_compute; reflexivity|]. split.
  - eexists. split; [vm_compute; reflexivity | reflexivity].
  - eexists. eexists. split; [vm_compute; reflexivity | vm_compute; reflexivity].
Qed.

Lemma first_assignment_narrows :
  exists ps rho tr,
    run_items None (flat_items first_assign_prog) = Some ps /\
    exec_flat [] first_assign_prog = Ok (rho, tr) /\
    lookup x_a rho = Some (VFloat (5 # 2)) /\
    tlookup x_a (p_globals ps) = Some CInt /\
    ~ crepr CInt (VFloat (5 # 2)) /\
    c_store CInt (VFloat (5 # 2)) = Some (VInt 2).
Proof.
  eexists. eexists. eexists.
  split; [vm_compute; reflexivity|]. split; [vm_compute; reflexivity|].
  split; [vm_compute; reflexivity|]. split; [vm_compute; reflexivity|].
  split; [cbn; tauto | vm_compute; reflexivity].
Qed.

Lemma aug_assignment_narrows :
  exists ps,
    run_items None [IStmt (SAssign x_a (EInt 1)); IStmt (SAug x_a Add (EFloat (1 # 2)))] = Some ps /\
    tlookup x_a (p_globals ps) = Some CInt /\ tget (d_types (p_ctx ps)) x_a = TFloat.
Proof. eexists. split; [vm_compute; reflexivity|]. split; vm_compute; reflexivity. Qed.

Lemma branch_hoist_narrows :
  exists ps,
    run_items None [IStmt (SIf (BrCons (BCons (SAssign x_a (EInt 1)) BNil) BrNil)
                               (OSome (BCons (SAssign x_a (EFloat (5 # 2))) BNil)))] = Some ps /\
    p_globals ps = [(x_a, CInt)].
Proof. eexists. split; [vm_compute; reflexivity | reflexivity]. Qed.
