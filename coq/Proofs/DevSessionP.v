(* proofs about Lang/DevSession.v: a parse() whose lazily created ctx keys take fresh defaults only is a function of its
   program alone; one shared default is enough to make a later, unrelated program come out differently *)
From Coq Require Import ZArith List Bool String Lia.
From RV Require Import Base.Wire Base.Text Lang.Order Lang.DevSession.
Import ListNotations.
Open Scope Z_scope.

Lemma key_eqb_eq a b : key_eqb a b = true <-> a = b.
Proof. destruct a, b; cbn; split; intro H; try reflexivity; try discriminate. Qed.

Lemma key_eqb_refl a : key_eqb a a = true.
Proof. apply key_eqb_eq. reflexivity. Qed.

Lemma all_keys_complete k : In k all_keys.
Proof. destruct k; cbn; tauto. Qed.

Lemma cfg_ok_spec c : cfg_ok c = true ->
  forall k, c_pre c k = false -> c_set c k = None /\ c_get c k = None.
Proof.
  intros H k Hp. unfold cfg_ok in H. rewrite forallb_forall in H. specialize (H k (all_keys_complete k)).
  rewrite Hp in H. cbn [orb] in H. destruct (c_set c k), (c_get c k); cbn in H; try discriminate. split; reflexivity.
Qed.

(* the code's ctx [d] and the specification's registries [r] agree *)
Definition inv (c : cfg) (d : dctx) (r : regs) : Prop :=
  forall k, d k = Own (r k) \/ (d k = Absent /\ r k = [] /\ c_pre c k = false).

Lemma inv_init c : inv c (init_ctx c) (fun _ => []).
Proof. intro k. unfold init_ctx. destruct (c_pre c k) eqn:E; [left; reflexivity | right; auto]. Qed.

Lemma lookup_inv c ms d r k : cfg_ok c = true -> inv c d r -> lookup c ms d k = r k.
Proof.
  intros Hok Hi. unfold lookup. destruct (Hi k) as [H | [H [Hr Hp]]]; rewrite H; [reflexivity|].
  destruct (cfg_ok_spec c Hok k Hp) as [_ Hg]. rewrite Hg, Hr. reflexivity.
Qed.

Lemma register_inv c ms d r x k : cfg_ok c = true -> inv c d r ->
  exists d', register c (d, ms) x k = (d', ms) /\ inv c d' (spec_register r x k).
Proof.
  intros Hok Hi. unfold register. destruct (Hi k) as [H | [H [Hr Hp]]]; rewrite H.
  - eexists. split; [reflexivity|]. intro k'. unfold spec_register, upd.
    destruct (key_eqb k' k) eqn:E; [left; reflexivity | apply Hi].
  - destruct (cfg_ok_spec c Hok k Hp) as [Hs _]. rewrite Hs. eexists. split; [reflexivity|].
    intro k'. unfold spec_register, upd. destruct (key_eqb k' k) eqn:E; [|apply Hi].
    left. rewrite Hr. reflexivity.
Qed.

Lemma register_keys_inv c ms x ks : cfg_ok c = true -> forall d r, inv c d r ->
  exists d', fold_left (fun st k => register c st x k) ks (d, ms) = (d', ms)
             /\ inv c d' (fold_left (fun r k => spec_register r x k) ks r).
Proof.
  intro Hok. induction ks as [|k ks IH]; intros d r Hi; cbn [fold_left].
  - exists d. split; [reflexivity | exact Hi].
  - destruct (register_inv c ms d r x k Hok Hi) as [d1 [E1 I1]]. rewrite E1. apply IH. exact I1.
Qed.

Lemma infer_expr_ext m1 m2 m x : (forall k, m1 k x = m2 k x) -> infer_expr m1 m x = infer_expr m2 m x.
Proof. intro H. unfold infer_expr. destruct m; repeat rewrite H; reflexivity. Qed.

Lemma infer_type_ext m1 m2 m x : (forall k, m1 k x = m2 k x) -> infer_type m1 m x = infer_type m2 m x.
Proof. intro H. unfold infer_type. destruct m; repeat rewrite H; reflexivity. Qed.

Lemma run_stmts_inv c ms : cfg_ok c = true -> forall p d r acc, inv c d r ->
  run_stmts c p (d, ms) acc = (spec_stmts p r acc, ms).
Proof.
  intro Hok. induction p as [|s p IH]; intros d r acc Hi; cbn [run_stmts spec_stmts]; [reflexivity|].
  destruct s as [x k | y x m].
  - destruct (register_keys_inv c ms x (keys_of k) Hok d r Hi) as [d' [E I']]. rewrite E. apply IH. exact I'.
  - cbn [fst snd].
    assert (Hm : forall k, (fun k x => tmem x (lookup c ms d k)) k x = (fun k x => tmem x (r k)) k x)
      by (intro k; cbn beta; rewrite (lookup_inv c ms d r k Hok Hi); reflexivity).
    rewrite (infer_expr_ext _ _ m x Hm). rewrite (infer_type_ext _ _ m x Hm).
    destruct (infer_expr _ m x); [apply IH; exact Hi | reflexivity].
Qed.

(* one parse(): the output is the specification's, and the module-level store is left as it was found *)
Lemma run_pure c ms p : cfg_ok c = true -> run c ms p = (transl_dev p, ms).
Proof. intro Hok. unfold run, transl_dev. apply run_stmts_inv; [exact Hok | apply inv_init]. Qed.

Lemma dsession_pure c : cfg_ok c = true -> forall ps ms, dsession c ms ps = map transl_dev ps.
Proof.
  intro Hok. induction ps as [|p ps IH]; intro ms; cbn [dsession map]; [reflexivity|].
  rewrite (run_pure c ms p Hok). rewrite IH. reflexivity.
Qed.

(* whatever was transpiled before and after, whatever the module-level objects hold: the program's own translation *)
Lemma dsession_stateless c ms before p after : cfg_ok c = true ->
  nth_error (dsession c ms (before ++ p :: after)) (List.length before) = Some (transl_dev p).
Proof.
  intro Hok. rewrite (dsession_pure c Hok). rewrite map_app. cbn [map].
  rewrite nth_error_app2 by (rewrite map_length; lia). rewrite map_length, Nat.sub_diag. reflexivity.
Qed.

Lemma cfg_fresh_ok pre : cfg_ok (cfg_fresh pre) = true.
Proof.
  unfold cfg_ok, cfg_fresh. apply forallb_forall. intros k _. cbn. apply orb_true_r.
Qed.

(* the guard is tight: the serial-monitor registry created lazily with a module-level default (and looked up with it) *)
Lemma shared_default_leaks c o :
  c_pre c KSerial = false -> c_set c KSerial = Some o -> c_get c KSerial = Some o ->
  c_pre c KServo = true -> c_pre c KPot = true -> c_pre c KPotPin = true ->
  transl_dev leak_B = Some [(n_y, 2, 0)] /\
  dsession c [] [leak_A; leak_B] = [Some []; Some [(n_y, 2, 3)]].
Proof.
  intros H1 H2 H3 H4 H5 H6. split; [vm_compute; reflexivity|].
  destruct c as [pre cs cg]. cbn [c_pre c_set c_get] in *.
  cbv [dsession run leak_A leak_B run_stmts keys_of fold_left register init_ctx lookup infer_expr infer_type upd fst snd
       c_pre c_set c_get key_eqb app ekind_code].
  rewrite ?H1, ?H2, ?H3, ?H4, ?H5, ?H6.
  cbv [dsession run leak_A leak_B run_stmts keys_of fold_left register init_ctx lookup infer_expr infer_type upd fst snd
       c_pre c_set c_get key_eqb app ekind_code].
  rewrite ?H1, ?H2, ?H3, ?H4, ?H5, ?H6.
  assert (E : ms_get (ms_add [] o n_x) o = [n_x])
    by (unfold ms_get, ms_add; cbn [tlookup]; rewrite text_eqb_refl; reflexivity).
  rewrite E. reflexivity.
Qed.

Lemma shared_default_refutes c o :
  c_pre c KSerial = false -> c_set c KSerial = Some o -> c_get c KSerial = Some o ->
  c_pre c KServo = true -> c_pre c KPot = true -> c_pre c KPotPin = true ->
  exists A B, nth_error (dsession c [] [A; B]) 1 <> Some (transl_dev B).
Proof.
  intros H1 H2 H3 H4 H5 H6. exists leak_A, leak_B.
  destruct (shared_default_leaks c o H1 H2 H3 H4 H5 H6) as [Ea Eb]. rewrite Ea, Eb. cbn. intro H. discriminate H.
Qed.

(* non-vacuity of the statelessness theorem: a configuration inside the guard, a session that re-uses one name in two roles *)
Lemma stateless_nonvacuous :
  cfg_ok (cfg_fresh (fun k => negb (key_eqb k KSerial))) = true /\
  dsession (cfg_fresh (fun k => negb (key_eqb k KSerial))) [(txt "_NO_NAMES", [n_x])] [leak_A; leak_B; leak_A]
    = [Some []; Some [(n_y, 2, 0)]; Some []].
Proof. split; vm_compute; reflexivity. Qed.
