(* Proofs for C02: function bodies are typed with the on-demand machinery (Lang/Decl.v parse_function_step); for a body
   that calls no user function this is exactly the static typing the function theorems are stated for. *)
From Coq Require Import ZArith QArith List Bool Lia.
From RV Require Import Base.Wire Base.Text Lang.PyAst Lang.PySem Lang.Infer Lang.InferGuard Lang.InferSpec
  Lang.InferComp Lang.Decl Lang.DeclSpec Lang.FnSpec Lang.AliasSpec Lang.StmtRef Lang.CtlSpec Lang.CallFree Gen.InferTables
  Proofs.InferP Proofs.JoinP Proofs.DeclP Proofs.FnP Proofs.CompP Proofs.CtlP.
Import ListNotations.
Open Scope Z_scope.

Lemma firstn_In_sub {X} (n : nat) (l : list X) x : In x (firstn n l) -> In x l.
Proof.
  revert l. induction n as [|n IH]; intros [|a l] H; cbn in H; try contradiction.
  destruct H as [H|H]; [left; exact H | right; apply IH; exact H].
Qed.

Section Ucf.
  Variable C : option ictx.
  Notation inf0s := (infer unit (call_static [] []) C).
  Notation inf0 := (infer unit (call_static [] []) C tt).

  Definition canon {S X : Type} (s : S) (r : option (X * tenv * unit)) : option (X * tenv * S) :=
    match r with Some (t, G1, _) => Some (t, G1, s) | None => None end.

  Definition ucf_at (e : pexpr) : Prop :=
    ucf e = true -> forall (S : Type) (call : S -> tenv -> ident -> list ty -> S * option ty) (s : S) G,
      infer S call C s G e = canon s (inf0 G e).

  Lemma thread_ucf l : Forall ucf_at l -> forallb ucf l = true ->
    forall (S : Type) (call : S -> tenv -> ident -> list ty -> S * option ty) (s : S) G,
      thread (infer S call C) s G l = canon s (thread inf0s tt G l).
  Proof.
    induction 1 as [|a l Ha Hl IH]; intros Hu S call s G; cbn [thread]; [reflexivity|].
    cbn [forallb] in Hu. apply andb_true_iff in Hu as [Hua Hul].
    rewrite (Ha Hua S call s G). unfold canon at 1. destruct (inf0 G a) as [[[t G1] []]|]; [|reflexivity].
    rewrite (IH Hul S call s G1). unfold canon. destruct (thread inf0s tt G1 l) as [[[ts G2] []]|]; reflexivity.
  Qed.

  Lemma infer_ucf e : ucf_at e.
  Proof.
    induction e using pexpr_ind'; unfold ucf_at; intros Hu S0 call0 s0 G0; cbn [infer]; try reflexivity.
    - (* EBin *) cbn [ucf] in Hu. apply andb_true_iff in Hu as [Hu1 Hu2].
      rewrite (IHe1 Hu1 S0 call0 s0 G0). unfold canon at 1. destruct (inf0 G0 e1) as [[[lt G1] []]|]; [|reflexivity].
      rewrite (IHe2 Hu2 S0 call0 s0 G1). unfold canon at 1. destruct (inf0 G1 e2) as [[[rt G2] []]|]; [|reflexivity].
      destruct (is_string_ty lt || is_string_ty rt); [reflexivity|].
      destruct (ty_eqb lt TFloat || ty_eqb rt TFloat); reflexivity.
    - (* EUn *) destruct op; try reflexivity; cbn [ucf] in Hu; apply IHe; exact Hu.
    - (* EIfExp *) cbn [ucf] in Hu. apply andb_true_iff in Hu as [Hu1 Hu2].
      rewrite (IHe2 Hu1 S0 call0 s0 G0). unfold canon at 1. destruct (inf0 G0 e2) as [[[lt G1] []]|]; [|reflexivity].
      rewrite (IHe3 Hu2 S0 call0 s0 G1). unfold canon at 1. destruct (inf0 G1 e3) as [[[rt G2] []]|]; reflexivity.
    - (* ECall *) cbn [ucf] in Hu. apply andb_true_iff in Hu as [Hb Hargs].
      rewrite (thread_ucf args H Hargs S0 call0 s0 G0). unfold canon at 1.
      destruct (thread inf0s tt G0 args) as [[[ats G1] []]|]; [|reflexivity].
      destruct (tlookup f builtin_rets); [reflexivity | discriminate Hb].
    - (* EList *) cbn [ucf] in Hu.
      rewrite (thread_ucf es H Hu S0 call0 s0 G0). unfold canon at 1.
      destruct (thread inf0s tt G0 es) as [[[ts G1] []]|]; [|reflexivity].
      destruct (merge_element_types ts); reflexivity.
    - (* ESubscript *) cbn [ucf] in Hu.
      rewrite (IHe1 Hu S0 call0 s0 G0). unfold canon at 1. destruct (inf0 G0 e1) as [[[lt G1] []]|]; reflexivity.
  Qed.

  Lemma infer_rhs_ucf r : ucf_rhs r = true ->
    forall (S : Type) (call : S -> tenv -> ident -> list ty -> S * option ty) (s : S) G,
      infer_rhs S call C s G r = canon s (infer_rhs unit (call_static [] []) C tt G r).
  Proof.
    induction r as [e|t n elt IH]; intros Hu S call s G; cbn [infer_rhs].
    - apply infer_ucf. exact Hu.
    - cbn [ucf_rhs] in Hu. rewrite (IH Hu S call s (tset G t TInt)). unfold canon.
      destruct (infer_rhs unit (call_static [] []) C tt (tset G t TInt) elt) as [[[et G1] []]|]; reflexivity.
  Qed.

  (* the canonical result of the statement-level inference steps *)
  Definition infer_d0 (c : dctx) (e : pexpr) : option (ty * dctx) :=
    match inf0 (d_types c) e with
    | Some (t, G1, _) => Some (t, mk_dctx G1 (d_decl c) (d_promo c))
    | None => None
    end.
  Definition lift {S X : Type} (s : S) (r : option X) : option (X * S) :=
    match r with Some x => Some (x, s) | None => None end.

  Section Inst.
    Variable S : Type.
    Variable call : list ident -> (S * option pmap) -> tenv -> ident -> list ty -> (S * option pmap) * option ty.

    Lemma infer_d_ucf s c e : ucf e = true ->
      infer_d S call C s c e = match infer_d0 c e with Some (t, c1) => Some (t, c1, s) | None => None end.
    Proof.
      intro Hu. unfold infer_d, infer_d0. rewrite (infer_ucf e Hu (S * option pmap)%type (call (d_decl c)) (s, d_promo c) (d_types c)).
      unfold canon. destruct (inf0 (d_types c) e) as [[[t G1] []]|]; reflexivity.
    Qed.

    Lemma infer_rd_ucf s c r : ucf_rhs r = true ->
      infer_rd S call C s c r =
        match infer_rhs unit (call_static [] []) C tt (d_types c) r with
        | Some (t, G1, _) => Some (t, mk_dctx G1 (d_decl c) (d_promo c), s)
        | None => None end.
    Proof.
      intro Hu. unfold infer_rd. rewrite (infer_rhs_ucf r Hu (S * option pmap)%type (call (d_decl c)) (s, d_promo c) (d_types c)).
      unfold canon. destruct (infer_rhs unit (call_static [] []) C tt (d_types c) r) as [[[t G1] []]|]; reflexivity.
    Qed.

    Lemma infer_ds_ucf : forall es s c, forallb ucf es = true ->
      infer_ds S call C s c es =
        match infer_ds unit (call_st [] []) C tt c es with
        | Some (ts, c1, _) => Some (ts, c1, s)
        | None => None end.
    Proof.
      induction es as [|e r IH]; intros s c Hu; cbn [infer_ds]; [reflexivity|].
      cbn [forallb] in Hu. apply andb_true_iff in Hu as [Hue Hur].
      rewrite (infer_d_ucf s c e Hue).
      assert (E0 : infer_d unit (call_st [] []) C tt c e = match infer_d0 c e with Some (t, c1) => Some (t, c1, tt) | None => None end).
      { unfold infer_d, infer_d0.
        rewrite (infer_ucf e Hue (unit * option pmap)%type (call_st [] [] (d_decl c)) (tt, d_promo c) (d_types c)).
        unfold canon. destruct (inf0 (d_types c) e) as [[[t G1] []]|]; reflexivity. }
      rewrite E0. destruct (infer_d0 c e) as [[t c1]|]; [|reflexivity].
      rewrite (IH s c1 Hur). destruct (infer_ds unit (call_st [] []) C tt c1 r) as [[[ts c2] []]|]; reflexivity.
    Qed.
  End Inst.

  Section Stmts.
    Variable S : Type.
    Variable call : list ident -> (S * option pmap) -> tenv -> ident -> list ty -> (S * option pmap) * option ty.
    Notation call0 := (call_st [] []).

    Definition lift2 (s : S) (r : option (unit * bstate)) : option (S * bstate) :=
      match r with Some (_, st1) => Some (s, st1) | None => None end.

    Lemma do_assign_ucf s st x e : ucf e = true ->
      do_assign S call C s st x e = lift2 s (do_assign unit call0 C tt st x e).
    Proof.
      intro Hu. unfold do_assign. rewrite (infer_d_ucf S call s (st_ctx st) e Hu), (infer_d_ucf unit call0 tt (st_ctx st) e Hu).
      destruct (infer_d0 (st_ctx st) e) as [[t c1]|]; [|reflexivity].
      match goal with |- (if ?b then _ else _) = _ => destruct b end; [reflexivity|].
      destruct (tmem x (d_decl c1)); reflexivity.
    Qed.

    Lemma do_assign_r_ucf s st x r : ucf_rhs r = true ->
      do_assign_r S call C s st x r = lift2 s (do_assign_r unit call0 C tt st x r).
    Proof.
      intro Hu. unfold do_assign_r. rewrite (infer_rd_ucf S call s (st_ctx st) r Hu), (infer_rd_ucf unit call0 tt (st_ctx st) r Hu).
      destruct (infer_rhs unit (call_static [] []) C tt (d_types (st_ctx st)) r) as [[[t G1] []]|]; [|reflexivity].
      match goal with |- (if ?b then _ else _) = _ => destruct b end; [reflexivity|].
      match goal with |- (if ?b then _ else _) = _ => destruct b end; reflexivity.
    Qed.

    Lemma do_aug_ucf s st x op e : ucf (EBin op (EName x) e) = true ->
      do_aug S call C s st x op e = lift2 s (do_aug unit call0 C tt st x op e).
    Proof.
      intro Hu. unfold do_aug.
      rewrite (infer_d_ucf S call s (st_ctx st) _ Hu), (infer_d_ucf unit call0 tt (st_ctx st) _ Hu).
      destruct op; try reflexivity; destruct (infer_d0 (st_ctx st) _) as [[t c1]|]; reflexivity.
    Qed.

    Lemma do_return_ucf s st e : match e with Some ex => ucf ex = true | None => True end ->
      do_return S call C s st e = lift2 s (do_return unit call0 C tt st e).
    Proof.
      intro Hu. unfold do_return. destruct (negb (a_fn (st_acc st))); [reflexivity|].
      destruct e as [ex|]; [|reflexivity].
      rewrite (infer_d_ucf S call s (st_ctx st) ex Hu), (infer_d_ucf unit call0 tt (st_ctx st) ex Hu).
      destruct (infer_d0 (st_ctx st) ex) as [[t c1]|]; reflexivity.
    Qed.

    Lemma do_tuple_ucf glob s st xs es : forallb ucf es = true ->
      do_tuple S call C glob s st xs es = lift2 s (do_tuple unit call0 C glob tt st xs es).
    Proof.
      intro Hu. unfold do_tuple.
      destruct (Nat.ltb (length (firstn (length xs) es)) (length xs)); [reflexivity|].
      assert (Hu1 : forallb ucf (firstn (length xs) es) = true).
      { rewrite forallb_forall in *. intros e He. apply Hu. eapply firstn_In_sub; exact He. }
      rewrite (infer_ds_ucf S call _ s (st_ctx st) Hu1).
      destruct (infer_ds unit call0 C tt (st_ctx st) (firstn (length xs) es)) as [[[ts c1] []]|]; [|reflexivity].
      destruct (forallb (fun x => negb (tmem x (d_decl c1))) xs && glob); [reflexivity|].
      destruct (fold_left _ (combine xs ts) (d_decl c1, [])) as [d2 nd]. reflexivity.
    Qed.

    Definition liftb (s : S) (r : option (unit * list dctx * option pmap * acc)) : option (S * list dctx * option pmap * acc) :=
      match r with Some (_, kids, p2, a2) => Some (s, kids, p2, a2) | None => None end.

    Definition R_stmt (x : stmt) : Prop := ucf_stmt x = true -> forall s st,
      run_stmt S call C s st x = lift2 s (run_stmt unit call0 C tt st x).
    Definition R_block (b : block) : Prop := ucf_block b = true -> forall s st,
      run_block S call C s st b = lift2 s (run_block unit call0 C tt st b).
    Definition R_branches (brs : branches) : Prop := ucf_branches brs = true -> forall s base p a,
      run_branches S call C s base p a brs = liftb s (run_branches unit call0 C tt base p a brs).
    Definition R_oblock (o : oblock) : Prop := match o with ONone => True | OSome b => R_block b end.

    Theorem run_ucf :
      (forall x, R_stmt x) /\ (forall b, R_block b) /\ (forall brs, R_branches brs) /\ (forall o, R_oblock o).
    Proof.
      apply stmt_block_mutind.
      - intros x e Hu s st. apply do_assign_ucf. exact Hu.
      - intros x op e Hu s st. apply do_aug_ucf. exact Hu.
      - (* SIf *) intros brs Hbrs els Hels Hu s st. cbn [ucf_stmt] in Hu. apply andb_true_iff in Hu as [Hub Hue].
        rewrite !run_stmt_if. cbv zeta.
        rewrite (Hbrs Hub s (st_ctx st) (d_promo (st_ctx st)) (st_acc st)). unfold liftb.
        destruct (run_branches unit call0 C tt (st_ctx st) (d_promo (st_ctx st)) (st_acc st) brs) as [[[[[] kids] p1] a1]|]; [|reflexivity].
        destruct els as [|b].
        + cbv iota beta. destruct (promote_collect (d_decl (st_ctx st)) kids []); reflexivity.
        + cbn [R_oblock] in Hels. rewrite (Hels Hue s). unfold lift2.
          destruct (run_block unit call0 C tt (mk_bstate (mk_dctx (d_types (st_ctx st)) (d_decl (st_ctx st)) p1) [] a1) b) as [[[] stc]|]; [|reflexivity].
          destruct (promote_collect (d_decl (st_ctx st)) (kids ++ [st_ctx stc]) []); reflexivity.
      - (* SWhile *) intros body Hb Hu s st. cbn [ucf_stmt] in Hu. rewrite !run_stmt_while. cbv zeta.
        rewrite (Hb Hu s). unfold lift2.
        destruct (run_block unit call0 C tt _ body) as [[[] stc]|]; reflexivity.
      - (* SFor *) intros i body Hb Hu s st. cbn [ucf_stmt] in Hu. rewrite !run_stmt_for. cbv zeta.
        rewrite (Hb Hu s). unfold lift2.
        destruct (run_block unit call0 C tt _ body) as [[[] stc]|]; reflexivity.
      - (* SReturn *) intros e Hu s st. apply do_return_ucf. destruct e; [exact Hu | exact I].
      - intros x r Hu s st. apply do_assign_r_ucf. exact Hu.
      - intros xs es Hu s st. apply do_tuple_ucf. exact Hu.
      - intros _ s st. reflexivity.
      - (* BCons *) intros x Hx r Hr Hu s st. cbn [ucf_block] in Hu. apply andb_true_iff in Hu as [Hux Hur].
        rewrite !run_block_cons. rewrite (Hx Hux s st). unfold lift2 at 1.
        destruct (run_stmt unit call0 C tt st x) as [[[] st1]|]; [|reflexivity]. apply Hr. exact Hur.
      - intros _ s base p a. reflexivity.
      - (* BrCons *) intros b Hb r Hr Hu s base p a. cbn [ucf_branches] in Hu. apply andb_true_iff in Hu as [Hub Hur].
        rewrite !run_branches_cons. rewrite (Hb Hub s). unfold lift2.
        destruct (run_block unit call0 C tt (mk_bstate (mk_dctx (d_types base) (d_decl base) p) [] a) b) as [[[] stc]|]; [|reflexivity].
        rewrite (Hr Hur s). unfold liftb.
        destruct (run_branches unit call0 C tt base (share_back (d_promo base) (d_promo (st_ctx stc))) (st_acc stc) r) as [[[[[] kids] p2] a2]|]; reflexivity.
      - exact I.
      - intros b Hb. exact Hb.
    Qed.
  End Stmts.
End Ucf.

(* ------------------------------------------------------------------ _parse_function on a body that calls no user function *)
Lemma aset_setdefault {X} (l : list (ident * X)) k d v : aset (setdefault l k d) k v = aset l k v.
Proof.
  unfold setdefault. destruct (tlookup k l) eqn:E; [reflexivity|].
  induction l as [|[k0 v0] r IH]; cbn.
  - rewrite text_eqb_refl. reflexivity.
  - cbn in E. destruct (text_eqb k k0) eqn:Ek; [discriminate|]. cbn. rewrite Ek. f_equal. apply IH. exact E.
Qed.

Lemma tlookup_aset_new {X} (l : list (ident * X)) k v : tlookup k (aset l k v) = Some v.
Proof. apply tlookup_aset_same. Qed.

Lemma get_setdefault_nil {X} (l : list (ident * list X)) k :
  get_or [] (tlookup k (setdefault l k [])) = get_or [] (tlookup k l).
Proof.
  unfold setdefault. destruct (tlookup k l) eqn:E; [rewrite E; reflexivity|].
  rewrite tlookup_aset_same. reflexivity.
Qed.

Theorem parse_dynamic_is_static C pf fe cur name src forced :
  ucf_block (fs_body src) = true -> fe_err fe = false ->
  parse_function_step C pf fe cur name src forced = parse_function_static C fe cur name src forced.
Proof.
  intros Hu Herr. unfold parse_function_step, parse_function_static.
  destruct (negb match forced with Some sg => Nat.eqb (length sg) (length (fs_params src)) | None => true end); [reflexivity|].
  unfold run_block_s.
  rewrite (proj1 (proj2 (run_ucf C fenv (call_dyn_with pf))) (fs_body src) Hu).
  rewrite (proj1 (proj2 (run_ucf C unit (call_st (match tlookup name (fe_F fe) with Some _ => fe_F fe | None => aset (fe_F fe) name (FVariants []) end) (fe_alias fe))))
             (fs_body src) Hu).
  unfold lift2.
  match goal with |- context [run_block unit (call_st [] []) C tt ?st0 ?b] =>
    destruct (run_block unit (call_st [] []) C tt st0 b) as [[[] st1]|] end; [|reflexivity].
  cbn [fe_err]. rewrite Herr.
  destruct (merge_return_types (a_rets (st_acc st1)) false) as [merged0|]; [|reflexivity].
  cbn [fe_src fe_F fe_alias fe_defs fe_calls fe_primary fe_err fe_refresh].
  change (match tlookup name (fe_F fe) with Some _ => fe_F fe | None => aset (fe_F fe) name (FVariants []) end)
    with (setdefault (fe_F fe) name (FVariants [])).
  rewrite !aset_setdefault, !get_setdefault_nil.
  unfold setdefault. rewrite ?Herr. reflexivity.
Qed.

Theorem parse_core_is_static C fe cur name src forced :
  ucf_block (fs_body src) = true -> fe_err fe = false ->
  parse_function_core C fe cur name src forced = parse_function_static C fe cur name src forced.
Proof. intros Hu He. unfold parse_function_core. cbn [parse_function_fuel]. apply parse_dynamic_is_static; assumption. Qed.

(* ------------------------------------------------------------------ the function theorems, about _parse_function itself *)
Theorem function_result_covers_dyn :
  forall C fe cur name params rets sg fe1 p1 final d rho,
    ucf_block (ret_body rets) = true -> fe_err fe = false ->
    parse_function_core C fe cur name (mk_fsrc params None (ret_body rets)) (Some sg) = Some (fe1, p1, final) ->
    ret_guard (fn_table fe name) (fe_alias fe) C (fn_tenv cur params sg) rets = true ->
    env_sound (fn_tenv cur params sg) rho ->
    sig_lookup final (get_or [] (tlookup name (fe_defs fe1))) = Some d ->
    forall g e v, In (g, e) rets -> peval rho e = Ok v -> crepr (fd_ret d) v.
Proof.
  intros C fe cur name params rets sg fe1 p1 final d rho Hu He Hp.
  rewrite parse_core_is_static in Hp by assumption. exact (function_result_covers _ _ _ _ _ _ _ _ _ _ _ _ Hp).
Qed.

Theorem function_body_covers_dyn :
  forall C fe cur name params body sg fe1 p1 final d orc rho orc1 rho1 tr ret,
    ucf_block body = true -> fe_err fe = false ->
    parse_function_core C fe cur name (mk_fsrc params None body) (Some sg) = Some (fe1, p1, final) ->
    fn_guard (fn_table fe name) (fe_alias fe) C cur params sg body = true ->
    env_lab (d_types (fn_ctx cur params sg)) rho ->
    sig_lookup final (get_or [] (tlookup name (fe_defs fe1))) = Some d ->
    exec_block orc rho body = Ok (orc1, rho1, tr, ret) ->
    Forall (fn_ev d (lab_decls (d_types (fn_ctx cur params sg)))) tr /\
    (forall p c, In (p, c) (fd_params d) -> c = cpp_type (tget (d_types (fn_ctx cur params sg)) p)).
Proof.
  intros C fe cur name params body sg fe1 p1 final d orc rho orc1 rho1 tr ret Hu He Hp.
  rewrite parse_core_is_static in Hp by assumption.
  exact (function_body_covers _ _ _ _ _ _ _ _ _ _ _ _ _ _ _ _ _ Hp).
Qed.

Theorem call_site_typed_from_its_variant_dyn :
  forall C fe cur name src sg fe1 p1 final,
    ucf_block (fs_body src) = true -> fe_err fe = false ->
    sig_lookup sg (get_or [] (tlookup name (fe_alias fe))) = None ->
    parse_function_core C fe cur name src (Some sg) = Some (fe1, p1, final) ->
    resolve_alias (fe_alias fe1) name sg = final /\
    exists d t, sig_lookup final (get_or [] (tlookup name (fe_defs fe1))) = Some d /\
                resolve_call (fe_F fe1) (fe_alias fe1) name sg = Some t /\
                fd_ret d = cpp_type t.
Proof.
  intros C fe cur name src sg fe1 p1 final Hu He Ha Hp.
  rewrite parse_core_is_static in Hp by assumption.
  exact (call_site_typed_from_its_variant _ _ _ _ _ _ _ _ _ Ha Hp).
Qed.

(* the user-function step at a call site (top level or inside a body): when the callee's body calls no user function and
   the signature is new, the callee's variant is parsed on the spot and the call is labelled with ITS return type *)
Theorem nested_call_typed_from_parsed_variant :
  forall C k declared fe p G f sg src,
    tlookup f (fe_src fe) = Some src -> ucf_block (fs_body src) = true -> fe_err fe = false ->
    sig_lookup sg (get_or [] (tlookup f (fe_alias fe))) = None ->
    sig_lookup sg (get_or [] (tlookup f (fe_defs fe))) = None ->
    refreshing fe f sg = false ->
    forall fe2 p2 r,
      call_dyn_with (parse_function_fuel C (Datatypes.S k)) declared (fe, p) G f sg = ((fe2, p2), r) ->
      fe_err fe2 = false ->
      exists d t final, r = Some t /\ resolve_alias (fe_alias fe2) f sg = final /\
                        sig_lookup final (get_or [] (tlookup f (fe_defs fe2))) = Some d /\ fd_ret d = cpp_type t.
Proof.
  intros C k declared fe p G f sg src Hsrc Hu He Ha Hd Hrf fe2 p2 r Hcall Herr2.
  unfold call_dyn_with in Hcall.
  set (fe1 := mk_fenv (fe_src fe) (fe_F fe) (fe_alias fe) (fe_defs fe) _ (fe_primary fe) (fe_err fe) (fe_refresh fe)) in Hcall.
  unfold ensure_variant_with in Hcall.
  assert (Hra : resolve_alias (fe_alias fe1) f sg = sg).
  { unfold resolve_alias. cbn [fe_alias fe1]. destruct (tlookup f (fe_alias fe)) as [m|]; [|reflexivity].
    cbn [get_or] in Ha. rewrite Ha. reflexivity. }
  rewrite Hra in Hcall. cbn [fe_defs fe_src fe1] in Hcall. rewrite Hd, Hsrc in Hcall.
  assert (Hrf1 : refreshing fe1 f sg = false) by exact Hrf. rewrite Hrf1 in Hcall.
  cbn [parse_function_fuel] in Hcall.
  rewrite parse_dynamic_is_static in Hcall by (try exact Hu; exact He).
  match type of Hcall with context [parse_function_static C ?fe0 ?cur0 f src (Some sg)] =>
    destruct (parse_function_static C fe0 cur0 f src (Some sg)) as [[[fe3 p3] final]|] eqn:Ep;
      [pose proof (call_site_typed_from_its_variant C fe0 cur0 f src sg fe3 p3 final) as Hcs|]
  end.
  - cbn [get_or] in Hcall. inversion Hcall; subst fe2 p2 r. clear Hcall.
    destruct (Hcs Ha Ep) as (Hal & d & t & Hdef & Hres & Hret).
    exists d, t, final. cbn [set_refresh fe_alias fe_defs fe_F]. repeat split; assumption.
  - cbn [get_or] in Hcall. inversion Hcall; subst fe2. cbn in Herr2. discriminate.
Qed.

(* ------------------------------------------------------------------ witnesses, about _parse_function itself *)
Lemma debounce_nonvacuous_dyn :
  exists fe1 p1 d,
    parse_function_core None fenv0 empty_ctx z_f (mk_fsrc debounce_params None (ret_body debounce_rets)) (Some [TInt; TInt])
      = Some (fe1, p1, [TInt; TInt]) /\
    ucf_block (ret_body debounce_rets) = true /\
    ret_guard (fn_table fenv0 z_f) (fe_alias fenv0) None (fn_tenv empty_ctx debounce_params [TInt; TInt]) debounce_rets = true /\
    env_sound (fn_tenv empty_ctx debounce_params [TInt; TInt]) debounce_rho /\
    sig_lookup [TInt; TInt] (get_or [] (tlookup z_f (fe_defs fe1))) = Some d /\ fd_ret d = CInt /\
    peval debounce_rho (EBin Add (EName z_count) (EInt 1)) = Ok (VInt 4) /\
    peval debounce_rho (EBool true) = Ok (VBool true).
Proof.
  eexists. eexists. eexists.
  split; [vm_compute; reflexivity|]. split; [vm_compute; reflexivity|]. split; [vm_compute; reflexivity|].
  split; [exact debounce_env_sound|]. split; [vm_compute; reflexivity|].
  split; [reflexivity|]. split; vm_compute; reflexivity.
Qed.

Lemma call_site_nonvacuous_dyn :
  exists ps fe1 p1,
    blend_after_final_first = Some ps /\
    ucf_block (fs_body blend_src) = true /\ fe_err (p_fe ps) = false /\
    sig_lookup [TFloat; TFloat] (get_or [] (tlookup z_blend (fe_defs (p_fe ps)))) <> None /\
    sig_lookup [TInt; TFloat] (get_or [] (tlookup z_blend (fe_alias (p_fe ps)))) = None /\
    parse_function_core None (p_fe ps) (p_ctx ps) z_blend blend_src (Some [TInt; TFloat]) = Some (fe1, p1, [TFloat; TFloat]) /\
    resolve_call (fe_F fe1) (fe_alias fe1) z_blend [TInt; TFloat] = Some TFloat.
Proof.
  eexists. eexists. eexists. split; [vm_compute; reflexivity|].
  split; [vm_compute; reflexivity|]. split; [vm_compute; reflexivity|].
  split; [vm_compute; discriminate|]. split; [vm_compute; reflexivity|].
  split; vm_compute; reflexivity.
Qed.

Lemma demo_function_nonvacuous_dyn :
  exists fe1 d rho1 tr,
    parse_function_core None fenv0 fresh_cur w_x (mk_fsrc fparams None fbody) (Some fsig) = Some (fe1, None, fsig) /\
    ucf_block fbody = true /\
    fn_guard (fn_table fenv0 w_x) (fe_alias fenv0) None fresh_cur fparams fsig fbody = true /\
    env_lab (d_types (fn_ctx fresh_cur fparams fsig)) frho /\
    sig_lookup fsig (get_or [] (tlookup w_x (fe_defs fe1))) = Some d /\
    fd_ret d = CFloat /\ fd_locals d = [(w_w, CInt)] /\ fd_params d = [(w_p, CInt); (w_q, CFloat)] /\
    exec_block foracle frho fbody = Ok ([], rho1, tr, true) /\
    In (TReturn (VFloat 1)) tr /\ In (TAssign w_w (VInt 6)) tr.
Proof.
  eexists. eexists. eexists. eexists.
  split; [vm_compute; reflexivity|]. split; [vm_compute; reflexivity|]. split; [vm_compute; reflexivity|].
  split; [exact frho_lab|].
  split; [vm_compute; reflexivity|]. split; [reflexivity|]. split; [reflexivity|]. split; [reflexivity|].
  split; [vm_compute; reflexivity|]. cbn. tauto.
Qed.

(* def ident(p): return p ; def twice(p): return ident(p) + ident(p) ; x = 2.5 ; a = twice(x) ; b = twice(3):
   the (float) variant of ident is parsed while the (float) variant of twice is being parsed, both are emitted, and
   twice(x) is a float *)
Lemma helper_calls_helper :
  exists ps,
    run_items None hh_prog = Some ps /\
    p_globals ps = [(w_x, CFloat); (w_a, CFloat); (w_b, CInt)] /\
    map (fun nd => (fst nd, fd_params (snd nd), fd_ret (snd nd))) (selected_functions (p_fe ps)) =
      [(n_ident, [(w_p, CInt)], CInt); (n_ident, [(w_p, CFloat)], CFloat);
       (n_twice, [(w_p, CFloat)], CFloat); (n_twice, [(w_p, CInt)], CInt)] /\
    tlookup n_ident (fe_calls (p_fe ps)) = Some [[TInt]; [TFloat]].
Proof. eexists. split; [vm_compute; reflexivity|]. split; [reflexivity|]. split; vm_compute; reflexivity. Qed.

(* ------------------------------------------------------------------ narrower into wider: what the C++ conversion does *)
Definition same_num (v w : pval) : Prop :=
  match as_num v, as_num w with
  | Some a, Some b => Qeq (qof a) (qof b)
  | None, None => v = w
  | _, _ => False
  end.

(* a value of a narrower label (bool < int < float) stored into a variable declared from a wider scalar label is
   converted without loss: the narrower-into-wider stores the declaration bookkeeping tolerates are exact on the device *)
Theorem narrower_store_exact u t v :
  scalar t = true -> sub_ty u t -> repr u v ->
  exists w, c_store (cpp_type t) v = Some w /\ crepr (cpp_type t) w /\ same_num v w.
Proof.
  intros Hs Hsub Hr. pose proof (sub_ty_repr u t v Hsub Hr) as Ht. clear Hsub Hr.
  destruct t; try discriminate Hs; destruct v; cbn in Ht; try contradiction; cbn [cpp_type c_store];
    eexists; (split; [reflexivity|]); (split; [exact I|]); unfold same_num; cbn [as_num qof];
    try reflexivity; try apply Qeq_refl; try (symmetry; apply Qred_correct).
Qed.
