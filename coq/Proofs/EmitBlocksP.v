(* C07, firmware side: a C++ reader of what _emit_block writes gets back the control skeleton
   of the IR - every branch, loop and handler once, in order, around exactly its own lines -
   and the IR built from Python's block tree reads back as Python's block tree. *)
From Coq Require Import ZArith List Bool Lia.
From RV Require Import Base.Wire Base.Text Lang.Lex Lang.EmitBlocks.
Import ListNotations.
Open Scope Z_scope.

(* ================================================================ induction over the IR *)
Section IrInd.
  Variable P : ir -> Prop.
  Hypothesis HL : forall cl, P (ILeaf cl).
  Hypothesis HI : forall brs els, Forall (fun cb => Forall P (snd cb)) brs -> Forall P els -> P (IIf brs els).
  Hypothesis HW : forall c b, Forall P b -> P (IWhile c b).
  Hypothesis HF : forall v n b, Forall P b -> P (IFor v n b).
  Hypothesis HT : forall b hs, Forall P b -> Forall (fun cb => Forall P (snd cb)) hs -> P (ITry b hs).

  Fixpoint ir_ind' (n : ir) : P n :=
    let fix all (l : list ir) : Forall P l :=
      match l with [] => Forall_nil _ | x :: r => Forall_cons x (ir_ind' x) (all r) end in
    let fix allb (l : list (text * list ir)) : Forall (fun cb => Forall P (snd cb)) l :=
      match l with [] => Forall_nil _ | (c, b) :: r => Forall_cons (c, b) (all b) (allb r) end in
    match n with
    | ILeaf cl => HL cl
    | IIf brs els => HI brs els (allb brs) (all els)
    | IWhile c b => HW c b (all b)
    | IFor v k b => HF v k b (all b)
    | ITry b hs => HT b hs (all b) (allb hs)
    end.
End IrInd.

(* ================================================================ unfolding the nested fixpoints *)

Lemma emit_l_eq : forall l ind,
  (fix emit_l (ind : text) (l : list ir) {struct l} : list text :=
     match l with [] => [] | x :: r => emit_ir ind x ++ emit_l ind r end) ind l = emit_list ind l.
Proof. induction l as [|x r IH]; intro ind; cbn; [reflexivity | now rewrite IH]. Qed.

Ltac blk := cbn -[h_if h_else_if h_while h_for h_catch open_line close_line s_else s_try s_two].

Lemma emit_ir_leaf ind cl : emit_ir ind (ILeaf cl) = map (fun l => ind ++ l) cl.
Proof. reflexivity. Qed.

Lemma emit_ir_while ind c b : emit_ir ind (IWhile c b) = emit_blk ind (h_while c) b.
Proof. blk. unfold emit_blk. now rewrite emit_l_eq. Qed.

Lemma emit_ir_for ind v k b : emit_ir ind (IFor v k b) = emit_blk ind (h_for v k) b.
Proof. blk. unfold emit_blk. now rewrite emit_l_eq. Qed.

Lemma emit_go_brs ind : forall brs f,
  (fix go (first : bool) (bs : list (text * list ir)) {struct bs} : list text :=
     match bs with
     | [] => []
     | (c, b) :: r =>
         (open_line ind (if first then h_if c else h_else_if c)
          :: (fix emit_l (ind : text) (l : list ir) {struct l} : list text :=
                match l with [] => [] | x :: r0 => emit_ir ind x ++ emit_l ind r0 end) (ind ++ s_two) b
             ++ [close_line ind]) ++ go false r
     end) f brs = emit_brs ind f brs.
Proof.
  induction brs as [|[c b] r IH]; intro f; [reflexivity|].
  cbn [emit_brs]. unfold emit_blk. rewrite <- IH. rewrite emit_l_eq. reflexivity.
Qed.

Lemma emit_go_hs ind : forall hs,
  (fix go (l : list (text * list ir)) {struct l} : list text :=
     match l with
     | [] => []
     | (c, hb) :: r =>
         (open_line ind (h_catch c)
          :: (fix emit_l (ind : text) (l : list ir) {struct l} : list text :=
                match l with [] => [] | x :: r0 => emit_ir ind x ++ emit_l ind r0 end) (ind ++ s_two) hb
             ++ [close_line ind]) ++ go r
     end) hs = emit_hs ind hs.
Proof.
  induction hs as [|[c b] r IH]; [reflexivity|].
  cbn [emit_hs]. unfold emit_blk. rewrite <- IH. rewrite emit_l_eq. reflexivity.
Qed.

Lemma emit_ir_if ind brs els : emit_ir ind (IIf brs els) = emit_brs ind true brs ++ emit_else ind els.
Proof.
  rewrite <- emit_go_brs. blk. f_equal.
  all: try (destruct els; [reflexivity|]; unfold emit_else, emit_blk; now rewrite emit_l_eq).
Qed.

Lemma emit_ir_try ind b hs : emit_ir ind (ITry b hs) = emit_blk ind s_try b ++ emit_hs ind hs.
Proof.
  rewrite <- emit_go_hs. blk. unfold emit_blk. rewrite emit_l_eq. reflexivity.
Qed.

Lemma irs_eq : forall l,
  (fix irs (l : list ir) {struct l} : list ctree :=
     match l with [] => [] | x :: r => ir_c x ++ irs r end) l = irs_c l.
Proof. induction l as [|x r IH]; cbn; [reflexivity | now rewrite IH]. Qed.

Lemma ir_c_while c b : ir_c (IWhile c b) = [CBlock (h_while c) (irs_c b)].
Proof. blk. now rewrite irs_eq. Qed.
Lemma ir_c_for v k b : ir_c (IFor v k b) = [CBlock (h_for v k) (irs_c b)].
Proof. blk. now rewrite irs_eq. Qed.

Lemma irc_go_brs : forall brs f,
  (fix go (first : bool) (bs : list (text * list ir)) {struct bs} : list ctree :=
     match bs with
     | [] => []
     | (c, b) :: r =>
         CBlock (if first then h_if c else h_else_if c)
           ((fix irs (l : list ir) {struct l} : list ctree :=
               match l with [] => [] | x :: r0 => ir_c x ++ irs r0 end) b) :: go false r
     end) f brs = brs_c f brs.
Proof.
  induction brs as [|[c b] r IH]; intro f; [reflexivity|].
  cbn [brs_c]. rewrite (IH false), irs_eq. reflexivity.
Qed.
Lemma irc_go_hs : forall hs,
  (fix go (l : list (text * list ir)) {struct l} : list ctree :=
     match l with
     | [] => []
     | (c, hb) :: r =>
         CBlock (h_catch c)
           ((fix irs (l : list ir) {struct l} : list ctree :=
               match l with [] => [] | x :: r0 => ir_c x ++ irs r0 end) hb) :: go r
     end) hs = hs_c hs.
Proof.
  induction hs as [|[c b] r IH]; [reflexivity|].
  cbn [hs_c]. rewrite IH, irs_eq. reflexivity.
Qed.

Lemma ir_c_if brs els : ir_c (IIf brs els) = brs_c true brs ++ else_c els.
Proof.
  rewrite <- irc_go_brs. blk. f_equal.
  all: try (destruct els; [reflexivity|]; unfold else_c; now rewrite irs_eq).
Qed.
Lemma ir_c_try b hs : ir_c (ITry b hs) = CBlock s_try (irs_c b) :: hs_c hs.
Proof. rewrite <- irc_go_hs. blk. now rewrite irs_eq. Qed.

Lemma oks_eq : forall l,
  (fix oks (l : list ir) {struct l} : bool :=
     match l with [] => true | x :: r => ir_ok x && oks r end) l = irs_ok l.
Proof. induction l as [|x r IH]; cbn; [reflexivity | now rewrite IH]. Qed.

Lemma ok_go : forall bs,
  (fix go (bs : list (text * list ir)) {struct bs} : bool :=
     match bs with
     | [] => true
     | (_, b) :: r =>
         (fix oks (l : list ir) {struct l} : bool :=
            match l with [] => true | x :: r0 => ir_ok x && oks r0 end) b && go r
     end) bs = brs_ok bs.
Proof.
  induction bs as [|[c b] r IH]; [reflexivity|]. cbn [brs_ok]. rewrite <- IH. now rewrite oks_eq.
Qed.

Lemma ir_ok_while c b : ir_ok (IWhile c b) = irs_ok b.
Proof. cbn. now rewrite oks_eq. Qed.
Lemma ir_ok_for v k b : ir_ok (IFor v k b) = irs_ok b.
Proof. cbn. now rewrite oks_eq. Qed.
Lemma ir_ok_if brs els : ir_ok (IIf brs els) = brs_ok brs && irs_ok els.
Proof. rewrite <- ok_go. cbn. now rewrite oks_eq. Qed.
Lemma ir_ok_try b hs : ir_ok (ITry b hs) = irs_ok b && brs_ok hs.
Proof. rewrite <- ok_go. cbn. now rewrite oks_eq. Qed.

(* ================================================================ classification of the lines the emitter writes *)

Lemma lstrip_blank_app : forall ind t, is_blank ind = true -> lstrip (ind ++ t) = lstrip t.
Proof.
  induction ind as [|c r IH]; intros t H; [reflexivity|].
  cbn in H. apply andb_true_iff in H as [Hc Hr]. cbn. rewrite Hc. now apply IH.
Qed.

Lemma c_class_ind : forall ind l, is_blank ind = true -> c_class (ind ++ l) = c_class l.
Proof. intros ind l H. unfold c_class. now rewrite lstrip_blank_app. Qed.

Lemma c_class_open : forall h, hdr_ok h = true -> c_class (h ++ s_open) = COpen h.
Proof.
  intros [|c r] H; [discriminate|].
  cbn in H. apply andb_true_iff in H as [H H3]. apply andb_true_iff in H as [H1 H2].
  apply negb_true_iff in H1, H2, H3.
  unfold c_class. cbn [app lstrip]. rewrite H1. rewrite H3, H2. cbn [andb].
  change (c :: r ++ s_open) with ((c :: r) ++ s_open).
  unfold s_open. rewrite rev_app_distr. cbn [rev app].
  change (123 =? 123) with true. change (32 =? 32) with true. cbn iota.
  rewrite rev_app_distr, rev_involutive. reflexivity.
Qed.

Lemma c_class_close : c_class s_close = CClose.
Proof. reflexivity. Qed.

Lemma c_step_open ind h fr fs : is_blank ind = true -> hdr_ok h = true ->
  c_step (open_line ind h) (fr :: fs) = Some ((h, []) :: fr :: fs).
Proof. intros Hi Hh. unfold c_step, open_line. rewrite c_class_ind, c_class_open by assumption. reflexivity. Qed.

Lemma c_step_close ind h1 c1 h2 c2 r : is_blank ind = true ->
  c_step (close_line ind) ((h1, c1) :: (h2, c2) :: r) = Some ((h2, CBlock h1 (rev c1) :: c2) :: r).
Proof. intro Hi. unfold c_step, close_line. rewrite c_class_ind, c_class_close by assumption. reflexivity. Qed.

(* ================================================================ the reader is compositional *)

Lemma c_run_app : forall a b fs,
  c_run (a ++ b) fs = match c_run a fs with Some fs' => c_run b fs' | None => None end.
Proof.
  induction a as [|l r IH]; intros b fs; [reflexivity|].
  cbn. destruct (c_step l fs); [apply IH | reflexivity].
Qed.

(* reading inside a bigger context: the bottom frame of [fs] is glued onto (h, cur), above st *)
Fixpoint ext (fs : list frame) (h : text) (cur : list ctree) (st : list frame) : list frame :=
  match fs with
  | [] => (h, cur) :: st
  | [(_, c)] => (h, c ++ cur) :: st
  | f :: r => f :: ext r h cur st
  end.

Lemma ext_push f fs h cur st : fs <> [] -> ext (f :: fs) h cur st = f :: ext fs h cur st.
Proof. destruct fs; [congruence|]. destruct f. reflexivity. Qed.

Lemma ext_nonnil fs h cur st : ext fs h cur st <> [].
Proof. destruct fs as [|[a b] [|g r]]; discriminate. Qed.

Lemma c_step_ext : forall l fs fs' h cur st,
  fs <> [] -> c_step l fs = Some fs' ->
  fs' <> [] /\ c_step l (ext fs h cur st) = Some (ext fs' h cur st).
Proof.
  intros l fs fs' h cur st Hne H. unfold c_step in *.
  destruct (c_class l) as [h'| |s|].
  - (* open *)
    destruct fs as [|f r]; [congruence|]. inversion H; subst. split; [discriminate|].
    rewrite (ext_push (h', [])) by discriminate.
    destruct (ext (f :: r) h cur st) eqn:E; [exfalso; eapply ext_nonnil; eassumption|reflexivity].
  - (* close *)
    destruct fs as [|[h1 c1] [|[h2 c2] r]]; try discriminate. inversion H; subst. split; [discriminate|].
    rewrite (ext_push (h1, c1)) by discriminate.
    destruct r as [|g r]; [reflexivity|].
    rewrite !(ext_push _ (g :: r)) by discriminate. reflexivity.
  - (* plain *)
    destruct fs as [|[h1 c1] r]; [congruence|]. inversion H; subst. split; [discriminate|].
    destruct r as [|g r]; [reflexivity|].
    rewrite !(ext_push _ (g :: r)) by discriminate. reflexivity.
  - inversion H; subst. split; [assumption|]. reflexivity.
Qed.

Lemma c_run_ext : forall ls fs fs' h cur st,
  fs <> [] -> c_run ls fs = Some fs' ->
  c_run ls (ext fs h cur st) = Some (ext fs' h cur st).
Proof.
  induction ls as [|l r IH]; intros fs fs' h cur st Hne H.
  - inversion H; subst. reflexivity.
  - cbn in *. destruct (c_step l fs) as [f1|] eqn:E; [|discriminate].
    destruct (c_step_ext l fs f1 h cur st Hne E) as [Hne1 E1]. rewrite E1. now apply IH.
Qed.

(* [good ls ts]: wherever the lines ls stand, the reader adds the items ts to the open block *)
Definition good (ls : list text) (ts : list ctree) : Prop :=
  forall rest h cur st, c_run (ls ++ rest) ((h, cur) :: st) = c_run rest ((h, rev ts ++ cur) :: st).

Lemma good_nil : good [] [].
Proof. intros rest h cur st. reflexivity. Qed.

Lemma good_app a ta b tb : good a ta -> good b tb -> good (a ++ b) (ta ++ tb).
Proof.
  intros Ha Hb rest h cur st. rewrite <- app_assoc, Ha, Hb, rev_app_distr, <- app_assoc. reflexivity.
Qed.

Lemma good_read ls ts : c_read ls = Some ts -> good ls ts.
Proof.
  unfold c_read.
  destruct (c_run ls [([], [])]) as [[|[d c] [|? ?]]|] eqn:E; intro H; try discriminate.
  intros rest h cur st. inversion H; subst. rewrite rev_involutive.
  rewrite c_run_app.
  pose proof (c_run_ext ls [([], [])] [(d, c)] h cur st ltac:(discriminate) E) as X.
  cbn in X. rewrite X. reflexivity.
Qed.

Lemma good_c_read ls ts : good ls ts -> c_read ls = Some ts.
Proof.
  intro H. unfold c_read. specialize (H [] [] [] []). rewrite (app_nil_r ls) in H. unfold text in *. rewrite H.
  cbn. now rewrite app_nil_r, rev_involutive.
Qed.

Lemma c_run_map_ind ind : is_blank ind = true -> forall cl fs, c_run (map (fun l => ind ++ l) cl) fs = c_run cl fs.
Proof.
  intros Hi. induction cl as [|l r IH]; intro fs; [reflexivity|].
  cbn. unfold c_step. rewrite c_class_ind by assumption. fold (c_step l fs).
  destruct (c_step l fs); [apply IH | reflexivity].
Qed.

Lemma good_leaf ind cl : is_blank ind = true -> leaf_ok cl = true ->
  good (map (fun l => ind ++ l) cl) (leaf_c cl).
Proof.
  intros Hi Hok. unfold leaf_ok in Hok. unfold leaf_c.
  destruct (c_read cl) as [ts|] eqn:E; [|discriminate].
  pose proof (good_read cl ts E) as G.
  intros rest h cur st. rewrite c_run_app, c_run_map_ind, <- c_run_app by assumption. apply G.
Qed.

Lemma good_blk ind h b tb : is_blank ind = true -> hdr_ok h = true ->
  good b tb -> good (open_line ind h :: b ++ [close_line ind]) [CBlock h tb].
Proof.
  intros Hi Hh Hb rest h0 cur st.
  cbn [app c_run]. rewrite c_step_open by assumption.
  rewrite <- app_assoc. rewrite Hb. cbn [app c_run]. rewrite c_step_close by assumption.
  rewrite app_nil_r, rev_involutive. reflexivity.
Qed.

Lemma is_blank_two ind : is_blank ind = true -> is_blank (ind ++ s_two) = true.
Proof. intro H. unfold is_blank in *. rewrite forallb_app, H. reflexivity. Qed.

Lemma hdr_ok_cond kw c : hdr_ok kw = true -> hdr_ok (h_cond kw c) = true.
Proof. destruct kw; [discriminate|]. intro H. exact H. Qed.

(* ================================================================ the emitter *)

Lemma good_list : forall l,
  Forall (fun n => ir_ok n = true -> forall ind, is_blank ind = true -> good (emit_ir ind n) (ir_c n)) l ->
  irs_ok l = true -> forall ind, is_blank ind = true -> good (emit_list ind l) (irs_c l).
Proof.
  induction 1 as [|x r Hx Hr IH]; intros Hok ind Hi; [apply good_nil|].
  cbn in Hok. apply andb_true_iff in Hok as [H1 H2]. cbn [emit_list irs_c].
  apply good_app; [now apply Hx | now apply IH].
Qed.

Lemma good_emit_blk : forall b h ind,
  Forall (fun n => ir_ok n = true -> forall ind, is_blank ind = true -> good (emit_ir ind n) (ir_c n)) b ->
  irs_ok b = true -> is_blank ind = true -> hdr_ok h = true ->
  good (emit_blk ind h b) [CBlock h (irs_c b)].
Proof.
  intros b h ind Hb Hok Hi Hh. unfold emit_blk. apply good_blk; try assumption.
  apply good_list; try assumption. now apply is_blank_two.
Qed.

Lemma good_brs : forall brs first ind,
  Forall (fun cb => Forall (fun n => ir_ok n = true -> forall ind, is_blank ind = true -> good (emit_ir ind n) (ir_c n)) (snd cb)) brs ->
  brs_ok brs = true -> is_blank ind = true -> good (emit_brs ind first brs) (brs_c first brs).
Proof.
  induction brs as [|[c b] r IH]; intros first ind HF Hok Hi; [apply good_nil|].
  inversion HF as [|? ? Hb0 Hr0]; subst. cbn in Hok. apply andb_true_iff in Hok as [Hk1 Hk2].
  cbn [emit_brs brs_c].
  change (CBlock (if first then h_if c else h_else_if c) (irs_c b) :: brs_c false r)
    with ([CBlock (if first then h_if c else h_else_if c) (irs_c b)] ++ brs_c false r).
  apply good_app; [|now apply IH].
  apply good_emit_blk; try assumption. destruct first; reflexivity.
Qed.

Lemma good_hs : forall hs ind,
  Forall (fun cb => Forall (fun n => ir_ok n = true -> forall ind, is_blank ind = true -> good (emit_ir ind n) (ir_c n)) (snd cb)) hs ->
  brs_ok hs = true -> is_blank ind = true -> good (emit_hs ind hs) (hs_c hs).
Proof.
  induction hs as [|[c b] r IH]; intros ind HF Hok Hi; [apply good_nil|].
  inversion HF as [|? ? Hb0 Hr0]; subst. cbn in Hok. apply andb_true_iff in Hok as [Hk1 Hk2].
  cbn [emit_hs hs_c].
  change (CBlock (h_catch c) (irs_c b) :: hs_c r) with ([CBlock (h_catch c) (irs_c b)] ++ hs_c r).
  apply good_app; [|now apply IH].
  apply good_emit_blk; try assumption. reflexivity.
Qed.

Lemma good_ir : forall n, ir_ok n = true -> forall ind, is_blank ind = true -> good (emit_ir ind n) (ir_c n).
Proof.
  induction n as [cl|brs els Hb He|c b Hb|v k b Hb|b hs Hb Hh] using ir_ind'; intros Hok ind Hi.
  - rewrite emit_ir_leaf. now apply good_leaf.
  - rewrite ir_ok_if in Hok. apply andb_true_iff in Hok as [H1 H2].
    rewrite emit_ir_if, ir_c_if. apply good_app; [now apply good_brs|].
    destruct els as [|e er]; [apply good_nil|].
    unfold emit_else, else_c. apply good_emit_blk; try assumption. reflexivity.
  - rewrite ir_ok_while in Hok. rewrite emit_ir_while, ir_c_while.
    apply good_emit_blk; try assumption. reflexivity.
  - rewrite ir_ok_for in Hok. rewrite emit_ir_for, ir_c_for.
    apply good_emit_blk; try assumption. reflexivity.
  - rewrite ir_ok_try in Hok. apply andb_true_iff in Hok as [H1 H2].
    rewrite emit_ir_try, ir_c_try.
    change (CBlock s_try (irs_c b) :: hs_c hs) with ([CBlock s_try (irs_c b)] ++ hs_c hs).
    apply good_app; [|now apply good_hs].
    apply good_emit_blk; try assumption. reflexivity.
Qed.

Lemma good_irs : forall l, irs_ok l = true -> forall ind, is_blank ind = true -> good (emit_list ind l) (irs_c l).
Proof.
  intros l. apply good_list. apply Forall_forall. intros n _. apply good_ir.
Qed.

(* THE EMITTER KEEPS THE BLOCK STRUCTURE: read as C++, the lines _emit_block writes for a node
   list are the compound statements of the nodes, one per branch / loop / handler *)
Theorem emit_block_structure : forall ind ns,
  is_blank ind = true -> irs_ok ns = true ->
  c_read (emit_list ind ns) = Some (irs_c ns).
Proof. intros ind ns Hi Hok. apply good_c_read. now apply good_irs. Qed.

(* ---------------------------------------------------------------- sections of the sketch *)

Lemma good_skip ls : ph_ok ls = true -> good ls [].
Proof.
  induction ls as [|l r IH]; intro H; [apply good_nil|].
  cbn in H. apply andb_true_iff in H as [H1 H2].
  intros rest h cur st. cbn [app c_run]. unfold c_step.
  destruct (c_class l); try discriminate. apply IH. assumption.
Qed.

Lemma good_section hdr ph b : hdr_ok hdr = true -> ph_ok ph = true -> irs_ok b = true ->
  good (emit_section hdr ph b) [CBlock hdr (irs_c b)].
Proof.
  intros Hh Hp Hb. unfold emit_section.
  pose proof (good_irs b Hb s_two eq_refl) as G.
  assert (Gb : good (if is_nil (emit_list s_two b) then ph else emit_list s_two b) (irs_c b)).
  { destruct (emit_list s_two b) as [|x r] eqn:E; cbn [is_nil]; [|exact G].
    pose proof (good_c_read _ _ G) as R. try rewrite E in R.
    change (c_read []) with (@Some (list ctree) []) in R. inversion R as [R1]. now apply good_skip. }
  intros rest h cur st.
  change ((hdr ++ s_open) :: ?x) with (open_line [] hdr :: x).
  replace ((if is_nil (emit_list s_two b) then ph else emit_list s_two b) ++ [s_close; []])
    with (((if is_nil (emit_list s_two b) then ph else emit_list s_two b) ++ [close_line []]) ++ [[]])
    by (rewrite <- app_assoc; reflexivity).
  rewrite app_comm_cons, <- app_assoc.
  rewrite (good_blk [] hdr _ _ eq_refl Hh Gb). reflexivity.
Qed.

Theorem emit_sections_structure : forall ss,
  sections_ok ss = true -> c_read (emit_sections ss) = Some (sections_c ss).
Proof.
  intros ss H. apply good_c_read. induction ss as [|[[h ph] b] r IH]; [apply good_nil|].
  cbn in H. apply andb_true_iff in H as [H H4]. apply andb_true_iff in H as [H H3].
  apply andb_true_iff in H as [H1 H2].
  cbn [emit_sections sections_c].
  change (CBlock h (irs_c b) :: sections_c r) with ([CBlock h (irs_c b)] ++ sections_c r).
  apply good_app; [now apply good_section | now apply IH].
Qed.

(* ================================================================ from Python's block tree *)

Section StreeInd.
  Variable P : stree -> Prop.
  Hypothesis HL : forall s, P (SLeaf s).
  Hypothesis HB : forall k h b, Forall P b -> P (SBlock k h b).
  Fixpoint stree_ind' (t : stree) : P t :=
    let fix all (l : list stree) : Forall P l :=
      match l with [] => Forall_nil _ | x :: r => Forall_cons x (stree_ind' x) (all r) end in
    match t with SLeaf s => HL s | SBlock k h b => HB k h b (all b) end.
End StreeInd.

Section FromPy.
  Variable tr : text -> list (list text).
  Variables cx fv fn ex : text -> text.

  Local Notation conv' := (conv tr cx fv fn ex).
  Local Notation to_ir' := (to_ir tr cx fv fn ex).
  Local Notation group' := (group cx fv fn ex).
  Local Notation gstep := (group_step cx fv fn ex).
  Local Notation py_c' := (py_c tr cx fv fn ex).
  Local Notation py_cs' := (py_cs tr cx fv fn ex).
  Local Notation ok_t := (chain_ok_t tr).
  Local Notation ok_l := (chain_ok tr).
  Local Notation yn := (yields_node tr).

  Lemma convs_eq : forall l,
    (fix convs (l : list stree) {struct l} : list piece :=
       match l with [] => [] | x :: r => conv' x :: convs r end) l = map conv' l.
  Proof. induction l as [|x r IH]; cbn; [reflexivity | now rewrite IH]. Qed.

  Lemma conv_block k h b : conv' (SBlock k h b) = PBlk k h (to_ir' b).
  Proof. cbn. rewrite convs_eq. reflexivity. Qed.

  Lemma pys_eq : forall l,
    (fix pys (l : list stree) {struct l} : list ctree :=
       match l with [] => [] | x :: r => py_c' x ++ pys r end) l = py_cs' l.
  Proof. induction l as [|x r IH]; cbn; [reflexivity | now rewrite IH]. Qed.

  Lemma py_c_block k h b : py_c' (SBlock k h b) =
    match k with
    | KIf => [CBlock (h_if (cx h)) (py_cs' b)]
    | KElif => [CBlock (h_else_if (cx h)) (py_cs' b)]
    | KElse => if existsb yn b then [CBlock s_else (py_cs' b)] else []
    | KTry => [CBlock s_try (py_cs' b)]
    | KExcept => [CBlock (h_catch (ex h)) (py_cs' b)]
    | KWhile => [CBlock (h_while (cx h)) (py_cs' b)]
    | KFor => [CBlock (h_for (fv h) (fn h)) (py_cs' b)]
    end.
  Proof. destruct k; blk; rewrite pys_eq; reflexivity. Qed.

  Lemma okt_eq : forall l p,
    (fix oks (p : prevk) (l : list stree) {struct l} : bool :=
       match l with
       | [] => true
       | x :: r => match x with
                   | SLeaf _ => ok_t x && oks PvNone r
                   | SBlock k _ _ => may_follow p k && ok_t x && oks (after k) r
                   end
       end) p l = ok_l p l.
  Proof.
    induction l as [|x r IH]; intro p; [reflexivity|].
    destruct x; cbn -[chain_ok_t]; now rewrite IH.
  Qed.

  Lemma ok_t_block k h b : ok_t (SBlock k h b) = ok_l PvNone b.
  Proof. cbn. now rewrite okt_eq. Qed.

  Definition pend_c (g : gstate) : list ctree :=
    let '(pb, pe, ph) := g in brs_c false pb ++ else_c pe ++ hs_c ph.
  Definition pend_ok (g : gstate) : bool :=
    let '(pb, pe, ph) := g in brs_ok pb && irs_ok pe && brs_ok ph.
  Definition compat (p : prevk) (g : gstate) : Prop :=
    let '(pb, pe, ph) := g in
    match p with
    | PvNone => pb = [] /\ pe = [] /\ ph = []
    | PvIf => ph = []
    | PvTry => pb = [] /\ pe = []
    end.

  (* what is known about the body of a block once its members are known to be fine *)
  Definition body_fine (b : list stree) : Prop :=
    ok_l PvNone b = true ->
    irs_c (to_ir' b) = py_cs' b /\ irs_ok (to_ir' b) = true /\ is_nil (to_ir' b) = negb (existsb yn b).
  Definition fine (t : stree) : Prop :=
    match t with SLeaf _ => True | SBlock _ _ b => body_fine b end.

  Lemma irs_c_app a b : irs_c (a ++ b) = irs_c a ++ irs_c b.
  Proof. induction a as [|x r IH]; cbn; [reflexivity | now rewrite IH, app_assoc]. Qed.
  Lemma irs_ok_app a b : irs_ok (a ++ b) = irs_ok a && irs_ok b.
  Proof. induction a as [|x r IH]; cbn; [reflexivity | now rewrite IH, andb_assoc]. Qed.
  Lemma irs_c_leaves cls : irs_c (map ILeaf cls) = leaf_cs cls.
  Proof. induction cls as [|c r IH]; cbn; [reflexivity | now rewrite IH]. Qed.
  Lemma irs_ok_leaves cls : irs_ok (map ILeaf cls) = forallb leaf_ok cls.
  Proof. induction cls as [|c r IH]; cbn; [reflexivity | now rewrite IH]. Qed.

  Definition inv (p : prevk) (l : list stree) (acc : gstate * list ir) : Prop :=
    let '(g, out) := acc in
    compat p g /\ py_cs' l = pend_c g ++ irs_c out /\ pend_ok g = true /\ irs_ok out = true
    /\ is_nil out = negb (existsb yn l).

  Lemma else_c_cases b : body_fine b -> ok_l PvNone b = true ->
    (if existsb yn b then [CBlock s_else (py_cs' b)] else []) = else_c (to_ir' b).
  Proof.
    intros Hf Hok. destruct (Hf Hok) as (H1 & _ & H3).
    destruct (to_ir' b) as [|x r] eqn:E; cbn in H3.
    - symmetry in H3. apply negb_true_iff in H3. rewrite H3. reflexivity.
    - symmetry in H3. apply negb_false_iff in H3. rewrite H3. unfold else_c. now rewrite <- H1.
  Qed.

  Lemma group_inv : forall l, Forall fine l -> forall p, ok_l p l = true ->
    inv p l (fold_right gstep (g0, []) (map conv' l)).
  Proof.
    induction 1 as [|x r Hx Hr IH]; intros p Hok.
    - cbn. destruct p; repeat split; reflexivity.
    - cbn [map fold_right].
      destruct x as [s|k h b].
      + (* a simple statement *)
        cbn [chain_ok] in Hok. apply andb_true_iff in Hok as [Hl Hr'].
        specialize (IH PvNone Hr').
        destruct (fold_right gstep (g0, []) (map conv' r)) as [[[pb pe] ph] out].
        destruct IH as ((-> & -> & ->) & I2 & I3 & I4 & I5).
        cbn [conv group_step]. unfold inv, g0. cbn [pend_c brs_c else_c hs_c app pend_ok brs_ok irs_ok andb].
        cbn in I2.
        repeat split.
        * destruct p; repeat split; reflexivity.
        * cbn [py_cs py_c]. rewrite irs_c_app, irs_c_leaves, I2. reflexivity.
        * rewrite irs_ok_app, irs_ok_leaves, I4. cbn in Hl. now rewrite Hl.
        * cbn [existsb yields_node]. destruct (tr s) as [|c cs]; cbn [map app is_nil negb orb]; [exact I5 | reflexivity].
      + (* a block *)
        cbn [chain_ok] in Hok. apply andb_true_iff in Hok as [Hok Hr'].
        apply andb_true_iff in Hok as [Hmf Hb]. rewrite ok_t_block in Hb.
        specialize (IH (after k) Hr').
        rewrite conv_block.
        destruct (fold_right gstep (g0, []) (map conv' r)) as [[[pb pe] ph] out].
        destruct IH as (I1 & I2 & I3 & I4 & I5).
        cbn [fine] in Hx. destruct (Hx Hb) as (B1 & B2 & B3).
        unfold pend_ok in I3. apply andb_true_iff in I3 as [I3 I3c]. apply andb_true_iff in I3 as [I3a I3b].
        destruct k; cbn [after compat] in I1; cbn [group_step]; unfold inv, g0;
          cbn [py_cs]; rewrite py_c_block;
          cbn [existsb yields_node orb negb is_nil].
        * (* if *) subst ph. repeat split.
          -- destruct p; repeat split; reflexivity.
          -- cbn [pend_c brs_c else_c hs_c app irs_c]. rewrite ir_c_if. cbn [brs_c]. rewrite B1, I2.
             cbn [pend_c hs_c app]. rewrite ?app_nil_r, <- ?app_assoc. cbn [app]. reflexivity.
          -- cbn [irs_ok]. rewrite ir_ok_if. cbn [brs_ok]. now rewrite B2, I3a, I3b, I4.
        * (* elif *) destruct p; try discriminate. subst ph. repeat split.
          -- cbn [pend_c brs_c]. rewrite B1, I2. cbn [pend_c hs_c]. reflexivity.
          -- cbn [pend_ok brs_ok]. now rewrite B2, I3a, I3b.
          -- exact I4.
          -- exact I5.
        * (* else *) destruct p; try discriminate. destruct I1 as (-> & -> & ->). repeat split.
          -- cbn [pend_c brs_c hs_c app]. rewrite app_nil_r. rewrite (else_c_cases b Hx Hb). cbn in I2. now rewrite I2.
          -- cbn [pend_ok brs_ok andb]. now rewrite B2.
          -- exact I4.
          -- exact I5.
        * (* try *) destruct I1 as (-> & ->). repeat split.
          -- destruct p; repeat split; reflexivity.
          -- cbn [pend_c brs_c else_c hs_c app irs_c]. rewrite ir_c_try, B1, I2. reflexivity.
          -- cbn [irs_ok]. rewrite ir_ok_try. now rewrite B2, I3c, I4.
        * (* except *) destruct p; try discriminate. destruct I1 as (-> & ->). repeat split.
          -- cbn [pend_c brs_c else_c hs_c app]. rewrite B1, I2. reflexivity.
          -- cbn [pend_ok brs_ok irs_ok andb]. now rewrite B2, I3c.
          -- exact I4.
          -- exact I5.
        * (* while *) destruct I1 as (-> & -> & ->). repeat split.
          -- destruct p; repeat split; reflexivity.
          -- cbn [pend_c brs_c else_c hs_c app irs_c]. rewrite ir_c_while, B1, I2. reflexivity.
          -- cbn [irs_ok]. rewrite ir_ok_while. now rewrite B2, I4.
        * (* for *) destruct I1 as (-> & -> & ->). repeat split.
          -- destruct p; repeat split; reflexivity.
          -- cbn [pend_c brs_c else_c hs_c app irs_c]. rewrite ir_c_for, B1, I2. reflexivity.
          -- cbn [irs_ok]. rewrite ir_ok_for. now rewrite B2, I4.
  Qed.

  Lemma all_fine : forall t, fine t.
  Proof.
    induction t as [s|k h b Hb] using stree_ind'; [exact I|].
    cbn [fine]. intro Hok. pose proof (group_inv b Hb PvNone Hok) as G.
    unfold to_ir, group. destruct (fold_right gstep (g0, []) (map conv' b)) as [[[pb pe] ph] out].
    destruct G as ((-> & -> & ->) & G2 & _ & G4 & G5). cbn [snd]. cbn in G2. auto.
  Qed.

  (* THE IR THE PARSER BUILDS FROM PYTHON'S BLOCK TREE READS BACK AS PYTHON'S BLOCK TREE *)
  Lemma to_ir_structure : forall ns, ok_l PvNone ns = true ->
    irs_c (to_ir' ns) = py_cs' ns /\ irs_ok (to_ir' ns) = true.
  Proof.
    intros ns Hok.
    assert (F : Forall fine ns) by (apply Forall_forall; intros; apply all_fine).
    pose proof (group_inv ns F PvNone Hok) as G.
    unfold to_ir, group. destruct (fold_right gstep (g0, []) (map conv' ns)) as [[[pb pe] ph] out].
    destruct G as ((-> & -> & ->) & G2 & _ & G4 & _). cbn [snd]. cbn in G2. auto.
  Qed.

  (* end to end below the lexical layer: the firmware lines of a block, read as C++, are the
     compound statements Python's block tree prescribes *)
  Theorem firmware_blocks_are_pythons : forall ind ns,
    is_blank ind = true -> ok_l PvNone ns = true ->
    c_read (emit_list ind (to_ir' ns)) = Some (py_cs' ns).
  Proof.
    intros ind ns Hi Hok. destruct (to_ir_structure ns Hok) as [H1 H2].
    rewrite <- H1. now apply emit_block_structure.
  Qed.
End FromPy.
