(* C05 - proofs about Lang/EmitPin.v: the static guard is sound for the executed firmware, whatever the keying;
   the refutation witnesses (unchanged emitter) and why the device name has to be part of the pkey. *)
From Coq Require Import ZArith List Bool Lia.
From RV Require Import Lang.EmitPin.
Import ListNotations.
Open Scope Z_scope.

Lemma pexp_eqb_eq : forall a b, pexp_eqb a b = true -> a = b.
Proof.
  intros a b H; destruct a, b; simpl in H; try discriminate.
  - apply Z.eqb_eq in H; subst; reflexivity.
  - apply Z.eqb_eq in H; subst; reflexivity.
  - apply andb_true_iff in H; destruct H as [H1 H2].
    apply Z.eqb_eq in H1; apply Z.eqb_eq in H2; subst; reflexivity.
Qed.

Lemma pexp_eqb_refl : forall a, pexp_eqb a a = true.
Proof. intros a; destruct a; simpl; rewrite ?Z.eqb_refl; reflexivity. Qed.

(* an assignment to x does not change the value of a text that does not mention x *)
Lemma peval_upd_other : forall x v r e, mentions x e = false -> peval (upd x v r) e = peval r e.
Proof.
  intros x v r e H; destruct e as [z | y | y k]; simpl in *; try reflexivity.
  - rewrite Z.eqb_sym in H. rewrite H. reflexivity.
  - rewrite Z.eqb_sym in H. rewrite H. reflexivity.
Qed.

(* every text in V has its current value configured, with the recorded mode *)
Definition tracks (V : vset) (r : env) (cfg : list (Z * Z)) : Prop :=
  forall e m, In (e, m) V -> In (peval r e, m) cfg.

Lemma tracks_kill : forall V r cfg x v, tracks V r cfg -> tracks (vkill x V) (upd x v r) cfg.
Proof.
  intros V r cfg x v HT e m HIn. unfold vkill in HIn. apply filter_In in HIn. destruct HIn as [HIn Hm].
  simpl in Hm. apply negb_true_iff in Hm. rewrite (peval_upd_other x v r e Hm). apply HT; exact HIn.
Qed.

Lemma tracks_add : forall V r cfg e m, tracks V r cfg -> tracks ((e, m) :: V) r ((peval r e, m) :: cfg).
Proof.
  intros V r cfg e m HT e' m' HIn. destruct HIn as [HEq | HIn].
  - inversion HEq; subst. left; reflexivity.
  - right. apply HT; exact HIn.
Qed.

Lemma vhas_phas : forall V r cfg e w, tracks V r cfg -> vhas V e w = true -> phas cfg (peval r e) w = true.
Proof.
  intros V r cfg e w HT HV. unfold vhas in HV. apply existsb_exists in HV. destruct HV as [[e' m] [HIn HC]].
  simpl in HC. apply andb_true_iff in HC. destruct HC as [HE HM]. apply pexp_eqb_eq in HE. subst e'.
  unfold phas. apply existsb_exists. exists (peval r e, m). split.
  - apply HT; exact HIn.
  - simpl. rewrite Z.eqb_refl. exact HM.
Qed.

(* the soundness of the static guard: for every keying, every pkey set, every environment *)
Lemma static_ok_sound : forall l seen V r cfg,
  tracks V r cfg -> static_ok seen V l = true -> pcbu_go cfg (fw seen r l) = true.
Proof.
  induction l as [| a t IH]; intros seen V r cfg HT HS; simpl; [reflexivity |].
  destruct a as [x e | k e m | e m | e w]; simpl in HS |- *.
  - apply (IH seen (vkill x V)); [apply tracks_kill; exact HT | exact HS].
  - destruct (pkmem k seen) eqn:HK.
    + apply (IH seen V); assumption.
    + simpl. apply (IH (k :: seen) ((e, m) :: V)); [apply tracks_add; exact HT | exact HS].
  - apply (IH seen ((e, m) :: V)); [apply tracks_add; exact HT | exact HS].
  - apply andb_true_iff in HS. destruct HS as [HV HS]. apply andb_true_iff. split.
    + apply (vhas_phas V r cfg e w HT HV).
    + apply (IH seen V); assumption.
Qed.

Lemma pins_tracked_cbu : forall kf p n, pins_tracked kf p n = true -> pcbu (run_sketch kf p n) = true.
Proof.
  intros kf p n H. unfold pcbu, run_sketch. apply (static_ok_sound _ [] [] _ []); [| exact H].
  intros e m HIn; destruct HIn.
Qed.

(* the guard of a longer run covers the shorter run *)
Lemma static_ok_app_l : forall l1 l2 seen V, static_ok seen V (l1 ++ l2) = true -> static_ok seen V l1 = true.
Proof.
  induction l1 as [| a t IH]; intros l2 seen V H; simpl in *; [reflexivity |].
  destruct a as [x e | k e m | e m | e w].
  - apply (IH l2); exact H.
  - destruct (pkmem k seen); apply (IH l2); exact H.
  - apply (IH l2); exact H.
  - apply andb_true_iff in H. destruct H as [H1 H2]. rewrite H1. simpl. apply (IH l2); exact H2.
Qed.

(* ------------------------------------------------------------------ witnesses *)
(* variable 0 = pin; device names 1 = red, 2 = green *)
Definition w_advancing : pprog :=          (* pin = 5; red = Led(pin); red.toggle(); pin += 1; green = Led(pin); green.toggle(); loop: green.toggle() *)
  mkQ [QSet 0 (PLit 5); QDecl QLed 1 [PVar 0]; QCmd 1; QSet 0 (PAdd 0 1); QDecl QLed 2 [PVar 0]; QCmd 2] [QCmd 2].

Definition w_same_name : pprog :=          (* pin = 5; red = Led(pin); pin += 1; red = Led(pin); red.toggle() *)
  mkQ [QSet 0 (PLit 5); QDecl QLed 1 [PVar 0]; QSet 0 (PAdd 0 1); QDecl QLed 1 [PVar 0]; QCmd 1] [QCmd 1].

Definition w_capture : pprog :=            (* pin = 5; red = Led(pin); pin += 1; red.toggle() *)
  mkQ [QSet 0 (PLit 5); QDecl QLed 1 [PVar 0]; QSet 0 (PAdd 0 1); QCmd 1] [QCmd 1].

Definition w_hoisted_buzzer : pprog :=     (* pin = 5; pin += 1; b = Buzzer(pin); b.stop() *)
  mkQ [QSet 0 (PLit 5); QSet 0 (PAdd 0 1); QDecl QBuzzer 1 [PVar 0]; QCmd 1] [QCmd 1].

Definition w_hoisted_looptop : pprog :=    (* pin = 5; pin += 2; while True: g = Led(pin); g.toggle() *)
  mkQ [QSet 0 (PLit 5); QSet 0 (PAdd 0 2)] [QDecl QLed 1 [PVar 0]; QCmd 1].

Definition w_hoisted_motor : pprog :=      (* p = 3; p += 3; m = DCMotor(p, p + 1, p + 2); m.stop() *)
  mkQ [QSet 0 (PLit 3); QSet 0 (PAdd 0 3); QDecl QMotor 1 [PVar 0; PAdd 0 1; PAdd 0 2]; QCmd 1] [QCmd 1].

Definition w_hoisted_button : pprog :=     (* p = 3; p += 3; b = Button(p) *)
  mkQ [QSet 0 (PLit 3); QSet 0 (PAdd 0 3); QDecl QButton 1 [PVar 0]] [].

Lemma advancing_in_guard : pins_tracked kf_real w_advancing 3 = true.
Proof. vm_compute. reflexivity. Qed.

Lemma advancing_trace :
  run_sketch kf_real w_advancing 1 =
  [PCfg 5 1; PUse 5 true; PCfg 6 1; PUse 6 true; PUse 6 true].
Proof. vm_compute. reflexivity. Qed.

(* with the text alone as pkey the same script loses the second pinMode *)
Lemma text_key_refuted :
  exists p n, pins_tracked kf_real p n = true /\ pcbu (run_sketch kf_real p n) = true /\
              pcbu (run_sketch kf_text p n) = false.
Proof. exists w_advancing, 3%nat. vm_compute. repeat split; reflexivity. Qed.

Lemma same_name_refuted : exists p n, pcbu (run_sketch kf_real p n) = false /\ pins_tracked kf_real p n = false.
Proof. exists w_same_name, 1%nat. vm_compute. split; reflexivity. Qed.

Lemma capture_refuted : exists p n, pcbu (run_sketch kf_real p n) = false /\ pins_tracked kf_real p n = false.
Proof. exists w_capture, 1%nat. vm_compute. split; reflexivity. Qed.

Lemma hoisted_refuted :
  forall p, In p [w_hoisted_buzzer; w_hoisted_looptop; w_hoisted_motor; w_hoisted_button] ->
  pcbu (run_sketch kf_real p 1) = false /\ pins_tracked kf_real p 1 = false.
Proof.
  intros p H. simpl in H.
  destruct H as [H | [H | [H | [H | []]]]]; subst p; vm_compute; split; reflexivity.
Qed.
