(* C05 - proofs about Lang/EmitPin.v: the static guard is sound for the executed firmware, whatever the keying;
   the refutation witnesses (unchanged emitter) and why the device name has to be part of the pkey. *)
From Coq Require Import ZArith List Bool Lia.
From RV Require Import Lang.EmitPin.
Import ListNotations.
Open Scope Z_scope.

Lemma pexp_eqb_eq : forall a b, pexp_eqb a b = true -> a = b.
Proof.
  intros a b H; destruct a, b; simpl in H; try discriminate.
  - apply Z.eqb_eq in H; subst; reflexivity.
  - apply Z.eqb_eq in H; subst; reflexivity.
  - apply andb_true_iff in H; destruct H as [H1 H2].
    apply Z.eqb_eq in H1; apply Z.eqb_eq in H2; subst; reflexivity.
Qed.

Lemma pexp_eqb_refl : forall a, pexp_eqb a a = true.
Proof. intros a; destruct a; simpl; rewrite ?Z.eqb_refl; reflexivity. Qed.

(* an assignment to x does not change the value of a text that does not mention x *)
Lemma peval_upd_other : forall x v r e, mentions x e = false -> peval (upd x v r) e = peval r e.
Proof.
  intros x v r e H; destruct e as [z | y | y k]; simpl in *; try reflexivity.
  - rewrite Z.eqb_sym in H. rewrite H. reflexivity.
  - rewrite Z.eqb_sym in H. rewrite H. reflexivity.
Qed.

(* every text in V has its current value configured, with the recorded mode *)
Definition tracks (V : vset) (r : env) (cfg : list (Z * Z)) : Prop :=
  forall e m, In (e, m) V -> In (peval r e, m) cfg.

Lemma tracks_kill : forall V r cfg x v, tracks V r cfg -> tracks (vkill x V) (upd x v r) cfg.
Proof.
  intros V r cfg x v HT e m HIn. unfold vkill in HIn. apply filter_In in HIn. destruct HIn as [HIn Hm].
  simpl in Hm. apply negb_true_iff in Hm. rewrite (peval_upd_other x v r e Hm). apply HT; exact HIn.
Qed.

Lemma tracks_add : forall V r cfg e m, tracks V r cfg -> tracks ((e, m) :: V) r ((peval r e, m) :: cfg).
Proof.
  intros V r cfg e m HT e' m' HIn. destruct HIn as [HEq | HIn].
  - inversion HEq; subst. left; reflexivity.
  - right. apply HT; exact HIn.
Qed.

Lemma vhas_phas : forall V r cfg e w, tracks V r cfg -> vhas V e w = true -> phas cfg (peval r e) w = true.
Proof.
  intros V r cfg e w HT HV. unfold vhas in HV. apply existsb_exists in HV. destruct HV as [[e' m] [HIn HC]].
  simpl in HC. apply andb_true_iff in HC. destruct HC as [HE HM]. apply pexp_eqb_eq in HE. subst e'.
  unfold phas. apply existsb_exists. exists (peval r e, m). split.
  - apply HT; exact HIn.
  - simpl. rewrite Z.eqb_refl. exact HM.
Qed.

(* the soundness of the static guard: for every keying, every pkey set, every environment *)
Lemma static_ok_sound : forall l seen V r cfg,
  tracks V r cfg -> static_ok seen V l = true -> pcbu_go cfg (fw seen r l) = true.
Proof.
  induction l as [| a t IH]; intros seen V r cfg HT HS; simpl; [reflexivity |].
  destruct a as [x e | k e m | e m | e w]; simpl in HS |- *.
  - apply (IH seen (vkill x V)); [apply tracks_kill; exact HT | exact HS].
  - destruct (pkmem k seen) eqn:HK.
    + apply (IH seen V); assumption.
    + simpl. apply (IH (k :: seen) ((e, m) :: V)); [apply tracks_add; exact HT | exact HS].
  - apply (IH seen ((e, m) :: V)); [apply tracks_add; exact HT | exact HS].
  - apply andb_true_iff in HS. destruct HS as [HV HS]. apply andb_true_iff. split.
    + apply (vhas_phas V r cfg e w HT HV).
    + apply (IH seen V); assumption.
Qed.

Lemma pins_tracked_cbu : forall kf p n, pins_tracked kf p n = true -> pcbu (run_sketch kf p n) = true.
Proof.
  intros kf p n H. unfold pcbu, run_sketch. apply (static_ok_sound _ [] [] _ []); [| exact H].
  intros e m HIn; destruct HIn.
Qed.

(* the guard of a longer run covers the shorter run *)
Lemma static_ok_app_l : forall l1 l2 seen V, static_ok seen V (l1 ++ l2) = true -> static_ok seen V l1 = true.
Proof.
  induction l1 as [| a t IH]; intros l2 seen V H; simpl in *; [reflexivity |].
  destruct a as [x e | k e m | e m | e w].
  - apply (IH l2); exact H.
  - destruct (pkmem k seen); apply (IH l2); exact H.
  - apply (IH l2); exact H.
  - apply andb_true_iff in H. destruct H as [H1 H2]. rewrite H1. simpl. apply (IH l2); exact H2.
Qed.

(* ------------------------------------------------------------------ witnesses *)
(* variable 0 = pin; device names 1 = red, 2 = green *)
Definition w_advancing : pprog :=          (* pin = 5; red = Led(pin); red.toggle(); pin += 1; green = Led(pin); green.toggle(); loop: green.toggle() *)
  mkQ [QSet 0 (PLit 5); QDecl QLed 1 [PVar 0]; QCmd 1; QSet 0 (PAdd 0 1); QDecl QLed 2 [PVar 0]; QCmd 2] [QCmd 2].

Definition w_same_name : pprog :=          (* pin = 5; red = Led(pin); pin += 1; red = Led(pin); red.toggle() *)
  mkQ [QSet 0 (PLit 5); QDecl QLed 1 [PVar 0]; QSet 0 (PAdd 0 1); QDecl QLed 1 [PVar 0]; QCmd 1] [QCmd 1].

Definition w_capture : pprog :=            (* pin = 5; red = Led(pin); pin += 1; red.toggle() *)
  mkQ [QSet 0 (PLit 5); QDecl QLed 1 [PVar 0]; QSet 0 (PAdd 0 1); QCmd 1] [QCmd 1].

Definition w_hoisted_buzzer : pprog :=     (* pin = 5; pin += 1; b = Buzzer(pin); b.stop() *)
  mkQ [QSet 0 (PLit 5); QSet 0 (PAdd 0 1); QDecl QBuzzer 1 [PVar 0]; QCmd 1] [QCmd 1].

Definition w_hoisted_looptop : pprog :=    (* pin = 5; pin += 2; while True: g = Led(pin); g.toggle() *)
  mkQ [QSet 0 (PLit 5); QSet 0 (PAdd 0 2)] [QDecl QLed 1 [PVar 0]; QCmd 1].

Definition w_hoisted_motor : pprog :=      (* p = 3; p += 3; m = DCMotor(p, p + 1, p + 2); m.stop() *)
  mkQ [QSet 0 (PLit 3); QSet 0 (PAdd 0 3); QDecl QMotor 1 [PVar 0; PAdd 0 1; PAdd 0 2]; QCmd 1] [QCmd 1].

Definition w_hoisted_button : pprog :=     (* p = 3; p += 3; b = Button(p) *)
  mkQ [QSet 0 (PLit 3); QSet 0 (PAdd 0 3); QDecl QButton 1 [PVar 0]] [].

Lemma advancing_in_guard : pins_tracked kf_real w_advancing 3 = true.
Proof. vm_compute. reflexivity. Qed.

Lemma advancing_trace :
  run_sketch kf_real w_advancing 1 =
  [PCfg 5 1; PUse 5 true; PCfg 6 1; PUse 6 true; PUse 6 true].
Proof. vm_compute. reflexivity. Qed.

(* with the text alone as pkey the same script loses the second pinMode *)
Lemma text_key_refuted :
  exists p n, pins_tracked kf_real p n = true /\ pcbu (run_sketch kf_real p n) = true /\
              pcbu (run_sketch kf_text p n) = false.
Proof. exists w_advancing, 3%nat. vm_compute. repeat split; reflexivity. Qed.

Lemma same_name_refuted : exists p n, pcbu (run_sketch kf_real p n) = false /\ pins_tracked kf_real p n = false.
Proof. exists w_same_name, 1%nat. vm_compute. split; reflexivity. Qed.

Lemma capture_refuted : exists p n, pcbu (run_sketch kf_real p n) = false /\ pins_tracked kf_real p n = false.
Proof. exists w_capture, 1%nat. vm_compute. split; reflexivity. Qed.

Lemma hoisted_refuted :
  forall p, In p [w_hoisted_buzzer; w_hoisted_looptop; w_hoisted_motor; w_hoisted_button] ->
  pcbu (run_sketch kf_real p 1) = false /\ pins_tracked kf_real p 1 = false.
Proof.
  intros p H. simpl in H.
  destruct H as [H | [H | [H | [H | []]]]]; subst p; vm_compute; split; reflexivity.
Qed.

(* ------------------------------------------------------------------ two passes decide every N *)
(* loop() contains no configuration request: declarations at the top of [while True:] are configured in the hoisted
   block, so a pass is assignments and pin accesses only *)
Fixpoint pure (l : list act) : bool :=
  match l with
  | [] => true
  | ASet _ _ :: t => pure t
  | AUse _ _ :: t => pure t
  | _ => false
  end.

(* what a pure pass leaves of V *)
Fixpoint after (l : list act) (V : vset) : vset :=
  match l with
  | ASet x _ :: t => after t (vkill x V)
  | _ :: t => after t V
  | [] => V
  end.

Lemma vkill_comm : forall x y V, vkill x (vkill y V) = vkill y (vkill x V).
Proof.
  intros x y V. unfold vkill. induction V as [| c V IH]; simpl; [reflexivity |].
  destruct (negb (mentions y (fst c))) eqn:Hy; destruct (negb (mentions x (fst c))) eqn:Hx; simpl;
    rewrite ?Hy, ?Hx; simpl; rewrite IH; reflexivity.
Qed.

Lemma vkill_idem : forall x V, vkill x (vkill x V) = vkill x V.
Proof.
  intros x V. unfold vkill. induction V as [| c V IH]; simpl; [reflexivity |].
  destruct (negb (mentions x (fst c))) eqn:Hx; simpl; rewrite ?Hx; simpl; rewrite IH; reflexivity.
Qed.

Lemma after_vkill : forall l x V, after l (vkill x V) = vkill x (after l V).
Proof.
  induction l as [| a t IH]; intros x V; simpl; [reflexivity |].
  destruct a as [y e | k e m | e m | e w]; try apply IH.
  rewrite vkill_comm. apply IH.
Qed.

Lemma after_idem : forall l V, after l (after l V) = after l V.
Proof.
  induction l as [| a t IH]; intros V; simpl; [reflexivity |].
  destruct a as [y e | k e m | e m | e w]; try apply IH.
  rewrite after_vkill, IH, after_vkill, vkill_idem. reflexivity.
Qed.

Lemma static_ok_pure_app : forall l1 l2 seen V, pure l1 = true ->
  static_ok seen V (l1 ++ l2) = static_ok seen V l1 && static_ok seen (after l1 V) l2.
Proof.
  induction l1 as [| a t IH]; intros l2 seen V HP; simpl in *; [reflexivity |].
  destruct a as [x e | k e m | e m | e w]; try discriminate.
  - apply IH; exact HP.
  - rewrite (IH l2 seen V HP). rewrite andb_assoc. reflexivity.
Qed.

Lemma pure_app : forall a b, pure a = true -> pure b = true -> pure (a ++ b) = true.
Proof.
  induction a as [| x t IH]; intros b HA HB; simpl in *; [exact HB |].
  destruct x; try discriminate; apply IH; assumption.
Qed.

Lemma repeat_two_all : forall P seen n V, pure P = true ->
  static_ok seen V P = true -> static_ok seen (after P V) P = true ->
  static_ok seen V (repeat_acts n P) = true.
Proof.
  intros P seen n. induction n as [| n IH]; intros V HP H1 H2; simpl; [reflexivity |].
  rewrite (static_ok_pure_app P _ seen V HP). rewrite H1. simpl.
  apply IH; [exact HP | exact H2 | rewrite after_idem; exact H2].
Qed.

Lemma pure_uses_w : forall pins, pure (uses_w pins) = true.
Proof. induction pins as [| e r IH]; simpl; [reflexivity | exact IH]. Qed.

Lemma pure_cmd_uses : forall b, pure (cmd_uses b) = true.
Proof.
  intros [[nm k] pins]. unfold cmd_uses. simpl.
  destruct k; try apply pure_uses_w; try reflexivity.
  destruct pins as [| t [| e r]]; reflexivity.
Qed.

Lemma pure_lower_loop : forall kf all_rev l tab, pure (fst (lower kf all_rev false tab l)) = true.
Proof.
  intros kf all_rev. induction l as [| s r IH]; intros tab; simpl; [reflexivity |].
  destruct s as [x e | k nm pins | nm].
  - specialize (IH tab). destruct (lower kf all_rev false tab r) as [t tb]. simpl in *. exact IH.
  - specialize (IH (rebind all_rev (nm, k, pins) :: tab)).
    destruct (lower kf all_rev false (rebind all_rev (nm, k, pins) :: tab) r) as [t tb]. simpl in *. exact IH.
  - specialize (IH tab). destruct (lower kf all_rev false tab r) as [t tb]. simpl in *.
    apply pure_app; [| exact IH]. destruct (find_b nm tab); [apply pure_cmd_uses | reflexivity].
Qed.

Lemma pure_qpolls : forall all_rev, pure (qpolls all_rev) = true.
Proof.
  intros all_rev. unfold qpolls.
  induction (fold_right insert_z [] (button_names [] all_rev)) as [| nm r IH]; simpl; [reflexivity |].
  apply pure_app; [| exact IH].
  destruct (find_b nm all_rev) as [[[n k] pins] |]; [| reflexivity].
  destruct k; try reflexivity. destruct pins; reflexivity.
Qed.

(* the state of the tracker after a prefix *)
Fixpoint st_after (seen : list pkey) (V : vset) (l : list act) : list pkey * vset :=
  match l with
  | [] => (seen, V)
  | ASet x _ :: t => st_after seen (vkill x V) t
  | AReq k e m :: t => if pkmem k seen then st_after seen V t else st_after (k :: seen) ((e, m) :: V) t
  | ACfg e m :: t => st_after seen ((e, m) :: V) t
  | AUse _ _ :: t => st_after seen V t
  end.

Lemma static_ok_app : forall l1 l2 seen V,
  static_ok seen V (l1 ++ l2) =
  static_ok seen V l1 && static_ok (fst (st_after seen V l1)) (snd (st_after seen V l1)) l2.
Proof.
  induction l1 as [| a t IH]; intros l2 seen V; simpl; [reflexivity |].
  destruct a as [x e | k e m | e m | e w].
  - apply IH.
  - destruct (pkmem k seen); apply IH.
  - apply IH.
  - rewrite IH. rewrite andb_assoc. reflexivity.
Qed.

Lemma sketch_shape : forall kf p n, exists H P, pure P = true /\ sketch kf p n = H ++ repeat_acts n P /\
  sketch kf p 2 = H ++ repeat_acts 2 P.
Proof.
  intros kf p n. unfold sketch.
  set (all_rev := rev (qdecls (q_pre p) ++ qdecls (q_loop p))).
  destruct (qhoist_pre kf [] (q_pre p)) as [h1 bi].
  set (tab0 := map (rebind all_rev) (rev (qdecls (q_pre p)) ++ qdecls (q_loop p))).
  destruct (lower kf all_rev true tab0 (q_pre p)) as [a1 tab1].
  pose proof (pure_lower_loop kf all_rev (q_loop p) tab1) as HPL.
  destruct (lower kf all_rev false tab1 (q_loop p)) as [a2 tb2]. simpl in HPL.
  exists (h1 ++ qhoist_loop kf bi (q_loop p) ++ a1), (qpolls all_rev ++ a2).
  split; [apply pure_app; [apply pure_qpolls | exact HPL] |].
  split; rewrite <- !app_assoc; reflexivity.
Qed.

(* the guard evaluated for two passes decides it for every number of passes *)
Lemma pins_tracked_two_all : forall kf p n, pins_tracked kf p 2 = true -> pins_tracked kf p n = true.
Proof.
  intros kf p n H2. unfold pins_tracked in *.
  destruct (sketch_shape kf p n) as [H [P [HP [En E2]]]]. rewrite En. rewrite E2 in H2.
  rewrite static_ok_app in H2 |- *. apply andb_true_iff in H2. destruct H2 as [HH H2]. rewrite HH. simpl.
  destruct (st_after [] [] H) as [s V]. simpl in *.
  rewrite (static_ok_pure_app P _ s V HP) in H2. apply andb_true_iff in H2. destruct H2 as [H21 H22].
  rewrite app_nil_r in H22.
  apply repeat_two_all; assumption.
Qed.

Lemma pins_cbu_all_passes : forall kf p, pins_tracked kf p 2 = true -> forall n, pcbu (run_sketch kf p n) = true.
Proof. intros kf p H n. apply pins_tracked_cbu. apply pins_tracked_two_all. exact H. Qed.

(* ------------------------------------------------------------------ where the name in the key is NOT needed *)
(* In a stretch of text without assignments (the hoisted block at the top of setup() is one) the same text has the same
   value, so de-duplicating on (text, mode) alone loses no configuration: every request is honoured by an executed
   pinMode with its numeric pin.  The device name in emit()'s keys matters only across assignments. *)
Fixpoint noset (l : list act) : bool :=
  match l with [] => true | ASet _ _ :: _ => false | _ :: t => noset t end.

Fixpoint text_keyed (l : list act) : bool :=
  match l with
  | [] => true
  | AReq k e m :: t => pkey_eqb k (0, e, m) && text_keyed t
  | _ :: t => text_keyed t
  end.

Fixpoint cfg_of (cfg : list (Z * Z)) (t : list pev) : list (Z * Z) :=
  match t with
  | [] => cfg
  | PCfg p m :: t' => cfg_of ((p, m) :: cfg) t'
  | PUse _ _ :: t' => cfg_of cfg t'
  end.

Lemma cfg_of_mono : forall t cfg x, In x cfg -> In x (cfg_of cfg t).
Proof.
  induction t as [| e t IH]; intros cfg x H; simpl; [exact H |].
  destruct e; apply IH; [right; exact H | exact H].
Qed.

Lemma pkey_eqb_eq : forall a b, pkey_eqb a b = true -> a = b.
Proof.
  intros [[n1 e1] t1] [[n2 e2] t2] H. unfold pkey_eqb in H. simpl in H.
  apply andb_true_iff in H. destruct H as [H H3]. apply andb_true_iff in H. destruct H as [H1 H2].
  apply Z.eqb_eq in H1. apply Z.eqb_eq in H3. apply pexp_eqb_eq in H2. subst. reflexivity.
Qed.

Lemma pkmem_in : forall k seen, pkmem k seen = true -> In k seen.
Proof.
  intros k seen H. unfold pkmem in H. apply existsb_exists in H. destruct H as [k' [HIn HE]].
  apply pkey_eqb_eq in HE. subst. exact HIn.
Qed.

Lemma text_key_honours_requests : forall l seen r cfg,
  noset l = true -> text_keyed l = true ->
  (forall e m, In (0, e, m) seen -> In (peval r e, m) cfg) ->
  forall k e m, In (AReq k e m) l -> In (peval r e, m) (cfg_of cfg (fw seen r l)).
Proof.
  induction l as [| a t IH]; intros seen r cfg HN HT HI k e m HIn; [destruct HIn |].
  destruct a as [x e0 | k0 e0 m0 | e0 m0 | e0 w0]; simpl in HN, HT; try discriminate.
  - apply andb_true_iff in HT. destruct HT as [HK HT]. apply pkey_eqb_eq in HK. subst k0. simpl.
    destruct (pkmem (0, e0, m0) seen) eqn:HM.
    + destruct HIn as [HEq | HIn].
      * inversion HEq; subst. apply cfg_of_mono. apply HI. apply pkmem_in. exact HM.
      * apply (IH seen r cfg HN HT HI k e m HIn).
    + simpl.
      assert (HI' : forall e1 m1, In (0, e1, m1) ((0, e0, m0) :: seen) -> In (peval r e1, m1) ((peval r e0, m0) :: cfg)).
      { intros e1 m1 [HEq | HS]; [inversion HEq; subst; left; reflexivity | right; apply HI; exact HS]. }
      destruct HIn as [HEq | HIn].
      * inversion HEq; subst. apply cfg_of_mono. left; reflexivity.
      * apply (IH ((0, e0, m0) :: seen) r _ HN HT HI' k e m HIn).
  - simpl. destruct HIn as [HEq | HIn]; [discriminate |].
    apply (IH seen r ((peval r e0, m0) :: cfg) HN HT) with (k := k); [| exact HIn].
    intros e1 m1 HS. right. apply HI; exact HS.
  - simpl. destruct HIn as [HEq | HIn]; [discriminate |].
    apply (IH seen r cfg HN HT HI k e m HIn).
Qed.
