(* Proofs about Lang/EmitScope.v: C++ block scoping of the text _emit_block produces. *)
From Coq Require Import ZArith List Bool Lia.
From RV Require Import Base.Wire Base.Text Base.TextC Lang.EmitScope.
Import ListNotations.
Open Scope Z_scope.

(* ------------------------------------------------------------------ names *)
Lemma cname_eqb_eq a b : cname_eqb a b = true <-> a = b.
Proof.
  split.
  - destruct a, b; simpl; intro H; try discriminate.
    + apply text_eqb_eq in H. now subst.
    + apply text_eqb_eq in H. now subst.
    + apply andb_true_iff in H. destruct H as [Ha Hb]. apply text_eqb_eq in Ha. apply Z.eqb_eq in Hb. now subst.
    + apply text_eqb_eq in H. now subst.
  - intro H. subst b. destruct a; simpl; rewrite ?text_eqb_refl, ?Z.eqb_refl; reflexivity.
Qed.

Lemma cmem_In a l : cmem a l = true <-> In a l.
Proof.
  induction l as [|b r IH]; simpl.
  - split; [discriminate | tauto].
  - rewrite orb_true_iff, IH, cname_eqb_eq. split; intros [H | H]; auto.
Qed.

Lemma cmem_false a l : cmem a l = false <-> ~ In a l.
Proof.
  rewrite <- cmem_In. destruct (cmem a l); split; intro H; try reflexivity; try discriminate.
  exfalso. now apply H.
Qed.

Lemma cnodup_NoDup l : cnodup l = true <-> NoDup l.
Proof.
  induction l as [|a r IH]; simpl.
  - split; [constructor | reflexivity].
  - rewrite andb_true_iff, negb_true_iff, cmem_false, IH. split.
    + intros [H1 H2]. now constructor.
    + intro H. inversion H; subst. now split.
Qed.

(* ------------------------------------------------------------------ scan: the scope stack *)
Lemma scan_app stk a b :
  scan stk (a ++ b) = match scan stk a with Some s => scan s b | None => None end.
Proof.
  revert stk. induction a as [|t r IH]; intro stk; simpl.
  - reflexivity.
  - destruct t as [h| |x].
    + destruct (cnodup h); [apply IH | reflexivity].
    + destruct stk as [|s0 [|s1 u]]; try reflexivity. apply IH.
    + destruct stk as [|top u]; [reflexivity|]. destruct (cmem x top); [reflexivity | apply IH].
Qed.

Lemma scan_nonempty l : forall stk s, stk <> [] -> scan stk l = Some s -> s <> [].
Proof.
  induction l as [|t r IH]; intros stk s Hne H; simpl in H.
  - inversion H. now subst.
  - destruct t as [h| |x].
    + destruct (cnodup h); [|discriminate]. eapply IH; [|exact H]. discriminate.
    + destruct stk as [|s0 [|s1 u]]; try discriminate. eapply IH; [|exact H]. discriminate.
    + destruct stk as [|top u]; [discriminate|]. destruct (cmem x top); [discriminate|].
      eapply IH; [|exact H]. discriminate.
Qed.

(* a segment that leaves every non-empty scope stack as it found it can be inserted or removed anywhere *)
Lemma closed_segment_invisible seg :
  (forall stk, stk <> [] -> scan stk seg = Some stk) ->
  forall stk a b, stk <> [] -> scan stk (a ++ seg ++ b) = scan stk (a ++ b).
Proof.
  intros Hc stk a b Hne. rewrite (scan_app stk a (seg ++ b)), (scan_app stk a b).
  destruct (scan stk a) as [s|] eqn:E; [|reflexivity].
  rewrite scan_app, Hc; [reflexivity|]. eapply scan_nonempty; eauto.
Qed.

Lemma first_redecl_sound l : forall stk s, scan stk l = Some s -> first_redecl stk l = None.
Proof.
  induction l as [|t r IH]; intros stk s H; simpl in *.
  - reflexivity.
  - destruct t as [h| |x].
    + destruct (cnodup h); [|discriminate]. eapply IH; eauto.
    + destruct stk as [|s0 [|s1 u]]; try discriminate. simpl. eapply IH; eauto.
    + destruct stk as [|top u]; [discriminate|]. destruct (cmem x top); [discriminate|]. eapply IH; eauto.
Qed.

(* ------------------------------------------------------------------ the templates are closed *)
Lemma template_closed st n : is_template n = true ->
  forall top u, scan (top :: u) (snd (emit_node st n)) = Some (top :: u).
Proof.
  intros H top u.
  destruct n as [ |x|h| |b|l|l| | | | | | | | | | | | | |e|du|a b|a|k]; try discriminate H;
    try (vm_compute; reflexivity).
  - destruct e; vm_compute; reflexivity.
  - destruct du; vm_compute; reflexivity.
  - destruct a, b; vm_compute; reflexivity.
  - destruct a; vm_compute; reflexivity.
  - destruct k; vm_compute; reflexivity.
Qed.

Lemma template_state st n : is_template n = true ->
  e_glyph (fst (emit_node st n)) = e_glyph st /\ e_buttons (fst (emit_node st n)) = e_buttons st.
Proof.
  intro H. destruct n; try discriminate H; simpl; auto.
  - destruct empty; auto.
  - destruct known; auto.
Qed.

Lemma buttons_const st n : e_buttons (fst (emit_node st n)) = e_buttons st.
Proof.
  destruct n; simpl; auto.
  - destruct (tmem l (e_lcds st)); reflexivity.
  - destruct empty; auto.
  - destruct known; auto.
Qed.

Lemma emit_block_cons st n r :
  emit_block st (n :: r) =
  (fst (emit_block (fst (emit_node st n)) r), snd (emit_node st n) ++ snd (emit_block (fst (emit_node st n)) r)).
Proof.
  simpl. destruct (emit_node st n) as [s1 t1]. simpl. destruct (emit_block s1 r) as [s2 t2]. reflexivity.
Qed.

(* any sequence of device calls, in any block, with any state of the emitter: well scoped, and the enclosing
   scopes are left exactly as they were *)
Lemma templates_block l : forall st stk, stk <> [] -> forallb is_template l = true ->
  scan stk (snd (emit_block st l)) = Some stk.
Proof.
  induction l as [|n r IH]; intros st stk Hne H.
  - reflexivity.
  - simpl in H. apply andb_true_iff in H. destruct H as [Hn Hr].
    rewrite emit_block_cons. simpl. rewrite scan_app.
    destruct stk as [|top u]; [contradiction|].
    rewrite template_closed by exact Hn. apply IH; [discriminate | exact Hr].
Qed.

(* ------------------------------------------------------------------ user declarations decide *)
Definition is_user (x : cname) : bool :=
  match x with CUser _ | CBtnNext _ => true | _ => false end.

Definition uview (stk : list (list cname)) : list (list cname) := map (filter is_user) stk.

(* every glyph name in scope carries a counter the emitter has already passed *)
Definition glyph_bounded (st : est) (stk : list (list cname)) : Prop :=
  forall sc l k, In sc stk -> In (CGlyph l k) sc -> k <= counter l (e_glyph st).

Lemma cmem_filter_user a l : is_user a = true -> cmem a (filter is_user l) = cmem a l.
Proof.
  intro Ha. induction l as [|b r IH]; simpl; [reflexivity|].
  destruct (is_user b) eqn:Eb; simpl.
  - now rewrite IH.
  - rewrite IH. destruct (cname_eqb a b) eqn:E; [|reflexivity].
    apply cname_eqb_eq in E. subst. congruence.
Qed.

Lemma filter_user_map h : filter is_user (map CUser h) = map CUser h.
Proof. induction h as [|x r IH]; simpl; [reflexivity | now rewrite IH]. Qed.

Definition user_tok_b (btns : list text) (n : node) : list tok :=
  match n with
  | NVarDecl x => [TDecl (CUser x)]
  | NOpen h => [TOpen (map CUser h)]
  | NClose => [TClose]
  | NButtonPoll b => if tmem b btns then [TDecl (CBtnNext b)] else []
  | _ => []
  end.

Lemma user_tok_eq st n : user_tok st n = user_tok_b (e_buttons st) n.
Proof. destruct n; reflexivity. Qed.

Lemma user_proj_eq st l : user_proj st l = flat_map (user_tok_b (e_buttons st)) l.
Proof. unfold user_proj. apply flat_map_ext. intro n. apply user_tok_eq. Qed.

Lemma glyph_bounded_same st st' stk :
  e_glyph st' = e_glyph st -> glyph_bounded st stk -> glyph_bounded st' stk.
Proof. intros E H sc l k H1 H2. rewrite E. eapply H; eauto. Qed.

Lemma counter_cons_same l k g : counter l ((l, k) :: g) = k.
Proof. simpl. now rewrite text_eqb_refl. Qed.

Lemma counter_cons_other l m k g : l <> m -> counter l ((m, k) :: g) = counter l g.
Proof.
  intro H. simpl. destruct (text_eqb l m) eqn:E; [|reflexivity].
  apply text_eqb_eq in E. contradiction.
Qed.

(* the simulation: if the script's own declarations (local variables, for variables, catch targets, button
   polls) are free of redeclaration, so is the emitted text - whatever device calls stand between them *)
Lemma emit_simulates l : forall st stk btns us',
  stk <> [] -> glyph_bounded st stk -> btns = e_buttons st ->
  scan (uview stk) (flat_map (user_tok_b btns) l) = Some us' ->
  exists stk', scan stk (snd (emit_block st l)) = Some stk' /\ uview stk' = us' /\
               glyph_bounded (fst (emit_block st l)) stk'.
Proof.
  induction l as [|n r IH]; intros st stk btns us' Hne Hg Hb H.
  - simpl in *. inversion H; subst. exists stk. auto.
  - rewrite emit_block_cons. simpl fst. simpl snd. rewrite scan_app.
    simpl flat_map in H. rewrite scan_app in H.
    assert (Hb' : btns = e_buttons (fst (emit_node st n))) by (rewrite buttons_const; exact Hb).
    destruct (is_template n) eqn:Et.
    + (* a device call: invisible on both sides *)
      destruct stk as [|top u]; [contradiction|].
      rewrite template_closed by exact Et.
      assert (Hu : user_tok_b btns n = []) by (destruct n; try discriminate Et; reflexivity).
      rewrite Hu in H. simpl in H.
      eapply IH; eauto.
      eapply glyph_bounded_same; [|exact Hg]. apply template_state. exact Et.
    + destruct n as [ |x|h| |b|l0|l0| | | | | | | | | | | | | |e|du|a b0|a|k]; try discriminate Et.
      * (* NVarDecl *)
        destruct stk as [|top u]; [contradiction|].
        simpl in *. rewrite cmem_filter_user in H by reflexivity.
        destruct (cmem (CUser x) top) eqn:Em; [discriminate|].
        eapply (IH st ((CUser x :: top) :: u)); eauto; [discriminate|].
        intros sc l k [Hs | Hs] Hi.
        -- subst sc. destruct Hi as [Hi | Hi]; [discriminate|]. eapply Hg; [left; reflexivity | exact Hi].
        -- eapply Hg; [right; exact Hs | exact Hi].
      * (* NOpen *)
        simpl in *. destruct (cnodup (map CUser h)) eqn:En; [|discriminate].
        eapply (IH st (map CUser h :: stk)); eauto; [discriminate| |].
        -- intros sc l k [Hs | Hs] Hi.
           ++ subst sc. apply in_map_iff in Hi. destruct Hi as [y [Hy _]]. discriminate.
           ++ eapply Hg; eauto.
        -- unfold uview in *. simpl. rewrite filter_user_map. exact H.
      * (* NClose *)
        simpl in *. destruct stk as [|s0 [|s1 u]]; simpl in H; try discriminate.
        eapply (IH st (s1 :: u)); eauto; [discriminate|].
        intros sc l k Hs Hi. eapply Hg; [right; exact Hs | exact Hi].
      * (* NButtonPoll *)
        simpl in *. rewrite <- Hb. destruct (tmem b btns) eqn:Eb.
        -- destruct stk as [|top u]; [contradiction|].
           simpl in *. rewrite cmem_filter_user in H by reflexivity.
           destruct (cmem (CBtnNext b) top) eqn:Em; [discriminate|].
           eapply (IH st ((CBtnNext b :: top) :: u)); eauto; [discriminate|].
           intros sc l k [Hs | Hs] Hi.
           ++ subst sc. destruct Hi as [Hi | Hi]; [discriminate|]. eapply Hg; [left; reflexivity | exact Hi].
           ++ eapply Hg; [right; exact Hs | exact Hi].
        -- simpl in *. eapply IH; eauto.
      * (* NGlyph *)
        simpl in H. simpl emit_node. destruct (tmem l0 (e_lcds st)) eqn:El.
        -- simpl fst. simpl snd.
           destruct stk as [|top u]; [contradiction|].
           set (k := counter l0 (e_glyph st) + 1).
           assert (Hm : cmem (CGlyph l0 k) top = false).
           { apply cmem_false. intro Hi. specialize (Hg top l0 k (or_introl eq_refl) Hi). unfold k in Hg. lia. }
           simpl. rewrite Hm.
           eapply (IH _ ((CGlyph l0 k :: top) :: u)); eauto; [discriminate|].
           intros sc l j Hs Hi. simpl e_glyph.
           assert (Hold : forall sc', In sc' (top :: u) -> In (CGlyph l j) sc' -> j <= counter l ((l0, k) :: e_glyph st)).
           { intros sc' Hs' Hi'. specialize (Hg sc' l j Hs' Hi').
             destruct (text_eqb l l0) eqn:E.
             - apply text_eqb_eq in E. subst l. rewrite counter_cons_same. unfold k. lia.
             - rewrite counter_cons_other; [exact Hg|]. intro C. subst. rewrite text_eqb_refl in E. discriminate. }
           destruct Hs as [Hs | Hs].
           ++ subst sc. destruct Hi as [Hi | Hi].
              ** inversion Hi; subst. rewrite counter_cons_same. lia.
              ** apply (Hold top); [left; reflexivity | exact Hi].
           ++ apply (Hold sc); [right; exact Hs | exact Hi].
        -- simpl. eapply IH; eauto.
Qed.

Lemma uview_length stk : length (uview stk) = length stk.
Proof. apply map_length. Qed.

(* a function body (setup, loop, a user function) *)
Lemma emit_fn_ok st params l :
  fn_ok (map CUser params) (user_proj st l) = true ->
  fn_ok (map CUser params) (snd (emit_block st l)) = true.
Proof.
  intro H. unfold fn_ok in *. apply andb_true_iff in H. destruct H as [Hp H].
  rewrite Hp. simpl.
  destruct (scan [map CUser params] (user_proj st l)) as [us'|] eqn:E; [|discriminate].
  rewrite user_proj_eq in E.
  destruct (emit_simulates l st [map CUser params] (e_buttons st) us') as [stk' [H1 [H2 _]]].
  - discriminate.
  - intros sc l0 k [Hs | []] Hi. subst sc. apply in_map_iff in Hi. destruct Hi as [y [Hy _]]. discriminate.
  - reflexivity.
  - unfold uview. simpl. rewrite filter_user_map. exact E.
  - rewrite H1. destruct us' as [|a [|b0 r0]]; try discriminate.
    destruct stk' as [|s0 [|s1 u]]; try discriminate; reflexivity.
Qed.

(* ------------------------------------------------------------------ witnesses *)
Lemma demo_ok :
  fn_ok [] (user_proj demo_state demo_block) = true /\
  fn_ok [] (snd (emit_block demo_state demo_block)) = true /\
  length (snd (emit_block demo_state demo_block)) = 51%nat /\
  map render (flat_map (fun t => match t with TDecl (CGlyph l k) => [CGlyph l k] | _ => [] end) (snd (emit_block demo_state demo_block)))
    = demo_glyph_names.
Proof. vm_compute. repeat split; reflexivity. Qed.

Lemma unwrapped_invert_breaks :
  scan [[]] (snd (emit_block_with emit_node_unwrapped_invert demo_state [NMotorInvert])) = Some [drive_scope] /\
  scan [[]] (snd (emit_block_with emit_node_unwrapped_invert demo_state [NMotorInvert; NPlain; NMotorInvert])) = None /\
  option_map render (first_redecl [[]] (snd (emit_block_with emit_node_unwrapped_invert demo_state [NMotorInvert; NPlain; NMotorInvert]))) = Some name_redu_speed /\
  scan [[]] (snd (emit_block demo_state [NMotorInvert; NPlain; NMotorInvert])) = Some [[]].
Proof. vm_compute. repeat split; reflexivity. Qed.
