(* C10 - proofs about Lang/EmitSession.v *)
From Coq Require Import ZArith List Bool String Lia.
From RV Require Import Base.Wire Base.Text Lang.Order Lang.EmitSession.
Import ListNotations.
Open Scope Z_scope.

Lemma mask_idem v : mask (mask v) = mask v.
Proof. unfold mask. rewrite <- Z.land_assoc. reflexivity. Qed.

Lemma map_mask_idem l : map mask (map mask l) = map mask l.
Proof. rewrite map_map. apply map_ext. intro a. apply mask_idem. Qed.

(* a Program whose fields are faithful lists: emit() yields the text of the script and leaves the Program as it was *)
Lemma emit_nodes_faithful mk (Hmk : faithful mk) : forall src c,
  emit_nodes c (parse_with mk src) = (spec_nodes c src, parse_with mk src).
Proof.
  induction src as [|s q IH]; intro c; [reflexivity|].
  destruct s as [lcd slot rows|t]; cbn [parse_with map parse_node emit_nodes spec_nodes].
  - destruct (Hmk rows) as [l' [E M]]. rewrite E. cbn [iter].
    change (map (parse_node mk) q) with (parse_with mk q). rewrite IH. rewrite M. reflexivity.
  - change (map (parse_node mk) q) with (parse_with mk q). rewrite IH. reflexivity.
Qed.

Lemma emit_faithful mk (Hmk : faithful mk) src : emit (parse_with mk src) = (spec_emit src, parse_with mk src).
Proof. apply emit_nodes_faithful. exact Hmk. Qed.

Lemma slookup_cons_same i p st : slookup i ((i, p) :: st) = Some p.
Proof. cbn. rewrite Nat.eqb_refl. reflexivity. Qed.

Definition store_inv (mk : list Z -> seqv) (srcs : list (list snode)) (st : estore) (parsed : list nat) : Prop :=
  forall j, slookup j st = if nmem j parsed then option_map (parse_with mk) (nth_error srcs j) else None.

Lemma esession_faithful mk (Hmk : faithful mk) srcs : forall ops st parsed,
  store_inv mk srcs st parsed -> esession mk srcs ops st = espec srcs ops parsed.
Proof.
  induction ops as [|op r IH]; intros st parsed Hinv; [reflexivity|].
  destruct op as [i|i]; cbn [esession espec].
  - destruct (nth_error srcs i) as [s|] eqn:Es; [|apply IH; exact Hinv].
    apply IH. intro j. cbn [slookup nmem existsb].
    destruct (Nat.eqb j i) eqn:Eji.
    + apply Nat.eqb_eq in Eji. subst j. cbn. rewrite Es. reflexivity.
    + cbn. apply Hinv.
  - rewrite (Hinv i). destruct (nmem i parsed) eqn:Em.
    + destruct (nth_error srcs i) as [s|] eqn:Es; cbn [option_map].
      * rewrite (emit_faithful mk Hmk). f_equal. apply IH.
        intro j. cbn [slookup]. destruct (Nat.eqb j i) eqn:Eji.
        -- apply Nat.eqb_eq in Eji. subst j. rewrite Em, Es. reflexivity.
        -- apply Hinv.
      * f_equal. apply IH. exact Hinv.
    + f_equal. apply IH. exact Hinv.
Qed.

(* every sequence of parse() / emit() calls, from an empty process *)
Theorem emit_session_stateless : forall mk srcs ops, faithful mk -> esession mk srcs ops [] = espec srcs ops [].
Proof.
  intros mk srcs ops Hmk. apply esession_faithful; [exact Hmk|]. intro j. reflexivity.
Qed.

(* in particular: emit() of one Program any number of times *)
Corollary emit_repeatable : forall mk src n, faithful mk ->
  esession mk [src] (EParse 0 :: repeat (EEmit 0) n) [] = repeat (Some (spec_emit src)) n.
Proof.
  intros mk src n Hmk. rewrite emit_session_stateless by exact Hmk. cbn [espec nth_error].
  induction n as [|n IH]; [reflexivity|]. cbn [repeat espec nmem existsb Nat.eqb orb nth_error option_map]. f_equal. exact IH.
Qed.

Lemma faithful_list : faithful mk_list.
Proof. intro l. exists l. split; reflexivity. Qed.

Lemma faithful_masked_list : faithful mk_masked_list.
Proof. intro l. exists (map mask l). split; [reflexivity|apply map_mask_idem]. Qed.

Lemma faithful_plain : faithful (mk_of false).
Proof. exact faithful_list. Qed.

(* non-vacuity: a session that emits one Program three times, with another parse()/emit() in between *)
Lemma emit_session_nonvacuous :
  faithful mk_masked_list /\
  esession mk_masked_list [w_src; [SOther (txt "x")]] [EParse 0; EEmit 0; EParse 1; EEmit 0; EEmit 1; EEmit 0] [] =
    [Some (spec_emit w_src); Some (spec_emit w_src); Some [OText (txt "x")]; Some (spec_emit w_src)] /\
  spec_emit w_src = [OText (txt "begin"); OGlyph n_lcd 1 (txt "0") [0; 10; 31; 31; 14; 4; 0; 0]; OGlyph n_lcd 2 (txt "1") [4; 14; 31; 4; 4; 4; 4; 0]].
Proof. split; [exact faithful_masked_list|]. split; vm_compute; reflexivity. Qed.

(* ---------------------------------------------------------------- a one-shot field *)
Lemma one_shot_witness :
  esession mk_masked_gen [w_src] [EParse 0; EEmit 0; EEmit 0] [] =
    [Some (spec_emit w_src);
     Some [OText (txt "begin"); OGlyph n_lcd 1 (txt "0") []; OGlyph n_lcd 2 (txt "1") []]] /\
  espec [w_src] [EParse 0; EEmit 0; EEmit 0] [] = [Some (spec_emit w_src); Some (spec_emit w_src)].
Proof. split; vm_compute; reflexivity. Qed.

Theorem one_shot_refutes : exists srcs ops, esession mk_masked_gen srcs ops [] <> espec srcs ops [].
Proof.
  exists [w_src], [EParse 0; EEmit 0; EEmit 0]. destruct one_shot_witness as [H1 H2]. rewrite H1, H2.
  vm_compute. discriminate.
Qed.

(* any non-empty one-shot field, any script around it: the second emit() of the Program differs from the first *)
Theorem one_shot_second_emit_differs : forall lcd slot v rows,
  let p := [EGlyph lcd slot (OneShot (v :: rows))] in
  fst (emit (snd (emit p))) <> fst (emit p).
Proof. intros lcd slot v rows p. subst p. cbn. discriminate. Qed.

(* ... while the FIRST emit() of every Program is right: sessions that parse afresh before every emit() cannot see it *)
Lemma emit_nodes_masked_gen_first : forall src c,
  fst (emit_nodes c (parse_with mk_masked_gen src)) = spec_nodes c src.
Proof.
  induction src as [|s q IH]; intro c; [reflexivity|].
  destruct s as [lcd slot rows|t]; cbn [parse_with map parse_node emit_nodes spec_nodes mk_masked_gen iter].
  - change (map (parse_node mk_masked_gen) q) with (parse_with mk_masked_gen q).
    specialize (IH ((lcd, count_of c lcd + 1) :: c)).
    destruct (emit_nodes ((lcd, count_of c lcd + 1) :: c) (parse_with mk_masked_gen q)) as [o q'].
    cbn [fst] in *. rewrite IH, map_mask_idem. reflexivity.
  - change (map (parse_node mk_masked_gen) q) with (parse_with mk_masked_gen q).
    specialize (IH c). destruct (emit_nodes c (parse_with mk_masked_gen q)) as [o q']. cbn [fst] in *. rewrite IH. reflexivity.
Qed.

Theorem one_shot_invisible_to_parse_emit_flows : forall srcs is,
  (forall i, In i is -> (i < List.length srcs)%nat) ->
  forall st parsed, esession mk_masked_gen srcs (once_each is) st = espec srcs (once_each is) parsed.
Proof.
  intros srcs is. induction is as [|i r IH]; intros Hlt st parsed; [reflexivity|].
  cbn [once_each flat_map app]. change (flat_map (fun i => [EParse i; EEmit i]) r) with (once_each r).
  assert (Hi : (i < List.length srcs)%nat) by (apply Hlt; left; reflexivity).
  cbn [esession espec].
  destruct (nth_error srcs i) as [s|] eqn:Es; [|apply nth_error_None in Es; lia].
  cbn [esession espec]. rewrite slookup_cons_same.
  cbn [nmem existsb]. rewrite Nat.eqb_refl. cbn [orb option_map].
  unfold emit. pose proof (emit_nodes_masked_gen_first s []) as Hf.
  destruct (emit_nodes [] (parse_with mk_masked_gen s)) as [o p']. cbn [fst] in Hf. rewrite Hf.
  f_equal. apply IH. intros j Hj. apply Hlt. right. exact Hj.
Qed.
