(* C07 - statement nodes are written whatever the de-duplication sets of the emitter hold. *)
From Coq Require Import ZArith List Bool Lia.
From RV Require Import Base.Wire Base.Text Lang.Lex Lang.EmitBlocks Lang.EmitStmt.
Import ListNotations.
Open Scope Z_scope.

Section SnInd.
  Variable P : sn -> Prop.
  Hypothesis HS : forall cl, P (SStmt cl).
  Hypothesis HD : forall us pins tail, P (SDecl us pins tail).
  Hypothesis HR : forall cl, P (SRaw cl).
  Hypothesis HC : forall opt h kids, Forall P kids -> P (SCtl opt h kids).
  Fixpoint sn_ind' (n : sn) : P n :=
    let fix all (l : list sn) : Forall P l :=
      match l with [] => Forall_nil _ | x :: r => Forall_cons x (sn_ind' x) (all r) end in
    match n with
    | SStmt cl => HS cl
    | SDecl a b c => HD a b c
    | SRaw cl => HR cl
    | SCtl o h k => HC o h k (all k)
    end.
End SnInd.

(* ---------------------------------------------------------------- unfolding the nested fixpoints *)

Lemma emit_go_eq b : forall l ind st,
  (fix go (l : list sn) (st : sets) {struct l} : list text * sets :=
     match l with
     | [] => ([], st)
     | x :: r => let '(a, s1) := emit_sn b ind x st in
                 let '(c, s2) := go r s1 in (a ++ c, s2)
     end) l st = emit_sl b ind l st.
Proof.
  induction l as [|x r IH]; intros ind st; cbn [emit_sl]; [reflexivity|].
  destruct (emit_sn b ind x st) as [a s1]. rewrite IH. reflexivity.
Qed.

Lemma res_go_eq b : forall l st,
  (fix go (l : list sn) (st : sets) {struct l} : list sn * sets :=
     match l with
     | [] => ([], st)
     | x :: r => let '(a, s1) := res b x st in
                 let '(c, s2) := go r s1 in (a :: c, s2)
     end) l st = res_l b l st.
Proof.
  induction l as [|x r IH]; intro st; cbn [res_l]; [reflexivity|].
  destruct (res b x st) as [a s1]. rewrite IH. reflexivity.
Qed.

Lemma emit_sn_ctl b ind opt h kids st :
  emit_sn b ind (SCtl opt h kids) st =
  if opt && is_nil kids then ([], st)
  else let '(ls, st') := emit_sl b (ind ++ s_two) kids st in (open_line ind h :: ls ++ [close_line ind], st').
Proof. cbn [emit_sn]. rewrite emit_go_eq. reflexivity. Qed.

Lemma res_ctl b opt h kids st :
  res b (SCtl opt h kids) st = let '(k', st') := res_l b kids st in (SCtl opt h k', st').
Proof. cbn [res]. rewrite res_go_eq. reflexivity. Qed.

Lemma is_nil_map {A B} (f : A -> B) l : is_nil (map f l) = is_nil l.
Proof. destruct l; reflexivity. Qed.

Lemma res_l_length b : forall l st, length (fst (res_l b l st)) = length l.
Proof.
  induction l as [|x r IH]; intro st; cbn [res_l]; [reflexivity|].
  destruct (res b x st) as [a s1]. specialize (IH s1). destruct (res_l b r s1) as [c s2]. cbn in *. now rewrite IH.
Qed.

Lemma is_nil_res_l b l st : is_nil (fst (res_l b l st)) = is_nil l.
Proof.
  destruct l as [|x r]; [reflexivity|]. cbn [res_l].
  destruct (res b x st) as [a s1]. destruct (res_l b r s1) as [c s2]. reflexivity.
Qed.

(* ---------------------------------------------------------------- emitting = resolving, then writing *)

Lemma emit_is_resolve_then_write b : forall n ind st,
  emit_sn b ind n st = (emit_p ind (fst (res b n st)), snd (res b n st)).
Proof.
  induction n as [cl | us pins tail | cl | opt h kids IH] using sn_ind'; intros ind st.
  - reflexivity.
  - cbn [emit_sn res]. destruct (decl_out b us pins tail st) as [ls st']. reflexivity.
  - reflexivity.
  - rewrite emit_sn_ctl, res_ctl.
    assert (HL : forall ind st, emit_sl b ind kids st
                 = (emit_pl ind (fst (res_l b kids st)), snd (res_l b kids st))).
    { clear ind st. induction IH as [|x r Hx _ IHr]; intros ind st; [reflexivity|].
      cbn [emit_sl res_l]. rewrite Hx. destruct (res b x st) as [a s1]. cbn [fst snd].
      rewrite IHr. destruct (res_l b r s1) as [c s2]. reflexivity. }
    rewrite HL. pose proof (is_nil_res_l b kids st) as Hn.
    destruct kids as [|k0 kr].
    + cbn. destruct opt; reflexivity.
    + destruct (res_l b (k0 :: kr) st) as [k' st']. cbn [fst snd] in *.
      cbn [emit_p]. rewrite Hn. cbn [is_nil]. rewrite andb_false_r. reflexivity.
Qed.

Lemma emit_list_is_resolve_then_write b : forall l ind st,
  emit_sl b ind l st = (emit_pl ind (fst (res_l b l st)), snd (res_l b l st)).
Proof.
  induction l as [|x r IH]; intros ind st; [reflexivity|].
  cbn [emit_sl res_l]. rewrite emit_is_resolve_then_write. destruct (res b x st) as [a s1]. cbn [fst snd].
  rewrite IH. destruct (res_l b r s1) as [c s2]. reflexivity.
Qed.

(* ---------------------------------------------------------------- resolving touches no statement *)

Lemma res_keeps_statements b : forall n st, stmt_only (fst (res b n st)) = stmt_only n.
Proof.
  induction n as [cl | us pins tail | cl | opt h kids IH] using sn_ind'; intro st.
  - reflexivity.
  - cbn [res]. destruct (decl_out b us pins tail st). reflexivity.
  - reflexivity.
  - rewrite res_ctl.
    assert (HL : forall st, map stmt_only (fst (res_l b kids st)) = map stmt_only kids).
    { clear st. induction IH as [|x r Hx _ IHr]; intro st; [reflexivity|].
      cbn [res_l]. specialize (Hx st). destruct (res b x st) as [a s1]. specialize (IHr s1).
      destruct (res_l b r s1) as [c s2]. cbn in *. now rewrite Hx, IHr. }
    specialize (HL st). destruct (res_l b kids st) as [k' st']. cbn in *. now rewrite HL.
Qed.

Lemma res_l_keeps_statements b : forall l st, map stmt_only (fst (res_l b l st)) = map stmt_only l.
Proof.
  induction l as [|x r IH]; intro st; [reflexivity|].
  cbn [res_l]. pose proof (res_keeps_statements b x st) as Hx. destruct (res b x st) as [a s1].
  specialize (IH s1). destruct (res_l b r s1) as [c s2]. cbn in *. now rewrite Hx, IH.
Qed.

(* ---------------------------------------------------------------- sub-sequences *)

Lemma sub_refl {A} (l : list A) : sub l l.
Proof. induction l; [apply sub_nil | apply sub_take; assumption]. Qed.

Lemma sub_app {A} (a b c d : list A) : sub a b -> sub c d -> sub (a ++ c) (b ++ d).
Proof.
  induction 1 as [l | a x l _ IH | a x l _ IH]; intro H; cbn.
  - induction l; cbn; [assumption | now apply sub_skip].
  - apply sub_skip. now apply IH.
  - apply sub_take. now apply IH.
Qed.

Lemma sub_count (t : text) a l : sub a l -> (count_line t a <= count_line t l)%nat.
Proof. induction 1; cbn; lia. Qed.

Lemma statements_sub_written : forall n ind, sub (emit_p ind (stmt_only n)) (emit_p ind n).
Proof.
  induction n as [cl | us pins tail | cl | opt h kids IH] using sn_ind'; intro ind; cbn [stmt_only emit_p].
  - apply sub_refl.
  - constructor.
  - cbn. constructor.
  - rewrite is_nil_map. destruct (opt && is_nil kids); [constructor|].
    apply sub_take. apply sub_app; [|apply sub_refl].
    induction IH as [|x r Hx _ IHr]; cbn; [constructor|]. apply sub_app; [apply Hx | apply IHr].
Qed.

Lemma statements_sub_written_l : forall l ind, sub (emit_pl ind (map stmt_only l)) (emit_pl ind l).
Proof.
  induction l as [|x r IH]; intro ind; cbn; [constructor|].
  apply sub_app; [apply statements_sub_written | apply IH].
Qed.

(* THE theorem: in every state of the two sets, inside and outside setup(), the lines of every statement
   node and of every stanza are in what _emit_block writes, in order *)
Lemma statement_lines_written_in_every_state : forall b st ind ns,
  sub (emit_pl ind (map stmt_only ns)) (fst (emit_sl b ind ns st)).
Proof.
  intros. rewrite emit_list_is_resolve_then_write. cbn [fst].
  rewrite <- (res_l_keeps_statements b ns st). apply statements_sub_written_l.
Qed.

(* hence a line is written at least as often as statements ask for it *)
Lemma statement_line_count : forall b st ind ns t,
  (count_line t (emit_pl ind (map stmt_only ns)) <= count_line t (fst (emit_sl b ind ns st)))%nat.
Proof. intros. apply sub_count, statement_lines_written_in_every_state. Qed.

(* a tree without device declarations is written the same in every state, and leaves the sets alone *)
Lemma no_decl_state_independent b : forall n ind st, no_decl n = true -> emit_sn b ind n st = (emit_p ind n, st).
Proof.
  induction n as [cl | us pins tail | cl | opt h kids IH] using sn_ind'; intros ind st Hn; try reflexivity.
  - discriminate.
  - rewrite emit_sn_ctl. cbn [emit_p]. destruct (opt && is_nil kids); [reflexivity|].
    assert (HL : forall ind st, emit_sl b ind kids st = (flat_map (emit_p ind) kids, st)).
    { cbn [no_decl] in Hn. clear ind st. induction IH as [|x r Hx _ IHr]; intros ind st; [reflexivity|].
      cbn in Hn. apply andb_true_iff in Hn as [H1 H2].
      cbn [emit_sl flat_map]. rewrite (Hx ind st H1), (IHr H2). reflexivity. }
    rewrite HL. reflexivity.
Qed.

Lemma no_decl_list_state_independent b : forall l ind st, forallb no_decl l = true -> emit_sl b ind l st = (emit_pl ind l, st).
Proof.
  induction l as [|x r IH]; intros ind st H; [reflexivity|].
  cbn in H. apply andb_true_iff in H as [H1 H2].
  cbn [emit_sl]. rewrite (no_decl_state_independent b x ind st H1), (IH ind st H2). reflexivity.
Qed.

(* outside setup() a declaration writes nothing and both sets stay as they are *)
Lemma outside_setup_sets_unchanged : forall l ind st, snd (emit_sl false ind l st) = st.
Proof.
  intros l ind st. rewrite emit_list_is_resolve_then_write. cbn [snd].
  revert st. induction l as [|x r IH]; intro st; [reflexivity|].
  cbn [res_l].
  assert (Hx : forall n st, snd (res false n st) = st).
  { clear. induction n as [cl | us pins tail | cl | opt h kids IH] using sn_ind'; intro st; try reflexivity.
    rewrite res_ctl.
    assert (HL : forall st, snd (res_l false kids st) = st).
    { induction IH as [|x r Hx _ IHr]; intro st0; [reflexivity|]. cbn [res_l].
      specialize (Hx st0). destruct (res false x st0) as [a s1]. cbn in Hx. subst s1.
      specialize (IHr st0). destruct (res_l false r st0) as [c s2]. exact IHr. }
    specialize (HL st). destruct (res_l false kids st) as [k' st']. exact HL. }
  specialize (Hx x st). destruct (res false x st) as [a s1]. cbn in Hx. subst s1.
  specialize (IH st). destruct (res_l false r st) as [c s2]. exact IH.
Qed.

(* in setup() a pinMode line of a declaration is written iff its key is new *)
Lemma pins_out_known k l r s : kmem k s = true -> pins_out ((k, l) :: r) s = pins_out r s.
Proof. intro H. cbn. now rewrite H. Qed.
Lemma pins_out_new k l r s : kmem k s = false ->
  pins_out ((k, l) :: r) s = (l :: fst (pins_out r (k :: s)), snd (pins_out r (k :: s))).
Proof. intro H. cbn. rewrite H. destruct (pins_out r (k :: s)). reflexivity. Qed.

(* ---------------------------------------------------------------- the shape at stake *)
(* setup(): led = Led(13); pin_mode(7, OUTPUT); pin_mode(7, INPUT); pin_mode(7, OUTPUT); if (a) { pin_mode(7, INPUT) } *)
Definition l_pm13 := [112;105;110;77;111;100;101;40;49;51;44;32;79;85;84;80;85;84;41;59].   (* pinMode(13, OUTPUT); *)
Definition l_out7 := [112;105;110;77;111;100;101;40;55;44;32;79;85;84;80;85;84;41;59].      (* pinMode(7, OUTPUT); *)
Definition l_in7 := [112;105;110;77;111;100;101;40;55;44;32;73;78;80;85;84;41;59].          (* pinMode(7, INPUT); *)
Definition k_led : key := [[108;101;100]; [49;51]].
Definition h_a := [105;102;32;40;97;41].                                                     (* if (a) *)
Definition ex_setup : list sn :=
  [SDecl false [(k_led, l_pm13)] []; SStmt [l_out7]; SStmt [l_in7]; SStmt [l_out7]; SCtl false h_a [SStmt [l_in7]]].

Lemma repeated_pin_mode_written :
  fst (emit_sl true s_two ex_setup ([], []))
  = [s_two ++ l_pm13; s_two ++ l_out7; s_two ++ l_in7; s_two ++ l_out7;
     s_two ++ h_a ++ s_open; s_two ++ s_two ++ l_in7; s_two ++ s_close]
  /\ count_line (s_two ++ l_out7) (fst (emit_sl true s_two ex_setup ([], []))) = 2%nat
  (* the declaration's own line is the de-duplicated one: not written when its key was seen *)
  /\ fst (emit_sl true s_two ex_setup ([k_led], []))
     = [s_two ++ l_out7; s_two ++ l_in7; s_two ++ l_out7;
        s_two ++ h_a ++ s_open; s_two ++ s_two ++ l_in7; s_two ++ s_close].
Proof. repeat split; vm_compute; reflexivity. Qed.

(* a firmware that leaves out the second `pinMode(7, OUTPUT);` does not hold the statement lines of the script *)
Lemma dropped_repeat_not_sub :
  ~ sub (emit_pl s_two (map stmt_only ex_setup))
        [s_two ++ l_pm13; s_two ++ l_out7; s_two ++ l_in7;
         s_two ++ h_a ++ s_open; s_two ++ s_close].
Proof.
  intro H. apply (sub_count (s_two ++ l_out7)) in H. vm_compute in H. lia.
Qed.
