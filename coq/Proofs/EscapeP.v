(* Proofs about Lang/Escape.v : escape round-trips through the C++ string-literal lexer
   exactly on strings without a line-end character, is injective, and fails on a raw
   line end. *)
From Coq Require Import ZArith List Bool Lia.
From RV Require Import Base.Wire Lang.Escape.
Import ListNotations.
Open Scope Z_scope.

(* ------------------------------------------------------------ escape = one pass *)

Definition esc1 (c : Z) : text :=
  if c =? BSL then [BSL; BSL] else if c =? DQ then [BSL; DQ] else [c].

Lemma replace1_app c by_ a b :
  replace1 c by_ (a ++ b) = replace1 c by_ a ++ replace1 c by_ b.
Proof.
  induction a as [|x a IH]; cbn; [reflexivity|].
  destruct (x =? c); rewrite IH; [rewrite app_assoc|]; reflexivity.
Qed.

Lemma escape_flat s : escape s = flat_map esc1 s.
Proof.
  unfold escape. induction s as [|x s IH]; [reflexivity|].
  cbn [replace1 flat_map]. unfold esc1 at 1.
  destruct (Z.eqb_spec x BSL) as [E|NE].
  - subst x. rewrite replace1_app. rewrite IH. reflexivity.
  - cbn [replace1]. destruct (Z.eqb_spec x DQ) as [E2|NE2].
    + rewrite IH. reflexivity.
    + rewrite IH. reflexivity.
Qed.

Lemma esc1_shape c :
  (c = BSL /\ esc1 c = [BSL; BSL]) \/ (c = DQ /\ esc1 c = [BSL; DQ]) \/
  (c <> BSL /\ c <> DQ /\ esc1 c = [c]).
Proof.
  unfold esc1. destruct (Z.eqb_spec c BSL); [auto|].
  destruct (Z.eqb_spec c DQ); auto.
Qed.

(* the image of escape is a concatenation of the three kinds of pieces: every backslash
   it contains is followed by a backslash or a quote *)
Lemma escape_pieces s :
  exists l, escape s = concat l /\
    Forall (fun w => w = [BSL; BSL] \/ w = [BSL; DQ] \/ exists c, w = [c] /\ c <> BSL /\ c <> DQ) l.
Proof.
  rewrite escape_flat. exists (map esc1 s). split.
  - rewrite flat_map_concat_map. reflexivity.
  - apply Forall_forall. intros w Hw. apply in_map_iff in Hw as (c & <- & _).
    destruct (esc1_shape c) as [(_ & ->)|[(_ & ->)|(A & B & ->)]].
    + left. reflexivity.
    + right. left. reflexivity.
    + right. right. exists c. auto.
Qed.

(* ------------------------------------------------------------ one-step lemmas of the lexer *)

Definition head_not_line_end (r : text) : Prop :=
  match r with d :: _ => d <> LF /\ d <> CR | [] => True end.

Lemma go_norm_plain st_acc c r :
  c <> BSL -> c <> DQ -> c <> LF -> c <> CR ->
  clex_go LNorm st_acc (c :: r) = clex_go LNorm (c :: st_acc) r.
Proof.
  intros A B C D. cbn [clex_go].
  destruct (Z.eqb_spec c BSL); [contradiction|].
  destruct (Z.eqb_spec c DQ); [contradiction|].
  destruct (Z.eqb_spec c LF); [contradiction|].
  destruct (Z.eqb_spec c CR); [contradiction|].
  reflexivity.
Qed.

Lemma go_norm_quote acc r : clex_go LNorm acc (DQ :: r) = Some (rev acc, r).
Proof. reflexivity. Qed.

Lemma go_norm_line_end acc e r : e = LF \/ e = CR -> clex_go LNorm acc (e :: r) = None.
Proof. intros [->| ->]; reflexivity. Qed.

Lemma go_norm_bsl acc r :
  head_not_line_end r -> clex_go LNorm acc (BSL :: r) = clex_go LEsc acc r.
Proof.
  intros H. destruct r as [|d r1]; [reflexivity|].
  destruct H as [A B]. cbn [clex_go].
  change (BSL =? BSL) with true. cbv iota.
  destruct (Z.eqb_spec d LF); [contradiction|].
  destruct (Z.eqb_spec d CR); [contradiction|].
  reflexivity.
Qed.

Lemma go_esc_bsl acc r :
  head_not_line_end r -> clex_go LEsc acc (BSL :: r) = clex_go LNorm (BSL :: acc) r.
Proof.
  intros H. destruct r as [|d r1]; [reflexivity|].
  destruct H as [A B]. cbn [clex_go].
  change (BSL =? BSL) with true. cbv iota.
  destruct (Z.eqb_spec d LF); [contradiction|].
  destruct (Z.eqb_spec d CR); [contradiction|].
  reflexivity.
Qed.

Lemma go_esc_quote acc r : clex_go LEsc acc (DQ :: r) = clex_go LNorm (DQ :: acc) r.
Proof. reflexivity. Qed.

(* the splice itself: backslash + LF disappears in every state *)
Lemma go_splice_lf st acc r : clex_go st acc (BSL :: LF :: r) = clex_go st acc r.
Proof. destruct st; reflexivity. Qed.

(* ------------------------------------------------------------ heads of escaped text *)

Lemma esc1_head_not_line_end c rest :
  c <> LF -> c <> CR -> head_not_line_end (esc1 c ++ rest).
Proof.
  intros A B. destruct (esc1_shape c) as [(_ & ->)|[(_ & ->)|(_ & _ & ->)]]; cbn;
    unfold BSL, LF, CR; try (split; lia). split; assumption.
Qed.

Lemma escaped_head s tail :
  no_line_end s -> head_not_line_end tail -> head_not_line_end (flat_map esc1 s ++ tail).
Proof.
  intros N T. destruct s as [|x s]; [exact T|].
  cbn [flat_map]. rewrite <- app_assoc.
  destruct (N x (or_introl eq_refl)) as [A B].
  apply esc1_head_not_line_end; assumption.
Qed.

Lemma no_line_end_tail x s : no_line_end (x :: s) -> no_line_end s.
Proof. intros N c Hc. apply N. right. exact Hc. Qed.

Lemma no_line_endb_spec s : no_line_endb s = true <-> no_line_end s.
Proof.
  induction s as [|x s IH]; cbn.
  - split; [intros _ c []|reflexivity].
  - rewrite andb_true_iff, negb_true_iff, orb_false_iff, IH. split.
    + intros [[A B] N] c [<-|Hc]; [|apply N; exact Hc].
      apply Z.eqb_neq in A. apply Z.eqb_neq in B. auto.
    + intros N. split.
      * destruct (N x (or_introl eq_refl)) as [A B]. split; apply Z.eqb_neq; assumption.
      * eapply no_line_end_tail; exact N.
Qed.

(* ------------------------------------------------------------ the round trip *)

(* accumulator-generalised: lexing the escaped text from an ordinary position with content
   [acc] already decoded yields acc followed by the original string *)
Lemma go_escaped s : forall acc rest,
  no_line_end s ->
  clex_go LNorm acc (flat_map esc1 s ++ DQ :: rest) = Some (rev acc ++ s, rest).
Proof.
  induction s as [|x s IH]; intros acc rest N.
  - cbn [flat_map app]. rewrite go_norm_quote. rewrite app_nil_r. reflexivity.
  - pose proof (no_line_end_tail _ _ N) as N'.
    destruct (N x (or_introl eq_refl)) as [XL XC].
    assert (HT : head_not_line_end (flat_map esc1 s ++ DQ :: rest)).
    { apply escaped_head; [exact N'|]. cbn. unfold DQ, LF, CR. split; lia. }
    cbn [flat_map]. rewrite <- app_assoc.
    destruct (esc1_shape x) as [(-> & ->)|[(-> & ->)|(A & B & ->)]].
    + (* backslash *)
      cbn [app]. rewrite go_norm_bsl.
      * rewrite go_esc_bsl by exact HT. rewrite IH by exact N'.
        cbn [rev]. rewrite <- app_assoc. reflexivity.
      * cbn. unfold BSL, LF, CR. split; lia.
    + (* quote *)
      cbn [app]. rewrite go_norm_bsl.
      * rewrite go_esc_quote. rewrite IH by exact N'.
        cbn [rev]. rewrite <- app_assoc. reflexivity.
      * cbn. unfold DQ, LF, CR. split; lia.
    + cbn [app]. rewrite go_norm_plain by assumption. rewrite IH by exact N'.
      cbn [rev]. rewrite <- app_assoc. reflexivity.
Qed.

Theorem escape_roundtrip s rest :
  no_line_end s ->
  clex_string (DQ :: escape s ++ [DQ] ++ rest) = Some (s, rest).
Proof.
  intros N. unfold clex_string. change (DQ =? DQ) with true. cbv iota.
  rewrite escape_flat. cbn [app]. rewrite go_escaped by exact N. reflexivity.
Qed.

(* ------------------------------------------------------------ a raw line end breaks the literal *)

Lemma last_cons_ne (x : Z) s d : s <> [] -> last (x :: s) d = last s d.
Proof. destruct s; [congruence|reflexivity]. Qed.

(* a: the part before the first line end (no line end in it, not ending in a backslash,
   because an escaped final backslash would splice the line end away) *)
Lemma go_line_end a : forall acc e b rest,
  no_line_end a -> last a 0 <> BSL -> (e = LF \/ e = CR) ->
  clex_go LNorm acc (flat_map esc1 (a ++ e :: b) ++ DQ :: rest) = None.
Proof.
  induction a as [|x a IH]; intros acc e b rest N L E.
  - cbn [app flat_map]. rewrite <- app_assoc.
    assert (esc1 e = [e]) as ->.
    { destruct (esc1_shape e) as [(-> & _)|[(-> & _)|(_ & _ & ->)]]; [| |reflexivity];
        destruct E as [E|E]; discriminate E. }
    cbn [app]. apply go_norm_line_end. exact E.
  - pose proof (no_line_end_tail _ _ N) as N'.
    destruct (N x (or_introl eq_refl)) as [XL XC].
    cbn [app flat_map]. rewrite <- app_assoc.
    assert (HE : esc1 e = [e]).
    { destruct (esc1_shape e) as [(-> & _)|[(-> & _)|(_ & _ & ->)]]; [| |reflexivity];
        destruct E as [E|E]; discriminate E. }
    destruct (esc1_shape x) as [(-> & ->)|[(-> & ->)|(A & B & ->)]].
    + (* x is a backslash: then a is not empty *)
      destruct a as [|y a'].
      { exfalso. apply L. reflexivity. }
      assert (L' : last (y :: a') 0 <> BSL).
      { rewrite <- (last_cons_ne BSL (y :: a') 0) by discriminate. exact L. }
      cbn [app]. rewrite go_norm_bsl.
      * rewrite go_esc_bsl.
        -- apply IH; assumption.
        -- cbn [app flat_map]. rewrite <- app_assoc.
           destruct (N' y (or_introl eq_refl)) as [YL YC].
           apply esc1_head_not_line_end; assumption.
      * cbn. unfold BSL, LF, CR. split; lia.
    + (* x is a quote *)
      cbn [app]. rewrite go_norm_bsl.
      * rewrite go_esc_quote. destruct a as [|y a'].
        -- cbn [app flat_map]. rewrite HE. cbn [app]. apply go_norm_line_end. exact E.
        -- apply IH; assumption.
      * cbn. unfold DQ, LF, CR. split; lia.
    + cbn [app]. rewrite go_norm_plain by assumption. destruct a as [|y a'].
      * cbn [app flat_map]. rewrite HE. cbn [app]. apply go_norm_line_end. exact E.
      * apply IH; assumption.
Qed.

Theorem escape_line_end_fails a e b rest :
  no_line_end a -> last a 0 <> BSL -> (e = LF \/ e = CR) ->
  clex_string (DQ :: escape (a ++ e :: b) ++ [DQ] ++ rest) = None.
Proof.
  intros N L E. unfold clex_string. change (DQ =? DQ) with true. cbv iota.
  rewrite escape_flat. cbn [app]. apply go_line_end; assumption.
Qed.

(* and when the line end IS preceded by a backslash the literal does not fail but decodes to
   something else: the doubled backslash loses its second half to the splice *)
Example escape_splice_corrupts :
  clex_string (c_literal [97; 92; 10; 98]) = Some ([97; 8], []).
Proof. vm_compute. reflexivity. Qed.

Theorem escape_refuted : exists s, clex_string (c_literal s) = None.
Proof. exists [97; 10; 98]. vm_compute. reflexivity. Qed.

(* ------------------------------------------------------------ injectivity *)

Lemma flat_esc1_inj s : forall t, flat_map esc1 s = flat_map esc1 t -> s = t.
Proof.
  induction s as [|x s IH]; intros [|y t] H.
  - reflexivity.
  - exfalso. cbn [flat_map] in H.
    destruct (esc1_shape y) as [(_ & E)|[(_ & E)|(_ & _ & E)]]; rewrite E in H; discriminate H.
  - exfalso. cbn [flat_map] in H.
    destruct (esc1_shape x) as [(_ & E)|[(_ & E)|(_ & _ & E)]]; rewrite E in H; discriminate H.
  - cbn [flat_map] in H.
    destruct (esc1_shape x) as [(X & EX)|[(X & EX)|(X1 & X2 & EX)]];
    destruct (esc1_shape y) as [(Y & EY)|[(Y & EY)|(Y1 & Y2 & EY)]];
    rewrite EX, EY in H; cbn [app] in H.
    + injection H as H. subst. f_equal. apply IH. exact H.
    + exfalso. injection H as H1 H2. unfold BSL, DQ in H1. discriminate H1.
    + exfalso. injection H as H1 H2. apply Y1. symmetry. exact H1.
    + exfalso. injection H as H1 H2. unfold BSL, DQ in H1. discriminate H1.
    + injection H as H. subst. f_equal. apply IH. exact H.
    + exfalso. injection H as H1 H2. apply Y1. symmetry. exact H1.
    + exfalso. injection H as H1 H2. apply X1. exact H1.
    + exfalso. injection H as H1 H2. apply X1. exact H1.
    + injection H as H1 H2. subst. f_equal. apply IH. exact H2.
Qed.

Theorem escape_injective s t : escape s = escape t -> s = t.
Proof. rewrite !escape_flat. apply flat_esc1_inj. Qed.

(* non-vacuity: a string with every interesting character satisfies the guard and
   round-trips; its escaped form is what the implementation prints *)
Example roundtrip_demo :
  let s := [97; 92; 34; 39; 63; 63; 47; 37; 233; 92; 92; 34; 92] in
  no_line_end s /\
  escape s = [97; 92; 92; 92; 34; 39; 63; 63; 47; 37; 233; 92; 92; 92; 92; 92; 34; 92; 92] /\
  clex_string (c_literal s ++ [59]) = Some (s, [59]).
Proof.
  cbv zeta. split; [|split].
  - apply no_line_endb_spec. vm_compute. reflexivity.
  - vm_compute. reflexivity.
  - vm_compute. reflexivity.
Qed.

(* ------------------------------------------------------------ size of the escaped text *)

Definition needs_escape (c : Z) : bool := (c =? BSL) || (c =? DQ).

Theorem escape_length s :
  length (escape s) = (length s + length (filter needs_escape s))%nat.
Proof.
  rewrite escape_flat. induction s as [|x s IH]; [reflexivity|].
  cbn [flat_map filter]. rewrite app_length, IH. unfold esc1, needs_escape.
  destruct (x =? BSL); cbn [orb]; [cbn [length]; lia|].
  destruct (x =? DQ); cbn [length]; lia.
Qed.

(* the escaped text contains no line end unless the string does *)
Theorem escape_no_new_line_end s : no_line_end s -> no_line_end (escape s).
Proof.
  intros N c Hc. rewrite escape_flat in Hc. apply in_flat_map in Hc as (x & Hx & Hc).
  destruct (esc1_shape x) as [(-> & E)|[(-> & E)|(A & B & E)]]; rewrite E in Hc; cbn in Hc.
  - destruct Hc as [<-|[<-|[]]]; unfold BSL, LF, CR; split; lia.
  - destruct Hc as [<-|[<-|[]]]; unfold BSL, DQ, LF, CR; split; lia.
  - destruct Hc as [<-|[]]. apply N. exact Hx.
Qed.
