(* Proofs about Lang/Escape.v.

   Part I  - the repaired [escape] (control characters escaped): it round-trips through the
             C++ string-literal lexer for EVERY string, is injective, its image contains no
             control character at all (in particular no line end), and it coincides with the
             function before the repair on every string without control characters.
   Part II - the function before the repair, [escape_quotes_only]: a raw line end breaks the
             literal, a backslash before a line end corrupts it (what the repair is for). *)
From Coq Require Import ZArith List Bool Lia.
From RV Require Import Base.Wire Lang.Escape.
Import ListNotations.
Open Scope Z_scope.

(* ------------------------------------------------------------ one-step lemmas of the lexer *)

Definition head_not_line_end (r : text) : Prop :=
  match r with d :: _ => d <> LF /\ d <> CR | [] => True end.

Lemma go_norm_plain st_acc c r :
  c <> BSL -> c <> DQ -> c <> LF -> c <> CR ->
  clex_go LNorm st_acc (c :: r) = clex_go LNorm (c :: st_acc) r.
Proof.
  intros A B C D. cbn [clex_go].
  destruct (Z.eqb_spec c BSL); [contradiction|].
  destruct (Z.eqb_spec c DQ); [contradiction|].
  destruct (Z.eqb_spec c LF); [contradiction|].
  destruct (Z.eqb_spec c CR); [contradiction|].
  reflexivity.
Qed.

Lemma go_norm_quote acc r : clex_go LNorm acc (DQ :: r) = Some (rev acc, r).
Proof. reflexivity. Qed.

Lemma go_norm_line_end acc e r : e = LF \/ e = CR -> clex_go LNorm acc (e :: r) = None.
Proof. intros [->| ->]; reflexivity. Qed.

Lemma go_norm_bsl acc r :
  head_not_line_end r -> clex_go LNorm acc (BSL :: r) = clex_go LEsc acc r.
Proof.
  intros H. destruct r as [|d r1]; [reflexivity|].
  destruct H as [A B]. cbn [clex_go].
  change (BSL =? BSL) with true. cbv iota.
  destruct (Z.eqb_spec d LF); [contradiction|].
  destruct (Z.eqb_spec d CR); [contradiction|].
  reflexivity.
Qed.

Lemma go_esc_bsl acc r :
  head_not_line_end r -> clex_go LEsc acc (BSL :: r) = clex_go LNorm (BSL :: acc) r.
Proof.
  intros H. destruct r as [|d r1]; [reflexivity|].
  destruct H as [A B]. cbn [clex_go].
  change (BSL =? BSL) with true. cbv iota.
  destruct (Z.eqb_spec d LF); [contradiction|].
  destruct (Z.eqb_spec d CR); [contradiction|].
  reflexivity.
Qed.

Lemma go_esc_quote acc r : clex_go LEsc acc (DQ :: r) = clex_go LNorm (DQ :: acc) r.
Proof. reflexivity. Qed.

(* the three letter escapes the repair introduces: no condition on what follows *)
Lemma go_bsl_n acc r : clex_go LNorm acc (BSL :: 110 :: r) = clex_go LNorm (LF :: acc) r.
Proof. reflexivity. Qed.
Lemma go_bsl_r acc r : clex_go LNorm acc (BSL :: 114 :: r) = clex_go LNorm (CR :: acc) r.
Proof. reflexivity. Qed.
Lemma go_bsl_t acc r : clex_go LNorm acc (BSL :: 116 :: r) = clex_go LNorm (9 :: acc) r.
Proof. reflexivity. Qed.

(* the splice itself: backslash + LF disappears in every state *)
Lemma go_splice_lf st acc r : clex_go st acc (BSL :: LF :: r) = clex_go st acc r.
Proof. destruct st; reflexivity. Qed.

(* after THREE octal digits the escape is complete whatever follows - a digit, a hex digit, a
   backslash, a line splice, the end of the input: the lexer goes on exactly as if it had just
   decoded the value as an ordinary character *)
Lemma go_oct3_done_n n : forall s v acc, (length s <= n)%nat -> v <= 255 ->
  clex_go (LOct 3 v) acc s = clex_go LNorm (v :: acc) s.
Proof.
  induction n as [|n IH]; intros s v acc L V.
  - destruct s; [reflexivity|cbn in L; lia].
  - destruct s as [|c r]; [reflexivity|]. cbn [length] in L.
    assert (STEP : (if is_octal c && Nat.ltb 3 3 then clex_go (LOct 4 (v * 8 + (c - 48))) acc r
                    else if 255 <? v then None
                    else if c =? DQ then Some (rev (v :: acc), r)
                    else if (c =? LF) || (c =? CR) then None
                    else if c =? BSL then clex_go LEsc (v :: acc) r
                    else clex_go LNorm (c :: v :: acc) r) =
                   (if c =? DQ then Some (rev (v :: acc), r)
                    else if (c =? LF) || (c =? CR) then None
                    else if c =? BSL then clex_go LEsc (v :: acc) r
                    else clex_go LNorm (c :: v :: acc) r)).
    { change (Nat.ltb 3 3) with false. rewrite andb_false_r.
      destruct (Z.ltb_spec 255 v); [lia|reflexivity]. }
    cbn [clex_go]. destruct (c =? BSL) eqn:CB.
    + destruct r as [|d r1]; [exact STEP|].
      destruct (d =? LF); [apply IH; [cbn [length] in L |- *; lia|exact V]|].
      destruct (d =? CR); [|exact STEP].
      destruct r1 as [|e r2]; [apply IH; [cbn [length] in L |- *; lia|exact V]|].
      destruct (e =? LF); apply IH; try exact V; cbn [length] in L |- *; lia.
    + exact STEP.
Qed.

Lemma go_oct3_done s v acc : v <= 255 -> clex_go (LOct 3 v) acc s = clex_go LNorm (v :: acc) s.
Proof. intros V. apply (go_oct3_done_n (length s)); [lia|exact V]. Qed.

(* ------------------------------------------------------------ the shape of esc_char *)

Lemma is_ctl_range c : is_ctl c = true <-> (0 <= c < 32 \/ c = 127).
Proof.
  unfold is_ctl. rewrite orb_true_iff, andb_true_iff, Z.leb_le, Z.ltb_lt, Z.eqb_eq. tauto.
Qed.

Lemma ctl_cases x : is_ctl x = true -> In x (127 :: map Z.of_nat (seq 0 32)).
Proof.
  intros H. apply is_ctl_range in H as [H| ->]; [|left; reflexivity].
  right. apply in_map_iff. exists (Z.to_nat x). split; [lia|]. apply in_seq. lia.
Qed.

(* every control character's octal escape is read back as the character, in any context *)
Lemma go_oct3 x acc r : is_ctl x = true -> clex_go LNorm acc (oct3 x ++ r) = clex_go LNorm (x :: acc) r.
Proof.
  intros H. assert (V : x <= 255) by (apply is_ctl_range in H; lia).
  rewrite <- (go_oct3_done r x acc V).
  apply ctl_cases in H. cbn [seq map Z.of_nat] in H.
  repeat (destruct H as [<-|H]; [reflexivity|]). destruct H.
Qed.

Inductive esc_shape (c : Z) : text -> Prop :=
| ShBsl : c = BSL -> esc_shape c [BSL; BSL]
| ShDq : c = DQ -> esc_shape c [BSL; DQ]
| ShLf : c = LF -> esc_shape c [BSL; 110]
| ShCr : c = CR -> esc_shape c [BSL; 114]
| ShTab : c = 9 -> esc_shape c [BSL; 116]
| ShOct : is_ctl c = true -> c <> LF -> c <> CR -> c <> 9 -> esc_shape c (oct3 c)
| ShPlain : c <> BSL -> c <> DQ -> c <> LF -> c <> CR -> c <> 9 -> is_ctl c = false -> esc_shape c [c].

Lemma esc_char_shape c : esc_shape c (esc_char c).
Proof.
  unfold esc_char.
  destruct (Z.eqb_spec c BSL); [constructor 1; assumption|].
  destruct (Z.eqb_spec c DQ); [constructor 2; assumption|].
  destruct (Z.eqb_spec c LF); [constructor 3; assumption|].
  destruct (Z.eqb_spec c CR); [constructor 4; assumption|].
  destruct (Z.eqb_spec c 9); [constructor 5; assumption|].
  destruct (is_ctl c) eqn:K; [constructor 6; assumption|constructor 7; assumption].
Qed.

Lemma escape_app a b : escape (a ++ b) = escape a ++ escape b.
Proof. unfold escape. apply flat_map_app. Qed.

Lemma escape_cons x s : escape (x :: s) = esc_char x ++ escape s.
Proof. reflexivity. Qed.

(* bounds of the three octal digits *)
Lemma oct3_chars x c : 0 <= x < 512 -> In c (oct3 x) -> c = BSL \/ 48 <= c <= 55.
Proof.
  intros R H. unfold oct3 in H. cbn [In] in H.
  pose proof (Z.div_pos x 64 ltac:(lia) ltac:(lia)).
  pose proof (Z.div_lt_upper_bound x 64 8 ltac:(lia) ltac:(lia)).
  pose proof (Z.mod_pos_bound (x / 8) 8 ltac:(lia)).
  pose proof (Z.mod_pos_bound x 8 ltac:(lia)).
  destruct H as [<-|[<-|[<-|[<-|[]]]]]; [left; reflexivity|right; lia..].
Qed.

(* the image of escape contains no control character: neither a line end, nor a tab, nor any
   other code point below 0x20, nor DEL - the emitted literal is clean source text *)
Theorem escape_image_clean s c :
  In c (escape s) -> is_ctl c = false /\ c <> LF /\ c <> CR /\ c <> 9.
Proof.
  intros Hc. unfold escape in Hc. apply in_flat_map in Hc as (x & _ & Hc).
  assert (P : forall k, (k = BSL \/ k = DQ \/ k = 110 \/ k = 114 \/ k = 116 \/ 48 <= k <= 55) ->
              is_ctl k = false /\ k <> LF /\ k <> CR /\ k <> 9).
  { intros k K. unfold BSL, DQ, LF, CR in *. split; [|lia].
    destruct (is_ctl k) eqn:E; [|reflexivity]. apply is_ctl_range in E. lia. }
  destruct (esc_char_shape x) as [E|E|E|E|E|K A B C|A B C D E K]; cbn [In] in Hc.
  1-5: destruct Hc as [<-|[<-|[]]]; apply P; auto 10.
  - apply is_ctl_range in K. apply oct3_chars in Hc; [|lia]. apply P. destruct Hc; auto 10.
  - destruct Hc as [<-|[]]. auto.
Qed.

Corollary escape_no_line_end s : no_line_end (escape s).
Proof. intros c Hc. apply escape_image_clean in Hc. tauto. Qed.

Lemma escaped_head s tail : head_not_line_end tail -> head_not_line_end (escape s ++ tail).
Proof.
  intros T. destruct (escape s) as [|d r] eqn:E; [exact T|].
  cbn. apply (escape_no_line_end s). rewrite E. left. reflexivity.
Qed.

(* ------------------------------------------------------------ the round trip, for every string *)

(* accumulator-generalised: lexing the escaped text from an ordinary position with content
   [acc] already decoded yields acc followed by the original string *)
Lemma go_escaped s : forall acc rest,
  clex_go LNorm acc (escape s ++ DQ :: rest) = Some (rev acc ++ s, rest).
Proof.
  induction s as [|x s IH]; intros acc rest.
  - cbn [escape flat_map app]. rewrite go_norm_quote. rewrite app_nil_r. reflexivity.
  - assert (HT : head_not_line_end (escape s ++ DQ :: rest)).
    { apply escaped_head. cbn. unfold DQ, LF, CR. split; lia. }
    assert (NEXT : forall v, clex_go LNorm (v :: acc) (escape s ++ DQ :: rest) = Some (rev acc ++ v :: s, rest)).
    { intros v. rewrite IH. cbn [rev]. rewrite <- app_assoc. reflexivity. }
    rewrite escape_cons, <- app_assoc.
    destruct (esc_char_shape x) as [E|E|E|E|E|K A B C|A B C D E K]; try subst x.
    + cbn [app]. rewrite go_norm_bsl by (cbn; unfold BSL, LF, CR; split; lia).
      rewrite go_esc_bsl by exact HT. apply NEXT.
    + cbn [app]. rewrite go_norm_bsl by (cbn; unfold DQ, LF, CR; split; lia).
      rewrite go_esc_quote. apply NEXT.
    + cbn [app]. rewrite go_bsl_n. apply NEXT.
    + cbn [app]. rewrite go_bsl_r. apply NEXT.
    + cbn [app]. rewrite go_bsl_t. apply NEXT.
    + rewrite go_oct3 by exact K. apply NEXT.
    + cbn [app]. rewrite go_norm_plain by assumption. apply NEXT.
Qed.

Theorem escape_roundtrip s rest :
  clex_string (DQ :: escape s ++ [DQ] ++ rest) = Some (s, rest).
Proof.
  unfold clex_string. change (DQ =? DQ) with true. cbv iota.
  cbn [app]. rewrite go_escaped. reflexivity.
Qed.

(* injectivity is a corollary: the lexer is a left inverse *)
Theorem escape_injective s t : escape s = escape t -> s = t.
Proof.
  intros E. pose proof (escape_roundtrip s []) as A. pose proof (escape_roundtrip t []) as B.
  rewrite E in A. rewrite A in B. injection B as B. exact B.
Qed.

(* the witnesses of the two repaired findings, and the reason for THREE octal digits *)
Example roundtrip_witnesses :
  escape [97; 10; 98] = [97; 92; 110; 98] /\
  clex_string (c_literal [97; 10; 98]) = Some ([97; 10; 98], []) /\
  escape [97; 92; 10; 98] = [97; 92; 92; 92; 110; 98] /\
  clex_string (c_literal [97; 92; 10; 98]) = Some ([97; 92; 10; 98], []) /\
  escape [1; 49] = [92; 48; 48; 49; 49] /\
  clex_string (c_literal [1; 49]) = Some ([1; 49], []) /\
  clex_string (DQ :: [92; 49] ++ [49] ++ [DQ]) = Some ([9], []) /\
  clex_string (DQ :: [92; 120; 49] ++ [98] ++ [DQ]) = Some ([27], []).
Proof. vm_compute. repeat split; reflexivity. Qed.

(* non-vacuity: a string with every class of character round-trips; its escaped form is what
   the implementation prints *)
Example roundtrip_demo :
  let s := [97; 92; 34; 39; 63; 63; 47; 37; 233; 10; 13; 9; 0; 27; 55; 127; 92; 10; 92; 92; 34; 92] in
  escape s = [97; 92; 92; 92; 34; 39; 63; 63; 47; 37; 233; 92; 110; 92; 114; 92; 116; 92; 48; 48; 48;
              92; 48; 51; 51; 55; 92; 49; 55; 55; 92; 92; 92; 110; 92; 92; 92; 92; 92; 34; 92; 92] /\
  clex_string (c_literal s ++ [59]) = Some (s, [59]).
Proof. vm_compute. split; reflexivity. Qed.

(* ------------------------------------------------------------ size of the escaped text *)

Theorem escape_length s :
  length (escape s) = (length s + length (filter esc_simple s) + 3 * length (filter esc_octal s))%nat.
Proof.
  induction s as [|x s IH]; [reflexivity|].
  rewrite escape_cons, app_length, IH. cbn [filter length].
  unfold esc_octal, esc_simple.
  destruct (esc_char_shape x) as [E|E|E|E|E|K A B C|A B C D E K]; try subst x; cbn [length orb andb negb].
  1-5: cbn; lia.
  - rewrite K. apply Z.eqb_neq in A, B, C.
    assert (x =? BSL = false) as -> by (apply Z.eqb_neq; apply is_ctl_range in K; unfold BSL; lia).
    assert (x =? DQ = false) as -> by (apply Z.eqb_neq; apply is_ctl_range in K; unfold DQ; lia).
    rewrite A, B, C. unfold oct3. cbn [orb andb negb length]. lia.
  - apply Z.eqb_neq in A, B, C, D, E. rewrite A, B, C, D, E, K. cbn [orb andb negb length]. lia.
Qed.

(* ------------------------------------------------------------ nothing changes without control characters *)

Lemma replace1_app c by_ a b :
  replace1 c by_ (a ++ b) = replace1 c by_ a ++ replace1 c by_ b.
Proof.
  induction a as [|x a IH]; cbn; [reflexivity|].
  destruct (x =? c); rewrite IH; [rewrite app_assoc|]; reflexivity.
Qed.

Definition esc1 (c : Z) : text :=
  if c =? BSL then [BSL; BSL] else if c =? DQ then [BSL; DQ] else [c].

Lemma old_escape_flat s : escape_quotes_only s = flat_map esc1 s.
Proof.
  unfold escape_quotes_only. induction s as [|x s IH]; [reflexivity|].
  cbn [replace1 flat_map]. unfold esc1 at 1.
  destruct (Z.eqb_spec x BSL) as [E|NE].
  - subst x. rewrite replace1_app. rewrite IH. reflexivity.
  - cbn [replace1]. destruct (Z.eqb_spec x DQ) as [E2|NE2].
    + rewrite IH. reflexivity.
    + rewrite IH. reflexivity.
Qed.

Theorem escape_agrees_without_control s :
  (forall c, In c s -> is_ctl c = false) -> escape s = escape_quotes_only s.
Proof.
  intros H. rewrite old_escape_flat. unfold escape.
  induction s as [|c s IH]; [reflexivity|]. cbn [flat_map].
  rewrite IH by (intros k Hk; apply H; right; exact Hk). f_equal.
  specialize (H c (or_introl eq_refl)). unfold esc_char, esc1.
  destruct (c =? BSL); [reflexivity|]. destruct (c =? DQ); [reflexivity|].
  assert (N : c <> LF /\ c <> CR /\ c <> 9).
  { unfold LF, CR. repeat split; intros ->; discriminate H. }
  destruct N as (A & B & C). apply Z.eqb_neq in A, B, C. rewrite A, B, C, H. reflexivity.
Qed.

(* ============================================================ Part II: before the repair *)

Lemma esc1_shape c :
  (c = BSL /\ esc1 c = [BSL; BSL]) \/ (c = DQ /\ esc1 c = [BSL; DQ]) \/
  (c <> BSL /\ c <> DQ /\ esc1 c = [c]).
Proof.
  unfold esc1. destruct (Z.eqb_spec c BSL); [auto|].
  destruct (Z.eqb_spec c DQ); auto.
Qed.

Lemma esc1_head_not_line_end c rest :
  c <> LF -> c <> CR -> head_not_line_end (esc1 c ++ rest).
Proof.
  intros A B. destruct (esc1_shape c) as [(_ & ->)|[(_ & ->)|(_ & _ & ->)]]; cbn;
    unfold BSL, LF, CR; try (split; lia). split; assumption.
Qed.

Lemma no_line_end_tail x s : no_line_end (x :: s) -> no_line_end s.
Proof. intros N c Hc. apply N. right. exact Hc. Qed.

Lemma no_line_endb_spec s : no_line_endb s = true <-> no_line_end s.
Proof.
  induction s as [|x s IH]; cbn.
  - split; [intros _ c []|reflexivity].
  - rewrite andb_true_iff, negb_true_iff, orb_false_iff, IH. split.
    + intros [[A B] N] c [<-|Hc]; [|apply N; exact Hc].
      apply Z.eqb_neq in A. apply Z.eqb_neq in B. auto.
    + intros N. split.
      * destruct (N x (or_introl eq_refl)) as [A B]. split; apply Z.eqb_neq; assumption.
      * eapply no_line_end_tail; exact N.
Qed.

Lemma last_cons_ne (x : Z) s d : s <> [] -> last (x :: s) d = last s d.
Proof. destruct s; [congruence|reflexivity]. Qed.

(* a: the part before the first line end (no line end in it, not ending in a backslash,
   because an escaped final backslash would splice the line end away) *)
Lemma old_go_line_end a : forall acc e b rest,
  no_line_end a -> last a 0 <> BSL -> (e = LF \/ e = CR) ->
  clex_go LNorm acc (flat_map esc1 (a ++ e :: b) ++ DQ :: rest) = None.
Proof.
  induction a as [|x a IH]; intros acc e b rest N L E.
  - cbn [app flat_map]. rewrite <- app_assoc.
    assert (esc1 e = [e]) as ->.
    { destruct (esc1_shape e) as [(-> & _)|[(-> & _)|(_ & _ & ->)]]; [| |reflexivity];
        destruct E as [E|E]; discriminate E. }
    cbn [app]. apply go_norm_line_end. exact E.
  - pose proof (no_line_end_tail _ _ N) as N'.
    destruct (N x (or_introl eq_refl)) as [XL XC].
    cbn [app flat_map]. rewrite <- app_assoc.
    assert (HE : esc1 e = [e]).
    { destruct (esc1_shape e) as [(-> & _)|[(-> & _)|(_ & _ & ->)]]; [| |reflexivity];
        destruct E as [E|E]; discriminate E. }
    destruct (esc1_shape x) as [(-> & ->)|[(-> & ->)|(A & B & ->)]].
    + (* x is a backslash: then a is not empty *)
      destruct a as [|y a'].
      { exfalso. apply L. reflexivity. }
      assert (L' : last (y :: a') 0 <> BSL).
      { rewrite <- (last_cons_ne BSL (y :: a') 0) by discriminate. exact L. }
      cbn [app]. rewrite go_norm_bsl.
      * rewrite go_esc_bsl.
        -- apply IH; assumption.
        -- cbn [app flat_map]. rewrite <- app_assoc.
           destruct (N' y (or_introl eq_refl)) as [YL YC].
           apply esc1_head_not_line_end; assumption.
      * cbn. unfold BSL, LF, CR. split; lia.
    + (* x is a quote *)
      cbn [app]. rewrite go_norm_bsl.
      * rewrite go_esc_quote. destruct a as [|y a'].
        -- cbn [app flat_map]. rewrite HE. cbn [app]. apply go_norm_line_end. exact E.
        -- apply IH; assumption.
      * cbn. unfold DQ, LF, CR. split; lia.
    + cbn [app]. rewrite go_norm_plain by assumption. destruct a as [|y a'].
      * cbn [app flat_map]. rewrite HE. cbn [app]. apply go_norm_line_end. exact E.
      * apply IH; assumption.
Qed.

(* escaping the control characters is NECESSARY: with backslash and quote alone, any string whose
   first line-end character is not preceded by a backslash yields a literal that does not lex *)
Theorem old_escape_line_end_fails a e b rest :
  no_line_end a -> last a 0 <> BSL -> (e = LF \/ e = CR) ->
  clex_string (DQ :: escape_quotes_only (a ++ e :: b) ++ [DQ] ++ rest) = None.
Proof.
  intros N L E. unfold clex_string. change (DQ =? DQ) with true. cbv iota.
  rewrite old_escape_flat. cbn [app]. apply old_go_line_end; assumption.
Qed.

(* and when the line end IS preceded by a backslash the old literal does not fail but decodes to
   something else: the doubled backslash loses its second half to the splice *)
Example old_escape_broken :
  clex_string (c_literal_old [97; 10; 98]) = None /\
  clex_string (c_literal_old [97; 92; 10; 98]) = Some ([97; 8], []).
Proof. vm_compute. split; reflexivity. Qed.

(* ============================================================ the expression printer of C01 uses the same function *)
From RV Require Lang.CAst.

Lemma cast_escape_same s : CAst.escape s = escape s.
Proof.
  unfold CAst.escape, escape. induction s as [|c s IH]; [reflexivity|].
  cbn [flat_map]. rewrite IH. f_equal.
Qed.
