(* C06: every exception class an except clause names is declared, once, at file scope. *)
From Coq Require Import ZArith List Bool Lia.
From RV Require Import Base.Wire Base.Text Lang.ExcDecl.
Import ListNotations.
Open Scope Z_scope.

Section EInd.
  Variable P : enode -> Prop.
  Hypothesis HTry : forall b hs, Forall P b -> Forall (fun h => Forall P (snd h)) hs -> P (XTry b hs).
  Hypothesis HNode : forall bs, Forall (Forall P) bs -> P (XNode bs).
  Fixpoint enode_ind' (n : enode) : P n :=
    let fix go (l : list enode) : Forall P l :=
      match l with [] => Forall_nil _ | x :: r => Forall_cons _ (enode_ind' x) (go r) end in
    match n with
    | XTry b hs =>
        HTry b hs (go b)
          ((fix gh (l : list (option text * list enode)) : Forall (fun h => Forall P (snd h)) l :=
              match l with [] => Forall_nil _ | h :: r => Forall_cons h (go (snd h)) (gh r) end) hs)
    | XNode bs =>
        HNode bs ((fix gb (l : list (list enode)) : Forall (Forall P) l :=
                     match l with [] => Forall_nil _ | b :: r => Forall_cons b (go b) (gb r) end) bs)
    end.
End EInd.

Lemma in_dedup c l : In c (dedup l) <-> In c l.
Proof.
  induction l as [|x r IH]; cbn; [tauto|].
  rewrite filter_In, IH. split.
  - intros [H|[H _]]; auto.
  - intros [H|H]; [auto|]. destruct (text_eqb x c) eqn:E.
    + apply text_eqb_eq in E. auto.
    + right. split; [exact H|]. reflexivity.
Qed.

Lemma nodup_dedup l : NoDup (dedup l).
Proof.
  induction l as [|x r IH]; cbn; constructor.
  - rewrite filter_In. intros [_ H]. cbv beta in H. rewrite text_eqb_refl in H. discriminate.
  - apply NoDup_filter. exact IH.
Qed.

Lemma in_flat_map_ext {A} (f g : A -> list text) l c :
  Forall (fun a => In c (f a) <-> In c (g a)) l -> (In c (flat_map f l) <-> In c (flat_map g l)).
Proof.
  intro H. induction H as [|a r Ha _ IH]; cbn; [tauto|]. rewrite !in_app_iff, Ha, IH. tauto.
Qed.

Lemma block_same l c :
  Forall (fun n => In c (classes_node n) <-> In c (named_node n)) l ->
  (In c (dedup (flat_map classes_node l)) <-> In c (flat_map named_node l)).
Proof. intro H. rewrite in_dedup. apply in_flat_map_ext. exact H. Qed.

Lemma classes_node_same n : forall c, In c (classes_node n) <-> In c (named_node n).
Proof.
  induction n as [b hs Hb Hhs|bs Hbs] using enode_ind'; intro c; cbn [classes_node named_node].
  - rewrite !in_app_iff. rewrite (block_same b c).
    + assert (Hh : In c (flat_map (fun h => dedup (flat_map classes_node (snd h))) hs) <->
                   In c (flat_map (fun h => flat_map named_node (snd h)) hs)).
      { apply in_flat_map_ext. eapply Forall_impl; [|exact Hhs]. intros h Hh. cbn beta.
        apply block_same. eapply Forall_impl; [|exact Hh]. intros n Hn. apply Hn. }
      rewrite Hh. tauto.
    + eapply Forall_impl; [|exact Hb]. intros n Hn. apply Hn.
  - apply in_flat_map_ext. eapply Forall_impl; [|exact Hbs]. intros b Hb. cbn beta.
    apply block_same. eapply Forall_impl; [|exact Hb]. intros n Hn. apply Hn.
Qed.

(* exactly the classes some handler names - at any depth, in try bodies, handler bodies and every other nested block *)
Lemma classes_complete l c : In c (classes l) <-> In c (named l).
Proof.
  unfold classes, named. apply block_same. apply Forall_forall. intros n _. apply classes_node_same.
Qed.

(* each once *)
Lemma classes_nodup l : NoDup (classes l).
Proof. apply nodup_dedup. Qed.

Lemma named_app a b : named (a ++ b) = named a ++ named b.
Proof. unfold named. apply flat_map_app. Qed.

Lemma named_concat fns c : In c (named (List.concat fns)) <-> exists f, In f fns /\ In c (named f).
Proof.
  induction fns as [|f r IH]; cbn [List.concat].
  - cbn. split; [tauto|]. intros (f & [] & _).
  - rewrite named_app, in_app_iff, IH. split.
    + intros [H|(g & Hg & Hc)]; [exists f; cbn; auto|exists g; cbn; auto].
    + intros (g & [->|Hg] & Hc); [auto|right; eauto].
Qed.

(* the whole program: setup, loop and every function body *)
Lemma program_classes_complete setup loop fns c :
  In c (program_classes setup loop fns) <->
  In c (named setup) \/ In c (named loop) \/ exists f, In f fns /\ In c (named f).
Proof.
  unfold program_classes. rewrite classes_complete, !named_app, !in_app_iff, named_concat. tauto.
Qed.

Lemma program_classes_nodup setup loop fns : NoDup (program_classes setup loop fns).
Proof. apply classes_nodup. Qed.

(* a handler that names a class, anywhere: its class is among the declared ones *)
Lemma handler_class_declared l b hs c r body :
  In (XTry b hs) l -> In (Some (c :: r), body) hs -> In (c :: r) (classes l).
Proof.
  intros Hin Hh. apply classes_complete. unfold named. apply in_flat_map. exists (XTry b hs). split; [exact Hin|].
  cbn [named_node]. apply in_or_app. left. unfold own. apply in_flat_map. exists (Some (c :: r), body). split; [exact Hh|].
  cbn. auto.
Qed.

(* the qualified name of the catch header (exception.replace(".", "::")) is the path the declaration introduces
   (name.split(".")), for every name without a colon - a Python dotted name has none *)
Lemma split_same s : (forall ch, In ch s -> ch <> 58) -> forall cur, split_colons cur (dots_to_colons s) = split_dots cur s.
Proof.
  induction s as [|c r IH]; intros H cur; cbn [dots_to_colons split_dots]; [reflexivity|].
  assert (Hr : forall ch, In ch r -> ch <> 58) by (intros ch Hc; apply H; cbn; auto).
  destruct (c =? 46) eqn:E.
  - cbn [split_colons]. rewrite (IH Hr). reflexivity.
  - assert (Hc : c <> 58) by (apply H; cbn; auto).
    assert (Hstep : split_colons cur (c :: dots_to_colons r) = split_colons (c :: cur) (dots_to_colons r)).
    { cbn [split_colons]. destruct c as [|p|p]; try reflexivity.
      do 6 (try (destruct p; try reflexivity)). all: exfalso; apply Hc; reflexivity. }
    rewrite Hstep. apply IH. exact Hr.
Qed.

Lemma catch_path_is_decl_path name : (forall ch, In ch name -> ch <> 58) -> catch_path name = decl_path name.
Proof. intro H. unfold catch_path, decl_path, components. apply split_same. exact H. Qed.

Lemma demo :
  classes demo_tree = [[86;69]; [97;46;66]; [75;69]] /\
  named demo_tree = [[86;69]; [97;46;66]; [86;69]; [75;69]] /\
  class_decl [86;97;108;117;101;69;114;114;111;114] =
    [115;116;114;117;99;116;32;86;97;108;117;101;69;114;114;111;114;32;123;125;59] /\
  class_decl [97;46;98;46;69;114;114] =
    k_namespace ++ [32;97;32;123;32] ++ k_namespace ++ [32;98;32;123;32] ++ k_struct ++ [32;69;114;114;32;123;125;59;32;125;32;125] /\
  decl_path [97;46;98;46;69;114;114] = [[97]; [98]; [69;114;114]] /\
  catch_path [97;46;98;46;69;114;114] = [[97]; [98]; [69;114;114]] /\
  dots_to_colons [97;46;98;46;69;114;114] = [97;58;58;98;58;58;69;114;114].
Proof. vm_compute. repeat split; reflexivity. Qed.
