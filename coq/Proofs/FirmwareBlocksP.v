(* C07, firmware side, continued: from any layout of the script to the compound statements of the
   firmware, and the conditions every firmware line runs under. *)
From Coq Require Import ZArith List Bool Lia.
From RV Require Import Base.Wire Base.Text Lang.Lex Lang.PyLayout Lang.Layout Lang.EmitBlocks.
From RV Require Import Proofs.RoundTripP Proofs.EmitBlocksP.
Import ListNotations.
Open Scope Z_scope.

Lemma layout_to_firmware : forall tr cx fv fn ex u ns ind,
  layout_ok u ns = true -> is_blank ind = true -> chain_ok tr PvNone (map lerase ns) = true ->
  c_read (emit_list ind (to_ir tr cx fv fn ex (map erase (parse_lines (render_list (ind_unit u) O ns)))))
  = Some (py_cs tr cx fv fn ex (map lerase ns)).
Proof.
  intros tr cx fv fn ex u ns ind Hl Hi Hc.
  rewrite (parse_render_roundtrip u ns Hl). now apply firmware_blocks_are_pythons.
Qed.

(* ================================================================ paths *)

Lemma h_shape_if c : h_shape (h_if c) = HIf (cond_id c).
Proof. reflexivity. Qed.
Lemma h_shape_else_if c : h_shape (h_else_if c) = HElseIf (cond_id c).
Proof. reflexivity. Qed.
Lemma h_shape_else : h_shape s_else = HElse.
Proof. reflexivity. Qed.
Lemma h_shape_try : h_shape s_try = HOther.
Proof. reflexivity. Qed.
Lemma h_shape_while c : h_shape (h_while c) = HOther.
Proof. reflexivity. Qed.
Lemma h_shape_catch c : h_shape (h_catch c) = HOther.
Proof. reflexivity. Qed.
Lemma h_shape_for v n : h_shape (h_for v n) = HOther.
Proof. reflexivity. Qed.

Lemma go_c_eq : forall l pre chain,
  (fix go (pre : list pstep) (chain : list text) (l : list ctree) {struct l} : list (list pstep * text) :=
     match l with
     | [] => []
     | x :: r => let '(ps, chain') := c_path_t pre chain x in ps ++ go pre chain' r
     end) pre chain l = c_paths pre chain l.
Proof.
  induction l as [|x r IH]; intros pre chain; [reflexivity|].
  unfold c_paths. cbn [c_paths2]. destruct (c_path_t pre chain x) as [ps ch].
  rewrite IH. unfold c_paths. destruct (c_paths2 pre ch r). reflexivity.
Qed.

Lemma c_path_t_block pre chain h b : c_path_t pre chain (CBlock h b) =
  match h_shape h with
  | HIf c => (c_paths (pre ++ [PChain [] (Some c)]) [] b, [c])
  | HElseIf c => (c_paths (pre ++ [PChain chain (Some c)]) [] b, chain ++ [c])
  | HElse => (c_paths (pre ++ [PChain chain None]) [] b, [])
  | HOther => (c_paths (pre ++ [POther h]) [] b, [])
  end.
Proof. cbn -[h_shape]. destruct (h_shape h); rewrite go_c_eq; reflexivity. Qed.

Lemma c_paths2_app : forall a b pre chain,
  c_paths2 pre chain (a ++ b) =
  let '(p1, c1) := c_paths2 pre chain a in let '(p2, c2) := c_paths2 pre c1 b in (p1 ++ p2, c2).
Proof.
  induction a as [|x r IH]; intros b pre chain.
  - cbn. destruct (c_paths2 pre chain b). reflexivity.
  - cbn [app c_paths2]. destruct (c_path_t pre chain x) as [ps ch]. rewrite IH.
    destruct (c_paths2 pre ch r) as [p1 c1]. destruct (c_paths2 pre c1 b) as [p2 c2].
    now rewrite app_assoc.
Qed.

Lemma c_paths2_single pre chain t : c_paths2 pre chain [t] = c_path_t pre chain t.
Proof. cbn. destruct (c_path_t pre chain t). now rewrite app_nil_r. Qed.

Section Paths.
  Variable tr : text -> list (list text).
  Variables cx fv fn ex : text -> text.
  Local Notation py_c' := (py_c tr cx fv fn ex).
  Local Notation py_cs' := (py_cs tr cx fv fn ex).
  Local Notation pp_t := (py_path_t tr cx fv fn ex).
  Local Notation pp2 := (py_paths2 tr cx fv fn ex).
  Local Notation pp := (py_paths tr cx fv fn ex).

  Lemma go_py_eq : forall l pre chain,
    (fix go (pre : list pstep) (chain : list text) (l : list stree) {struct l} : list (list pstep * text) :=
       match l with
       | [] => []
       | x :: r => let '(ps, chain') := pp_t pre chain x in ps ++ go pre chain' r
       end) pre chain l = pp pre chain l.
  Proof.
    induction l as [|x r IH]; intros pre chain; [reflexivity|].
    unfold py_paths. cbn [py_paths2]. destruct (pp_t pre chain x) as [ps ch].
    rewrite IH. unfold py_paths. destruct (pp2 pre ch r). reflexivity.
  Qed.

  Lemma py_path_t_block pre chain k h b : pp_t pre chain (SBlock k h b) =
    match k with
    | KIf => (pp (pre ++ [PChain [] (Some (cond_id (cx h)))]) [] b, [cond_id (cx h)])
    | KElif => (pp (pre ++ [PChain chain (Some (cond_id (cx h)))]) [] b, chain ++ [cond_id (cx h)])
    | KElse => if existsb (yields_node tr) b then (pp (pre ++ [PChain chain None]) [] b, []) else ([], chain)
    | KTry => (pp (pre ++ [POther s_try]) [] b, [])
    | KExcept => (pp (pre ++ [POther (h_catch (ex h))]) [] b, [])
    | KWhile => (pp (pre ++ [POther (h_while (cx h))]) [] b, [])
    | KFor => (pp (pre ++ [POther (h_for (fv h) (fn h))]) [] b, [])
    end.
  Proof.
    destruct k; cbn -[h_catch h_while h_for s_try cond_id]; try rewrite go_py_eq; try reflexivity.
  Qed.

  Lemma paths_list : forall l,
    Forall (fun t => forall pre chain, c_paths2 pre chain (py_c' t) = pp_t pre chain t) l ->
    forall pre chain, c_paths2 pre chain (py_cs' l) = pp2 pre chain l.
  Proof.
    induction 1 as [|x r Hx Hr IH]; intros pre chain; [reflexivity|].
    cbn [py_cs py_paths2]. rewrite c_paths2_app, Hx. destruct (pp_t pre chain x) as [ps ch].
    rewrite IH. reflexivity.
  Qed.

  Lemma paths_tree : forall t pre chain, c_paths2 pre chain (py_c' t) = pp_t pre chain t.
  Proof.
    induction t as [s|k h b Hb] using stree_ind'; intros pre chain; [reflexivity|].
    rewrite py_c_block, py_path_t_block.
    pose proof (paths_list b Hb) as L.
    destruct k.
    - rewrite c_paths2_single, c_path_t_block, h_shape_if. unfold c_paths, py_paths. now rewrite L.
    - rewrite c_paths2_single, c_path_t_block, h_shape_else_if. unfold c_paths, py_paths. now rewrite L.
    - destruct (existsb (yields_node tr) b); [|reflexivity].
      rewrite c_paths2_single, c_path_t_block, h_shape_else. unfold c_paths, py_paths. now rewrite L.
    - rewrite c_paths2_single, c_path_t_block, h_shape_try. unfold c_paths, py_paths. now rewrite L.
    - rewrite c_paths2_single, c_path_t_block, h_shape_catch. unfold c_paths, py_paths. now rewrite L.
    - rewrite c_paths2_single, c_path_t_block, h_shape_while. unfold c_paths, py_paths. now rewrite L.
    - rewrite c_paths2_single, c_path_t_block, h_shape_for. unfold c_paths, py_paths. now rewrite L.
  Qed.

  Lemma firmware_paths_are_pythons : forall ind ns,
    is_blank ind = true -> chain_ok tr PvNone ns = true ->
    fw_paths (emit_list ind (to_ir tr cx fv fn ex ns)) = Some (pp [] [] ns).
  Proof.
    intros ind ns Hi Hok. unfold fw_paths.
    rewrite (firmware_blocks_are_pythons tr cx fv fn ex ind ns Hi Hok). cbn [option_map].
    unfold c_paths, py_paths. rewrite paths_list; [reflexivity|].
    apply Forall_forall. intros t _. apply paths_tree.
  Qed.
End Paths.

(* ================================================================ the shape at stake *)

(* statement layer of the example: `pass` and `print(...)` yield no node, s1 / s2 one line each *)
Definition ex_tr (s : text) : list (list text) :=
  if text_eqb s [112;97;115;115] then []                                        (* pass *)
  else if text_eqb s [112;114;105;110;116;40;34;104;34;41] then []              (* print("h") *)
  else [[s ++ [59]]].
Definition ex_cx (h : text) : text :=
  match rev h with _ :: c :: _ => [c] | _ => [] end.                            (* `if a:` -> a *)
Definition ex_chain : list stree :=
  [SBlock KIf [105;102;32;97;58] [SLeaf [115;49]];
   SBlock KElif [101;108;105;102;32;98;58] [SLeaf [112;97;115;115]];
   SBlock KElif [101;108;105;102;32;99;58] [SLeaf [112;114;105;110;116;40;34;104;34;41]];
   SBlock KElse [101;108;115;101;58] [SLeaf [115;50]]].

(* what a firmware without the two do-nothing stanzas looks like *)
Definition ex_dropped : list text :=
  [ s_two ++ h_if [97] ++ s_open; s_two ++ s_two ++ [115;49;59]; s_two ++ s_close;
    s_two ++ s_else ++ s_open; s_two ++ s_two ++ [115;50;59]; s_two ++ s_close ].

Lemma empty_elif_kept :
  chain_ok ex_tr PvNone ex_chain = true
  /\ c_read (emit_list s_two (to_ir ex_tr ex_cx ex_cx ex_cx ex_cx ex_chain))
     = Some [CBlock (h_if [97]) [CLine [115;49;59]]; CBlock (h_else_if [98]) []; CBlock (h_else_if [99]) [];
             CBlock s_else [CLine [115;50;59]]]
  /\ fw_paths (emit_list s_two (to_ir ex_tr ex_cx ex_cx ex_cx ex_cx ex_chain))
     = Some [([PChain [] (Some [97;41])], [115;49;59]);
             ([PChain [[97;41]; [98;41]; [99;41]] None], [115;50;59])].
Proof. repeat split; vm_compute; reflexivity. Qed.

Lemma dropped_elif_moves_else :
  fw_paths ex_dropped <> Some (py_paths ex_tr ex_cx ex_cx ex_cx ex_cx [] [] ex_chain).
Proof. vm_compute. discriminate. Qed.
