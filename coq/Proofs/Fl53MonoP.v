(* fl53 (Host/LCDFloat.v: nearest binary64 number, ties to even, unbounded exponent) is monotone:
   p < q -> fl53 p <= fl53 q.  Used by Proofs/ServoFloatP.v (the two linear maps of Servo stay within
   their bounds when the top of the range is mapped exactly). *)
From Coq Require Import ZArith QArith Qpower Lia Lqa List Bool.
From RV Require Import Base.LcdBase Host.LCD Host.LCDFloat Proofs.LCDHostP Proofs.LCDFloatP.
Open Scope Q_scope.

Lemma pow2_ge1 e : (0 <= e)%Z -> 1 <= pow2 e.
Proof.
  intro H. rewrite pow2_nonneg_Z by exact H. change 1 with (inject_Z 1). rewrite <- Zle_Qle.
  pose proof (Z.pow_pos_nonneg 2 e ltac:(lia) H). lia.
Qed.

Lemma pow2_le a b : (a <= b)%Z -> pow2 a <= pow2 b.
Proof.
  intro H. replace b with (a + (b - a))%Z by lia. rewrite pow2_add.
  pose proof (pow2_pos a) as Pa. pose proof (pow2_ge1 (b - a) ltac:(lia)) as Pb.
  rewrite <- (Qmult_1_r (pow2 a)) at 1. apply Qmult_le_l; assumption.
Qed.

Lemma pow2_lt_inv a b : pow2 a < pow2 b -> (a < b)%Z.
Proof.
  intro H. destruct (Z_lt_le_dec a b) as [L|L]; [exact L|]. pose proof (pow2_le b a L). lra.
Qed.

(* the exponent found by fl_exp is floor(log2 q): the upper half *)
Lemma fl_exp_lt q : 0 < q -> q < pow2 (fl_exp q + 1).
Proof.
  intros Hq. unfold fl_exp. set (e0 := (Z.log2 (Qnum q) - Z.log2 (Z.pos (Qden q)))%Z).
  destruct (Qle_bool (pow2 e0) q) eqn:E.
  2:{ replace (e0 - 1 + 1)%Z with e0 by lia. apply Qnot_le_lt. intro H. apply Qle_bool_iff in H. congruence. }
  clear E. destruct q as [n d]. cbn [Qnum Qden] in *.
  assert (Hn : (0 < n)%Z) by (unfold Qlt in Hq; cbn in Hq; lia).
  pose proof (Z.log2_spec n Hn) as [_ Ln]. pose proof (Z.log2_spec (Z.pos d) ltac:(lia)) as [Ld _].
  pose proof (Z.log2_nonneg n) as Nn. pose proof (Z.log2_nonneg (Z.pos d)) as Nd.
  set (ln := Z.log2 n) in *. set (ld := Z.log2 (Z.pos d)) in *.
  replace (e0 + 1)%Z with (Z.succ ln + - ld)%Z by (unfold e0; lia).
  rewrite pow2_add. unfold pow2 at 2. rewrite Qpower_opp. fold (pow2 ld).
  rewrite !pow2_nonneg_Z by lia.
  set (A := (2 ^ Z.succ ln)%Z) in *. set (B := (2 ^ ld)%Z) in *.
  assert (HB : (0 < B)%Z) by (unfold B; apply Z.pow_pos_nonneg; lia).
  apply Qlt_shift_div_l; [change 0 with (inject_Z 0); rewrite <- Zlt_Qlt; exact HB|].
  unfold Qlt, Qmult, inject_Z. cbn [Qnum Qden]. rewrite Pos2Z.inj_mul. nia.
Qed.

Lemma fl_exp_mono p q : 0 < p -> p <= q -> (fl_exp p <= fl_exp q)%Z.
Proof.
  intros Hp Hpq. pose proof (fl_exp_le p Hp) as L. pose proof (fl_exp_lt q ltac:(lra)) as U.
  assert (H : pow2 (fl_exp p) < pow2 (fl_exp q + 1)) by lra. apply pow2_lt_inv in H. lia.
Qed.

Lemma pow2_52 : pow2 52 == inject_Z 4503599627370496.
Proof. vm_compute. reflexivity. Qed.
Lemma pow2_53 : pow2 53 == inject_Z 9007199254740992.
Proof. vm_compute. reflexivity. Qed.

(* the 53-bit significand: 2^52 <= mant <= 2^53 *)
Lemma fl_mant_bounds q : 0 < q ->
  (4503599627370496 <= round_half_even (q / pow2 (fl_exp q - 52)) <= 9007199254740992)%Z.
Proof.
  intros Hq. pose proof (fl_exp_le q Hq) as L. pose proof (fl_exp_lt q Hq) as U.
  set (E := fl_exp q) in *. set (S := pow2 (E - 52)).
  assert (PS : 0 < S) by apply pow2_pos.
  assert (HL : pow2 E == inject_Z 4503599627370496 * S).
  { unfold S. rewrite <- pow2_52, <- pow2_add. replace (52 + (E - 52))%Z with E by lia. reflexivity. }
  assert (HU : pow2 (E + 1) == inject_Z 9007199254740992 * S).
  { unfold S. rewrite <- pow2_53, <- pow2_add. replace (53 + (E - 52))%Z with (E + 1)%Z by lia. reflexivity. }
  assert (Y1 : inject_Z 4503599627370496 <= q / S) by (apply Qle_shift_div_l; [exact PS | lra]).
  assert (Y2 : q / S < inject_Z 9007199254740992) by (apply Qlt_shift_div_r; [exact PS | lra]).
  destruct (rhe_near_Q (q / S)) as [N1 N2]. set (r := round_half_even (q / S)) in *.
  assert (A : inject_Z (4503599627370496 + -1) < inject_Z r).
  { rewrite inject_Z_plus. change (inject_Z (-1)) with (-(1)). lra. }
  assert (B : inject_Z r < inject_Z (9007199254740992 + 1)).
  { rewrite inject_Z_plus. change (inject_Z 1) with 1. lra. }
  rewrite <- Zlt_Qlt in A, B. lia.
Qed.

Lemma fl_pos_mono p q : 0 < p -> p < q -> fl_pos p <= fl_pos q.
Proof.
  intros Hp Hpq. assert (Hq : 0 < q) by lra.
  pose proof (fl_exp_mono p q Hp ltac:(lra)) as HE.
  pose proof (fl_mant_bounds p Hp) as [_ Mp]. pose proof (fl_mant_bounds q Hq) as [Mq _].
  unfold fl_pos. rewrite !Qred_correct.
  set (Ep := fl_exp p) in *. set (Eq := fl_exp q) in *.
  destruct (Z.eq_dec Ep Eq) as [EE|NE].
  - rewrite EE. set (S := pow2 (Eq - 52)). assert (PS : 0 < S) by apply pow2_pos.
    assert (D : p / S < q / S).
    { unfold Qdiv. apply Qmult_lt_compat_r; [apply Qinv_lt_0_compat; exact PS | exact Hpq]. }
    pose proof (rhe_mono_Q _ _ D) as R. rewrite Zle_Qle in R.
    apply Qmult_le_compat_r; [exact R | lra].
  - assert (LT : (Ep + 1 <= Eq)%Z) by lia.
    set (Sp := pow2 (Ep - 52)) in *. set (Sq := pow2 (Eq - 52)) in *.
    assert (PSp : 0 < Sp) by apply pow2_pos. assert (PSq : 0 < Sq) by apply pow2_pos.
    assert (H1 : inject_Z (round_half_even (p / Sp)) * Sp <= pow2 (Ep + 1)).
    { assert (HU : pow2 (Ep + 1) == inject_Z 9007199254740992 * Sp).
      { unfold Sp. rewrite <- pow2_53, <- pow2_add. replace (53 + (Ep - 52))%Z with (Ep + 1)%Z by lia. reflexivity. }
      rewrite HU. apply Qmult_le_compat_r; [rewrite <- Zle_Qle; exact Mp | lra]. }
    assert (H2 : pow2 Eq <= inject_Z (round_half_even (q / Sq)) * Sq).
    { assert (HL : pow2 Eq == inject_Z 4503599627370496 * Sq).
      { unfold Sq. rewrite <- pow2_52, <- pow2_add. replace (52 + (Eq - 52))%Z with Eq by lia. reflexivity. }
      rewrite HL. apply Qmult_le_compat_r; [rewrite <- Zle_Qle; exact Mq | lra]. }
    pose proof (pow2_le (Ep + 1) Eq LT). lra.
Qed.

Lemma Qnum_neg q : (Qnum q <? 0)%Z = true <-> q < 0.
Proof. unfold Qlt. cbn [Qnum Qden]. rewrite Z.ltb_lt. split; intros H; lia. Qed.

Lemma fl53_pos_eq q : 0 < q -> fl53 q = fl_pos q.
Proof.
  intro H. unfold fl53.
  destruct (Qnum q =? 0)%Z eqn:E0; [apply Qnum_sign in E0; lra|].
  destruct (Qnum q <? 0)%Z eqn:E1; [apply Qnum_neg in E1; lra | reflexivity].
Qed.

Lemma fl53_neg_eq q : q < 0 -> fl53 q = (- fl_pos (- q))%Q.
Proof.
  intro H. unfold fl53.
  destruct (Qnum q =? 0)%Z eqn:E0; [apply Qnum_sign in E0; lra|].
  destruct (Qnum q <? 0)%Z eqn:E1; [reflexivity|].
  assert (X : ~ q < 0) by (intro Y; apply Qnum_neg in Y; congruence). contradiction.
Qed.

Lemma fl53_nonneg q : 0 <= q -> 0 <= fl53 q.
Proof. intro H. destruct (fl53_nonneg_err q H) as [A _]. unfold eps53 in A. lra. Qed.

Theorem fl53_mono_lt p q : p < q -> fl53 p <= fl53 q.
Proof.
  intro H. destruct (Qlt_le_dec p 0) as [Np|Pp]; destruct (Qlt_le_dec q 0) as [Nq|Pq].
  - rewrite (fl53_neg_eq p Np), (fl53_neg_eq q Nq).
    pose proof (fl_pos_mono (- q) (- p) ltac:(lra) ltac:(lra)). lra.
  - pose proof (fl53_nonpos p ltac:(lra)). pose proof (fl53_nonneg q Pq). lra.
  - lra.
  - destruct (Qlt_le_dec 0 p) as [PP|ZP].
    + rewrite (fl53_pos_eq p PP), (fl53_pos_eq q ltac:(lra)). apply fl_pos_mono; assumption.
    + pose proof (fl53_nonpos p ZP). pose proof (fl53_nonneg q Pq). lra.
Qed.

(* ---------- fl53 is idempotent: its results are binary64 numbers ---------- *)
Lemma fl_exp_unique y E : 0 < y -> pow2 E <= y -> y < pow2 (E + 1) -> fl_exp y = E.
Proof.
  intros Hy L U. pose proof (fl_exp_le y Hy) as L'. pose proof (fl_exp_lt y Hy) as U'.
  assert (A : pow2 (fl_exp y) < pow2 (E + 1)) by lra. apply pow2_lt_inv in A.
  assert (B : pow2 E < pow2 (fl_exp y + 1)) by lra. apply pow2_lt_inv in B. lia.
Qed.

Lemma fl_pos_fix y k E :
  0 < y -> (4503599627370496 <= k < 9007199254740992)%Z -> y == inject_Z k * pow2 (E - 52) -> fl_pos y == y.
Proof.
  intros Hy [K1 K2] HY. set (S := pow2 (E - 52)) in *. assert (PS : 0 < S) by apply pow2_pos.
  assert (HL : pow2 E == inject_Z 4503599627370496 * S).
  { unfold S. rewrite <- pow2_52, <- pow2_add. replace (52 + (E - 52))%Z with E by lia. reflexivity. }
  assert (HU : pow2 (E + 1) == inject_Z 9007199254740992 * S).
  { unfold S. rewrite <- pow2_53, <- pow2_add. replace (53 + (E - 52))%Z with (E + 1)%Z by lia. reflexivity. }
  assert (X1 : inject_Z 4503599627370496 * S <= inject_Z k * S).
  { apply Qmult_le_compat_r; [rewrite <- Zle_Qle; exact K1 | lra]. }
  assert (X2 : inject_Z k * S < inject_Z 9007199254740992 * S).
  { apply Qmult_lt_compat_r; [exact PS | rewrite <- Zlt_Qlt; exact K2]. }
  assert (HE : fl_exp y = E) by (apply fl_exp_unique; lra).
  unfold fl_pos. rewrite Qred_correct, HE. fold S.
  assert (D : y / S == inject_Z k) by (rewrite HY; field; lra).
  rewrite (rhe_unique_Q (y / S) k) by (rewrite D; lra). symmetry. exact HY.
Qed.

Lemma fl_pos_repr x : 0 < x ->
  exists k E, (4503599627370496 <= k < 9007199254740992)%Z /\ fl_pos x == inject_Z k * pow2 (E - 52).
Proof.
  intros Hx. pose proof (fl_mant_bounds x Hx) as [M1 M2].
  set (r := round_half_even (x / pow2 (fl_exp x - 52))) in *.
  destruct (Z.eq_dec r 9007199254740992) as [EQ|NE].
  - exists 4503599627370496%Z, (fl_exp x + 1)%Z. split; [lia|].
    unfold fl_pos. rewrite Qred_correct. fold r. rewrite EQ.
    replace (fl_exp x + 1 - 52)%Z with (1 + (fl_exp x - 52))%Z by lia. rewrite pow2_add.
    change (pow2 1) with (2 # 1). change (inject_Z 9007199254740992) with (inject_Z 4503599627370496 * (2 # 1)). ring.
  - exists r, (fl_exp x). split; [lia|]. unfold fl_pos. rewrite Qred_correct. fold r. reflexivity.
Qed.

Lemma fl_pos_positive x : 0 < x -> 0 < fl_pos x.
Proof.
  intro H. destruct (fl_pos_err x H) as [A _]. unfold eps53 in A. lra.
Qed.

(* for every representation y of a result of fl53 *)
Theorem fl53_idem x y : y == fl53 x -> fl53 y == y.
Proof.
  intro HY. destruct (Qlt_le_dec 0 x) as [P|NP].
  - rewrite (fl53_pos_eq x P) in HY. pose proof (fl_pos_positive x P) as PP.
    destruct (fl_pos_repr x P) as (k & E & K & R).
    rewrite (fl53_pos_eq y) by lra. apply (fl_pos_fix y k E); [lra | exact K | rewrite HY; exact R].
  - destruct (Qlt_le_dec x 0) as [N|Z0].
    + rewrite (fl53_neg_eq x N) in HY. pose proof (fl_pos_positive (- x) ltac:(lra)) as PP.
      destruct (fl_pos_repr (- x) ltac:(lra)) as (k & E & K & R).
      rewrite (fl53_neg_eq y) by lra.
      rewrite (fl_pos_fix (- y) k E); [lra | lra | exact K | rewrite HY; rewrite <- R; ring].
    + assert (X0 : x == 0) by lra. assert (F0 : fl53 x = 0).
      { unfold fl53. apply Qnum_sign in X0. rewrite X0. reflexivity. }
      rewrite F0 in HY. assert (G0 : fl53 y = 0).
      { unfold fl53. apply Qnum_sign in HY. rewrite HY. reflexivity. }
      rewrite G0, HY. reflexivity.
Qed.
