(* Proofs for C02, functions and hoisting. *)
From Coq Require Import ZArith QArith List Bool Lia.
From RV Require Import Base.Wire Base.Text Lang.PyAst Lang.PySem Lang.Infer Lang.InferGuard Lang.InferSpec
  Lang.Decl Lang.DeclSpec Lang.FnSpec Gen.InferTables Proofs.InferP Proofs.JoinP Proofs.DeclP.
Import ListNotations.
Open Scope Z_scope.

(* ------------------------------------------------------------------ a wider label holds what a narrower one holds *)
Lemma sub_ty_repr u t v : sub_ty u t -> repr u v -> repr t v.
Proof.
  intros [->|[[-> ->]|[[-> ->]|[-> ->]]]] H; [exact H| | |]; destruct v; cbn in *; tauto.
Qed.

(* whichever return statement executes, the declared result type holds its value *)
Theorem result_covers_every_return :
  forall (rets : list (ty * pval)) t,
    merge_return_types (map fst rets) false = Some t ->
    forallb scalar (map fst rets) = true ->
    (forall u v, In (u, v) rets -> repr u v) ->
    forall u v, In (u, v) rets -> crepr (cpp_type t) v.
Proof.
  intros rets t Hm Hsc Hr u v Hin.
  apply repr_crepr. apply (sub_ty_repr u); [|apply Hr; exact Hin].
  eapply merge_ret_upper; [exact Hm | exact Hsc|].
  apply (in_map fst) in Hin. exact Hin.
Qed.

(* ------------------------------------------------------------------ witnesses *)
Lemma loop_hoist_stale_table :
  exists ps d,
    run_items None stale_prog = Some ps /\
    In (z_g, d) (selected_functions (p_fe ps)) /\
    fd_params d = [(z_p, CInt)] /\ fd_ret d = CFloat /\
    tlookup z_out (fd_locals d) = Some CInt /\
    ~ crepr CInt (VFloat (3 # 2)) /\ c_store CInt (VFloat (3 # 2)) = Some (VInt 1).
Proof.
  eexists. eexists. split; [vm_compute; reflexivity|].
  split; [vm_compute; right; left; reflexivity|].
  split; [reflexivity|]. split; [reflexivity|]. split; [vm_compute; reflexivity|].
  split; [cbn; tauto | vm_compute; reflexivity].
Qed.

Lemma loop_hoist_fresh_table :
  exists ps d,
    run_items None fresh_prog = Some ps /\
    In (z_g, d) (selected_functions (p_fe ps)) /\
    tlookup z_out (fd_locals d) = Some CFloat.
Proof.
  eexists. eexists. split; [vm_compute; reflexivity|].
  split; [vm_compute; right; left; reflexivity|]. vm_compute; reflexivity.
Qed.

Lemma param_relabel :
  exists ps d,
    run_items None relabel_prog = Some ps /\
    tlookup z_f (fe_calls (p_fe ps)) = Some [[TFloat]] /\
    selected_functions (p_fe ps) = [(z_f, d)] /\
    fd_params d = [(z_p, CInt)] /\ fd_ret d = CFloat /\
    ~ crepr CInt (VFloat (5 # 2)).
Proof.
  eexists. eexists. split; [vm_compute; reflexivity|].
  split; [vm_compute; reflexivity|]. split; [vm_compute; reflexivity|].
  split; [reflexivity|]. split; [reflexivity|]. cbn; tauto.
Qed.

(* ------------------------------------------------------------------ if / elif / else hoisting *)
Definition add_first (f : ident -> ty) (acc0 : list (ident * ty)) (x : ident) : list (ident * ty) :=
  if tmem x (map fst acc0) then acc0 else acc0 ++ [(x, f x)].

Lemma add_first_nodup f names : forall acc0,
  NoDup (map fst acc0) -> NoDup (map fst (fold_left (add_first f) names acc0)).
Proof.
  induction names as [|x r IH]; intros acc0 Hn; cbn [fold_left]; [exact Hn|].
  apply IH. unfold add_first. destruct (tmem x (map fst acc0)) eqn:E; [exact Hn|].
  rewrite map_app. cbn [map fst].
  assert (Hx : ~ In x (map fst acc0)).
  { intro Hin. apply tmem_In in Hin. rewrite Hin in E. discriminate. }
  clear E IH. induction (map fst acc0) as [|k l IHl]; cbn.
  - constructor; [intros []|constructor].
  - inversion Hn; subst. constructor.
    + rewrite in_app_iff. intros [H|[H|[]]]; [contradiction|]. subst. apply Hx. left; reflexivity.
    + apply IHl; [assumption|]. intro H. apply Hx. right; exact H.
Qed.

Lemma promote_collect_nodup base kids : forall seen,
  NoDup (map fst seen) -> NoDup (map fst (promote_collect base kids seen)).
Proof.
  induction kids as [|c r IH]; intros seen Hn; cbn [promote_collect]; [exact Hn|].
  apply IH. apply (add_first_nodup (fun x => tget (d_types c) x)). exact Hn.
Qed.

Definition tset_all (order : list (ident * ty)) (G : tenv) : tenv :=
  fold_left (fun G0 xt => tset G0 (fst xt) (snd xt)) order G.

Lemma tset_all_other order : forall G x, ~ In x (map fst order) -> tget (tset_all order G) x = tget G x.
Proof.
  induction order as [|[y u] r IH]; intros G x Hn; [reflexivity|].
  unfold tset_all in *. cbn [fold_left fst snd].
  rewrite IH; [|intro H; apply Hn; right; exact H].
  rewrite tget_tset. destruct (text_eqb x y) eqn:E; [|reflexivity].
  apply text_eqb_eq in E. subst. exfalso. apply Hn. left; reflexivity.
Qed.

Lemma tset_all_in order : forall G x t,
  NoDup (map fst order) -> In (x, t) order -> tget (tset_all order G) x = t.
Proof.
  induction order as [|[y u] r IH]; intros G x t Hn Hin; [destruct Hin|].
  cbn [map fst] in Hn. inversion Hn as [|? ? Hy Hr]; subst.
  unfold tset_all in *. cbn [fold_left fst snd].
  destruct Hin as [Heq|Hin].
  - inversion Heq; subst y u.
    rewrite (tset_all_other r _ x Hy). rewrite tget_tset, text_eqb_refl. reflexivity.
  - apply IH; assumption.
Qed.

Lemma run_stmt_if (S : Type) call C (s : S) st brs els :
  run_stmt S call C s st (SIf brs els) =
    let base := st_ctx st in
    match run_branches S call C s base (d_promo base) (st_acc st) brs with
    | None => None
    | Some (s1, kids, p1, a1) =>
        let after_else :=
          match els with
          | ONone => Some (s1, kids, p1, a1)
          | OSome b =>
              match run_block S call C s1 (mk_bstate (mk_dctx (d_types base) (d_decl base) p1) [] a1) b with
              | None => None
              | Some (s2, stc) =>
                  Some (s2, kids ++ [st_ctx stc], share_back (d_promo base) (d_promo (st_ctx stc)), st_acc stc)
              end
          end in
        match after_else with
        | None => None
        | Some (s2, kids2, p2, a2) =>
            let order := promote_collect (d_decl base) kids2 [] in
            match order with
            | [] => Some (s2, mk_bstate (mk_dctx (d_types base) (d_decl base) p2) (st_decls st) a2)
            | _ =>
                let D0 := match p2 with Some d => d | None => [] end in
                let types1 := fold_left (fun G xt => tset G (fst xt) (snd xt)) order (d_types base) in
                let D1 := fold_left (fun D xt => pset D (fst xt) (cpp_type (snd xt))) order D0 in
                let decls := map (fun xt => (fst xt, cpp_type (snd xt))) order in
                Some (s2, mk_bstate (mk_dctx types1 (fold_left add_name (map fst order) (d_decl base)) (Some D1))
                                    (st_decls st ++ decls) a2)
            end
        end
    end.
Proof. reflexivity. Qed.

(* the C type of every declaration an if / elif / else hoists is the one of the label var_types holds for
   that name after the statement - whatever the promotion table contained before *)
Theorem branch_hoist_type_is_label :
  forall (S : Type) call C (s : S) st brs els s1 st1,
    run_stmt S call C s st (SIf brs els) = Some (s1, st1) ->
    exists hoisted,
      st_decls st1 = st_decls st ++ hoisted /\
      forall x c, In (x, c) hoisted -> c = cpp_type (tget (d_types (st_ctx st1)) x).
Proof.
  intros S call C s st brs els s1 st1 Hrun.
  rewrite run_stmt_if in Hrun. cbv zeta in Hrun.
  destruct (run_branches S call C s (st_ctx st) (d_promo (st_ctx st)) (st_acc st) brs) as [[[[s2 kids] p1] a1]|]; [|discriminate].
  match type of Hrun with match ?ae with _ => _ end = _ => destruct ae as [[[[s3 kids2] p2] a2]|] end; [|discriminate].
  pose proof (promote_collect_nodup (d_decl (st_ctx st)) kids2 [] (NoDup_nil _)) as Hnd.
  destruct (promote_collect (d_decl (st_ctx st)) kids2 []) as [|o0 orest] eqn:Eo.
  - inversion Hrun; subst. exists []. cbn [st_decls]. split; [rewrite app_nil_r; reflexivity | intros x c []].
  - inversion Hrun; subst. clear Hrun. cbn [st_decls st_ctx d_types].
    eexists. split; [reflexivity|].
    intros x c Hin.
    apply (proj1 (in_map_iff (fun xt : ident * ty => (fst xt, cpp_type (snd xt))) (o0 :: orest) (x, c))) in Hin.
    destruct Hin as ([y t] & Heq & Hin). cbn [fst snd] in Heq. inversion Heq; subst.
    f_equal. symmetry. apply (tset_all_in (o0 :: orest)); assumption.
Qed.

(* ------------------------------------------------------------------ functions whose body is a list of (guarded) returns *)
Lemma run_block_nil (S : Type) call C (s : S) st : run_block S call C s st BNil = Some (s, st).
Proof. reflexivity. Qed.
Lemma run_block_cons (S : Type) call C (s : S) st x r :
  run_block S call C s st (BCons x r) =
    match run_stmt S call C s st x with None => None | Some (s1, st1) => run_block S call C s1 st1 r end.
Proof. reflexivity. Qed.
Lemma run_branches_nil (S : Type) call C (s : S) base p a :
  run_branches S call C s base p a BrNil = Some (s, [], p, a).
Proof. reflexivity. Qed.
Lemma run_branches_cons (S : Type) call C (s : S) base p a b r :
  run_branches S call C s base p a (BrCons b r) =
    match run_block S call C s (mk_bstate (mk_dctx (d_types base) (d_decl base) p) [] a) b with
    | None => None
    | Some (s1, stc) =>
        match run_branches S call C s1 base (share_back (d_promo base) (d_promo (st_ctx stc))) (st_acc stc) r with
        | None => None
        | Some (s2, kids, p2, a2) => Some (s2, st_ctx stc :: kids, p2, a2)
        end
    end.
Proof. reflexivity. Qed.
Lemma run_stmt_return (S : Type) call C (s : S) st e :
  run_stmt S call C s st (SReturn e) = do_return S call C s st e.
Proof. reflexivity. Qed.

Lemma infer_d_static F A C (c : dctx) e :
  infer_d unit (call_st F A) C tt c e =
    match infer_s F A C (d_types c) e with
    | Some (t, G1) => Some (t, mk_dctx G1 (d_decl c) (d_promo c), tt)
    | None => None
    end.
Proof.
  unfold infer_d, infer_s.
  pose proof (infer_sim (unit * option pmap) (fun sp => sp = (tt, d_promo c)) (call_st F A (d_decl c)) F A C) as Hsim.
  assert (Hcall : forall (s : unit * option pmap) (G : tenv) (f : ident) (sg : list ty),
             s = (tt, d_promo c) ->
             fst (call_st F A (d_decl c) s G f sg) = (tt, d_promo c) /\
             snd (call_st F A (d_decl c) s G f sg) = resolve_call F A f sg).
  { intros s G f sg ->. unfold call_st. split; reflexivity. }
  specialize (Hsim Hcall e (tt, d_promo c) (d_types c) eq_refl).
  destruct (infer (unit * option pmap) (call_st F A (d_decl c)) C (tt, d_promo c) (d_types c) e) as [[[t G1] s1]|].
  - destruct Hsim as [-> E0]. rewrite E0. reflexivity.
  - rewrite Hsim. reflexivity.
Qed.

Lemma infer_s_guard_pure F A C G e t G1 :
  infer_s F A C G e = Some (t, G1) -> guard F A C G e = true -> G1 = G /\ ety F A C G e = t.
Proof.
  intros Hi Hg. split.
  - unfold infer_s in Hi.
    destruct (infer unit (call_static F A) C tt G e) as [[[t0 G0] s0]|] eqn:E; [|discriminate].
    inversion Hi; subst. destruct s0.
    eapply pure_infer; [exact E | apply guard_pure; exact Hg].
  - unfold ety. rewrite Hi. reflexivity.
Qed.

Lemma new_names_same base (c : dctx) : d_decl c = base -> new_names base c = [].
Proof.
  intros <-. unfold new_names. apply filter_none. intros x Hx.
  apply tmem_In in Hx. rewrite Hx. reflexivity.
Qed.

Section Rets.
  Variable F : ftable.
  Variable A : aliases.
  Variable C : option ictx.
  Notation run_s := (run_stmt unit (call_st F A) C tt).
  Notation run_b := (run_block unit (call_st F A) C tt).

  Definition typed_ok (G : tenv) (e : pexpr) : Prop :=
    exists G1, infer_s F A C G e = Some (ety F A C G e, G1).

  Lemma return_step st e u st1 :
    a_fn (st_acc st) = true ->
    guard F A C (d_types (st_ctx st)) e = true ->
    do_return unit (call_st F A) C tt st (Some e) = Some (u, st1) ->
    st_ctx st1 = st_ctx st /\ st_decls st1 = st_decls st /\ a_fn (st_acc st1) = true /\
    a_rets (st_acc st1) = a_rets (st_acc st) ++ [ety F A C (d_types (st_ctx st)) e] /\
    typed_ok (d_types (st_ctx st)) e.
  Proof.
    intros Hfn Hg Hrun. unfold do_return in Hrun. rewrite Hfn in Hrun. cbn [negb] in Hrun.
    rewrite infer_d_static in Hrun.
    destruct (infer_s F A C (d_types (st_ctx st)) e) as [[t G1]|] eqn:Ei; [|discriminate].
    destruct (infer_s_guard_pure _ _ _ _ _ _ _ Ei Hg) as [-> <-].
    inversion Hrun; subst. clear Hrun. cbn [st_ctx st_decls st_acc a_fn a_rets].
    destruct (st_ctx st) as [G decl promo]. cbn [d_types d_decl d_promo] in *.
    repeat split; try reflexivity; try assumption.
    exists G. exact Ei.
  Qed.

  Lemma ret_stmt_step st ge u st1 :
    a_fn (st_acc st) = true ->
    guard F A C (d_types (st_ctx st)) (snd ge) = true ->
    run_s st (ret_stmt ge) = Some (u, st1) ->
    d_types (st_ctx st1) = d_types (st_ctx st) /\ a_fn (st_acc st1) = true /\
    a_rets (st_acc st1) = a_rets (st_acc st) ++ [ety F A C (d_types (st_ctx st)) (snd ge)] /\
    typed_ok (d_types (st_ctx st)) (snd ge).
  Proof.
    destruct ge as [g e]. cbn [snd]. intros Hfn Hg Hrun. unfold ret_stmt in Hrun. cbn [fst snd] in Hrun.
    destruct g.
    - rewrite run_stmt_if in Hrun. cbv zeta in Hrun.
      rewrite run_branches_cons, run_block_cons, run_stmt_return in Hrun.
      set (st0 := mk_bstate (mk_dctx (d_types (st_ctx st)) (d_decl (st_ctx st)) (d_promo (st_ctx st))) [] (st_acc st)) in Hrun.
      destruct (do_return unit (call_st F A) C tt st0 (Some e)) as [[u1 stc]|] eqn:Er; [|discriminate].
      destruct (return_step st0 e u1 stc Hfn Hg Er) as (Hc & Hd & Hf & Hr & Hok).
      rewrite run_block_nil, run_branches_nil in Hrun.
      cbn [promote_collect] in Hrun.
      rewrite (new_names_same (d_decl (st_ctx st)) (st_ctx stc)) in Hrun by (rewrite Hc; reflexivity).
      cbn [fold_left] in Hrun. inversion Hrun; subst. clear Hrun.
      cbn [st_ctx st_acc d_types]. repeat split; assumption.
    - rewrite run_stmt_return in Hrun.
      destruct (return_step st e u st1 Hfn Hg Hrun) as (Hc & Hd & Hf & Hr & Hok).
      rewrite Hc. repeat split; assumption.
  Qed.

  Lemma ret_body_run : forall rets st u st1 G,
    a_fn (st_acc st) = true -> d_types (st_ctx st) = G ->
    ret_guard F A C G rets = true ->
    run_b st (ret_body rets) = Some (u, st1) ->
    a_rets (st_acc st1) = a_rets (st_acc st) ++ map (fun ge => ety F A C G (snd ge)) rets /\
    Forall (fun ge => typed_ok G (snd ge)) rets.
  Proof.
    induction rets as [|ge r IH]; intros st u st1 G Hfn HG Hg Hrun.
    - unfold ret_body in Hrun. cbn [map block_of] in Hrun. rewrite run_block_nil in Hrun.
      inversion Hrun; subst. cbn [map]. rewrite app_nil_r. split; [reflexivity | constructor].
    - unfold ret_body in Hrun. cbn [map block_of] in Hrun. rewrite run_block_cons in Hrun.
      unfold ret_guard in Hg. cbn [forallb] in Hg. apply andb_true_iff in Hg as [Hge Hgr].
      apply andb_true_iff in Hge as [Hge _].
      destruct (run_s st (ret_stmt ge)) as [[u1 st2]|] eqn:E1; [|discriminate].
      subst G.
      destruct (ret_stmt_step st ge u1 st2 Hfn Hge E1) as (HG2 & Hf2 & Hr2 & Hok).
      destruct u1.
      destruct (IH st2 u st1 (d_types (st_ctx st)) Hf2 HG2 Hgr Hrun) as (Hr & Hall).
      split.
      + rewrite Hr, Hr2. cbn [map]. rewrite <- app_assoc. reflexivity.
      + constructor; assumption.
  Qed.
End Rets.

Lemma sig_eqb_refl s : sig_eqb s s = true.
Proof. induction s as [|t r IH]; [reflexivity|]. cbn. rewrite ty_eqb_refl, IH. reflexivity. Qed.

Lemma tlookup_aset_same {X} (l : list (ident * X)) k v : tlookup k (aset l k v) = Some v.
Proof.
  induction l as [|[k0 v0] r IH]; cbn.
  - rewrite text_eqb_refl. reflexivity.
  - destruct (text_eqb k k0) eqn:E; cbn; rewrite E; [reflexivity | exact IH].
Qed.

Lemma sig_lookup_sset_same {X} (l : list (list ty * X)) k v : sig_lookup k (sset l k v) = Some v.
Proof.
  induction l as [|[k0 v0] r IH]; cbn.
  - rewrite sig_eqb_refl. reflexivity.
  - destruct (sig_eqb k k0) eqn:E; cbn; rewrite E; [reflexivity | exact IH].
Qed.

(* whichever (guarded) return statement of the variant parsed for signature sg executes, in an environment whose
   parameters hold values of the signature's labels, the declared C return type of that variant holds its value *)
Theorem function_result_covers :
  forall C fe cur name params rets sg fe1 p1 final d rho,
    parse_function_static C fe cur name (mk_fsrc params None (ret_body rets)) (Some sg) = Some (fe1, p1, final) ->
    ret_guard (fn_table fe name) (fe_alias fe) C (fn_tenv cur params sg) rets = true ->
    env_sound (fn_tenv cur params sg) rho ->
    sig_lookup final (get_or [] (tlookup name (fe_defs fe1))) = Some d ->
    forall g e v, In (g, e) rets -> peval rho e = Ok v -> crepr (fd_ret d) v.
Proof.
  intros C fe cur name params rets sg fe1 p1 final d rho Hp Hg Hes Hd g e v Hin Hev.
  unfold parse_function_static in Hp. cbn [fs_params fs_body fs_ret] in Hp.
  destruct (negb (length sg =? length params)%nat); [discriminate|].
  fold (fn_table fe name) in Hp. fold (fn_tenv cur params sg) in Hp.
  set (F0 := fn_table fe name) in *. set (G := fn_tenv cur params sg) in *.
  unfold run_block_s in Hp.
  match type of Hp with context [run_block unit ?c C tt ?st0 ?b] =>
    destruct (run_block unit c C tt st0 b) as [[u st1]|] eqn:Erun; [|discriminate];
    pose proof (ret_body_run F0 (fe_alias fe) C rets st0 u st1 G eq_refl eq_refl Hg Erun) as [Hrets Hall]
  end.
  cbn [st_acc a_rets app] in Hrets.
  destruct (merge_return_types (a_rets (st_acc st1)) false) as [merged|] eqn:Em; [|discriminate].
  rewrite override_none in Hp. inversion Hp; subst fe1 p1 final. clear Hp.
  cbn [fe_defs] in Hd. rewrite tlookup_aset_same in Hd. cbn [get_or] in Hd.
  rewrite sig_lookup_sset_same in Hd. inversion Hd; subst d. clear Hd. cbn [fd_ret].
  rewrite Hrets in Em.
  apply repr_crepr.
  unfold ret_guard in Hg. rewrite forallb_forall in Hg.
  pose proof (Hg _ Hin) as Hge0. cbn [snd] in Hge0. apply andb_true_iff in Hge0 as [Hge Hsc].
  rewrite Forall_forall in Hall. destruct (Hall _ Hin) as [G1 Hi]. cbn [snd] in Hi.
  apply (sub_ty_repr (ety F0 (fe_alias fe) C G e)).
  - eapply merge_ret_upper; [exact Em | |].
    + rewrite forallb_forall. intros t Ht. apply in_map_iff in Ht as ([g' e'] & <- & Hin').
      cbn [snd]. specialize (Hg _ Hin'). cbn [snd] in Hg. apply andb_true_iff in Hg as [_ Hs']. exact Hs'.
    + apply in_map_iff. exists (g, e). split; [reflexivity | exact Hin].
  - destruct (infer_s_sound _ _ _ _ _ _ _ _ _ Hes Hge Hi Hev) as [Hr _]. exact Hr.
Qed.

(* ------------------------------------------------------------------ non-vacuity: debounce(count, limit) *)
Definition debounce_rho : env := [(z_count, VInt 3); (z_limit, VInt 10)].
Lemma debounce_env_sound : env_sound (fn_tenv empty_ctx debounce_params [TInt; TInt]) debounce_rho.
Proof.
  intros x v H. unfold debounce_rho, lookup in H. cbn [tlookup] in H.
  destruct (text_eqb x z_count) eqn:Ea.
  { apply text_eqb_eq in Ea. subst x. inversion H; subst. vm_compute. exact I. }
  destruct (text_eqb x z_limit) eqn:Ec; [|discriminate].
  apply text_eqb_eq in Ec. subst x. inversion H; subst. vm_compute. exact I.
Qed.

Lemma debounce_nonvacuous :
  exists fe1 p1 d,
    parse_function_static None fenv0 empty_ctx z_f (mk_fsrc debounce_params None (ret_body debounce_rets)) (Some [TInt; TInt])
      = Some (fe1, p1, [TInt; TInt]) /\
    ret_guard (fn_table fenv0 z_f) (fe_alias fenv0) None (fn_tenv empty_ctx debounce_params [TInt; TInt]) debounce_rets = true /\
    env_sound (fn_tenv empty_ctx debounce_params [TInt; TInt]) debounce_rho /\
    sig_lookup [TInt; TInt] (get_or [] (tlookup z_f (fe_defs fe1))) = Some d /\ fd_ret d = CInt /\
    peval debounce_rho (EBin Add (EName z_count) (EInt 1)) = Ok (VInt 4) /\
    peval debounce_rho (EBool true) = Ok (VBool true).
Proof.
  eexists. eexists. eexists.
  split; [vm_compute; reflexivity|]. split; [vm_compute; reflexivity|].
  split; [exact debounce_env_sound|]. split; [vm_compute; reflexivity|].
  split; [reflexivity|]. split; vm_compute; reflexivity.
Qed.

(* non-vacuity of the hoisting theorem: a stale table entry (x -> String) does not reach the declaration *)
Lemma branch_hoist_nonvacuous :
  exists st1,
    run_stmt unit (call_st [] []) None tt
      (mk_bstate (mk_dctx [] [] (Some [(z_x, CString)])) [] (mk_acc [] [] false))
      (if_else [SAssign z_x (EFloat (5 # 2))] [SAssign z_x (EFloat (1 # 2))]) = Some (tt, st1) /\
    st_decls st1 = [(z_x, CFloat)] /\ tget (d_types (st_ctx st1)) z_x = TFloat.
Proof. eexists. split; [vm_compute; reflexivity|]. split; vm_compute; reflexivity. Qed.
