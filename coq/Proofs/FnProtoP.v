(* Proofs about Lang/FnProto.v: the overload a call reaches does not depend on where the call is written
   (the prototype block declares every emitted variant), and a call whose argument types are exactly the
   parameter types of an emitted variant executes that variant, whatever else is emitted. *)
From Coq Require Import ZArith QArith List Bool Arith Lia.
From RV Require Import Base.Text Lang.PyAst Lang.PySem Lang.Infer Lang.Decl Lang.FnProto.
Import ListNotations.

(* ------------------------------------------------------------------ equality tests *)
Lemma cty_eqb_iff : forall a b, cty_eqb a b = true <-> a = b.
Proof.
  induction a as [| | | | |e IH]; destruct b; simpl; split; intros H; try reflexivity; try discriminate.
  - apply IH in H. subst. reflexivity.
  - injection H as ->. apply IH. reflexivity.
Qed.
Lemma cty_eqb_refl a : cty_eqb a a = true. Proof. apply cty_eqb_iff. reflexivity. Qed.

Lemma ctys_eqb_iff : forall a b, ctys_eqb a b = true <-> a = b.
Proof.
  induction a as [|x a IH]; destruct b as [|y b]; simpl; split; intros H; try reflexivity; try discriminate.
  - apply andb_true_iff in H as [H1 H2]. apply cty_eqb_iff in H1. apply IH in H2. subst. reflexivity.
  - injection H as -> ->. rewrite cty_eqb_refl. simpl. apply IH. reflexivity.
Qed.
Lemma ctys_eqb_refl a : ctys_eqb a a = true. Proof. apply ctys_eqb_iff. reflexivity. Qed.
Lemma ctys_eqb_false a b : a <> b -> ctys_eqb a b = false.
Proof. intros N. destruct (ctys_eqb a b) eqn:E; [|reflexivity]. apply ctys_eqb_iff in E. contradiction. Qed.

Lemma mem_sig_In s l : mem_sig s l = true <-> In s l.
Proof.
  induction l as [|t r IH]; simpl; [split; [discriminate|tauto]|].
  rewrite orb_true_iff, ctys_eqb_iff, IH.
  split; intros [H|H]; [left; symmetry; exact H|right; exact H|left; symmetry; exact H|right; exact H].
Qed.

(* ------------------------------------------------------------------ dedup *)
Lemma dedup_acc_absorb : forall l acc, (forall s, In s l -> In s acc) -> dedup_acc acc l = acc.
Proof.
  induction l as [|s r IH]; intros acc H; simpl; [reflexivity|].
  assert (E : mem_sig s acc = true) by (apply mem_sig_In; apply H; left; reflexivity).
  rewrite E. apply IH. intros t Ht. apply H. right. exact Ht.
Qed.

Lemma dedup_acc_app : forall l1 l2 acc, dedup_acc acc (l1 ++ l2) = dedup_acc (dedup_acc acc l1) l2.
Proof. induction l1 as [|a l1 IH]; intros l2 acc; simpl; [reflexivity|]. destruct (mem_sig a acc); apply IH. Qed.

Lemma dedup_acc_keeps : forall l acc s, In s acc -> In s (dedup_acc acc l).
Proof.
  induction l as [|a r IH]; intros acc s H; simpl; [exact H|].
  destruct (mem_sig a acc); apply IH; [exact H|apply in_or_app; left; exact H].
Qed.

Lemma dedup_acc_In : forall l acc s, In s l -> In s (dedup_acc acc l).
Proof.
  induction l as [|a r IH]; intros acc s H; [destruct H|]. simpl. destruct H as [<-|H].
  - destruct (mem_sig a acc) eqn:E.
    + apply dedup_acc_keeps. apply mem_sig_In. exact E.
    + apply dedup_acc_keeps. apply in_or_app. right. left. reflexivity.
  - destruct (mem_sig a acc); apply IH; exact H.
Qed.

Lemma dedup_acc_from : forall l acc s, In s (dedup_acc acc l) -> In s acc \/ In s l.
Proof.
  induction l as [|a r IH]; intros acc s H; simpl in H; [left; exact H|].
  destruct (mem_sig a acc).
  - destruct (IH _ _ H) as [H1|H1]; [left; exact H1|right; right; exact H1].
  - destruct (IH _ _ H) as [H1|H1]; [|right; right; exact H1].
    apply in_app_or in H1 as [H1|[<-|[]]]; [left; exact H1|right; left; reflexivity].
Qed.

Lemma dedup_acc_NoDup : forall l acc, NoDup acc -> NoDup (dedup_acc acc l).
Proof.
  induction l as [|a r IH]; intros acc H; simpl; [exact H|].
  destruct (mem_sig a acc) eqn:E; apply IH; [exact H|].
  assert (A : List.Add a acc (acc ++ [a])).
  { pose proof (Add_app a acc []) as A. rewrite app_nil_r in A. exact A. }
  apply (NoDup_Add A). split; [exact H|]. intros Hin. apply mem_sig_In in Hin. congruence.
Qed.

Lemma dedup_absorb l1 l2 : (forall s, In s l2 -> In s l1) -> dedup (l1 ++ l2) = dedup l1.
Proof.
  intros H. unfold dedup. rewrite dedup_acc_app. apply dedup_acc_absorb.
  intros s Hs. apply dedup_acc_In. apply H. exact Hs.
Qed.

Lemma dedup_NoDup l : NoDup (dedup l). Proof. apply dedup_acc_NoDup. constructor. Qed.
Lemma dedup_In l s : In s (dedup l) <-> In s l.
Proof. split; [intros H; destruct (dedup_acc_from _ _ _ H) as [[]|H1]; exact H1|apply dedup_acc_In]. Qed.

(* ------------------------------------------------------------------ the declarations a call site sees *)
Lemma named_app f l1 l2 : named f (l1 ++ l2) = named f l1 ++ named f l2.
Proof. unfold named. rewrite filter_app, map_app. reflexivity. Qed.

Lemma named_In f l s : In s (named f l) <-> In (f, s) l.
Proof.
  unfold named. rewrite in_map_iff. split.
  - intros [[g t] [E H]]. simpl in E. subst t. apply filter_In in H as [H1 H2]. simpl in H2.
    apply text_eqb_eq in H2. subst g. exact H1.
  - intros H. exists (f, s). split; [reflexivity|]. apply filter_In. split; [exact H|]. simpl. apply text_eqb_refl.
Qed.

Lemma firstn_In_l {A} n : forall (l : list A) x, In x (firstn n l) -> In x l.
Proof.
  induction n as [|n IH]; intros [|a l] x H; simpl in *; try tauto.
  destruct H as [H|H]; [left; exact H|right; apply IH; exact H].
Qed.

(* with the prototype block of emit() the overload set of a name is the same at every call site: all emitted variants *)
Lemma candidates_everywhere defs s f : candidates (emit_sketch defs) s f = dedup (named f defs).
Proof.
  unfold candidates, seen_decls, emit_sketch, proto_block. simpl. rewrite named_app. apply dedup_absorb.
  intros t Ht. apply named_In. apply named_In in Ht.
  destruct s as [i|]; [apply (firstn_In_l (S i)); exact Ht|exact Ht].
Qed.

Lemma resolution_position_independent defs s1 s2 f args :
  cxx_resolve (emit_sketch defs) s1 f args = cxx_resolve (emit_sketch defs) s2 f args.
Proof. unfold cxx_resolve. rewrite !candidates_everywhere. reflexivity. Qed.

(* ------------------------------------------------------------------ an exact match wins *)
Definition zeros (c : psig) : list nat := map (fun _ => 0%nat) c.

Lemma rank_exact c : rank (AT c) c = Some 0%nat.
Proof. unfold rank. rewrite cty_eqb_refl. reflexivity. Qed.

Lemma rank_zero c p : rank (AT c) p = Some 0%nat -> c = p.
Proof.
  unfold rank. destruct (cty_eqb c p) eqn:E; [intros _; apply cty_eqb_iff; exact E|].
  destruct c, p; simpl; intros H; discriminate H.
Qed.

Lemma ranks_exact c : ranks (exact_args c) c = Some (zeros c).
Proof.
  unfold exact_args. induction c as [|x c IH]; [reflexivity|].
  cbn [map ranks]. rewrite rank_exact, IH. reflexivity.
Qed.

Lemma all_le_zeros c : forall rd, all_le (zeros c) rd = true.
Proof. induction c as [|x c IH]; intros [|y rd]; simpl; auto. Qed.

Lemma some_lt_zeros_r c : forall rd, some_lt rd (zeros c) = false.
Proof.
  induction c as [|x c IH]; intros [|y rd]; simpl; auto.
Qed.

Lemma ranks_neq_some_lt : forall c d rd, ranks (exact_args c) d = Some rd -> d <> c -> some_lt (zeros c) rd = true.
Proof.
  unfold exact_args.
  induction c as [|x c IH]; intros [|y d] rd H N; cbn [map ranks] in H; try discriminate.
  - exfalso. apply N. reflexivity.
  - destruct (rank (AT x) y) as [k|] eqn:R; [|discriminate].
    destruct (ranks (map AT c) d) as [l|] eqn:Rs; [|discriminate].
    injection H as <-. simpl. destruct k as [|k]; [|reflexivity].
    apply rank_zero in R. subst y. simpl. apply (IH d l Rs). intros E. apply N. subst. reflexivity.
Qed.

Lemma viable_In args cands d rd : In (d, rd) (viable args cands) <-> In d cands /\ ranks args d = Some rd.
Proof.
  unfold viable. rewrite in_flat_map. split.
  - intros [c [Hc H]]. destruct (ranks args c) eqn:E; [|destruct H]. destruct H as [H|[]].
    injection H as <- <-. split; assumption.
  - intros [Hc H]. exists d. split; [exact Hc|]. rewrite H. left. reflexivity.
Qed.

Lemma viable_cons args e cands :
  viable args (e :: cands) = match ranks args e with Some r => [(e, r)] | None => [] end ++ viable args cands.
Proof. reflexivity. Qed.

Lemma best_is_the_exact_one c cands : In c cands ->
  forall dr, In dr (viable (exact_args c) cands) -> is_best (viable (exact_args c) cands) dr = ctys_eqb (fst dr) c.
Proof.
  intros Hc [d rd] Hd. simpl. apply viable_In in Hd as [Hd Rd].
  destruct (ctys_eqb d c) eqn:E.
  - apply ctys_eqb_iff in E. subst d. unfold is_best. apply forallb_forall. intros [e re] He. simpl.
    apply viable_In in He as [He Re]. rewrite ranks_exact in Rd. injection Rd as <-.
    destruct (ctys_eqb c e) eqn:E2; [reflexivity|]. simpl. unfold better. rewrite all_le_zeros. simpl.
    apply (ranks_neq_some_lt c e re Re). intros ->. rewrite ctys_eqb_refl in E2. discriminate.
  - unfold is_best. apply not_true_is_false. intros B. rewrite forallb_forall in B.
    assert (I : In (c, zeros c) (viable (exact_args c) cands)) by (apply viable_In; split; [exact Hc|apply ranks_exact]).
    apply B in I. simpl in I. rewrite E in I. simpl in I. unfold better in I.
    rewrite some_lt_zeros_r in I. rewrite andb_false_r in I. discriminate.
Qed.

Lemma filter_none {A} (p : A -> bool) l : (forall x, In x l -> p x = false) -> filter p l = [].
Proof.
  induction l as [|a l IH]; simpl; intros H; [reflexivity|].
  rewrite (H a (or_introl eq_refl)). apply IH. intros x Hx. apply H. right. exact Hx.
Qed.

Lemma filter_the_one : forall cands c args, NoDup cands -> In c cands -> forall rc, ranks args c = Some rc ->
  filter (fun dr => ctys_eqb (fst dr) c) (viable args cands) = [(c, rc)].
Proof.
  induction cands as [|e cands IH]; intros c args ND Hc rc Rc; [destruct Hc|].
  inversion ND as [|? ? Hnot ND']; subst. rewrite viable_cons. rewrite filter_app.
  destruct Hc as [->|Hc].
  - rewrite Rc. simpl. rewrite ctys_eqb_refl. simpl. f_equal.
    apply filter_none. intros [d rd] Hd. simpl. apply viable_In in Hd as [Hd _].
    apply ctys_eqb_false. intros ->. contradiction.
  - assert (N : e <> c) by (intros ->; contradiction).
    rewrite (IH c args ND' Hc rc Rc).
    destruct (ranks args e); simpl; [rewrite (ctys_eqb_false _ _ N)|]; reflexivity.
Qed.

Lemma pick_exact : forall cands c, NoDup cands -> In c cands -> pick (exact_args c) cands = Some c.
Proof.
  intros cands c ND Hc. unfold pick.
  rewrite (filter_ext_in _ (fun dr => ctys_eqb (fst dr) c) _ (best_is_the_exact_one c cands Hc)).
  rewrite (filter_the_one cands c (exact_args c) ND Hc (zeros c) (ranks_exact c)). reflexivity.
Qed.

(* ------------------------------------------------------------------ the theorems of Props/C02.v *)
Lemma call_reaches_exact_variant : forall defs s f c, In (f, c) defs ->
  cxx_resolve (emit_sketch defs) s f (exact_args c) = Some c.
Proof.
  intros defs s f c H. unfold cxx_resolve. rewrite candidates_everywhere. apply pick_exact.
  - apply dedup_NoDup.
  - apply dedup_In. apply named_In. exact H.
Qed.

Lemma call_site_reaches_meant_variant : forall fe f sg d s,
  call_guard fe f sg = true -> meant_variant fe f sg = Some d ->
  cxx_resolve (emit_sketch (emitted_decls fe)) s f (exact_args (map cpp_type sg)) = Some (params_of d).
Proof.
  intros fe f sg d s G M. unfold call_guard in G. rewrite M in G.
  apply andb_true_iff in G as [E G]. apply orb_true_iff in G as [G|G].
  - apply ctys_eqb_iff in G. rewrite G. apply call_reaches_exact_variant.
    unfold is_emitted in E. apply mem_sig_In in E. apply named_In in E. exact E.
  - rewrite (resolution_position_independent _ s InMain). unfold opsig_eqb in G.
    destruct (cxx_resolve (emit_sketch (emitted_decls fe)) InMain f (exact_args (map cpp_type sg))) as [r|]; [|discriminate].
    apply ctys_eqb_iff in G. subst. reflexivity.
Qed.

(* the visible overload set under a regression of the prototype block is a subset: what is lost is lost for the bodies
   emitted ABOVE the definition only; setup()/loop() never notice *)
Lemma main_sees_everything protos defs f :
  forall s, In s (candidates (mk_sketch protos defs) InMain f) <-> In (f, s) protos \/ In (f, s) defs.
Proof.
  intros s. unfold candidates, seen_decls. simpl. rewrite dedup_In, named_app, in_app_iff, !named_In. reflexivity.
Qed.

(* ------------------------------------------------------------------ witnesses *)
Definition demo_decls : list cdecl := [(n_sc, [CFloat]); (n_tw, [CInt]); (n_tw, [CFloat])].

Lemma fwd_overload_demo :
  exists ps,
    run_items None fwd_overload_prog = Some ps /\
    emitted_decls (p_fe ps) = demo_decls /\
    call_guard (p_fe ps) n_tw [TFloat] = true /\ call_guard (p_fe ps) n_sc [TFloat] = true /\
    candidates (emit_sketch demo_decls) (InBody 0) n_tw = [[CInt]; [CFloat]] /\
    cxx_resolve (emit_sketch demo_decls) (InBody 0) n_tw [AT CFloat] = Some [CFloat].
Proof. eexists. split; [vm_compute; reflexivity|]. repeat split; vm_compute; reflexivity. Qed.

Lemma one_proto_per_name_misroutes :
  candidates (emit_sketch_one_proto_per_name demo_decls) (InBody 0) n_tw = [[CInt]] /\
  cxx_resolve (emit_sketch_one_proto_per_name demo_decls) (InBody 0) n_tw [AT CFloat] = Some [CInt] /\
  c_store CInt (VFloat (3 # 2)) = Some (VInt 1) /\
  cxx_resolve (emit_sketch_one_proto_per_name demo_decls) InMain n_tw [AT CFloat] = Some [CFloat] /\
  cxx_resolve (emit_sketch_no_protos demo_decls) (InBody 0) n_tw [AT CFloat] = None.
Proof. repeat split; vm_compute; reflexivity. Qed.

Lemma overload_boundary :
  pick [ADouble] [[CInt]; [CFloat]] = None /\                          (* F-C06-overload-ambiguous *)
  pick [AT CBool] [[CInt]; [CFloat]] = Some [CInt] /\                  (* promotion beats conversion *)
  pick [AT CInt] [[CFloat]; [CBool]] = None /\                         (* two conversions *)
  pick [AT CInt] [[CFloat]] = Some [CFloat] /\                         (* the only candidate: converted *)
  pick [AT CInt; AT CFloat] [[CFloat; CFloat]; [CInt; CInt]] = None /\ (* one argument each way *)
  pick [AT CInt; AT CFloat] [[CFloat; CFloat]; [CInt; CFloat]] = Some [CInt; CFloat] /\
  pick [AT CString] [[CInt]; [CFloat]] = None /\
  pick [] [[]] = Some [].
Proof. repeat split; vm_compute; reflexivity. Qed.

Lemma fwd_stale_result :
  exists ps d e,
    run_items None fwd_stale_prog = Some ps /\
    In (n_sc, d) (selected_functions (p_fe ps)) /\ fd_params d = [(i_x, CInt)] /\ fd_ret d = CInt /\
    In (n_tw, e) (selected_functions (p_fe ps)) /\ fd_params e = [(i_v, CInt)] /\ fd_ret e = CFloat /\
    p_globals ps = [(i_w, CInt)] /\
    c_store CInt (VFloat (5 # 2)) = Some (VInt 2).
Proof.
  eexists. eexists. eexists. split; [vm_compute; reflexivity|].
  split; [vm_compute; left; reflexivity|]. split; [reflexivity|]. split; [reflexivity|].
  split; [vm_compute; right; left; reflexivity|]. repeat split; vm_compute; reflexivity.
Qed.
