(* Proofs about Lang/FnRet.v: the merged return type covers every return label, the conversion to a
   covering type keeps the number, a call yields the same number on both sides (same serial text when the
   returns have one kind), the mixed int/float witness. *)
From Coq Require Import ZArith QArith List Bool Lia.
From RV Require Import Base.Wire Base.Text Lang.StmtAst Lang.StmtSem Lang.FnRet.
Import ListNotations.
Open Scope Z_scope.

Lemma ty_eqb_eq a b : ty_eqb a b = true <-> a = b.
Proof. destruct a, b; cbn; split; intro H; try reflexivity; try discriminate. Qed.

Lemma has_label_false t l : has_label t l = false -> forall u, In u l -> u <> t.
Proof.
  unfold has_label. intros H u Hin E. subst u.
  assert (X : existsb (ty_eqb t) l = true).
  { apply existsb_exists. exists t. split; [exact Hin|]. apply ty_eqb_eq. reflexivity. }
  rewrite X in H. discriminate.
Qed.

Lemma all_label_true t l : all_label t l = true -> forall u, In u l -> u = t.
Proof.
  unfold all_label. intros H u Hin. rewrite forallb_forall in H.
  specialize (H u Hin). apply ty_eqb_eq in H. symmetry. exact H.
Qed.

(* _merge_return_types never narrows: the merged type covers the label of every return statement *)
Lemma merge_covers ls rt : merge_ret ls false = RTy rt -> forall l, In l ls -> widens l rt = true.
Proof.
  unfold merge_ret. destruct ls as [|l0 lr]; [discriminate|].
  set (L := l0 :: lr).
  destruct (has_label TyString L) eqn:HS.
  - destruct (all_label TyString L) eqn:HA; [|discriminate].
    intros [= <-] l Hin. rewrite (all_label_true _ _ HA l Hin). reflexivity.
  - destruct (has_label TyFloat L) eqn:HF.
    + intros [= <-] l Hin. pose proof (has_label_false _ _ HS l Hin) as N.
      destruct l; try reflexivity. contradiction N; reflexivity.
    + destruct (all_label TyBool L) eqn:HB.
      * intros [= <-] l Hin. rewrite (all_label_true _ _ HB l Hin). reflexivity.
      * intros [= <-] l Hin. pose proof (has_label_false _ _ HS l Hin) as N1.
        pose proof (has_label_false _ _ HF l Hin) as N2.
        destruct l; try reflexivity; [contradiction N2|contradiction N1]; reflexivity.
Qed.

(* a helper is typed bool only if EVERY return statement is a truth value *)
Lemma merge_bool_all_bool ls hv : merge_ret ls hv = RTy TyBool -> forall l, In l ls -> l = TyBool.
Proof.
  unfold merge_ret. destruct ls as [|l0 lr]; [discriminate|].
  set (L := l0 :: lr). destruct hv; [discriminate|].
  destruct (has_label TyString L); [destruct (all_label TyString L); discriminate|].
  destruct (has_label TyFloat L); [discriminate|].
  destruct (all_label TyBool L) eqn:HB; [|discriminate].
  intros _ l Hin. exact (all_label_true _ _ HB l Hin).
Qed.

(* one numeric return statement (no float, no string anywhere) makes the helper an int function *)
Lemma merge_int_like ls : ls <> [] -> (forall l, In l ls -> l = TyInt \/ l = TyBool) -> In TyInt ls ->
  merge_ret ls false = RTy TyInt.
Proof.
  intros Hne Hall Hint. unfold merge_ret. destruct ls as [|l0 lr]; [contradiction Hne; reflexivity|].
  set (L := l0 :: lr) in *.
  assert (HS : has_label TyString L = false).
  { unfold has_label. apply not_true_is_false. intro X. apply existsb_exists in X. destruct X as [u [Hu E]].
    apply ty_eqb_eq in E. subst u. destruct (Hall _ Hu); discriminate. }
  assert (HF : has_label TyFloat L = false).
  { unfold has_label. apply not_true_is_false. intro X. apply existsb_exists in X. destruct X as [u [Hu E]].
    apply ty_eqb_eq in E. subst u. destruct (Hall _ Hu); discriminate. }
  assert (HB : all_label TyBool L = false).
  { apply not_true_is_false. intro X. pose proof (all_label_true _ _ X _ Hint). discriminate. }
  rewrite HS, HF, HB. reflexivity.
Qed.

Lemma same_number_refl v : same_number v v.
Proof. destruct v; cbn; try reflexivity. Qed.

(* storing a value in a C++ variable / returning it through a type that covers its label keeps the number *)
Lemma conv_widens_number l rt v : has_ty l v = true -> widens l rt = true -> same_number (conv rt v) v.
Proof.
  destruct l, v; cbn; try discriminate; intros _; destruct rt; cbn; try discriminate; intros _;
    try reflexivity; try (destruct b; reflexivity).
Qed.

Lemma conv_same_kind l rt v : has_ty l v = true -> widens l rt = true -> kind_of_ty l = kind_of_ty rt ->
  kind_of (conv rt v) = kind_of v.
Proof.
  destruct l, v; cbn; try discriminate; intros _; destruct rt; cbn; try discriminate; intros _ K;
    try reflexivity; try discriminate.
Qed.

Section Exec.
  Variable St : Type.
  Variable esem : Z -> St -> option val.
  Variable dosem : Z -> St -> option (St * list ev).

  Definition map_res (f : val -> val) (r : option (St * list ev * fres)) : option (St * list ev * fres) :=
    match r with
    | Some (st, e, FVal v) => Some (st, e, FVal (f v))
    | other => other
    end.

  (* both sides run the same statements; they differ in the conversion of the returned value only *)
  Lemma fexec_conv f : forall fuel st b,
    fexec St esem dosem f fuel st b = map_res f (fexec St esem dosem (fun v => v) fuel st b).
  Proof.
    induction fuel as [|n IH]; intros st b; [reflexivity|].
    destruct b as [|s rest]; [reflexivity|].
    cbn [fexec]. destruct s as [id|e| |c th el|c body].
    - destruct (dosem id st) as [[st1 e1]|]; [|reflexivity].
      rewrite (IH st1 rest). destruct (fexec St esem dosem (fun v => v) n st1 rest) as [[[st2 e2] o]|]; [|reflexivity].
      destruct o; reflexivity.
    - destruct (esem (a_id e) st); reflexivity.
    - reflexivity.
    - destruct (esem (a_id c) st) as [v|]; [|reflexivity].
      rewrite (IH st (if truthy v then th else el)).
      destruct (fexec St esem dosem (fun v0 => v0) n st (if truthy v then th else el)) as [[[st1 e1] o]|]; [|reflexivity].
      destruct o; cbn [map_res]; try reflexivity.
      rewrite (IH st1 rest). destruct (fexec St esem dosem (fun v0 => v0) n st1 rest) as [[[st2 e2] o]|]; [|reflexivity].
      destruct o; reflexivity.
    - destruct (esem (a_id c) st) as [v|]; [|reflexivity].
      destruct (truthy v); [|apply IH].
      rewrite (IH st body).
      destruct (fexec St esem dosem (fun v0 => v0) n st body) as [[[st1 e1] o]|]; [|reflexivity].
      destruct o; cbn [map_res]; try reflexivity.
      rewrite (IH st1 [FWhile c body]).
      destruct (fexec St esem dosem (fun v0 => v0) n st1 [FWhile c body]) as [[[st2 e2] o]|]; [|reflexivity].
      destruct o; cbn [map_res]; try reflexivity.
      rewrite (IH st2 rest). destruct (fexec St esem dosem (fun v0 => v0) n st2 rest) as [[[st3 e3] o]|]; [|reflexivity].
      destruct o; reflexivity.
  Qed.

  (* the value a Python run returns is the value of one of the body's return expressions *)
  Lemma fexec_val_source : forall fuel st b st1 e1 v,
    fexec St esem dosem (fun v => v) fuel st b = Some (st1, e1, FVal v) ->
    exists e st0, In e (body_rets b) /\ esem (a_id e) st0 = Some v.
  Proof.
    induction fuel as [|n IH]; intros st b st1 e1 v H; [discriminate|].
    destruct b as [|s rest]; [discriminate|].
    cbn [fexec] in H. unfold body_rets. cbn [flat_map].
    assert (REST : forall stx ex, fexec St esem dosem (fun v => v) n stx rest = Some (st1, ex, FVal v) ->
                   exists e st0, In e (ret_anns s ++ flat_map ret_anns rest) /\ esem (a_id e) st0 = Some v).
    { intros stx ex Hx. destruct (IH _ _ _ _ _ Hx) as [e [st0 [Hin He]]].
      exists e, st0. split; [apply in_or_app; right; exact Hin|exact He]. }
    destruct s as [id|e| |c th el|c body].
    - destruct (dosem id st) as [[st2 e2]|]; [|discriminate].
      destruct (fexec St esem dosem (fun v0 => v0) n st2 rest) as [[[st3 e3] o]|] eqn:E; [|discriminate].
      injection H as <- <- ->. exact (REST _ _ E).
    - destruct (esem (a_id e) st) as [v0|] eqn:E; [|discriminate]. injection H as <- <- <-.
      exists e, st. split; [left; reflexivity|exact E].
    - discriminate.
    - destruct (esem (a_id c) st) as [cv|]; [|discriminate].
      destruct (fexec St esem dosem (fun v0 => v0) n st (if truthy cv then th else el)) as [[[st2 e2] o]|] eqn:E; [|discriminate].
      destruct o.
      + destruct (fexec St esem dosem (fun v0 => v0) n st2 rest) as [[[st3 e3] o]|] eqn:E2; [|discriminate].
        injection H as <- <- ->. exact (REST _ _ E2).
      + discriminate.
      + injection H as <- <- <-. destruct (IH _ _ _ _ _ E) as [e [st0 [Hin He]]].
        exists e, st0. split; [|exact He]. apply in_or_app. left. cbn [ret_anns].
        fold (flat_map ret_anns th). fold (flat_map ret_anns el).
        apply in_or_app. unfold body_rets in Hin. destruct (truthy cv); [left|right]; exact Hin.
    - destruct (esem (a_id c) st) as [cv|]; [|discriminate].
      destruct (truthy cv); [|exact (REST _ _ H)].
      destruct (fexec St esem dosem (fun v0 => v0) n st body) as [[[st2 e2] o]|] eqn:E; [|discriminate].
      assert (BODY : forall stx ex, fexec St esem dosem (fun v => v) n stx [FWhile c body] = Some (st1, ex, FVal v) ->
                     exists e st0, In e (ret_anns (FWhile c body) ++ flat_map ret_anns rest) /\ esem (a_id e) st0 = Some v).
      { intros stx ex Hx. destruct (IH _ _ _ _ _ Hx) as [e [st0 [Hin He]]].
        exists e, st0. split; [|exact He]. unfold body_rets in Hin. cbn [flat_map] in Hin. rewrite app_nil_r in Hin.
        apply in_or_app. left. exact Hin. }
      destruct o.
      + destruct (fexec St esem dosem (fun v0 => v0) n st2 [FWhile c body]) as [[[st3 e3] o]|] eqn:E2; [|discriminate].
        destruct o.
        * destruct (fexec St esem dosem (fun v0 => v0) n st3 rest) as [[[st4 e4] o]|] eqn:E3; [|discriminate].
          injection H as <- <- ->. exact (REST _ _ E3).
        * discriminate.
        * injection H as <- <- <-. exact (BODY _ _ E2).
      + discriminate.
      + injection H as <- <- <-. destruct (IH _ _ _ _ _ E) as [e [st0 [Hin He]]].
        exists e, st0. split; [|exact He]. apply in_or_app. left. cbn [ret_anns].
        fold (flat_map ret_anns body). exact Hin.
  Qed.

  (* A call of a helper with several return statements yields the same NUMBER on the device as in CPython,
     with the same effects: the declared return type covers every return label. *)
  Theorem call_value_preserved : forall b rt,
    ret_type b = RTy rt -> ret_facts esem b ->
    forall fuel st st1 evs v, pcall esem dosem fuel st b = Some (st1, evs, v) ->
    exists v', ccall esem dosem rt fuel st b = Some (st1, evs, v') /\ same_number v' v.
  Proof.
    intros b rt HT HF fuel st st1 evs v H.
    unfold pcall, ccall, fcall in *. rewrite (fexec_conv (conv rt)).
    destruct (fexec St esem dosem (fun v0 => v0) fuel st b) as [[[st2 e2] o]|] eqn:E; [|discriminate].
    destruct o; try discriminate. injection H as <- <- <-.
    cbn [map_res]. exists (conv rt v0). split; [reflexivity|].
    destruct (fexec_val_source _ _ _ _ _ _ E) as [e [st0 [Hin He]]].
    apply (conv_widens_number (a_ty e)); [exact (HF e st0 v0 Hin He)|].
    apply (merge_covers (map a_ty (body_rets b))); [exact HT|]. apply in_map. exact Hin.
  Qed.

  Lemma uniform_kind_merged ls rt : uniform_kind ls = true -> merge_ret ls false = RTy rt ->
    forall l, In l ls -> kind_of_ty l = kind_of_ty rt.
  Proof.
    intros HU HM. destruct ls as [|l0 lr]; [intros l []|].
    assert (K0 : forall l, In l (l0 :: lr) -> kind_of_ty l = kind_of_ty l0).
    { intros l [<-|Hin]; [reflexivity|]. cbn [uniform_kind] in HU. rewrite forallb_forall in HU.
      specialize (HU l Hin). destruct (kind_of_ty l), (kind_of_ty l0); try reflexivity; discriminate. }
    assert (K1 : kind_of_ty l0 = kind_of_ty rt).
    { pose proof (merge_covers _ _ HM) as C.
      unfold merge_ret in HM. set (L := l0 :: lr) in *.
      destruct (has_label TyString L) eqn:HS.
      - destruct (all_label TyString L) eqn:HA; [|discriminate]. injection HM as <-.
        rewrite (all_label_true _ _ HA l0 (or_introl eq_refl)). reflexivity.
      - destruct (has_label TyFloat L) eqn:HFl.
        + injection HM as <-. unfold has_label in HFl. apply existsb_exists in HFl. destruct HFl as [u [Hu E]].
          apply ty_eqb_eq in E. subst u. rewrite <- (K0 _ Hu). reflexivity.
        + destruct (all_label TyBool L) eqn:HB.
          * injection HM as <-. rewrite (all_label_true _ _ HB l0 (or_introl eq_refl)). reflexivity.
          * injection HM as <-. pose proof (has_label_false _ _ HS l0 (or_introl eq_refl)) as N1.
            pose proof (has_label_false _ _ HFl l0 (or_introl eq_refl)) as N2.
            destruct l0; try reflexivity; [contradiction N2|contradiction N1]; reflexivity. }
    intros l Hin. rewrite (K0 l Hin). exact K1.
  Qed.

  (* ... and the same SERIAL LINE (value level) when the return statements have one kind. *)
  Theorem call_serial_preserved_partial : forall b rt,
    ret_type b = RTy rt -> ret_facts esem b -> uniform_kind (map a_ty (body_rets b)) = true ->
    forall fuel st st1 evs v, pcall esem dosem fuel st b = Some (st1, evs, v) ->
    exists v', ccall esem dosem rt fuel st b = Some (st1, evs, v') /\ same_serial v' v.
  Proof.
    intros b rt HT HF HU fuel st st1 evs v H.
    unfold pcall, ccall, fcall in *. rewrite (fexec_conv (conv rt)).
    destruct (fexec St esem dosem (fun v0 => v0) fuel st b) as [[[st2 e2] o]|] eqn:E; [|discriminate].
    destruct o; try discriminate. injection H as <- <- <-.
    cbn [map_res]. exists (conv rt v0). split; [reflexivity|].
    destruct (fexec_val_source _ _ _ _ _ _ E) as [e [st0 [Hin He]]].
    assert (W : widens (a_ty e) rt = true).
    { apply (merge_covers (map a_ty (body_rets b))); [exact HT|]. apply in_map. exact Hin. }
    split.
    - apply (conv_widens_number (a_ty e)); [exact (HF e st0 v0 Hin He)|exact W].
    - apply (conv_same_kind (a_ty e)); [exact (HF e st0 v0 Hin He)|exact W|].
      apply (uniform_kind_merged (map a_ty (body_rets b))); [exact HU|exact HT|]. apply in_map. exact Hin.
  Qed.
End Exec.

(* non-vacuity: credit(5) is 15 on both sides, credit(-3) is False / 0; the helper is an int function *)
Lemma credit_ok :
  ret_type credit_body = RTy TyInt /\ ret_facts credit_sem credit_body /\
  uniform_kind (map a_ty (body_rets credit_body)) = true /\
  pcall credit_sem no_do 5 5 credit_body = Some (5, [], VI 15) /\
  ccall credit_sem no_do TyInt 5 5 credit_body = Some (5, [], VI 15) /\
  pcall credit_sem no_do 5 (-3) credit_body = Some (-3, [], VB false) /\
  ccall credit_sem no_do TyInt 5 (-3) credit_body = Some (-3, [], VI 0).
Proof.
  repeat split; try reflexivity.
  intros e st v Hin He. cbn in Hin. destruct Hin as [<-|[<-|[]]]; cbn in He; injection He as <-; reflexivity.
Qed.

(* the guard is necessary: h(1) is the int 1 in CPython and the float 1.0 on the device (printed 1.00) *)
Lemma mixed_refuted :
  ret_type mixed_body = RTy TyFloat /\ ret_facts mixed_sem mixed_body /\
  uniform_kind (map a_ty (body_rets mixed_body)) = false /\
  pcall mixed_sem no_do 5 1 mixed_body = Some (1, [], VI 1) /\
  ccall mixed_sem no_do TyFloat 5 1 mixed_body = Some (1, [], VF (inject_Z 1)) /\
  ~ same_serial (VF (inject_Z 1)) (VI 1).
Proof.
  repeat split; try reflexivity.
  - intros e st v Hin He. cbn in Hin. destruct Hin as [<-|[<-|[]]]; cbn in He; injection He as <-; reflexivity.
  - intros [_ K]. discriminate.
Qed.
