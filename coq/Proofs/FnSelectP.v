(* proofs about Lang/FnSelect.v *)
From Coq Require Import ZArith List Bool Lia.
From RV Require Import Lang.FnSelect.
Import ListNotations.
Open Scope Z_scope.

(* ---- decidable equalities ---- *)
Lemma lbl_eqb_eq : forall a b, lbl_eqb a b = true <-> a = b.
Proof.
  induction a as [| | | | | e IH | z]; destruct b as [| | | | | f | y]; cbn;
    try (split; [reflexivity | reflexivity]); try (split; [discriminate | discriminate]).
  - rewrite IH. split; [intros ->; reflexivity | intros H; now inversion H].
  - rewrite Z.eqb_eq. split; [intros ->; reflexivity | intros H; now inversion H].
Qed.

Lemma sig_eqb_eq : forall a b, sig_eqb a b = true <-> a = b.
Proof.
  induction a as [| x a IH]; destruct b as [| y b]; cbn;
    try (split; [reflexivity | reflexivity]); try (split; [discriminate | discriminate]).
  rewrite andb_true_iff, lbl_eqb_eq, IH. split; [intros [-> ->]; reflexivity | intros H; now inversion H].
Qed.

Lemma mems_in : forall s l, mems s l = true <-> In s l.
Proof.
  intros s l. induction l as [| t l IH]; cbn; [split; [discriminate | contradiction] |].
  rewrite orb_true_iff, sig_eqb_eq, IH. split; intros [H | H]; auto.
Qed.

Lemma mems_not_in : forall s l, mems s l = false <-> ~ In s l.
Proof.
  intros s l. rewrite <- mems_in. destruct (mems s l); split; intros H; try reflexivity; try discriminate.
  - exfalso. now apply H.
Qed.

(* ---- NoDup helpers ---- *)
Lemma nodup_app_single : forall (A : Type) (l : list A) (a : A), NoDup l -> ~ In a l -> NoDup (l ++ [a]).
Proof.
  intros A l a. induction l as [| b l IH]; intros N H; cbn.
  - constructor; [intros [] | constructor].
  - inversion N as [| ? ? Hb Nl]; subst. constructor.
    + rewrite in_app_iff. cbn. intros [X | [X | []]]; [now apply Hb | subst; apply H; now left].
    + apply IH; [exact Nl | intros X; apply H; now right].
Qed.

Lemma nodup_app : forall (A : Type) (l1 l2 : list A),
  NoDup l1 -> NoDup l2 -> (forall x, In x l1 -> ~ In x l2) -> NoDup (l1 ++ l2).
Proof.
  intros A l1 l2. induction l1 as [| a l1 IH]; intros N1 N2 D; cbn; [exact N2 |].
  inversion N1 as [| ? ? Ha Nl]; subst. constructor.
  - rewrite in_app_iff. intros [X | X]; [now apply Ha | apply (D a); [now left | exact X]].
  - apply IH; [exact Nl | exact N2 | intros x Hx; apply D; now right].
Qed.

Lemma nodup_map_inj_on : forall (A B : Type) (f : A -> B) (l : list A),
  (forall x y, In x l -> In y l -> f x = f y -> x = y) -> NoDup l -> NoDup (map f l).
Proof.
  intros A B f l. induction l as [| a l IH]; intros Inj N; cbn; [constructor |].
  inversion N as [| ? ? Ha Nl]; subst. constructor.
  - rewrite in_map_iff. intros (y & E & Hy). apply Ha.
    assert (y = a) by (apply Inj; [now right | now left | exact E]). now subst.
  - apply IH; [| exact Nl]. intros x y Hx Hy. apply Inj; now right.
Qed.

(* ---- keep_used ---- *)
Lemma keep_used_nodup : forall al v used keep, NoDup keep -> NoDup (keep_used al v used keep).
Proof.
  intros al v used. induction used as [| s r IH]; intros keep N; cbn; [exact N |].
  destruct (mems (resolve al s) v && negb (mems (resolve al s) keep)) eqn:E; [| apply IH, N].
  apply IH. apply andb_true_iff in E. destruct E as [_ E]. apply negb_true_iff, mems_not_in in E.
  apply nodup_app_single; assumption.
Qed.

Lemma keep_used_incl : forall al v used keep s,
  In s (keep_used al v used keep) -> In s keep \/ In s v.
Proof.
  intros al v used. induction used as [| t r IH]; intros keep s H; cbn in H; [now left |].
  destruct (mems (resolve al t) v && negb (mems (resolve al t) keep)) eqn:E; [| apply IH, H].
  apply andb_true_iff in E. destruct E as [E _]. apply mems_in in E.
  destruct (IH _ _ H) as [X | X]; [| now right].
  apply in_app_iff in X. destruct X as [X | [<- | []]]; [now left | now right].
Qed.

Lemma keep_used_mono : forall al v used keep x, In x keep -> In x (keep_used al v used keep).
Proof.
  intros al v used. induction used as [| t r IH]; intros keep x H; cbn; [exact H |].
  destruct (mems (resolve al t) v && negb (mems (resolve al t) keep)); apply IH; [| exact H].
  apply in_app_iff. now left.
Qed.

Lemma keep_used_covers : forall al v used keep s,
  In s used -> In (resolve al s) v -> In (resolve al s) (keep_used al v used keep).
Proof.
  intros al v used. induction used as [| t r IH]; intros keep s H Hv; [contradiction |].
  cbn. destruct H as [-> | H].
  - apply mems_in in Hv. rewrite Hv. cbn [andb].
    destruct (mems (resolve al s) keep) eqn:K; cbn [negb].
    + apply keep_used_mono, mems_in, K.
    + apply keep_used_mono, in_app_iff. right. now left.
  - destruct (mems (resolve al t) v && negb (mems (resolve al t) keep)); apply IH; assumption.
Qed.

(* ---- one function ---- *)
Lemma first_nodup : forall (l : list sig), NoDup (match l with [] => [] | f :: _ => [f] end).
Proof. intros [| f l]; [constructor | constructor; [intros [] | constructor]]. Qed.

Theorem select_one_nodup : forall fe, NoDup (select_one fe).
Proof.
  intros fe. unfold select_one. destruct (fe_used fe) as [| s r] eqn:U.
  - destruct (fe_primary fe) as [c |]; [| apply first_nodup].
    destruct (mems c (fe_variants fe)); [constructor; [intros [] | constructor] | apply first_nodup].
  - apply keep_used_nodup. constructor.
Qed.

Theorem select_one_incl : forall fe s, In s (select_one fe) -> In s (fe_variants fe).
Proof.
  intros fe s. unfold select_one. destruct (fe_used fe) as [| t r] eqn:U.
  - assert (F : In s (match fe_variants fe with [] => [] | f :: _ => [f] end) -> In s (fe_variants fe)).
    { destruct (fe_variants fe) as [| f l]; [intros [] | intros [<- | []]; now left]. }
    destruct (fe_primary fe) as [c |]; [| exact F].
    destruct (mems c (fe_variants fe)) eqn:M; [| exact F].
    intros [<- | []]. apply mems_in, M.
  - intros H. destruct (keep_used_incl _ _ _ _ _ H) as [[] | X]. exact X.
Qed.

Theorem select_one_covers : forall fe s,
  In s (fe_used fe) -> In (resolve (fe_aliases fe) s) (fe_variants fe) ->
  In (resolve (fe_aliases fe) s) (select_one fe).
Proof.
  intros fe s H Hv. unfold select_one. destruct (fe_used fe) as [| t r] eqn:U; [contradiction |].
  apply keep_used_covers; assumption.
Qed.

Theorem select_one_uncalled : forall fe, fe_used fe = [] -> fe_variants fe <> [] ->
  exists s, select_one fe = [s] /\ In s (fe_variants fe) /\
            (forall c, fe_primary fe = Some c -> In c (fe_variants fe) -> s = c).
Proof.
  intros fe U V. unfold select_one. rewrite U.
  destruct (fe_variants fe) as [| f l] eqn:E; [contradiction |].
  destruct (fe_primary fe) as [c |].
  - destruct (mems c (f :: l)) eqn:M.
    + exists c. split; [reflexivity | split; [apply mems_in, M | intros c' H; now inversion H]].
    + exists f. split; [reflexivity | split; [now left |]].
      intros c' H Hin. inversion H; subst. apply mems_in in Hin. congruence.
  - exists f. split; [reflexivity | split; [now left | discriminate]].
Qed.

(* ---- the whole loop ---- *)
Lemma in_select : forall fs n s,
  In (n, s) (select fs) <-> exists fe, In (n, fe) fs /\ In s (select_one fe).
Proof.
  intros fs n s. unfold select. rewrite in_flat_map. split.
  - intros ([m fe] & Hin & H). cbn in H. apply in_map_iff in H. destruct H as (t & E & Ht).
    inversion E; subst. exists fe. split; assumption.
  - intros (fe & Hin & H). exists (n, fe). split; [exact Hin |]. cbn. apply in_map_iff. exists s. split; auto.
Qed.

Theorem select_nodup : forall fs, NoDup (map fst fs) -> NoDup (select fs).
Proof.
  induction fs as [| [n fe] fs IH]; intros N; cbn; [constructor |].
  inversion N as [| ? ? Hn Nr]; subst. apply nodup_app.
  - apply nodup_map_inj_on; [| apply select_one_nodup]. intros x y _ _ E. now inversion E.
  - apply IH, Nr.
  - intros [m s] H1 H2. apply in_map_iff in H1. destruct H1 as (t & E & _). inversion E; subst.
    apply in_select in H2. destruct H2 as (fe' & Hin & _). apply Hn.
    apply in_map_iff. exists (m, fe'). split; [reflexivity | exact Hin].
Qed.

Theorem select_sound : forall fs n s, In (n, s) (select fs) ->
  exists fe, In (n, fe) fs /\ In s (fe_variants fe).
Proof.
  intros fs n s H. apply in_select in H. destruct H as (fe & Hin & H).
  exists fe. split; [exact Hin | apply select_one_incl, H].
Qed.

Theorem select_covers : forall fs n fe s, In (n, fe) fs -> In s (fe_used fe) ->
  In (resolve (fe_aliases fe) s) (fe_variants fe) ->
  In (n, resolve (fe_aliases fe) s) (select fs).
Proof.
  intros fs n fe s Hin Hs Hv. apply in_select. exists fe. split; [exact Hin | apply select_one_covers; assumption].
Qed.

(* ---- C++ level ---- *)
Lemma cpp_type_inj : forall a b, known a = true -> known b = true -> cpp_type a = cpp_type b -> a = b.
Proof.
  induction a as [| | | | | e IH | z]; destruct b as [| | | | | f | y]; cbn; intros Ka Kb E;
    try reflexivity; try discriminate.
  inversion E as [E']. f_equal. apply IH; assumption.
Qed.

Lemma cpp_sig_inj : forall a b, forallb known a = true -> forallb known b = true -> cpp_sig a = cpp_sig b -> a = b.
Proof.
  induction a as [| x a IH]; destruct b as [| y b]; cbn; intros Ka Kb E; try reflexivity; try discriminate.
  apply andb_true_iff in Ka, Kb. destruct Ka as [Kx Ka], Kb as [Ky Kb]. inversion E as [[E1 E2]].
  f_equal; [apply cpp_type_inj; assumption | apply IH; assumption].
Qed.

Lemma cty_eqb_eq : forall a b, cty_eqb a b = true <-> a = b.
Proof.
  induction a as [| | | | | e IH]; destruct b as [| | | | | f]; cbn;
    try (split; [reflexivity | reflexivity]); try (split; [discriminate | discriminate]).
  rewrite IH. split; [intros ->; reflexivity | intros H; now inversion H].
Qed.

Lemma ctys_eqb_eq : forall a b, ctys_eqb a b = true <-> a = b.
Proof.
  induction a as [| x a IH]; destruct b as [| y b]; cbn;
    try (split; [reflexivity | reflexivity]); try (split; [discriminate | discriminate]).
  rewrite andb_true_iff, cty_eqb_eq, IH. split; [intros [-> ->]; reflexivity | intros H; now inversion H].
Qed.

Lemma mem_def_in : forall n t l, mem_def n t l = true <-> In (n, t) l.
Proof.
  intros n t l. induction l as [| [m u] l IH]; cbn; [split; [discriminate | contradiction] |].
  rewrite orb_true_iff, andb_true_iff, Z.eqb_eq, ctys_eqb_eq, IH. split.
  - intros [[-> ->] | H]; auto.
  - intros [H | H]; [inversion H; auto | auto].
Qed.

Theorem no_redefinition_spec : forall l, no_redefinition l = true <-> NoDup l.
Proof.
  induction l as [| [n t] l IH]; cbn; [split; [constructor | reflexivity] |].
  rewrite andb_true_iff, negb_true_iff, IH. split.
  - intros [H N]. constructor; [| exact N]. intros X. apply mem_def_in in X. congruence.
  - intros N. inversion N as [| ? ? Hn Nl]; subst. split; [| exact Nl].
    destruct (mem_def n t l) eqn:M; [| reflexivity]. exfalso. apply Hn, mem_def_in, M.
Qed.

Theorem no_redefinition_partial : forall fs,
  NoDup (map fst fs) ->
  (forall n s, In (n, s) (select fs) -> forallb known s = true) ->
  no_redefinition (cpp_defs fs) = true /\ NoDup (cpp_defs fs).
Proof.
  intros fs N K. assert (G : NoDup (cpp_defs fs)).
  { unfold cpp_defs. apply nodup_map_inj_on; [| apply select_nodup, N].
    intros [n s] [m t] Hx Hy E. cbn in E. inversion E as [[E1 E2]]. subst m. f_equal.
    apply cpp_sig_inj; [eapply K; eauto | eapply K; eauto | exact E2]. }
  split; [apply no_redefinition_spec, G | exact G].
Qed.

(* ---- demonstrations ---- *)
Lemma demo_select :
  select demo_fns = [(1, [LFloat]); (2, [LInt]); (2, [LString]); (3, [LInt; LInt])] /\
  no_redefinition (cpp_defs demo_fns) = true /\
  NoDup (map fst demo_fns) /\
  (forall n s, In (n, s) (select demo_fns) -> forallb known s = true).
Proof.
  split; [reflexivity |]. split; [reflexivity |]. split.
  - cbn. repeat (constructor; [cbn; intuition discriminate |]). constructor.
  - intros n s H. cbn in H. repeat (destruct H as [H | H]; [inversion H; reflexivity |]). contradiction.
Qed.

(* without the "not in keep" test the aliased variant of half is selected twice *)
Lemma nodedup_breaks :
  keep_used_nodedup (fe_aliases half_entry) (fe_variants half_entry) (fe_used half_entry) = [[LFloat]; [LFloat]] /\
  select_one half_entry = [[LFloat]] /\
  no_redefinition (map (fun s => (1, cpp_sig s))
     (keep_used_nodedup (fe_aliases half_entry) (fe_variants half_entry) (fe_used half_entry))) = false.
Proof. repeat split. Qed.

(* _cpp_type sends every label outside its table to int: the guard "known" cannot be dropped in the model *)
Lemma cpp_type_not_injective : cpp_type (LOther 0) = cpp_type LInt /\ LOther 0 <> LInt.
Proof. split; [reflexivity | discriminate]. Qed.
