(* Proofs about Lang/FoldSession.v: without a memo of folded values every parse() is independent of the process it runs in
   and leaves the module-level objects alone; with one, a later script is transpiled differently. *)
From Coq Require Import ZArith List Bool Lia.
From RV Require Import Base.Wire Base.Text Gen.SetSites Lang.FoldSession.
Import ListNotations.
Open Scope Z_scope.

Definition is_local (l : loc) : bool := match l with Local _ => true | Shared _ => false end.
Definition all_local (e : list (ident * loc)) : bool := forallb (fun p => is_local (snd p)) e.

Lemma env_find_local : forall x e l, all_local e = true -> env_find x e = Some l -> exists n, l = Local n.
Proof.
  intros x e. induction e as [|[y l0] e IH]; intros l A H; simpl in *.
  - discriminate.
  - apply andb_prop in A. destruct A as [A0 A].
    destruct (text_eqb x y).
    + inversion H; subst. destruct l; [eexists; reflexivity|discriminate].
    + eapply IH; eassumption.
Qed.

(* one statement without a memo: names stay bound to per-parse objects, the module-level objects are neither read nor written *)
Lemma fstep_local : forall s st, all_local (ps_env s) = true ->
  all_local (ps_env (fst (fstep false s st))) = true /\
  ps_ms (fst (fstep false s st)) = ps_ms s /\
  forall ms', fstep false (mk_ps (ps_env s) (ps_heap s) ms') st =
              (mk_ps (ps_env (fst (fstep false s st))) (ps_heap (fst (fstep false s st))) ms', snd (fstep false s st)).
Proof.
  intros s st A. destruct st as [x lit|x v|x v|x|x]; simpl.
  - repeat split. simpl. exact A.
  - destruct (env_find x (ps_env s)) as [l|] eqn:E; simpl.
    + destruct (env_find_local _ _ _ A E) as [n Hn]. subst l. simpl. repeat split; assumption.
    + repeat split; assumption.
  - destruct (env_find x (ps_env s)) as [l|] eqn:E; simpl.
    + destruct (env_find_local _ _ _ A E) as [n Hn]. subst l. simpl. repeat split; assumption.
    + repeat split; assumption.
  - destruct (env_find x (ps_env s)) as [l|] eqn:E; simpl.
    + destruct (env_find_local _ _ _ A E) as [n Hn]. subst l. simpl. repeat split; assumption.
    + repeat split; assumption.
  - destruct (env_find x (ps_env s)) as [l|] eqn:E; simpl.
    + destruct (env_find_local _ _ _ A E) as [n Hn]. subst l. simpl. repeat split; assumption.
    + repeat split; assumption.
Qed.

Lemma frun_local : forall p s, all_local (ps_env s) = true ->
  ps_ms (fst (frun false s p)) = ps_ms s /\
  forall ms', snd (frun false (mk_ps (ps_env s) (ps_heap s) ms') p) = snd (frun false s p).
Proof.
  induction p as [|st q IH]; intros s A; simpl.
  - split; reflexivity.
  - destruct (fstep_local s st A) as [A1 [M1 I1]].
    destruct (fstep false s st) as [s1 o1] eqn:E1. simpl in A1, M1, I1.
    destruct (IH s1 A1) as [M2 I2].
    destruct (frun false s1 q) as [s2 o2] eqn:E2. simpl in M2, I2. simpl.
    split; [congruence|].
    intros ms'. rewrite I1. specialize (I2 ms').
    destruct (frun false (mk_ps (ps_env s1) (ps_heap s1) ms') q) as [s2' o2'] eqn:E3. simpl in *. congruence.
Qed.

(* one parse() leaves the module-level objects as it found them, and its output is the script's own *)
Theorem parse_pure : forall ms p, parse1 false ms p = (alone p, ms).
Proof.
  intros ms p. unfold alone, parse1.
  destruct (frun_local p (mk_ps [] [] ms) eq_refl) as [M I]. specialize (I ms_empty). simpl in I.
  destruct (frun false (mk_ps [] [] ms) p) as [s o] eqn:E.
  destruct (frun false (mk_ps [] [] ms_empty) p) as [s0 o0] eqn:E0.
  simpl in *. congruence.
Qed.

Theorem session_stateless : forall before ms p after,
  nth_error (fsession false ms (before ++ p :: after)) (length before) = Some (alone p).
Proof.
  induction before as [|b before IH]; intros ms p after; simpl.
  - rewrite parse_pure. reflexivity.
  - rewrite parse_pure. simpl. apply IH.
Qed.

(* the guard is tight: with a memo of folded list displays, B = "steps = [1, 0, 1]; n = len(steps); flash_pattern(steps)"
   comes out differently after A = "steps = [1, 0, 1]; steps.append(0); steps.append(1); ..." *)
Lemma memo_leaks :
  alone leak_B = [OLenIs 3; OPattern [1; 0; 1]] /\
  fsession true ms_empty [leak_B; leak_A; leak_B; leak_A] =
    [ [OLenIs 3; OPattern [1; 0; 1]];
      [OLenIs 5; OPattern [1; 0; 1; 0; 1]];
      [OLenIs 5; OPattern [1; 0; 1; 0; 1]];
      [OLenIs 7; OPattern [1; 0; 1; 0; 1; 0; 1]] ].
Proof. vm_compute. split; reflexivity. Qed.

Theorem memo_refutes : exists A B, nth_error (fsession true ms_empty [A; B]) 1 <> Some (alone B).
Proof. exists leak_A, leak_B. vm_compute. intros H. discriminate H. Qed.

(* the current source has no module-level object a memo could live in *)
Lemma no_memo_possible : memo_possible = false.
Proof. vm_compute. reflexivity. Qed.

Theorem session_stateless_current_source : forall before ms p after,
  nth_error (fsession memo_possible ms (before ++ p :: after)) (length before) = Some (alone p).
Proof. rewrite no_memo_possible. exact session_stateless. Qed.

Theorem no_leaky_state : forall m, In m module_state -> m_mutated m = true -> m_name m = hook_log.
Proof.
  intros m Hm Hmut. pose proof no_memo_possible as H. unfold memo_possible in H.
  apply orb_false_elim in H. destruct H as [H _].
  assert (Hl : leaky_state m = false).
  { destruct (leaky_state m) eqn:E; [|reflexivity].
    assert (X : existsb leaky_state module_state = true) by (apply existsb_exists; exists m; split; assumption). congruence. }
  unfold leaky_state in Hl. rewrite Hmut in Hl. simpl in Hl. apply negb_false_iff in Hl.
  revert Hl. generalize (m_name m) hook_log. induction t as [|a t IH]; intros [|b u]; simpl; intros E; try discriminate; try reflexivity.
  apply andb_prop in E. destruct E as [E1 E2]. apply Z.eqb_eq in E1. subst. f_equal. apply IH. exact E2.
Qed.

Lemma session_nonvacuous :
  alone leak_A = [OLenIs 5; OPattern [1; 0; 1; 0; 1]] /\
  fsession false (mk_ms [[9; 9]] [([1; 0; 1], 0%nat)]) [leak_B; leak_A; leak_B] =
    [[OLenIs 3; OPattern [1; 0; 1]]; [OLenIs 5; OPattern [1; 0; 1; 0; 1]]; [OLenIs 3; OPattern [1; 0; 1]]].
Proof. vm_compute. split; reflexivity. Qed.
