From Coq Require Import ZArith List Bool Lia.
From RV Require Import Lang.Globals.
Import ListNotations.
Open Scope Z_scope.

Lemma same_line_eq a b : same_line a b = true <-> a = b.
Proof.
  unfold same_line. destruct a as [n i], b as [m j]. simpl. rewrite andb_true_iff, !Z.eqb_eq.
  split; [intros [H1 H2]; now subst | intro H; inversion H; auto].
Qed.

Lemma existsb_same l g : existsb (same_line l) g = true <-> In l g.
Proof.
  rewrite existsb_exists. split.
  - intros [x [Hx Hs]]. apply same_line_eq in Hs. now subst.
  - intro H. exists l. split; [exact H | now apply same_line_eq].
Qed.

Lemma consistent_spec ls : consistent ls = true <->
  (forall a b, In a ls -> In b ls -> fst a = fst b -> snd a = snd b).
Proof.
  unfold consistent. rewrite forallb_forall. split.
  - intros H a b Ha Hb E. specialize (H a Ha). rewrite forallb_forall in H. specialize (H b Hb).
    apply orb_true_iff in H. destruct H as [H | H].
    + apply negb_true_iff, Z.eqb_neq in H. contradiction.
    + now apply Z.eqb_eq.
  - intros H a Ha. apply forallb_forall. intros b Hb. destruct (fst a =? fst b) eqn:E; simpl; [|reflexivity].
    apply Z.eqb_eq in E. apply Z.eqb_eq. now apply H.
Qed.

(* invariant of the fold: the lines kept so far come from the offered ones, and no name twice *)
Lemma fold_inv ls : forall g all,
  (forall a b, In a all -> In b all -> fst a = fst b -> snd a = snd b) ->
  incl g all -> incl ls all -> NoDup (map fst g) ->
  NoDup (map fst (fold_left add_line ls g)) /\ incl (fold_left add_line ls g) all /\
  (forall l, In l g \/ In l ls -> In l (fold_left add_line ls g)).
Proof.
  induction ls as [|l r IH]; intros g all C Hg Hl N; simpl.
  - split; [exact N | split; [exact Hg | intros l0 [H | H]; [exact H | destruct H]]].
  - assert (Hla : In l all) by (apply Hl; now left).
    assert (Hr : incl r all) by (intros x Hx; apply Hl; now right).
    destruct (existsb (same_line l) g) eqn:E.
    + assert (Ha : add_line g l = g) by (unfold add_line; now rewrite E). rewrite Ha.
      destruct (IH g all C Hg Hr N) as [A [B D]]. split; [exact A | split; [exact B |]].
      intros x [Hx | Hx]; [apply D; now left |].
      simpl in Hx. destruct Hx as [Hx | Hx]; [subst x; apply D; left; now apply existsb_same | apply D; now right].
    + assert (Ha : add_line g l = g ++ [l]) by (unfold add_line; now rewrite E). rewrite Ha.
      assert (Hn : ~ In (fst l) (map fst g)).
      { intro Hi. apply in_map_iff in Hi. destruct Hi as [x [Hx1 Hx2]].
        assert (x = l). { destruct x as [n i], l as [m j]. simpl in *. subst n. f_equal. apply (C (m, i) (m, j)); auto. }
        subst x. apply existsb_same in Hx2. congruence. }
      assert (N' : NoDup (map fst (g ++ [l]))).
      { rewrite map_app. simpl. clear - N Hn. induction (map fst g) as [|a t IHt]; simpl.
        - constructor; [intros [] | constructor].
        - inversion N; subst. constructor.
          + intro Hi. apply in_app_or in Hi. destruct Hi as [Hi | [Hi | []]]; [contradiction | subst a; apply Hn; now left].
          + apply IHt; [assumption | intro Hi; apply Hn; now right]. }
      assert (Hg' : incl (g ++ [l]) all).
      { intros x Hx. apply in_app_or in Hx. destruct Hx as [Hx | [Hx | []]]; [now apply Hg | now subst]. }
      destruct (IH (g ++ [l]) all C Hg' Hr N') as [A [B D]]. split; [exact A | split; [exact B |]].
      intros x [Hx | Hx].
      * apply D. left. apply in_or_app. now left.
      * simpl in Hx. destruct Hx as [Hx | Hx].
        -- subst x. apply D. left. apply in_or_app. right. now left.
        -- apply D. now right.
Qed.

Lemma globals_nodup ls : consistent ls = true -> NoDup (map fst (globals ls)).
Proof.
  intro C0. pose proof (proj1 (consistent_spec ls) C0) as C.
  destruct (fold_inv ls [] ls C) as [A _]; auto using incl_refl.
  - intros x [].
  - constructor.
Qed.

Lemma globals_complete ls : consistent ls = true -> forall l, In l ls -> In l (globals ls).
Proof.
  intros C0 l Hl. pose proof (proj1 (consistent_spec ls) C0) as C.
  destruct (fold_inv ls [] ls C) as [_ [_ D]]; auto using incl_refl.
  - intros x [].
  - constructor.
Qed.

Lemma globals_refuted : exists ls, ~ NoDup (map fst (globals ls)).
Proof.
  exists rebound_servo. vm_compute. intro H. inversion H as [|x l Hn Hd]; subst. apply Hn. right. now left.
Qed.

Lemma rebound_servo_lines : globals rebound_servo = [(1, 0); (2, 180); (1, 10)] /\ consistent rebound_servo = false.
Proof. vm_compute. split; reflexivity. Qed.
