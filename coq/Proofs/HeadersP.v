(* proofs about Lang/Headers.v *)
From Coq Require Import ZArith List Bool Lia.
From RV Require Import Lang.Headers.
Import ListNotations.
Open Scope Z_scope.

(* flags and objects agree, in both directions *)
Definition hinv (st : hstate) : Prop :=
  (forall n, In (n, LServo) (h_objs st) -> h_servo st = true) /\
  (forall n, In (n, LLcdPar) (h_objs st) -> h_par st = true) /\
  (forall n, In (n, LLcdI2C) (h_objs st) -> h_i2c st = true) /\
  (h_servo st = true -> exists n, In (n, LServo) (h_objs st)) /\
  (h_par st = true -> exists n, In (n, LLcdPar) (h_objs st)) /\
  (h_i2c st = true -> exists n, In (n, LLcdI2C) (h_objs st)).

Lemma hinv_h0 : hinv h0.
Proof.
  unfold hinv, h0; cbn. repeat split; intros; try contradiction; discriminate.
Qed.

Lemma in_app_single : forall (A : Type) (l : list A) (a x : A), In x (l ++ [a]) <-> In x l \/ x = a.
Proof.
  intros A l a x. rewrite in_app_iff. cbn. split; intros [H | H]; auto.
  - destruct H as [H | []]; auto.
Qed.

Lemma hstep_inv : forall st d, hinv st -> hinv (hstep st d).
Proof.
  intros st [n [k |]] (S1 & P1 & I1 & S2 & P2 & I2); [| repeat split; assumption].
  destruct k; cbn [hstep].
  - (* servo *)
    destruct (mem_obj n LServo (h_objs st)) eqn:M; unfold hinv; cbn [h_servo h_par h_i2c h_objs].
    + assert (X : exists x, In (x, LServo) (h_objs st)).
      { clear - M. revert M. generalize (h_objs st). induction l as [| [m j] l IH]; cbn; [discriminate |].
        intros M. apply orb_true_iff in M. destruct M as [M | M].
        - apply andb_true_iff in M. destruct M as [M1 M2]. apply Z.eqb_eq in M1. subst m.
          destruct j; try discriminate. exists n. now left.
        - destruct (IH M) as [x Hx]. exists x. now right. }
      repeat split; auto.
    + split; [| split; [| split; [| split; [| split]]]].
      * auto.
      * intros m H. apply in_app_single in H. destruct H as [H | H]; [eauto | discriminate].
      * intros m H. apply in_app_single in H. destruct H as [H | H]; [eauto | discriminate].
      * intros _. exists n. apply in_app_single. now right.
      * intros H. destruct (P2 H) as [m Hm]. exists m. apply in_app_single. now left.
      * intros H. destruct (I2 H) as [m Hm]. exists m. apply in_app_single. now left.
  - (* parallel LCD *)
    destruct (memz n (h_lcd_names st)); [repeat split; assumption |].
    unfold hinv; cbn [h_servo h_par h_i2c h_objs]. split; [| split; [| split; [| split; [| split]]]].
    + intros m H. apply in_app_single in H. destruct H as [H | H]; [eauto | discriminate].
    + auto.
    + intros m H. apply in_app_single in H. destruct H as [H | H]; [eauto | discriminate].
    + intros H. destruct (S2 H) as [m Hm]. exists m. apply in_app_single. now left.
    + intros _. exists n. apply in_app_single. now right.
    + intros H. destruct (I2 H) as [m Hm]. exists m. apply in_app_single. now left.
  - (* I2C LCD *)
    destruct (memz n (h_lcd_names st)); [repeat split; assumption |].
    unfold hinv; cbn [h_servo h_par h_i2c h_objs]. split; [| split; [| split; [| split; [| split]]]].
    + intros m H. apply in_app_single in H. destruct H as [H | H]; [eauto | discriminate].
    + intros m H. apply in_app_single in H. destruct H as [H | H]; [eauto | discriminate].
    + auto.
    + intros H. destruct (S2 H) as [m Hm]. exists m. apply in_app_single. now left.
    + intros H. destruct (P2 H) as [m Hm]. exists m. apply in_app_single. now left.
    + intros _. exists n. apply in_app_single. now right.
Qed.

Lemma fold_inv : forall ds st, hinv st -> hinv (fold_left hstep ds st).
Proof.
  induction ds as [| d ds IH]; intros st H; cbn; [assumption |]. apply IH, hstep_inv, H.
Qed.

Lemma hrun_inv : forall ds, hinv (hrun ds).
Proof. intros ds. apply fold_inv, hinv_h0. Qed.

(* ---- the property clause: every instantiated library class has its headers ---- *)
Lemma complete_of_inv : forall st n k h, hinv st -> In (n, k) (h_objs st) -> In h (needs k) -> In h (includes_of st).
Proof.
  intros st n k h (S1 & P1 & I1 & _) Hin Hh. unfold includes_of.
  destruct k; cbn in Hh.
  - destruct Hh as [<- | []]. rewrite (S1 n Hin). cbn. auto.
  - destruct Hh as [<- | []]. rewrite (P1 n Hin). cbn. destruct (h_servo st); cbn; auto.
  - rewrite (I1 n Hin). destruct Hh as [<- | [<- | []]]; destruct (h_servo st), (h_par st); cbn; auto 10.
Qed.

Theorem headers_complete : forall ds n k h,
  In (n, k) (objects ds) -> In h (needs k) -> In h (includes ds).
Proof. intros ds n k h. apply complete_of_inv, hrun_inv. Qed.

Theorem headers_exact : forall ds h,
  In h (includes ds) -> h = HArduino \/ exists n k, In (n, k) (objects ds) /\ In h (needs k).
Proof.
  intros ds h. unfold includes, objects, includes_of.
  destruct (hrun_inv ds) as (_ & _ & _ & S2 & P2 & I2).
  intros H. cbn in H. destruct H as [H | H]; [now left |]. right.
  apply in_app_iff in H. destruct H as [H | H].
  { destruct (h_servo (hrun ds)); [| contradiction]. destruct H as [<- | []].
    destruct (S2 eq_refl) as [n Hn]. exists n, LServo. cbn; auto. }
  apply in_app_iff in H. destruct H as [H | H].
  { destruct (h_par (hrun ds)); [| contradiction]. destruct H as [<- | []].
    destruct (P2 eq_refl) as [n Hn]. exists n, LLcdPar. cbn; auto. }
  destruct (h_i2c (hrun ds)); [| contradiction].
  destruct (I2 eq_refl) as [n Hn]. exists n, LLcdI2C. cbn. cbn in H. intuition.
Qed.

Lemma mem_hdr_in : forall h l, mem_hdr h l = true <-> In h l.
Proof.
  intros h l. induction l as [| g l IH]; cbn; [split; [discriminate | contradiction] |].
  rewrite orb_true_iff, IH. split; intros [H | H]; auto.
  - left. destruct h, g; cbn in H; congruence.
  - left. subst. destruct h; reflexivity.
Qed.

Theorem headers_ok_holds : forall ds, headers_ok (includes ds) (objects ds) = true.
Proof.
  intros ds. unfold headers_ok. apply forallb_forall. intros [n k] Hin.
  apply forallb_forall. intros h Hh. apply mem_hdr_in. cbn in Hh. eapply headers_complete; eauto.
Qed.

Theorem headers_ok_meaning : forall incs objs,
  headers_ok incs objs = true <-> (forall n k h, In (n, k) objs -> In h (needs k) -> In h incs).
Proof.
  intros incs objs. unfold headers_ok. rewrite forallb_forall. split.
  - intros H n k h Hin Hh. specialize (H (n, k) Hin). cbn in H.
    rewrite forallb_forall in H. apply mem_hdr_in, H, Hh.
  - intros H [n k] Hin. apply forallb_forall. intros h Hh. apply mem_hdr_in. eapply H; eauto.
Qed.

Theorem includes_nodup : forall ds, NoDup (includes ds) /\ exists r, includes ds = HArduino :: r.
Proof.
  intros ds. unfold includes, includes_of. split; [| eexists; reflexivity].
  destruct (h_servo (hrun ds)), (h_par (hrun ds)), (h_i2c (hrun ds)); cbn;
    repeat (constructor; [cbn; intuition discriminate |]); constructor.
Qed.

(* ---- every declared library device is instantiated ---- *)
Lemma objs_grow : forall st d o, In o (h_objs st) -> In o (h_objs (hstep st d)).
Proof.
  intros st [n [k |]] o H; [| exact H]. destruct k; cbn [hstep].
  - cbn [h_objs]. destruct (mem_obj n LServo (h_objs st)); [exact H | apply in_app_single; now left].
  - destruct (memz n (h_lcd_names st)); [exact H | cbn [h_objs]; apply in_app_single; now left].
  - destruct (memz n (h_lcd_names st)); [exact H | cbn [h_objs]; apply in_app_single; now left].
Qed.

Lemma objs_grow_fold : forall ds st o, In o (h_objs st) -> In o (h_objs (fold_left hstep ds st)).
Proof.
  induction ds as [| d ds IH]; intros st o H; cbn; [exact H |]. apply IH, objs_grow, H.
Qed.

Lemma mem_obj_in : forall n k l, mem_obj n k l = true -> In (n, k) l.
Proof.
  intros n k l. induction l as [| [m j] l IH]; cbn; [discriminate |].
  intros H. apply orb_true_iff in H. destruct H as [H | H]; [| right; auto].
  apply andb_true_iff in H. destruct H as [H1 H2]. apply Z.eqb_eq in H1. subst m.
  left. destruct k, j; cbn in H2; congruence.
Qed.

(* names in lcd_state are exactly the names that own an LCD object *)
Definition ninv (st : hstate) : Prop :=
  forall n, memz n (h_lcd_names st) = true -> In (n, LLcdPar) (h_objs st) \/ In (n, LLcdI2C) (h_objs st).

Lemma memz_app_single : forall n l a, memz n (l ++ [a]) = memz n l || (n =? a).
Proof.
  intros n l a. induction l as [| b l IH]; cbn; [now rewrite orb_false_r |]. rewrite IH. now rewrite orb_assoc.
Qed.

Lemma hstep_ninv : forall st d, ninv st -> ninv (hstep st d).
Proof.
  intros st [n [k |]] H; [| exact H]. destruct k; cbn [hstep].
  - intros m Hm. cbn [h_lcd_names] in Hm. cbn [h_objs].
    destruct (H m Hm) as [X | X]; [left | right];
      (destruct (mem_obj n LServo (h_objs st)); [exact X | apply in_app_single; now left]).
  - destruct (memz n (h_lcd_names st)) eqn:M; [exact H |].
    intros m Hm. cbn [h_lcd_names] in Hm. cbn [h_objs]. rewrite memz_app_single in Hm.
    apply orb_true_iff in Hm. destruct Hm as [Hm | Hm].
    + destruct (H m Hm) as [X | X]; [left | right]; apply in_app_single; now left.
    + apply Z.eqb_eq in Hm. subst m. left. apply in_app_single. now right.
  - destruct (memz n (h_lcd_names st)) eqn:M; [exact H |].
    intros m Hm. cbn [h_lcd_names] in Hm. cbn [h_objs]. rewrite memz_app_single in Hm.
    apply orb_true_iff in Hm. destruct Hm as [Hm | Hm].
    + destruct (H m Hm) as [X | X]; [left | right]; apply in_app_single; now left.
    + apply Z.eqb_eq in Hm. subst m. right. apply in_app_single. now right.
Qed.

Lemma declared_fold : forall ds st n k, ninv st -> In (n, Some k) ds ->
  match k with
  | LServo => In (n, LServo) (h_objs (fold_left hstep ds st))
  | _ => In (n, LLcdPar) (h_objs (fold_left hstep ds st)) \/ In (n, LLcdI2C) (h_objs (fold_left hstep ds st))
  end.
Proof.
  induction ds as [| d ds IH]; intros st n k NI Hin; [contradiction |].
  cbn [fold_left]. destruct Hin as [-> | Hin]; [| apply IH; [apply hstep_ninv, NI | exact Hin]].
  assert (G := objs_grow_fold ds (hstep st (n, Some k))).
  destruct k; cbn [hstep].
  - apply objs_grow_fold. cbn [h_objs].
    destruct (mem_obj n LServo (h_objs st)) eqn:M; [apply mem_obj_in, M | apply in_app_single; now right].
  - destruct (memz n (h_lcd_names st)) eqn:M.
    + destruct (NI n M) as [X | X]; [left | right]; apply objs_grow_fold, X.
    + left. apply objs_grow_fold. cbn [h_objs]. apply in_app_single. now right.
  - destruct (memz n (h_lcd_names st)) eqn:M.
    + destruct (NI n M) as [X | X]; [left | right]; apply objs_grow_fold, X.
    + right. apply objs_grow_fold. cbn [h_objs]. apply in_app_single. now right.
Qed.

Theorem declared_instantiated : forall ds n k, In (n, Some k) ds ->
  exists k', In (n, k') (objects ds) /\ (k = LServo <-> k' = LServo).
Proof.
  intros ds n k Hin. assert (NI : ninv h0) by (intros m Hm; discriminate).
  pose proof (declared_fold ds h0 n k NI Hin) as H. unfold objects, hrun.
  destruct k.
  - exists LServo. split; [exact H | tauto].
  - destruct H as [H | H]; [exists LLcdPar | exists LLcdI2C]; (split; [exact H | split; discriminate]).
  - destruct H as [H | H]; [exists LLcdPar | exists LLcdI2C]; (split; [exact H | split; discriminate]).
Qed.

(* ---- the if -> elif class of regressions breaks the clause, on the smallest sketch with both LCD kinds ---- *)
Lemma elif_breaks :
  headers_ok (includes_elif (hrun both_lcds)) (objects both_lcds) = false /\
  headers_ok (includes both_lcds) (objects both_lcds) = true /\
  includes both_lcds = [HArduino; HLiquidCrystal; HWire; HLiquidCrystalI2C].
Proof. vm_compute. repeat split. Qed.

Lemma all_libs_demo :
  includes all_libs = [HArduino; HServo; HLiquidCrystal; HWire; HLiquidCrystalI2C] /\
  objects all_libs = [(3, LLcdI2C); (1, LLcdPar); (5, LServo)].
Proof. vm_compute. split; reflexivity. Qed.
