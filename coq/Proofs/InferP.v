(* Proofs for C02: soundness of [infer] w.r.t. the reference Python semantics inside the
   executable guard, refutation witnesses for every guard clause, the join lemmas. *)
From Coq Require Import ZArith QArith List Bool Lia.
From RV Require Import Base.Wire Base.Text Lang.PyAst Lang.PySem Lang.Infer Lang.InferGuard Lang.InferSpec
  Gen.InferTables.
Import ListNotations.
Open Scope Z_scope.

(* ------------------------------------------------------------------ basics *)
Lemma ty_eqb_eq a b : ty_eqb a b = true <-> a = b.
Proof.
  revert b; induction a as [| | | |a IH| |s]; intros [| | | |b| |t]; cbn; split; intro H;
    try reflexivity; try discriminate.
  - apply IH in H. congruence.
  - inversion H; subst. apply IH. reflexivity.
  - apply text_eqb_eq in H. congruence.
  - inversion H; subst. apply text_eqb_refl.
Qed.
Lemma ty_eqb_refl a : ty_eqb a a = true.
Proof. apply ty_eqb_eq. reflexivity. Qed.
Lemma ty_eqb_neq a b : ty_eqb a b = false <-> a <> b.
Proof.
  split; intro H.
  - intro E. apply ty_eqb_eq in E. congruence.
  - destruct (ty_eqb a b) eqn:E; [apply ty_eqb_eq in E; contradiction | reflexivity].
Qed.

Lemma text_eqb_sym a b : text_eqb a b = text_eqb b a.
Proof.
  destruct (text_eqb a b) eqn:E1, (text_eqb b a) eqn:E2; try reflexivity.
  - apply text_eqb_eq in E1. subst. rewrite text_eqb_refl in E2. discriminate.
  - apply text_eqb_eq in E2. subst. rewrite text_eqb_refl in E1. discriminate.
Qed.

Lemma tlookup_tset G x t y :
  tlookup y (tset G x t) = if text_eqb y x then Some t else tlookup y G.
Proof.
  induction G as [|[k v] r IH]; cbn.
  - reflexivity.
  - destruct (text_eqb x k) eqn:Exk; cbn.
    + apply text_eqb_eq in Exk. subst k. destruct (text_eqb y x); reflexivity.
    + destruct (text_eqb y k) eqn:Eyk.
      * apply text_eqb_eq in Eyk. subst k.
        destruct (text_eqb y x) eqn:Eyx; [|reflexivity].
        apply text_eqb_eq in Eyx. subst. rewrite text_eqb_refl in Exk. discriminate.
      * apply IH.
Qed.

Lemma tget_tset G x t y :
  tget (tset G x t) y = if text_eqb y x then t else tget G y.
Proof. unfold tget. rewrite tlookup_tset. destruct (text_eqb y x); reflexivity. Qed.

(* ------------------------------------------------------------------ the evaluator, unfolded *)
Fixpoint evals_f (f : pexpr -> res pval) (l : list pexpr) : res (list pval) :=
  match l with
  | [] => Ok []
  | x :: r => do v <- f x; do vs <- evals_f f r; Ok (v :: vs)
  end.
Fixpoint evand_f (f : pexpr -> res pval) (l : list pexpr) (last : pval) : res pval :=
  match l with
  | [] => Ok last
  | x :: r => do v <- f x; if truthy v then evand_f f r v else Ok v
  end.
Fixpoint evor_f (f : pexpr -> res pval) (l : list pexpr) (last : pval) : res pval :=
  match l with
  | [] => Ok last
  | x :: r => do v <- f x; if truthy v then Ok v else evor_f f r v
  end.
Fixpoint chain_f (f : pexpr -> res pval) (left : pval) (ops : list cmpop) (rs : list pexpr) : res pval :=
  match rs, ops with
  | r :: rs', op :: ops' =>
      do rv <- f r; do c <- py_cmp op left rv;
      if c then chain_f f rv ops' rs' else Ok (VBool false)
  | [], [] => Ok (VBool true)
  | _, _ => Err OutOfModel
  end.

Lemma peval_list rho es : peval rho (EList es) = do vs <- evals_f (peval rho) es; Ok (VList vs).
Proof.
  cbn [peval].
  match goal with |- bind (?g es) _ = _ => assert (E : forall l, g l = evals_f (peval rho) l) end.
  { induction l as [|x r IH]; [reflexivity|]. cbn [evals_f]. rewrite <- IH. reflexivity. }
  rewrite E. reflexivity.
Qed.

Lemma peval_call rho f args :
  peval rho (ECall f args []) =
  match lookup f rho with
  | Some _ => Err OutOfModel
  | None => do vs <- evals_f (peval rho) args; py_call f vs
  end.
Proof.
  cbn [peval]. destruct (lookup f rho); [reflexivity|].
  match goal with |- bind (?g args) _ = _ => assert (E : forall l, g l = evals_f (peval rho) l) end.
  { induction l as [|x r IH]; [reflexivity|]. cbn [evals_f]. rewrite <- IH. reflexivity. }
  rewrite E. reflexivity.
Qed.

Lemma peval_and rho vs : peval rho (EBoolOp And vs) = evand_f (peval rho) vs (VBool true).
Proof.
  cbn [peval]. generalize (VBool true).
  induction vs as [|x r IH]; intro last; [reflexivity|].
  simpl. destruct (peval rho x) as [v|er]; simpl; [|reflexivity].
  destruct (truthy v); [apply IH | reflexivity].
Qed.

Lemma peval_or rho vs : peval rho (EBoolOp Or vs) = evor_f (peval rho) vs (VBool false).
Proof.
  cbn [peval]. generalize (VBool false).
  induction vs as [|x r IH]; intro last; [reflexivity|].
  simpl. destruct (peval rho x) as [v|er]; simpl; [|reflexivity].
  destruct (truthy v); [reflexivity | apply IH].
Qed.

Lemma peval_compare rho l ops rs :
  peval rho (ECompare l ops rs) =
  match ops with [] => Err OutOfModel | _ => do lv <- peval rho l; chain_f (peval rho) lv ops rs end.
Proof.
  cbn [peval]. destruct ops as [|o ops]; [reflexivity|].
  destruct (peval rho l) as [lv|er]; [|reflexivity]. cbn [bind].
  match goal with |- ?g lv (o :: ops) rs = _ =>
    assert (E : forall rs0 lv0 ops0, g lv0 ops0 rs0 = chain_f (peval rho) lv0 ops0 rs0) end.
  { induction rs0 as [|r rs0 IH]; intros lv0 ops0.
    - destruct ops0; reflexivity.
    - destruct ops0 as [|o0 ops0]; [reflexivity|]. simpl.
      destruct (peval rho r) as [rv|er]; simpl; [|reflexivity].
      destruct (py_cmp o0 lv0 rv) as [c|er]; simpl; [|reflexivity].
      destruct c; [apply IH | reflexivity]. }
  apply E.
Qed.

(* ------------------------------------------------------------------ purity: inside the guard [infer] leaves var_types alone *)
Section Sound.
  Variable F : ftable.
  Variable A : aliases.
  Variable C : option ictx.
  Notation inf := (infer unit (call_static F A) C).
  Notation ety' := (ety F A C).
  Notation pure' := (pure F A C).
  Notation guard' := (guard F A C).

  Lemma ety_of G e t G1 s : inf tt G e = Some (t, G1, s) -> ety' G e = t.
  Proof. intro H. unfold ety, infer_s. rewrite H. reflexivity. Qed.

  Definition pure_ok (e : pexpr) : Prop :=
    forall G t G1 s, inf tt G e = Some (t, G1, s) -> pure' G e = true -> G1 = G.

  Lemma thread_pure args :
    Forall pure_ok args ->
    forall G ts G1 s, thread inf tt G args = Some (ts, G1, s) ->
      forallb (pure' G) args = true -> G1 = G /\ ts = map (ety' G) args.
  Proof.
    induction 1 as [|a args Ha Hargs IH]; intros G ts G1 s Hth Hp.
    - cbn in Hth. inversion Hth; subst. split; reflexivity.
    - cbn [thread] in Hth. cbn [forallb] in Hp. apply andb_true_iff in Hp as [Hpa Hpr].
      destruct (inf tt G a) as [[[t Ga] sa]|] eqn:Ea; [|discriminate].
      assert (Ga = G) by (eapply Ha; eauto). subst Ga. destruct sa.
      destruct (thread inf tt G args) as [[[ts' Gr] sr]|] eqn:Er; [|discriminate].
      inversion Hth; subst. destruct (IH _ _ _ _ Er Hpr) as [-> ->].
      split; [reflexivity|]. cbn [map]. f_equal. symmetry. eapply ety_of; eauto.
  Qed.

  Lemma contaminate_id G e t : (is_name e && negb (is_string_ty t)) = false -> contaminate G e t = G.
  Proof.
    unfold contaminate. destruct e; cbn; try reflexivity.
    destruct (is_string_ty t); [reflexivity | discriminate].
  Qed.

  Lemma pure_infer e : pure_ok e.
  Proof.
    induction e using pexpr_ind'; unfold pure_ok; intros G ty0 G1 st Hi Hp;
      try (cbn in Hi; inversion Hi; subst; reflexivity).
    - (* EBin *)
      cbn [infer] in Hi. cbn [pure] in Hp.
      apply andb_true_iff in Hp as [Hp Hf]. apply andb_true_iff in Hp as [Hpa Hpb].
      destruct (inf tt G e1) as [[[lt Ga] sa]|] eqn:Ea; [|discriminate].
      assert (Ga = G) by (eapply IHe1; eauto). subst Ga. destruct sa.
      destruct (inf tt G e2) as [[[rt Gb] sb]|] eqn:Eb; [|discriminate].
      assert (Gb = G) by (eapply IHe2; eauto). subst Gb.
      rewrite (ety_of _ _ _ _ _ Ea), (ety_of _ _ _ _ _ Eb) in Hf.
      destruct (is_string_ty lt || is_string_ty rt) eqn:Es.
      + inversion Hi; subst. unfold fires in Hf. rewrite Es in Hf. cbn in Hf.
        apply negb_true_iff in Hf. apply orb_false_iff in Hf as [H1 H2].
        rewrite (contaminate_id _ _ _ H1), (contaminate_id _ _ _ H2). reflexivity.
      + destruct (ty_eqb lt TFloat || ty_eqb rt TFloat); inversion Hi; subst; reflexivity.
    - (* EUn *)
      destruct op; cbn [infer] in Hi; cbn [pure] in Hp.
      1, 2, 4: eapply IHe; eassumption.
      inversion Hi; subst; reflexivity.
    - (* EIfExp *)
      cbn [infer] in Hi. cbn [pure] in Hp. apply andb_true_iff in Hp as [Hpa Hpb].
      destruct (inf tt G e2) as [[[lt Ga] sa]|] eqn:Ea; [|discriminate].
      assert (Ga = G) by (eapply IHe2; eauto). subst Ga. destruct sa.
      destruct (inf tt G e3) as [[[rt Gb] sb]|] eqn:Eb; [|discriminate].
      assert (Gb = G) by (eapply IHe3; eauto). subst Gb.
      inversion Hi; subst; reflexivity.
    - (* ECall *)
      cbn [infer] in Hi. cbn [pure] in Hp.
      destruct (thread inf tt G args) as [[[ts Gr] sr]|] eqn:Er; [|discriminate].
      destruct (thread_pure _ H _ _ _ _ Er Hp) as [-> _].
      destruct (tlookup f builtin_rets); [inversion Hi; subst; reflexivity|].
      unfold call_static in Hi. inversion Hi; subst; reflexivity.
    - (* EList *)
      cbn [infer] in Hi. cbn [pure] in Hp.
      destruct (thread inf tt G es) as [[[ts Gr] sr]|] eqn:Er; [|discriminate].
      destruct (thread_pure _ H _ _ _ _ Er Hp) as [-> _].
      destruct (merge_element_types ts); inversion Hi; subst; reflexivity.
    - (* ESubscript *)
      cbn [infer] in Hi. cbn [pure] in Hp.
      destruct (inf tt G e1) as [[[lt Ga] sa]|] eqn:Ea; [|discriminate].
      assert (Ga = G) by (eapply IHe1; eauto). subst Ga.
      inversion Hi; subst; reflexivity.
  Qed.

  Lemma guard_pure e : forall G, guard' G e = true -> pure' G e = true.
  Proof.
    induction e using pexpr_ind'; intros G Hg; try reflexivity.
    - (* EBin *)
      cbn [guard] in Hg. cbn [pure].
      apply andb_true_iff in Hg as [Hg Hc]. apply andb_true_iff in Hg as [Ha Hb].
      rewrite (IHe1 _ Ha), (IHe2 _ Hb). cbn [andb].
      destruct (is_string_ty (ety' G e1) || is_string_ty (ety' G e2)) eqn:Es; [exact Hc|].
      unfold fires. rewrite Es. reflexivity.
    - (* EUn *)
      destruct op; cbn [guard] in Hg; cbn [pure]; try reflexivity;
        apply andb_true_iff in Hg as [Ha _]; apply IHe; exact Ha.
    - (* EIfExp *)
      cbn [guard] in Hg. cbn [pure].
      apply andb_true_iff in Hg as [Hg _]. apply andb_true_iff in Hg as [Ha Hb].
      rewrite (IHe2 _ Ha), (IHe3 _ Hb). reflexivity.
    - (* ECall *)
      cbn [guard] in Hg. cbn [pure]. apply andb_true_iff in Hg as [Hp _]. exact Hp.
    - (* EList *)
      cbn [guard] in Hg. cbn [pure]. apply andb_true_iff in Hg as [Hp _].
      induction H as [|x l Hx Hl IH]; [reflexivity|].
      cbn [forallb] in *. apply andb_true_iff in Hp as [H1 H2].
      rewrite (Hx _ H1), (IH H2). reflexivity.
    - (* ESubscript *)
      cbn [guard] in Hg. cbn [pure]. apply andb_true_iff in Hg as [Ha _]. apply IHe1; exact Ha.
  Qed.
End Sound.

(* ------------------------------------------------------------------ value-level facts about the reference semantics *)
Definition numv (v : pval) : Prop := match v with VInt _ | VFloat _ | VBool _ => True | _ => False end.
Definition intv (v : pval) : Prop := match v with VInt _ | VBool _ => True | _ => False end.
Definition strv (v : pval) : Prop := match v with VStr _ => True | _ => False end.
Definition boolv (v : pval) : Prop := match v with VBool _ => True | _ => False end.

Lemma repr_numeric t v : repr t v -> numeric t = true -> numv v.
Proof. destruct t, v; cbn; intros; try contradiction; try discriminate; exact I. Qed.
Lemma repr_intlike t v : repr t v -> intlike t = true -> intv v.
Proof. destruct t, v; cbn; intros; try contradiction; try discriminate; exact I. Qed.
Lemma repr_string v : repr TString v -> strv v.
Proof. destruct v; cbn; intros; try contradiction; exact I. Qed.
Lemma repr_bool v : repr TBool v -> boolv v.
Proof. destruct v; cbn; intros; try contradiction; exact I. Qed.
Lemma numv_repr_float v : numv v -> repr TFloat v.
Proof. destruct v; cbn; intros; try contradiction; exact I. Qed.
Lemma intv_repr_int v : intv v -> repr TInt v.
Proof. destruct v; cbn; intros; try contradiction; exact I. Qed.
Lemma intv_numv v : intv v -> numv v.
Proof. destruct v; cbn; intros; try contradiction; exact I. Qed.

Lemma int_pow_numv a e v : int_pow a e = Ok v -> numv v.
Proof.
  unfold int_pow. destruct (0 <=? e); [intro H; inversion H; exact I|].
  destruct (a =? 0); [discriminate|]. intro H; inversion H; exact I.
Qed.
Lemma float_pow_numv a e v : float_pow a e = Ok v -> numv v.
Proof.
  unfold float_pow. destruct ((e <? 0) && q_is_zero a); [discriminate|]. intro H; inversion H; exact I.
Qed.

Lemma num_bin_numv op x y v : num_bin op x y = Ok v -> numv v.
Proof.
  destruct x as [x|p], y as [y|q], op; cbn;
    repeat match goal with
           | |- (if ?c then _ else _) = _ -> _ => destruct c
           | |- match q_integral ?q with _ => _ end = _ -> _ => destruct (q_integral q)
           end;
    try discriminate;
    try (intro H; inversion H; exact I);
    try apply int_pow_numv; try apply float_pow_numv.
Qed.

Lemma py_bin_numv op a b v : numv a -> numv b -> py_bin op a b = Ok v -> numv v.
Proof.
  intros Ha Hb.
  destruct a, b; cbn in Ha, Hb; try contradiction;
    destruct op; cbn [py_bin py_bin_num as_num];
    try apply num_bin_numv; intro H; inversion H; exact I.
Qed.

Lemma py_bin_intv op a b v :
  intv a -> intv b -> is_div_pow op = false -> py_bin op a b = Ok v -> intv v.
Proof.
  intros Ha Hb Hop.
  destruct a, b; cbn in Ha, Hb; try contradiction;
    destruct op; try discriminate Hop; cbn;
    repeat match goal with |- (if ?c then _ else _) = _ -> _ => destruct c end;
    try discriminate; intro H; inversion H; exact I.
Qed.

Lemma py_bin_strv op a b v : strv a \/ strv b -> py_bin op a b = Ok v -> strv v.
Proof.
  intros [Ha|Hb].
  - destruct a; cbn in Ha; try contradiction.
    destruct op, b; cbn;
      repeat match goal with |- (if ?c then _ else _) = _ -> _ => destruct c end;
      try discriminate; intro H; inversion H; exact I.
  - destruct b; cbn in Hb; try contradiction.
    destruct op, a; cbn;
      repeat match goal with |- (if ?c then _ else _) = _ -> _ => destruct c end;
      try discriminate; intro H; inversion H; exact I.
Qed.

Lemma py_un_keeps op t a v :
  op <> Not -> repr t a -> t <> TBool -> py_un op a = Ok v -> repr t v.
Proof.
  intros Hop Hr Ht.
  destruct op; try contradiction;
    destruct t, a; cbn in Hr; try contradiction; try congruence; cbn;
    try discriminate; intro H; inversion H; exact I.
Qed.

Lemma extremum_in m : forall rest best v, extremum m best rest = Ok v -> v = best \/ In v rest.
Proof.
  induction rest as [|x r IH]; intros best v H; cbn in H.
  - inversion H. left; reflexivity.
  - destruct (py_cmp (if m then PyAst.Gt else PyAst.Lt) x best) as [c|e]; cbn in H; [|discriminate].
    apply IH in H. destruct H as [H|H]; [|right; right; exact H].
    destruct c; [right; left; symmetry; exact H | left; exact H].
Qed.

Lemma py_minmax_intv m args v : Forall intv args -> py_minmax m args = Ok v -> intv v.
Proof.
  intros Hall H.
  assert (Hx : forall x r, args = x :: r -> extremum m x r = Ok v -> intv v).
  { intros x r -> He. apply extremum_in in He. rewrite Forall_forall in Hall.
    destruct He as [->|Hin]; apply Hall; [left; reflexivity | right; exact Hin]. }
  destruct args as [|x [|y r]]; cbn in H; try discriminate.
  - inversion Hall as [|? ? Hxv _]; subst. destruct x; cbn in Hxv; try contradiction; discriminate.
  - inversion Hall as [|? ? Hxv _]; subst.
    destruct x; cbn in Hxv; try contradiction; eapply Hx; try reflexivity; exact H.
Qed.

Lemma py_index_list t x k v : repr (TList t) x -> py_index x k = Ok v -> repr t v.
Proof.
  intros Hr. destruct x; cbn in Hr; try contradiction.
  unfold py_index. destruct (is_intlike k) as [z|]; [|discriminate].
  set (j := if z <? 0 then z + Z.of_nat (length l) else z).
  destruct ((j <? 0) || (Z.of_nat (length l) <=? j)); [discriminate|].
  destruct (nth_error l (Z.to_nat j)) eqn:E; [|discriminate].
  intro H; inversion H; subst. apply nth_error_In in E. rewrite Forall_forall in Hr. apply Hr; exact E.
Qed.

Lemma evals_f_forall2 f : forall l vs, evals_f f l = Ok vs -> Forall2 (fun a v => f a = Ok v) l vs.
Proof.
  induction l as [|x r IH]; intros vs H; cbn in H.
  - inversion H. constructor.
  - destruct (f x) as [v|e] eqn:Ex; cbn in H; [|discriminate].
    destruct (evals_f f r) as [vr|e]; cbn in H; [|discriminate].
    inversion H; subst. constructor; [exact Ex | apply IH; reflexivity].
Qed.

(* ---- the builtin call table, as generated from the code ---- *)
Definition n_digital_read : ident := [100;105;103;105;116;97;108;95;114;101;97;100].
Definition n_analog_read : ident := [97;110;97;108;111;103;95;114;101;97;100].
Definition bclass (kv : text * ty) : bool :=
  let (k, t) := kv in
  (text_eqb k n_int && ty_eqb t TInt) || (text_eqb k n_float && ty_eqb t TFloat) ||
  (text_eqb k n_bool && ty_eqb t TBool) || (text_eqb k n_str && ty_eqb t TString) ||
  (text_eqb k n_len && ty_eqb t TInt) || (text_eqb k n_abs && ty_eqb t TInt) ||
  (text_eqb k n_max && ty_eqb t TInt) || (text_eqb k n_min && ty_eqb t TInt) ||
  (text_eqb k n_digital_read && ty_eqb t TInt) || (text_eqb k n_analog_read && ty_eqb t TInt).

Lemma builtin_table_ok : forallb bclass builtin_rets = true.
Proof. vm_compute. reflexivity. Qed.

Lemma tlookup_In {X} a (l : list (text * X)) v : tlookup a l = Some v -> In (a, v) l.
Proof.
  induction l as [|[k w] r IH]; cbn; [discriminate|].
  destruct (text_eqb a k) eqn:E.
  - intro H; inversion H; subst. apply text_eqb_eq in E. subst. left; reflexivity.
  - intro H. right. apply IH; exact H.
Qed.

Lemma builtin_class f t : tlookup f builtin_rets = Some t -> bclass (f, t) = true.
Proof.
  intro H. apply tlookup_In in H.
  pose proof builtin_table_ok as Hok. rewrite forallb_forall in Hok. apply Hok; exact H.
Qed.

(* what each builtin returns in the reference semantics *)
Lemma py_call_sound f t args v :
  bclass (f, t) = true ->
  (is_absminmax f = true -> Forall intv args) ->
  py_call f args = Ok v -> repr t v.
Proof.
  unfold bclass. intros Hc Habs Hcall.
  repeat (apply orb_true_iff in Hc as [Hc|Hc]);
    apply andb_true_iff in Hc as [Hk Ht]; apply text_eqb_eq in Hk; apply ty_eqb_eq in Ht; subst f t.
  - (* int *)
    unfold py_call in Hcall. cbn [text_eqb n_int Z.eqb Pos.eqb andb] in Hcall.
    destruct args as [|a [|b r]].
    + inversion Hcall; exact I.
    + destruct a; try discriminate; try (inversion Hcall; exact I).
      destruct (parse_int s); cbn in Hcall; [inversion Hcall; exact I | discriminate].
    + destruct a; discriminate.
  - (* float *)
    unfold py_call in Hcall. cbn [text_eqb n_int n_float Z.eqb Pos.eqb andb] in Hcall.
    destruct args as [|a [|b r]].
    + inversion Hcall; exact I.
    + destruct a; try discriminate; cbn in Hcall; inversion Hcall; exact I.
    + destruct a; discriminate.
  - (* bool *)
    unfold py_call in Hcall. cbn [text_eqb n_int n_float n_bool Z.eqb Pos.eqb andb] in Hcall.
    destruct args as [|a [|b r]]; try discriminate; inversion Hcall; exact I.
  - (* str *)
    unfold py_call in Hcall. cbn [text_eqb n_int n_float n_bool n_str Z.eqb Pos.eqb andb] in Hcall.
    destruct args as [|a [|b r]]; try discriminate.
    + inversion Hcall; exact I.
    + destruct (py_str a); cbn in Hcall; [inversion Hcall; exact I | discriminate].
  - (* len *)
    unfold py_call in Hcall. cbn [text_eqb n_int n_float n_bool n_str n_len Z.eqb Pos.eqb andb] in Hcall.
    destruct args as [|a [|b r]]; try discriminate.
    + destruct a; try discriminate; inversion Hcall; exact I.
    + destruct a; discriminate.
  - (* abs *)
    assert (Hi : Forall intv args) by (apply Habs; reflexivity).
    unfold py_call in Hcall. cbn [text_eqb n_int n_float n_bool n_str n_len n_abs Z.eqb Pos.eqb andb] in Hcall.
    destruct args as [|a [|b r]]; try discriminate.
    inversion Hi as [|? ? Ha _]; subst.
    destruct a; cbn in Ha; try contradiction; cbn in Hcall; inversion Hcall; exact I.
  - (* max *)
    assert (Hi : Forall intv args) by (apply Habs; reflexivity).
    unfold py_call in Hcall. cbn [text_eqb n_int n_float n_bool n_str n_len n_abs n_max Z.eqb Pos.eqb andb] in Hcall.
    apply intv_repr_int. eapply py_minmax_intv; eassumption.
  - (* min *)
    assert (Hi : Forall intv args) by (apply Habs; reflexivity).
    unfold py_call in Hcall. cbn [text_eqb n_int n_float n_bool n_str n_len n_abs n_max n_min Z.eqb Pos.eqb andb] in Hcall.
    apply intv_repr_int. eapply py_minmax_intv; eassumption.
  - (* digital_read: not a Python builtin of the reference semantics *)
    vm_compute in Hcall. discriminate.
  - vm_compute in Hcall. discriminate.
Qed.

(* ---- _merge_element_types ---- *)
Lemma ty_mem_In t l : ty_mem t l = true <-> In t l.
Proof.
  induction l as [|x r IH]; cbn; [split; [discriminate|tauto]|].
  rewrite orb_true_iff, ty_eqb_eq, IH. split; intros [H|H]; auto.
Qed.

Lemma dedupe_acc_mem x : forall l seen,
  ty_mem x (dedupe_acc seen l) = negb (ty_mem x seen) && ty_mem x l.
Proof.
  induction l as [|y r IH]; intro seen; cbn [dedupe_acc ty_mem].
  - rewrite andb_false_r. reflexivity.
  - destruct (ty_mem y seen) eqn:Ey.
    + rewrite IH. destruct (ty_eqb x y) eqn:Exy; [|reflexivity].
      apply ty_eqb_eq in Exy. subst y. rewrite Ey. reflexivity.
    + cbn [ty_mem]. rewrite IH. cbn [ty_mem].
      destruct (ty_eqb x y) eqn:Exy.
      * apply ty_eqb_eq in Exy. subst y. rewrite Ey. reflexivity.
      * cbn [orb]. reflexivity.
Qed.

Lemma dedupe_mem x l : ty_mem x (dedupe l) = ty_mem x l.
Proof. unfold dedupe. rewrite dedupe_acc_mem. reflexivity. Qed.

Lemma all_eq_dedupe t r : forallb (ty_eqb t) r = true -> dedupe (t :: r) = [t].
Proof.
  intro H. unfold dedupe. cbn [dedupe_acc ty_mem]. f_equal.
  induction r as [|x r IH]; [reflexivity|].
  cbn [forallb] in H. apply andb_true_iff in H as [Hx Hr].
  apply ty_eqb_eq in Hx. subst x. cbn [dedupe_acc ty_mem]. rewrite ty_eqb_refl. cbn [orb].
  apply IH; exact Hr.
Qed.

Lemma filter_none {X} (p : X -> bool) l : (forall x, In x l -> p x = false) -> filter p l = [].
Proof.
  induction l as [|x r IH]; intro H; [reflexivity|]. cbn.
  rewrite (H x (or_introl eq_refl)). apply IH. intros y Hy. apply H. right; exact Hy.
Qed.

Lemma merge_elem_sound ts et :
  merge_element_types ts = Some et -> (all_eq ts || forallb numeric ts) = true ->
  forall t v, In t ts -> repr t v -> repr et v.
Proof.
  intros Hm Hg t v Hin Hr.
  destruct ts as [|t0 r]; [contradiction|].
  apply orb_true_iff in Hg as [Hall|Hnum].
  - (* uniform *)
    cbn [all_eq] in Hall. unfold merge_element_types in Hm. rewrite (all_eq_dedupe _ _ Hall) in Hm.
    inversion Hm; subst et.
    destruct Hin as [<-|Hin]; [exact Hr|].
    rewrite forallb_forall in Hall. apply Hall in Hin. apply ty_eqb_eq in Hin. subst t. exact Hr.
  - (* numeric join *)
    rewrite forallb_forall in Hnum.
    assert (Hmem : forall x, ty_mem x (dedupe (t0 :: r)) = ty_mem x (t0 :: r)) by (intro; apply dedupe_mem).
    assert (HtU : ty_mem t (dedupe (t0 :: r)) = true) by (rewrite Hmem; apply ty_mem_In; exact Hin).
    assert (Hnl : filter is_list_ty (dedupe (t0 :: r)) = []).
    { apply filter_none. intros x Hx. apply ty_mem_In in Hx. rewrite Hmem in Hx. apply ty_mem_In in Hx.
      apply Hnum in Hx. destruct x; cbn in Hx; try discriminate; reflexivity. }
    assert (Hns : ty_mem TString (dedupe (t0 :: r)) = false).
    { rewrite Hmem. destruct (ty_mem TString (t0 :: r)) eqn:E; [|reflexivity].
      apply ty_mem_In in E. apply Hnum in E. discriminate. }
    pose proof (Hnum _ Hin) as Htn.
    unfold merge_element_types in Hm. cbv zeta in Hm.
    remember (dedupe (t0 :: r)) as U eqn:EU.
    destruct U as [|u [|u2 U']].
    + cbn in HtU. discriminate.
    + inversion Hm; subst et. cbn in HtU. rewrite orb_false_r in HtU. apply ty_eqb_eq in HtU. subst u. exact Hr.
    + rewrite Hnl, Hns in Hm.
      destruct (ty_mem TFloat (u :: u2 :: U')) eqn:Ef.
      * inversion Hm; subst et. apply numv_repr_float. eapply repr_numeric; eassumption.
      * destruct (ty_mem TInt (u :: u2 :: U')) eqn:Ei.
        -- inversion Hm; subst et. apply intv_repr_int. eapply repr_intlike; [exact Hr|].
           destruct t; cbn in Htn; try discriminate; try reflexivity.
           rewrite Ef in HtU. discriminate.
        -- destruct (ty_mem TBool (u :: u2 :: U')) eqn:Eb.
           ++ inversion Hm; subst et.
              destruct t; cbn in Htn; try discriminate; try exact Hr; congruence.
           ++ destruct t; cbn in Htn; try discriminate; congruence.
Qed.

(* ---- small facts about the evaluator's combinators ---- *)
Lemma evand_boolv f vs :
  (forall x, In x vs -> forall v, f x = Ok v -> boolv v) ->
  forall last, boolv last -> forall v, evand_f f vs last = Ok v -> boolv v.
Proof.
  induction vs as [|x r IH]; intros Hall last Hl v H; cbn in H.
  - inversion H; subst; exact Hl.
  - destruct (f x) as [w|e] eqn:Ex; cbn in H; [|discriminate].
    assert (Hw : boolv w) by (eapply Hall; [left; reflexivity | exact Ex]).
    destruct (truthy w).
    + eapply IH; [intros y Hy; apply Hall; right; exact Hy | exact Hw | exact H].
    + inversion H; subst; exact Hw.
Qed.
Lemma evor_boolv f vs :
  (forall x, In x vs -> forall v, f x = Ok v -> boolv v) ->
  forall last, boolv last -> forall v, evor_f f vs last = Ok v -> boolv v.
Proof.
  induction vs as [|x r IH]; intros Hall last Hl v H; cbn in H.
  - inversion H; subst; exact Hl.
  - destruct (f x) as [w|e] eqn:Ex; cbn in H; [|discriminate].
    assert (Hw : boolv w) by (eapply Hall; [left; reflexivity | exact Ex]).
    destruct (truthy w).
    + inversion H; subst; exact Hw.
    + eapply IH; [intros y Hy; apply Hall; right; exact Hy | exact Hw | exact H].
Qed.
Lemma chain_boolv f : forall rs lv ops v, chain_f f lv ops rs = Ok v -> boolv v.
Proof.
  induction rs as [|r rs IH]; intros lv ops v H.
  - destruct ops; cbn in H; [inversion H; exact I | discriminate].
  - destruct ops as [|o ops]; cbn in H; [discriminate|].
    destruct (f r) as [rv|e]; cbn in H; [|discriminate].
    destruct (py_cmp o lv rv) as [c|e]; cbn in H; [|discriminate].
    destruct c; [eapply IH; exact H | inversion H; exact I].
Qed.
Lemma boolv_repr v : boolv v -> repr TBool v.
Proof. destruct v; cbn; intros; try contradiction; exact I. Qed.

Definition join_ifexp (bt et : ty) : ty :=
  if ty_eqb bt et then bt
  else if is_string_ty bt || is_string_ty et then TString
  else if ty_eqb bt TFloat || ty_eqb et TFloat then TFloat else TInt.

Lemma ifexp_join bt et v :
  (ty_eqb bt et || (numeric bt && numeric et)) = true ->
  repr bt v \/ repr et v -> repr (join_ifexp bt et) v.
Proof.
  unfold join_ifexp. intros Hg Hr.
  destruct (ty_eqb bt et) eqn:E.
  - apply ty_eqb_eq in E. subst et. destruct Hr; assumption.
  - cbn [orb] in Hg. apply andb_true_iff in Hg as [Hb He].
    destruct bt; cbn in Hb; try discriminate;
      destruct et; cbn in He; try discriminate; cbn in E; try discriminate; cbn;
      destruct v; cbn in Hr; tauto.
Qed.

Definition py_builtin_names : list ident := [n_int; n_float; n_bool; n_str; n_len; n_abs; n_max; n_min].
Lemma builtin_table_complete :
  forallb (fun n => match tlookup n builtin_rets with Some _ => true | None => false end) py_builtin_names = true.
Proof. vm_compute. reflexivity. Qed.

Lemma py_call_unknown f vs : tlookup f builtin_rets = None -> py_call f vs = Err OutOfModel.
Proof.
  intro Hn.
  assert (Hne : forall n, In n py_builtin_names -> text_eqb f n = false).
  { intros n Hin. destruct (text_eqb f n) eqn:E; [|reflexivity].
    apply text_eqb_eq in E. subst n.
    pose proof builtin_table_complete as Hc. rewrite forallb_forall in Hc. specialize (Hc _ Hin).
    rewrite Hn in Hc. discriminate. }
  unfold py_call.
  rewrite (Hne n_int), (Hne n_float), (Hne n_bool), (Hne n_str), (Hne n_len), (Hne n_abs), (Hne n_max), (Hne n_min);
    try reflexivity; unfold py_builtin_names; cbn; tauto.
Qed.

(* ------------------------------------------------------------------ the soundness theorem *)
Section Main.
  Variable F : ftable.
  Variable A : aliases.
  Variable C : option ictx.
  Notation inf := (infer unit (call_static F A) C).
  Notation ety' := (ety F A C).
  Notation pure' := (pure F A C).
  Notation guard' := (guard F A C).

  Definition sound_at (e : pexpr) : Prop :=
    forall G rho v t G1 st, env_sound G rho -> guard' G e = true ->
      inf tt G e = Some (t, G1, st) -> peval rho e = Ok v -> repr t v.

  Lemma thread_some args :
    forall G ts G1 st, thread inf tt G args = Some (ts, G1, st) -> forallb (pure' G) args = true ->
      Forall (fun a => exists st', inf tt G a = Some (ety' G a, G, st')) args.
  Proof.
    induction args as [|a args IH]; intros G ts G1 st Hth Hp; [constructor|].
    cbn [thread] in Hth. cbn [forallb] in Hp. apply andb_true_iff in Hp as [Hpa Hpr].
    destruct (inf tt G a) as [[[t Ga] sa]|] eqn:Ea; [|discriminate].
    assert (Ga = G) by (eapply pure_infer; eauto). subst Ga. destruct sa.
    destruct (thread inf tt G args) as [[[ts' Gr] sr]|] eqn:Er; [|discriminate].
    constructor; [|eapply IH; eauto].
    exists tt. rewrite (ety_of _ _ _ _ _ _ _ _ Ea). exact Ea.
  Qed.

  Lemma ety_bool_some G e : ety' G e = TBool -> exists G1 st, inf tt G e = Some (TBool, G1, st).
  Proof.
    unfold ety, infer_s. destruct (inf tt G e) as [[[t G1] st]|]; [|discriminate].
    intros ->. eauto.
  Qed.

  Theorem infer_sound e : sound_at e.
  Proof.
    induction e using pexpr_ind'; unfold sound_at; intros G rho v ty0 G1 st Hs Hg Hi Hev.
    - (* EInt *) cbn in Hi, Hev. inversion Hi; inversion Hev; subst; exact I.
    - (* EBool *) cbn in Hi, Hev. inversion Hi; inversion Hev; subst; exact I.
    - (* EFloat *) cbn in Hi, Hev. inversion Hi; inversion Hev; subst; exact I.
    - (* EStr *) cbn in Hi, Hev. inversion Hi; inversion Hev; subst; exact I.
    - (* EConstOther *) cbn in Hev. discriminate.
    - (* EName *)
      cbn in Hi, Hev. inversion Hi; subst.
      destruct (lookup x rho) eqn:El; [|discriminate]. inversion Hev; subst. apply Hs; exact El.
    - (* EBin *)
      pose proof (guard_pure _ _ _ _ _ Hg) as Hp.
      cbn [guard] in Hg. apply andb_true_iff in Hg as [Hg Hc]. apply andb_true_iff in Hg as [Hga Hgb].
      cbn [pure] in Hp. apply andb_true_iff in Hp as [Hp _]. apply andb_true_iff in Hp as [Hpa Hpb].
      cbn [infer] in Hi.
      destruct (inf tt G e1) as [[[lt Ga] sa]|] eqn:Ea; [|discriminate].
      assert (Ga = G) by (eapply pure_infer; eauto). subst Ga. destruct sa.
      destruct (inf tt G e2) as [[[rt Gb] sb]|] eqn:Eb; [|discriminate].
      rewrite (ety_of _ _ _ _ _ _ _ _ Ea), (ety_of _ _ _ _ _ _ _ _ Eb) in Hc.
      cbn [peval] in Hev.
      destruct (peval rho e1) as [va|] eqn:Eva; cbn [bind] in Hev; [|discriminate].
      destruct (peval rho e2) as [vb|] eqn:Evb; cbn [bind] in Hev; [|discriminate].
      pose proof (IHe1 _ _ _ _ _ _ Hs Hga Ea Eva) as Hra.
      pose proof (IHe2 _ _ _ _ _ _ Hs Hgb Eb Evb) as Hrb.
      destruct (is_string_ty lt || is_string_ty rt) eqn:Es.
      + inversion Hi; subst ty0.
        assert (Hsv : strv va \/ strv vb).
        { apply orb_true_iff in Es as [E|E]; [left|right].
          - destruct lt; try discriminate. apply repr_string; exact Hra.
          - destruct rt; try discriminate. apply repr_string; exact Hrb. }
        pose proof (py_bin_strv _ _ _ _ Hsv Hev) as Hv. destruct v; cbn in Hv; try contradiction; exact I.
      + apply andb_true_iff in Hc as [Hc Hop]. apply andb_true_iff in Hc as [Hnl Hnr].
        pose proof (repr_numeric _ _ Hra Hnl) as Hna. pose proof (repr_numeric _ _ Hrb Hnr) as Hnb.
        destruct (ty_eqb lt TFloat || ty_eqb rt TFloat) eqn:Ef.
        * inversion Hi; subst ty0. apply numv_repr_float. eapply py_bin_numv; [exact Hna | exact Hnb | exact Hev].
        * inversion Hi; subst ty0. cbn [orb] in Hop. apply negb_true_iff in Hop.
          apply orb_false_iff in Ef as [Efl Efr].
          assert (Hil : intlike lt = true) by (destruct lt; cbn in *; try discriminate; reflexivity).
          assert (Hir : intlike rt = true) by (destruct rt; cbn in *; try discriminate; reflexivity).
          apply intv_repr_int.
          eapply (py_bin_intv op va vb); [eapply repr_intlike; eassumption | eapply repr_intlike; eassumption | exact Hop | exact Hev].
    - (* EUn *)
      cbn [peval] in Hev.
      destruct (peval rho e) as [va|] eqn:Eva; cbn [bind] in Hev; [|discriminate].
      destruct op.
      + cbn [guard] in Hg. apply andb_true_iff in Hg as [Hga Hnb]. cbn [infer] in Hi.
        apply negb_true_iff in Hnb. rewrite (ety_of _ _ _ _ _ _ _ _ Hi) in Hnb. apply ty_eqb_neq in Hnb.
        apply (py_un_keeps UAdd ty0 va v); [discriminate | eapply IHe; eassumption | exact Hnb | exact Hev].
      + cbn [guard] in Hg. apply andb_true_iff in Hg as [Hga Hnb]. cbn [infer] in Hi.
        apply negb_true_iff in Hnb. rewrite (ety_of _ _ _ _ _ _ _ _ Hi) in Hnb. apply ty_eqb_neq in Hnb.
        apply (py_un_keeps USub ty0 va v); [discriminate | eapply IHe; eassumption | exact Hnb | exact Hev].
      + cbn in Hi, Hev. inversion Hi; inversion Hev; subst; exact I.
      + cbn [guard] in Hg. apply andb_true_iff in Hg as [Hga Hnb]. cbn [infer] in Hi.
        apply negb_true_iff in Hnb. rewrite (ety_of _ _ _ _ _ _ _ _ Hi) in Hnb. apply ty_eqb_neq in Hnb.
        apply (py_un_keeps Invert ty0 va v); [discriminate | eapply IHe; eassumption | exact Hnb | exact Hev].
    - (* EBoolOp *)
      cbn [infer] in Hi. inversion Hi; subst ty0. cbn [guard] in Hg.
      assert (Hops : forall x, In x vs -> forall w, peval rho x = Ok w -> boolv w).
      { intros x Hx w Hw. rewrite forallb_forall in Hg. specialize (Hg _ Hx).
        apply andb_true_iff in Hg as [Hgx Htx]. apply ty_eqb_eq in Htx.
        destruct (ety_bool_some _ _ Htx) as (G2 & st2 & Hix).
        rewrite Forall_forall in H. apply repr_bool. eapply (H _ Hx); eassumption. }
      apply boolv_repr. destruct op.
      + rewrite peval_and in Hev. eapply (evand_boolv _ _ Hops (VBool true) I); exact Hev.
      + rewrite peval_or in Hev. eapply (evor_boolv _ _ Hops (VBool false) I); exact Hev.
    - (* ECompare *)
      cbn [infer] in Hi. inversion Hi; subst ty0. rewrite peval_compare in Hev.
      destruct ops; [discriminate|].
      destruct (peval rho e) as [lv|]; cbn [bind] in Hev; [|discriminate].
      apply boolv_repr. eapply chain_boolv; exact Hev.
    - (* EIfExp *)
      pose proof (guard_pure _ _ _ _ _ Hg) as Hp.
      cbn [guard] in Hg. apply andb_true_iff in Hg as [Hg Hc]. apply andb_true_iff in Hg as [Hga Hgb].
      cbn [pure] in Hp. apply andb_true_iff in Hp as [Hpa Hpb].
      cbn [infer] in Hi.
      destruct (inf tt G e2) as [[[bt Ga] sa]|] eqn:Ea; [|discriminate].
      assert (Ga = G) by (eapply pure_infer; eauto). subst Ga. destruct sa.
      destruct (inf tt G e3) as [[[et Gb] sb]|] eqn:Eb; [|discriminate].
      rewrite (ety_of _ _ _ _ _ _ _ _ Ea), (ety_of _ _ _ _ _ _ _ _ Eb) in Hc.
      inversion Hi; subst ty0. fold (join_ifexp bt et). apply ifexp_join; [exact Hc|].
      cbn [peval] in Hev.
      destruct (peval rho e1) as [cv|]; cbn [bind] in Hev; [|discriminate].
      destruct (truthy cv); [left; eapply IHe2 | right; eapply IHe3]; eassumption.
    - (* EJoined *)
      cbn [infer] in Hi. inversion Hi; subst ty0. cbn [peval] in Hev.
      match type of Hev with bind ?X _ = _ => destruct X; cbn [bind] in Hev end; [|discriminate].
      inversion Hev; exact I.
    - (* EFmt *) cbn in Hev. discriminate.
    - (* ECall *)
      destruct kws as [|kw kws]; [|cbn in Hev; discriminate].
      rewrite peval_call in Hev. destruct (lookup f rho); [discriminate|].
      destruct (evals_f (peval rho) args) as [vs|] eqn:Eev; cbn [bind] in Hev; [|discriminate].
      cbn [guard] in Hg. apply andb_true_iff in Hg as [Hp Habs].
      cbn [infer] in Hi.
      destruct (thread inf tt G args) as [[[ats Gr] sr]|] eqn:Er; [|discriminate].
      destruct (tlookup f builtin_rets) as [t0|] eqn:Eb.
      + inversion Hi; subst ty0. eapply py_call_sound; [apply builtin_class; exact Eb | | exact Hev].
        intro Ham. rewrite Ham in Habs.
        pose proof (thread_some _ _ _ _ _ Er Hp) as Hsome.
        apply evals_f_forall2 in Eev.
        clear Er Hev Hp. revert Hsome Habs H. induction Eev as [|a w args vs Haw Hrest IH]; intros Hsome Habs Hall.
        * constructor.
        * inversion Hsome as [|? ? [st' Ha] Hsome']; subst. inversion Hall as [|? ? Hsa Hall']; subst.
          cbn [forallb] in Habs. apply andb_true_iff in Habs as [Hga Habs']. apply andb_true_iff in Hga as [Hga Hia].
          constructor; [|apply IH; assumption].
          eapply repr_intlike; [eapply Hsa; eassumption | exact Hia].
      + rewrite (py_call_unknown _ _ Eb) in Hev. discriminate.
    - (* EMethod *) cbn in Hev. discriminate.
    - (* EList *)
      rewrite peval_list in Hev.
      destruct (evals_f (peval rho) es) as [vs|] eqn:Eev; cbn [bind] in Hev; [|discriminate].
      inversion Hev; subst v.
      pose proof (guard_pure _ _ _ _ _ Hg) as Hp. cbn [pure] in Hp.
      cbn [guard] in Hg. apply andb_true_iff in Hg as [Hge Hm].
      cbn [infer] in Hi.
      destruct (thread inf tt G es) as [[[ts Gr] sr]|] eqn:Er; [|discriminate].
      destruct (merge_element_types ts) as [et|] eqn:Em; [|discriminate].
      inversion Hi; subst ty0. cbn [repr].
      pose proof (thread_some _ _ _ _ _ Er Hp) as Hsome.
      assert (Hts : ts = map (ety' G) es).
      { eapply thread_pure; [|exact Er|exact Hp]. apply Forall_forall. intros x _. apply pure_infer. }
      subst ts.
      apply evals_f_forall2 in Eev.
      assert (Hel : forall a w, In a es -> peval rho a = Ok w -> repr et w).
      { intros a w Ha Hw.
        rewrite Forall_forall in Hsome. destruct (Hsome _ Ha) as [st' Hia].
        rewrite forallb_forall in Hge. rewrite Forall_forall in H.
        eapply merge_elem_sound; [exact Em | exact Hm | apply in_map; exact Ha |].
        eapply (H _ Ha); [exact Hs | apply Hge; exact Ha | exact Hia | exact Hw]. }
      clear - Eev Hel. induction Eev as [|a w es vs Haw Hrest IH]; [constructor|].
      constructor.
      + eapply Hel; [left; reflexivity | exact Haw].
      + apply IH. intros b u Hb Hu. eapply Hel; [right; exact Hb | exact Hu].
    - (* ETuple *) cbn in Hg. discriminate.
    - (* ESubscript *)
      cbn [guard] in Hg. apply andb_true_iff in Hg as [Hga Hl]. cbn [infer] in Hi.
      destruct (inf tt G e1) as [[[bt Ga] sa]|] eqn:Ea; [|discriminate].
      rewrite (ety_of _ _ _ _ _ _ _ _ Ea) in Hl. destruct bt; try discriminate.
      cbn in Hi. inversion Hi; subst ty0.
      cbn [peval] in Hev.
      destruct (peval rho e1) as [x|] eqn:Ex; cbn [bind] in Hev; [|discriminate].
      destruct (peval rho e2) as [k|]; cbn [bind] in Hev; [|discriminate].
      eapply py_index_list; [eapply IHe1; eassumption | exact Hev].
    - (* EOther *) cbn in Hev. discriminate.
  Qed.
End Main.
