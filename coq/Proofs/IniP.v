(* Proofs about Tool/Ini.v: strip/split lemmas, per-line classification lemmas of the
   configparser model, the round trip, de-duplication, env-name safety. *)
From Coq Require Import ZArith List Bool Lia.
From RV Require Import Base.Wire Base.Text Gen.Registry Tool.Registry Tool.Ini Proofs.RegistryP.
Import ListNotations.
Open Scope Z_scope.

#[local] Arguments is_space : simpl never.
#[local] Arguments is_comment_prefix : simpl never.
#[local] Arguments is_delim : simpl never.
#[local] Arguments is_word : simpl never.

(* ------------------------------------------------------------ blanks and strip *)
Lemma rstrip_nil_iff t : rstrip t = [] <-> forallb is_space t = true.
Proof.
  induction t as [|c r IH]; cbn; [tauto|].
  destruct (rstrip r) as [|x r'] eqn:E.
  - destruct (is_space c); cbn; split; intro H; try discriminate; try reflexivity.
    apply IH. reflexivity.
  - split; [discriminate|]. intro H. apply andb_true_iff in H as [_ H].
    apply IH in H. discriminate.
Qed.

Lemma rstrip_spaces t s : forallb is_space s = true -> rstrip (t ++ s) = rstrip t.
Proof.
  intro H. induction t as [|c r IH]; cbn.
  - apply rstrip_nil_iff. exact H.
  - rewrite IH. reflexivity.
Qed.

Lemma last_nonspace_rstrip t : last_nonspace t = true -> rstrip t = t.
Proof.
  induction t as [|c r IH]; [discriminate|].
  destruct r as [|d r'].
  - cbn. intro H. apply negb_true_iff in H. rewrite H. reflexivity.
  - intro H. change (last_nonspace (d :: r') = true) in H. specialize (IH H).
    change (rstrip (c :: d :: r')) with
      (match rstrip (d :: r') with [] => if is_space c then [] else [c] | r0 => c :: r0 end).
    rewrite IH. reflexivity.
Qed.

Lemma last_nonspace_app a b : last_nonspace b = true -> last_nonspace (a ++ b) = true.
Proof.
  intro H. induction a as [|c r IH]; [exact H|].
  cbn [app]. destruct (r ++ b) as [|d q] eqn:E.
  - destruct r; destruct b; cbn in E; discriminate.
  - exact IH.
Qed.

Lemma rstrip_keep a s : last_nonspace a = true -> forallb is_space s = true -> rstrip (a ++ s) = a.
Proof. intros Ha Hs. rewrite rstrip_spaces by exact Hs. apply last_nonspace_rstrip. exact Ha. Qed.

Lemma rstrip_app_keep a b : last_nonspace b = true -> rstrip (a ++ b) = a ++ b.
Proof. intro H. apply last_nonspace_rstrip. apply last_nonspace_app. exact H. Qed.

Lemma lstrip_spaces s t : forallb is_space s = true -> lstrip (s ++ t) = lstrip t.
Proof.
  induction s as [|c r IH]; cbn; [reflexivity|].
  intro H. apply andb_true_iff in H as [H1 H2]. rewrite H1. auto.
Qed.

Lemma no_padding_strip t : no_padding t = true -> strip t = t.
Proof.
  destruct t as [|c r]; [reflexivity|].
  unfold no_padding. intro H. apply andb_true_iff in H as [H1 H2].
  apply negb_true_iff in H1. unfold strip. cbn [lstrip]. rewrite H1.
  apply last_nonspace_rstrip. exact H2.
Qed.

Lemma no_padding_rstrip t : no_padding t = true -> rstrip t = t.
Proof.
  destruct t as [|c r]; [reflexivity|].
  unfold no_padding. intro H. apply andb_true_iff in H as [_ H2].
  apply last_nonspace_rstrip. exact H2.
Qed.

(* the converse: the boolean guard is exactly "t == t.strip()" *)
Lemma lstrip_length t : (length (lstrip t) <= length t)%nat.
Proof. induction t as [|c r IH]; cbn; [lia|]. destruct (is_space c); cbn; lia. Qed.

Lemma rstrip_length t : (length (rstrip t) <= length t)%nat.
Proof.
  induction t as [|c r IH]; cbn; [lia|].
  destruct (rstrip r); [destruct (is_space c)|]; cbn in *; lia.
Qed.

Lemma rstrip_fix_last t : t <> [] -> rstrip t = t -> last_nonspace t = true.
Proof.
  induction t as [|c r IH]; [congruence|]. intros _.
  destruct r as [|d r'].
  - cbn. destruct (is_space c); [discriminate|reflexivity].
  - change (rstrip (c :: d :: r')) with
      (match rstrip (d :: r') with [] => if is_space c then [] else [c] | r0 => c :: r0 end).
    intro H. change (last_nonspace (c :: d :: r')) with (last_nonspace (d :: r')).
    apply IH; [discriminate|].
    destruct (rstrip (d :: r')) as [|x q] eqn:E.
    + destruct (is_space c); discriminate.
    + inversion H. reflexivity.
Qed.

Lemma strip_fix_no_padding t : strip t = t -> no_padding t = true.
Proof.
  destruct t as [|c r]; [reflexivity|]. unfold strip. cbn [lstrip].
  destruct (is_space c) eqn:Ec.
  - intro H. exfalso.
    pose proof (rstrip_length (lstrip r)) as L1. pose proof (lstrip_length r) as L2.
    rewrite H in L1. cbn in L1. lia.
  - intro H. unfold no_padding. rewrite Ec. cbn [negb andb].
    apply (rstrip_fix_last (c :: r)); [discriminate|exact H].
Qed.

(* ------------------------------------------------------------ lines *)
Lemma split_lines_line l rest :
  no_break l = true -> split_lines (l ++ c_nl :: rest) = l :: split_lines rest.
Proof.
  induction l as [|c r IH]; intro H.
  - reflexivity.
  - cbn in H. apply andb_true_iff in H as [Hc Hr]. apply andb_true_iff in Hc as [H1 H2].
    apply negb_true_iff in H1. apply negb_true_iff in H2.
    cbn [app split_lines]. rewrite H1, H2. rewrite (IH Hr). reflexivity.
Qed.

Definition read_from (st : pstate) (t : text) : option pstate := parse_lines st (split_lines t).

Lemma read_line st l rest :
  no_break l = true ->
  read_from st (l ++ c_nl :: rest) =
  match step st l with Some st' => read_from st' rest | None => None end.
Proof. intro H. unfold read_from. rewrite split_lines_line by exact H. reflexivity. Qed.

Lemma no_break_app a b : no_break (a ++ b) = no_break a && no_break b.
Proof. unfold no_break. apply forallb_app. Qed.

(* ------------------------------------------------------------ small computed facts *)
Lemma is_space_sp : is_space c_sp = true.  Proof. reflexivity. Qed.
Lemma is_space_nl : is_space c_nl = true.  Proof. reflexivity. Qed.
Lemma is_space_eq : is_space c_eq = false. Proof. reflexivity. Qed.

Lemma strip_nonspace_head c r : is_space c = false -> strip (c :: r) = rstrip (c :: r).
Proof. intro H. unfold strip. cbn [lstrip]. rewrite H. reflexivity. Qed.

Lemma indent_nonspace_head c r : is_space c = false -> indent_of (c :: r) = O.
Proof. intro H. cbn [indent_of]. rewrite H. reflexivity. Qed.

Lemma split_delim_at a d x :
  forallb (fun c => negb (is_delim c)) a = true -> is_delim d = true ->
  split_delim (a ++ d :: x) = Some (a, x).
Proof.
  intros Ha Hd. induction a as [|c r IH]; cbn [app split_delim].
  - rewrite Hd. reflexivity.
  - cbn [forallb] in Ha. apply andb_true_iff in Ha as [H1 H2]. apply negb_true_iff in H1.
    rewrite H1, (IH H2). reflexivity.
Qed.

Lemma upto_last_end d h : forallb (fun c => negb (c =? d)) h = true -> upto_last d (h ++ [d]) = Some h.
Proof.
  induction h as [|c r IH]; cbn [app upto_last forallb]; intro H.
  - rewrite Z.eqb_refl. reflexivity.
  - apply andb_true_iff in H as [_ H2]. rewrite (IH H2). reflexivity.
Qed.

Lemma upd_head {A} k (f : A -> A) v r : upd k f ((k, v) :: r) = (k, f v) :: r.
Proof. cbn [upd]. rewrite text_eqb_refl. reflexivity. Qed.

Lemma upd_last {A} k (f : A -> A) pre v :
  has_key k pre = false -> upd k f (pre ++ [(k, v)]) = pre ++ [(k, f v)].
Proof.
  induction pre as [|[k' w] r IH]; cbn [app upd has_key]; intro H.
  - rewrite text_eqb_refl. reflexivity.
  - apply orb_false_iff in H as [H1 H2]. rewrite H1, (IH H2). reflexivity.
Qed.

(* ------------------------------------------------------------ per-line classification *)
(* an option key as the template writes them: starts with neither blank, comment prefix nor "[",
   contains no delimiter, ends in a non-blank, and is already lower case *)
Definition key_ok (key : text) : bool :=
  match key with
  | [] => false
  | c :: _ => negb (is_space c) && negb (is_comment_prefix c) && negb (c =? c_lbr)
  end && forallb (fun c => negb (is_delim c)) key && last_nonspace key && text_eqb (lower key) key.

(* "[name]" on a fresh parser opens the section *)
Lemma step_section name :
  nonempty name = true -> forallb (fun c => negb (c =? c_rbr)) name = true ->
  text_eqb name default_name = false ->
  step init_state (c_lbr :: name ++ [c_rbr]) = Some (mk_pstate [(name, [])] (Some name) None O).
Proof.
  intros Hne Hn Hd. unfold step.
  assert (strip (c_lbr :: name ++ [c_rbr]) = c_lbr :: name ++ [c_rbr]) as ->.
  { rewrite strip_nonspace_head by reflexivity. apply last_nonspace_rstrip.
    apply (last_nonspace_app (c_lbr :: name) [c_rbr]). reflexivity. }
  cbv zeta. change (is_comment_prefix c_lbr) with false. cbv iota.
  cbn [init_state p_cursec p_opt].
  rewrite indent_nonspace_head by reflexivity.
  unfold step_header, section_header. rewrite Z.eqb_refl.
  rewrite (upto_last_end _ _ Hn). destruct name as [|x h]; [discriminate|].
  rewrite Hd. reflexivity.
Qed.

(* a line whose first character is neither blank nor a comment prefix is never a continuation *)
Lemma step_unindented st line c r :
  strip line = c :: r -> is_comment_prefix c = false -> indent_of line = O ->
  step st line = step_header st O (c :: r).
Proof.
  intros Hs Hc Hi. unfold step. rewrite Hs. cbv zeta. rewrite Hc, Hi.
  destruct (p_cursec st); [|reflexivity]. destruct (p_opt st); [|reflexivity].
  destruct (p_indent st <? 0)%nat eqn:X; [apply Nat.ltb_lt in X; lia|reflexivity].
Qed.

(* "key =<blanks>value" in an open section adds the option, whatever option was open before *)
Lemma step_option_aux E o key c k' sp val kopt ind :
  key = c :: k' -> is_space c = false -> is_comment_prefix c = false -> (c =? c_lbr) = false ->
  forallb (fun c => negb (is_delim c)) key = true -> last_nonspace key = true -> lower key = key ->
  has_key key o = false -> forallb is_space sp = true -> no_padding val = true ->
  step (mk_pstate [(E, o)] (Some E) kopt ind) (key ++ c_sp :: c_eq :: sp ++ val) =
  Some (mk_pstate [(E, o ++ [(key, [val])])] (Some E) (Some key) O).
Proof.
  intros Hkey Hcs Hcc Hlbr Hnd Hlast Hlow Hk Hsp Hval.
  assert (forall x, strip (key ++ x) = rstrip (key ++ x)) as F1.
  { intro x. rewrite Hkey. apply (strip_nonspace_head c (k' ++ x) Hcs). }
  assert (forall x, indent_of (key ++ x) = O) as F2.
  { intro x. rewrite Hkey. apply (indent_nonspace_head c (k' ++ x) Hcs). }
  (* the stripped line and the text after the delimiter *)
  assert (exists x, strip (key ++ c_sp :: c_eq :: sp ++ val) = key ++ c_sp :: c_eq :: x /\ strip x = val)
    as (x & Hstrip & Hx).
  { destruct val as [|v vr].
    - exists []. split; [|reflexivity].
      rewrite F1, app_nil_r.
      change (key ++ c_sp :: c_eq :: sp) with (key ++ [c_sp; c_eq] ++ sp).
      rewrite app_assoc. apply rstrip_keep; [|exact Hsp].
      apply last_nonspace_app. reflexivity.
    - exists (sp ++ v :: vr). split.
      + rewrite F1.
        change (key ++ c_sp :: c_eq :: sp ++ v :: vr) with (key ++ (c_sp :: c_eq :: sp) ++ v :: vr).
        rewrite app_assoc. apply rstrip_app_keep.
        unfold no_padding in Hval. apply andb_true_iff in Hval as [_ Hval]. exact Hval.
      + unfold strip. rewrite lstrip_spaces by exact Hsp. apply no_padding_strip. exact Hval. }
  rewrite (step_unindented _ _ c (k' ++ c_sp :: c_eq :: x)); [| | exact Hcc | apply F2].
  2:{ rewrite Hstrip, Hkey. reflexivity. }
  change (c :: k' ++ c_sp :: c_eq :: x) with ((c :: k') ++ c_sp :: c_eq :: x). rewrite <- Hkey.
  unfold step_header.
  assert (section_header (key ++ c_sp :: c_eq :: x) = None) as ->.
  { rewrite Hkey. cbn [app section_header]. rewrite Hlbr. reflexivity. }
  cbn [p_cursec p_secs].
  assert (key ++ c_sp :: c_eq :: x = (key ++ [c_sp]) ++ c_eq :: x) as ->.
  { rewrite <- app_assoc. reflexivity. }
  rewrite split_delim_at; [| rewrite forallb_app, Hnd; reflexivity | reflexivity].
  rewrite rstrip_keep by (exact Hlast || reflexivity).
  rewrite Hlow. rewrite Hkey at 1.
  cbn [tlookup]. rewrite text_eqb_refl.
  rewrite <- Hkey, Hk, Hx, upd_head. reflexivity.
Qed.

Lemma step_option E o key sp val kopt ind :
  has_key key o = false -> key_ok key = true ->
  forallb is_space sp = true -> no_padding val = true ->
  step (mk_pstate [(E, o)] (Some E) kopt ind) (key ++ c_sp :: c_eq :: sp ++ val) =
  Some (mk_pstate [(E, o ++ [(key, [val])])] (Some E) (Some key) O).
Proof.
  intros Hk Hok Hsp Hval. unfold key_ok in Hok.
  destruct key as [|c k'] eqn:Hkey; [discriminate|]. rewrite <- Hkey in Hok |- *.
  apply andb_true_iff in Hok as [Hok Hlow]. apply andb_true_iff in Hok as [Hok Hlast].
  apply andb_true_iff in Hok as [Hhead Hnd]. apply andb_true_iff in Hhead as [Hhead Hlbr].
  apply andb_true_iff in Hhead as [Hcs Hcc].
  apply negb_true_iff in Hcs. apply negb_true_iff in Hcc. apply negb_true_iff in Hlbr.
  apply text_eqb_eq in Hlow.
  rewrite <- Hkey in Hk.
  apply (step_option_aux E o key c k' sp val kopt ind); assumption.
Qed.

(* a blank line inside an open value is kept (empty_lines_in_values) *)
Lemma step_blank E pre k vs ind :
  has_key k pre = false ->
  step (mk_pstate [(E, pre ++ [(k, vs)])] (Some E) (Some k) ind) [] =
  Some (mk_pstate [(E, pre ++ [(k, vs ++ [[]])])] (Some E) (Some k) ind).
Proof.
  intro H. unfold step. cbn [strip lstrip rstrip p_cursec p_opt]. cbv zeta iota.
  unfold append_value. cbn [p_secs p_cursec p_opt p_indent].
  rewrite upd_head, upd_last by exact H. reflexivity.
Qed.

(* an indented line under an option opened at indentation 0 continues its value *)
Lemma step_cont E pre k vs n :
  has_key k pre = false -> nonempty n = true -> lib_ok n = true ->
  step (mk_pstate [(E, pre ++ [(k, vs)])] (Some E) (Some k) O) (c_sp :: c_sp :: n) =
  Some (mk_pstate [(E, pre ++ [(k, vs ++ [n])])] (Some E) (Some k) O).
Proof.
  intros H Hne Hn. destruct n as [|c r]; [discriminate|].
  unfold lib_ok, value_ok in Hn. apply andb_true_iff in Hn as [Hn Hc].
  apply andb_true_iff in Hn as [_ Hpad]. apply negb_true_iff in Hc.
  pose proof Hpad as Hpad'. unfold no_padding in Hpad'. apply andb_true_iff in Hpad' as [Hcs _].
  apply negb_true_iff in Hcs.
  unfold step.
  assert (strip (c_sp :: c_sp :: c :: r) = c :: r) as ->.
  { unfold strip. cbn [lstrip]. rewrite is_space_sp, Hcs.
    apply no_padding_rstrip. exact Hpad. }
  cbv zeta. rewrite Hc. cbv iota. cbn [p_cursec p_opt p_indent].
  cbn [indent_of]. rewrite is_space_sp, Hcs.
  change ((0 <? 2)%nat) with true. cbv iota.
  unfold append_value. cbn [p_secs p_cursec p_opt p_indent].
  rewrite upd_head, upd_last by exact H. reflexivity.
Qed.
