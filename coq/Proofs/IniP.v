(* Proofs about Tool/Ini.v: strip/split lemmas, per-line classification lemmas of the
   configparser model, the round trip, de-duplication, env-name safety. *)
From Coq Require Import String ZArith List Bool Lia.
From RV Require Import Base.Wire Base.Text Gen.Registry Tool.Registry Tool.Ini Proofs.RegistryP.
Import ListNotations.
Open Scope Z_scope.

#[local] Arguments is_space : simpl never.
#[local] Arguments is_comment_prefix : simpl never.
#[local] Arguments is_delim : simpl never.
#[local] Arguments is_word : simpl never.

(* ------------------------------------------------------------ blanks and strip *)
Lemma rstrip_nil_iff t : rstrip t = [] <-> forallb is_space t = true.
Proof.
  induction t as [|c r IH]; cbn; [tauto|].
  destruct (rstrip r) as [|x r'] eqn:E.
  - destruct (is_space c); cbn; split; intro H; try discriminate; try reflexivity.
    apply IH. reflexivity.
  - split; [discriminate|]. intro H. apply andb_true_iff in H as [_ H].
    apply IH in H. discriminate.
Qed.

Lemma rstrip_spaces t s : forallb is_space s = true -> rstrip (t ++ s) = rstrip t.
Proof.
  intro H. induction t as [|c r IH]; cbn.
  - apply rstrip_nil_iff. exact H.
  - rewrite IH. reflexivity.
Qed.

Lemma last_nonspace_rstrip t : last_nonspace t = true -> rstrip t = t.
Proof.
  induction t as [|c r IH]; [discriminate|].
  destruct r as [|d r'].
  - cbn. intro H. apply negb_true_iff in H. rewrite H. reflexivity.
  - intro H. change (last_nonspace (d :: r') = true) in H. specialize (IH H).
    change (rstrip (c :: d :: r')) with
      (match rstrip (d :: r') with [] => if is_space c then [] else [c] | r0 => c :: r0 end).
    rewrite IH. reflexivity.
Qed.

Lemma last_nonspace_app a b : last_nonspace b = true -> last_nonspace (a ++ b) = true.
Proof.
  intro H. induction a as [|c r IH]; [exact H|].
  cbn [app]. destruct (r ++ b) as [|d q] eqn:E.
  - destruct r; destruct b; cbn in E; discriminate.
  - exact IH.
Qed.

Lemma rstrip_keep a s : last_nonspace a = true -> forallb is_space s = true -> rstrip (a ++ s) = a.
Proof. intros Ha Hs. rewrite rstrip_spaces by exact Hs. apply last_nonspace_rstrip. exact Ha. Qed.

Lemma rstrip_app_keep a b : last_nonspace b = true -> rstrip (a ++ b) = a ++ b.
Proof. intro H. apply last_nonspace_rstrip. apply last_nonspace_app. exact H. Qed.

Lemma lstrip_spaces s t : forallb is_space s = true -> lstrip (s ++ t) = lstrip t.
Proof.
  induction s as [|c r IH]; cbn; [reflexivity|].
  intro H. apply andb_true_iff in H as [H1 H2]. rewrite H1. auto.
Qed.

Lemma no_padding_strip t : no_padding t = true -> strip t = t.
Proof.
  destruct t as [|c r]; [reflexivity|].
  unfold no_padding. intro H. apply andb_true_iff in H as [H1 H2].
  apply negb_true_iff in H1. unfold strip. cbn [lstrip]. rewrite H1.
  apply last_nonspace_rstrip. exact H2.
Qed.

Lemma no_padding_rstrip t : no_padding t = true -> rstrip t = t.
Proof.
  destruct t as [|c r]; [reflexivity|].
  unfold no_padding. intro H. apply andb_true_iff in H as [_ H2].
  apply last_nonspace_rstrip. exact H2.
Qed.

(* the converse: the boolean guard is exactly "t == t.strip()" *)
Lemma lstrip_length t : (length (lstrip t) <= length t)%nat.
Proof. induction t as [|c r IH]; cbn; [lia|]. destruct (is_space c); cbn; lia. Qed.

Lemma rstrip_length t : (length (rstrip t) <= length t)%nat.
Proof.
  induction t as [|c r IH]; cbn; [lia|].
  destruct (rstrip r); [destruct (is_space c)|]; cbn in *; lia.
Qed.

Lemma rstrip_fix_last t : t <> [] -> rstrip t = t -> last_nonspace t = true.
Proof.
  induction t as [|c r IH]; [congruence|]. intros _.
  destruct r as [|d r'].
  - cbn. destruct (is_space c); [discriminate|reflexivity].
  - change (rstrip (c :: d :: r')) with
      (match rstrip (d :: r') with [] => if is_space c then [] else [c] | r0 => c :: r0 end).
    intro H. change (last_nonspace (c :: d :: r')) with (last_nonspace (d :: r')).
    apply IH; [discriminate|].
    destruct (rstrip (d :: r')) as [|x q] eqn:E.
    + destruct (is_space c); discriminate.
    + inversion H. reflexivity.
Qed.

Lemma strip_fix_no_padding t : strip t = t -> no_padding t = true.
Proof.
  destruct t as [|c r]; [reflexivity|]. unfold strip. cbn [lstrip].
  destruct (is_space c) eqn:Ec.
  - intro H. exfalso.
    pose proof (rstrip_length (lstrip r)) as L1. pose proof (lstrip_length r) as L2.
    rewrite H in L1. cbn in L1. lia.
  - intro H. unfold no_padding. rewrite Ec. cbn [negb andb].
    apply (rstrip_fix_last (c :: r)); [discriminate|exact H].
Qed.

(* ------------------------------------------------------------ lines *)
Lemma split_lines_line l rest :
  no_break l = true -> split_lines (l ++ c_nl :: rest) = l :: split_lines rest.
Proof.
  induction l as [|c r IH]; intro H.
  - reflexivity.
  - cbn in H. apply andb_true_iff in H as [Hc Hr]. apply andb_true_iff in Hc as [H1 H2].
    apply negb_true_iff in H1. apply negb_true_iff in H2.
    cbn [app split_lines]. rewrite H1, H2. rewrite (IH Hr). reflexivity.
Qed.

Definition read_from (st : pstate) (t : text) : option pstate := parse_lines st (split_lines t).

Lemma read_line st l rest :
  no_break l = true ->
  read_from st (l ++ c_nl :: rest) =
  match step st l with Some st' => read_from st' rest | None => None end.
Proof. intro H. unfold read_from. rewrite split_lines_line by exact H. reflexivity. Qed.

Lemma no_break_app a b : no_break (a ++ b) = no_break a && no_break b.
Proof. unfold no_break. apply forallb_app. Qed.

(* ------------------------------------------------------------ small computed facts *)
Lemma is_space_sp : is_space c_sp = true.  Proof. reflexivity. Qed.
Lemma is_space_nl : is_space c_nl = true.  Proof. reflexivity. Qed.
Lemma is_space_eq : is_space c_eq = false. Proof. reflexivity. Qed.

Lemma strip_nonspace_head c r : is_space c = false -> strip (c :: r) = rstrip (c :: r).
Proof. intro H. unfold strip. cbn [lstrip]. rewrite H. reflexivity. Qed.

Lemma indent_nonspace_head c r : is_space c = false -> indent_of (c :: r) = O.
Proof. intro H. cbn [indent_of]. rewrite H. reflexivity. Qed.

Lemma split_delim_at a d x :
  forallb (fun c => negb (is_delim c)) a = true -> is_delim d = true ->
  split_delim (a ++ d :: x) = Some (a, x).
Proof.
  intros Ha Hd. induction a as [|c r IH]; cbn [app split_delim].
  - rewrite Hd. reflexivity.
  - cbn [forallb] in Ha. apply andb_true_iff in Ha as [H1 H2]. apply negb_true_iff in H1.
    rewrite H1, (IH H2). reflexivity.
Qed.

Lemma upto_last_end d h : forallb (fun c => negb (c =? d)) h = true -> upto_last d (h ++ [d]) = Some h.
Proof.
  induction h as [|c r IH]; cbn [app upto_last forallb]; intro H.
  - rewrite Z.eqb_refl. reflexivity.
  - apply andb_true_iff in H as [_ H2]. rewrite (IH H2). reflexivity.
Qed.

Lemma upd_head {A} k (f : A -> A) v r : upd k f ((k, v) :: r) = (k, f v) :: r.
Proof. cbn [upd]. rewrite text_eqb_refl. reflexivity. Qed.

Lemma upd_last {A} k (f : A -> A) pre v :
  has_key k pre = false -> upd k f (pre ++ [(k, v)]) = pre ++ [(k, f v)].
Proof.
  induction pre as [|[k' w] r IH]; cbn [app upd has_key]; intro H.
  - rewrite text_eqb_refl. reflexivity.
  - apply orb_false_iff in H as [H1 H2]. rewrite H1, (IH H2). reflexivity.
Qed.

(* ------------------------------------------------------------ per-line classification *)
(* an option key as the template writes them: starts with neither blank, comment prefix nor "[",
   contains no delimiter, ends in a non-blank, and is already lower case *)
Definition key_ok (key : text) : bool :=
  match key with
  | [] => false
  | c :: _ => negb (is_space c) && negb (is_comment_prefix c) && negb (c =? c_lbr)
  end && forallb (fun c => negb (is_delim c)) key && last_nonspace key && text_eqb (lower key) key.

(* "[name]" on a fresh parser opens the section *)
Lemma step_section name :
  nonempty name = true -> forallb (fun c => negb (c =? c_rbr)) name = true ->
  text_eqb name default_name = false ->
  step init_state (c_lbr :: name ++ [c_rbr]) = Some (mk_pstate [(name, [])] (Some name) None O).
Proof.
  intros Hne Hn Hd. unfold step.
  assert (strip (c_lbr :: name ++ [c_rbr]) = c_lbr :: name ++ [c_rbr]) as ->.
  { rewrite strip_nonspace_head by reflexivity. apply last_nonspace_rstrip.
    apply (last_nonspace_app (c_lbr :: name) [c_rbr]). reflexivity. }
  cbv zeta. change (is_comment_prefix c_lbr) with false. cbv iota.
  cbn [init_state p_cursec p_opt].
  rewrite indent_nonspace_head by reflexivity.
  unfold step_header, section_header. rewrite Z.eqb_refl.
  rewrite (upto_last_end _ _ Hn). destruct name as [|x h]; [discriminate|].
  rewrite Hd. reflexivity.
Qed.

(* a line whose first character is neither blank nor a comment prefix is never a continuation *)
Lemma step_unindented st line c r :
  strip line = c :: r -> is_comment_prefix c = false -> indent_of line = O ->
  step st line = step_header st O (c :: r).
Proof.
  intros Hs Hc Hi. unfold step. rewrite Hs. cbv zeta. rewrite Hc, Hi.
  destruct (p_cursec st); [|reflexivity]. destruct (p_opt st); [|reflexivity].
  destruct (p_indent st <? 0)%nat eqn:X; [apply Nat.ltb_lt in X; lia|reflexivity].
Qed.

(* "key =<blanks>value" in an open section adds the option, whatever option was open before *)
Lemma step_option_aux E o key c k' sp val kopt ind :
  key = c :: k' -> is_space c = false -> is_comment_prefix c = false -> (c =? c_lbr) = false ->
  forallb (fun c => negb (is_delim c)) key = true -> last_nonspace key = true -> lower key = key ->
  has_key key o = false -> forallb is_space sp = true -> no_padding val = true ->
  step (mk_pstate [(E, o)] (Some E) kopt ind) (key ++ c_sp :: c_eq :: sp ++ val) =
  Some (mk_pstate [(E, o ++ [(key, [val])])] (Some E) (Some key) O).
Proof.
  intros Hkey Hcs Hcc Hlbr Hnd Hlast Hlow Hk Hsp Hval.
  assert (forall x, strip (key ++ x) = rstrip (key ++ x)) as F1.
  { intro x. rewrite Hkey. apply (strip_nonspace_head c (k' ++ x) Hcs). }
  assert (forall x, indent_of (key ++ x) = O) as F2.
  { intro x. rewrite Hkey. apply (indent_nonspace_head c (k' ++ x) Hcs). }
  (* the stripped line and the text after the delimiter *)
  assert (exists x, strip (key ++ c_sp :: c_eq :: sp ++ val) = key ++ c_sp :: c_eq :: x /\ strip x = val)
    as (x & Hstrip & Hx).
  { destruct val as [|v vr].
    - exists []. split; [|reflexivity].
      rewrite F1, app_nil_r.
      change (key ++ c_sp :: c_eq :: sp) with (key ++ [c_sp; c_eq] ++ sp).
      rewrite app_assoc. apply rstrip_keep; [|exact Hsp].
      apply last_nonspace_app. reflexivity.
    - exists (sp ++ v :: vr). split.
      + rewrite F1.
        change (key ++ c_sp :: c_eq :: sp ++ v :: vr) with (key ++ (c_sp :: c_eq :: sp) ++ v :: vr).
        rewrite app_assoc. apply rstrip_app_keep.
        unfold no_padding in Hval. apply andb_true_iff in Hval as [_ Hval]. exact Hval.
      + unfold strip. rewrite lstrip_spaces by exact Hsp. apply no_padding_strip. exact Hval. }
  rewrite (step_unindented _ _ c (k' ++ c_sp :: c_eq :: x)); [| | exact Hcc | apply F2].
  2:{ rewrite Hstrip, Hkey. reflexivity. }
  change (c :: k' ++ c_sp :: c_eq :: x) with ((c :: k') ++ c_sp :: c_eq :: x). rewrite <- Hkey.
  unfold step_header.
  assert (section_header (key ++ c_sp :: c_eq :: x) = None) as ->.
  { rewrite Hkey. cbn [app section_header]. rewrite Hlbr. reflexivity. }
  cbn [p_cursec p_secs].
  assert (key ++ c_sp :: c_eq :: x = (key ++ [c_sp]) ++ c_eq :: x) as ->.
  { rewrite <- app_assoc. reflexivity. }
  rewrite split_delim_at; [| rewrite forallb_app, Hnd; reflexivity | reflexivity].
  rewrite rstrip_keep by (exact Hlast || reflexivity).
  rewrite Hlow. rewrite Hkey at 1.
  cbn [tlookup]. rewrite text_eqb_refl.
  rewrite <- Hkey, Hk, Hx, upd_head. reflexivity.
Qed.

Lemma step_option E o key sp val kopt ind :
  has_key key o = false -> key_ok key = true ->
  forallb is_space sp = true -> no_padding val = true ->
  step (mk_pstate [(E, o)] (Some E) kopt ind) (key ++ c_sp :: c_eq :: sp ++ val) =
  Some (mk_pstate [(E, o ++ [(key, [val])])] (Some E) (Some key) O).
Proof.
  intros Hk Hok Hsp Hval. unfold key_ok in Hok.
  destruct key as [|c k'] eqn:Hkey; [discriminate|]. rewrite <- Hkey in Hok |- *.
  apply andb_true_iff in Hok as [Hok Hlow]. apply andb_true_iff in Hok as [Hok Hlast].
  apply andb_true_iff in Hok as [Hhead Hnd]. apply andb_true_iff in Hhead as [Hhead Hlbr].
  apply andb_true_iff in Hhead as [Hcs Hcc].
  apply negb_true_iff in Hcs. apply negb_true_iff in Hcc. apply negb_true_iff in Hlbr.
  apply text_eqb_eq in Hlow.
  rewrite <- Hkey in Hk.
  apply (step_option_aux E o key c k' sp val kopt ind); assumption.
Qed.

(* a blank line inside an open value is kept (empty_lines_in_values) *)
Lemma step_blank E pre k vs ind :
  has_key k pre = false ->
  step (mk_pstate [(E, pre ++ [(k, vs)])] (Some E) (Some k) ind) [] =
  Some (mk_pstate [(E, pre ++ [(k, vs ++ [[]])])] (Some E) (Some k) ind).
Proof.
  intro H. unfold step. cbn [strip lstrip rstrip p_cursec p_opt]. cbv zeta iota.
  unfold append_value. cbn [p_secs p_cursec p_opt p_indent].
  rewrite upd_head, upd_last by exact H. reflexivity.
Qed.

(* an indented line under an option opened at indentation 0 continues its value *)
Lemma step_cont E pre k vs n :
  has_key k pre = false -> nonempty n = true -> lib_ok n = true ->
  step (mk_pstate [(E, pre ++ [(k, vs)])] (Some E) (Some k) O) (c_sp :: c_sp :: n) =
  Some (mk_pstate [(E, pre ++ [(k, vs ++ [n])])] (Some E) (Some k) O).
Proof.
  intros H Hne Hn. destruct n as [|c r]; [discriminate|].
  unfold lib_ok, value_ok in Hn. apply andb_true_iff in Hn as [Hn Hc].
  apply andb_true_iff in Hn as [_ Hpad]. apply negb_true_iff in Hc.
  pose proof Hpad as Hpad'. unfold no_padding in Hpad'. apply andb_true_iff in Hpad' as [Hcs _].
  apply negb_true_iff in Hcs.
  unfold step.
  assert (strip (c_sp :: c_sp :: c :: r) = c :: r) as ->.
  { unfold strip. cbn [lstrip]. rewrite is_space_sp, Hcs.
    apply no_padding_rstrip. exact Hpad. }
  cbv zeta. rewrite Hc. cbv iota. cbn [p_cursec p_opt p_indent].
  cbn [indent_of]. rewrite is_space_sp, Hcs.
  change ((0 <? 2)%nat) with true. cbv iota.
  unfold append_value. cbn [p_secs p_cursec p_opt p_indent].
  rewrite upd_head, upd_last by exact H. reflexivity.
Qed.

(* ------------------------------------------------------------ the same, on the text *)
Lemma read_end st : read_from st [] = Some st.
Proof. reflexivity. Qed.

Lemma read_section name rest :
  nonempty name = true -> forallb (fun c => negb (c =? c_rbr)) name = true ->
  text_eqb name default_name = false -> no_break name = true ->
  read_from init_state (c_lbr :: name ++ c_rbr :: c_nl :: rest) =
  read_from (mk_pstate [(name, [])] (Some name) None O) rest.
Proof.
  intros H1 H2 H3 H4.
  replace (c_lbr :: name ++ c_rbr :: c_nl :: rest) with ((c_lbr :: name ++ [c_rbr]) ++ c_nl :: rest)
    by (cbn [app]; rewrite <- app_assoc; reflexivity).
  rewrite read_line.
  - rewrite step_section by assumption. reflexivity.
  - change (c_lbr :: name ++ [c_rbr]) with ([c_lbr] ++ name ++ [c_rbr]).
    rewrite !no_break_app, H4. reflexivity.
Qed.

Lemma read_option E o key sp val kopt ind rest :
  has_key key o = false -> key_ok key = true ->
  forallb is_space sp = true -> no_padding val = true ->
  no_break key = true -> no_break sp = true -> no_break val = true ->
  read_from (mk_pstate [(E, o)] (Some E) kopt ind) (key ++ c_sp :: c_eq :: sp ++ val ++ c_nl :: rest) =
  read_from (mk_pstate [(E, o ++ [(key, [val])])] (Some E) (Some key) O) rest.
Proof.
  intros H1 H2 H3 H4 B1 B2 B3.
  replace (key ++ c_sp :: c_eq :: sp ++ val ++ c_nl :: rest)
    with ((key ++ c_sp :: c_eq :: sp ++ val) ++ c_nl :: rest).
  2:{ rewrite <- app_assoc. cbn [app]. rewrite <- app_assoc. reflexivity. }
  rewrite read_line.
  - rewrite step_option by assumption. reflexivity.
  - change (key ++ c_sp :: c_eq :: sp ++ val) with (key ++ [c_sp; c_eq] ++ sp ++ val).
    rewrite !no_break_app, B1, B2, B3. reflexivity.
Qed.

Lemma read_blank E pre k vs ind rest :
  has_key k pre = false ->
  read_from (mk_pstate [(E, pre ++ [(k, vs)])] (Some E) (Some k) ind) (c_nl :: rest) =
  read_from (mk_pstate [(E, pre ++ [(k, vs ++ [[]])])] (Some E) (Some k) ind) rest.
Proof.
  intro H. change (c_nl :: rest) with ([] ++ c_nl :: rest).
  rewrite read_line by reflexivity. rewrite step_blank by exact H. reflexivity.
Qed.

Definition real_lib (n : text) : bool := nonempty n && lib_ok n.

Lemma real_lib_facts n :
  real_lib n = true -> nonempty n = true /\ lib_ok n = true /\ no_break n = true /\ last_nonspace n = true.
Proof.
  unfold real_lib. intro H. apply andb_true_iff in H as [H1 H2]. repeat split; try assumption.
  - destruct n as [|c r]; [discriminate|]. unfold lib_ok, value_ok in H2.
    apply andb_true_iff in H2 as [H2 _]. apply andb_true_iff in H2 as [H2 _]. exact H2.
  - destruct n as [|c r]; [discriminate|]. unfold lib_ok, value_ok, no_padding in H2.
    apply andb_true_iff in H2 as [H2 _]. apply andb_true_iff in H2 as [_ H2].
    apply andb_true_iff in H2 as [_ H2]. exact H2.
Qed.

(* the "  name" lines of the lib_deps value, each terminated *)
Definition cont_lines (u : list text) : text := concat (map (fun n => c_sp :: c_sp :: n ++ [c_nl]) u).

Lemma read_conts u : forall E pre k vs,
  has_key k pre = false -> forallb real_lib u = true ->
  read_from (mk_pstate [(E, pre ++ [(k, vs)])] (Some E) (Some k) O) (cont_lines u) =
  Some (mk_pstate [(E, pre ++ [(k, vs ++ u)])] (Some E) (Some k) O).
Proof.
  induction u as [|n r IH]; intros E pre k vs Hk Hu.
  - rewrite app_nil_r. reflexivity.
  - cbn [forallb] in Hu. apply andb_true_iff in Hu as [Hn Hr].
    destruct (real_lib_facts n Hn) as (N1 & N2 & N3 & N4).
    unfold cont_lines. cbn [map concat]. fold (cont_lines r).
    replace ((c_sp :: c_sp :: n ++ [c_nl]) ++ cont_lines r) with ((c_sp :: c_sp :: n) ++ c_nl :: cont_lines r)
      by (cbn [app]; rewrite <- app_assoc; reflexivity).
    rewrite read_line.
    + rewrite step_cont by assumption. rewrite IH by assumption.
      rewrite <- app_assoc. reflexivity.
    + change (c_sp :: c_sp :: n) with ([c_sp; c_sp] ++ n). rewrite no_break_app, N3. reflexivity.
Qed.

(* ------------------------------------------------------------ lib section text *)
Lemma join_lines (f : text -> text) u : forall a,
  join [c_nl] (a :: map f u) = a ++ concat (map (fun n => c_nl :: f n) u).
Proof.
  induction u as [|n r IH]; intro a.
  - cbn. rewrite app_nil_r. reflexivity.
  - cbn [map]. change (join [c_nl] (a :: f n :: map f r)) with (a ++ [c_nl] ++ join [c_nl] (f n :: map f r)).
    rewrite IH. cbn [concat app]. reflexivity.
Qed.

Lemma lib_tail u :
  concat (map (fun n => c_nl :: c_sp :: c_sp :: n) u) ++ [c_nl] = c_nl :: cont_lines u.
Proof.
  induction u as [|n r IH]; [reflexivity|].
  unfold cont_lines in *. cbn [map concat app].
  rewrite <- !app_assoc. rewrite IH. reflexivity.
Qed.

Lemma last_nonspace_concat (f : text -> text) u a :
  last_nonspace a = true ->
  (forall n, In n u -> last_nonspace (f n) = true) ->
  last_nonspace (a ++ concat (map f u)) = true.
Proof.
  revert a. induction u as [|n r IH]; intros a Ha Hu.
  - cbn. rewrite app_nil_r. exact Ha.
  - cbn [map concat]. rewrite app_assoc. apply IH.
    + apply last_nonspace_app. apply Hu. left. reflexivity.
    + intros m Hm. apply Hu. right. exact Hm.
Qed.

Lemma last_nonspace_join u :
  u <> [] -> (forall n, In n u -> last_nonspace n = true) -> last_nonspace (join [c_nl] u) = true.
Proof.
  induction u as [|a r IH]; [congruence|]. intros _ Hu.
  destruct r as [|b r'].
  - cbn. apply Hu. left. reflexivity.
  - change (join [c_nl] (a :: b :: r')) with (a ++ [c_nl] ++ join [c_nl] (b :: r')).
    apply last_nonspace_app. apply last_nonspace_app. apply IH; [discriminate|].
    intros n Hn. apply Hu. right. exact Hn.
Qed.

(* ------------------------------------------------------------ de-duplication *)
Lemma filter_filter {A} (f g : A -> bool) l :
  filter f (filter g l) = filter (fun x => g x && f x) l.
Proof.
  induction l as [|a r IH]; [reflexivity|]. cbn [filter].
  destruct (g a); cbn [filter andb]; [destruct (f a)|]; rewrite IH; reflexivity.
Qed.

Lemma tmem_app x a b : tmem x (a ++ b) = tmem x a || tmem x b.
Proof.
  induction a as [|y r IH]; [reflexivity|]. cbn [app tmem]. rewrite IH, orb_assoc. reflexivity.
Qed.

Lemma text_eqb_sym a b : text_eqb a b = text_eqb b a.
Proof.
  destruct (text_eqb a b) eqn:E1, (text_eqb b a) eqn:E2; try reflexivity.
  - apply text_eqb_eq in E1. subst. rewrite text_eqb_refl in E2. discriminate.
  - apply text_eqb_eq in E2. subst. rewrite text_eqb_refl in E1. discriminate.
Qed.

(* the loop of _format_lib_section computes the accumulator-free specification *)
Lemma collect_unique_spec libs : forall acc,
  collect_unique acc libs = acc ++ filter (fun x => negb (tmem x acc)) (given_libs libs).
Proof.
  unfold given_libs.
  induction libs as [|e r IH]; intro acc.
  - cbn. rewrite app_nil_r. reflexivity.
  - cbn [collect_unique filter]. destruct (nonempty e) eqn:Ene; cbn [negb].
    + cbn [nodup_first filter]. destruct (tmem e acc) eqn:Em; cbn [negb].
      * rewrite IH. f_equal. rewrite filter_filter. apply filter_ext. intro x.
        destruct (text_eqb x e) eqn:Ex; [|reflexivity].
        apply text_eqb_eq in Ex. subst. rewrite Em. reflexivity.
      * rewrite IH. rewrite <- app_assoc. cbn [app]. f_equal. f_equal.
        rewrite filter_filter. apply filter_ext. intro x.
        rewrite tmem_app. cbn [tmem]. rewrite orb_false_r, negb_orb, andb_comm. reflexivity.
    + apply IH.
Qed.

Lemma collect_unique_given libs : collect_unique [] libs = given_libs libs.
Proof.
  rewrite collect_unique_spec. cbn [app tmem negb].
  induction (given_libs libs) as [|a r IH]; [reflexivity|]. cbn [filter]. rewrite IH. reflexivity.
Qed.

Lemma format_lib_section_spec libs :
  format_lib_section libs =
  match given_libs libs with
  | [] => []
  | ns => t_lib_deps_eq ++ concat (map (fun n => c_nl :: c_sp :: c_sp :: n) ns)
  end.
Proof.
  unfold format_lib_section. rewrite collect_unique_given.
  destruct (given_libs libs) as [|n r]; [reflexivity|].
  apply (join_lines (fun n => c_sp :: c_sp :: n)).
Qed.

Lemma nodup_first_In l x : In x (nodup_first l) <-> In x l.
Proof.
  induction l as [|a r IH]; [tauto|]. cbn [nodup_first In]. rewrite filter_In, IH.
  split.
  - intros [H|[H _]]; auto.
  - intros [H|H]; auto. destruct (text_eqb x a) eqn:E.
    + apply text_eqb_eq in E. auto.
    + right. split; [exact H|reflexivity].
Qed.

Lemma nodup_first_NoDup l : NoDup (nodup_first l).
Proof.
  induction l as [|a r IH]; [constructor|]. cbn [nodup_first]. constructor.
  - rewrite filter_In. intros [_ H]. rewrite text_eqb_refl in H. discriminate.
  - apply NoDup_filter. exact IH.
Qed.

(* first-seen order: the result for a prefix is a prefix of the result; what a longer list adds
   are exactly its not-yet-seen elements, in their own first-seen order *)
Lemma nodup_first_app l1 l2 :
  nodup_first (l1 ++ l2) = nodup_first l1 ++ filter (fun x => negb (tmem x l1)) (nodup_first l2).
Proof.
  induction l1 as [|a r IH].
  - cbn [app nodup_first tmem negb]. induction (nodup_first l2) as [|y q IHq]; [reflexivity|].
    cbn [filter]. rewrite <- IHq. reflexivity.
  - cbn [app nodup_first]. f_equal. rewrite IH.
    rewrite filter_app, filter_filter. f_equal. apply filter_ext. intro x.
    cbn [tmem]. rewrite negb_orb, andb_comm. reflexivity.
Qed.

Lemma given_libs_In libs x : In x (given_libs libs) <-> In x libs /\ x <> [].
Proof.
  unfold given_libs. rewrite nodup_first_In, filter_In.
  split; intros [H1 H2]; split; try exact H1; destruct x; try discriminate; try reflexivity; congruence.
Qed.

Lemma given_libs_real libs : forallb lib_ok libs = true -> forallb real_lib (given_libs libs) = true.
Proof.
  intro H. apply forallb_forall. intros x Hx. apply given_libs_In in Hx as [H1 H2].
  rewrite forallb_forall in H. unfold real_lib. rewrite (H _ H1).
  destruct x; [congruence|reflexivity].
Qed.

(* ------------------------------------------------------------ env names *)
Lemma sanitize_from_word t : forall f, forallb is_word (sanitize_from f t) = true.
Proof.
  induction t as [|c r IH]; intro f; [reflexivity|]. cbn [sanitize_from].
  destruct (is_word c) eqn:E.
  - cbn [forallb]. rewrite E, IH. reflexivity.
  - destruct f; [apply IH|]. cbn [forallb]. rewrite IH. reflexivity.
Qed.

Lemma sanitize_word b : forallb is_word (sanitize_env_name b) = true.
Proof. apply sanitize_from_word. Qed.

Lemma is_word_not c d : is_word d = false -> is_word c = true -> (c =? d) = false.
Proof.
  intros Hd Hc. destruct (c =? d) eqn:E; [|reflexivity].
  apply Z.eqb_eq in E. subst. congruence.
Qed.

Lemma word_text_facts s :
  forallb is_word s = true ->
  forallb (fun c => negb (c =? c_rbr)) s = true /\ no_break s = true.
Proof.
  intro H. rewrite forallb_forall in H. split; apply forallb_forall; intros c Hc; specialize (H c Hc).
  - rewrite (is_word_not c c_rbr); [reflexivity|reflexivity|exact H].
  - rewrite (is_word_not c c_nl), (is_word_not c c_cr); [reflexivity|reflexivity|exact H|reflexivity|exact H].
Qed.

Definition all_boards : list text := concat (map snd platforms).

Definition sanitize_injective_on (l : list text) : bool :=
  let sn := map (fun b => (b, sanitize_env_name b)) l in
  forallb (fun p => forallb (fun q => implb (text_eqb (snd p) (snd q)) (text_eqb (fst p) (fst q))) sn) sn.

Lemma sanitize_injective_lift l :
  sanitize_injective_on l = true ->
  forall a b, In a l -> In b l -> sanitize_env_name a = sanitize_env_name b -> a = b.
Proof.
  unfold sanitize_injective_on. cbv zeta. intros H a b Ha Hb E.
  rewrite forallb_forall in H.
  specialize (H (a, sanitize_env_name a)). rewrite forallb_forall in H.
  assert (forall x, In x l -> In (x, sanitize_env_name x) (map (fun b => (b, sanitize_env_name b)) l)) as M.
  { intros x Hx. apply in_map_iff. exists x. auto. }
  specialize (H (M a Ha) (b, sanitize_env_name b) (M b Hb)). cbn [fst snd] in H.
  rewrite E, text_eqb_refl in H. cbn [implb] in H. apply text_eqb_eq. exact H.
Qed.

Lemma registry_sanitize_injective : sanitize_injective_on all_boards = true.
Proof. vm_compute. reflexivity. Qed.

(* every name of the generated registry is a plain word: no blank, no line break, none of = : [ ] # ; *)
Definition reg_name_ok (t : text) : bool :=
  nonempty t &&
  forallb (fun c => negb (is_space c) && negb (is_delim c) && negb (is_comment_prefix c)
                    && negb (c =? c_lbr) && negb (c =? c_rbr)) t.

Lemma registry_names_plain :
  forallb reg_name_ok (map fst platforms ++ all_boards) = true.
Proof. vm_compute. reflexivity. Qed.

Lemma reg_name_value_ok t : reg_name_ok t = true -> value_ok t = true.
Proof.
  unfold reg_name_ok, value_ok. intro H. apply andb_true_iff in H as [Hne H].
  rewrite forallb_forall in H.
  assert (forall c, In c t -> is_space c = false) as Hs.
  { intros c Hc. specialize (H c Hc). repeat (apply andb_true_iff in H as [H _]).
    apply negb_true_iff in H. exact H. }
  apply andb_true_iff. split.
  - apply forallb_forall. intros c Hc. specialize (Hs c Hc).
    destruct (c =? c_nl) eqn:E1; [apply Z.eqb_eq in E1; subst; discriminate|].
    destruct (c =? c_cr) eqn:E2; [apply Z.eqb_eq in E2; subst; discriminate|]. reflexivity.
  - destruct t as [|c r]; [reflexivity|]. unfold no_padding.
    rewrite (Hs c) by (left; reflexivity). cbn [negb andb].
    clear Hne H. revert c Hs. induction r as [|d q IH]; intros c Hs.
    + cbn. rewrite (Hs c) by (left; reflexivity). reflexivity.
    + change (last_nonspace (c :: d :: q)) with (last_nonspace (d :: q)).
      apply IH. intros x Hx. apply Hs. right. exact Hx.
Qed.

Lemma registered_names_ok pl b : registered pl b -> value_ok pl = true /\ value_ok b = true.
Proof.
  intros (bs & H1 & H2).
  pose proof registry_names_plain as R. rewrite forallb_forall in R.
  split; apply reg_name_value_ok, R, in_or_app.
  - left. apply in_map_iff. exists (pl, bs). auto.
  - right. unfold all_boards. apply in_concat. exists bs. split; [|exact H2].
    apply in_map_iff. exists (pl, bs). auto.
Qed.

(* ------------------------------------------------------------ the rendered text *)
(* the first four lines of the template, then [x] *)
Definition hdr_then (s pl b x : text) : text :=
  c_lbr :: (t_env ++ s) ++ c_rbr :: c_nl ::
  k_platform ++ c_sp :: c_eq :: [c_sp] ++ pl ++ c_nl ::
  k_board ++ c_sp :: c_eq :: [c_sp] ++ b ++ c_nl ::
  k_framework ++ c_sp :: c_eq :: [c_sp] ++ t_arduino ++ c_nl :: x.

(* the template regenerated from pio.py is the one these proofs are about *)
Lemma fill_shape s pl b port l :
  fill ini_parts s pl b port l =
  hdr_then s pl b (k_upload_port ++ c_sp :: c_eq :: c_sp :: port ++ c_nl :: c_nl :: l ++ [c_nl]).
Proof. reflexivity. Qed.

Lemma hdr_then_app s pl b x : hdr_then s pl b x = hdr_then s pl b [] ++ x.
Proof.
  unfold hdr_then. cbn [app].
  repeat (rewrite <- app_assoc; cbn [app]). reflexivity.
Qed.

Lemma rstrip_cons_r c b : rstrip b <> [] -> rstrip (c :: b) = c :: rstrip b.
Proof. intro H. cbn [rstrip]. destruct (rstrip b); congruence. Qed.

Lemma rstrip_app_r a b : rstrip b <> [] -> rstrip (a ++ b) = a ++ rstrip b.
Proof.
  intro H. induction a as [|c r IH]; [reflexivity|].
  cbn [app]. rewrite rstrip_cons_r; [rewrite IH; reflexivity|].
  rewrite IH. destruct r; [exact H|discriminate].
Qed.

Lemma hdr_then_rstrip s pl b x :
  rstrip x <> [] -> rstrip (hdr_then s pl b x) = hdr_then s pl b (rstrip x).
Proof.
  intro H. rewrite (hdr_then_app s pl b x), (hdr_then_app s pl b (rstrip x)).
  apply rstrip_app_r. exact H.
Qed.

Definition st_hdr (s pl b : text) : pstate :=
  mk_pstate [(t_env ++ s, [(k_platform, [pl]); (k_board, [b]); (k_framework, [t_arduino])])]
            (Some (t_env ++ s)) (Some k_framework) O.

Lemma value_ok_parts t : value_ok t = true -> no_break t = true /\ no_padding t = true.
Proof. unfold value_ok. intro H. apply andb_true_iff in H. exact H. Qed.

Lemma read_hdr s pl b x :
  forallb is_word s = true -> value_ok pl = true -> value_ok b = true ->
  read_from init_state (hdr_then s pl b x) = read_from (st_hdr s pl b) x.
Proof.
  intros Hs Hpl Hb. destruct (word_text_facts s Hs) as [S1 S2].
  destruct (value_ok_parts pl Hpl) as [P1 P2]. destruct (value_ok_parts b Hb) as [B1 B2].
  unfold hdr_then.
  rewrite read_section.
  - rewrite (read_option _ [] k_platform [c_sp] pl) by (assumption || reflexivity).
    rewrite (read_option _ _ k_board [c_sp] b) by (assumption || reflexivity).
    rewrite (read_option _ _ k_framework [c_sp] t_arduino) by reflexivity.
    reflexivity.
  - reflexivity.
  - rewrite forallb_app, S1. reflexivity.
  - reflexivity.
  - rewrite no_break_app, S2. reflexivity.
Qed.

(* the three shapes of the file after PIO_INI.format(...).rstrip() + "\n" *)
Definition tail_libs (port : text) (u : list text) : text :=
  k_upload_port ++ c_sp :: c_eq :: [c_sp] ++ port ++ c_nl :: c_nl ::
  k_lib_deps ++ c_sp :: c_eq :: [] ++ [] ++ c_nl :: cont_lines u.

Definition tail_port (port : text) : text :=
  k_upload_port ++ c_sp :: c_eq :: [c_sp] ++ port ++ c_nl :: [].

Definition tail_bare : text :=
  k_upload_port ++ c_sp :: c_eq :: [] ++ [] ++ c_nl :: [].

Lemma render_shape pl b port libs :
  value_ok port = true -> forallb lib_ok libs = true ->
  render pl b port libs =
  hdr_then (sanitize_env_name b) pl b
    match given_libs libs, port with
    | _ :: _, _ => tail_libs port (given_libs libs)
    | [], _ :: _ => tail_port port
    | [], [] => tail_bare
    end.
Proof.
  intros Hport Hlibs. pose proof (given_libs_real libs Hlibs) as Hu.
  destruct (value_ok_parts port Hport) as [_ Ppad].
  unfold render. rewrite fill_shape, format_lib_section_spec.
  set (s := sanitize_env_name b).
  destruct (given_libs libs) as [|n r] eqn:Eu.
  - destruct port as [|c p].
    + (* no libraries, empty port: the blank after "=" goes too *)
      rewrite hdr_then_rstrip; [|vm_compute; discriminate].
      rewrite (hdr_then_app s pl b tail_bare), hdr_then_app, <- app_assoc. reflexivity.
    + (* no libraries: the file ends after the port *)
      assert (k_upload_port ++ c_sp :: c_eq :: c_sp :: (c :: p) ++ c_nl :: c_nl :: [] ++ [c_nl] =
              (k_upload_port ++ c_sp :: c_eq :: c_sp :: c :: p) ++ [c_nl; c_nl; c_nl]) as ->.
      { rewrite <- app_assoc. reflexivity. }
      assert (last_nonspace (k_upload_port ++ c_sp :: c_eq :: c_sp :: c :: p) = true) as L.
      { change (k_upload_port ++ c_sp :: c_eq :: c_sp :: c :: p)
          with (k_upload_port ++ [c_sp; c_eq; c_sp] ++ c :: p).
        apply last_nonspace_app, last_nonspace_app.
        unfold no_padding in Ppad. apply andb_true_iff in Ppad as [_ Ppad]. exact Ppad. }
      rewrite hdr_then_rstrip; rewrite rstrip_keep by (exact L || reflexivity).
      * rewrite (hdr_then_app s pl b (tail_port (c :: p))), hdr_then_app, <- app_assoc.
        reflexivity.
      * destruct k_upload_port; discriminate.
  - (* libraries: only the final newline is stripped, and put back *)
    set (u := n :: r) in *.
    set (l := t_lib_deps_eq ++ concat (map (fun n => c_nl :: c_sp :: c_sp :: n) u)).
    assert (last_nonspace l = true) as Ll.
    { apply last_nonspace_concat; [reflexivity|].
      intros m Hm. rewrite forallb_forall in Hu. destruct (real_lib_facts m (Hu m Hm)) as (_ & _ & _ & Lm).
      apply (last_nonspace_app [c_nl; c_sp; c_sp] m Lm). }
    assert (k_upload_port ++ c_sp :: c_eq :: c_sp :: port ++ c_nl :: c_nl :: l ++ [c_nl] =
            (k_upload_port ++ c_sp :: c_eq :: c_sp :: port ++ c_nl :: c_nl :: l) ++ [c_nl]) as E1.
    { rewrite <- app_assoc. cbn [app]. rewrite <- app_assoc. reflexivity. }
    assert (last_nonspace (k_upload_port ++ c_sp :: c_eq :: c_sp :: port ++ c_nl :: c_nl :: l) = true) as L.
    { change (k_upload_port ++ c_sp :: c_eq :: c_sp :: port ++ c_nl :: c_nl :: l)
        with (k_upload_port ++ [c_sp; c_eq; c_sp] ++ port ++ [c_nl; c_nl] ++ l).
      do 4 apply last_nonspace_app. exact Ll. }
    rewrite hdr_then_rstrip; rewrite E1, rstrip_keep by (exact L || reflexivity).
    + rewrite (hdr_then_app s pl b (tail_libs port u)), hdr_then_app, <- app_assoc.
      f_equal. rewrite <- E1. unfold tail_libs, l.
      rewrite <- app_assoc, lib_tail. reflexivity.
    + destruct k_upload_port; discriminate.
Qed.

(* ------------------------------------------------------------ the round trip *)
Lemma ini_read_read t :
  ini_read t = match read_from init_state t with Some st => Some (finish st) | None => None end.
Proof. reflexivity. Qed.

Definition join_value (kv : text * list text) : text * text := (fst kv, rstrip (join [c_nl] (snd kv))).

Lemma finish_hdr e pl b more c o i :
  no_padding pl = true -> no_padding b = true ->
  finish (mk_pstate [(e, [(k_platform, [pl]); (k_board, [b]); (k_framework, [t_arduino])] ++ more)] c o i) =
  [(e, [(k_platform, pl); (k_board, b); (k_framework, t_arduino)] ++ map join_value more)].
Proof.
  intros Hpl Hb. unfold finish. cbn [p_secs map fst snd app join].
  rewrite (no_padding_rstrip pl Hpl), (no_padding_rstrip b Hb). reflexivity.
Qed.

Theorem roundtrip pl b port libs :
  value_ok pl = true -> value_ok b = true -> value_ok port = true -> forallb lib_ok libs = true ->
  ini_read (render pl b port libs) = Some (expected_ini pl b port libs).
Proof.
  intros Hpl Hb Hport Hlibs.
  rewrite ini_read_read, render_shape by assumption.
  rewrite read_hdr by (assumption || apply sanitize_word).
  unfold expected_ini, env_header.
  pose proof (given_libs_real libs Hlibs) as Hu.
  destruct (value_ok_parts port Hport) as [Pb Pp].
  destruct (value_ok_parts pl Hpl) as [_ Ppl]. destruct (value_ok_parts b Hb) as [_ Pbd].
  set (e := t_env ++ sanitize_env_name b).
  destruct (given_libs libs) as [|n r] eqn:Eu.
  - destruct port as [|c p].
    + unfold tail_bare, st_hdr. fold e.
      rewrite (read_option _ _ k_upload_port [] []) by reflexivity.
      rewrite read_end, finish_hdr by assumption. reflexivity.
    + unfold tail_port, st_hdr. fold e.
      rewrite (read_option _ _ k_upload_port [c_sp] (c :: p)) by (assumption || reflexivity).
      rewrite read_end, finish_hdr by assumption.
      cbn [map]. unfold join_value. cbn [fst snd join]. rewrite (no_padding_rstrip _ Pp). reflexivity.
  - set (u := n :: r) in *.
    unfold tail_libs, st_hdr. fold e.
    rewrite (read_option _ _ k_upload_port [c_sp] port) by (assumption || reflexivity).
    rewrite read_blank by reflexivity.
    rewrite (read_option _ _ k_lib_deps [] []) by reflexivity.
    rewrite read_conts by (assumption || reflexivity).
    rewrite <- app_assoc, finish_hdr by assumption.
    assert (rstrip (join [c_nl] [port; []]) = port) as J1.
    { (* upload_port: the blank line kept in the value is trimmed when the lines are joined *)
      cbn [join]. rewrite app_nil_r, rstrip_spaces by reflexivity.
      apply no_padding_rstrip. exact Pp. }
    cbn [map app]. unfold join_value. cbn [fst snd]. rewrite J1.
    match goal with |- context [(k_lib_deps, ?v)] => assert (v = c_nl :: join [c_nl] u) as J2 end.
    { (* lib_deps: an empty first line, then the names *)
      unfold u.
      change (join [c_nl] ([] :: n :: r)) with (c_nl :: join [c_nl] (n :: r)).
      apply last_nonspace_rstrip. apply (last_nonspace_app [c_nl]).
      apply last_nonspace_join; [discriminate|].
      intros m Hm. rewrite forallb_forall in Hu. apply (real_lib_facts m (Hu m Hm)). }
    rewrite J2. reflexivity.
Qed.

(* write_project as a whole: a valid pair writes the file that reads back, an invalid pair nothing *)
Lemma registered_all_boards pl b : registered pl b -> In b all_boards.
Proof.
  intros (bs & H1 & H2). unfold all_boards. apply in_concat. exists bs. split; [|exact H2].
  apply in_map_iff. exists (pl, bs). auto.
Qed.

Lemma roundtrip_registered pl b port libs :
  validate pl b = None -> value_ok port = true -> forallb lib_ok libs = true ->
  exists t, write_ini pl b port libs = inr t /\ ini_read t = Some (expected_ini pl b port libs).
Proof.
  intros V Hport Hlibs. unfold write_ini. rewrite V. eexists. split; [reflexivity|].
  apply (validate_exact _ _ generated_tables_ok) in V.
  destruct (registered_names_ok pl b V) as [Hpl Hb].
  apply roundtrip; assumption.
Qed.

Lemma invalid_writes_nothing pl b port libs e :
  validate pl b = Some e -> write_ini pl b port libs = inl e.
Proof. intro V. unfold write_ini. rewrite V. reflexivity. Qed.

(* the guard named in the work order (no blank other than " " anywhere) implies the one proved *)
Lemma plain_value_ok t : plain_value t = true -> value_ok t = true.
Proof.
  unfold plain_value, value_ok. intro H. apply andb_true_iff in H as [H1 H2]. rewrite H2, andb_true_r.
  apply forallb_forall. intros c Hc. rewrite forallb_forall in H1. specialize (H1 c Hc).
  destruct (c =? c_nl) eqn:E1; [apply Z.eqb_eq in E1; subst; discriminate|].
  destruct (c =? c_cr) eqn:E2; [apply Z.eqb_eq in E2; subst; discriminate|]. reflexivity.
Qed.

Lemma no_padding_iff t : no_padding t = true <-> strip t = t.
Proof. split; [apply no_padding_strip|apply strip_fix_no_padding]. Qed.

Lemma registry_sanitize_injective_reg p1 p2 a b :
  registered p1 a -> registered p2 b -> sanitize_env_name a = sanitize_env_name b -> a = b.
Proof.
  intros R1 R2. apply (sanitize_injective_lift all_boards registry_sanitize_injective);
    eapply registered_all_boards; eassumption.
Qed.

Lemma registered_names_plain pl b : registered pl b -> reg_name_ok pl = true /\ reg_name_ok b = true.
Proof.
  intros (bs & H1 & H2).
  pose proof registry_names_plain as R. rewrite forallb_forall in R.
  split; apply R, in_or_app.
  - left. apply in_map_iff. exists (pl, bs). auto.
  - right. apply (registered_all_boards pl b). exists bs. auto.
Qed.

Lemma dedup_first_seen libs :
  format_lib_section libs =
    match given_libs libs with
    | [] => []
    | ns => t_lib_deps_eq ++ concat (map (fun n => c_nl :: c_sp :: c_sp :: n) ns)
    end
  /\ NoDup (given_libs libs)
  /\ (forall x, In x (given_libs libs) <-> In x libs /\ x <> [])
  /\ (forall l1 l2, libs = l1 ++ l2 ->
        given_libs libs = given_libs l1 ++ filter (fun x => negb (tmem x l1)) (given_libs l2)).
Proof.
  split; [apply format_lib_section_spec|]. split; [apply nodup_first_NoDup|].
  split; [apply given_libs_In|].
  intros l1 l2 ->. unfold given_libs. rewrite filter_app, nodup_first_app. f_equal.
  apply filter_ext_in. intros x Hx. apply nodup_first_In, filter_In in Hx as [_ Hx].
  f_equal. clear -Hx. induction l1 as [|a r IH]; [reflexivity|]. cbn [filter tmem].
  destruct (nonempty a) eqn:Ea; cbn [tmem]; rewrite IH; [reflexivity|].
  destruct (text_eqb x a) eqn:E; [|reflexivity].
  apply text_eqb_eq in E. subst. congruence.
Qed.

(* ------------------------------------------------------------ refutations outside the guard *)
Definition w_avr : text := Eval vm_compute in txt "atmelavr".
Definition w_uno : text := Eval vm_compute in txt "uno".
Definition w_com3 : text := Eval vm_compute in txt "COM3".
Definition w_servo : text := Eval vm_compute in txt "Servo".

(* F-C13-port-padding: the blanks around the port are lost *)
Lemma port_padding_refuted :
  exists port, no_break port = true /\ validate w_avr w_uno = None /\
    ini_read (render w_avr w_uno port []) = Some (expected_ini w_avr w_uno w_com3 []) /\
    expected_ini w_avr w_uno w_com3 [] <> expected_ini w_avr w_uno port [].
Proof.
  exists (c_sp :: w_com3 ++ [c_sp]). repeat split; try (vm_compute; reflexivity).
  vm_compute. intro H. inversion H.
Qed.

(* F-C13-lib-comment: a library named "#x" is written as a comment line and disappears *)
Lemma lib_comment_refuted :
  exists libs, forallb no_break libs = true /\ forallb no_padding libs = true /\
    ini_read (render w_avr w_uno w_com3 libs) = Some (expected_ini w_avr w_uno w_com3 [w_servo]) /\
    expected_ini w_avr w_uno w_com3 [w_servo] <> expected_ini w_avr w_uno w_com3 libs.
Proof.
  exists [[c_hash; 120]; w_servo]. repeat split; try (vm_compute; reflexivity).
  vm_compute. intro H. inversion H.
Qed.

(* F-C13-lib-padding: the blanks around a library name are lost *)
Lemma lib_padding_refuted :
  exists libs, forallb no_break libs = true /\
    forallb (fun n => match n with c :: _ => negb (is_comment_prefix c) | [] => true end) libs = true /\
    ini_read (render w_avr w_uno w_com3 libs) = Some (expected_ini w_avr w_uno w_com3 [w_servo]) /\
    expected_ini w_avr w_uno w_com3 [w_servo] <> expected_ini w_avr w_uno w_com3 libs.
Proof.
  exists [c_sp :: w_servo ++ [c_sp]]. repeat split; try (vm_compute; reflexivity).
  vm_compute. intro H. inversion H.
Qed.

(* a line break inside a value is written as is, so the file no longer parses (not a listed
   finding: the property quantifies over printable strings; recorded to show the guard's
   no_break conjunct is needed): port "x\nboard = zz" -> DuplicateOptionError, library "a\nb" -> ParsingError *)
Lemma line_break_refuted :
  (exists port, no_padding port = true /\ ini_read (render w_avr w_uno port []) = None) /\
  (exists lib, no_padding lib = true /\ ini_read (render w_avr w_uno w_com3 [lib]) = None).
Proof.
  split.
  - exists (120 :: c_nl :: k_board ++ [c_sp; c_eq; c_sp; 122; 122]). split; vm_compute; reflexivity.
  - exists [97; c_nl; 98]. split; vm_compute; reflexivity.
Qed.
