(* Proofs for C15 (button edges, potentiometer reads, ultrasonic ranging). *)
From Coq Require Import ZArith QArith List Bool Arith Lia Lqa.
From RV Require Import Device.DButton Device.DPot Device.DUltra.
Import ListNotations.
Open Scope nat_scope.

(* ====================================================================== *)
(* Button                                                                  *)
(* ====================================================================== *)

Lemma filter_click_repeatH v n : filter is_click (repeat (BPrintH v) n) = [].
Proof. induction n as [|n IH]; cbn; auto. Qed.

Lemma filter_click_repeatP v n : filter is_click (repeat (BPrint v) n) = [].
Proof. induction n as [|n IH]; cbn; auto. Qed.

Lemma flat_map_repeat_nil {A B} (f : A -> list B) (x : A) n :
  f x = [] -> flat_map f (repeat x n) = [].
Proof. intro H. induction n as [|n IH]; cbn; auto. rewrite H, IH. reflexivity. Qed.

Lemma flat_map_repeat_one {A B} (f : A -> list B) (x : A) (y : B) n :
  f x = [y] -> flat_map f (repeat x n) = repeat y n.
Proof. intro H. induction n as [|n IH]; cbn; auto. rewrite H, IH. reflexivity. Qed.

Lemma pass_state h st p :
  fst (b_pass h st p) = {| b_prev := fst p; b_value := fst p |}.
Proof. reflexivity. Qed.

Lemma clicks_pass n st p :
  clicks (snd (b_pass (Some n) st p)) = b2n (fst p && negb (b_prev st)).
Proof.
  unfold b_pass, b_poll, clicks. cbn [fst snd].
  destruct (fst p && negb (b_prev st)); cbn [filter is_click app];
    rewrite ?filter_app, ?filter_click_repeatH, ?filter_click_repeatP; reflexivity.
Qed.

Lemma clicks_pass_none st p : clicks (snd (b_pass None st p)) = 0.
Proof.
  unfold b_pass, b_poll, clicks. cbn [fst snd filter is_click app].
  rewrite filter_click_repeatP. reflexivity.
Qed.

Lemma clicks_run n st ps :
  map clicks (b_run (Some n) st ps) = map b2n (edges (b_prev st) (map fst ps)).
Proof.
  revert st. induction ps as [|p r IH]; intro st; cbn [b_run map edges]; [reflexivity|].
  rewrite clicks_pass, IH, pass_state. reflexivity.
Qed.

Lemma clicks_run_none st ps :
  map clicks (b_run None st ps) = map (fun _ => 0) ps.
Proof.
  revert st. induction ps as [|p r IH]; intro st; cbn [b_run map]; [reflexivity|].
  rewrite clicks_pass_none, IH. reflexivity.
Qed.

Lemma clicks_dev_before n s0 ps :
  map clicks (dev_run BeforeLoop (Some n) s0 ps) = map b2n (edges s0 (map fst ps)).
Proof. unfold dev_run. rewrite clicks_run. reflexivity. Qed.

Lemma clicks_dev_looptop n s0 ps :
  map clicks (dev_run LoopTop (Some n) s0 ps) = map b2n (edges false (map fst ps)).
Proof. unfold dev_run. rewrite clicks_run. reflexivity. Qed.

(* exactly one digitalRead per pass, and it is that pass's sample *)
Lemma reads_pass h st p : reads (snd (b_pass h st p)) = [fst p].
Proof.
  unfold b_pass, b_poll, reads. cbn [fst snd flat_map app].
  rewrite flat_map_app.
  rewrite (flat_map_repeat_nil _ (BPrint _)) by reflexivity.
  destruct h as [n|]; [destruct (fst p && negb (b_prev st))|]; cbn [flat_map app];
    rewrite ?(flat_map_repeat_nil _ (BPrintH _)) by reflexivity; reflexivity.
Qed.

Lemma reads_run h st ps : map reads (b_run h st ps) = map (fun p => [fst p]) ps.
Proof.
  revert st. induction ps as [|p r IH]; intro st; cbn [b_run map]; [reflexivity|].
  rewrite reads_pass, IH. reflexivity.
Qed.

Lemma one_sample_per_pass pl h s0 ps :
  map reads (dev_run pl h s0 ps) = map (fun p => [fst p]) ps.
Proof. apply reads_run. Qed.

(* every is_pressed() of the loop body returns the sample of its pass *)
Lemma body_values_pass h st p :
  body_values (snd (b_pass h st p)) = repeat (fst p) (snd p).
Proof.
  unfold b_pass, b_poll, body_values. cbn [fst snd flat_map app b_is_pressed b_value].
  rewrite flat_map_app.
  rewrite (flat_map_repeat_one _ (BPrint (fst p)) (fst p)) by reflexivity.
  destruct h as [n|]; [destruct (fst p && negb (b_prev st))|]; cbn [flat_map app];
    rewrite ?(flat_map_repeat_nil _ (BPrintH _)) by reflexivity; reflexivity.
Qed.

Lemma body_values_run h st ps :
  map body_values (b_run h st ps) = map (fun p => repeat (fst p) (snd p)) ps.
Proof.
  revert st. induction ps as [|p r IH]; intro st; cbn [b_run map]; [reflexivity|].
  rewrite body_values_pass, IH. reflexivity.
Qed.

Lemma sample_stable pl h s0 ps :
  map body_values (dev_run pl h s0 ps) = map (fun p => repeat (fst p) (snd p)) ps.
Proof. apply body_values_run. Qed.

(* is_pressed() inside the handler: the value of the *previous* sample *)
Lemma handler_values_pass h st p :
  handler_values (snd (b_pass h st p)) =
  if fst p && negb (b_prev st) then repeat (b_value st) (hcalls h) else [].
Proof.
  unfold b_pass, b_poll, handler_values. cbn [fst snd flat_map app b_is_pressed].
  rewrite flat_map_app.
  rewrite (flat_map_repeat_nil _ (BPrint _)) by reflexivity.
  destruct h as [n|]; cbn [hcalls].
  - destruct (fst p && negb (b_prev st)); cbn [flat_map app]; [|reflexivity].
    rewrite (flat_map_repeat_one _ (BPrintH (b_value st)) (b_value st)) by reflexivity.
    rewrite app_nil_r. reflexivity.
  - cbn. destruct (fst p && negb (b_prev st)); reflexivity.
Qed.

Lemma handler_values_run_nocall h st ps :
  hcalls h = 0 -> map handler_values (b_run h st ps) = map (fun _ => []) ps.
Proof.
  intro H0. revert st. induction ps as [|p r IH]; intro st; cbn [b_run map]; [reflexivity|].
  rewrite handler_values_pass, IH, H0. destruct (fst p && negb (b_prev st)); reflexivity.
Qed.

Lemma sample_stable_partial pl h s0 ps :
  hcalls h = 0 -> map handler_values (dev_run pl h s0 ps) = map (fun _ => []) ps.
Proof. apply handler_values_run_nocall. Qed.

(* with value = prev (true after setup and after every pass) a handler evaluation always
   returns 0 although the sample of its pass is 1 *)
Lemma handler_values_run_stale h st ps :
  b_value st = b_prev st ->
  Forall2 (fun p evs => forall v, In v (handler_values evs) -> v = false /\ fst p = true)
          ps (b_run h st ps).
Proof.
  revert st. induction ps as [|p r IH]; intros st Hinv; cbn [b_run]; constructor.
  - intros v Hin. rewrite handler_values_pass in Hin.
    destruct (fst p) eqn:Ep; destruct (b_prev st) eqn:Epr; cbn in Hin; try contradiction.
    apply repeat_spec in Hin. split; congruence.
  - apply IH. reflexivity.
Qed.

Lemma handler_sees_previous pl h s0 ps :
  Forall2 (fun p evs => forall v, In v (handler_values evs) -> v = false /\ fst p = true)
          ps (dev_run pl h s0 ps).
Proof. apply handler_values_run_stale. destruct pl; reflexivity. Qed.

(* host Button *)
Lemma host_clicks was s : map fst (h_run true was s) = edges was s.
Proof.
  revert was. induction s as [|x r IH]; intro was; cbn [h_run map edges]; [reflexivity|].
  cbn [h_is_pressed fst snd]. rewrite IH. reflexivity.
Qed.

Lemma host_values cb was s : map snd (h_run cb was s) = s.
Proof.
  revert was. induction s as [|x r IH]; intro was; cbn [h_run map]; [reflexivity|].
  cbn [h_is_pressed fst snd]. rewrite IH. reflexivity.
Qed.

Lemma host_agrees n s0 ps :
  s0 = false ->
  map clicks (dev_run BeforeLoop (Some n) s0 ps) =
  map (fun r => b2n (fst r)) (host_run true (map fst ps)).
Proof.
  intros ->. rewrite clicks_dev_before. unfold host_run.
  rewrite <- (host_clicks false (map fst ps)), map_map. reflexivity.
Qed.

Lemma host_agrees_looptop n s0 ps :
  map clicks (dev_run LoopTop (Some n) s0 ps) =
  map (fun r => b2n (fst r)) (host_run true (map fst ps)).
Proof.
  rewrite clicks_dev_looptop. unfold host_run.
  rewrite <- (host_clicks false (map fst ps)), map_map. reflexivity.
Qed.

(* start-up *)
Lemma no_startup_click h s0 ps :
  clicks (snd (b_setup BeforeLoop s0)) = 0 /\
  (s0 = true -> forall evs, hd_error (dev_run BeforeLoop h s0 ps) = Some evs -> clicks evs = 0).
Proof.
  split; [reflexivity|]. intros -> evs. unfold dev_run. cbn [b_setup fst]. destruct ps as [|p r]; cbn [b_run hd_error]; [discriminate|].
  intro H. assert (E : snd (b_pass h {| b_prev := true; b_value := true |} p) = evs) by congruence.
  rewrite <- E. clear H E. destruct h as [n|].
  - rewrite clicks_pass. cbn. rewrite andb_false_r. reflexivity.
  - apply clicks_pass_none.
Qed.

Lemma edges_held prev s : prev = true -> forallb (fun x => x) s = true -> map b2n (edges prev s) = map (fun _ => 0) s.
Proof.
  revert prev. induction s as [|x r IH]; intros prev -> Hall; cbn [edges map]; [reflexivity|].
  cbn in Hall. apply andb_true_iff in Hall as [-> Hr]. cbn. f_equal. apply IH; auto.
Qed.

Lemma no_click_while_held h s0 ps :
  s0 = true -> forallb (fun x => x) (map fst ps) = true ->
  map clicks (dev_run BeforeLoop h s0 ps) = map (fun _ => 0) ps.
Proof.
  intros Hs Hall. destruct h as [n|].
  - rewrite clicks_dev_before, (edges_held _ _ Hs Hall), map_map. reflexivity.
  - apply clicks_run_none.
Qed.

Lemma looptop_partial n s0 p ps :
  fst p = false ->
  map clicks (dev_run LoopTop (Some n) s0 (p :: ps)) = map b2n (false :: edges (fst p) (map fst ps)).
Proof. intro Hp. rewrite clicks_dev_looptop. cbn [map edges]. rewrite Hp. reflexivity. Qed.

(* concrete witnesses of the two refuted clauses *)
Lemma sample_stable_handler_refuted :
  exists (h : option nat) (s0 : bool) (ps : list (bool * nat)) (k : nat) (evs : list bev) (v sample : bool),
    nth_error (dev_run BeforeLoop h s0 ps) k = Some evs /\
    nth_error (map fst ps) k = Some sample /\
    In v (handler_values evs) /\ v <> sample.
Proof.
  exists (Some 1), false, [(true, 1)], 0,
         [BRead true; BClick; BPrintH false; BPrint true], false, true.
  vm_compute. repeat split; auto. discriminate.
Qed.

Lemma no_startup_click_looptop_refuted :
  exists (h : option nat) (s0 : bool) (ps : list (bool * nat)) (evs : list bev),
    s0 = true /\ forallb (fun x => x) (map fst ps) = true /\
    hd_error (dev_run LoopTop h s0 ps) = Some evs /\ clicks evs = 1.
Proof.
  exists (Some 0), true, [(true, 0); (true, 0)], [BRead true; BClick].
  vm_compute. auto.
Qed.

(* ====================================================================== *)
(* Potentiometer                                                           *)
(* ====================================================================== *)

Lemma pot_fresh pin input k n :
  pot_reads pin input k n =
  (map input (seq k n), (k + n)%nat, map (fun i => PAR pin (input i)) (seq k n)).
Proof.
  revert k. induction n as [|n IH]; intro k; cbn [pot_reads seq map].
  - rewrite Nat.add_0_r. reflexivity.
  - cbn [pot_read p_next p_val p_evs]. rewrite IH. cbn [app]. rewrite Nat.add_succ_r. reflexivity.
Qed.

(* ====================================================================== *)
(* Ultrasonic helper                                                       *)
(* ====================================================================== *)
Open Scope Z_scope.

Lemma pulse_result_id e : 0 < e <= 30000 -> pulse_result e = e.
Proof.
  intros [H1 H2]. unfold pulse_result, pulse_timeout.
  destruct (e <? 0) eqn:E1; [apply Z.ltb_lt in E1; lia|].
  destruct (30000 <? e) eqn:E2; [apply Z.ltb_lt in E2; lia|]. reflexivity.
Qed.

Lemma pulse_result_range e : 0 <= pulse_result e <= 30000.
Proof.
  unfold pulse_result, pulse_timeout.
  destruct (e <? 0) eqn:E1; cbn [orb]; [lia|].
  destruct (30000 <? e) eqn:E2; [lia|].
  apply Z.ltb_ge in E1. apply Z.ltb_ge in E2. lia.
Qed.

Lemma pulse_cost_nonneg r : 0 <= pulse_cost r.
Proof.
  unfold pulse_cost, pulse_timeout. destruct (0 <? r) eqn:E; [apply Z.ltb_lt in E|]; lia.
Qed.

Lemma dist_formula d : (dist_of d == inject_Z d * (343 # 1) / (20000 # 1))%Q.
Proof. unfold dist_of. field. Qed.

Lemma u_loop_S k drift echo st c np :
  u_loop (S k) drift echo st c np =
  let a := u_attempt drift echo st c np in
  if 0 <? pulse_result (echo np) then
    {| r_val := dist_of (pulse_result (echo np));
       r_st := {| last_trig := a_stamp a; last_dist := dist_of (pulse_result (echo np)); has_dist := true |};
       r_clk := a_clk a; r_np := S np; r_evs := attempt_events a |}
  else
    let r := u_loop k drift echo
               {| last_trig := a_stamp a; last_dist := last_dist st; has_dist := has_dist st |}
               (a_clk a) (S np) in
    {| r_val := r_val r; r_st := r_st r; r_clk := r_clk r; r_np := r_np r;
       r_evs := attempt_events a ++ r_evs r |}.
Proof. reflexivity. Qed.

(* ---- distance formula: the first attempt that does not time out decides *)
Lemma u_loop_success drift echo n : forall st c np j,
  (j < n)%nat ->
  (forall i, (i < j)%nat -> timed_out echo (np + i)) ->
  0 < pulse_result (echo (np + j)%nat) ->
  r_val (u_loop n drift echo st c np) = dist_of (pulse_result (echo (np + j)%nat)).
Proof.
  induction n as [|k IH]; intros st c np j Hj Hto Hgood; [lia|].
  rewrite u_loop_S. cbv zeta.
  destruct j as [|j'].
  - rewrite Nat.add_0_r in *. apply Z.ltb_lt in Hgood. rewrite Hgood. reflexivity.
  - assert (H0 : pulse_result (echo np) = 0).
    { specialize (Hto 0%nat ltac:(lia)). rewrite Nat.add_0_r in Hto. exact Hto. }
    rewrite H0. cbn [Z.ltb Z.compare r_val].
    rewrite <- Nat.add_succ_comm in *.
    apply IH; [lia| |exact Hgood].
    intros i Hi. specialize (Hto (S i) ltac:(lia)). rewrite <- Nat.add_succ_comm in Hto. exact Hto.
Qed.

Lemma distance_formula drift echo st c np j e :
  (j < 3)%nat ->
  (forall i, (i < j)%nat -> timed_out echo (np + i)) ->
  echo (np + j)%nat = e -> 0 < e <= 30000 ->
  (r_val (u_measure drift echo st c np) == inject_Z e * (343 # 1) / (20000 # 1))%Q.
Proof.
  intros Hj Hto He Hr. unfold u_measure, max_attempts.
  rewrite (u_loop_success drift echo 3 st c np j Hj Hto).
  - rewrite He, pulse_result_id by exact Hr. apply dist_formula.
  - rewrite He, pulse_result_id by exact Hr. lia.
Qed.

(* ---- attempts *)
Lemma trigs_app l1 l2 : trigs (l1 ++ l2) = trigs l1 ++ trigs l2.
Proof. unfold trigs. apply flat_map_app. Qed.

Lemma trigs_attempt a : trigs (attempt_events a) = [(a_t a, a_dur a, a_stamp a)].
Proof. unfold attempt_events, trigs. destruct (a_delay a); reflexivity. Qed.

Lemma a_dur_eq drift echo st c np : a_dur (u_attempt drift echo st c np) = pulse_result (echo np).
Proof. reflexivity. Qed.

Lemma u_loop_count drift echo n : forall st c np,
  (length (trigs (r_evs (u_loop n drift echo st c np))) <= n)%nat /\
  ((0 < n)%nat -> (1 <= length (trigs (r_evs (u_loop n drift echo st c np))))%nat) /\
  r_np (u_loop n drift echo st c np) = (np + length (trigs (r_evs (u_loop n drift echo st c np))))%nat.
Proof.
  induction n as [|k IH]; intros st c np.
  - cbn. repeat split; lia.
  - rewrite u_loop_S. cbv zeta. destruct (0 <? pulse_result (echo np)).
    + cbn [r_evs r_np]. rewrite trigs_attempt. cbn [length]. repeat split; lia.
    + cbn [r_evs r_np]. rewrite trigs_app, trigs_attempt. cbn [app length].
      match goal with |- context [u_loop k drift echo ?s ?cc ?n] => destruct (IH s cc n) as (H1 & H2 & H3) end.
      rewrite H3. repeat split; lia.
Qed.

Lemma attempts_le_3 drift echo st c np :
  (1 <= length (trigs (r_evs (u_measure drift echo st c np))) <= 3)%nat.
Proof.
  destruct (u_loop_count drift echo 3 st c np) as (H1 & H2 & _).
  unfold u_measure, max_attempts. split; [apply H2; lia|exact H1].
Qed.

Lemma pulses_consumed drift echo st c np :
  r_np (u_measure drift echo st c np) =
  (np + length (trigs (r_evs (u_measure drift echo st c np))))%nat.
Proof. apply (u_loop_count drift echo 3 st c np). Qed.

(* ---- fallback *)
Lemma u_loop_timeouts drift echo n : forall st c np,
  (forall i, (i < n)%nat -> timed_out echo (np + i)) ->
  r_val (u_loop n drift echo st c np) = (if has_dist st then last_dist st else 400 # 1) /\
  length (trigs (r_evs (u_loop n drift echo st c np))) = n.
Proof.
  induction n as [|k IH]; intros st c np Hto; [cbn; auto|].
  rewrite u_loop_S. cbv zeta.
  assert (H0 : pulse_result (echo np) = 0).
  { specialize (Hto 0%nat ltac:(lia)). rewrite Nat.add_0_r in Hto. exact Hto. }
  rewrite H0. cbn [Z.ltb Z.compare r_val r_evs].
  rewrite trigs_app, trigs_attempt. cbn [app length].
  match goal with |- context [u_loop k drift echo ?s ?cc ?n] => destruct (IH s cc n) as (H1 & H2) end.
  - intros i Hi. specialize (Hto (S i) ltac:(lia)). rewrite <- Nat.add_succ_comm in Hto. exact Hto.
  - rewrite H1, H2. cbn [has_dist last_dist]. auto.
Qed.

Lemma fallback_call drift echo st c np :
  timed_out echo np -> timed_out echo (S np) -> timed_out echo (S (S np)) ->
  r_val (u_measure drift echo st c np) = (if has_dist st then last_dist st else 400 # 1) /\
  length (trigs (r_evs (u_measure drift echo st c np))) = 3%nat.
Proof.
  intros H0 H1 H2. apply u_loop_timeouts. intros i Hi.
  destruct i as [|[|[|i]]]; try lia; rewrite ?Nat.add_0_r, ?Nat.add_1_r, ?Nat.add_succ_r, ?Nat.add_0_r; assumption.
Qed.

Definition good_state (echo : nat -> Z) (np : nat) (st : ustate) : Prop :=
  match last_good echo np with
  | Some e => has_dist st = true /\ last_dist st = dist_of e
  | None => has_dist st = false
  end.

Lemma u_loop_good drift echo n : forall st c np,
  good_state echo np st ->
  good_state echo (r_np (u_loop n drift echo st c np)) (r_st (u_loop n drift echo st c np)).
Proof.
  induction n as [|k IH]; intros st c np Hg; [exact Hg|].
  rewrite u_loop_S. cbv zeta. destruct (0 <? pulse_result (echo np)) eqn:E.
  - cbn [r_np r_st]. unfold good_state. cbn [last_good]. rewrite E. cbn. auto.
  - cbn [r_np r_st]. apply IH. unfold good_state in *. cbn [last_good]. rewrite E. exact Hg.
Qed.

Lemma u_calls_fallback drift echo : forall gs st c np,
  good_state echo np st ->
  Forall (fun x =>
            timed_out echo (fst x) -> timed_out echo (S (fst x)) -> timed_out echo (S (S (fst x))) ->
            (r_val (snd x) ==
             match last_good echo (fst x) with
             | Some e => inject_Z e * (343 # 1) / (20000 # 1)
             | None => 400 # 1
             end)%Q)
         (u_calls drift echo st c np gs).
Proof.
  induction gs as [|g r IH]; intros st c np Hg; cbn [u_calls]; constructor.
  - cbn [fst snd]. intros H0 H1 H2.
    destruct (fallback_call drift echo st (pass_gap c g) np H0 H1 H2) as [Hv _]. rewrite Hv.
    unfold good_state in Hg. destruct (last_good echo np) as [e|].
    + destruct Hg as [Hh Hl]. rewrite Hh, Hl. apply dist_formula.
    + rewrite Hg. reflexivity.
  - apply IH. apply u_loop_good. exact Hg.
Qed.

Lemma fallback_history drift echo c0 gs :
  Forall (fun x =>
            timed_out echo (fst x) -> timed_out echo (S (fst x)) -> timed_out echo (S (S (fst x))) ->
            (r_val (snd x) ==
             match last_good echo (fst x) with
             | Some e => inject_Z e * (343 # 1) / (20000 # 1)
             | None => 400 # 1
             end)%Q)
         (u_calls drift echo u_init c0 0 gs).
Proof. apply u_calls_fallback. reflexivity. Qed.

(* ---- back-off *)
Definition trig := (Z * Z * Z)%type.

Fixpoint chain (prev : option trig) (l : list trig) : Prop :=
  match l with
  | [] => True
  | b :: r => match prev with Some a => spaced a b | None => True end /\ chain (Some b) r
  end.

Definition final (prev : option trig) (l : list trig) : option trig :=
  fold_left (fun _ x => Some x) l prev.

Lemma chain_app l1 : forall prev l2,
  chain prev l1 -> chain (final prev l1) l2 -> chain prev (l1 ++ l2).
Proof.
  induction l1 as [|b r IH]; intros prev l2 H1 H2; cbn in *; [exact H2|].
  destruct H1 as [Ha Hb]. split; [exact Ha|]. apply IH; assumption.
Qed.

Lemma final_app l1 : forall prev l2, final prev (l1 ++ l2) = final (final prev l1) l2.
Proof. intros prev l2. unfold final. apply fold_left_app. Qed.

Lemma all_spaced_cons r : forall a, chain (Some a) r -> all_spaced (a :: r).
Proof.
  induction r as [|b r' IH]; intros a H; [exact I|].
  destruct H as [Hab Hr]. split; [exact Hab|]. apply IH. exact Hr.
Qed.

Lemma chain_all_spaced l : chain None l -> all_spaced l.
Proof. destruct l as [|a r]; [intros _; exact I|]. intros [_ H]. apply all_spaced_cons. exact H. Qed.

Definition inv (prev : option trig) (st : ustate) (c : clock) : Prop :=
  0 <= last_trig st <= millis c /\
  match prev with
  | Some (t1, _, m1) => m1 = last_trig st /\ t1 / 1000 <= m1
  | None => True
  end.

Lemma attempt_step drift echo prev st c np :
  (forall k, 0 <= drift k) -> inv prev st c ->
  let a := u_attempt drift echo st c np in
  let b := (a_t a, a_dur a, a_stamp a) in
  match prev with Some p => spaced p b | None => True end /\
  forall ld hd, inv (Some b) {| last_trig := a_stamp a; last_dist := ld; has_dist := hd |} (a_clk a).
Proof.
  intros Hd [Hl Hp]. cbv zeta.
  pose proof (pulse_cost_nonneg (pulse_result (echo np))) as Hc.
  pose proof (Hd (ndelay c)) as Hdk.
  unfold u_attempt, after_backoff, backoff_delay, inv, spaced, millis, tick_us, do_delay, min_interval in *.
  cbn [a_t a_dur a_stamp a_clk now_us ndelay last_trig].
  destruct (last_trig st =? 0) eqn:E0; [apply Z.eqb_eq in E0|apply Z.eqb_neq in E0];
    [|destruct (now_us c / 1000 - last_trig st <? 60) eqn:E1; [apply Z.ltb_lt in E1|apply Z.ltb_ge in E1]];
    cbn [now_us ndelay];
    set (cost := pulse_cost (pulse_result (echo np))) in *; clearbody cost;
    set (dk := drift (ndelay c)) in *; clearbody dk;
    set (last := last_trig st) in *; clearbody last;
    set (now := now_us c) in *; clearbody now;
    (split;
     [ destruct prev as [[[t1 d1] m1]|]; [|exact I]; destruct Hp as [-> Hp]; intro Hne;
       try contradiction; Z.div_mod_to_equations; lia
     | intros _ _; split; [|split; [reflexivity|]]; Z.div_mod_to_equations; lia ]).
Qed.

Lemma u_loop_chain drift echo (Hd : forall k, 0 <= drift k) n : forall prev st c np,
  inv prev st c ->
  chain prev (trigs (r_evs (u_loop n drift echo st c np))) /\
  inv (final prev (trigs (r_evs (u_loop n drift echo st c np))))
      (r_st (u_loop n drift echo st c np)) (r_clk (u_loop n drift echo st c np)).
Proof.
  induction n as [|k IH]; intros prev st c np Hi.
  - cbn. split; [exact I|exact Hi].
  - rewrite u_loop_S. cbv zeta.
    destruct (attempt_step drift echo prev st c np Hd Hi) as [Hs Hnext].
    destruct (0 <? pulse_result (echo np)).
    + cbn [r_evs r_st r_clk]. rewrite trigs_attempt. cbn [chain final fold_left].
      split; [split; [exact Hs|exact I]|apply Hnext].
    + cbn [r_evs r_st r_clk]. rewrite trigs_app, trigs_attempt. cbn [app chain final fold_left].
      match goal with |- context [u_loop k drift echo ?s ?cc ?n] =>
        destruct (IH (Some (a_t (u_attempt drift echo st c np), a_dur (u_attempt drift echo st c np),
                            a_stamp (u_attempt drift echo st c np))) s cc n (Hnext _ _)) as [H1 H2] end.
      split; [split; [exact Hs|exact H1]|exact H2].
Qed.

Lemma inv_gap prev st c g : 0 <= g_us g -> inv prev st c -> inv prev st (pass_gap c g).
Proof.
  intros Hg [Hl Hp]. split; [|exact Hp]. unfold millis, pass_gap in *. cbn [now_us].
  Z.div_mod_to_equations; lia.
Qed.

Lemma u_calls_chain drift echo (Hd : forall k, 0 <= drift k) : forall gs prev st c np,
  inv prev st c -> Forall (fun g => 0 <= g_us g) gs ->
  chain prev (trigs (history_events (u_calls drift echo st c np gs))).
Proof.
  induction gs as [|g r IH]; intros prev st c np Hi Hg; [exact I|].
  inversion Hg as [|g' r' Hg0 Hgr]; subst.
  cbn [u_calls history_events flat_map snd]. rewrite trigs_app.
  destruct (u_loop_chain drift echo Hd 3 prev st (pass_gap c g) np (inv_gap _ _ _ _ Hg0 Hi)) as [H1 H2].
  apply chain_app; [exact H1|].
  apply IH; [exact H2|exact Hgr].
Qed.

Lemma backoff_history drift echo c0 gs :
  (forall k, 0 <= drift k) -> 0 <= now_us c0 -> Forall (fun g => 0 <= g_us g) gs ->
  all_spaced (trigs (history_events (u_calls drift echo u_init c0 0 gs))).
Proof.
  intros Hd Hc Hg. apply chain_all_spaced. apply u_calls_chain; [exact Hd| |exact Hg].
  split; [|exact I]. cbn [u_init last_trig]. unfold millis. Z.div_mod_to_equations; lia.
Qed.

(* the stamp stored after a trigger is never before the trigger (so "stamp <> 0" is the code's
   own notion of "the millisecond clock is running") *)
Lemma stamp_after_trigger drift echo st c np :
  0 <= now_us c -> (forall k, 0 <= drift k) -> 0 <= last_trig st <= millis c ->
  let a := u_attempt drift echo st c np in a_t a / 1000 <= a_stamp a.
Proof.
  intros Hc Hd Hl.
  destruct (attempt_step drift echo None st c np Hd (conj Hl I)) as [_ H].
  destruct (H (0 # 1)%Q false) as [_ [_ H2]]. exact H2.
Qed.
