(* Proofs for C15 (button edges, potentiometer reads, ultrasonic ranging). *)
From Coq Require Import ZArith QArith List Bool Arith Lia Lqa.
From RV Require Import Device.DButton Device.DPot Device.DUltra.
Import ListNotations.
Open Scope nat_scope.

(* ====================================================================== *)
(* Button                                                                  *)
(* ====================================================================== *)

Lemma filter_click_repeatH v n : filter is_click (repeat (BPrintH v) n) = [].
Proof. induction n as [|n IH]; cbn; auto. Qed.

Lemma filter_click_repeatP v n : filter is_click (repeat (BPrint v) n) = [].
Proof. induction n as [|n IH]; cbn; auto. Qed.

Lemma flat_map_repeat_nil {A B} (f : A -> list B) (x : A) n :
  f x = [] -> flat_map f (repeat x n) = [].
Proof. intro H. induction n as [|n IH]; cbn; auto. rewrite H, IH. reflexivity. Qed.

Lemma flat_map_repeat_one {A B} (f : A -> list B) (x : A) (y : B) n :
  f x = [y] -> flat_map f (repeat x n) = repeat y n.
Proof. intro H. induction n as [|n IH]; cbn; auto. rewrite H, IH. reflexivity. Qed.

Lemma pass_state h st p :
  fst (b_pass h st p) = {| b_prev := fst p; b_value := fst p |}.
Proof. reflexivity. Qed.

Lemma clicks_pass n st p :
  clicks (snd (b_pass (Some n) st p)) = b2n (fst p && negb (b_prev st)).
Proof.
  unfold b_pass, b_poll, clicks. cbv zeta. cbn [fst snd b_prev b_value b_is_pressed].
  destruct (fst p && negb (b_prev st)); cbn [filter is_click app];
    rewrite ?filter_app, ?filter_click_repeatH, ?filter_click_repeatP; reflexivity.
Qed.

Lemma clicks_pass_none st p : clicks (snd (b_pass None st p)) = 0.
Proof.
  unfold b_pass, b_poll, clicks. cbv zeta. cbn [fst snd filter is_click app].
  rewrite filter_click_repeatP. reflexivity.
Qed.

Lemma clicks_run n st ps :
  map clicks (b_run (Some n) st ps) = map b2n (edges (b_prev st) (map fst ps)).
Proof.
  revert st. induction ps as [|p r IH]; intro st; cbn [b_run map edges]; [reflexivity|].
  rewrite clicks_pass, IH, pass_state. reflexivity.
Qed.

Lemma clicks_run_none st ps :
  map clicks (b_run None st ps) = map (fun _ => 0) ps.
Proof.
  revert st. induction ps as [|p r IH]; intro st; cbn [b_run map]; [reflexivity|].
  rewrite clicks_pass_none, IH. reflexivity.
Qed.

(* after setup() the previous sample is the setup sample, wherever the button is declared *)
Lemma setup_state pl s0 : fst (b_setup pl s0) = {| b_prev := s0; b_value := s0 |}.
Proof. destruct pl; reflexivity. Qed.

Lemma clicks_dev pl n s0 ps :
  map clicks (dev_run pl (Some n) s0 ps) = map b2n (edges s0 (map fst ps)).
Proof. unfold dev_run. rewrite clicks_run, setup_state. reflexivity. Qed.

(* exactly one digitalRead per pass, and it is that pass's sample *)
Lemma reads_pass h st p : reads (snd (b_pass h st p)) = [fst p].
Proof.
  unfold b_pass, b_poll, reads. cbv zeta. cbn [fst snd flat_map app b_prev b_value b_is_pressed].
  rewrite flat_map_app.
  rewrite (flat_map_repeat_nil _ (BPrint _)) by reflexivity.
  destruct h as [n|]; [destruct (fst p && negb (b_prev st))|]; cbn [flat_map app];
    rewrite ?(flat_map_repeat_nil _ (BPrintH _)) by reflexivity; reflexivity.
Qed.

Lemma reads_run h st ps : map reads (b_run h st ps) = map (fun p => [fst p]) ps.
Proof.
  revert st. induction ps as [|p r IH]; intro st; cbn [b_run map]; [reflexivity|].
  rewrite reads_pass, IH. reflexivity.
Qed.

Lemma one_sample_per_pass pl h s0 ps :
  map reads (dev_run pl h s0 ps) = map (fun p => [fst p]) ps.
Proof. apply reads_run. Qed.

(* setup() takes exactly one sample and never enters the handler *)
Lemma setup_events pl s0 : snd (b_setup pl s0) = [BRead s0].
Proof. destruct pl; reflexivity. Qed.

(* every is_pressed() of the loop body returns the sample of its pass *)
Lemma body_values_pass h st p :
  body_values (snd (b_pass h st p)) = repeat (fst p) (snd p).
Proof.
  unfold b_pass, b_poll, body_values. cbv zeta. cbn [fst snd flat_map app b_is_pressed b_value b_prev].
  rewrite flat_map_app.
  rewrite (flat_map_repeat_one _ (BPrint (fst p)) (fst p)) by reflexivity.
  destruct h as [n|]; [destruct (fst p && negb (b_prev st))|]; cbn [flat_map app];
    rewrite ?(flat_map_repeat_nil _ (BPrintH _)) by reflexivity; reflexivity.
Qed.

Lemma body_values_run h st ps :
  map body_values (b_run h st ps) = map (fun p => repeat (fst p) (snd p)) ps.
Proof.
  revert st. induction ps as [|p r IH]; intro st; cbn [b_run map]; [reflexivity|].
  rewrite body_values_pass, IH. reflexivity.
Qed.

Lemma sample_stable pl h s0 ps :
  map body_values (dev_run pl h s0 ps) = map (fun p => repeat (fst p) (snd p)) ps.
Proof. apply body_values_run. Qed.

(* is_pressed() inside the handler: the cached value has already been updated, it is the sample of
   this pass - once per evaluation, in the passes in which the handler runs *)
Lemma handler_values_pass h st p :
  handler_values (snd (b_pass h st p)) =
  if fst p && negb (b_prev st) then repeat (fst p) (hcalls h) else [].
Proof.
  unfold b_pass, b_poll, handler_values. cbv zeta. cbn [fst snd flat_map app b_is_pressed b_value b_prev].
  rewrite flat_map_app.
  rewrite (flat_map_repeat_nil _ (BPrint _)) by reflexivity.
  destruct h as [n|]; cbn [hcalls].
  - destruct (fst p && negb (b_prev st)); cbn [flat_map app]; [|reflexivity].
    rewrite (flat_map_repeat_one _ (BPrintH (fst p)) (fst p)) by reflexivity.
    rewrite app_nil_r. reflexivity.
  - cbn. destruct (fst p && negb (b_prev st)); reflexivity.
Qed.

Lemma handler_values_run h st ps :
  map handler_values (b_run h st ps) =
  map (fun e : bool => if e then repeat true (hcalls h) else []) (edges (b_prev st) (map fst ps)).
Proof.
  revert st. induction ps as [|p r IH]; intro st; cbn [b_run map edges]; [reflexivity|].
  rewrite handler_values_pass, IH, pass_state. cbn [b_prev]. f_equal.
  destruct (fst p); [|reflexivity]. reflexivity.
Qed.

Lemma handler_values_exact pl h s0 ps :
  map handler_values (dev_run pl h s0 ps) =
  map (fun e : bool => if e then repeat true (hcalls h) else []) (edges s0 (map fst ps)).
Proof. unfold dev_run. rewrite handler_values_run, setup_state. reflexivity. Qed.

Lemma handler_values_run_current h st ps :
  Forall2 (fun p evs => forall v, In v (handler_values evs) -> v = fst p) ps (b_run h st ps).
Proof.
  revert st. induction ps as [|p r IH]; intro st; cbn [b_run]; constructor; [|apply IH].
  intros v Hin. rewrite handler_values_pass in Hin.
  destruct (fst p && negb (b_prev st)); [|contradiction].
  apply repeat_spec in Hin. exact Hin.
Qed.

Lemma nth_error_Forall2 {A B} (R : A -> B -> Prop) l1 l2 :
  Forall2 R l1 l2 -> forall k a b, nth_error l1 k = Some a -> nth_error l2 k = Some b -> R a b.
Proof.
  induction 1 as [|x y l1 l2 Hxy Hr IH]; intros k a b Ha Hb; destruct k as [|k]; cbn in *; try discriminate.
  - injection Ha as <-. injection Hb as <-. exact Hxy.
  - eapply IH; eassumption.
Qed.

(* the clause the firmware used to violate (is_pressed() inside the handler), positively: in every pass
   of every run, every value the handler reads is the sample of that pass *)
Lemma sample_stable_handler pl h s0 ps k evs v sample :
  nth_error (dev_run pl h s0 ps) k = Some evs ->
  nth_error (map fst ps) k = Some sample ->
  In v (handler_values evs) -> v = sample.
Proof.
  intros Hev Hs Hin.
  destruct (nth_error ps k) as [p|] eqn:Ep.
  - rewrite (map_nth_error fst k ps Ep) in Hs. injection Hs as <-.
    exact (nth_error_Forall2 _ _ _ (handler_values_run_current h (fst (b_setup pl s0)) ps) k p evs Ep Hev v Hin).
  - rewrite nth_error_map, Ep in Hs. discriminate.
Qed.

(* host Button *)
Lemma host_clicks was s : map fst (h_run true was s) = edges was s.
Proof.
  revert was. induction s as [|x r IH]; intro was; cbn [h_run map edges]; [reflexivity|].
  cbn [h_is_pressed fst snd]. rewrite IH. reflexivity.
Qed.

Lemma host_values cb was s : map snd (h_run cb was s) = s.
Proof.
  revert was. induction s as [|x r IH]; intro was; cbn [h_run map]; [reflexivity|].
  cbn [h_is_pressed fst snd]. rewrite IH. reflexivity.
Qed.

Lemma host_agrees pl n s0 ps :
  s0 = false ->
  map clicks (dev_run pl (Some n) s0 ps) =
  map (fun r => b2n (fst r)) (host_run true (map fst ps)).
Proof.
  intros ->. rewrite clicks_dev. unfold host_run.
  rewrite <- (host_clicks false (map fst ps)), map_map. reflexivity.
Qed.

(* start-up *)
Lemma no_startup_click pl h s0 ps :
  clicks (snd (b_setup pl s0)) = 0 /\
  (s0 = true -> forall evs, hd_error (dev_run pl h s0 ps) = Some evs -> clicks evs = 0).
Proof.
  split; [rewrite setup_events; reflexivity|]. intros -> evs. unfold dev_run. rewrite setup_state.
  destruct ps as [|p r]; cbn [b_run hd_error]; [discriminate|].
  intro H. assert (E : snd (b_pass h {| b_prev := true; b_value := true |} p) = evs) by congruence.
  rewrite <- E. clear H E. destruct h as [n|].
  - rewrite clicks_pass. cbn. rewrite andb_false_r. reflexivity.
  - apply clicks_pass_none.
Qed.

Lemma edges_held prev s : prev = true -> forallb (fun x => x) s = true -> map b2n (edges prev s) = map (fun _ => 0) s.
Proof.
  revert prev. induction s as [|x r IH]; intros prev -> Hall; cbn [edges map]; [reflexivity|].
  cbn in Hall. apply andb_true_iff in Hall as [-> Hr]. cbn. f_equal. apply IH; auto.
Qed.

Lemma no_click_while_held pl h s0 ps :
  s0 = true -> forallb (fun x => x) (map fst ps) = true ->
  map clicks (dev_run pl h s0 ps) = map (fun _ => 0) ps.
Proof.
  intros Hs Hall. destruct h as [n|].
  - rewrite clicks_dev, (edges_held _ _ Hs Hall), map_map. reflexivity.
  - apply clicks_run_none.
Qed.

(* ====================================================================== *)
(* Potentiometer                                                           *)
(* ====================================================================== *)

Lemma pot_fresh pin input k n :
  pot_reads pin input k n =
  (map input (seq k n), (k + n)%nat, map (fun i => PAR pin (input i)) (seq k n)).
Proof.
  revert k. induction n as [|n IH]; intro k; cbn [pot_reads seq map].
  - rewrite Nat.add_0_r. reflexivity.
  - cbn [pot_read p_next p_val p_evs]. rewrite IH. cbn [app]. rewrite Nat.add_succ_r. reflexivity.
Qed.

(* ====================================================================== *)
(* Ultrasonic helper                                                       *)
(* ====================================================================== *)
Open Scope Z_scope.

Lemma pulse_result_id e : 0 < e <= 30000 -> pulse_result e = e.
Proof.
  intros [H1 H2]. unfold pulse_result, pulse_timeout.
  destruct (e <? 0) eqn:E1; [apply Z.ltb_lt in E1; lia|].
  destruct (30000 <? e) eqn:E2; [apply Z.ltb_lt in E2; lia|]. reflexivity.
Qed.

Lemma pulse_result_range e : 0 <= pulse_result e <= 30000.
Proof.
  unfold pulse_result, pulse_timeout.
  destruct (e <? 0) eqn:E1; cbn [orb]; [lia|].
  destruct (30000 <? e) eqn:E2; [lia|].
  apply Z.ltb_ge in E1. apply Z.ltb_ge in E2. lia.
Qed.

Lemma pulse_cost_nonneg r : 0 <= pulse_cost r.
Proof.
  unfold pulse_cost, pulse_timeout. destruct (0 <? r) eqn:E; [apply Z.ltb_lt in E|]; lia.
Qed.

Lemma dist_formula d : (dist_of d == inject_Z d * (343 # 1) / (20000 # 1))%Q.
Proof. unfold dist_of. field. Qed.

Lemma u_loop_S W k drift echo st c np :
  u_loop W (S k) drift echo st c np =
  let a := u_attempt W drift echo st c np in
  if 0 <? pulse_result (echo np) then
    {| r_val := dist_of (pulse_result (echo np));
       r_st := {| last_trig := a_stamp a; has_trig := true; last_dist := dist_of (pulse_result (echo np)); has_dist := true |};
       r_clk := a_clk a; r_np := S np; r_evs := attempt_events a |}
  else
    let r := u_loop W k drift echo
               {| last_trig := a_stamp a; has_trig := true; last_dist := last_dist st; has_dist := has_dist st |}
               (a_clk a) (S np) in
    {| r_val := r_val r; r_st := r_st r; r_clk := r_clk r; r_np := r_np r;
       r_evs := attempt_events a ++ r_evs r |}.
Proof. reflexivity. Qed.

(* ---- distance formula: the first attempt that does not time out decides *)
Lemma u_loop_success W drift echo n : forall st c np j,
  (j < n)%nat ->
  (forall i, (i < j)%nat -> timed_out echo (np + i)) ->
  0 < pulse_result (echo (np + j)%nat) ->
  r_val (u_loop W n drift echo st c np) = dist_of (pulse_result (echo (np + j)%nat)).
Proof.
  induction n as [|k IH]; intros st c np j Hj Hto Hgood; [lia|].
  rewrite u_loop_S. cbv zeta.
  destruct j as [|j'].
  - rewrite Nat.add_0_r in *. apply Z.ltb_lt in Hgood. rewrite Hgood. reflexivity.
  - assert (H0 : pulse_result (echo np) = 0).
    { specialize (Hto 0%nat ltac:(lia)). rewrite Nat.add_0_r in Hto. exact Hto. }
    rewrite H0. cbn [Z.ltb Z.compare r_val].
    rewrite <- Nat.add_succ_comm in *.
    apply IH; [lia| |exact Hgood].
    intros i Hi. specialize (Hto (S i) ltac:(lia)). rewrite <- Nat.add_succ_comm in Hto. exact Hto.
Qed.

Lemma distance_formula W drift echo st c np j e :
  (j < 3)%nat ->
  (forall i, (i < j)%nat -> timed_out echo (np + i)) ->
  echo (np + j)%nat = e -> 0 < e <= 30000 ->
  (r_val (u_measure W drift echo st c np) == inject_Z e * (343 # 1) / (20000 # 1))%Q.
Proof.
  intros Hj Hto He Hr. unfold u_measure, max_attempts.
  rewrite (u_loop_success W drift echo 3 st c np j Hj Hto).
  - rewrite He, pulse_result_id by exact Hr. apply dist_formula.
  - rewrite He, pulse_result_id by exact Hr. lia.
Qed.

(* ---- attempts *)
Lemma trigs_app l1 l2 : trigs (l1 ++ l2) = trigs l1 ++ trigs l2.
Proof. unfold trigs. apply flat_map_app. Qed.

Lemma trigs_attempt a : trigs (attempt_events a) = [(a_t a, a_dur a, a_stamp a)].
Proof. unfold attempt_events, trigs. destruct (a_delay a); reflexivity. Qed.

Lemma a_dur_eq W drift echo st c np : a_dur (u_attempt W drift echo st c np) = pulse_result (echo np).
Proof. reflexivity. Qed.

Lemma u_loop_count W drift echo n : forall st c np,
  (length (trigs (r_evs (u_loop W n drift echo st c np))) <= n)%nat /\
  ((0 < n)%nat -> (1 <= length (trigs (r_evs (u_loop W n drift echo st c np))))%nat) /\
  r_np (u_loop W n drift echo st c np) = (np + length (trigs (r_evs (u_loop W n drift echo st c np))))%nat.
Proof.
  induction n as [|k IH]; intros st c np.
  - cbn. repeat split; lia.
  - rewrite u_loop_S. cbv zeta. destruct (0 <? pulse_result (echo np)).
    + cbn [r_evs r_np]. rewrite trigs_attempt. cbn [length]. repeat split; lia.
    + cbn [r_evs r_np]. rewrite trigs_app, trigs_attempt. cbn [app length].
      match goal with |- context [u_loop W k drift echo ?s ?cc ?n] => destruct (IH s cc n) as (H1 & H2 & H3) end.
      rewrite H3. repeat split; lia.
Qed.

Lemma attempts_le_3 W drift echo st c np :
  (1 <= length (trigs (r_evs (u_measure W drift echo st c np))) <= 3)%nat.
Proof.
  destruct (u_loop_count W drift echo 3 st c np) as (H1 & H2 & _).
  unfold u_measure, max_attempts. split; [apply H2; lia|exact H1].
Qed.

Lemma pulses_consumed W drift echo st c np :
  r_np (u_measure W drift echo st c np) =
  (np + length (trigs (r_evs (u_measure W drift echo st c np))))%nat.
Proof. apply (u_loop_count W drift echo 3 st c np). Qed.

(* ---- fallback *)
Lemma u_loop_timeouts W drift echo n : forall st c np,
  (forall i, (i < n)%nat -> timed_out echo (np + i)) ->
  r_val (u_loop W n drift echo st c np) = (if has_dist st then last_dist st else 400 # 1) /\
  length (trigs (r_evs (u_loop W n drift echo st c np))) = n.
Proof.
  induction n as [|k IH]; intros st c np Hto; [cbn; auto|].
  rewrite u_loop_S. cbv zeta.
  assert (H0 : pulse_result (echo np) = 0).
  { specialize (Hto 0%nat ltac:(lia)). rewrite Nat.add_0_r in Hto. exact Hto. }
  rewrite H0. cbn [Z.ltb Z.compare r_val r_evs].
  rewrite trigs_app, trigs_attempt. cbn [app length].
  match goal with |- context [u_loop W k drift echo ?s ?cc ?n] => destruct (IH s cc n) as (H1 & H2) end.
  - intros i Hi. specialize (Hto (S i) ltac:(lia)). rewrite <- Nat.add_succ_comm in Hto. exact Hto.
  - rewrite H1, H2. cbn [has_dist last_dist]. auto.
Qed.

Lemma fallback_call W drift echo st c np :
  timed_out echo np -> timed_out echo (S np) -> timed_out echo (S (S np)) ->
  r_val (u_measure W drift echo st c np) = (if has_dist st then last_dist st else 400 # 1) /\
  length (trigs (r_evs (u_measure W drift echo st c np))) = 3%nat.
Proof.
  intros H0 H1 H2. apply u_loop_timeouts. intros i Hi.
  destruct i as [|[|[|i]]]; try lia; rewrite ?Nat.add_0_r, ?Nat.add_1_r, ?Nat.add_succ_r, ?Nat.add_0_r; assumption.
Qed.

Definition good_state (echo : nat -> Z) (np : nat) (st : ustate) : Prop :=
  match last_good echo np with
  | Some e => has_dist st = true /\ last_dist st = dist_of e
  | None => has_dist st = false
  end.

Lemma u_loop_good W drift echo n : forall st c np,
  good_state echo np st ->
  good_state echo (r_np (u_loop W n drift echo st c np)) (r_st (u_loop W n drift echo st c np)).
Proof.
  induction n as [|k IH]; intros st c np Hg; [exact Hg|].
  rewrite u_loop_S. cbv zeta. destruct (0 <? pulse_result (echo np)) eqn:E.
  - cbn [r_np r_st]. unfold good_state. cbn [last_good]. rewrite E. cbn. auto.
  - cbn [r_np r_st]. apply IH. unfold good_state in *. cbn [last_good]. rewrite E. exact Hg.
Qed.

Lemma u_calls_fallback W drift echo : forall gs st c np,
  good_state echo np st ->
  Forall (fun x =>
            timed_out echo (fst x) -> timed_out echo (S (fst x)) -> timed_out echo (S (S (fst x))) ->
            (r_val (snd x) ==
             match last_good echo (fst x) with
             | Some e => inject_Z e * (343 # 1) / (20000 # 1)
             | None => 400 # 1
             end)%Q)
         (u_calls W drift echo st c np gs).
Proof.
  induction gs as [|g r IH]; intros st c np Hg; cbn [u_calls]; constructor.
  - cbn [fst snd]. intros H0 H1 H2.
    destruct (fallback_call W drift echo st (pass_gap c g) np H0 H1 H2) as [Hv _]. rewrite Hv.
    unfold good_state in Hg. destruct (last_good echo np) as [e|].
    + destruct Hg as [Hh Hl]. rewrite Hh, Hl. apply dist_formula.
    + rewrite Hg. reflexivity.
  - apply IH. apply u_loop_good. exact Hg.
Qed.

Lemma fallback_history W drift echo c0 gs :
  Forall (fun x =>
            timed_out echo (fst x) -> timed_out echo (S (fst x)) -> timed_out echo (S (S (fst x))) ->
            (r_val (snd x) ==
             match last_good echo (fst x) with
             | Some e => inject_Z e * (343 # 1) / (20000 # 1)
             | None => 400 # 1
             end)%Q)
         (u_calls W drift echo u_init c0 0 gs).
Proof. apply u_calls_fallback. reflexivity. Qed.

(* ---- back-off *)
(* The helper only ever sees the wrapped clock; the statement is about true time.  The invariant
   carries the true millisecond count [T] at which the stored unsigned long was sampled. *)
Definition trig := (Z * Z * Z)%type.

Fixpoint chain (prev : option trig) (l : list trig) : Prop :=
  match l with
  | [] => True
  | b :: r => match prev with Some a => spaced a b | None => True end /\ chain (Some b) r
  end.

Definition final (prev : option trig) (l : list trig) : option trig :=
  fold_left (fun _ x => Some x) l prev.

Lemma chain_app l1 : forall prev l2,
  chain prev l1 -> chain (final prev l1) l2 -> chain prev (l1 ++ l2).
Proof.
  induction l1 as [|b r IH]; intros prev l2 H1 H2; cbn in *; [exact H2|].
  destruct H1 as [Ha Hb]. split; [exact Ha|]. apply IH; assumption.
Qed.

Lemma final_app l1 : forall prev l2, final prev (l1 ++ l2) = final (final prev l1) l2.
Proof. intros prev l2. unfold final. apply fold_left_app. Qed.

Lemma all_spaced_cons r : forall a, chain (Some a) r -> all_spaced (a :: r).
Proof.
  induction r as [|b r' IH]; intros a H; [exact I|].
  destruct H as [Hab Hr]. split; [exact Hab|]. apply IH. exact Hr.
Qed.

Lemma chain_all_spaced l : chain None l -> all_spaced l.
Proof. destruct l as [|a r]; [intros _; exact I|]. intros [_ H]. apply all_spaced_cons. exact H. Qed.

Lemma modulus_pos W : 0 <= W -> 0 < modulus W.
Proof. intro H. unfold modulus. apply Z.pow_pos_nonneg; lia. Qed.

(* unsigned subtraction of two wrapped clock readings = the true difference, wrapped; and a wrapped
   non-negative number never exceeds the number *)
Lemma wrapped_elapsed W now T :
  0 <= W -> T <= now ->
  0 <= wrap W (wrap W now - wrap W T) <= now - T.
Proof.
  intros HW Hle. pose proof (modulus_pos W HW) as HM. unfold wrap.
  rewrite <- Zminus_mod. split.
  - apply Z.mod_pos_bound. exact HM.
  - apply Z.mod_le; lia.
Qed.

(* [prev] = the last trigger so far (None: the helper has not triggered yet, and its flag says so) *)
Definition inv (W : Z) (prev : option trig) (T : Z) (st : ustate) (c : clock) : Prop :=
  0 <= T <= true_ms c /\
  match prev with
  | Some (t1, _, m1) => has_trig st = true /\ last_trig st = wrap W T /\ m1 = last_trig st /\ t1 / 1000 <= T
  | None => has_trig st = false
  end.

Lemma attempt_step W drift echo prev T st c np :
  0 <= W -> (forall k, 0 <= drift k) -> inv W prev T st c ->
  let a := u_attempt W drift echo st c np in
  let b := (a_t a, a_dur a, a_stamp a) in
  match prev with Some p => spaced p b | None => True end /\
  (forall d, a_delay a = Some d -> 1 <= d <= min_interval) /\
  forall ld hd, inv W (Some b) (true_ms (a_clk a))
                    {| last_trig := a_stamp a; has_trig := true; last_dist := ld; has_dist := hd |} (a_clk a).
Proof.
  intros HW Hd (Hl & Hp). cbv zeta.
  pose proof (pulse_cost_nonneg (pulse_result (echo np))) as Hc.
  pose proof (Hd (ndelay c)) as Hdk.
  pose proof (wrapped_elapsed W (true_ms c) T HW (proj2 Hl)) as He.
  unfold u_attempt, after_backoff, backoff_delay, inv, spaced, millis, tick_us, do_delay, min_interval in *.
  cbn [a_t a_dur a_stamp a_clk a_delay now_us ndelay last_trig has_trig].
  set (cost := pulse_cost (pulse_result (echo np))) in *. clearbody cost.
  set (dk := drift (ndelay c)) in *. clearbody dk.
  clear Hd.
  destruct prev as [[[t1 d1] m1]|].
  - destruct Hp as (Hh & Hlast & Hm & Hp). rewrite Hh, Hlast in *. cbn [negb].
    set (e := wrap W (wrap W (true_ms c) - wrap W T)) in *. clearbody e.
    set (last := wrap W T) in *. clearbody last.
    unfold true_ms in *.
    remember (60 - e) as dl eqn:Hdl.
    destruct (e <? 60) eqn:E1; [apply Z.ltb_lt in E1|apply Z.ltb_ge in E1];
      cbn [now_us ndelay];
      set (now := now_us c) in *; clearbody now;
      (split;
       [ Z.div_mod_to_equations; lia
       | split;
         [ intros d Hdd; try discriminate; injection Hdd as <-; lia
         | intros _ _; repeat split; try reflexivity; clear Hp; Z.div_mod_to_equations; lia ] ]).
  - rewrite Hp. cbn [negb]. unfold true_ms in *.
    set (now := now_us c) in *. clearbody now.
    split; [exact I|]. split; [intros d Hdd; discriminate|].
    intros _ _. cbn [now_us ndelay]. repeat split; try reflexivity; Z.div_mod_to_equations; lia.
Qed.

Lemma u_loop_chain W drift echo (HW : 0 <= W) (Hd : forall k, 0 <= drift k) n : forall prev T st c np,
  inv W prev T st c ->
  chain prev (trigs (r_evs (u_loop W n drift echo st c np))) /\
  exists T', inv W (final prev (trigs (r_evs (u_loop W n drift echo st c np)))) T'
                 (r_st (u_loop W n drift echo st c np)) (r_clk (u_loop W n drift echo st c np)).
Proof.
  induction n as [|k IH]; intros prev T st c np Hi.
  - cbn. split; [exact I|exists T; exact Hi].
  - rewrite u_loop_S. cbv zeta.
    destruct (attempt_step W drift echo prev T st c np HW Hd Hi) as (Hs & _ & Hnext).
    destruct (0 <? pulse_result (echo np)).
    + cbn [r_evs r_st r_clk]. rewrite trigs_attempt. cbn [chain final fold_left].
      split; [split; [exact Hs|exact I]|eexists; apply Hnext].
    + cbn [r_evs r_st r_clk]. rewrite trigs_app, trigs_attempt. cbn [app chain final fold_left].
      match goal with |- context [u_loop W k drift echo ?s ?cc ?n] =>
        destruct (IH (Some (a_t (u_attempt W drift echo st c np), a_dur (u_attempt W drift echo st c np),
                            a_stamp (u_attempt W drift echo st c np))) _ s cc n (Hnext _ _)) as [H1 H2] end.
      split; [split; [exact Hs|exact H1]|exact H2].
Qed.

Lemma inv_gap W prev T st c g : 0 <= g_us g -> inv W prev T st c -> inv W prev T st (pass_gap c g).
Proof.
  intros Hg (Hl & Hp). split; [|exact Hp].
  unfold true_ms, pass_gap in *. cbn [now_us].
  Z.div_mod_to_equations; lia.
Qed.

Lemma u_calls_chain W drift echo (HW : 0 <= W) (Hd : forall k, 0 <= drift k) : forall gs prev T st c np,
  inv W prev T st c -> Forall (fun g => 0 <= g_us g) gs ->
  chain prev (trigs (history_events (u_calls W drift echo st c np gs))).
Proof.
  induction gs as [|g r IH]; intros prev T st c np Hi Hg; [exact I|].
  inversion Hg as [|g' r' Hg0 Hgr]; subst.
  cbn [u_calls history_events flat_map snd]. rewrite trigs_app.
  destruct (u_loop_chain W drift echo HW Hd 3 prev T st (pass_gap c g) np (inv_gap _ _ _ _ _ _ Hg0 Hi)) as [H1 [T' H2]].
  apply chain_app; [exact H1|].
  apply (IH _ T'); [exact H2|exact Hgr].
Qed.

Lemma init_inv W c0 : 0 <= now_us c0 -> inv W None 0 u_init c0.
Proof.
  intros Hc. split; [|reflexivity].
  unfold true_ms. Z.div_mod_to_equations; lia.
Qed.

Lemma backoff_history W drift echo c0 gs :
  0 <= W -> (forall k, 0 <= drift k) -> 0 <= now_us c0 -> Forall (fun g => 0 <= g_us g) gs ->
  all_spaced (trigs (history_events (u_calls W drift echo u_init c0 0 gs))).
Proof.
  intros HW Hd Hc Hg. apply chain_all_spaced. apply (u_calls_chain W drift echo HW Hd gs None 0); [|exact Hg].
  apply init_inv; assumption.
Qed.

(* every back-off delay the helper issues is between 1 and 60 ms - over whole histories, across
   the roll-over as well (the absolute-deadline variant of the test would ask for ~2^W ms) *)
Definition delay_of (e : uev) : list Z := match e with UDelay d => [d] | UTrig _ _ _ => [] end.
Definition delays (evs : list uev) : list Z := flat_map delay_of evs.

Lemma delays_app l1 l2 : delays (l1 ++ l2) = delays l1 ++ delays l2.
Proof. unfold delays. apply flat_map_app. Qed.

Lemma delays_attempt a : delays (attempt_events a) = match a_delay a with Some d => [d] | None => [] end.
Proof. unfold attempt_events, delays. destruct (a_delay a); reflexivity. Qed.

Lemma u_loop_delays W drift echo (HW : 0 <= W) (Hd : forall k, 0 <= drift k) n : forall prev T st c np,
  inv W prev T st c ->
  Forall (fun d => 1 <= d <= min_interval) (delays (r_evs (u_loop W n drift echo st c np))).
Proof.
  induction n as [|k IH]; intros prev T st c np Hi; [constructor|].
  rewrite u_loop_S. cbv zeta.
  destruct (attempt_step W drift echo prev T st c np HW Hd Hi) as (_ & Hdel & Hnext).
  assert (Ha : Forall (fun d => 1 <= d <= min_interval) (delays (attempt_events (u_attempt W drift echo st c np)))).
  { rewrite delays_attempt. destruct (a_delay (u_attempt W drift echo st c np)) as [d|] eqn:E; [|constructor].
    constructor; [apply Hdel; reflexivity|constructor]. }
  destruct (0 <? pulse_result (echo np)).
  - cbn [r_evs]. exact Ha.
  - cbn [r_evs]. rewrite delays_app. apply Forall_app. split; [exact Ha|].
    eapply IH. apply Hnext.
Qed.

Lemma u_calls_delays W drift echo (HW : 0 <= W) (Hd : forall k, 0 <= drift k) : forall gs prev T st c np,
  inv W prev T st c -> Forall (fun g => 0 <= g_us g) gs ->
  Forall (fun d => 1 <= d <= min_interval) (delays (history_events (u_calls W drift echo st c np gs))).
Proof.
  induction gs as [|g r IH]; intros prev T st c np Hi Hg; [constructor|].
  inversion Hg as [|g' r' Hg0 Hgr]; subst.
  cbn [u_calls history_events flat_map snd]. rewrite delays_app. apply Forall_app. split.
  - eapply (u_loop_delays W drift echo HW Hd 3). apply inv_gap; [exact Hg0|exact Hi].
  - destruct (u_loop_chain W drift echo HW Hd 3 prev T st (pass_gap c g) np (inv_gap _ _ _ _ _ _ Hg0 Hi)) as [_ [T' H2]].
    eapply IH; [exact H2|exact Hgr].
Qed.

Lemma backoff_delays_bounded W drift echo c0 gs :
  0 <= W -> (forall k, 0 <= drift k) -> 0 <= now_us c0 -> Forall (fun g => 0 <= g_us g) gs ->
  Forall (fun d => 1 <= d <= min_interval) (delays (history_events (u_calls W drift echo u_init c0 0 gs))).
Proof.
  intros HW Hd Hc Hg. apply (u_calls_delays W drift echo HW Hd gs None 0); [|exact Hg].
  apply init_inv; assumption.
Qed.

(* the unsigned long stored after a trigger is the wrapped true time of a moment not before the
   trigger: it is 0 exactly when that true time is a multiple of 2^W (the first millisecond after
   power-up, and every roll-over) - which is why the helper keeps a separate "has triggered" flag *)
Lemma stamp_after_trigger W drift echo st c np :
  let a := u_attempt W drift echo st c np in
  a_stamp a = wrap W (true_ms (a_clk a)) /\ a_t a / 1000 <= true_ms (a_clk a).
Proof.
  cbv zeta. split; [reflexivity|].
  pose proof (pulse_cost_nonneg (pulse_result (echo np))) as Hc.
  unfold u_attempt, true_ms, tick_us. cbn [a_t a_clk now_us].
  set (cost := pulse_cost _) in *. clearbody cost.
  set (x := now_us (after_backoff W drift st c)). clearbody x.
  Z.div_mod_to_equations; lia.
Qed.
