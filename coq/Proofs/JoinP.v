(* Proofs for C02, second part: the return-type join is an upper bound (scalar labels),
   its refutation for list labels and for the annotated-return override, the packaged
   soundness statement of [infer_s], and one refutation witness per guard clause. *)
From Coq Require Import ZArith QArith List Bool Lia.
From RV Require Import Base.Wire Base.Text Lang.PyAst Lang.PySem Lang.Infer Lang.InferGuard Lang.InferSpec
  Gen.InferTables Proofs.InferP.
Import ListNotations.
Open Scope Z_scope.

(* ------------------------------------------------------------------ dedupe / filter membership *)
Lemma dedupe_In x l : In x (dedupe l) <-> In x l.
Proof. rewrite <- !ty_mem_In. rewrite dedupe_mem. tauto. Qed.

Lemma scalar_not_empty u : scalar u = true -> is_empty_label u = false.
Proof. destruct u; cbn; try discriminate; reflexivity. Qed.

Lemma not_mem_not_in t l : ty_mem t l = false -> ~ In t l.
Proof. intros H Hin. apply ty_mem_In in Hin. congruence. Qed.

Lemma forallb_bool_all l : forallb (ty_eqb TBool) l = true -> forall x, In x l -> x = TBool.
Proof.
  intros H x Hx. rewrite forallb_forall in H. specialize (H _ Hx). apply ty_eqb_eq in H. congruence.
Qed.

Lemma forallb_false_ex {X} (p : X -> bool) l : forallb p l = false -> exists x, In x l /\ p x = false.
Proof.
  induction l as [|a r IH]; cbn; [discriminate|].
  destruct (p a) eqn:E; cbn.
  - intro H. destruct (IH H) as (x & Hx & Hp). exists x. split; [right; exact Hx | exact Hp].
  - intros _. exists a. split; [left; reflexivity | exact E].
Qed.

(* ------------------------------------------------------------------ _merge_return_types *)
Lemma merge_ret_upper types hv t :
  merge_return_types types hv = Some t ->
  forallb scalar types = true ->
  forall u, In u types -> sub_ty u t.
Proof.
  intros Hm Hsc u Hu.
  rewrite forallb_forall in Hsc.
  unfold merge_return_types in Hm.
  set (U := dedupe (filter (fun t0 => negb (is_empty_label t0)) types)) in *.
  assert (HU : forall x, In x U <-> In x types /\ is_empty_label x = false).
  { intro x. unfold U. rewrite dedupe_In, filter_In. rewrite negb_true_iff. tauto. }
  assert (HuU : In u U) by (apply HU; split; [exact Hu | apply scalar_not_empty; apply Hsc; exact Hu]).
  assert (HscU : forall x, In x U -> scalar x = true) by (intros x Hx; apply Hsc; apply HU; exact Hx).
  clearbody U.
  destruct hv.
  { destruct U; [contradiction | discriminate]. }
  destruct U as [|u0 U']; [contradiction|].
  set (V := u0 :: U') in *.
  destruct (ty_mem TString V) eqn:Es.
  { destruct (Nat.ltb 1 (length V)) eqn:El; [discriminate|]. inversion Hm; subst t.
    unfold V in El, Es, HuU. destruct U' as [|u1 U'']; [|cbn in El; discriminate].
    cbn [ty_mem] in Es. rewrite orb_false_r in Es. apply ty_eqb_eq in Es. subst u0.
    destruct HuU as [<-|[]]. left; reflexivity. }
  pose proof (not_mem_not_in _ _ Es) as Hns.
  destruct (ty_mem TFloat V) eqn:Ef.
  { inversion Hm; subst t. pose proof (HscU _ HuU) as Hs.
    destruct u; cbn in Hs; try discriminate; unfold sub_ty; tauto. }
  pose proof (not_mem_not_in _ _ Ef) as Hnf.
  destruct (forallb (ty_eqb TBool) V) eqn:Eb.
  { inversion Hm; subst t. rewrite (forallb_bool_all _ Eb _ HuU). left; reflexivity. }
  destruct (ty_mem TInt V) eqn:Ei.
  { inversion Hm; subst t. pose proof (HscU _ HuU) as Hs.
    destruct u; cbn in Hs; try discriminate; unfold sub_ty; tauto. }
  pose proof (not_mem_not_in _ _ Ei) as Hni.
  exfalso.
  destruct (forallb_false_ex _ _ Eb) as (x & Hx & Hxb).
  pose proof (HscU _ Hx) as Hs.
  destruct x; cbn in Hs; try discriminate; cbn in Hxb; try discriminate.
  - apply Hni; exact Hx.
  - apply Hnf; exact Hx.
  - apply Hns; exact Hx.
Qed.

(* the join does not go above what is needed: the result is one of the inputs' labels
   (or "void" when nothing is returned) *)
Lemma merge_ret_is_input types t :
  merge_return_types types false = Some t ->
  forallb scalar types = true ->
  t = TVoid /\ types = [] \/ In t types.
Proof.
  intros Hm Hsc. rewrite forallb_forall in Hsc.
  unfold merge_return_types in Hm.
  set (U := dedupe (filter (fun t0 => negb (is_empty_label t0)) types)) in *.
  assert (HU : forall x, In x U <-> In x types /\ is_empty_label x = false).
  { intro x. unfold U. rewrite dedupe_In, filter_In. rewrite negb_true_iff. tauto. }
  clearbody U.
  destruct U as [|u0 U'].
  - inversion Hm; subst t. left. split; [reflexivity|].
    destruct types as [|a r]; [reflexivity|]. exfalso.
    assert (In a []) as []. apply HU. split; [left; reflexivity|]. apply scalar_not_empty. apply Hsc. left; reflexivity.
  - right. set (V := u0 :: U') in *.
    assert (HV : forall x, ty_mem x V = true -> In x types).
    { intros x Hx. apply ty_mem_In in Hx. apply HU in Hx. tauto. }
    destruct (ty_mem TString V) eqn:Es.
    { destruct (Nat.ltb 1 (length V)); [discriminate|]. inversion Hm; subst t. apply HV; exact Es. }
    destruct (ty_mem TFloat V) eqn:Ef.
    { inversion Hm; subst t. apply HV; exact Ef. }
    destruct (forallb (ty_eqb TBool) V) eqn:Eb.
    { inversion Hm; subst t. cbn [forallb V] in Eb. unfold V in Eb. cbn [forallb] in Eb. apply andb_true_iff in Eb as [E0 _]. apply ty_eqb_eq in E0. subst u0.
      apply HU. left; reflexivity. }
    destruct (ty_mem TInt V) eqn:Ei.
    { inversion Hm; subst t. apply HV; exact Ei. }
    exfalso.
    destruct (forallb_false_ex _ _ Eb) as (x & Hx & Hxb).
    assert (Hs : scalar x = true) by (apply Hsc; apply HU; exact Hx).
    apply ty_mem_In in Hx.
    destruct x; cbn in Hs; try discriminate; cbn in Hxb; try discriminate; congruence.
Qed.

(* a list label is silently joined with a scalar to "int" *)
Lemma merge_ret_list_refuted :
  merge_return_types [TList TInt; TInt] false = Some TInt /\
  merge_return_types [TList TInt; TList TFloat] false = Some TInt.
Proof. vm_compute. split; reflexivity. Qed.

(* the annotated return type replaces the join: def f() -> int with "return 2.5" is declared int *)
Lemma override_refuted :
  merge_return_types [TFloat] false = Some TFloat /\
  override_return TFloat (Some TInt) 1 = TInt /\ ~ sub_ty TFloat TInt.
Proof.
  split; [vm_compute; reflexivity|]. split; [vm_compute; reflexivity|].
  unfold sub_ty. intros [H|[[H _]|[[H _]|[H _]]]]; discriminate.
Qed.

(* without an annotation the override is the identity *)
Lemma override_none m n : override_return m None n = m.
Proof. reflexivity. Qed.
Lemma override_same m n : override_return m (Some m) n = m.
Proof.
  unfold override_return. rewrite ty_eqb_refl. cbn.
  destruct (ty_eqb m TVoid); cbn; reflexivity.
Qed.

(* ------------------------------------------------------------------ soundness of infer_s, packaged *)
Theorem infer_s_sound F A C G rho e t G1 v :
  env_sound G rho -> guard F A C G e = true ->
  infer_s F A C G e = Some (t, G1) -> peval rho e = Ok v ->
  repr t v /\ G1 = G.
Proof.
  intros Hs Hg Hi Hev. unfold infer_s in Hi.
  destruct (infer unit (call_static F A) C tt G e) as [[[t0 G0] s0]|] eqn:E; [|discriminate].
  inversion Hi; subst t0 G0. split.
  - eapply infer_sound; eassumption.
  - eapply pure_infer; [exact E | apply guard_pure; exact Hg].
Qed.

(* the label keeps representing the value once it is stored with C's implicit conversion *)
Lemma repr_crepr : forall t v, repr t v -> crepr (cpp_type t) v.
Proof.
  induction t as [| | | |e IH| |s]; intros v H; destruct v; cbn in *; try contradiction; try exact I.
  induction H as [|x l Hx Hl IHl]; constructor; [apply IH; exact Hx | exact IHl].
Qed.

(* ------------------------------------------------------------------ refutation witnesses, one per guard clause *)
Definition x_a : ident := [97].
Definition x_s : ident := [115].
Definition x_c : ident := [99].

(* the expression is accepted by [infer_s] with label t, Python evaluates it to v, and t does not hold v *)
Definition unsound_at (G : tenv) (rho : env) (e : pexpr) : Prop :=
  exists t G1 v, infer_s [] [] None G e = Some (t, G1) /\ peval rho e = Ok v /\ ~ repr t v.

Ltac witness t g v := exists t, g, v; split; [vm_compute; reflexivity | split; [vm_compute; reflexivity | cbn; tauto]].

Lemma env_sound_nil G : env_sound G [].
Proof. intros x v H. discriminate. Qed.

(* 7 / 2 is labelled int, Python yields 3.5 *)
Lemma int_div_unsound : unsound_at [] [] (EBin Div (EInt 7) (EInt 2)).
Proof. witness TInt (@nil (ident * ty)) (VFloat (7 # 2)). Qed.
(* 2 ** -1 is labelled int, Python yields 0.5 *)
Lemma int_pow_unsound : unsound_at [] [] (EBin Pow (EInt 2) (EInt (-1))).
Proof. witness TInt (@nil (ident * ty)) (VFloat (1 # 2)). Qed.
(* abs(-2.5) is labelled int *)
Lemma abs_unsound : unsound_at [] [] (ECall n_abs [EFloat (-5 # 2)] []).
Proof. witness TInt (@nil (ident * ty)) (VFloat (5 # 2)). Qed.
(* max(1, 2.5) is labelled int *)
Lemma max_unsound : unsound_at [] [] (ECall n_max [EInt 1; EFloat (5 # 2)] []).
Proof. witness TInt (@nil (ident * ty)) (VFloat (5 # 2)). Qed.
(* min(2.5, 7) is labelled int *)
Lemma min_unsound : unsound_at [] [] (ECall n_min [EFloat (5 # 2); EInt 7] []).
Proof. witness TInt (@nil (ident * ty)) (VFloat (5 # 2)). Qed.
(* 0 or 5 is labelled bool, Python yields 5 *)
Lemma boolop_unsound : unsound_at [] [] (EBoolOp Or [EInt 0; EInt 5]).
Proof. witness TBool (@nil (ident * ty)) (VInt 5). Qed.
(* 2.5 and 1.5 is labelled bool *)
Lemma boolop_float_unsound : unsound_at [] [] (EBoolOp And [EFloat (5 # 2); EFloat (3 # 2)]).
Proof. witness TBool (@nil (ident * ty)) (VFloat (3 # 2)). Qed.
(* -True is labelled bool, Python yields -1 *)
Lemma neg_bool_unsound : unsound_at [] [] (EUn USub (EBool true)).
Proof. witness TBool (@nil (ident * ty)) (VInt (-1)). Qed.
(* "a" if False else 1 is labelled String *)
Lemma ifexp_unsound : unsound_at [] [] (EIfExp (EBool false) (EStr [97]) (EInt 1)).
Proof. witness TString (@nil (ident * ty)) (VInt 1). Qed.
(* ["a", 1] is labelled list[String] *)
Lemma list_unsound : unsound_at [] [] (EList [EStr [97]; EInt 1]).
Proof.
  exists (TList TString), (@nil (ident * ty)), (VList [VStr [97]; VInt 1]).
  split; [vm_compute; reflexivity | split; [vm_compute; reflexivity|]].
  cbn. intro H. inversion H as [|? ? _ H2]; subst. inversion H2 as [|? ? H3 _]; subst. exact H3.
Qed.
(* "abc"[0] is labelled int *)
Lemma subscript_unsound : unsound_at [] [] (ESubscript (EStr [97;98;99]) (EInt 0)).
Proof. witness TInt (@nil (ident * ty)) (VStr [97]). Qed.
(* (1, 2) is labelled int *)
Lemma tuple_unsound : unsound_at [] [] (ETuple [EInt 1; EInt 2]).
Proof. witness TInt (@nil (ident * ty)) (VTuple [VInt 1; VInt 2]). Qed.
(* True + True is labelled int and is 2: this one is SOUND, the guard does not exclude it *)
Lemma bool_add_guarded : guard [] [] None [] (EBin Add (EBool true) (EBool true)) = true.
Proof. vm_compute. reflexivity. Qed.

(* string contagion: a * s with a:int, s:String rewrites var_types[a] to String although a still holds 2 *)
Definition G_as : tenv := [(x_a, TInt); (x_s, TString)].
Definition rho_as : env := [(x_a, VInt 2); (x_s, VStr [97;98])].
Lemma contagion_breaks_env :
  env_sound G_as rho_as /\
  exists G1, infer_s [] [] None G_as (EBin Mult (EName x_a) (EName x_s)) = Some (TString, G1) /\
             peval rho_as (EBin Mult (EName x_a) (EName x_s)) = Ok (VStr [97;98;97;98]) /\
             ~ env_sound G1 rho_as.
Proof.
  split.
  - intros x v H. unfold rho_as, lookup in H. cbn [tlookup] in H.
    destruct (text_eqb x x_a) eqn:Ea.
    + apply text_eqb_eq in Ea. subst x. inversion H; subst. vm_compute. exact I.
    + destruct (text_eqb x x_s) eqn:Es; [|discriminate].
      apply text_eqb_eq in Es. subst x. inversion H; subst. vm_compute. exact I.
  - exists [(x_a, TString); (x_s, TString)].
    split; [vm_compute; reflexivity|]. split; [vm_compute; reflexivity|].
    intro H. specialize (H x_a (VInt 2) eq_refl). vm_compute in H. exact H.
Qed.

(* every witness above lies outside the guard (so the partial theorem is as strong as these allow) *)
Lemma witnesses_outside_guard :
  forallb (fun e => negb (guard [] [] None [] e))
    [EBin Div (EInt 7) (EInt 2); EBin Pow (EInt 2) (EInt (-1)); ECall n_abs [EFloat (-5 # 2)] [];
     ECall n_max [EInt 1; EFloat (5 # 2)] []; ECall n_min [EFloat (5 # 2); EInt 7] [];
     EBoolOp Or [EInt 0; EInt 5]; EBoolOp And [EFloat (5 # 2); EFloat (3 # 2)]; EUn USub (EBool true);
     EIfExp (EBool false) (EStr [97]) (EInt 1); EList [EStr [97]; EInt 1];
     ESubscript (EStr [97;98;99]) (EInt 0); ETuple [EInt 1; EInt 2]] = true
  /\ guard [] [] None G_as (EBin Mult (EName x_a) (EName x_s)) = false.
Proof. vm_compute. split; reflexivity. Qed.

(* non-vacuity of the partial theorem: a guarded, non-trivial expression and environment *)
Definition demo_G : tenv := [(x_a, TInt); (x_c, TFloat); (x_s, TString)].
Definition demo_rho : env := [(x_a, VInt 3); (x_c, VFloat (5 # 2)); (x_s, VStr [120])].
Definition demo_e : pexpr :=
  EIfExp (ECompare (EName x_a) [PyAst.Lt] [EInt 5])
         (EBin Add (EBin Mult (EName x_a) (EName x_c)) (EInt 1))
         (ECall n_abs [EBin Sub (EName x_a) (EInt 9)] []).
Lemma demo_env_sound : env_sound demo_G demo_rho.
Proof.
  intros x v H. unfold demo_rho, lookup in H. cbn [tlookup] in H.
  destruct (text_eqb x x_a) eqn:Ea.
  { apply text_eqb_eq in Ea. subst x. inversion H; subst. vm_compute. exact I. }
  destruct (text_eqb x x_c) eqn:Ec.
  { apply text_eqb_eq in Ec. subst x. inversion H; subst. vm_compute. exact I. }
  destruct (text_eqb x x_s) eqn:Es; [|discriminate].
  apply text_eqb_eq in Es. subst x. inversion H; subst. vm_compute. exact I.
Qed.
Lemma demo_nonvacuous :
  env_sound demo_G demo_rho /\ guard [] [] None demo_G demo_e = true /\
  infer_s [] [] None demo_G demo_e = Some (TFloat, demo_G) /\
  peval demo_rho demo_e = Ok (VFloat (17 # 2)).
Proof.
  split; [exact demo_env_sound|]. split; [vm_compute; reflexivity|].
  split; vm_compute; reflexivity.
Qed.
