(* C18: proof obligations over the tables REGENERATED from /repo on every run (coq/Gen/LcdAnimTables.v,
   written by harness/gen/lcdanim.py).  What the hand models of Device/DLCDAnim.v and Host/LCDAnim.v
   take for granted about the current source is checked here by the kernel:
   - host, parser and emitter know exactly the four styles of the model;
   - every style has a start helper and a tick helper, each defined exactly once in the helper snippet;
   - no helper (nor any __redu_* function it calls) contains a delay()/delayMicroseconds() call or a
     while/do/goto (the only loops are the bounded for-loops over the display width);
   - start helpers never read millis(); every tick helper reads it exactly once and begins with the
     inactive test followed by the rate-limiter text the model's [dgate] transcribes, and the limiter's
     variable occurs nowhere else. *)
From Coq Require Import ZArith List Bool Lia.
From RV Require Import Host.LCDAnim Device.DLCDAnim Gen.LcdAnimTables.
Import ListNotations.
Open Scope Z_scope.

Fixpoint text_eqb (a b : list Z) : bool :=
  match a, b with
  | [], [] => true
  | x :: a', y :: b' => (x =? y) && text_eqb a' b'
  | _, _ => false
  end.

Fixpoint lookup (k : list Z) (t : list (list Z * list Z)) : option (list Z) :=
  match t with
  | [] => None
  | (k', v) :: r => if text_eqb k k' then Some v else lookup k r
  end.

Definition fact := (list Z * Z * Z * Z * Z * Z * Z)%type.
Definition fact_name (f : fact) : list Z := let '(n, _, _, _, _, _, _) := f in n.
Fixpoint fact_of (n : list Z) (t : list fact) : option fact :=
  match t with
  | [] => None
  | f :: r => if text_eqb n (fact_name f) then Some f else fact_of n r
  end.

(* defined once, never blocks *)
Definition fact_nonblocking (f : fact) : bool :=
  let '(_, defs, delays, loops, _, _, _) := f in (defs =? 1) && (delays =? 0) && (loops =? 0).
Definition start_ok (n : list Z) : bool :=
  match fact_of n helper_facts with
  | Some ((_, _, _, _, millis, gate, elapsed) as f) => fact_nonblocking f && (millis =? 0) && (elapsed =? 0)
  | None => false
  end.
Definition tick_ok (n : list Z) : bool :=
  match fact_of n helper_facts with
  | Some ((_, _, _, _, millis, gate, elapsed) as f) =>
      fact_nonblocking f && (millis =? 1) && (gate =? 1) && (elapsed =? 2)
  | None => false
  end.

Definition all_styles : list style := [Blink; Bounce; Scroll; Typewriter].   (* sorted by name *)
Definition names_sorted : list (list Z) := map style_name all_styles.

Definition style_ok (s : style) : bool :=
  match lookup (style_name s) start_funcs, lookup (style_name s) tick_funcs with
  | Some a, Some b => start_ok a && tick_ok b
  | _, _ => false
  end.

Lemma host_styles_eq : host_styles = names_sorted.
Proof. vm_compute. reflexivity. Qed.
Lemma parser_styles_eq : parser_styles = names_sorted.
Proof. vm_compute. reflexivity. Qed.
Lemma start_keys_eq : map fst start_funcs = names_sorted.
Proof. vm_compute. reflexivity. Qed.
Lemma tick_keys_eq : map fst tick_funcs = names_sorted.
Proof. vm_compute. reflexivity. Qed.
Lemma helpers_nonblocking : forallb fact_nonblocking helper_facts = true.
Proof. vm_compute. reflexivity. Qed.
Lemma styles_ok : forallb style_ok all_styles = true.
Proof. vm_compute. reflexivity. Qed.

Lemma In_names name : In name names_sorted <-> exists s, name = style_name s.
Proof.
  split.
  - cbn. intros [H|[H|[H|[H|[]]]]]; subst;
      [exists Blink|exists Bounce|exists Scroll|exists Typewriter]; reflexivity.
  - intros [s ->]. destruct s; cbn; auto.
Qed.

Lemma style_ok_all s : style_ok s = true.
Proof.
  pose proof styles_ok as H. rewrite forallb_forall in H. apply H. destruct s; cbn; auto.
Qed.

Lemma text_eqb_eq a b : text_eqb a b = true -> a = b.
Proof.
  revert b; induction a as [|x a IH]; intros [|y b] H; cbn in H; try discriminate; [reflexivity|].
  apply andb_true_iff in H as [H1 H2]. apply Z.eqb_eq in H1. subst. f_equal. auto.
Qed.

Lemma lookup_In k t v : lookup k t = Some v -> In (k, v) t.
Proof.
  induction t as [|[k' v'] r IH]; cbn [lookup]; [discriminate|].
  destruct (text_eqb k k') eqn:E.
  - intro H. inversion H; subst. apply text_eqb_eq in E. subst. left. reflexivity.
  - intro H. right. auto.
Qed.

(* the statement used by Props/C18.v *)
Lemma tables_complete :
  (forall name, In name host_styles <-> exists s, name = style_name s) /\
  (forall name, In name parser_styles <-> exists s, name = style_name s) /\
  (forall name, In name (map fst start_funcs) <-> exists s, name = style_name s) /\
  (forall name, In name (map fst tick_funcs) <-> exists s, name = style_name s) /\
  (forall s, exists st tk, In (style_name s, st) start_funcs /\ In (style_name s, tk) tick_funcs /\
                           start_ok st = true /\ tick_ok tk = true) /\
  (forall f, In f helper_facts -> fact_nonblocking f = true).
Proof.
  rewrite host_styles_eq, parser_styles_eq, start_keys_eq, tick_keys_eq.
  repeat split; try apply In_names.
  - intro s. pose proof (style_ok_all s) as H. unfold style_ok in H.
    destruct (lookup (style_name s) start_funcs) as [a|] eqn:Ea; [|discriminate].
    destruct (lookup (style_name s) tick_funcs) as [b|] eqn:Eb; [|discriminate].
    apply andb_true_iff in H as [Ha Hb]. exists a, b.
    repeat split; auto using lookup_In.
  - apply forallb_forall. exact helpers_nonblocking.
Qed.
